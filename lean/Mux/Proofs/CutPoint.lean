/-
  Mux.Proofs.CutPoint — well-formed pieces (`WfPiece`: no brace at all, or one `{…}` token at the
  start followed by brace-free text), `NewSegment` on prefixes of such pieces, and the cut-point
  lemma for `longestPrefix` (after the D22 repair): the cut is inside literal text or at least one
  byte after the closing brace, never inside `{…}` and never directly after `}`.
-/
import Mux.Proofs.Syntax
namespace Mux.P9
open Mux

/-! ## `indexByte` and `take` -/

theorem indexByte_take (b : UInt8) (v : Bytes) (l : Nat) :
    indexByte b (v.take l) =
      match indexByte b v with
      | some i => if i < l then some i else none
      | none => none := by
  induction v generalizing l with
  | nil => simp [indexByte]
  | cons c cs ih =>
    cases l with
    | zero =>
      simp only [List.take_zero, indexByte]
      split <;> simp
    | succ l =>
      simp only [List.take_succ_cons, indexByte]
      split
      · simp
      · rw [ih l]
        cases indexByte b cs with
        | none => simp
        | some j =>
          simp only [Option.map_some]
          by_cases hj : j < l
          · simp [hj]
          · simp [hj]

theorem indexByte_none_of_not_mem {b : UInt8} {v : Bytes} (h : b ∉ v) : indexByte b v = none :=
  indexByte_eq_none_iff.2 h

theorem indexByte_isSome_of_mem {b : UInt8} {v : Bytes} (h : b ∈ v) : ∃ i, indexByte b v = some i := by
  cases hi : indexByte b v with
  | none => exact absurd h (indexByte_eq_none_iff.1 hi)
  | some i => exact ⟨i, rfl⟩

/-- `indexByte` returns the FIRST position. -/
theorem indexByte_first {b : UInt8} {v : Bytes} {i : Nat} (h : indexByte b v = some i) :
    ∀ j, j < i → v[j]? ≠ some b := by
  induction v generalizing i with
  | nil => cases h
  | cons c cs ih =>
    simp only [indexByte] at h
    split at h
    · cases h; intro j hj; omega
    · rename_i hc
      cases hi : indexByte b cs with
      | none => simp [hi] at h
      | some k =>
        simp only [hi, Option.map_some, Option.some.injEq] at h
        subst h
        intro j hj
        cases j with
        | zero => simpa using hc
        | succ j => simpa using ih hi j (by omega)

/-! ## Well-formed pieces -/

/-- No brace at all. -/
def NoBrace (v : Bytes) : Prop := startByte ∉ v ∧ endByte ∉ v

/-- `{body}suf`. -/
def tok (body suf : Bytes) : Bytes := startByte :: (body ++ endByte :: suf)

/-- One `{…}` token at the start, no other brace. -/
def TokPiece (v : Bytes) : Prop := ∃ body suf, v = tok body suf ∧ NoBrace body ∧ NoBrace suf

/-- A piece as `splitString` produces it from a pattern whose braces are balanced and not nested:
literal text without braces, or one token followed by literal text without braces. -/
def WfPiece (v : Bytes) : Prop := NoBrace v ∨ TokPiece v

/-- The hypothesis "balanced `{name:rule}` tokens, literal text without braces" on a pattern. -/
def WfPattern (p : Bytes) : Prop := ∀ v ∈ splitString p, WfPiece v

theorem NoBrace.take {v : Bytes} (h : NoBrace v) (n : Nat) : NoBrace (v.take n) :=
  ⟨fun hm => h.1 (List.mem_of_mem_take hm), fun hm => h.2 (List.mem_of_mem_take hm)⟩

theorem NoBrace.drop {v : Bytes} (h : NoBrace v) (n : Nat) : NoBrace (v.drop n) :=
  ⟨fun hm => h.1 (List.mem_of_mem_drop hm), fun hm => h.2 (List.mem_of_mem_drop hm)⟩

theorem NoBrace.nil : NoBrace [] := ⟨by simp, by simp⟩

theorem NoBrace.wf {v : Bytes} (h : NoBrace v) : WfPiece v := .inl h

theorem tok_length (body suf : Bytes) : (tok body suf).length = body.length + suf.length + 2 := by
  simp [tok]; omega

theorem tok_take (body suf : Bytes) (k : Nat) :
    (tok body suf).take (body.length + 2 + k) = tok body (suf.take k) := by
  have : body.length + 2 + k = (body.length + 1 + k) + 1 := by omega
  rw [tok, this, List.take_succ_cons, List.take_append]
  have h1 : List.take (body.length + 1 + k) body = body := List.take_of_length_le (by omega)
  have h2 : body.length + 1 + k - body.length = k + 1 := by omega
  rw [h1, h2, List.take_succ_cons]
  rfl

theorem tok_drop (body suf : Bytes) (k : Nat) :
    (tok body suf).drop (body.length + 2 + k) = suf.drop k := by
  have : body.length + 2 + k = (body.length + 1 + k) + 1 := by omega
  rw [tok, this, List.drop_succ_cons, List.drop_append]
  have h1 : List.drop (body.length + 1 + k) body = [] := List.drop_of_length_le (by omega)
  have h2 : body.length + 1 + k - body.length = k + 1 := by omega
  rw [h1, h2, List.drop_succ_cons]
  rfl

theorem tok_start (body suf : Bytes) : indexByte startByte (tok body suf) = some 0 := by
  simp [tok, indexByte]

theorem indexByte_append_of_not_mem {b : UInt8} {x y : Bytes} (h : b ∉ x) :
    indexByte b (x ++ y) = (indexByte b y).map (· + x.length) := by
  induction x with
  | nil => simp
  | cons c cs ih =>
    simp only [List.mem_cons, not_or] at h
    have hc : ¬ c = b := fun e => h.1 e.symm
    simp only [List.cons_append, indexByte, hc, if_false, ih h.2, List.length_cons, Option.map_map]
    congr 1

theorem tok_end {body : Bytes} (suf : Bytes) (h : endByte ∉ body) :
    indexByte endByte (tok body suf) = some (body.length + 1) := by
  have h0 : ¬ startByte = endByte := by decide
  simp only [tok, indexByte, h0, if_false]
  rw [indexByte_append_of_not_mem h]
  simp [indexByte]

/-- After the closing brace of a token piece there is no further `}`. -/
theorem tok_no_end_after {body suf : Bytes} (hs : endByte ∉ suf) :
    ∀ i, body.length + 1 < i → (tok body suf)[i]? ≠ some endByte := by
  intro i hi hget
  have hmem : endByte ∈ (tok body suf).drop (body.length + 2 + 0) := by
    have : (tok body suf).drop (body.length + 2) = (tok body suf)[body.length + 2]?.toList ++ (tok body suf).drop (body.length + 3) := by
      cases h : (tok body suf)[body.length + 2]? with
      | none =>
        rw [List.getElem?_eq_none_iff] at h
        simp [List.drop_of_length_le h, List.drop_of_length_le (Nat.le_succ_of_le h)]
      | some x =>
        obtain ⟨hlt, hx⟩ := List.getElem?_eq_some_iff.1 h
        rw [List.drop_eq_getElem_cons hlt, hx]
        rfl
    rw [Nat.add_zero]
    obtain ⟨hlt, hx⟩ := List.getElem?_eq_some_iff.1 hget
    rw [← hx]
    exact List.mem_drop_iff_getElem.2 ⟨i - (body.length + 2), by omega, by congr 1; omega⟩
  rw [tok_drop] at hmem
  simp only [List.drop_zero] at hmem
  exact hs hmem

/-! ## `NewSegment` on pieces without `{` -/

theorem newSegment_noStart (ic : Interceptors) {v : Bytes} (h : startByte ∉ v) (hl : v.length ≤ maxInt16) :
    newSegment ic v = .ok { value := v } := by
  rw [newSegment_closed, if_neg (by omega), indexByte_none_of_not_mem h]

theorem newSegment_len {ic : Interceptors} {v : Bytes} {s : Seg} (h : newSegment ic v = .ok s) :
    v.length ≤ maxInt16 := by
  refine Nat.le_of_not_gt fun hl => ?_
  rw [newSegment_closed, if_pos hl] at h
  cases h

/-- A piece without `{` is a literal segment. -/
theorem newSegment_str_of_noStart {ic : Interceptors} {v : Bytes} {s : Seg} (h : newSegment ic v = .ok s)
    (hn : startByte ∉ v) : s = { value := v } := by
  rw [newSegment_noStart ic hn (newSegment_len h)] at h
  cases h; rfl


/-! ## `NewSegment` on a prefix that keeps the token and at least one byte of the suffix -/

theorem lastByte_ne_end {v : Bytes} {en : Nat} (hlast : ∀ i, en < i → v[i]? ≠ some endByte)
    (hlen : en + 2 ≤ v.length) : decide (lastByte v = endByte) = false := by
  have hlt : v.length - 1 < v.length := by omega
  have h1 := hlast (v.length - 1) (by omega)
  rw [List.getElem?_eq_getElem hlt] at h1
  simp only [lastByte, List.getElem?_eq_getElem hlt, Option.getD_some, decide_eq_false_iff_not]
  intro e
  exact h1 (by rw [e])

theorem take_no_end_after {v : Bytes} {en l : Nat} (hlast : ∀ i, en < i → v[i]? ≠ some endByte) :
    ∀ i, en < i → (v.take l)[i]? ≠ some endByte := by
  intro i hi
  rw [List.getElem?_take]
  split
  · exact hlast i hi
  · simp

theorem isAscii_take {s : Bytes} (n : Nat) (h : isAscii s = true) : isAscii (s.take n) = true := by
  unfold isAscii at *
  rw [List.all_eq_true] at *
  intro x hx
  exact h x (List.mem_of_mem_take hx)

theorem mkNamed_take {v : Bytes} {st en hi l : Nat} (hhi : hi ≤ en) (hl : en + 2 ≤ l) (hl2 : l ≤ v.length)
    (hlast : ∀ i, en < i → v[i]? ≠ some endByte) :
    mkNamed (v.take l) st en hi =
      { mkNamed v st en hi with value := v.take l, suffix := (v.take l).drop (en + 1) } := by
  have e1 : decide (lastByte (v.take l) = endByte) = false :=
    lastByte_ne_end (take_no_end_after hlast) (by simp; omega)
  have e2 : decide (lastByte v = endByte) = false := lastByte_ne_end hlast (by omega)
  have e3 : (v.take l).take hi = v.take hi := by
    rw [List.take_take, Nat.min_eq_left (by omega)]
  simp only [mkNamed, e1, e2, e3]

theorem finishRuled_take {ic : Interceptors} {v : Bytes} {st en sp l : Nat} {s : Seg}
    (hsp : sp < en) (hl : en + 2 ≤ l) (hl2 : l ≤ v.length)
    (hlast : ∀ i, en < i → v[i]? ≠ some endByte) (h : finishRuled ic v st en sp = .ok s) :
    finishRuled ic (v.take l) st en sp =
      .ok { s with value := v.take l, suffix := (v.take l).drop (en + 1) } := by
  have e1 : decide (lastByte (v.take l) = endByte) = false :=
    lastByte_ne_end (take_no_end_after hlast) (by simp; omega)
  have e2 : decide (lastByte v = endByte) = false := lastByte_ne_end hlast (by omega)
  have e3 : (v.take l).take en = v.take en := by
    rw [List.take_take, Nat.min_eq_left (by omega)]
  have e4 : (v.take l).take sp = v.take sp := by
    rw [List.take_take, Nat.min_eq_left (by omega)]
  have e5 : (v.take l).drop (en + 1) = (v.drop (en + 1)).take (l - (en + 1)) := by
    rw [List.drop_take]
  unfold finishRuled at h ⊢
  simp only [e1, e2, e3, e4] at h ⊢
  split at h
  · cases h
    rfl
  · split at h
    · cases h
    · rename_i hasc
      have hasc' : isAscii (v.drop (en + 1)) = true := by simpa using hasc
      have hasc2 : ¬ ¬ isAscii ((v.take l).drop (en + 1)) = true := by
        rw [e5]; simpa using isAscii_take _ hasc'
      rw [if_neg hasc2]
      split at h
      · cases h
      · rename_i re hre
        cases h
        rfl

/-- `NewSegment` of a prefix of `v` that keeps the whole `{…}` token and at least one byte after
the closing brace: the same segment with a shorter suffix (same kind, name, `-` flag, rule, parsed
regexp; `endpoint` is `false` for both). -/
theorem newSegment_take (ic : Interceptors) {v : Bytes} {s : Seg} {st en l : Nat}
    (hs : newSegment ic v = .ok s)
    (hst : indexByte startByte v = some st) (hen : indexByte endByte v = some en)
    (hl : en + 2 ≤ l) (hl2 : l ≤ v.length) (hlast : ∀ i, en < i → v[i]? ≠ some endByte) :
    newSegment ic (v.take l) =
      .ok { s with value := v.take l, suffix := (v.take l).drop (en + 1) } := by
  have hlen := newSegment_len hs
  have hne : st ≠ en := indexByte_ne_of_ne (by decide) hst hen
  rw [newSegment_closed] at hs ⊢
  rw [if_neg (by omega)] at hs
  rw [if_neg (by simp; omega)]
  rw [hst, hen] at hs
  simp only [] at hs
  by_cases hse : st > en
  · -- rejected
    cases hsp : indexByte separatorByte v with
    | none => simp [hsp, hse] at hs
    | some sp => simp [hsp, hse] at hs
  have hstl : st < l := by omega
  have henl : en < l := by omega
  rw [indexByte_take, indexByte_take, hst, hen]
  simp only [hstl, henl, if_true]
  rw [indexByte_take]
  cases hsp : indexByte separatorByte v with
  | none =>
    simp only [hsp] at hs ⊢
    split at hs
    · cases hs
    · rename_i hc
      rw [if_neg hc]
      cases hs
      rw [mkNamed_take (Nat.le_refl _) hl hl2 hlast]
  | some sp =>
    have hne2 : sp ≠ en := indexByte_ne_of_ne (by decide) hsp hen
    have hne3 : st ≠ sp := indexByte_ne_of_ne (by decide) hst hsp
    simp only [hsp] at hs ⊢
    by_cases hspl : sp < l
    · simp only [hspl, if_true]
      split at hs
      · cases hs
      rename_i hc1
      rw [if_neg hc1]
      split at hs
      · rename_i hc2
        rw [if_pos hc2]
        cases hs
        rw [mkNamed_take (by omega) hl hl2 hlast]
      rename_i hc2
      rw [if_neg hc2]
      split at hs
      · rename_i hc3
        rw [if_pos hc3]
        cases hs
        rw [mkNamed_take (Nat.le_refl _) hl hl2 hlast]
      rename_i hc3
      rw [if_neg hc3]
      split at hs
      · cases hs
      rename_i hc4
      rw [if_neg hc4]
      exact finishRuled_take (by omega) hl hl2 hlast hs
    · simp only [hspl, if_false]
      have hc1 : ¬ (st > en ∨ st + 1 = en ∨ st + 1 = sp) := by
        intro h
        rcases h with h | h | h
        · exact hse h
        · rw [if_pos (.inr (.inl h))] at hs; cases hs
        · omega
      have hc1' : ¬ (st > en ∨ st + 1 = en) := fun h => hc1 (h.elim .inl (fun h => .inr (.inl h)))
      rw [if_neg hc1, if_neg (by omega), if_pos (by omega)] at hs
      rw [if_neg hc1']
      cases hs
      rw [mkNamed_take (Nat.le_refl _) hl hl2 hlast]


/-! ## The scan of `longestPrefix` on well-formed pieces -/

theorem ne_start_of_noBrace {c : UInt8} {x : Bytes} (h : NoBrace (c :: x)) : c ≠ startByte ∧ c ≠ endByte := by
  refine ⟨fun e => h.1 (by simp [e]), fun e => h.2 (by simp [e])⟩

theorem NoBrace.tail {c : UInt8} {x : Bytes} (h : NoBrace (c :: x)) : NoBrace x :=
  ⟨fun hm => h.1 (List.mem_cons_of_mem _ hm), fun hm => h.2 (List.mem_cons_of_mem _ hm)⟩

/-- Phase 2: both strings are past the closing brace (at position `en`) and contain no brace: the
result is `st` (cut refused: directly after `}`) or a position at least two past `en`. -/
theorem lpLoop_after (s s' : Bytes) (i : Nat) (st : Int) (en : Nat) (hs : NoBrace s) (hs' : NoBrace s')
    (hi : en + 1 ≤ i) :
    lpLoop s s' i st (en : Int) false = st ∨ ((en : Int) + 2 ≤ lpLoop s s' i st (en : Int) false) := by
  induction s generalizing s' i with
  | nil =>
    simp only [lpLoop]
    split
    · exact .inl rfl
    · rename_i hne; right; omega
  | cons a s ih =>
    cases s' with
    | nil =>
      simp only [lpLoop]
      split
      · exact .inl rfl
      · rename_i hne; right; omega
    | cons b s' =>
      obtain ⟨ha1, ha2⟩ := ne_start_of_noBrace hs
      simp only [lpLoop]
      by_cases hab : a = b
      · subst hab
        simp only [ne_eq, not_true_eq_false, if_false, ha1, ha2]
        exact ih s' (i + 1) hs.tail hs'.tail (by omega)
      · simp only [ne_eq, hab, not_false_eq_true, if_true, Bool.false_eq_true, false_or]
        split
        · exact .inl rfl
        · rename_i hne; right
          omega

/-- Phase 1: both strings are inside their token (`x`, `x'` are what is left of the bodies): the
result is the start of the token (`st`: no cut) or a position at least two past the closing brace. -/
theorem lpLoop_inside (x x' suf suf' : Bytes) (i : Nat) (st e : Int)
    (hx : NoBrace x) (hx' : NoBrace x') (hs : NoBrace suf) (hs' : NoBrace suf') :
    lpLoop (x ++ endByte :: suf) (x' ++ endByte :: suf') i st e true = st ∨
      (((i + x.length : Nat) : Int) + 2 ≤ lpLoop (x ++ endByte :: suf) (x' ++ endByte :: suf') i st e true ∧ x = x') := by
  have hse : ¬ endByte = startByte := by decide
  induction x generalizing x' i with
  | nil =>
    cases x' with
    | nil =>
      simp only [List.nil_append, lpLoop, ne_eq, not_true_eq_false, if_false, hse, if_true]
      rcases lpLoop_after suf suf' (i + 1) st i hs hs' (by omega) with h | h
      · exact .inl h
      · right; refine ⟨?_, trivial⟩; simpa using h
    | cons c' x' =>
      obtain ⟨_, hc2⟩ := ne_start_of_noBrace hx'
      have : ¬ endByte = c' := fun e => hc2 e.symm
      left
      simp only [List.nil_append, List.cons_append, lpLoop, ne_eq, this, not_false_eq_true, if_true, true_or]
  | cons c x ih =>
    obtain ⟨hc1, hc2⟩ := ne_start_of_noBrace hx
    cases x' with
    | nil =>
      left
      simp only [List.nil_append, List.cons_append, lpLoop, ne_eq, hc2, not_false_eq_true, if_true, true_or]
    | cons c' x' =>
      simp only [List.cons_append, lpLoop]
      by_cases hcc : c = c'
      · subst hcc
        simp only [ne_eq, not_true_eq_false, if_false, hc1, hc2]
        rcases ih x' (i + 1) hx.tail hx'.tail with h | ⟨h, rfl⟩
        · exact .inl h
        · right
          refine ⟨?_, rfl⟩
          simp only [List.length_cons]
          have : i + 1 + x.length = i + (x.length + 1) := by omega
          rw [this] at h
          exact h
      · left
        simp only [ne_eq, hcc, not_false_eq_true, if_true, true_or]

/-- Two token pieces: `longestPrefix` is `0` or at least `|body| + 3` (the whole token and at least
one byte of the suffix), and in the latter case the bodies are equal. -/
theorem longestPrefix_tok (body suf body' suf' : Bytes)
    (hb : NoBrace body) (hb' : NoBrace body') (hs : NoBrace suf) (hs' : NoBrace suf') :
    longestPrefix (tok body suf) (tok body' suf') = 0 ∨
      (((body.length + 3 : Nat) : Int) ≤ longestPrefix (tok body suf) (tok body' suf') ∧ body = body') := by
  simp only [longestPrefix, tok, lpLoop, ne_eq, not_true_eq_false, if_false, if_true]
  rcases lpLoop_inside body body' suf suf' 1 0 (-10) hb hb' hs hs' with h | ⟨h, rfl⟩
  · left; simpa using h
  · right
    refine ⟨?_, rfl⟩
    have : ((1 + body.length : Nat) : Int) + 2 = ((body.length + 3 : Nat) : Int) := by omega
    rw [← this]
    simpa using h

/-- A token piece against a piece without `{`: nothing in common that may be cut off. -/
theorem longestPrefix_tok_str (body suf b : Bytes) (hb : startByte ∉ b) :
    longestPrefix (tok body suf) b ≤ 0 := by
  cases b with
  | nil => simp [longestPrefix, tok, lpLoop]
  | cons c b =>
    have hc : startByte ≠ c := fun e => hb (by simp [e])
    simp [longestPrefix, tok, lpLoop, hc]


/-- Past every brace (`en + 2 ≤ i`), on brace-free text, the scan returns a position `≥ i`. -/
theorem lpLoop_ge (s s' : Bytes) (i : Nat) (st en : Int) (hs : NoBrace s) (hs' : NoBrace s')
    (hi : en + 2 ≤ (i : Int)) : (i : Int) ≤ lpLoop s s' i st en false := by
  induction s generalizing s' i with
  | nil =>
    simp only [lpLoop]
    rw [if_neg (by omega)]
    exact Int.le_refl _
  | cons a s ih =>
    cases s' with
    | nil =>
      simp only [lpLoop]
      rw [if_neg (by omega)]
      exact Int.le_refl _
    | cons b s' =>
      obtain ⟨ha1, ha2⟩ := ne_start_of_noBrace hs
      simp only [lpLoop]
      by_cases hab : a = b
      · subst hab
        simp only [ne_eq, not_true_eq_false, if_false, ha1, ha2]
        have := ih s' (i + 1) hs.tail hs'.tail (by omega)
        omega
      · simp only [ne_eq, hab, not_false_eq_true, if_true, Bool.false_eq_true, false_or]
        rw [if_neg (by omega)]
        exact Int.le_refl _

/-- Two brace-free strings: something may be cut off iff the first bytes agree. -/
theorem lp_str_pos_iff {a b : Bytes} (ha : NoBrace a) (hb : NoBrace b) :
    0 < longestPrefix a b ↔ ∃ c a' b', a = c :: a' ∧ b = c :: b' := by
  cases a with
  | nil =>
    constructor
    · intro h; simp [longestPrefix, lpLoop] at h
    · rintro ⟨c, a', b', h, _⟩; cases h
  | cons c a' =>
    cases b with
    | nil =>
      constructor
      · intro h; simp [longestPrefix, lpLoop] at h
      · rintro ⟨c, a', b', _, h⟩; cases h
    | cons c' b' =>
      obtain ⟨h1, h2⟩ := ne_start_of_noBrace ha
      simp only [longestPrefix, lpLoop]
      by_cases hcc : c = c'
      · subst hcc
        simp only [ne_eq, not_true_eq_false, if_false, h1, h2]
        constructor
        · intro _; exact ⟨c, a', b', rfl, rfl⟩
        · intro _
          have := lpLoop_ge a' b' (0 + 1) (-10) (-10) ha.tail hb.tail (by omega)
          omega
      · simp only [ne_eq, hcc, not_false_eq_true, if_true, Bool.false_eq_true, false_or]
        constructor
        · intro h; simp at h
        · rintro ⟨d, a'', b'', e1, e2⟩
          cases e1; cases e2
          exact absurd rfl hcc

/-- Inside equal bodies the scan just advances to the closing brace. -/
theorem lpLoop_inside_eq (x suf suf' : Bytes) (i : Nat) (st e : Int) (hx : NoBrace x) :
    lpLoop (x ++ endByte :: suf) (x ++ endByte :: suf') i st e true =
      lpLoop suf suf' (i + x.length + 1) st ((i + x.length : Nat) : Int) false := by
  have hse : ¬ endByte = startByte := by decide
  induction x generalizing i with
  | nil =>
    simp only [List.nil_append, lpLoop, ne_eq, not_true_eq_false, if_false, hse, if_true, List.length_nil,
      Nat.add_zero]
  | cons c x ih =>
    obtain ⟨hc1, hc2⟩ := ne_start_of_noBrace hx
    simp only [List.cons_append, lpLoop, ne_eq, not_true_eq_false, if_false, hc1, hc2, List.length_cons]
    rw [ih (i + 1) hx.tail]
    have : i + 1 + x.length = i + (x.length + 1) := by omega
    rw [this]

theorem tok_inj {b s b' s' : Bytes} (hb : endByte ∉ b) (hb' : endByte ∉ b') (h : tok b s = tok b' s') :
    b = b' ∧ s = s' := by
  have h1 := tok_end s hb
  have h2 := tok_end s' hb'
  rw [h, h2] at h1
  have hlen : b.length = b'.length := by
    simp only [Option.some.injEq] at h1; omega
  simp only [tok, List.cons.injEq, true_and] at h
  have := List.append_inj h hlen
  exact ⟨this.1, by simpa using this.2⟩

/-- Two token pieces: something may be cut off iff the bodies are equal and the suffixes start with
the same byte. -/
theorem lp_tok_pos_iff {b s b' s' : Bytes} (hb : NoBrace b) (hb' : NoBrace b') (hs : NoBrace s) (hs' : NoBrace s') :
    0 < longestPrefix (tok b s) (tok b' s') ↔ b = b' ∧ ∃ c s1 s1', s = c :: s1 ∧ s' = c :: s1' := by
  constructor
  · intro hpos
    rcases longestPrefix_tok b s b' s' hb hb' hs hs' with h | ⟨h, rfl⟩
    · rw [h] at hpos; omega
    refine ⟨rfl, ?_⟩
    rcases longestPrefix_spec (tok b s) (tok b s') with h' | ⟨k, hk, k1, k2, k3⟩
    · rw [h'] at hpos; omega
    rw [hk] at h
    obtain ⟨k', rfl⟩ : ∃ k', k = b.length + 2 + (k' + 1) := ⟨k - (b.length + 3), by omega⟩
    rw [tok_take, tok_take] at k3
    have e := (tok_inj hb.2 hb.2 k3).2
    rw [tok_length] at k1 k2
    cases s with
    | nil => simp at k1; omega
    | cons c s1 =>
      cases s' with
      | nil => simp at k2; omega
      | cons c' s1' =>
        simp only [List.take_succ_cons, List.cons.injEq] at e
        exact ⟨c, s1, s1', rfl, by rw [e.1]⟩
  · rintro ⟨rfl, c, s1, s1', rfl, rfl⟩
    obtain ⟨hc1, hc2⟩ := ne_start_of_noBrace hs
    simp only [longestPrefix, tok, lpLoop, ne_eq, not_true_eq_false, if_false, if_true]
    rw [lpLoop_inside_eq b _ _ _ _ _ hb]
    simp only [lpLoop, ne_eq, not_true_eq_false, if_false, hc1, hc2]
    refine Int.lt_of_lt_of_le ?_ (lpLoop_ge _ _ _ _ _ hs.tail hs'.tail ?_)
    · omega
    · omega

/-! ## Segments that are `NewSegment` of a well-formed piece (I-seg, per segment) -/

/-- A segment produced by `NewSegment` (never a literal unless one brace is missing). -/
theorem newSegment_brace_facts {ic : Interceptors} {v : Bytes} {s : Seg} {st en : Nat}
    (hs : newSegment ic v = .ok s) (hst : indexByte startByte v = some st)
    (hen : indexByte endByte v = some en) :
    s.kind ≠ .str ∧ s.suffix = v.drop (en + 1) ∧ st + 1 < en := by
  have hne : st ≠ en := indexByte_ne_of_ne (by decide) hst hen
  have hlen := newSegment_len hs
  rw [newSegment_closed, if_neg (by omega), hst, hen] at hs
  simp only [] at hs
  have named : ∀ hi, (mkNamed v st en hi).kind ≠ .str ∧ (mkNamed v st en hi).suffix = v.drop (en + 1) := by
    intro hi; simp [mkNamed]
  have ruled : ∀ sp, finishRuled ic v st en sp = .ok s → s.kind ≠ .str ∧ s.suffix = v.drop (en + 1) := by
    intro sp h
    unfold finishRuled at h
    simp only [] at h
    split at h
    · cases h; simp
    · split at h
      · cases h
      · split at h
        · cases h
        · cases h; simp
  cases hsp : indexByte separatorByte v with
  | none =>
    simp only [hsp] at hs
    split at hs
    · cases hs
    · rename_i hc
      cases hs
      exact ⟨(named en).1, (named en).2, by omega⟩
  | some sp =>
    simp only [hsp] at hs
    split at hs
    · cases hs
    rename_i hc
    have : st + 1 < en := by omega
    split at hs
    · cases hs; exact ⟨(named sp).1, (named sp).2, this⟩
    split at hs
    · cases hs; exact ⟨(named en).1, (named en).2, this⟩
    split at hs
    · cases hs
    · exact ⟨(ruled sp hs).1, (ruled sp hs).2, this⟩

theorem stripIgn_wf (raw : Bytes) (h : raw ≠ []) : (stripIgn raw).2 = false → (stripIgn raw).1 ≠ [] := by
  cases raw with
  | nil => exact absurd rfl h
  | cons b r =>
    simp only [stripIgn]
    split <;> simp

/-- What `SegNameWf` asks, for any output of `NewSegment`: literal segments have the empty name,
capturing segments (no `-` flag) a non-empty one. -/
theorem newSegment_nameWf {ic : Interceptors} {v : Bytes} {s : Seg} (hs : newSegment ic v = .ok s) :
    (s.kind = .str → s.name = []) ∧ (s.kind ≠ .str ∧ ¬ s.ignoreName → s.name ≠ []) := by
  have hlen := newSegment_len hs
  rw [newSegment_closed, if_neg (by omega)] at hs
  have raw_ne : ∀ st hi, st + 1 < hi → hi ≤ v.length → (v.take hi).drop (st + 1) ≠ [] := by
    intro st hi h1 h2 e
    have := congrArg List.length e
    simp at this
    omega
  have named : ∀ st en hi, st + 1 < hi → hi ≤ v.length →
      ((mkNamed v st en hi).kind = .str → (mkNamed v st en hi).name = []) ∧
      ((mkNamed v st en hi).kind ≠ .str ∧ ¬ (mkNamed v st en hi).ignoreName → (mkNamed v st en hi).name ≠ []) := by
    intro st en hi h1 h2
    refine ⟨by simp [mkNamed], ?_⟩
    intro h
    simp only [mkNamed] at h ⊢
    exact stripIgn_wf _ (raw_ne st hi h1 h2) (by simpa using h.2)
  have ruled : ∀ st en sp, st + 1 < sp → sp ≤ v.length → finishRuled ic v st en sp = .ok s →
      (s.kind = .str → s.name = []) ∧ (s.kind ≠ .str ∧ ¬ s.ignoreName → s.name ≠ []) := by
    intro st en sp h1 h2 h
    unfold finishRuled at h
    simp only [] at h
    split at h
    · cases h
      refine ⟨by simp, ?_⟩
      intro hh
      exact stripIgn_wf _ (raw_ne st sp h1 h2) (by simpa using hh.2)
    · split at h
      · cases h
      · split at h
        · cases h
        · cases h
          refine ⟨by simp, ?_⟩
          intro hh
          exact stripIgn_wf _ (raw_ne st sp h1 h2) (by simpa using hh.2)
  cases hst : indexByte startByte v with
  | none => rw [hst] at hs; cases hs; simp
  | some st =>
  cases hen : indexByte endByte v with
  | none => rw [hst, hen] at hs; cases hs; simp
  | some en =>
  have hstl := indexByte_some_lt hst
  have henl := indexByte_some_lt hen
  have hne : st ≠ en := indexByte_ne_of_ne (by decide) hst hen
  rw [hst, hen] at hs
  simp only [] at hs
  cases hsp : indexByte separatorByte v with
  | none =>
    simp only [hsp] at hs
    split at hs
    · cases hs
    · cases hs; exact named st en en (by omega) (by omega)
  | some sp =>
    have hspl := indexByte_some_lt hsp
    have hne2 : sp ≠ en := indexByte_ne_of_ne (by decide) hsp hen
    have hne3 : st ≠ sp := indexByte_ne_of_ne (by decide) hst hsp
    simp only [hsp] at hs
    split at hs
    · cases hs
    split at hs
    · cases hs; exact named st en sp (by omega) (by omega)
    split at hs
    · cases hs; exact named st en en (by omega) (by omega)
    split at hs
    · cases hs
    · exact ruled st en sp (by omega) (by omega) hs

/-- I-seg for one segment: it is what `NewSegment` makes of its own text, the text is a well-formed
piece, and it is not empty. -/
structure SegOk (ic : Interceptors) (s : Seg) : Prop where
  seg : newSegment ic s.value = .ok s
  wf : WfPiece s.value
  ne : s.value ≠ []

theorem SegOk.of_newSegment {ic : Interceptors} {v : Bytes} {s : Seg} (h : newSegment ic v = .ok s)
    (hw : WfPiece v) (hne : v ≠ []) : SegOk ic s := by
  have hv := newSegment_value ic v s h
  exact ⟨by rw [hv]; exact h, by rw [hv]; exact hw, by rw [hv]; exact hne⟩

theorem SegOk.str_of_noBrace {ic : Interceptors} {s : Seg} (h : SegOk ic s) (hn : startByte ∉ s.value) :
    s = { value := s.value } := newSegment_str_of_noStart h.seg hn

theorem TokPiece.start {v : Bytes} (h : TokPiece v) : startByte ∈ v := by
  obtain ⟨body, suf, rfl, _, _⟩ := h
  simp [tok]

theorem SegOk.kind_ne_str_of_tok {ic : Interceptors} {s : Seg} (h : SegOk ic s) (ht : TokPiece s.value) :
    s.kind ≠ .str := by
  obtain ⟨body, suf, hv, hb, hs⟩ := ht
  have h1 := h.seg
  rw [hv] at h1
  have := (newSegment_brace_facts h1 (tok_start body suf) (tok_end suf hb.2)).1
  exact this

/-- Literal ↔ no brace, for a segment satisfying I-seg. -/
theorem SegOk.kind_str_iff {ic : Interceptors} {s : Seg} (h : SegOk ic s) : s.kind = .str ↔ NoBrace s.value := by
  constructor
  · intro hk
    rcases h.wf with hw | hw
    · exact hw
    · exact absurd hk (h.kind_ne_str_of_tok hw)
  · intro hn
    rw [h.str_of_noBrace hn.1]

theorem SegOk.tok_of_kind {ic : Interceptors} {s : Seg} (h : SegOk ic s) (hk : s.kind ≠ .str) : TokPiece s.value := by
  rcases h.wf with hw | hw
  · exact absurd (h.kind_str_iff.2 hw) hk
  · exact hw

theorem SegOk.nameWf {ic : Interceptors} {s : Seg} (h : SegOk ic s) :
    (s.kind = .str → s.name = []) ∧ (s.kind ≠ .str ∧ ¬ s.ignoreName → s.name ≠ []) :=
  newSegment_nameWf h.seg

/-- A literal segment over brace-free, non-empty text satisfies I-seg. -/
theorem SegOk.lit {ic : Interceptors} {v : Bytes} (hn : NoBrace v) (hne : v ≠ []) (hl : v.length ≤ maxInt16) :
    SegOk ic { value := v } :=
  ⟨newSegment_noStart ic hn.1 hl, .inl hn, hne⟩

/-! ## `Segment.Split` -/

theorem splitAt_ok {ic : Interceptors} {seg s1 s2 : Seg} {pos : Nat} (hpos : pos ≤ seg.value.length)
    (h1 : newSegment ic (seg.value.take pos) = .ok s1) (h2 : newSegment ic (seg.value.drop pos) = .ok s2) :
    seg.splitAt ic pos = .ok (s1, s2) := by
  have e1 := sliceE_ok 120 seg.value 0 pos (by omega) hpos
  have e2 := sliceE_ok 121 seg.value pos seg.value.length hpos (Nat.le_refl _)
  simp only [List.drop_zero, List.take_length] at e1 e2
  simp only [Seg.splitAt, bind, Except.bind, e1, e2, h1, h2, pure, Except.pure]

theorem splitAt_inv {ic : Interceptors} {seg s1 s2 : Seg} {pos : Nat} (h : seg.splitAt ic pos = .ok (s1, s2)) :
    pos ≤ seg.value.length ∧ newSegment ic (seg.value.take pos) = .ok s1 ∧
      newSegment ic (seg.value.drop pos) = .ok s2 := by
  by_cases hpos : pos ≤ seg.value.length
  · have e1 := sliceE_ok 120 seg.value 0 pos (by omega) hpos
    have e2 := sliceE_ok 121 seg.value pos seg.value.length hpos (Nat.le_refl _)
    simp only [List.drop_zero, List.take_length] at e1 e2
    simp only [Seg.splitAt, bind, Except.bind, e1, e2, pure, Except.pure] at h
    split at h
    · cases h
    rename_i a ha
    split at h
    · cases h
    rename_i b hb
    cases h
    exact ⟨hpos, ha, hb⟩
  · have e1 := sliceE_err 120 seg.value 0 pos (by omega)
    simp only [Seg.splitAt, bind, Except.bind, e1] at h
    cases h

/-! ## The cut-point lemma -/

/-- One side of the cut: for two segments of the same kind satisfying I-seg, with
`l = longestPrefix a b > 0`: the cut lies inside literal text or at least one byte after the closing
brace.  Hence `a.drop l` is brace-free and `NewSegment (a.take l)` is `a`'s segment with a shorter
suffix (same kind, name, `-` flag, rule). -/
theorem cut_side {ic : Interceptors} {sa sb : Seg} (ha : SegOk ic sa) (hb : SegOk ic sb)
    (hk : sa.kind = sb.kind) {l : Nat} (hl : longestPrefix sa.value sb.value = (l : Int)) (h0 : 0 < l) :
    l ≤ sa.value.length ∧ NoBrace (sa.value.drop l) ∧ WfPiece (sa.value.take l) ∧
      ∃ s1, newSegment ic (sa.value.take l) = .ok s1 ∧ s1.kind = sa.kind ∧ s1.name = sa.name ∧
        s1.ignoreName = sa.ignoreName ∧ s1.rule = sa.rule := by
  have hle : l ≤ sa.value.length := by
    have := longestPrefix_le sa.value sb.value
    rw [hl] at this
    omega
  rcases ha.wf with hn | ht
  · -- literal
    refine ⟨hle, hn.drop l, .inl (hn.take l), { value := sa.value.take l }, ?_, ?_, ?_, ?_, ?_⟩
    · exact newSegment_noStart ic (hn.take l).1 (by have := newSegment_len ha.seg; simp; omega)
    all_goals rw [ha.str_of_noBrace hn.1]
  · -- token
    have hka := ha.kind_ne_str_of_tok ht
    have hkb : sb.kind ≠ .str := hk ▸ hka
    obtain ⟨body, suf, hva, hb1, hs1⟩ := ht
    obtain ⟨body', suf', hvb, hb2, hs2⟩ := hb.tok_of_kind hkb
    rw [hva, hvb] at hl
    rcases longestPrefix_tok body suf body' suf' hb1 hb2 hs1 hs2 with h | ⟨h, _⟩
    · rw [h] at hl; omega
    rw [hl] at h
    have h3 : body.length + 3 ≤ l := by omega
    obtain ⟨k, rfl⟩ : ∃ k, l = body.length + 2 + k := ⟨l - (body.length + 2), by omega⟩
    have hseg := ha.seg
    rw [hva] at hseg hle ⊢
    refine ⟨hle, ?_, ?_, _, newSegment_take ic hseg (tok_start body suf) (tok_end suf hb1.2) (by omega) hle
      (tok_no_end_after hs1.2), rfl, rfl, rfl, rfl⟩
    · rw [tok_drop]; exact hs1.drop k
    · rw [tok_take]; exact .inr ⟨body, suf.take k, rfl, hb1, hs1.take k⟩

/-- **The cut-point lemma.** Two segments `a`, `b` of the same kind satisfying I-seg (each is
`NewSegment` of a well-formed piece), `l = longestPrefix a.value b.value > 0`.  Then `l` is a common
prefix length; both remainders are brace-free; both heads are well-formed pieces whose `NewSegment`
keeps kind, name, `-` flag and rule; parameter segments agree on kind, name, flag and rule; and
`Segment.Split` at `l` succeeds with a literal lower half. -/
theorem cutPoint {ic : Interceptors} {sa sb : Seg} (ha : SegOk ic sa) (hb : SegOk ic sb)
    (hk : sa.kind = sb.kind) (hpos : 0 < longestPrefix sa.value sb.value) :
    ∃ l : Nat, longestPrefix sa.value sb.value = (l : Int) ∧ 0 < l ∧
      l ≤ sa.value.length ∧ l ≤ sb.value.length ∧ sa.value.take l = sb.value.take l ∧
      NoBrace (sa.value.drop l) ∧ NoBrace (sb.value.drop l) ∧
      sa.name = sb.name ∧ sa.ignoreName = sb.ignoreName ∧ sa.rule = sb.rule ∧
      ∃ s1, newSegment ic (sa.value.take l) = .ok s1 ∧ WfPiece (sa.value.take l) ∧
        s1.kind = sa.kind ∧ s1.name = sa.name ∧ s1.ignoreName = sa.ignoreName ∧ s1.rule = sa.rule ∧
        (l < sa.value.length → sa.splitAt ic l = .ok (s1, { value := sa.value.drop l }) ∧
          SegOk ic s1 ∧ SegOk ic { value := sa.value.drop l }) := by
  obtain ⟨l, hl⟩ : ∃ l : Nat, longestPrefix sa.value sb.value = (l : Int) :=
    ⟨(longestPrefix sa.value sb.value).toNat, by omega⟩
  have h0 : 0 < l := by rw [hl] at hpos; omega
  have hpre : sa.value.take l = sb.value.take l := by
    have := longestPrefix_pos_prefix sa.value sb.value hpos
    rw [hl] at this
    simpa using this
  have hl' : longestPrefix sb.value sa.value = (l : Int) := by rw [longestPrefix_comm]; exact hl
  obtain ⟨a1, a2, a3, s1, a4, a5, a6, a7, a8⟩ := cut_side ha hb hk hl h0
  obtain ⟨b1, b2, _, s1', b4, b5, b6, b7, b8⟩ := cut_side hb ha hk.symm hl' h0
  have hs : s1 = s1' := by
    rw [hpre, b4] at a4
    cases a4; rfl
  subst hs
  refine ⟨l, hl, h0, a1, b1, hpre, a2, b2, a6.symm.trans b6, a7.symm.trans b7, a8.symm.trans b8,
    s1, a4, a3, a5, a6, a7, a8, ?_⟩
  intro hlt
  have hlen := newSegment_len ha.seg
  have hdne : sa.value.drop l ≠ [] := by
    intro e
    have := congrArg List.length e
    simp at this
    omega
  have hdl : (sa.value.drop l).length ≤ maxInt16 := by simp; omega
  have htne : sa.value.take l ≠ [] := by
    intro e
    have := congrArg List.length e
    simp only [List.length_take, List.length_nil] at this
    omega
  refine ⟨splitAt_ok a1 a4 (newSegment_noStart ic a2.1 hdl), SegOk.of_newSegment a4 a3 htne, SegOk.lit a2 hdne hdl⟩


/-! ## Where a cut may lie, and what survives it -/

/-- `L` is a legal cut position of the piece `v`: inside brace-free text, or at least one byte after
the closing brace of the token. -/
def CutAt (v : Bytes) (L : Nat) : Prop :=
  L ≤ v.length ∧
    ((NoBrace v ∧ 0 < L) ∨
      ∃ body suf k, v = tok body suf ∧ NoBrace body ∧ NoBrace suf ∧ L = body.length + 2 + (k + 1))

theorem cutAt_of_lp {ic : Interceptors} {sa sb : Seg} (ha : SegOk ic sa) (hb : SegOk ic sb)
    (hk : sa.kind = sb.kind) {l : Nat} (hl : longestPrefix sa.value sb.value = (l : Int)) (h0 : 0 < l) :
    CutAt sa.value l := by
  have hle : l ≤ sa.value.length := by
    have := longestPrefix_le sa.value sb.value
    rw [hl] at this
    omega
  refine ⟨hle, ?_⟩
  rcases ha.wf with hn | ht
  · exact .inl ⟨hn, h0⟩
  · have hka := ha.kind_ne_str_of_tok ht
    have hkb : sb.kind ≠ .str := hk ▸ hka
    obtain ⟨body, suf, hva, hb1, hs1⟩ := ht
    obtain ⟨body', suf', hvb, hb2, hs2⟩ := hb.tok_of_kind hkb
    rw [hva, hvb] at hl
    rcases longestPrefix_tok body suf body' suf' hb1 hb2 hs1 hs2 with h | ⟨h, _⟩
    · rw [h] at hl; omega
    rw [hl] at h
    exact .inr ⟨body, suf, l - (body.length + 3), hva, hb1, hs1, by omega⟩

theorem lastByte_mem {v : Bytes} (h : v ≠ []) : lastByte v ∈ v := by
  have hlt : v.length - 1 < v.length := by
    cases v with
    | nil => exact absurd rfl h
    | cons _ _ => simp
  simp only [lastByte, List.getElem?_eq_getElem hlt, Option.getD_some]
  exact List.getElem_mem hlt

theorem NoBrace.last_ne {v : Bytes} (h : NoBrace v) (hne : v ≠ []) : lastByte v ≠ endByte :=
  fun e => h.2 (e ▸ lastByte_mem hne)

theorem take_ne_nil {v : Bytes} {L : Nat} (h0 : 0 < L) (hne : v ≠ []) : v.take L ≠ [] := by
  cases v with
  | nil => exact absurd rfl hne
  | cons a v =>
    cases L with
    | zero => omega
    | succ L => simp

/-- The upper half of a legal cut does not end with `}` and is not empty. -/
theorem CutAt.last {v : Bytes} {L : Nat} (h : CutAt v L) : lastByte (v.take L) ≠ endByte ∧ v.take L ≠ [] := by
  obtain ⟨hle, h | ⟨body, suf, k, rfl, hb, hs, rfl⟩⟩ := h
  · have hne : v ≠ [] := by
      intro e; subst e; simp at hle; omega
    exact ⟨(h.1.take L).last_ne (take_ne_nil h.2 hne), take_ne_nil h.2 hne⟩
  · rw [tok_take]
    rw [tok_length] at hle
    have hsne : suf.take (k + 1) ≠ [] := by
      apply take_ne_nil (by omega)
      intro e; subst e; simp at hle; omega
    have h1 : decide (lastByte (tok body (suf.take (k + 1))) = endByte) = false :=
      lastByte_ne_end (tok_no_end_after (hs.take _).2) (by
        rw [tok_length]
        have : 0 < (suf.take (k + 1)).length := List.length_pos_iff.2 hsne
        omega)
    exact ⟨by simpa using h1, by simp [tok]⟩

/-- Below a legal cut the text is brace-free. -/
theorem CutAt.drop_noBrace {v : Bytes} {L : Nat} (h : CutAt v L) : NoBrace (v.drop L) := by
  obtain ⟨_, h | ⟨body, suf, k, rfl, hb, hs, rfl⟩⟩ := h
  · exact h.1.drop L
  · rw [tok_drop]; exact hs.drop _

/-- Two siblings are kept apart by the insertion algorithm: different texts, and (when of the same
kind) no common part that `longestPrefix` would split off. -/
def SibDisj (s d : Seg) : Prop := s.value ≠ d.value ∧ (s.kind = d.kind → longestPrefix s.value d.value ≤ 0)

theorem SibDisj.symm {s d : Seg} (h : SibDisj s d) : SibDisj d s :=
  ⟨fun e => h.1 e.symm, fun hk => by rw [longestPrefix_comm]; exact h.2 hk.symm⟩

/-- If `d` shares a cuttable part with the upper half of a legal cut of `v`, it shares one with `v`. -/
theorem CutAt.lp_mono {ic : Interceptors} {sd sv : Seg} (hd : SegOk ic sd) (hv : SegOk ic sv)
    (hk : sd.kind = sv.kind) {L : Nat} (hc : CutAt sv.value L)
    (hpos : 0 < longestPrefix sd.value (sv.value.take L)) : 0 < longestPrefix sd.value sv.value := by
  obtain ⟨hle, h | ⟨body, suf, k, hvv, hb, hs, rfl⟩⟩ := hc
  · have hdn : NoBrace sd.value := hd.kind_str_iff.1 (hk.trans (hv.kind_str_iff.2 h.1))
    obtain ⟨c, a', b', e1, e2⟩ := (lp_str_pos_iff hdn (h.1.take L)).1 hpos
    refine (lp_str_pos_iff hdn h.1).2 ⟨c, a', sv.value.drop 1, e1, ?_⟩
    cases hvv : sv.value with
    | nil => rw [hvv] at e2; simp at e2
    | cons x xs =>
      rw [hvv] at e2
      cases L with
      | zero => omega
      | succ L =>
        simp only [List.take_succ_cons, List.cons.injEq] at e2
        simp [e2.1]
  · have hkv : sv.kind ≠ .str := hv.kind_ne_str_of_tok ⟨body, suf, hvv, hb, hs⟩
    obtain ⟨bd, sdf, hdv, hbd, hsd⟩ := hd.tok_of_kind (hk ▸ hkv)
    rw [hvv, tok_take, hdv] at hpos
    rw [hvv, hdv]
    obtain ⟨rfl, c, s1, s1', e1, e2⟩ := (lp_tok_pos_iff hbd hb hsd (hs.take _)).1 hpos
    refine (lp_tok_pos_iff hbd hb hsd hs).2 ⟨rfl, c, s1, suf.drop 1, e1, ?_⟩
    cases suf with
    | nil => simp at e2
    | cons x xs =>
      simp only [List.take_succ_cons, List.cons.injEq] at e2
      simp [e2.1]

/-- The upper half of a legal cut shares a cuttable part with itself (so a sibling with the same
text would have been merged). -/
theorem CutAt.self_pos {v : Bytes} {L : Nat} (hc : CutAt v L) : 0 < longestPrefix (v.take L) (v.take L) := by
  obtain ⟨hne1, hne2⟩ := hc.last
  obtain ⟨hle, h | ⟨body, suf, k, rfl, hb, hs, rfl⟩⟩ := hc
  · cases hv : v.take L with
    | nil => exact absurd hv hne2
    | cons c r => exact (lp_str_pos_iff (hv ▸ h.1.take L) (hv ▸ h.1.take L)).2 ⟨c, r, r, rfl, rfl⟩
  · rw [tok_take]
    rw [tok_length] at hle
    cases suf with
    | nil => simp at hle; omega
    | cons x xs =>
      exact (lp_tok_pos_iff hb hb (hs.take _) (hs.take _)).2 ⟨rfl, x, xs.take k, xs.take k, rfl, rfl⟩

/-- Replacing a sibling by the upper half of a legal cut of it keeps it apart from the others. -/
theorem SibDisj.take {ic : Interceptors} {sd sv s1 : Seg} (hd : SegOk ic sd) (hv : SegOk ic sv)
    (h : SibDisj sd sv) {L : Nat} (hc : CutAt sv.value L) (h1 : SegOk ic s1)
    (hv1 : s1.value = sv.value.take L) (hk1 : s1.kind = sv.kind) : SibDisj sd s1 := by
  have key : sd.kind = s1.kind → longestPrefix sd.value s1.value ≤ 0 := by
    intro hk
    refine Int.not_lt.1 fun hpos => ?_
    rw [hv1] at hpos
    have := hc.lp_mono hd hv (hk.trans hk1) hpos
    have := h.2 (hk.trans hk1)
    omega
  refine ⟨?_, key⟩
  intro e
  have hseg : sd = s1 := by
    have h2 := hd.seg
    rw [e, h1.seg] at h2
    cases h2; rfl
  have := key (by rw [hseg])
  rw [e, hv1] at this
  have := hc.self_pos
  omega


/-! ## One-sided versions: only `a` is a well-formed piece, `b` is any piece of `splitString` -/

theorem lpLoop_after1 (s s' : Bytes) (i : Nat) (st : Int) (en : Nat) (hs : NoBrace s) (hi : en + 1 ≤ i) :
    lpLoop s s' i st (en : Int) false = st ∨ ((en : Int) + 2 ≤ lpLoop s s' i st (en : Int) false) := by
  induction s generalizing s' i with
  | nil =>
    simp only [lpLoop]
    split
    · exact .inl rfl
    · rename_i hne; right; omega
  | cons a s ih =>
    cases s' with
    | nil =>
      simp only [lpLoop]
      split
      · exact .inl rfl
      · rename_i hne; right; omega
    | cons b s' =>
      obtain ⟨ha1, ha2⟩ := ne_start_of_noBrace hs
      simp only [lpLoop]
      by_cases hab : a = b
      · subst hab
        simp only [ne_eq, not_true_eq_false, if_false, ha1, ha2]
        exact ih s' (i + 1) hs.tail (by omega)
      · simp only [ne_eq, hab, not_false_eq_true, if_true, Bool.false_eq_true, false_or]
        split
        · exact .inl rfl
        · rename_i hne; right
          omega

theorem lpLoop_inside1 (x x' suf suf' : Bytes) (i : Nat) (st e : Int)
    (hx : NoBrace x) (hx' : endByte ∉ x') (hs : NoBrace suf) :
    lpLoop (x ++ endByte :: suf) (x' ++ endByte :: suf') i st e true = st ∨
      (((i + x.length : Nat) : Int) + 2 ≤ lpLoop (x ++ endByte :: suf) (x' ++ endByte :: suf') i st e true ∧ x = x') := by
  have hse : ¬ endByte = startByte := by decide
  induction x generalizing x' i with
  | nil =>
    cases x' with
    | nil =>
      simp only [List.nil_append, lpLoop, ne_eq, not_true_eq_false, if_false, hse, if_true]
      rcases lpLoop_after1 suf suf' (i + 1) st i hs (by omega) with h | h
      · exact .inl h
      · right; refine ⟨?_, trivial⟩; simpa using h
    | cons c' x' =>
      have : ¬ endByte = c' := fun e => hx' (by simp [e])
      left
      simp only [List.nil_append, List.cons_append, lpLoop, ne_eq, this, not_false_eq_true, if_true, true_or]
  | cons c x ih =>
    obtain ⟨hc1, hc2⟩ := ne_start_of_noBrace hx
    cases x' with
    | nil =>
      left
      simp only [List.nil_append, List.cons_append, lpLoop, ne_eq, hc2, not_false_eq_true, if_true, true_or]
    | cons c' x' =>
      simp only [List.cons_append, lpLoop]
      by_cases hcc : c = c'
      · subst hcc
        simp only [ne_eq, not_true_eq_false, if_false, hc1, hc2]
        rcases ih x' (i + 1) hx.tail (fun hm => hx' (List.mem_cons_of_mem _ hm)) with h | ⟨h, rfl⟩
        · exact .inl h
        · right
          refine ⟨?_, rfl⟩
          simp only [List.length_cons]
          have : i + 1 + x.length = i + (x.length + 1) := by omega
          rw [this] at h
          exact h
      · left
        simp only [ne_eq, hcc, not_false_eq_true, if_true, true_or]

theorem longestPrefix_tok1 (body suf body' suf' : Bytes) (hb : NoBrace body) (hb' : endByte ∉ body')
    (hs : NoBrace suf) :
    longestPrefix (tok body suf) (tok body' suf') = 0 ∨
      (((body.length + 3 : Nat) : Int) ≤ longestPrefix (tok body suf) (tok body' suf') ∧ body = body') := by
  simp only [longestPrefix, tok, lpLoop, ne_eq, not_true_eq_false, if_false, if_true]
  rcases lpLoop_inside1 body body' suf suf' 1 0 (-10) hb hb' hs with h | ⟨h, rfl⟩
  · left; simpa using h
  · right
    refine ⟨?_, rfl⟩
    have : ((1 + body.length : Nat) : Int) + 2 = ((body.length + 3 : Nat) : Int) := by omega
    rw [← this]
    simpa using h

theorem indexByte_split {c : UInt8} {r : Bytes} {k : Nat} (h : indexByte c r = some k) :
    r = r.take k ++ c :: r.drop (k + 1) ∧ c ∉ r.take k := by
  have hlt := indexByte_some_lt h
  have hget := indexByte_some_get h
  have hk : r[k] = c := by
    rw [List.getElem?_eq_getElem hlt] at hget
    exact Option.some.inj hget
  refine ⟨?_, ?_⟩
  · rw [← hk, ← List.drop_eq_getElem_cons hlt, List.take_append_drop]
  · intro hm
    obtain ⟨j, hj, hjk⟩ := List.mem_iff_getElem.1 hm
    have hj' : j < k := by simp at hj; omega
    have := indexByte_first h j hj'
    apply this
    rw [List.getElem_take] at hjk
    rw [List.getElem?_eq_getElem (by omega), hjk]

/-- A piece of `splitString` (`GoodPiece`) whose segment is a parameter has the form `{x}rest` where
`x` contains no `}`. -/
theorem goodPiece_tok_decomp {ic : Interceptors} {b : Bytes} {sb : Seg} (hseg : newSegment ic b = .ok sb)
    (hk : sb.kind ≠ .str) (hg : GoodPiece b) :
    ∃ x' suf', b = tok x' suf' ∧ endByte ∉ x' ∧ indexByte endByte b = some (x'.length + 1) := by
  have hstart : startByte ∈ b := by
    apply Classical.not_not.1
    intro hn
    exact hk (by rw [newSegment_str_of_noStart hseg hn])
  have hend : endByte ∈ b := by
    apply Classical.not_not.1
    intro hn
    have hlen := newSegment_len hseg
    rw [newSegment_closed, if_neg (by omega), indexByte_none_of_not_mem hn] at hseg
    cases hst : indexByte startByte b with
    | none => rw [hst] at hseg; cases hseg; exact hk rfl
    | some st => rw [hst] at hseg; cases hseg; exact hk rfl
  rcases hg with hg | hg
  · cases b with
    | nil => cases hg
    | cons c r =>
      simp only [List.head?_cons, Option.some.injEq] at hg
      subst hg
      have hr : endByte ∈ r := by
        rcases List.mem_cons.1 hend with h | h
        · exact absurd h (by decide)
        · exact h
      obtain ⟨k, hk'⟩ := indexByte_isSome_of_mem hr
      obtain ⟨h1, h2⟩ := indexByte_split hk'
      refine ⟨r.take k, r.drop (k + 1), by rw [tok, ← h1], h2, ?_⟩
      have hse : ¬ startByte = endByte := by decide
      simp only [indexByte, hse, if_false, hk', Option.map_some]
      have := indexByte_some_lt hk'
      simp [List.length_take, Nat.min_eq_left (Nat.le_of_lt this)]
  · exact absurd hstart hg

/-- After the first `}` of the piece there is no `{` (pieces of `splitString` have this form). -/
def TailFree (b : Bytes) : Prop := ∀ en, indexByte endByte b = some en → startByte ∉ b.drop (en + 1)

/-- One-sided cut-point lemma: `a` satisfies I-seg, `b` is any piece of `splitString` that
`NewSegment` accepts with the same kind. -/
theorem cutPoint1 {ic : Interceptors} {sa sb : Seg} {b : Bytes} (ha : SegOk ic sa)
    (hbseg : newSegment ic b = .ok sb) (hbg : GoodPiece b) (hk : sa.kind = sb.kind)
    (hpos : 0 < longestPrefix sa.value b) :
    ∃ l : Nat, longestPrefix sa.value b = (l : Int) ∧ 0 < l ∧ l ≤ sa.value.length ∧ l ≤ b.length ∧
      sa.value.take l = b.take l ∧ CutAt sa.value l ∧ (TailFree b → startByte ∉ b.drop l) ∧
      ∃ s1, newSegment ic (sa.value.take l) = .ok s1 ∧ WfPiece (sa.value.take l) ∧
        s1.kind = sa.kind ∧ s1.name = sa.name ∧ s1.ignoreName = sa.ignoreName ∧ s1.rule = sa.rule ∧
        (l < sa.value.length → sa.splitAt ic l = .ok (s1, { value := sa.value.drop l }) ∧
          SegOk ic s1 ∧ SegOk ic { value := sa.value.drop l }) := by
  obtain ⟨l, hl⟩ : ∃ l : Nat, longestPrefix sa.value b = (l : Int) :=
    ⟨(longestPrefix sa.value b).toNat, by omega⟩
  have h0 : 0 < l := by rw [hl] at hpos; omega
  have hpre : sa.value.take l = b.take l := by
    have := longestPrefix_pos_prefix sa.value b hpos
    rw [hl] at this
    simpa using this
  have hle : l ≤ sa.value.length := by
    have := longestPrefix_le sa.value b
    rw [hl] at this
    omega
  have hleb : l ≤ b.length := by
    have := longestPrefix_le sa.value b
    rw [hl] at this
    omega
  have hlen := newSegment_len ha.seg
  -- the facts that depend on the form of `a`
  have key : CutAt sa.value l ∧ (TailFree b → startByte ∉ b.drop l) ∧
      ∃ s1, newSegment ic (sa.value.take l) = .ok s1 ∧ s1.kind = sa.kind ∧ s1.name = sa.name ∧
        s1.ignoreName = sa.ignoreName ∧ s1.rule = sa.rule := by
    rcases ha.wf with hn | ht
    · refine ⟨⟨hle, .inl ⟨hn, h0⟩⟩, ?_, { value := sa.value.take l }, ?_, ?_, ?_, ?_, ?_⟩
      · intro _ hm
        -- `b` starts like `a`, hence not with `{`; a good piece then has no `{` at all
        have hb0 : b.head? ≠ some startByte := by
          intro hh
          cases hbv : b with
          | nil => rw [hbv] at hh; cases hh
          | cons c r =>
            rw [hbv] at hh hpre
            simp only [List.head?_cons, Option.some.injEq] at hh
            subst hh
            cases hav : sa.value with
            | nil => exact ha.ne hav
            | cons c' r' =>
              rw [hav] at hpre
              cases l with
              | zero => omega
              | succ l =>
                simp only [List.take_succ_cons, List.cons.injEq] at hpre
                exact hn.1 (by rw [hav, hpre.1]; simp)
        rcases hbg with hg | hg
        · exact hb0 hg
        · exact hg (List.mem_of_mem_drop hm)
      · exact newSegment_noStart ic (hn.take l).1 (by simp; omega)
      all_goals rw [ha.str_of_noBrace hn.1]
    · have hka := ha.kind_ne_str_of_tok ht
      have hkb : sb.kind ≠ .str := hk ▸ hka
      obtain ⟨body, suf, hva, hb1, hs1⟩ := ht
      obtain ⟨body', suf', hvb, hb2, hen⟩ := goodPiece_tok_decomp hbseg hkb hbg
      rw [hva, hvb] at hl
      rcases longestPrefix_tok1 body suf body' suf' hb1 hb2 hs1 with h | ⟨h, hbb⟩
      · rw [h] at hl; omega
      rw [hl] at h
      subst hbb
      obtain ⟨k, rfl⟩ : ∃ k, l = body.length + 2 + (k + 1) := ⟨l - (body.length + 3), by omega⟩
      have hseg := ha.seg
      rw [hva] at hseg hle ⊢
      refine ⟨⟨hle, .inr ⟨body, suf, k, rfl, hb1, hs1, rfl⟩⟩, ?_, _,
        newSegment_take ic hseg (tok_start body suf) (tok_end suf hb1.2) (by omega) hle (tok_no_end_after hs1.2),
        rfl, rfl, rfl, rfl⟩
      intro htf hm
      have := htf _ hen
      apply this
      have e : body.length + 2 + (k + 1) = (body.length + 1 + 1) + (k + 1) := by omega
      rw [e, ← List.drop_drop] at hm
      exact List.mem_of_mem_drop hm
  obtain ⟨hcut, htail, s1, a4, a5, a6, a7, a8⟩ := key
  have a3 : WfPiece (sa.value.take l) := by
    obtain ⟨_, h | ⟨body, suf, k, hv, hb, hs, hlk⟩⟩ := hcut
    · exact .inl (h.1.take l)
    · rw [hv, hlk, tok_take]; exact .inr ⟨body, _, rfl, hb, hs.take _⟩
  refine ⟨l, hl, h0, hle, hleb, hpre, hcut, htail, s1, a4, a3, a5, a6, a7, a8, ?_⟩
  intro hlt
  have a2 := hcut.drop_noBrace
  have hdne : sa.value.drop l ≠ [] := by
    intro e
    have := congrArg List.length e
    simp at this
    omega
  have hdl : (sa.value.drop l).length ≤ maxInt16 := by simp; omega
  exact ⟨splitAt_ok hle a4 (newSegment_noStart ic a2.1 hdl), SegOk.of_newSegment a4 a3 hcut.last.2,
    SegOk.lit a2 hdne hdl⟩

end Mux.P9
