/-
  Mux.Proofs.ScanSpec — what `matchChildren` returns, in terms of the children tried one by one
  (`tryChild`), for nodes of trees satisfying the structural invariant; the named single-purpose
  invariants (`ValsNonEmpty`, `KindSorted`, `IndexExact`) read off `SOk`.
-/
import Mux.Proofs.StructCons
namespace Mux.P8
open Mux

/-! ## Sub-nodes -/

theorem All_sub {P : Node → Prop} : ∀ r : Node, Node.All P r → ∀ n ∈ r.nodes, Node.All P n := by
  intro r
  induction r using Node.rec (motive_2 := fun cs => AllL P cs → ∀ n ∈ nodesL cs, Node.All P n) with
  | mk s p mi hs idx cs ih =>
    intro h n hn
    simp only [Node.nodes, List.mem_cons] at hn
    rcases hn with rfl | hn
    · exact h
    · exact ih h.2 n hn
  | nil => rename_i n hn; simp [nodesL] at hn
  | cons c cs ih1 ih2 =>
    rename_i h n hn
    simp only [nodesL, List.mem_append] at hn
    rcases hn with hn | hn
    · exact ih1 h.1 n hn
    · exact ih2 h.2 n hn

theorem chain_mem_nodes {r n : Node} {segs : List Seg} (h : Chain r segs n) : n ∈ r.nodes := by
  induction h with
  | nil r => rw [Node.nodes_eq]; exact List.mem_cons_self
  | @cons r c m segs hc _ ih =>
    rw [Node.nodes_eq]
    refine List.mem_cons_of_mem _ ?_
    have : ∀ cs : List Node, c ∈ cs → ∀ x ∈ c.nodes, x ∈ nodesL cs := by
      intro cs
      induction cs with
      | nil => intro h; cases h
      | cons d ds ihd =>
        intro h x hx
        simp only [nodesL, List.mem_append]
        rcases List.mem_cons.1 h with rfl | h
        · exact .inl hx
        · exact .inr (ihd h x hx)
    exact this _ hc _ ih

/-! ## The named invariants -/

/-- Every child has a non-empty segment text. -/
def ValsNonEmpty (n : Node) : Prop := ∀ c ∈ n.children, c.seg.value ≠ []
/-- The children are ordered literal, interceptor, regexp, named. -/
def KindSorted (n : Node) : Prop := RankSorted n.children
/-- The index is what `buildIndexes` computes from the current children. -/
def IndexExact (n : Node) : Prop := buildIndexes n.children = .ok n.indexes
/-- Every child's segment is what `newSegment` makes of its text. -/
def SegsParsed (ic : Interceptors) (n : Node) : Prop := ∀ c ∈ n.children, newSegment ic c.seg.value = .ok c.seg

theorem SOk.valsNonEmpty {ic : Interceptors} {n : Node} (h : SOk ic n) : ValsNonEmpty n := fun c hc => (h.child c hc).2.1
theorem SOk.kindSorted {ic : Interceptors} {n : Node} (h : SOk ic n) : KindSorted n := h.sorted
theorem SOk.indexExact {ic : Interceptors} {n : Node} (h : SOk ic n) : IndexExact n := h.index
theorem SOk.segsParsed {ic : Interceptors} {n : Node} (h : SOk ic n) : SegsParsed ic n := fun c hc => (h.child c hc).2.2

/-- The named invariants hold of every node of a tree satisfying `StructInv` (hence of every
reachable tree, `struct_reach`). -/
theorem StructInv.named {t : Tree} (h : StructInv t) :
    Node.PatternOk t.root ∧ t.root.pattern = [] ∧ Node.All ValsNonEmpty t.root ∧ Node.All KindSorted t.root ∧
      Node.All IndexExact t.root ∧ Node.All (SegsParsed t.ic) t.root ∧ Node.All IdxLit t.root :=
  ⟨patternOk_of_SOk _ h.all, h.rootPat,
    (AllL_mono (fun _ h => SOk.valsNonEmpty h)).1 _ h.all,
    (AllL_mono (fun _ h => SOk.kindSorted h)).1 _ h.all,
    (AllL_mono (fun _ h => SOk.indexExact h)).1 _ h.all,
    (AllL_mono (fun _ h => SOk.segsParsed h)).1 _ h.all,
    All_idxLit_of_SOk _ h.all⟩

/-! ## Reading `IndexExact` -/

theorem keys_idxSet (idx : List (UInt8 × Nat)) (b : UInt8) (i : Nat) :
    b ∈ (idxSet idx b i).map (·.1) ∧ ∀ k ∈ idx.map (·.1), k ∈ (idxSet idx b i).map (·.1) := by
  unfold idxSet
  split
  · rename_i hany
    rw [List.any_eq_true] at hany
    obtain ⟨e, he, hb⟩ := hany
    simp only [decide_eq_true_eq] at hb
    refine ⟨?_, ?_⟩
    · rw [List.map_map]
      exact List.mem_map.2 ⟨e, he, by simp [hb]⟩
    · intro k hk
      obtain ⟨e', he', rfl⟩ := List.mem_map.1 hk
      rw [List.map_map]
      refine List.mem_map.2 ⟨e', he', ?_⟩
      simp only [Function.comp]
      split
      · rename_i h; exact h.symm
      · rfl
  · simp only [List.map_append, List.map_cons, List.map_nil, List.mem_append, List.mem_singleton, or_true, true_and]
    intro k hk; exact .inl hk

theorem buildIndexesLoop_keys : ∀ (cs : List Node) (i : Nat) (acc idx : List (UInt8 × Nat)),
    buildIndexesLoop cs i acc = .ok idx →
    (∀ k ∈ acc.map (·.1), k ∈ idx.map (·.1)) ∧
    ∀ c ∈ cs, c.seg.kind = .str → ∃ b, c.seg.value.head? = some b ∧ b ∈ idx.map (·.1) := by
  intro cs
  induction cs with
  | nil => intro i acc idx h; simp [buildIndexesLoop] at h; subst h; simp
  | cons c cs ih =>
    intro i acc idx h
    simp only [buildIndexesLoop] at h
    split at h
    · rename_i hk
      split at h
      · simp at h
      · rename_i b v hv
        obtain ⟨h1, h2⟩ := ih (i + 1) _ idx h
        obtain ⟨k1, k2⟩ := keys_idxSet acc b i
        refine ⟨fun k hk' => h1 k (k2 k hk'), ?_⟩
        intro x hx hxk
        rcases List.mem_cons.1 hx with rfl | hx
        · exact ⟨b, by simp [hv], h1 b k1⟩
        · exact h2 x hx hxk
    · rename_i hk
      obtain ⟨h1, h2⟩ := ih (i + 1) _ idx h
      refine ⟨h1, ?_⟩
      intro x hx hxk
      rcases List.mem_cons.1 hx with rfl | hx
      · exact absurd hxk hk
      · exact h2 x hx hxk

/-- **What `IndexExact` says**: either the node has fewer than `indexesSize` children and no index,
or every entry `(b, i)` of the index points to a literal child at position `i` whose text starts
with `b`, and the first byte of every literal child is a key of the index. -/
theorem IndexExact.spec {n : Node} (h : IndexExact n) :
    (n.children.length < indexesSize ∧ n.indexes = []) ∨
    (indexesSize ≤ n.children.length ∧
      (∀ e ∈ n.indexes, ∃ c, n.children[e.2]? = some c ∧ c.seg.kind = .str ∧ c.seg.value.head? = some e.1) ∧
      (∀ c ∈ n.children, c.seg.kind = .str → ∃ b, c.seg.value.head? = some b ∧ b ∈ n.indexes.map (·.1))) := by
  have hent := buildIndexes_entries h
  unfold IndexExact buildIndexes at h
  split at h
  · rename_i hlt
    simp only [Except.ok.injEq] at h
    exact .inl ⟨hlt, h.symm⟩
  · rename_i hge
    exact .inr ⟨by omega, hent, (buildIndexesLoop_keys _ _ _ _ h).2⟩

/-! ## The scan, child by child -/

/-- `tryChild` hits iff the child's own segment matches and its subtree hits on the rest. -/
theorem tryChild_hit_iff (env : Env) (ic : Interceptors) (c : Node) (path : Bytes) (ps : Params) (m : Node) (ps' : Params) :
    tryChild env ic c path ps = .hit m ps' ↔
      ∃ cap rest, c.seg.match env ic path = .yes cap rest ∧
        c.matchChildren env ic rest (c.seg.record cap ps) = .hit m ps' := by
  unfold tryChild
  cases hm : c.seg.match env ic path with
  | no => simp
  | unsupported => simp
  | yes cap rest =>
    simp only
    constructor
    · intro h
      refine ⟨cap, rest, rfl, ?_⟩
      cases hr : Node.matchChildren env ic c rest (c.seg.record cap ps) with
      | miss ps2 => rw [hr] at h; cases h
      | hit m1 ps1 => rw [hr] at h; exact h
      | fault s => rw [hr] at h; cases h
      | unsupported => rw [hr] at h; cases h
    · rintro ⟨a, b, hab, h⟩
      cases hab
      rw [h]

/-- Tracked, the scan misses iff every child misses; the parameters come back unchanged. -/
theorem matchFrom_miss_iff {env : Env} {ic : Interceptors} {cs : List Node} {path : Bytes} {ps : Params} {used : List Bytes}
    (ht : TrackL used cs ps) (ps' : Params) :
    matchFrom env ic cs 0 path ps = .miss ps' ↔ ps' = ps ∧ ∀ c ∈ cs, tryChild env ic c path ps = .miss ps := by
  induction cs with
  | nil =>
    rw [matchFrom]
    constructor
    · intro h; cases h; exact ⟨rfl, by simp⟩
    · rintro ⟨rfl, _⟩; rfl
  | cons d cs ih =>
    have ht' : TrackL used cs ps := ⟨ht.1.2.2, ht.2.1.2, ht.2.2⟩
    rw [matchFrom_cons_zero]
    cases hd : tryChild env ic d path ps with
    | miss ps1 =>
      have e := tryChild_miss List.mem_cons_self ht hd
      subst e
      simp only
      rw [ih ht']
      constructor
      · rintro ⟨h1, h2⟩
        refine ⟨h1, ?_⟩
        intro c hc
        rcases List.mem_cons.1 hc with rfl | hc
        · exact hd
        · exact h2 c hc
      · rintro ⟨h1, h2⟩
        exact ⟨h1, fun c hc => h2 c (List.mem_cons_of_mem _ hc)⟩
    | hit m1 ps1 =>
      simp only [reduceCtorEq, false_iff, not_and]
      intro _ h
      have := h d List.mem_cons_self
      rw [hd] at this; cases this
    | fault s =>
      simp only [reduceCtorEq, false_iff, not_and]
      intro _ h
      have := h d List.mem_cons_self
      rw [hd] at this; cases this
    | unsupported =>
      simp only [reduceCtorEq, false_iff, not_and]
      intro _ h
      have := h d List.mem_cons_self
      rw [hd] at this; cases this

/-- The last step of `matchChildren`: when no child hit and the path is used up, the node itself
is the result if it has handlers. -/
def selfStep (n : Node) (path : Bytes) : MR → MR
  | .miss ps2 => if path.isEmpty ∧ n.handlers.length > 0 then .hit n ps2 else .miss ps2
  | r => r

/-- "Child `i` is the first one that does not miss, and it hits `m`". -/
def FirstHit (env : Env) (ic : Interceptors) (cs : List Node) (path : Bytes) (ps : Params) (m : Node) (ps' : Params) : Prop :=
  ∃ (i : Nat) (c : Node), cs[i]? = some c ∧ tryChild env ic c path ps = .hit m ps' ∧
    ∀ j < i, ∀ c' : Node, cs[j]? = some c' → tryChild env ic c' path ps = .miss ps

/-- "Every child misses". -/
def AllMiss (env : Env) (ic : Interceptors) (cs : List Node) (path : Bytes) (ps : Params) : Prop :=
  ∀ c ∈ cs, tryChild env ic c path ps = .miss ps

theorem scan_hit_iff {env : Env} {ic : Interceptors} {n : Node} {path : Bytes} {ps : Params} {used : List Bytes}
    (ht : TrackL used n.children ps) (m : Node) (ps' : Params) :
    selfStep n path (matchFrom env ic n.children 0 path ps) = .hit m ps' ↔
      FirstHit env ic n.children path ps m ps' ∨
      (AllMiss env ic n.children path ps ∧ path = [] ∧ n.handlers ≠ [] ∧ m = n ∧ ps' = ps) := by
  have hfirst := matchFrom_first_hit (env := env) (ic := ic) (path := path) ht
  have hmiss := matchFrom_miss_iff (env := env) (ic := ic) (path := path) ht
  cases hr : matchFrom env ic n.children 0 path ps with
  | miss ps2 =>
    obtain ⟨rfl, hall⟩ := (hmiss ps2).1 hr
    simp only [selfStep]
    constructor
    · intro h
      split at h
      · rename_i hc
        simp only [MR.hit.injEq] at h
        refine .inr ⟨hall, by simpa using hc.1, ?_, h.1.symm, h.2.symm⟩
        intro hnil; have := hc.2; rw [hnil] at this; simp at this
      · cases h
    · rintro (h | ⟨_, hp, hh, rfl, rfl⟩)
      · have := (hfirst m ps').2 h
        rw [hr] at this; cases this
      · rw [if_pos ⟨by simp [hp], List.length_pos_iff.2 hh⟩]
  | hit m1 ps1 =>
    simp only [selfStep]
    constructor
    · intro h
      simp only [MR.hit.injEq] at h
      obtain ⟨rfl, rfl⟩ := h
      exact .inl ((hfirst m1 ps1).1 hr)
    · rintro (h | ⟨hall, _⟩)
      · have := (hfirst m ps').2 h
        rw [hr] at this; exact this
      · have := (hmiss ps).2 ⟨rfl, hall⟩
        rw [hr] at this; cases this
  | fault s =>
    simp only [selfStep]
    constructor
    · intro h; cases h
    · rintro (h | ⟨hall, _⟩)
      · have := (hfirst m ps').2 h
        rw [hr] at this; cases this
      · have := (hmiss ps).2 ⟨rfl, hall⟩
        rw [hr] at this; cases this
  | unsupported =>
    simp only [selfStep]
    constructor
    · intro h; cases h
    · rintro (h | ⟨hall, _⟩)
      · have := (hfirst m ps').2 h
        rw [hr] at this; cases this
      · have := (hmiss ps).2 ⟨rfl, hall⟩
        rw [hr] at this; cases this

theorem scan_miss_iff {env : Env} {ic : Interceptors} {n : Node} {path : Bytes} {ps : Params} {used : List Bytes}
    (ht : TrackL used n.children ps) (ps' : Params) :
    selfStep n path (matchFrom env ic n.children 0 path ps) = .miss ps' ↔
      ps' = ps ∧ AllMiss env ic n.children path ps ∧ ¬ (path = [] ∧ n.handlers ≠ []) := by
  have hmiss := matchFrom_miss_iff (env := env) (ic := ic) (path := path) ht
  cases hr : matchFrom env ic n.children 0 path ps with
  | miss ps2 =>
    obtain ⟨rfl, hall⟩ := (hmiss ps2).1 hr
    simp only [selfStep]
    constructor
    · intro h
      split at h
      · cases h
      · rename_i hc
        simp only [MR.miss.injEq] at h
        refine ⟨h.symm, hall, ?_⟩
        rintro ⟨hp, hh⟩
        exact hc ⟨by simp [hp], List.length_pos_iff.2 hh⟩
    · rintro ⟨rfl, _, hc⟩
      rw [if_neg]
      rintro ⟨hp, hh⟩
      exact hc ⟨by simpa using hp, List.length_pos_iff.1 hh⟩
  | hit m1 ps1 =>
    simp only [selfStep, reduceCtorEq, false_iff, not_and]
    intro _ hall
    have := (hmiss ps).2 ⟨rfl, hall⟩
    rw [hr] at this; cases this
  | fault s =>
    simp only [selfStep, reduceCtorEq, false_iff, not_and]
    intro _ hall
    have := (hmiss ps).2 ⟨rfl, hall⟩
    rw [hr] at this; cases this
  | unsupported =>
    simp only [selfStep, reduceCtorEq, false_iff, not_and]
    intro _ hall
    have := (hmiss ps).2 ⟨rfl, hall⟩
    rw [hr] at this; cases this

/-- `matchChildren` of a node without index is the scan followed by the self step. -/
theorem matchChildren_noIndex' (env : Env) (ic : Interceptors) (n : Node) (hi : n.indexes = []) (path : Bytes) (ps : Params) :
    n.matchChildren env ic path ps = selfStep n path (matchFrom env ic n.children 0 path ps) := by
  cases n with
  | mk seg pat mi hs idx cs =>
    simp only [Node.indexes_mk] at hi
    subst hi
    rw [Node.matchChildren_noIndex, ← matchFrom_eq_foldl]
    unfold selfStep
    simp only [Node.children_mk, Node.handlers_mk]
    cases matchFrom env ic cs 0 path ps <;> rfl

/-- `matchChildren` of any node satisfying `SOk` whose literal children start with distinct bytes is
the scan followed by the self step: the index fast path changes nothing. -/
theorem matchChildren_eq_scan {ic0 : Interceptors} (env : Env) (ic : Interceptors) {n : Node} (h : Node.All (SOk ic0) n)
    (hd : DistinctFirstBytes n) {path : Bytes} {ps : Params} {used : List Bytes}
    (hN : NamesOkL used n.children) (hk : ∀ k ∈ ps.keys, k ∈ used) :
    n.matchChildren env ic path ps = selfStep n path (matchFrom env ic n.children 0 path ps) := by
  by_cases hi : n.indexes = []
  · exact matchChildren_noIndex' env ic n hi path ps
  · obtain ⟨lits, others, e, hI⟩ := indexOk_of_SOk h.head hd hi
    have ht : TrackL used n.children ps := ⟨hN, AllL_idxLit_of_SOk _ h.tail, hk⟩
    cases n with
    | mk seg pat mi hs idx cs =>
      simp only [Node.children_mk, Node.indexes_mk] at e hI ht ⊢
      subst e
      rw [Node.matchChildren_indexed_eq_scan env ic seg pat mi hs hI ht, ← matchFrom_eq_foldl]
      unfold selfStep
      simp only [Node.handlers_mk]
      cases matchFrom env ic (lits ++ others) 0 path ps <;> rfl

/-! ## Shortest capture, in the "proper prefix" form -/

/-- A named/interceptor segment with a suffix: no proper prefix of the capture is followed by the
suffix and accepted by the constraint. -/
theorem match_shortest_prefix (env : Env) (ic : Interceptors) (s : Seg) (path cap rest : Bytes)
    (hk : s.kind = .icpt ∨ s.kind = .named) (he : s.endpoint = false) (h : s.match env ic path = .yes cap rest) :
    ∀ pre', pre' <+: cap → pre' ≠ cap →
      ¬ (s.suffix <+: path.drop pre'.length ∧ s.accepts env ic pre' = true) := by
  obtain ⟨hp, _, hmin⟩ := (Seg.match_scan_yes_iff env ic s path cap rest hk he).1 h
  rintro pre' ⟨t, rfl⟩ hne
  have hlt : pre'.length < (pre' ++ t).length := by
    cases t with
    | nil => simp at hne
    | cons c t => simp
  have := hmin pre'.length hlt
  rw [hp] at this ⊢
  simpa [List.append_assoc, List.take_left'] using this

/-- Giving up a child: once its own segment matched with capture `cap` and its subtree missed, the
scan continues with the NEXT sibling; the child is not tried again with another capture. -/
theorem matchFrom_give_up (env : Env) (ic : Interceptors) (c : Node) (cs : List Node) (path : Bytes) (ps : Params)
    {cap rest : Bytes} {ps2 : Params} (hm : c.seg.match env ic path = .yes cap rest)
    (hsub : c.matchChildren env ic rest (c.seg.record cap ps) = .miss ps2) :
    matchFrom env ic (c :: cs) 0 path ps = matchFrom env ic cs 0 path (restoreParam ps ps2 c.seg.name) := by
  rw [matchFrom_cons_zero]
  unfold tryChild
  rw [hm]
  simp only
  rw [hsub]

end Mux.P8
