/-
  Mux.Proofs.GroupHistory — invariants of a `Group` and its router table along a whole history
  (`P10.grun`): no operation changes the name under which a table entry is known, the names of the
  member routers stay pairwise distinct, and every member id is present in the table.
  Helpers of `Mux/Properties/C13history.lean`.
-/
import Mux.Proofs.OnionGroup
import Mux.Proofs.TreeReach
import Mux.Proofs.TreeInv
namespace Mux.P24
open Mux Mux.P10

/-! ## Router operations keep the name -/

theorem step_name (r : Router) (op : ROp) : (r.step op).tree.name = r.tree.name := by
  obtain ⟨top, _, h⟩ := Router.step_tree r op
  rw [h]; exact (sameCfg_step r.tree top).2.1

theorem run_name (r : Router) (ops : List ROp) : (r.run ops).tree.name = r.tree.name := by
  unfold Router.run
  induction ops generalizing r with
  | nil => rfl
  | cons op ops ih => rw [List.foldl_cons, ih, step_name]

/-- Replacing a table entry by a router with the same name changes no name. -/
theorem nameOf_set_same (rt : RTab) (rid : Nat) (r r' : Router) (h : rt.get? rid = some r)
    (hn : r'.tree.name = r.tree.name) (id : Nat) : (rt.set rid r').nameOf id = rt.nameOf id := by
  unfold RTab.nameOf
  rw [RTab.get?_set]
  by_cases h2 : id = rid
  · subst h2; simp [h, hn]
  · simp [h2]

/-! ## One step -/

/-- No group operation and no router operation changes the name under which an id is known. -/
theorem gstep_nameOf (s : GState) (op : GOp) (id : Nat) : (gstep s op).2.nameOf id = s.2.nameOf id := by
  cases op with
  | add mt rid =>
    simp only [gstep]
    cases ha : s.1.add s.2 mt rid with
    | none => rfl
    | some res =>
      obtain ⟨g', rt'⟩ := res
      obtain ⟨r, hr, _, _, rfl⟩ := Group.add_some_inv s.1 s.2 mt rid g' rt' ha
      exact RTab.nameOf_set_use s.2 rid r s.1.ms hr id
  | use m => exact use_fold_nameOf m s.1.routers s.2 id
  | remove name => rfl
  | router rid op =>
    simp only [gstep]
    cases hr : s.2.get? rid with
    | none => rfl
    | some r => exact nameOf_set_same s.2 rid r (r.step op) hr (step_name r op) id

theorem grun_nameOf (prog : List GOp) : ∀ (s : GState) (id : Nat), (grun s prog).2.nameOf id = s.2.nameOf id := by
  induction prog with
  | nil => intro s id; rfl
  | cons op rest ih =>
    intro s id
    simp only [grun, List.foldl_cons] at ih ⊢
    rw [ih, gstep_nameOf]

/-- The names of a group only depend on the names in the table. -/
theorem names_of_nameOf (g : Group) (rt rt' : RTab) (h : ∀ id, rt'.nameOf id = rt.nameOf id) :
    g.names rt' = g.names rt := by
  rw [Group.names_eq, Group.names_eq]; exact names_congr _ rt rt' h

/-- The invariant: names pairwise distinct, ids pairwise distinct, every member id is in the table. -/
structure GInv (s : GState) : Prop where
  names : (s.1.names s.2).Nodup
  ids : (Group.ids s.1).Nodup
  present : ∀ e ∈ s.1.routers, (s.2.nameOf e.1).isSome = true

theorem ginv_init (rt : RTab) : GInv (({} : Group), rt) :=
  ⟨List.nodup_nil, List.nodup_nil, fun e he => by cases he⟩

theorem ginv_step {s : GState} (h : GInv s) (op : GOp) : GInv (gstep s op) := by
  refine ⟨?_, ids_step h.ids op, ?_⟩
  · cases op with
    | add mt rid =>
      simp only [gstep]
      cases ha : s.1.add s.2 mt rid with
      | none => exact h.names
      | some res => exact (C13.C13_names_nodup s.1 s.2 mt rid res.1 res.2 h.names ha).2
    | use m =>
      simp only [gstep]
      rw [C13.C13_names_use]; exact h.names
    | remove name => exact (C13.C13_names_remove s.1 s.2 name).2.2.2 h.names
    | router rid op =>
      have hn := names_of_nameOf s.1 s.2 (gstep s (.router rid op)).2 (gstep_nameOf s (.router rid op))
      have hg : (gstep s (.router rid op)).1 = s.1 := by
        simp only [gstep]; cases s.2.get? rid <;> rfl
      rw [hg, hn]; exact h.names
  · intro e he
    rw [gstep_nameOf]
    cases op with
    | add mt rid =>
      simp only [gstep] at he
      cases ha : s.1.add s.2 mt rid with
      | none => rw [ha] at he; exact h.present e he
      | some res =>
        obtain ⟨g', rt'⟩ := res
        obtain ⟨r, hr, _, rfl, _⟩ := Group.add_some_inv s.1 s.2 mt rid g' rt' ha
        rw [ha] at he
        simp only [Option.getD_some, List.mem_append, List.mem_singleton] at he
        rcases he with he | rfl
        · exact h.present e he
        · simp [RTab.nameOf, hr]
    | use m => exact h.present e he
    | remove name =>
      simp only [gstep, Group.remove] at he
      exact h.present e (List.mem_filter.mp he).1
    | router rid op =>
      have hg : (gstep s (.router rid op)).1 = s.1 := by
        simp only [gstep]; cases s.2.get? rid <;> rfl
      rw [hg] at he; exact h.present e he

theorem ginv_run (prog : List GOp) : ∀ {s : GState}, GInv s → GInv (grun s prog) := by
  induction prog with
  | nil => intro s h; exact h
  | cons op rest ih =>
    intro s h
    simp only [grun, List.foldl_cons] at ih ⊢
    exact ih (ginv_step h op)

theorem nameOf_isSome {rt : RTab} {id : Nat} (h : (rt.nameOf id).isSome = true) : ∃ r, rt.get? id = some r := by
  unfold RTab.nameOf at h
  cases hr : rt.get? id with
  | none => rw [hr] at h; cases h
  | some r => exact ⟨r, rfl⟩

/-! ## Order of addition -/

/-- One step changes the member list by appending at the end (`Add`) or by deleting entries (`Remove`). -/
theorem gstep_routers (s : GState) (op : GOp) :
    (∃ mt rid, op = .add mt rid ∧ (s.1.add s.2 mt rid).isSome = true ∧
        (gstep s op).1.routers = s.1.routers ++ [(rid, mt)]) ∨
      (gstep s op).1.routers.Sublist s.1.routers := by
  cases op with
  | add mt rid =>
    cases ha : s.1.add s.2 mt rid with
    | none => right; simp [gstep, ha]
    | some res =>
      obtain ⟨g', rt'⟩ := res
      obtain ⟨r, _, _, rfl, _⟩ := Group.add_some_inv s.1 s.2 mt rid g' rt' ha
      left; exact ⟨mt, rid, rfl, by simp [ha], by simp [gstep, ha]⟩
  | use m => right; exact List.Sublist.refl _
  | remove name => right; simp only [gstep, Group.remove]; exact List.filter_sublist
  | router rid op => right; simp only [gstep]; cases s.2.get? rid <;> exact List.Sublist.refl _

/-! ## The group's own middlewares -/

/-- The middlewares given to `Group.Use` along a history, in call order. -/
def useArgs : List GOp → List Nat
  | [] => []
  | .use m :: rest => m ++ useArgs rest
  | _ :: rest => useArgs rest

theorem gstep_ms (s : GState) (op : GOp) : (gstep s op).1.ms = s.1.ms ++ useArgs [op] := by
  cases op with
  | add mt rid =>
    simp only [gstep, useArgs, List.append_nil]
    cases ha : s.1.add s.2 mt rid with
    | none => rfl
    | some res =>
      obtain ⟨g', rt'⟩ := res
      obtain ⟨r, _, _, rfl, _⟩ := Group.add_some_inv s.1 s.2 mt rid g' rt' ha
      rfl
  | use m => simp [gstep, useArgs, Group.use]
  | remove name => simp [gstep, useArgs, Group.remove]
  | router rid op => simp only [gstep, useArgs, List.append_nil]; cases s.2.get? rid <;> rfl

theorem grun_ms (prog : List GOp) : ∀ (s : GState), (grun s prog).1.ms = s.1.ms ++ useArgs prog := by
  induction prog with
  | nil => intro s; simp [grun, useArgs]
  | cons op rest ih =>
    intro s
    simp only [grun, List.foldl_cons] at ih ⊢
    rw [ih, gstep_ms]
    cases op <;> simp [useArgs]

end Mux.P24
