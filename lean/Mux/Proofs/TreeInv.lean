/-
  Mux.Proofs.TreeInv — the tree invariant `TreeInv` and its preservation by every operation of a
  history (`Tree.step`), hence by `Tree.run`.
-/
import Mux.Proofs.TreeGood
namespace Mux

/-- The invariant of a whole tree. The root is special: its handlers are `{OPTIONS, ""}` forever and
its method index is `rootMethodIndex`; every node below it is `Good`. -/
structure TreeInv (t : Tree) : Prop where
  rootKeys : t.root.handlers.keys = [mOPTIONS, mNotAllowed]
  rootMi : t.root.methodIndex = rootMethodIndex t.hasTrace t.counts
  rootIdx : IdxOk t.root
  below : AllL (Good t.hasTrace) t.root.children

/-! ## Inversion of the operations -/

/-- The method list `Tree.add` works with. -/
def effMethods (methods : List Bytes) : List Bytes := if methods.isEmpty then anyMethods else methods

theorem Tree.add_ok {t t' : Tree} {p : Bytes} {h : Handler} {ms : List Nat} {methods : List Bytes}
    (he : t.add p h ms methods = .ok t') :
    ∃ v rest root1 path root2,
      t.checkMethods p (effMethods methods) [] = .ok () ∧
      splitString p = v :: rest ∧
      getNode t.ic t.root v rest = .ok (root1, path) ∧
      root1.modifyAt (t.addMethodsNode h p ms (effMethods methods)) path = .ok root2 ∧
      t' = ({ t with root := root2 }).bumpMethods (effMethods methods) := by
  unfold Tree.add at he
  simp only [bind, Except.bind, pure, Except.pure] at he
  split at he
  · simp at he
  split at he
  · simp [throw, throwThe, MonadExceptOf.throw] at he
  · split at he
    · simp at he
    split at he
    · simp at he
    rename_i hcm
    split at he
    · simp [throw, throwThe, MonadExceptOf.throw] at he
    rename_i v rest hsp
    split at he
    · simp at he
    rename_i r1 hr1
    split at he
    · simp at he
    rename_i root2 hroot2
    simp only [Except.ok.injEq] at he
    exact ⟨v, rest, r1.1, r1.2, root2, hcm, hsp, hr1, hroot2, he.symm⟩

theorem Tree.remove_ok {t t' : Tree} {p : Bytes} {methods : List Bytes}
    (he : t.remove p methods = .ok t') :
    t' = t ∨ ∃ path root1, t.root.findPath p = some path ∧
      t.root.removeAt (removeMethods t.hasTrace methods) path = .ok root1 ∧
      t' = ({ t with root := root1 }).recount := by
  unfold Tree.remove at he
  split at he
  · simp only [Except.ok.injEq] at he; exact .inl he.symm
  · rename_i path hpath
    simp only [bind, Except.bind, pure, Except.pure] at he
    split at he
    · simp at he
    rename_i root1 hroot1
    simp only [Except.ok.injEq] at he
    exact .inr ⟨path, root1, hpath, hroot1, he.symm⟩

theorem Tree.clean_ok {t t' : Tree} {pre : Bytes} (he : t.clean pre = .ok t') :
    ∃ root1, t.root.clean pre = .ok root1 ∧ t' = ({ t with root := root1 }).recount := by
  unfold Tree.clean at he
  simp only [bind, Except.bind, pure, Except.pure] at he
  split at he
  · simp at he
  rename_i root1 hroot1
  simp only [Except.ok.injEq] at he
  exact ⟨root1, hroot1, he.symm⟩

/-! ## Root updates -/

theorem TreeInv.of_root {t : Tree} (h : TreeInv t) {root' : Node} {counts' : AMap Nat}
    (hh : root'.handlers = t.root.handlers) (hi : IdxOk root')
    (ha : AllL (Good t.hasTrace) root'.children) :
    TreeInv { t with counts := counts',
                     root := root'.setHandlers root'.handlers (rootMethodIndex t.hasTrace counts') } := by
  refine ⟨?_, ?_, ?_, ?_⟩
  · simp only [Node.setHandlers, Node.handlers_mk]; rw [hh]; exact h.rootKeys
  · simp [Node.setHandlers, Tree.hasTrace]
  · intro e he
    simpa [Node.setHandlers] using hi e (by simpa [Node.setHandlers] using he)
  · simpa [Node.setHandlers, Tree.hasTrace] using ha

/-! ## The four operations -/

theorem inv_new (name : Bytes) (ic : Interceptors) (nf : Handler) (tr : Option Handler)
    (ob : Base := .options) (nb : Base := .notAllowed) : TreeInv (Tree.new name ic nf tr ob nb) := by
  refine ⟨?_, ?_, ?_, ?_⟩
  · simp [Tree.new, AMap.keys]
  · simp [Tree.new, Tree.hasTrace]
  · intro e he; simp [Tree.new] at he
  · simp [Tree.new, AllL]

theorem inv_add {t t' : Tree} {p : Bytes} {h : Handler} {ms : List Nat} {methods : List Bytes}
    (hinv : TreeInv t) (he : t.add p h ms methods = .ok t') : TreeInv t' := by
  obtain ⟨v, rest, root1, path, root2, _, _, hget, hmod, rfl⟩ := Tree.add_ok he
  obtain ⟨hi1, ha1, hh1, _, _, _, hne, _⟩ :=
    getNode_post t.ic (GoodQ t.hasTrace) (GoodQ_empty _) t.root v rest _ hinv.rootIdx hinv.below hget
  simp only at hi1 ha1 hh1 hne
  cases path with
  | nil => exact absurd rfl hne
  | cons i path =>
    obtain ⟨_, _, _, hh2, hidx2, hlen2, ha2⟩ :=
      modifyAt_cons_top (Q := GoodQ t.hasTrace) _ (addMethodsNode_good t h p ms (effMethods methods)) ha1 hmod
    have hi2 : IdxOk root2 := by
      intro e he
      rw [hidx2] at he; rw [hlen2]; exact hi1 e he
    exact TreeInv.of_root (t := t) hinv (hh2.trans hh1) hi2 ha2

theorem inv_remove {t t' : Tree} {p : Bytes} {methods : List Bytes}
    (hinv : TreeInv t) (he : t.remove p methods = .ok t') : TreeInv t' := by
  rcases Tree.remove_ok he with rfl | ⟨path, root1, hpath, hrem, rfl⟩
  · exact hinv
  · cases path with
    | nil => exact absurd rfl (findPath_ne_nil _ _ _ hpath)
    | cons i path =>
      have ih := removeAt_All_aux (Q := GoodQ t.hasTrace) (removeMethods t.hasTrace methods)
        (removeMethods_good t.hasTrace methods) path
      obtain ⟨_, _, _, hh, hi, ha⟩ := removeAt_cons_top _ path ih hinv.rootIdx hinv.below hrem
      exact TreeInv.of_root (t := t) hinv hh hi ha

theorem inv_clean {t t' : Tree} {pre : Bytes} (hinv : TreeInv t) (he : t.clean pre = .ok t') : TreeInv t' := by
  obtain ⟨root1, hclean, rfl⟩ := Tree.clean_ok he
  obtain ⟨_, _, _, hh, hi, ha⟩ := clean_All_aux (Q := GoodQ t.hasTrace) t.root pre root1 hinv.below hclean
  exact TreeInv.of_root (t := t) hinv hh hi ha

theorem hasTrace_applyMiddleware (t : Tree) (ms : List Nat) : (t.applyMiddleware ms).hasTrace = t.hasTrace := by
  simp [Tree.applyMiddleware, Tree.hasTrace]

theorem inv_use {t : Tree} (ms : List Nat) (hinv : TreeInv t) : TreeInv (t.applyMiddleware ms) := by
  obtain ⟨_, _, hm, hh, hi, hc⟩ := applyMw_fields t.name ms t.root
  refine ⟨?_, ?_, ?_, ?_⟩
  · show (t.root.applyMw t.name ms).handlers.keys = _
    rw [hh, AMap.keys_mapVals t.root.handlers (fun k v => wrapWith v k t.root.pattern t.name ms)]
    exact hinv.rootKeys
  · show (t.root.applyMw t.name ms).methodIndex = rootMethodIndex (t.applyMiddleware ms).hasTrace t.counts
    rw [hm, hasTrace_applyMiddleware]; exact hinv.rootMi
  · show IdxOk (t.root.applyMw t.name ms)
    intro e he
    rw [hi] at he; rw [hc, applyMwL_length]; exact hinv.rootIdx e he
  · show AllL (Good (t.applyMiddleware ms).hasTrace) (t.root.applyMw t.name ms).children
    rw [hasTrace_applyMiddleware, hc]
    exact applyMwL_All t.name ms (fun mi hs p => GoodQ_applyMw t.hasTrace t.name ms mi hs p) hinv.below

/-- Every operation of a history preserves the invariant. -/
theorem inv_step {t : Tree} (hinv : TreeInv t) (op : TOp) : TreeInv (t.step op) := by
  cases op with
  | add p h ms methods =>
    simp only [Tree.step]
    split
    · rename_i t' he; exact inv_add hinv he
    · exact hinv
  | remove p methods =>
    simp only [Tree.step]
    split
    · rename_i t' he; exact inv_remove hinv he
    · exact hinv
  | clean pre =>
    simp only [Tree.step]
    split
    · rename_i t' he; exact inv_clean hinv he
    · exact hinv
  | use ms => exact inv_use ms hinv

theorem inv_run {t : Tree} (hinv : TreeInv t) (ops : List TOp) : TreeInv (t.run ops) := by
  unfold Tree.run
  induction ops generalizing t with
  | nil => exact hinv
  | cons op ops ih => exact ih (inv_step hinv op)

/-! ## What a history never changes -/

/-- The configuration of a tree: what no operation changes. -/
def Tree.SameCfg (t t' : Tree) : Prop :=
  t'.hasTrace = t.hasTrace ∧ t'.name = t.name ∧ t'.ic = t.ic ∧
    t'.optionsBase = t.optionsBase ∧ t'.notAllowedBase = t.notAllowedBase

theorem Tree.SameCfg.refl (t : Tree) : t.SameCfg t := ⟨rfl, rfl, rfl, rfl, rfl⟩

theorem Tree.SameCfg.trans {a b c : Tree} (h1 : a.SameCfg b) (h2 : b.SameCfg c) : a.SameCfg c :=
  ⟨h2.1.trans h1.1, h2.2.1.trans h1.2.1, h2.2.2.1.trans h1.2.2.1, h2.2.2.2.1.trans h1.2.2.2.1,
    h2.2.2.2.2.trans h1.2.2.2.2⟩

theorem sameCfg_step (t : Tree) (op : TOp) : t.SameCfg (t.step op) := by
  cases op with
  | add p h ms methods =>
    simp only [Tree.step]
    split
    · rename_i t' he
      obtain ⟨_, _, _, _, _, _, _, _, _, rfl⟩ := Tree.add_ok he
      exact ⟨rfl, rfl, rfl, rfl, rfl⟩
    · exact Tree.SameCfg.refl t
  | remove p methods =>
    simp only [Tree.step]
    split
    · rename_i t' he
      rcases Tree.remove_ok he with rfl | ⟨_, _, _, _, rfl⟩
      · exact Tree.SameCfg.refl _
      · exact ⟨rfl, rfl, rfl, rfl, rfl⟩
    · exact Tree.SameCfg.refl t
  | clean pre =>
    simp only [Tree.step]
    split
    · rename_i t' he
      obtain ⟨_, _, rfl⟩ := Tree.clean_ok he
      exact ⟨rfl, rfl, rfl, rfl, rfl⟩
    · exact Tree.SameCfg.refl t
  | use ms => exact ⟨hasTrace_applyMiddleware t ms, rfl, rfl, rfl, rfl⟩

theorem sameCfg_run (t : Tree) (ops : List TOp) : t.SameCfg (t.run ops) := by
  unfold Tree.run
  induction ops generalizing t with
  | nil => exact Tree.SameCfg.refl t
  | cons op ops ih => exact (sameCfg_step t op).trans (ih (t.step op))

end Mux
