/-
  Mux.Proofs.TreeServe — the serve path: `matchChildren` never reaches `fault 220` when every
  stored index position is in range, a hit is a node of the tree, and `Tree.handler` never falls
  through to the nil handler on a tree satisfying `TreeInv`.
-/
import Mux.Proofs.TreeInv
namespace Mux

/-! ## `Node.All` and `Node.nodes` -/

theorem All_iff_nodes (P : Node → Prop) :
    (∀ n : Node, Node.All P n ↔ ∀ m ∈ n.nodes, P m) ∧ (∀ cs : List Node, AllL P cs ↔ ∀ m ∈ nodesL cs, P m) := by
  have : ∀ n : Node, Node.All P n ↔ ∀ m ∈ n.nodes, P m := by
    intro n
    induction n using Node.rec (motive_2 := fun cs => AllL P cs ↔ ∀ m ∈ nodesL cs, P m) with
    | mk s p mi hs idx cs ih =>
      simp only [Node.All, Node.nodes, List.mem_cons, forall_eq_or_imp, ih]
    | nil => simp [AllL, nodesL]
    | cons c cs ih1 ih2 =>
      simp only [AllL, nodesL, List.mem_append, ih1, ih2]
      constructor
      · rintro ⟨h1, h2⟩ m (hm | hm); exact h1 m hm; exact h2 m hm
      · intro h; exact ⟨fun m hm => h m (.inl hm), fun m hm => h m (.inr hm)⟩
  refine ⟨this, ?_⟩
  intro cs
  induction cs with
  | nil => simp [AllL, nodesL]
  | cons c cs ih =>
    simp only [AllL, nodesL, List.mem_append, this, ih]
    constructor
    · rintro ⟨h1, h2⟩ m (hm | hm); exact h1 m hm; exact h2 m hm
    · intro h; exact ⟨fun m hm => h m (.inl hm), fun m hm => h m (.inr hm)⟩

theorem Node.nodes_eq (n : Node) : n.nodes = n :: nodesL n.children := by
  cases n; simp [Node.nodes]

/-! ## Matching -/

/-- A match result that is not a fault and whose hit satisfies `P`. -/
def MROk (P : Node → Prop) : MR → Prop
  | .fault _ => False
  | .hit m _ => P m
  | _ => True

theorem idxLookup_lt {idx : List (UInt8 × Nat)} {N : Nat} (h : ∀ e ∈ idx, e.2 < N) (hne : idx ≠ [])
    (b : UInt8) : (idxLookup idx b).getD 0 < N := by
  have hN : 0 < N := by
    cases idx with
    | nil => exact absurd rfl hne
    | cons e _ => exact Nat.lt_of_le_of_lt (Nat.zero_le _) (h e (by simp))
  unfold idxLookup
  cases hf : idx.find? (·.1 = b) with
  | none => simpa using hN
  | some e => simpa using h e (List.mem_of_find?_eq_some hf)

/-- Continue with `k` after a miss. -/
def MR.onMiss (r : MR) (k : Params → MR) : MR :=
  match r with
  | .miss ps => k ps
  | r => r

/-- The index fast path of `matchChildren`. -/
def tFastPath (env : Env) (ic : Interceptors) (cs : List Node) (idx : List (UInt8 × Nat)) (path : Bytes)
    (ps : Params) : MR :=
  match idx, path with
  | _ :: _, b :: _ => matchAt env ic cs ((idxLookup idx b).getD 0) path ps
  | _, _ => .miss ps

theorem matchChildren_eq (env : Env) (ic : Interceptors) (seg pat mi hs idx cs) (path : Bytes) (ps : Params) :
    Node.matchChildren env ic (.mk seg pat mi hs idx cs) path ps =
      (tFastPath env ic cs idx path ps).onMiss (fun ps1 =>
        (matchFrom env ic cs idx.length path ps1).onMiss (fun ps2 =>
          if path.isEmpty ∧ hs.length > 0 then .hit (.mk seg pat mi hs idx cs) ps2 else .miss ps2)) := by
  simp only [Node.matchChildren, MR.onMiss, tFastPath]
  rfl

theorem MROk.onMiss {P : Node → Prop} {r : MR} {k : Params → MR} (hr : MROk P r)
    (hk : ∀ ps, MROk P (k ps)) : MROk P (r.onMiss k) := by
  cases r with
  | fault s => exact False.elim hr
  | unsupported => trivial
  | hit m ps' => exact hr
  | miss ps1 => exact hk ps1

theorem match_ok (env : Env) (ic : Interceptors) (P : Node → Prop) :
    ∀ n : Node, Node.All (fun m => IdxOk m ∧ P m) n → ∀ path ps, MROk P (n.matchChildren env ic path ps) := by
  intro n
  induction n using Node.rec (motive_2 := fun cs => AllL (fun m => IdxOk m ∧ P m) cs →
      (∀ i path ps, i < cs.length → MROk P (matchAt env ic cs i path ps)) ∧
      (∀ skip path ps, MROk P (matchFrom env ic cs skip path ps))) with
  | mk seg pat mi hs idx cs ih =>
    intro hall path ps
    obtain ⟨hat, hfrom⟩ := ih hall.2
    have hidx : ∀ e ∈ idx, e.2 < cs.length := hall.1.1
    rw [matchChildren_eq]
    apply MROk.onMiss
    · unfold tFastPath
      cases idx with
      | nil => trivial
      | cons e idx =>
        cases path with
        | nil => trivial
        | cons b path => exact hat _ _ _ (idxLookup_lt hidx (by simp) b)
    · intro ps1
      apply MROk.onMiss (hfrom _ _ _)
      intro ps2
      split
      · exact hall.1.2
      · trivial
  | nil =>
    refine ⟨fun i path ps hi => by simp at hi, fun skip path ps => ?_⟩
    simp [matchFrom, MROk]
  | cons c cs ih1 ih2 =>
    rename_i hall
    obtain ⟨hat, hfrom⟩ := ih2 hall.2
    have hc := ih1 hall.1
    refine ⟨?_, ?_⟩
    · intro i path ps hi
      cases i with
      | zero =>
        simp only [matchAt]
        split
        · trivial
        · trivial
        · exact hc _ _
      | succ i =>
        simp only [matchAt]
        exact hat i path ps (by simpa using hi)
    · intro skip path ps
      cases skip with
      | succ skip => simp only [matchFrom]; exact hfrom skip path ps
      | zero =>
        simp only [matchFrom]
        split
        · exact hfrom 0 path ps
        · trivial
        · rename_i cap rest _
          have h1 := hc rest (if c.seg.kind ≠ .str ∧ ¬ c.seg.ignoreName then ps.set c.seg.name cap else ps)
          generalize Node.matchChildren env ic c rest
            (if c.seg.kind ≠ .str ∧ ¬ c.seg.ignoreName then ps.set c.seg.name cap else ps) = r at h1
          cases r with
          | fault s => exact False.elim h1
          | unsupported => trivial
          | hit m ps' => exact h1
          | miss ps2 => exact hfrom 0 path _

/-! ## `Tree.handler` -/

/-- What `Tree.handler` matched, independently of the method. -/
def Tree.matched (env : Env) (t : Tree) (path : Bytes) (ps : Params) : MR :=
  if path = [42] ∨ path = [] then .hit t.root ps else t.root.matchChildren env t.ic path ps

theorem TreeInv.allIdx {t : Tree} (h : TreeInv t) : Node.All IdxOk t.root := by
  rw [Node.All_iff]
  exact ⟨h.rootIdx, (AllL_mono (fun n hn => hn.2)).2 _ h.below⟩

/-- Every node of the tree that has handlers has the 405 entry and the OPTIONS entry. -/
theorem TreeInv.has_entries {t : Tree} (h : TreeInv t) {n : Node} (hn : n ∈ t.root.nodes)
    (hne : n.handlers ≠ []) : mNotAllowed ∈ n.handlers.keys ∧ mOPTIONS ∈ n.handlers.keys := by
  rw [Node.nodes_eq] at hn
  rcases List.mem_cons.1 hn with rfl | hn
  · rw [h.rootKeys]; simp
  · have := ((All_iff_nodes _).2 _).1 h.below n hn
    rcases this.1.2 with h0 | h0
    · exact absurd h0 hne
    · exact ⟨h0.notAllowed, h0.options⟩

theorem TreeInv.matched_ok {t : Tree} (h : TreeInv t) (env : Env) (path : Bytes) (ps : Params) :
    MROk (fun m => m ∈ t.root.nodes) (t.matched env path ps) := by
  unfold Tree.matched
  split
  · show t.root ∈ t.root.nodes
    rw [Node.nodes_eq]; simp
  · apply match_ok
    have h1 : Node.All (fun m => m ∈ t.root.nodes) t.root := ((All_iff_nodes _).1 _).2 (fun m hm => hm)
    have h2 := h.allIdx
    clear h
    generalize t.root.nodes = l at h1
    revert h1 h2
    generalize t.root = r
    induction r using Node.rec (motive_2 := fun cs => AllL (fun m => m ∈ l) cs → AllL IdxOk cs →
        AllL (fun m => IdxOk m ∧ m ∈ l) cs) with
    | mk s p mi hs idx cs ih => intro hI hM; exact ⟨⟨hI.1, hM.1⟩, ih hM.2 hI.2⟩
    | nil => trivial
    | cons c cs ih1 ih2 => rename_i hM hI; exact ⟨ih1 hI.1 hM.1, ih2 hM.2 hI.2⟩

/-- `Tree.handler` as a function of `Tree.matched`. -/
theorem handlerNoTrace_eq (env : Env) (t : Tree) (path : Bytes) (ps : Params) (method : Bytes) :
    Tree.handler.Tree.handlerNoTrace env t path ps method =
      match t.matched env path ps with
      | .fault s => .fault s
      | .unsupported => .unsupported
      | .miss ps' => .res { node := none, handler := t.notFound, ok := false, params := ps' }
      | .hit n ps' =>
        if n.size = 0 then .res { node := none, handler := t.notFound, ok := false, params := ps' }
        else
          match (if method = mNotAllowed then none else n.handlers.get? method) with
          | some h => .res { node := some n, handler := h, ok := true, params := ps' }
          | none =>
            match n.handlers.get? mNotAllowed with
            | some h => .res { node := some n, handler := h, ok := false, params := ps' }
            | none => .res { node := some n, handler := { base := .nil }, ok := false, params := ps' } := by
  unfold Tree.handler.Tree.handlerNoTrace Tree.matched
  rfl

/-- The shape of every answer of `Tree.handler` on a tree satisfying the invariant. -/
inductive FoundSpec (t : Tree) (method : Bytes) (f : Found) : Prop where
  /-- 404 -/
  | notFound : f.node = none → f.handler = t.notFound → f.ok = false → FoundSpec t method f
  /-- the TRACE short-circuit -/
  | trace (h : Handler) : t.trace = some h → method = mTRACE → f.node = some t.root → f.handler = h →
      f.ok = true → FoundSpec t method f
  /-- the method is registered on the matched node -/
  | found (n : Node) : f.node = some n → n ∈ t.root.nodes → n.handlers ≠ [] → method ≠ mNotAllowed →
      n.handlers.get? method = some f.handler → f.ok = true → FoundSpec t method f
  /-- 405: the matched node's `""` entry -/
  | notAllowed (n : Node) : f.node = some n → n ∈ t.root.nodes → n.handlers ≠ [] →
      (method = mNotAllowed ∨ n.handlers.get? method = none) →
      n.handlers.get? mNotAllowed = some f.handler → f.ok = false → FoundSpec t method f

theorem handlerNoTrace_spec {t : Tree} (hinv : TreeInv t) (env : Env) (path : Bytes) (ps : Params)
    (method : Bytes) :
    (∃ f, Tree.handler.Tree.handlerNoTrace env t path ps method = .res f ∧ FoundSpec t method f ∧
      ((∃ ps', t.matched env path ps = .miss ps' ∧ f.node = none) ∨
       (∃ n ps', t.matched env path ps = .hit n ps' ∧
          f.node = if n.size = 0 then none else some n))) ∨
    Tree.handler.Tree.handlerNoTrace env t path ps method = .unsupported := by
  rw [handlerNoTrace_eq]
  have hm := hinv.matched_ok env path ps
  generalize t.matched env path ps = r at hm
  cases r with
  | fault s => exact False.elim hm
  | unsupported => exact .inr rfl
  | miss ps' => exact .inl ⟨_, rfl, .notFound rfl rfl rfl, .inl ⟨ps', rfl, rfl⟩⟩
  | hit n ps' =>
    left
    simp only
    by_cases hsz : n.size = 0
    · simp only [hsz, if_true]
      exact ⟨_, rfl, .notFound rfl rfl rfl, .inr ⟨n, ps', rfl, by simp [hsz]⟩⟩
    · simp only [hsz, if_false]
      have hne : n.handlers ≠ [] := by
        intro h0; apply hsz; simp [Node.size, h0]
      have hna := (hinv.has_entries hm hne).1
      rw [← AMap.get?_isSome_iff] at hna
      by_cases hmeth : method = mNotAllowed
      · simp only [hmeth, if_true]
        cases hg : n.handlers.get? mNotAllowed with
        | none => simp [hg] at hna
        | some h =>
          exact ⟨_, rfl, .notAllowed n rfl hm hne (.inl rfl) hg rfl, .inr ⟨n, ps', rfl, by simp [hsz]⟩⟩
      · simp only [hmeth, if_false]
        cases hgm : n.handlers.get? method with
        | some h =>
          exact ⟨_, rfl, .found n rfl hm hne hmeth hgm rfl, .inr ⟨n, ps', rfl, by simp [hsz]⟩⟩
        | none =>
          cases hg : n.handlers.get? mNotAllowed with
          | none => simp [hg] at hna
          | some h =>
            exact ⟨_, rfl, .notAllowed n rfl hm hne (.inr hgm) hg rfl, .inr ⟨n, ps', rfl, by simp [hsz]⟩⟩

theorem handler_spec {t : Tree} (hinv : TreeInv t) (env : Env) (path : Bytes) (ps : Params) (method : Bytes) :
    (∃ f, t.handler env path ps method = .res f ∧ FoundSpec t method f) ∨
    t.handler env path ps method = .unsupported := by
  unfold Tree.handler
  split
  · rename_i h htr
    split
    · rename_i hm
      exact .inl ⟨_, rfl, .trace h htr hm rfl rfl rfl⟩
    · rcases handlerNoTrace_spec hinv env path ps method with ⟨f, h1, h2, _⟩ | h1
      · exact .inl ⟨f, h1, h2⟩
      · exact .inr h1
  · rcases handlerNoTrace_spec hinv env path ps method with ⟨f, h1, h2, _⟩ | h1
    · exact .inl ⟨f, h1, h2⟩
    · exact .inr h1

theorem handler_no_fault {t : Tree} (hinv : TreeInv t) (env : Env) (path : Bytes) (ps : Params)
    (method : Bytes) (s : Nat) : t.handler env path ps method ≠ .fault s := by
  rcases handler_spec hinv env path ps method with ⟨f, h1, _⟩ | h1 <;> rw [h1] <;> simp

end Mux
