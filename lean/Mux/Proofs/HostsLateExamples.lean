/-
  Mux.Proofs.HostsLateExamples — a matcher reached by a history that registers an interceptor AFTER a domain used
  its rule text as a regular expression (`Add("{a:digit}.{b}.x")`, `RegisterInterceptor(0, "digit")`,
  `Add("{a:DIGIT}.{b}.X.y")`), for the non-vacuity examples of `C14late`; and the histories behind the two
  observations reported there (evaluated by the interpreter: `#guard`, the trees have sibling lists of length 2,
  whose `mergeSort` the kernel does not unfold).
-/
import Mux.Proofs.HostsLateFrame
import Mux.Proofs.HostsReachExamples
namespace Mux.P17
open Mux Mux.P12 Mux.P10 Mux.P14

/-- `{a:digit}.{b}.x` -/
def dL1 : Bytes := bytesOfString "{a:digit}.{b}.x"
/-- `{a:DIGIT}.{b}.X.y` -/
def dL2 : Bytes := bytesOfString "{a:DIGIT}.{b}.X.y"
def rDigit : Bytes := bytesOfString "digit"

/-- `Add`, then `RegisterInterceptor("digit")` while the stored regexp segment `{a:digit}.` uses that rule, then a
second `Add` that goes THROUGH the stored segment. -/
def exLOps : List HOp := [.add dL1, .registerInterceptor 0 rDigit, .add dL2]
def exL : Hosts := hostsRun Hosts.empty exLOps
/-- interceptor 0 is `MatchDigit` -/
def exLEnv : Env := ⟨fun id v => if id = 0 then matchDigit v else true⟩

theorem exL_lateWf : HostsLateWf exL := by
  refine ⟨exLOps, ?_, rfl⟩
  intro op hop
  simp only [exLOps, List.mem_cons, List.not_mem_nil, or_false] at hop
  rcases hop with rfl | rfl | rfl
  · show WfPattern _ = true; decide +kernel
  · trivial
  · show WfPattern _ = true; decide +kernel

/-- The side condition of `P14.HostsReachWf` fails for this history: `digit` is registered while a stored regexp
segment uses it. -/
theorem exLOps_not_ok : ¬ hostsRunOk Hosts.empty exLOps := by
  rintro ⟨_, ⟨h, _⟩⟩
  have hu : usesRule rDigit (hostsStep Hosts.empty (.add dL1)).tree.root.children = true := by
    simp only [hostsStep, Hosts.add, Hosts.empty, Tree.add, getNode_eq_F, bind, Except.bind, pure, Except.pure]
    decide +kernel
  obtain ⟨n, hn, hk⟩ := List.any_eq_true.1 hu
  simp only [decide_eq_true_eq] at hk
  exact h n hn hk.1 hk.2

local macro "late_eval" : tactic =>
  `(tactic| (simp only [exL, exLOps, hostsRun, List.foldl_cons, List.foldl_nil, hostsStep, Hosts.add,
      Hosts.registerInterceptor, Hosts.empty, Tree.add, getNode_eq_F, bind, Except.bind, pure, Except.pure]
             decide +kernel))

/-- `DIGIT.foo.x.y:80` -/
def hostL1 : Bytes := bytesOfString "DIGIT.foo.x.y:80"
/-- `5.foo.x.y` -/
def hostL2 : Bytes := bytesOfString "5.foo.x.y"

/-- A decidable view of a matcher outcome. -/
def outView : MatchOut → Nat × Bytes × Params
  | .reject p q => (0, p, q)
  | .accept p q => (1, p, q)
  | .fault _ => (2, [], [])
  | .unsupported => (3, [], [])

theorem outView_accept {m : MatchOut} {p : Bytes} {q : Params} (h : outView m = (1, p, q)) : m = .accept p q := by
  cases m <;> simp [outView] at h
  obtain ⟨rfl, rfl⟩ := h; rfl

theorem outView_reject {m : MatchOut} {p : Bytes} {q : Params} (h : outView m = (0, p, q)) : m = .reject p q := by
  cases m <;> simp [outView] at h
  obtain ⟨rfl, rfl⟩ := h; rfl

/-- The stored segment keeps matching by its regular expression: `digit.foo.x.y` is accepted with `a = digit`,
`b = foo` — through the domain added AFTER the registration. -/
theorem exL_accept : exL.match exLEnv hostL1 [47] [] =
    .accept [47] [([97], bytesOfString "digit"), ([98], bytesOfString "foo")] :=
  outView_accept (by late_eval)

/-- …and `5.foo.x.y` is rejected although `{a:digit}` of the second domain was written after `digit` had become an
interceptor (`MatchDigit` accepts `5`): the node `{a:digit}.` is shared with the older domain. -/
theorem exL_reject : exL.match exLEnv hostL2 [47] [] = .reject [47] [] :=
  outView_reject (by late_eval)

/-- `DIGIT.foo.x.y:80` is resolved to the node of the second domain. -/
theorem exL_answer : ∃ f q, exL.tree.handler exLEnv (normHost hostL1) [] mGET = .res f ∧ f.node = some q ∧
    q.pattern = toLower dL2 ∧ f.handler = { base := .hostEmpty, wraps := [] } ∧ f.ok = true ∧
    f.params = [([97], bytesOfString "digit"), ([98], bytesOfString "foo")] :=
  views_spec (by late_eval) (by late_eval) (by late_eval) (by late_eval)

/-- The stored first segment is a regexp segment whose rule IS in the current table (a stale segment). -/
theorem exL_stale : (exL.tree.root.segsAt [0]).map (fun l => l.map (fun s => (s.kind, (exL.tree.ic.find s.rule).isSome))) =
    some [(.rx, true)] := by late_eval

/-! ## Observation 1 (interpreter): registration order changes what a LATER domain means

`Add("{a:digit}.{b:digit}.com")`, `RegisterInterceptor(MatchDigit, "digit")`, `Add("{a:digit}.{c:digit}.org")`:
`5.7.org` is rejected and `digit.7.org` accepted; with the registration first it is the other way round. -/

def b' (s : String) : Bytes := bytesOfString s
def accepts (hs : Hosts) (h : String) : Bool :=
  match hs.match exLEnv (b' h) [47] [] with
  | .accept _ _ => true
  | _ => false

def exO1 : Hosts := hostsRun Hosts.empty
  [.add (b' "{a:digit}.{b:digit}.com"), .registerInterceptor 0 rDigit, .add (b' "{a:digit}.{c:digit}.org")]
def exO1' : Hosts := hostsRun Hosts.empty
  [.registerInterceptor 0 rDigit, .add (b' "{a:digit}.{b:digit}.com"), .add (b' "{a:digit}.{c:digit}.org")]

#guard accepts exO1 "5.7.org" = false
#guard accepts exO1 "digit.7.org" = true
#guard accepts exO1' "5.7.org" = true
#guard accepts exO1' "digit.7.org" = false

/-! ## Observation 2 (interpreter): two siblings with the same text — outside the model, a defect in the Go code

`Add("{a:digit}.x.com")`, `Add("{a:digit}.x.org")` (regexp node `{a:digit}.x.` with the children `com`, `org`),
`RegisterInterceptor(MatchDigit, "digit")`, `Add("{a:digit}.x.net")` (an INTERCEPTOR leaf next to the regexp node:
another kind, so nothing is shared).  The next `Add("{a:digit}.x.org2")` splits that leaf at `{a:digit}.x.` — the
text of the regexp sibling.  The model answers `Err.unsupported` (`sortNode` refuses two siblings with one text; the
model locates children by their text) and leaves the tree as it was.  The Go code creates the second node; a later
`Delete("{a:digit}.x.com")`, `Delete("{a:digit}.x.org")` then empties the REGEXP node and `removeNodes(parent.children,
child.segment.Value)` (tree.go:236, node.go:239 — removal by text, first match) deletes the INTERCEPTOR sibling with
its live domains `…x.net`, `…x.org2` instead: verified on the Go code (`5.x.net` and `5.x.org2` match before the two
deletions and no longer afterwards). -/

def exO2 : Hosts := hostsRun Hosts.empty
  [.add (b' "{a:digit}.x.com"), .add (b' "{a:digit}.x.org"), .registerInterceptor 0 rDigit, .add (b' "{a:digit}.x.net")]

def isUnsupported : Except Err Hosts → Bool
  | .error .unsupported => true
  | _ => false

#guard isUnsupported (exO2.add (b' "{a:digit}.x.org2")) = true
#guard accepts exO2 "5.x.net" = true
#guard accepts exO2 "digit.x.org" = true
/-- the step function treats the refused `Add` as a no-op, so the model's history continues on the old tree -/
example : True := trivial
#guard accepts (hostsRun exO2 [.add (b' "{a:digit}.x.org2"), .delete (b' "{a:digit}.x.com"), .delete (b' "{a:digit}.x.org")])
  "5.x.net" = true

end Mux.P17
