/-
  Mux.Proofs.ResolveAllStops — the hypothesis `ParamStops` holds of every tree all of whose nodes below
  the root have handlers or are forked (`TT`), in particular after every add-only history
  (`C02_forked`): the theorem for all histories contains the add-only one.
-/
import Mux.Proofs.ResolveAllLen
namespace Mux.P16
open Mux Mux.Spec Mux.P15

theorem mem_nodesL {x : Node} : ∀ {cs : List Node}, x ∈ nodesL cs → ∃ c ∈ cs, x ∈ c.nodes
  | [], h => by cases h
  | d :: ds, h => by
    simp only [nodesL, List.mem_append] at h
    rcases h with h | h
    · exact ⟨d, List.mem_cons_self, h⟩
    · obtain ⟨c, hc, hx⟩ := mem_nodesL h
      exact ⟨c, List.mem_cons_of_mem _ hc, hx⟩

/-- In a tree all of whose nodes are forked or live, no node is followed by a common literal text. -/
theorem ext_nil_of_TT (ic : Interceptors) :
    ∀ n : Node, Node.All (P11.Sh ic) n → AllL TT n.children → ∀ x ∈ nodesL n.children, ext x = [] := by
  intro n
  induction n using Node.rec
    (motive_2 := fun cs => AllL (P11.Sh ic) cs → AllL TT cs → ∀ c ∈ cs, ∀ x ∈ nodesL c.children, ext x = []) with
  | mk s p mi hs idx cs ih =>
    intro hall hT x hx
    simp only [Node.children_mk] at hT hx
    obtain ⟨c, hc, hxc⟩ := mem_nodesL hx
    rw [Node.nodes_eq, List.mem_cons] at hxc
    rcases hxc with rfl | hxc
    · exact ((canon_rems ic _ hall hT).1.2 x hc).2.2
    · exact ih hall.tail hT c hc x hxc
  | nil => rename_i c hc x hx; cases hc
  | cons c cs ih1 ih2 =>
    rename_i hall hT d hd x hx
    rcases List.mem_cons.1 hd with rfl | hd
    · exact ih1 hall.1 hT.1.tail x hx
    · exact ih2 hall.2 hT.2 d hd x hx

theorem paramStops_of_TT {t : Tree} (hsh : Node.All (P11.Sh t.ic) t.root) (hT : AllL TT t.root.children) : ParamStops t :=
  fun c hc _ => ext_nil_of_TT t.ic t.root hsh hT c hc

/-- After an add-only history of well-formed patterns `ParamStops` holds. -/
theorem paramStops_addOnly (name : Bytes) (ic : Interceptors) (nf : Handler) (tr : Option Handler) (ob nb : Base)
    (ops : List TOp) (ha : AddOnly ops) (hw : ∀ op ∈ ops, op.wf = true) :
    ParamStops ((Tree.new name ic nf tr ob nb).run ops) := by
  have h := finv_history name ic nf tr ob nb ops ha hw
  refine paramStops_of_TT h.sim.inv.sh ?_
  have := h.forked
  rw [(All_iff_nodes _).2] at this ⊢
  intro x hx
  rcases this x hx with hl | hf
  · exact .inl (live_of_mem h.sim hx hl)
  · exact .inr hf

/-! ## `ParamStops` in plain words -/

theorem lcp_cons_of_heads (b : UInt8) : ∀ {l : List Bytes}, l ≠ [] → (∀ x ∈ l, x.head? = some b) → ∃ t, lcp l = b :: t
  | [], h, _ => absurd rfl h
  | [x], _, hx => by
    cases x with
    | nil => have := hx [] (by simp); cases this
    | cons c x =>
      have := hx (c :: x) (by simp)
      simp only [List.head?_cons, Option.some.injEq] at this
      subst this
      exact ⟨x, rfl⟩
  | x :: y :: l, _, hx => by
    obtain ⟨t, ht⟩ := lcp_cons_of_heads b (l := y :: l) (by simp) (fun z hz => hx z (List.mem_cons_of_mem _ hz))
    cases x with
    | nil => have := hx [] (by simp); cases this
    | cons c x =>
      have := hx (c :: x) (by simp)
      simp only [List.head?_cons, Option.some.injEq] at this
      subst this
      rw [lcp_cons_cons, ht, lcp2_cons, if_pos rfl]
      exact ⟨_, rfl⟩

/-- `ext c ≠ []` says: there is a live route below `c`, and all of them continue (relative to `c`) with
one and the same literal byte. -/
theorem ext_ne_nil_iff (c : Node) :
    ext c ≠ [] ↔ rems c ≠ [] ∧ ∃ b, b ≠ startByte ∧ ∀ r ∈ rems c, r.1.head? = some b := by
  constructor
  · intro he
    obtain ⟨b, e', _, hb, hR⟩ := lit_head (R := rems c) (e := ext c) rfl he
    refine ⟨lit_ne_nil (R := rems c) (e := ext c) rfl he, b, hb, ?_⟩
    intro r hr
    obtain ⟨t, ht⟩ := hR r hr
    rw [ht]; rfl
  · rintro ⟨hne, b, hb, hR⟩ he
    have hne' : (rems c).map (fun r => leadLit r.1) ≠ [] := fun e => hne (List.map_eq_nil_iff.1 e)
    obtain ⟨t, ht⟩ := lcp_cons_of_heads b hne' (by
      intro x hx
      obtain ⟨r, hr, rfl⟩ := List.mem_map.1 hx
      rw [leadLit_head, hR r hr, if_neg (by simpa using hb)])
    unfold ext at he
    rw [he] at ht
    cases ht

end Mux.P16
