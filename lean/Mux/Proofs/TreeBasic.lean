/-
  Mux.Proofs.TreeBasic — elementary facts about `AMap`, `AllL`, `buildIndexes`, `sortChildren`,
  `removeNodes` used by the tree-wide invariants.
-/
import Mux.Spec.Defs
namespace Mux

/-! ## Field projections of the constructors -/

@[simp] theorem Node.seg_mk (s p mi hs idx cs) : (Node.mk s p mi hs idx cs).seg = s := rfl
@[simp] theorem Node.pattern_mk (s p mi hs idx cs) : (Node.mk s p mi hs idx cs).pattern = p := rfl
@[simp] theorem Node.methodIndex_mk (s p mi hs idx cs) : (Node.mk s p mi hs idx cs).methodIndex = mi := rfl
@[simp] theorem Node.handlers_mk (s p mi hs idx cs) : (Node.mk s p mi hs idx cs).handlers = hs := rfl
@[simp] theorem Node.indexes_mk (s p mi hs idx cs) : (Node.mk s p mi hs idx cs).indexes = idx := rfl
@[simp] theorem Node.children_mk (s p mi hs idx cs) : (Node.mk s p mi hs idx cs).children = cs := rfl

theorem Node.eta (n : Node) : n = .mk n.seg n.pattern n.methodIndex n.handlers n.indexes n.children := by
  cases n; rfl

/-! ## Node predicates -/

/-- I-index (range part): every stored position is in range. -/
def IdxOk (n : Node) : Prop := ∀ e ∈ n.indexes, e.2 < n.children.length

/-- A node predicate that only talks about `(methodIndex, handlers)` plus `IdxOk`. -/
def NodeOk (Q : Nat → AMap Handler → Prop) (n : Node) : Prop := Q n.methodIndex n.handlers ∧ IdxOk n

theorem Node.All_iff (P : Node → Prop) (n : Node) : Node.All P n ↔ P n ∧ AllL P n.children := by
  cases n; simp [Node.All]

theorem Node.All.head {P : Node → Prop} {n : Node} (h : Node.All P n) : P n := ((Node.All_iff P n).1 h).1
theorem Node.All.tail {P : Node → Prop} {n : Node} (h : Node.All P n) : AllL P n.children :=
  ((Node.All_iff P n).1 h).2

theorem AllL_iff (P : Node → Prop) (cs : List Node) : AllL P cs ↔ ∀ c ∈ cs, Node.All P c := by
  induction cs with
  | nil => simp [AllL]
  | cons c cs ih => simp [AllL, ih]

theorem AllL_nil (P : Node → Prop) : AllL P [] := by simp [AllL]

theorem AllL_append {P : Node → Prop} {as bs : List Node} :
    AllL P (as ++ bs) ↔ AllL P as ∧ AllL P bs := by
  simp only [AllL_iff, List.mem_append]
  constructor
  · intro h; exact ⟨fun c hc => h c (.inl hc), fun c hc => h c (.inr hc)⟩
  · rintro ⟨h1, h2⟩ c (hc | hc); exact h1 c hc; exact h2 c hc

theorem AllL_perm {P : Node → Prop} {as bs : List Node} (hp : as.Perm bs) : AllL P as ↔ AllL P bs := by
  simp only [AllL_iff]
  constructor
  · intro h c hc; exact h c (hp.mem_iff.2 hc)
  · intro h c hc; exact h c (hp.mem_iff.1 hc)

theorem AllL_set {P : Node → Prop} {cs : List Node} {i : Nat} {c : Node}
    (h : AllL P cs) (hc : Node.All P c) : AllL P (cs.set i c) := by
  rw [AllL_iff] at *
  intro x hx
  rcases List.mem_or_eq_of_mem_set hx with hx | hx
  · exact h x hx
  · exact hx ▸ hc

theorem AllL_getElem? {P : Node → Prop} {cs : List Node} {i : Nat} {c : Node}
    (h : AllL P cs) (hc : cs[i]? = some c) : Node.All P c := by
  rw [AllL_iff] at h
  exact h c (List.mem_of_getElem? hc)

theorem AllL_mono {P R : Node → Prop} (hPR : ∀ n, P n → R n) :
    (∀ n, Node.All P n → Node.All R n) ∧ (∀ cs, AllL P cs → AllL R cs) := by
  have : ∀ n : Node, (Node.All P n → Node.All R n) := by
    intro n
    induction n using Node.rec (motive_2 := fun cs => AllL P cs → AllL R cs) with
    | mk s p mi hs idx cs ih => intro h; exact ⟨hPR _ h.1, ih h.2⟩
    | nil => trivial
    | cons c cs ih1 ih2 => rename_i h; exact ⟨ih1 h.1, ih2 h.2⟩
  refine ⟨this, ?_⟩
  intro cs h
  rw [AllL_iff] at *
  intro c hc; exact this c (h c hc)

/-! ## removeNodes -/

theorem removeNodes_sublist (cs : List Node) (v : Bytes) : (removeNodes cs v).Sublist cs := by
  induction cs with
  | nil => simp [removeNodes]
  | cons c cs ih =>
    simp only [removeNodes]
    split
    · exact List.sublist_cons_self c cs
    · exact ih.cons_cons c

theorem AllL_sublist {P : Node → Prop} {as bs : List Node} (hs : as.Sublist bs) (h : AllL P bs) : AllL P as := by
  rw [AllL_iff] at *
  intro c hc; exact h c (hs.subset hc)

theorem AllL_removeNodes {P : Node → Prop} {cs : List Node} (v : Bytes) (h : AllL P cs) :
    AllL P (removeNodes cs v) := AllL_sublist (removeNodes_sublist cs v) h

theorem AllL_foldl_removeNodes {P : Node → Prop} (vs : List Bytes) {cs : List Node} (h : AllL P cs) :
    AllL P (vs.foldl removeNodes cs) := by
  induction vs generalizing cs with
  | nil => exact h
  | cons v vs ih => exact ih (AllL_removeNodes v h)

/-! ## sortChildren -/

theorem sortChildren_perm (cs : List Node) : (sortChildren cs).Perm cs := by
  unfold sortChildren; exact List.mergeSort_perm _ _

theorem sortChildren_length (cs : List Node) : (sortChildren cs).length = cs.length :=
  (sortChildren_perm cs).length_eq

theorem AllL_sortChildren {P : Node → Prop} {cs : List Node} : AllL P (sortChildren cs) ↔ AllL P cs :=
  AllL_perm (sortChildren_perm cs)

/-! ## buildIndexes: every stored position is in range -/

theorem idxSet_range {idx : List (UInt8 × Nat)} {b : UInt8} {i N : Nat}
    (h : ∀ e ∈ idx, e.2 < N) (hi : i < N) : ∀ e ∈ idxSet idx b i, e.2 < N := by
  unfold idxSet
  split
  · intro e he
    rw [List.mem_map] at he
    obtain ⟨e0, he0, rfl⟩ := he
    split
    · exact hi
    · exact h e0 he0
  · intro e he
    rw [List.mem_append] at he
    rcases he with he | he
    · exact h e he
    · simp at he; subst he; exact hi

theorem buildIndexesLoop_range (cs : List Node) (i : Nat) (acc idx : List (UInt8 × Nat)) (N : Nat)
    (hN : i + cs.length ≤ N) (hacc : ∀ e ∈ acc, e.2 < N)
    (h : buildIndexesLoop cs i acc = .ok idx) : ∀ e ∈ idx, e.2 < N := by
  induction cs generalizing i acc with
  | nil => simp [buildIndexesLoop] at h; subst h; exact hacc
  | cons c cs ih =>
    simp only [buildIndexesLoop] at h
    simp only [List.length_cons] at hN
    split at h
    · split at h
      · simp at h
      · exact ih (i + 1) _ (by omega) (idxSet_range hacc (by omega)) h
    · exact ih (i + 1) _ (by omega) hacc h

theorem buildIndexes_range {cs : List Node} {idx : List (UInt8 × Nat)} (h : buildIndexes cs = .ok idx) :
    ∀ e ∈ idx, e.2 < cs.length := by
  unfold buildIndexes at h
  split at h
  · simp at h; subst h; simp
  · exact buildIndexesLoop_range cs 0 [] idx cs.length (by omega) (by simp) h

theorem sortNode_ok {n n1 : Node} (h : sortNode n = .ok n1) :
    ∃ idx, buildIndexes (sortChildren n.children) = .ok idx ∧
      n1 = n.setChildren (sortChildren n.children) idx := by
  unfold sortNode at h
  by_cases hd : hasDupValues n.children = true
  · simp [hd, bind, Except.bind, throw, throwThe, MonadExceptOf.throw] at h
  · simp only [hd, bind, Except.bind, pure, Except.pure, Bool.false_eq_true, if_false] at h
    split at h
    · simp at h
    · rename_i idx hidx
      simp at h
      exact ⟨idx, hidx, h.symm⟩

theorem sortNode_IdxOk {n n1 : Node} (h : sortNode n = .ok n1) : IdxOk n1 := by
  obtain ⟨idx, hidx, rfl⟩ := sortNode_ok h
  intro e he
  exact buildIndexes_range hidx e he

/-! ## AMap -/

namespace AMap
variable {V : Type}

theorem keys_setT (m : AMap V) (k : Bytes) (v : V) :
    (m.set k v).keys = if k ∈ m.keys then m.keys else m.keys ++ [k] := by
  unfold AMap.set AMap.contains AMap.keys
  by_cases h : (m.any (·.1 = k)) = true
  · have hk : k ∈ List.map (·.1) m := by
      simp only [List.any_eq_true, decide_eq_true_eq] at h
      obtain ⟨e, he, rfl⟩ := h
      exact List.mem_map_of_mem he
    simp only [h, if_true, hk]
    rw [List.map_map]
    apply List.map_congr_left
    intro e _
    simp only [Function.comp]
    split
    · rename_i h'; exact h'.symm
    · rfl
  · have hk : k ∉ List.map (·.1) m := by
      intro hk
      apply h
      rw [List.mem_map] at hk
      obtain ⟨e, he, rfl⟩ := hk
      simp only [List.any_eq_true, decide_eq_true_eq]
      exact ⟨e, he, rfl⟩
    simp [h, hk]

theorem contains_iff (m : AMap V) (k : Bytes) : m.contains k = true ↔ k ∈ m.keys := by
  unfold AMap.contains AMap.keys
  simp only [List.any_eq_true, decide_eq_true_eq, List.mem_map]

theorem get?_map_ne (m : AMap V) (k k' : Bytes) (v : V) (hk : k' ≠ k) :
    AMap.get? (m.map (fun e => if e.1 = k then (k, v) else e)) k' = m.get? k' := by
  unfold AMap.get?
  induction m with
  | nil => rfl
  | cons e m ih =>
    simp only [List.map_cons, List.find?_cons]
    by_cases hek : e.1 = k
    · have h1 : ¬ k = k' := fun h => hk h.symm
      simp only [hek, if_true, h1, decide_false]
      exact ih
    · simp only [hek, if_false]
      split
      · rfl
      · exact ih

theorem get?_map_eq (m : AMap V) (k : Bytes) (v : V) (hc : m.contains k = true) :
    AMap.get? (m.map (fun e => if e.1 = k then (k, v) else e)) k = some v := by
  unfold AMap.get?
  induction m with
  | nil => simp [AMap.contains] at hc
  | cons e m ih =>
    simp only [List.map_cons, List.find?_cons]
    by_cases hek : e.1 = k
    · simp [hek]
    · simp only [hek, if_false, decide_false]
      apply ih
      simpa [AMap.contains, hek] using hc

theorem get?_setT (m : AMap V) (k k' : Bytes) (v : V) :
    (m.set k v).get? k' = if k' = k then some v else m.get? k' := by
  unfold AMap.set
  by_cases hc : m.contains k = true
  · simp only [hc, if_true]
    by_cases hk : k' = k
    · subst hk; simp only [if_true]; exact get?_map_eq m k' v hc
    · simp only [hk, if_false]; exact get?_map_ne m k k' v hk
  · simp only [hc]
    unfold AMap.get?
    simp only [Bool.false_eq_true, if_false, List.find?_append]
    by_cases hk : k' = k
    · subst hk
      have : List.find? (fun x => decide (x.1 = k')) m = none := by
        rw [List.find?_eq_none]
        intro e he hek
        apply hc
        simp only [AMap.contains, List.any_eq_true]
        exact ⟨e, he, hek⟩
      simp [this]
    · have : ¬ k = k' := fun h => hk h.symm
      simp [hk, this]

theorem keys_eraseT (m : AMap V) (k : Bytes) : (m.erase k).keys = m.keys.filter (· ≠ k) := by
  unfold AMap.erase AMap.keys
  rw [List.filter_map]
  rfl

theorem get?_erase_ne (m : AMap V) (k k' : Bytes) (h : k' ≠ k) : (m.erase k).get? k' = m.get? k' := by
  unfold AMap.erase AMap.get?
  induction m with
  | nil => rfl
  | cons e m ih =>
    simp only [List.filter_cons]
    by_cases hek : e.1 = k
    · have h2 : ¬ k = k' := fun h' => h h'.symm
      simp only [ne_eq, hek, not_true_eq_false, decide_false, Bool.false_eq_true, if_false,
        List.find?_cons, h2]
      exact ih
    · simp only [ne_eq, hek, not_false_eq_true, decide_true, if_true, List.find?_cons]
      split
      · rfl
      · exact ih

theorem get?_isSome_iff (m : AMap V) (k : Bytes) : (m.get? k).isSome ↔ k ∈ m.keys := by
  unfold AMap.get? AMap.keys
  simp only [Option.isSome_map, List.find?_isSome, decide_eq_true_eq, List.mem_map]

theorem mem_of_getT? {m : AMap V} {k : Bytes} {v : V} (h : m.get? k = some v) : (k, v) ∈ m := by
  unfold AMap.get? at h
  simp only [Option.map_eq_some_iff] at h
  obtain ⟨e, he, rfl⟩ := h
  have h1 := List.mem_of_find?_eq_some he
  have h2 := List.find?_some he
  simp only [decide_eq_true_eq] at h2
  rw [← h2]; exact h1

end AMap

end Mux
