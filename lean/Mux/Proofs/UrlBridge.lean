/-
  Mux.Proofs.UrlBridge — the two formalisations of "every registered pattern is well-formed" coincide:
  `Mux.WfPattern p = true` (balanced, non-nested braces; used by the table refinement C03) and
  `Mux.P9.WfPattern p` (every piece of `splitString p` is brace-free or one token followed by brace-free
  text; used by the structural invariant `WellFormedTree`).  Hence `ReachWf t` gives both the structural
  invariant and the simulation invariant `Sim` of C03.
-/
import Mux.Proofs.Table
import Mux.Proofs.Names
import Mux.Proofs.UrlToks
namespace Mux.P13
open Mux Mux.P9

/-! ## `wfBraces` ⇒ pieces are well-formed -/

theorem wfPiece_of_wfVal {v : Bytes} (h : Mux.P11.WfVal v) : WfPiece v := by
  rcases h with h | ⟨ia, sa, rfl, h1, h2⟩
  · exact .inl h.2
  · exact .inr ⟨ia, sa, rfl, h1, h2⟩

theorem wfPattern_of_wfBraces {p : Bytes} (h : Mux.WfPattern p = true) : Mux.P9.WfPattern p := by
  intro v hv
  rcases Mux.P11.splitAux_wf false [] p (fun _ => .inl rfl) (fun h => by cases h) h v hv with rfl | hw
  · exact .inl NoBrace.nil
  · exact wfPiece_of_wfVal hw

/-! ## pieces are well-formed ⇒ `wfBraces` -/

/-- A piece that begins with `cur }` where `cur` is well-formed is not well-formed. -/
theorem not_wf_of_extra_end {cur f : Bytes} (hc : WfPiece cur) (hp : cur ++ [endByte] <+: f) : ¬ WfPiece f := by
  obtain ⟨t, rfl⟩ := hp
  rintro (hn | ⟨x', s', he, hx', hs'⟩)
  · exact hn.2 (by simp)
  · rcases hc with hn | ⟨x, s, rfl, hx, hs⟩
    · cases cur with
      | nil =>
        simp only [List.nil_append, List.cons_append, tok, List.cons.injEq] at he
        exact absurd he.1 (by decide)
      | cons c r =>
        simp only [List.cons_append, tok, List.cons.injEq] at he
        exact hn.1 (by simp [he.1])
    · simp only [tok, List.cons_append, List.append_assoc, List.cons.injEq, true_and] at he
      have := Mux.P11.append_end_inj hx.2 hx'.2 he
      exact hs'.2 (by rw [← this.2]; simp)

/-- An open token `{x` followed by another `{` cannot be completed to a well-formed piece. -/
theorem not_wf_of_nested {x t : Bytes} (hx : NoBrace x) : ¬ WfPiece (startByte :: (x ++ startByte :: t)) := by
  rintro (hn | ⟨x', s', he, hx', _⟩)
  · exact hn.1 (by simp)
  · simp only [tok, List.cons.injEq, true_and] at he
    induction x generalizing x' with
    | nil =>
      cases x' with
      | nil => simp only [List.nil_append, List.cons.injEq] at he; exact absurd he.1 (by decide)
      | cons c r =>
        simp only [List.nil_append, List.cons_append, List.cons.injEq] at he
        exact hx'.1 (by simp [he.1])
    | cons a x ih =>
      cases x' with
      | nil =>
        simp only [List.nil_append, List.cons_append, List.cons.injEq] at he
        exact hx.2 (by simp [he.1])
      | cons c r =>
        simp only [List.cons_append, List.cons.injEq] at he
        exact ih hx.tail r hx'.tail he.2

theorem wfBraces_of_pieces (st : Bool) (cur rest : Bytes)
    (h1 : st = false → WfPiece cur) (h2 : st = true → ∃ x, cur = startByte :: x ∧ NoBrace x)
    (h : ∀ q ∈ splitAux st cur rest, WfPiece q) : wfBraces st rest = true := by
  induction rest generalizing st cur with
  | nil =>
    cases st with
    | false => rfl
    | true =>
      obtain ⟨x, rfl, hx⟩ := h2 rfl
      exfalso
      rcases h (startByte :: x) (by simp [splitAux]) with hn | ⟨x', s', he, hx', _⟩
      · exact hn.1 (by simp)
      · simp only [tok, List.cons.injEq, true_and] at he
        exact hx.2 (by rw [he]; simp)
  | cons b rest ih =>
    cases st with
    | false =>
      have hc := h1 rfl
      simp only [wfBraces]
      by_cases hb : b = startByte
      · simp only [hb, if_true]
        refine ih true [startByte] (fun h => by cases h) (fun _ => ⟨[], rfl, NoBrace.nil⟩) ?_
        intro q hq
        apply h q
        simp only [splitAux, hb, if_true]
        split
        · exact hq
        · exact List.mem_cons_of_mem _ hq
      · simp only [hb, if_false]
        have hstep : splitAux false cur (b :: rest) = splitAux false (cur ++ [b]) rest := by
          simp [splitAux, hb]
        by_cases he : b = endByte
        · exfalso
          subst he
          obtain ⟨f, tl, e, hp, _⟩ := Mux.P11.splitAux_shape false (cur ++ [endByte]) rest
          rcases hp with hp | hp
          · simp at hp
          · exact not_wf_of_extra_end hc hp (h f (by rw [hstep, e]; simp))
        · simp only [he, if_false]
          refine ih false (cur ++ [b]) (fun _ => ?_) (fun h => by cases h) (by rw [← hstep]; exact h)
          have hbn : NoBrace [b] := ⟨by simpa using fun e => hb e.symm, by simpa using fun e => he e.symm⟩
          rcases hc with hn | ⟨x, s, rfl, hx, hs⟩
          · exact .inl (NoBrace.append hn hbn)
          · exact .inr ⟨x, s ++ [b], by simp [tok], hx, NoBrace.append hs hbn⟩
    | true =>
      obtain ⟨x, rfl, hx⟩ := h2 rfl
      simp only [wfBraces]
      by_cases he : b = endByte
      · simp only [he, if_true]
        refine ih false (startByte :: x ++ [endByte]) (fun _ => .inr ⟨x, [], by simp [tok], hx, NoBrace.nil⟩)
          (fun h => by cases h) ?_
        intro q hq
        apply h q
        simpa [splitAux, he] using hq
      · simp only [he, if_false]
        have hstep : splitAux true (startByte :: x) (b :: rest) = splitAux true (startByte :: x ++ [b]) rest := by
          simp [splitAux, he]
        by_cases hb : b = startByte
        · exfalso
          subst hb
          obtain ⟨f, tl, e, hp, _⟩ := Mux.P11.splitAux_shape true (startByte :: x ++ [startByte]) rest
          rcases hp with hp | hp
          · simp at hp
          · obtain ⟨t, rfl⟩ := hp
            refine not_wf_of_nested (t := t) hx ?_
            have := h _ (by rw [hstep, e]; exact List.mem_cons_self)
            simpa using this
        · simp only [hb, if_false]
          refine ih true (startByte :: x ++ [b]) (fun h => by cases h) (fun _ => ⟨x ++ [b], by simp, ?_⟩)
            (by rw [← hstep]; exact h)
          exact NoBrace.append hx ⟨by simpa using fun e => hb e.symm, by simpa using fun e => he e.symm⟩

theorem wfBraces_of_wfPattern {p : Bytes} (h : Mux.P9.WfPattern p) : Mux.WfPattern p = true :=
  wfBraces_of_pieces false [] p (fun _ => .inl NoBrace.nil) (fun h => by cases h) h

/-- The two well-formedness notions for pattern texts coincide. -/
theorem wfPattern_iff (p : Bytes) : Mux.WfPattern p = true ↔ Mux.P9.WfPattern p :=
  ⟨wfPattern_of_wfBraces, wfBraces_of_wfPattern⟩

theorem patOk_iff (op : TOp) : PatOk op ↔ op.wf = true := by
  cases op <;> simp [PatOk, TOp.wf, wfPattern_iff]

/-! ## Reachable trees carry both invariants -/

/-- A `ReachWf` tree is the tree of a history satisfying the hypothesis of C03. -/
theorem reachWf_history {t : Tree} (h : ReachWf t) :
    ∃ name ic nf tr ob nb ops, (∀ op ∈ ops, op.wf = true) ∧ t = (Tree.new name ic nf tr ob nb).run ops := by
  obtain ⟨name, ic, nf, tr, ob, nb, ops, hops, rfl⟩ := h
  exact ⟨name, ic, nf, tr, ob, nb, ops, fun op hop => (patOk_iff op).1 (hops op hop), rfl⟩

theorem reachWf_of_history (name : Bytes) (ic : Interceptors) (nf : Handler) (tr : Option Handler) (ob nb : Base)
    (ops : List TOp) (hw : ∀ op ∈ ops, op.wf = true) : ReachWf ((Tree.new name ic nf tr ob nb).run ops) :=
  ⟨name, ic, nf, tr, ob, nb, ops, fun op hop => (patOk_iff op).2 (hw op hop), rfl⟩

/-- The simulation invariant of C03 holds on every `ReachWf` tree, for the abstract table of its history. -/
theorem reachWf_sim {t : Tree} (h : ReachWf t) : ∃ tb, Mux.P11.Sim t tb := by
  obtain ⟨name, ic, nf, tr, ob, nb, ops, hw, rfl⟩ := reachWf_history h
  exact ⟨_, Mux.P11.sim_history name ic nf tr ob nb ops hw⟩

end Mux.P13
