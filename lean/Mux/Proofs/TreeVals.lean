/-
  Mux.Proofs.TreeVals — a second invariant: every stored handler (and the tree's `notFound`, `trace`,
  OPTIONS/405 bases) has a base satisfying `B`, provided every registered handler does.  With
  `B := (· ≠ .nil)` this is "no stored handler of a router tree is nil".
-/
import Mux.Proofs.TreeServe
namespace Mux

def ValsQ (B : Base → Prop) (_mi : Nat) (hs : AMap Handler) : Prop := ∀ e ∈ hs, B e.2.base

structure TreeVals (B : Base → Prop) (t : Tree) : Prop where
  nodes : Node.All (NodeOk (ValsQ B)) t.root
  optionsBase : B t.optionsBase
  notAllowedBase : B t.notAllowedBase
  notFound : B t.notFound.base
  trace : ∀ h, t.trace = some h → B h.base

/-- The handlers an operation brings in satisfy `B`. -/
def TOp.BasesOk (B : Base → Prop) : TOp → Prop
  | .add _ h _ _ => B h.base
  | _ => True

variable {B : Base → Prop}

theorem ValsQ_set {hs : AMap Handler} {mi mi' : Nat} (h : ValsQ B mi hs) (k : Bytes) (v : Handler) (hv : B v.base) :
    ValsQ B mi' (hs.set k v) := by
  intro e he
  unfold AMap.set at he
  split at he
  · rw [List.mem_map] at he
    obtain ⟨e0, he0, rfl⟩ := he
    split
    · exact hv
    · exact h e0 he0
  · rw [List.mem_append] at he
    rcases he with he | he
    · exact h e he
    · simp at he; subst he; exact hv

theorem addMethodsLoop_vals (t : Tree) (h : Handler) (hB : B h.base) (pattern : Bytes) (ms : List Nat) :
    ∀ (methods : List Bytes) (hs hs' : AMap Handler), ValsQ B 0 hs →
      addMethodsLoop t h pattern ms methods hs = .ok hs' → ValsQ B 0 hs' := by
  intro methods
  induction methods with
  | nil => intro hs hs' hp he; simp [addMethodsLoop] at he; exact he ▸ hp
  | cons m rest ih =>
    intro hs hs' hp he
    simp only [addMethodsLoop, bind, Except.bind] at he
    split at he
    · simp [throw, throwThe, MonadExceptOf.throw] at he
    split at he
    · simp [throw, throwThe, MonadExceptOf.throw] at he
    split at he
    · simp [throw, throwThe, MonadExceptOf.throw] at he
    refine ih _ hs' ?_ he
    refine ValsQ_set (mi := 0) ?_ _ (wrapWith h m pattern t.name ms) hB
    split
    · exact ValsQ_set hp _ (wrapWith h mHEAD pattern t.name ms) hB
    · exact hp

theorem addMethodsNode_vals (t : Tree) (h : Handler) (hB : B h.base) (hob : B t.optionsBase)
    (hnb : B t.notAllowedBase) (pattern : Bytes) (ms : List Nat) (methods : List Bytes)
    (n n' : Node) (hn : Node.All (NodeOk (ValsQ B)) n)
    (he : t.addMethodsNode h pattern ms methods n = .ok n') : Node.All (NodeOk (ValsQ B)) n' := by
  unfold Tree.addMethodsNode at he
  simp only [bind, Except.bind, pure, Except.pure] at he
  split at he
  · simp at he
  rename_i hs1 hloop
  simp only [Except.ok.injEq] at he
  subst he
  have h1 : ValsQ B 0 hs1 := addMethodsLoop_vals t h hB pattern ms methods _ _ hn.head.1 hloop
  rw [Node.All_iff]
  refine ⟨⟨?_, ?_⟩, ?_⟩
  · simp only [Node.setHandlers, Node.methodIndex_mk, Node.handlers_mk]
    generalize hhs2 : (if AMap.contains hs1 mOPTIONS = true then hs1 else
        hs1.set mOPTIONS (wrapWith { base := t.optionsBase } mOPTIONS pattern t.name ms)) = hs2
    have h2 : ValsQ B 0 hs2 := by
      rw [← hhs2]
      split
      · exact h1
      · exact ValsQ_set h1 _ _ hob
    split
    · exact h2
    · exact ValsQ_set h2 _ (wrapWith { base := t.notAllowedBase } mNotAllowed pattern t.name ms) hnb
  · intro e he
    simpa [Node.setHandlers] using hn.head.2 e (by simpa [Node.setHandlers] using he)
  · simpa [Node.setHandlers] using hn.tail

theorem rmStep_subset (hs : AMap Handler) (m : Bytes) : ∀ e ∈ rmStep hs m, e ∈ hs := by
  intro e he
  unfold rmStep at he
  split at he
  · exact he
  · split at he
    · exact (List.mem_filter.1 (List.mem_filter.1 he).1).1
    · exact (List.mem_filter.1 he).1

theorem foldl_rmStep_subset (ms : List Bytes) (hs : AMap Handler) : ∀ e ∈ ms.foldl rmStep hs, e ∈ hs := by
  induction ms generalizing hs with
  | nil => intro e he; exact he
  | cons m ms ih => intro e he; exact rmStep_subset hs m e (ih _ e he)

theorem removeMethods_vals (ht : Bool) (methods : List Bytes) (n : Node)
    (hn : Node.All (NodeOk (ValsQ B)) n) : Node.All (NodeOk (ValsQ B)) (removeMethods ht methods n) := by
  rw [Node.All_iff] at hn ⊢
  obtain ⟨⟨hv, hidx⟩, hall⟩ := hn
  have hfields : (removeMethods ht methods n).indexes = n.indexes ∧
      (removeMethods ht methods n).children = n.children := by
    unfold removeMethods; simp [Node.setHandlers]
  refine ⟨⟨?_, ?_⟩, ?_⟩
  · intro e he
    rw [removeMethods_handlers] at he
    split at he
    · simp at he
    · split at he
      · simp at he
      · exact hv e (foldl_rmStep_subset methods _ e he)
  · intro e he
    rw [hfields.1] at he; rw [hfields.2]; exact hidx e he
  · rw [hfields.2]; exact hall

theorem ValsQ_applyMw (router : Bytes) (ms : List Nat) (mi : Nat) (hs : AMap Handler) (p : Bytes)
    (h : ValsQ B mi hs) : ValsQ B mi (hs.map (fun e => (e.1, wrapWith e.2 e.1 p router ms))) := by
  intro e he
  rw [List.mem_map] at he
  obtain ⟨e0, he0, rfl⟩ := he
  exact h e0 he0

theorem All_setHandlers_same {Q : Nat → AMap Handler → Prop} (hQ : ∀ mi mi' hs, Q mi hs → Q mi' hs)
    {n : Node} (mi : Nat) (h : Node.All (NodeOk Q) n) :
    Node.All (NodeOk Q) (n.setHandlers n.handlers mi) := by
  rw [Node.All_iff] at h ⊢
  refine ⟨⟨hQ _ _ _ h.1.1, ?_⟩, ?_⟩
  · intro e he
    simpa [Node.setHandlers] using h.1.2 e (by simpa [Node.setHandlers] using he)
  · simpa [Node.setHandlers] using h.2

theorem ValsQ_mi (mi mi' : Nat) (hs : AMap Handler) (h : ValsQ B mi hs) : ValsQ B mi' hs := h

theorem vals_new (name : Bytes) (ic : Interceptors) (nf : Handler) (tr : Option Handler) (ob nb : Base)
    (hnf : B nf.base) (htr : ∀ h, tr = some h → B h.base) (hob : B ob) (hnb : B nb) :
    TreeVals B (Tree.new name ic nf tr ob nb) := by
  refine ⟨?_, hob, hnb, hnf, htr⟩
  simp only [Tree.new, Node.All, AllL, and_true]
  refine ⟨?_, by intro e he; simp at he⟩
  intro e he
  simp at he
  rcases he with rfl | rfl
  · exact hob
  · exact hnb

theorem vals_step {t : Tree} (hv : TreeVals B t) (op : TOp) (hop : op.BasesOk B) : TreeVals B (t.step op) := by
  cases op with
  | add p h ms methods =>
    simp only [Tree.step]
    split
    · rename_i t' he
      obtain ⟨v, rest, root1, path, root2, _, _, hget, hmod, rfl⟩ := Tree.add_ok he
      have h1 := (getNode_All (Q := ValsQ B) t.ic (by intro e he; simp at he) hv.nodes hget).1
      have h2 := modifyAt_All (Q := ValsQ B) _
        (addMethodsNode_vals t h hop hv.optionsBase hv.notAllowedBase p ms (effMethods methods)) h1 hmod
      exact ⟨All_setHandlers_same ValsQ_mi _ h2, hv.optionsBase, hv.notAllowedBase, hv.notFound, hv.trace⟩
    · exact hv
  | remove p methods =>
    simp only [Tree.step]
    split
    · rename_i t' he
      rcases Tree.remove_ok he with rfl | ⟨path, root1, hpath, hrem, rfl⟩
      · exact hv
      · have h1 := removeAt_All (Q := ValsQ B) _ (removeMethods_vals t.hasTrace methods) hv.nodes hrem
        exact ⟨All_setHandlers_same ValsQ_mi _ h1, hv.optionsBase, hv.notAllowedBase, hv.notFound, hv.trace⟩
    · exact hv
  | clean pre =>
    simp only [Tree.step]
    split
    · rename_i t' he
      obtain ⟨root1, hclean, rfl⟩ := Tree.clean_ok he
      obtain ⟨_, _, hm, hh, hi, ha⟩ := clean_All_aux (Q := ValsQ B) t.root pre root1 hv.nodes.tail hclean
      have h1 : Node.All (NodeOk (ValsQ B)) root1 := by
        rw [Node.All_iff]
        exact ⟨⟨by rw [hh]; exact hv.nodes.head.1, hi⟩, ha⟩
      exact ⟨All_setHandlers_same ValsQ_mi _ h1, hv.optionsBase, hv.notAllowedBase, hv.notFound, hv.trace⟩
    · exact hv
  | use ms =>
    refine ⟨applyMw_All t.name ms (fun mi hs p => ValsQ_applyMw t.name ms mi hs p) t.root hv.nodes,
      hv.optionsBase, hv.notAllowedBase, hv.notFound, ?_⟩
    intro h hh
    simp only [Tree.step, Tree.applyMiddleware, Option.map_eq_some_iff] at hh
    obtain ⟨h0, hh0, rfl⟩ := hh
    exact hv.trace h0 hh0

theorem vals_run {t : Tree} (hv : TreeVals B t) (ops : List TOp) (hops : ∀ op ∈ ops, op.BasesOk B) :
    TreeVals B (t.run ops) := by
  unfold Tree.run
  induction ops generalizing t with
  | nil => exact hv
  | cons op ops ih =>
    exact ih (vals_step hv op (hops op (by simp))) (fun o ho => hops o (by simp [ho]))

/-- Every stored handler of every node satisfies `B`. -/
theorem TreeVals.get {t : Tree} (hv : TreeVals B t) {n : Node} (hn : n ∈ t.root.nodes) {k : Bytes}
    {h : Handler} (hg : n.handlers.get? k = some h) : B h.base :=
  (((All_iff_nodes _).1 _).1 hv.nodes n hn).1 _ (AMap.mem_of_getT? hg)

/-- On a tree with both invariants the selected handler satisfies `B`. -/
theorem FoundSpec.base {t : Tree} (hv : TreeVals B t) {method : Bytes} {f : Found}
    (hf : FoundSpec t method f) : B f.handler.base := by
  cases hf with
  | notFound _ h _ => rw [h]; exact hv.notFound
  | trace h ht _ _ hh _ => rw [hh]; exact hv.trace h ht
  | found n _ hn _ _ hg _ => exact hv.get hn hg
  | notAllowed n _ hn _ _ hg _ => exact hv.get hn hg

end Mux
