/-
  Mux.Proofs.CorsRouter — where `Router.serveContext` applies the CORS procedure (C11 / C12).
-/
import Mux.Proofs.Cors
namespace Mux

/-- A successful dispatch always names the node (so the `none => []` arm of `serveContext` is dead). -/
theorem Tree.handler_ok_node {env : Env} {t : Tree} {path : Bytes} {ps : Params} {method : Bytes} {f : Found}
    (h : t.handler env path ps method = .res f) (hok : f.ok = true) : ∃ n, f.node = some n := by
  have key : ∀ f, Tree.handler.Tree.handlerNoTrace env t path ps method = .res f → f.ok = true →
      ∃ n, f.node = some n := by
    intro f h hok
    unfold Tree.handler.Tree.handlerNoTrace at h
    simp only [] at h
    repeat' split at h
    all_goals first
      | (cases h; done)
      | (cases h; simp at hok; done)
      | (cases h; exact ⟨_, rfl⟩)
  unfold Tree.handler at h
  split at h
  · split at h
    · cases h; exact ⟨_, rfl⟩
    · exact key f h hok
  · exact key f h hok

/-- 404 / 405: the response header map handed to the handler is empty. -/
theorem Router.serveContext_not_ok {env : Env} {r : Router} {req : Req} {ps : Params} {c : Call}
    (h : r.serveContext env req ps = .call c) (hok : c.ok = false) : c.respHeaders = [] := by
  unfold Router.serveContext at h
  split at h
  · cases h
  · cases h
  · cases h
    simp at hok
    simp [hok]

/-- A served request: the response header map is exactly the result of `cors.handle` on the empty map. -/
theorem Router.serveContext_ok {env : Env} {r : Router} {req : Req} {ps : Params} {c : Call} {n : Node}
    (h : r.serveContext env req ps = .call c) (hok : c.ok = true) (hn : c.node = some n) :
    c.respHeaders = r.cors.handle n.methods n.allow [] req.method req.path req.headers := by
  unfold Router.serveContext at h
  split at h
  · cases h
  · cases h
  · cases h
    simp at hok hn
    simp [hok, hn]

/-- … and a served request always has a node. -/
theorem Router.serveContext_ok_node {env : Env} {r : Router} {req : Req} {ps : Params} {c : Call}
    (h : r.serveContext env req ps = .call c) (hok : c.ok = true) : ∃ n, c.node = some n := by
  unfold Router.serveContext at h
  split at h
  · cases h
  · cases h
  · rename_i f hf
    cases h
    exact Tree.handler_ok_node hf hok

end Mux
