/-
  Mux.Proofs.TreeViews — the node `Tree.handler` reports does not depend on the method (apart from
  the TRACE short-circuit), so the OPTIONS answer and the 405 answer speak about the same node.
-/
import Mux.Proofs.TreeReach
namespace Mux

theorem handler_eq_noTrace (env : Env) (t : Tree) (path : Bytes) (ps : Params) (method : Bytes)
    (h : ¬ (t.hasTrace = true ∧ method = mTRACE)) :
    t.handler env path ps method = Tree.handler.Tree.handlerNoTrace env t path ps method := by
  unfold Tree.handler
  split
  · rename_i hh htr
    split
    · rename_i hm
      exact absurd ⟨by simp [Tree.hasTrace, htr], hm⟩ h
    · rfl
  · rfl

theorem handler_traceV (env : Env) (t : Tree) (path : Bytes) (ps : Params) (h : Handler) (htr : t.trace = some h) :
    t.handler env path ps mTRACE = .res { node := some t.root, handler := h, ok := true, params := ps } := by
  unfold Tree.handler
  simp [htr]

/-- The node part of an answer as a function of what was matched. -/
def nodeOf : MR → Option Node
  | .hit n _ => if n.size = 0 then none else some n
  | _ => none

theorem handler_node {t : Tree} (hinv : TreeInv t) (env : Env) (path : Bytes) (ps : Params) (method : Bytes)
    (hm : ¬ (t.hasTrace = true ∧ method = mTRACE)) {f : Found}
    (h : t.handler env path ps method = .res f) : f.node = nodeOf (t.matched env path ps) := by
  rw [handler_eq_noTrace env t path ps method hm] at h
  rcases handlerNoTrace_spec hinv env path ps method with ⟨f', h1, _, h3⟩ | h1
  · rw [h1] at h
    simp only [HR.res.injEq] at h
    subst h
    rcases h3 with ⟨ps', hmiss, hn⟩ | ⟨n, ps', hhit, hn⟩
    · rw [hmiss, hn]; rfl
    · rw [hhit, hn]; rfl
  · rw [h1] at h; simp at h

/-- OPTIONS and a 405 on the same path are answered from the same node. -/
theorem views_agree {t : Tree} (hinv : TreeInv t) (env : Env) (path : Bytes) (ps : Params) (method : Bytes)
    {fo f : Found} {n : Node}
    (ho : t.handler env path ps mOPTIONS = .res fo) (hf : t.handler env path ps method = .res f)
    (hok : f.ok = false) (hn : f.node = some n) :
    fo.node = some n ∧ fo.ok = true ∧ n ∈ t.root.nodes ∧
      n.handlers.get? mOPTIONS = some fo.handler ∧ n.handlers.get? mNotAllowed = some f.handler := by
  obtain ⟨c1, c2, c3, c4, c5, c6, c7, c8, c9, c10⟩ := method_consts_ne
  have hmO : ¬ (t.hasTrace = true ∧ mOPTIONS = mTRACE) := fun h => c9 h.2
  have hmM : ¬ (t.hasTrace = true ∧ method = mTRACE) := by
    rintro ⟨htr, rfl⟩
    unfold Tree.hasTrace at htr
    cases htr' : t.trace with
    | none => simp [htr'] at htr
    | some h =>
      rw [handler_traceV env t path ps h htr'] at hf
      simp only [HR.res.injEq] at hf
      subst hf
      simp at hok
  have hno := handler_node hinv env path ps mOPTIONS hmO ho
  have hnf := handler_node hinv env path ps method hmM hf
  have hnode : fo.node = some n := by rw [hno, ← hnf, hn]
  -- the shape of the two answers
  have so : FoundSpec t mOPTIONS fo := by
    rcases handler_spec hinv env path ps mOPTIONS with ⟨f', h1, h2⟩ | h1
    · rw [h1] at ho; simp only [HR.res.injEq] at ho; exact ho ▸ h2
    · rw [h1] at ho; simp at ho
  have sf : FoundSpec t method f := by
    rcases handler_spec hinv env path ps method with ⟨f', h1, h2⟩ | h1
    · rw [h1] at hf; simp only [HR.res.injEq] at hf; exact hf ▸ h2
    · rw [h1] at hf; simp at hf
  have hf' : n ∈ t.root.nodes ∧ n.handlers ≠ [] ∧ n.handlers.get? mNotAllowed = some f.handler := by
    cases sf with
    | notFound h1 _ _ => rw [h1] at hn; simp at hn
    | trace h _ _ _ _ h5 => rw [h5] at hok; simp at hok
    | found m _ _ _ _ _ h6 => rw [h6] at hok; simp at hok
    | notAllowed m h1 h2 h3 _ h5 _ =>
      rw [h1] at hn; simp only [Option.some.injEq] at hn; subst hn
      exact ⟨h2, h3, h5⟩
  have hopt := (hinv.has_entries hf'.1 hf'.2.1).2
  rw [← AMap.get?_isSome_iff] at hopt
  cases so with
  | notFound h1 _ _ => rw [h1] at hnode; simp at hnode
  | trace h _ h2 _ _ _ => exact absurd h2 c9
  | found m h1 _ _ _ h5 h6 =>
    rw [h1] at hnode; simp only [Option.some.injEq] at hnode; subst hnode
    exact ⟨h1, h6, hf'.1, h5, hf'.2.2⟩
  | notAllowed m h1 _ _ h4 _ _ =>
    rw [h1] at hnode; simp only [Option.some.injEq] at hnode; subst hnode
    rcases h4 with h4 | h4
    · exact absurd h4 c8
    · rw [h4] at hopt; simp at hopt

end Mux
