/-
  Mux.Proofs.ResolveAllLen — C02 for histories with `Remove`/`Clean`: the length side condition.

  The reference resolver builds the segment of a group with `NewSegment`, which rejects texts longer
  than `maxInt16`.  In a non-canonical tree the text of a literal group is spread over a chain of
  literal nodes, so its length is not bounded by any single node.  It is bounded because the chain is a
  stretch of ONE piece of a live route, and every live route was accepted by `Split` when it was
  registered (`PieceLens`, an invariant of the abstract table of the history).
-/
import Mux.Proofs.ResolveAllRefine
import Mux.Proofs.ResolveHistory
import Mux.Proofs.UrlToks
import Mux.Proofs.AmbigOne
namespace Mux.P16
open Mux Mux.Spec Mux.P15

/-- Every piece of the pattern is short enough for `NewSegment`. -/
def PieceLens (p : Bytes) : Prop := ∀ q ∈ splitString p, q.length ≤ maxInt16

theorem pieceLens_of_split {ic : Interceptors} {p : Bytes} {segs : List Seg} (h : split ic p = .ok segs) : PieceLens p := by
  intro q hq
  unfold split at h
  split at h
  · cases h
  · obtain ⟨s, hs⟩ := splitLoop_ok_pieces ic _ _ _ _ h q hq
    exact P9.newSegment_len hs

theorem pieceLens_nil : PieceLens [] := by
  intro q hq
  rw [splitString_nil] at hq
  simp only [List.mem_singleton] at hq
  subst hq
  exact Nat.zero_le _

/-! ## The abstract table of a history holds accepted patterns only -/

theorem patterns_remove_sub (tb : Spec.Table) (p : Bytes) (methods : List Bytes) :
    ∀ q ∈ (Spec.remove tb p methods).patterns, q ∈ tb.patterns := by
  intro q hq
  unfold Spec.Table.patterns at *
  obtain ⟨e, he, rfl⟩ := List.mem_map.1 hq
  unfold Spec.remove at he
  split at he
  · exact List.mem_map.2 ⟨e, (List.mem_filter.1 he).1, rfl⟩
  · obtain ⟨e0, he0, rfl⟩ := List.mem_map.1 (List.mem_filter.1 he).1
    refine List.mem_map.2 ⟨e0, he0, ?_⟩
    split <;> rfl

theorem patterns_clean_sub (tb : Spec.Table) (pre : Bytes) :
    ∀ q ∈ (Spec.clean tb pre).patterns, q ∈ tb.patterns := by
  intro q hq
  unfold Spec.Table.patterns at *
  obtain ⟨e, he, rfl⟩ := List.mem_map.1 hq
  exact List.mem_map.2 ⟨e, (List.mem_filter.1 he).1, rfl⟩

theorem stepWith_lens {t : Tree} {tb : Spec.Table} (h : ∀ p ∈ tb.patterns, PieceLens p) (op : TOp) :
    ∀ p ∈ (Spec.stepWith t tb op).patterns, PieceLens p := by
  intro q hq
  cases op with
  | add p hd ms methods =>
    simp only [Spec.stepWith] at hq
    cases he : t.add p hd ms methods with
    | error e => rw [he] at hq; exact h q hq
    | ok t' =>
      rw [he] at hq
      simp only at hq
      rcases (mem_patterns_add tb p methods q).1 hq with hq | rfl
      · exact h q hq
      · obtain ⟨segs, _, _, _, _, _, hsplit, _⟩ := P11.add_ok' he
        exact pieceLens_of_split hsplit
  | remove p methods => exact h q (patterns_remove_sub tb p methods q hq)
  | clean pre => exact h q (patterns_clean_sub tb pre q hq)
  | use ms => exact h q hq

theorem specRunFrom_lens : ∀ (ops : List TOp) (t : Tree) (tb : Spec.Table), (∀ p ∈ tb.patterns, PieceLens p) →
    ∀ p ∈ (specRunFrom t tb ops).patterns, PieceLens p
  | [], _, _, h => h
  | op :: ops, _, _, h => specRunFrom_lens ops _ _ (stepWith_lens h op)

/-- Every live route of a tree simulated by a table of accepted patterns has short pieces. -/
theorem live_lens {t : Tree} {tb : Spec.Table} (hs : P11.Sim t tb) (h : ∀ p ∈ tb.patterns, PieceLens p) :
    ∀ p ∈ (tableOf t).patterns, PieceLens p := by
  intro p hp
  exact h p (((P11.tables_agree (P11.tableOf_ok hs.inv).1 hs.ok hs.has).1 p).1 hp)

theorem history_lens (name : Bytes) (ic : Interceptors) (nf : Handler) (tr : Option Handler) (ob nb : Base)
    (ops : List TOp) (hw : ∀ op ∈ ops, op.wf = true) :
    ∀ p ∈ (tableOf ((Tree.new name ic nf tr ob nb).run ops)).patterns, PieceLens p :=
  live_lens (P11.sim_history name ic nf tr ob nb ops hw)
    (specRunFrom_lens ops _ [] (by intro p hp; cases hp))

/-! ## Where the pieces of a pattern are cut, seen from a node of the tree -/

/-- `splitString` of any text that starts with `pp` emits the pieces `pre` and goes on, outside a
token, with `last` as the piece in progress. -/
def Pre (pp : Bytes) : Prop := ∃ pre last, ∀ b, splitAux false [] (pp ++ b) = pre ++ splitAux false last b

theorem Pre.nil : Pre [] := ⟨[], [], fun _ => rfl⟩

theorem Pre.child {pp v : Bytes} (h : Pre pp) (hv : P11.WfVal v) : Pre (pp ++ v) := by
  obtain ⟨pre, last, h⟩ := h
  rcases hv with ⟨_, hp⟩ | ⟨ia, sa, rfl, hia, hsa⟩
  · refine ⟨pre, last ++ v, fun b => ?_⟩
    rw [List.append_assoc, h, P9.splitAux_append_noStart last v b hp.1]
  · refine ⟨pre ++ P13.emit last [], P9.tok ia sa, fun b => ?_⟩
    rw [List.append_assoc, h]
    have := P13.splitAux_false_tok last ia sa b hia hsa
    simp only [P9.tok] at this ⊢
    rw [this]
    unfold P13.emit
    split <;> simp

/-- The piece in progress is a prefix of the next piece emitted. -/
theorem splitAux_head (st : Bool) (cur rest : Bytes) : ∃ q tl, splitAux st cur rest = q :: tl ∧ cur <+: q := by
  induction rest generalizing st cur with
  | nil => exact ⟨cur, [], by simp [splitAux], List.prefix_refl _⟩
  | cons b rest ih =>
    cases st with
    | false =>
      simp only [splitAux]
      split
      · split
        · rename_i hc; subst hc
          obtain ⟨q, tl, e, _⟩ := ih true [b]
          exact ⟨q, tl, e, List.nil_prefix⟩
        · exact ⟨cur, _, rfl, List.prefix_refl _⟩
      · obtain ⟨q, tl, e, hq⟩ := ih false (cur ++ [b])
        exact ⟨q, tl, e, (List.prefix_append _ _).trans hq⟩
    | true =>
      simp only [splitAux]
      split
      · obtain ⟨q, tl, e, hq⟩ := ih false (cur ++ [b])
        exact ⟨q, tl, e, (List.prefix_append _ _).trans hq⟩
      · obtain ⟨q, tl, e, hq⟩ := ih true (cur ++ [b])
        exact ⟨q, tl, e, (List.prefix_append _ _).trans hq⟩

/-- A stretch of text without `{` that follows `pp` lies inside one piece. -/
theorem len_of_pre {pp w rest : Bytes} (h : Pre pp) (hw : startByte ∉ w) (hl : PieceLens (pp ++ w ++ rest)) :
    w.length ≤ maxInt16 := by
  obtain ⟨pre, last, h⟩ := h
  have e : splitString (pp ++ w ++ rest) = pre ++ splitAux false (last ++ w) rest := by
    unfold splitString
    rw [List.append_assoc, h, P9.splitAux_append_noStart last w rest hw]
  obtain ⟨q, tl, hq, hpre⟩ := splitAux_head false (last ++ w) rest
  have hmem : q ∈ splitString (pp ++ w ++ rest) := by
    rw [e, hq]; simp
  have h1 := hl q hmem
  have h2 := hpre.length_le
  simp only [List.length_append] at h2
  omega

/-! ## The length part of `Good` -/

/-- The text of the group of a literal node is short enough. -/
def LenGood (c : Node) : Prop := c.seg.kind = .str → ext c ≠ [] → (c.seg.value ++ ext c).length ≤ maxInt16

theorem lenGood_child {ic : Interceptors} {pp : Bytes} {c : Node} (hc : P11.ChildOk ic pp c) (hcs : Node.All (P11.Sh ic) c)
    (hpre : Pre pp) (hl : ∀ r ∈ rems c, PieceLens r.2) : LenGood c := by
  intro hk he
  have hne : rems c ≠ [] := lit_ne_nil (R := rems c) (e := ext c) rfl he
  obtain ⟨r, hr⟩ := List.exists_mem_of_ne_nil _ hne
  obtain ⟨t, ht⟩ := lit_prefix (R := rems c) (e := ext c) rfl hr
  have hstart : startByte ∉ c.seg.value ++ ext c := by
    rw [List.mem_append, not_or]
    exact ⟨plain_of_str hc hk, lit_start_not_mem (R := rems c) (e := ext c) rfl he⟩
  have hpat := rems_pattern ic c hcs r hr
  have hlen := hl r hr
  rw [← hpat, hc.2.2.1, ← ht] at hlen
  have e : pp ++ c.seg.value ++ (ext c ++ t) = pp ++ (c.seg.value ++ ext c) ++ t := by simp
  rw [e] at hlen
  exact len_of_pre hpre hstart hlen

/-- Below a node whose pattern is a cut point of every live route below it, all nodes are `LenGood`. -/
theorem lenGood_all (ic : Interceptors) :
    ∀ n : Node, Node.All (P11.Sh ic) n → Pre n.pattern → (∀ r ∈ rems n, PieceLens r.2) → AllL LenGood n.children := by
  intro n
  induction n using Node.rec
    (motive_2 := fun cs => ∀ pp, P11.ShL ic pp cs → AllL (P11.Sh ic) cs → Pre pp →
      (∀ r ∈ remsL cs, PieceLens r.2) → AllL LenGood cs) with
  | mk s p mi hs idx cs ih =>
    intro hall hpre hl
    exact ih p hall.head hall.tail hpre (fun r hr => hl r (remsL_sub_rems _ hr))
  | nil => trivial
  | cons c cs ih1 ih2 =>
    rename_i pp hsh hall hpre hl
    obtain ⟨hco, _, hshcs⟩ := P11.ShL_cons.1 hsh
    have hlc : ∀ r ∈ rems c, PieceLens r.2 := by
      intro r hr
      have : ((c.seg.value ++ r.1, r.2) : Rem) ∈ remsL (c :: cs) := by
        rw [remsL_cons]
        exact List.mem_append_left _ (List.mem_map.2 ⟨r, hr, rfl⟩)
      exact hl (c.seg.value ++ r.1, r.2) this
    refine ⟨?_, ih2 pp hshcs hall.2 hpre (fun r hr => hl r (by rw [remsL_cons]; exact List.mem_append_right _ hr))⟩
    rw [Node.All_iff]
    refine ⟨lenGood_child hco hall.1 hpre hlc, ih1 hall.1 ?_ hlc⟩
    rw [hco.2.2.1]
    exact hpre.child hco.1

/-! ## From the user-facing hypothesis to `GoodTree` -/

/-- **The hypothesis of `C02_resolve_all_partial`**: below no parameter node do all live routes
continue with one and the same literal byte.  (After `Remove`/`Clean` a handler-less parameter node
`{a}/` may be left with the single literal child `x`: a freshly built router would hold the ONE node
`{a}/x`, whose capture ends at the first `/x`, not at the first `/`.) -/
def ParamStops (t : Tree) : Prop := ∀ c ∈ nodesL t.root.children, c.seg.kind ≠ .str → ext c = []

instance (t : Tree) : Decidable (ParamStops t) := by unfold ParamStops; infer_instance

theorem goodTree_of {t : Tree} (hti : P11.TInv t) (hstop : ParamStops t)
    (hl : ∀ p ∈ (tableOf t).patterns, PieceLens p) : GoodTree t := by
  have hlen : AllL LenGood t.root.children := by
    refine lenGood_all t.ic t.root hti.sh (by rw [hti.rootPat]; exact Pre.nil) ?_
    intro r hr
    rw [rems_eq] at hr
    rcases List.mem_append.1 hr with hr | hr
    · split at hr
      · cases hr
      · simp only [List.mem_singleton] at hr
        rw [hr, hti.rootPat]
        exact pieceLens_nil
    · apply hl
      rw [P11.tableOf_patterns, ← remsL_routes]
      exact List.mem_map.2 ⟨r, hr, rfl⟩
  unfold GoodTree
  rw [(All_iff_nodes _).2] at hlen ⊢
  intro c hc
  refine ⟨hstop c hc, fun he => ?_⟩
  by_cases hk : c.seg.kind = .str
  · exact hlen c hc hk he
  · exact absurd (hstop c hc hk) he

end Mux.P16
