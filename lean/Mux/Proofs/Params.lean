/-
  Helper lemmas for C20 (Params accessors): association-list map laws and the strconv parsers.
-/
import Mux.Model.Ctx
namespace Mux

namespace AMap
variable {V : Type}

@[simp] theorem get?_nil (k : Bytes) : AMap.get? ([] : AMap V) k = none := rfl

theorem get?_cons (e : Bytes × V) (m : AMap V) (k : Bytes) :
    AMap.get? (e :: m) k = if e.1 = k then some e.2 else AMap.get? m k := by
  unfold AMap.get?
  by_cases h : e.1 = k <;> simp [h]

@[simp] theorem contains_nil (k : Bytes) : AMap.contains ([] : AMap V) k = false := rfl

theorem contains_cons (e : Bytes × V) (m : AMap V) (k : Bytes) :
    AMap.contains (e :: m) k = (decide (e.1 = k) || AMap.contains m k) := by
  simp [AMap.contains]

theorem contains_eq_isSome (m : AMap V) (k : Bytes) : m.contains k = (m.get? k).isSome := by
  induction m with
  | nil => rfl
  | cons e m ih =>
    rw [contains_cons, get?_cons, ih]
    by_cases h : e.1 = k <;> simp [h]

theorem contains_iff_mem_keys (m : AMap V) (k : Bytes) : m.contains k = true ↔ k ∈ m.map (·.1) := by
  induction m with
  | nil => simp
  | cons e m ih =>
    rw [contains_cons]
    simp only [Bool.or_eq_true, decide_eq_true_eq, ih, List.map_cons, List.mem_cons]
    constructor
    · rintro (h | h)
      · exact Or.inl h.symm
      · exact Or.inr h
    · rintro (h | h)
      · exact Or.inl h.symm
      · exact Or.inr h

theorem get?_eq_none_iff (m : AMap V) (k : Bytes) : m.get? k = none ↔ k ∉ m.map (·.1) := by
  rw [← contains_iff_mem_keys, contains_eq_isSome]
  cases m.get? k <;> simp

theorem get?_append (m₁ m₂ : AMap V) (k : Bytes) :
    AMap.get? (m₁ ++ m₂) k = (AMap.get? m₁ k).or (AMap.get? m₂ k) := by
  induction m₁ with
  | nil => simp
  | cons e m ih =>
    rw [List.cons_append, get?_cons, get?_cons, ih]
    by_cases h : e.1 = k <;> simp [h]

theorem get?_mapUpd (m : AMap V) (k k' : Bytes) (v : V) :
    AMap.get? (m.map (fun e => if e.1 = k then (k, v) else e)) k' =
      if k' = k then (if m.contains k then some v else none) else AMap.get? m k' := by
  induction m with
  | nil => simp
  | cons e m ih =>
    rw [List.map_cons, get?_cons, ih, contains_cons, get?_cons]
    by_cases h1 : e.1 = k
    · by_cases h2 : k' = k
      · subst h2; simp [h1]
      · have : ¬ k = k' := fun h => h2 h.symm
        have h3 : ¬ e.1 = k' := fun h => h2 (h ▸ h1)
        simp [h1, h2, this]
    · by_cases h2 : k' = k
      · subst h2; simp [h1]
      · simp [h1, h2]

theorem get?_set (m : AMap V) (k k' : Bytes) (v : V) :
    (m.set k v).get? k' = if k' = k then some v else m.get? k' := by
  unfold AMap.set
  by_cases hc : m.contains k = true
  · simp only [hc, if_true]
    rw [get?_mapUpd]
    simp [hc]
  · simp only [hc]
    rw [if_neg (by simp), get?_append, get?_cons]
    by_cases h2 : k' = k
    · subst h2
      have : m.get? k' = none := by
        rw [contains_eq_isSome] at hc
        cases h : m.get? k' <;> simp_all
      simp [this]
    · have : ¬ k = k' := fun h => h2 h.symm
      simp [h2, this]

theorem get?_erase (m : AMap V) (k k' : Bytes) :
    (m.erase k).get? k' = if k' = k then none else m.get? k' := by
  unfold AMap.erase
  induction m with
  | nil => simp
  | cons e m ih =>
    by_cases h1 : e.1 = k
    · rw [List.filter_cons_of_neg (by simp [h1]), ih, get?_cons]
      by_cases h2 : k' = k
      · simp [h2]
      · have h3 : ¬ e.1 = k' := fun h => h2 (h ▸ h1)
        simp [h2, h3]
    · rw [List.filter_cons_of_pos (by simp [h1]), get?_cons, ih, get?_cons]
      by_cases h2 : k' = k
      · subst h2; simp [h1]
      · simp [h2]

theorem length_set (m : AMap V) (k : Bytes) (v : V) :
    (m.set k v).length = if (m.get? k).isSome then m.length else m.length + 1 := by
  unfold AMap.set
  rw [contains_eq_isSome]
  by_cases h : (m.get? k).isSome = true <;> simp [h]

theorem keys_set (m : AMap V) (k : Bytes) (v : V) :
    (m.set k v).map (·.1) = if m.contains k then m.map (·.1) else m.map (·.1) ++ [k] := by
  unfold AMap.set
  by_cases h : m.contains k = true
  · simp only [h, if_true, List.map_map]
    apply List.map_congr_left
    intro e _
    by_cases h1 : e.1 = k <;> simp [h1]
  · simp [h]

theorem nodup_keys_set (m : AMap V) (k : Bytes) (v : V) (h : (m.map (·.1)).Nodup) :
    ((m.set k v).map (·.1)).Nodup := by
  rw [keys_set]
  by_cases hc : m.contains k = true
  · simpa [hc] using h
  · simp only [hc]
    rw [if_neg (by simp)]
    rw [contains_iff_mem_keys] at hc
    rw [List.nodup_append]
    refine ⟨h, by simp, ?_⟩
    intro a ha b hb
    simp only [List.mem_singleton] at hb
    subst hb
    intro hab; subst hab; exact hc ha

theorem keys_erase (m : AMap V) (k : Bytes) :
    (m.erase k).map (·.1) = (m.map (·.1)).filter (· ≠ k) := by
  unfold AMap.erase
  rw [List.filter_map]
  rfl

theorem nodup_keys_erase (m : AMap V) (k : Bytes) (h : (m.map (·.1)).Nodup) :
    ((m.erase k).map (·.1)).Nodup := by
  rw [keys_erase]; exact h.filter _

theorem length_erase (m : AMap V) (k : Bytes) (h : (m.map (·.1)).Nodup) :
    (m.erase k).length = if (m.get? k).isSome then m.length - 1 else m.length := by
  unfold AMap.erase
  induction m with
  | nil => simp
  | cons e m ih =>
    rw [List.map_cons, List.nodup_cons] at h
    rw [get?_cons]
    by_cases h1 : e.1 = k
    · rw [List.filter_cons_of_neg (by simp [h1])]
      have hn : AMap.get? m k = none := by rw [get?_eq_none_iff]; exact h1 ▸ h.1
      have := ih h.2
      rw [hn] at this
      rw [this, if_pos h1]
      simp
    · rw [List.filter_cons_of_pos (by simp [h1]), List.length_cons, ih h.2]
      simp only [h1, if_false]
      cases hg : AMap.get? m k with
      | none => simp
      | some v =>
        have : m ≠ [] := by intro hm; subst hm; simp at hg
        have : 0 < m.length := List.length_pos_iff.mpr this
        simp only [Option.isSome_some, if_true, List.length_cons]
        omega

theorem mem_iff_get? (m : AMap V) (k : Bytes) (v : V) (h : (m.map (·.1)).Nodup) :
    (k, v) ∈ m ↔ m.get? k = some v := by
  induction m with
  | nil => simp
  | cons e m ih =>
    rw [List.map_cons, List.nodup_cons] at h
    rw [get?_cons, List.mem_cons, ih h.2]
    by_cases h1 : e.1 = k
    · simp only [h1, if_true]
      have hn : AMap.get? m k = none := by rw [get?_eq_none_iff]; exact h1 ▸ h.1
      rw [hn]
      constructor
      · rintro (h2 | h2)
        · rw [← h2]
        · cases h2
      · intro h2
        left
        cases e; simp_all
    · simp only [h1, if_false]
      constructor
      · rintro (h2 | h2)
        · exact absurd (by rw [← h2]) h1
        · exact h2
      · exact Or.inr

/-- Without the unique-key invariant only one direction of `mem_iff_get?` holds. -/
theorem mem_of_get? (m : AMap V) (k : Bytes) (v : V) (h : m.get? k = some v) : (k, v) ∈ m := by
  induction m with
  | nil => simp at h
  | cons e m ih =>
    rw [get?_cons] at h
    by_cases h1 : e.1 = k
    · simp only [h1, if_true, Option.some.injEq] at h
      cases e; simp_all
    · simp only [h1, if_false] at h
      exact List.mem_cons_of_mem _ (ih h)

end AMap

/-! ## strconv -/

/-- The value of a decimal digit string. -/
def decVal (ds : Bytes) : Nat := ds.foldl (fun a b => a * 10 + (b.toNat - 48)) 0
def allDigits (ds : Bytes) : Prop := ds ≠ [] ∧ ∀ b ∈ ds, 48 ≤ b ∧ b ≤ 57

theorem digitsVal_eq_some_iff (ds : Bytes) (n : Nat) :
    digitsVal ds = some n ↔ allDigits ds ∧ decVal ds = n := by
  unfold allDigits decVal
  cases ds with
  | nil => simp [digitsVal]
  | cons c cs =>
    simp only [digitsVal]
    split
    · rename_i h
      simp only [List.all_eq_true, decide_eq_true_eq] at h
      simp only [Option.some.injEq, ne_eq, reduceCtorEq, not_false_eq_true, true_and]
      exact ⟨fun h2 => ⟨h, h2⟩, fun h2 => h2.2⟩
    · rename_i h
      simp only [List.all_eq_true, decide_eq_true_eq] at h
      simp only [reduceCtorEq, false_iff]
      exact fun h2 => h h2.1.2

theorem digitsVal_eq_none_iff (ds : Bytes) : digitsVal ds = none ↔ ¬ allDigits ds := by
  cases h : digitsVal ds with
  | none =>
    simp only [true_iff]
    intro ha
    have := (digitsVal_eq_some_iff ds (decVal ds)).mpr ⟨ha, rfl⟩
    rw [h] at this; cases this
  | some n =>
    simp only [reduceCtorEq, false_iff, Classical.not_not]
    exact ((digitsVal_eq_some_iff ds n).mp h).1

theorem digitsVal_of_allDigits {ds : Bytes} (h : allDigits ds) : digitsVal ds = some (decVal ds) :=
  (digitsVal_eq_some_iff ds _).mpr ⟨h, rfl⟩

theorem parseUint_spec (s : Bytes) :
    (parseUint s = .syntaxErr ↔ ¬ allDigits s) ∧
    (∀ n, parseUint s = .ok n ↔ allDigits s ∧ decVal s = n ∧ n ≤ maxUint64) ∧
    (∀ n, parseUint s = .rangeErr n ↔ allDigits s ∧ decVal s > maxUint64 ∧ n = maxUint64) := by
  unfold parseUint
  cases h : digitsVal s with
  | none =>
    have hn := (digitsVal_eq_none_iff s).mp h
    simp [hn]
  | some m =>
    obtain ⟨ha, hv⟩ := (digitsVal_eq_some_iff s m).mp h
    subst hv
    simp only [ha, not_true_eq_false, true_and]
    by_cases hgt : decVal s > maxUint64
    · simp only [hgt, if_true, reduceCtorEq, false_iff, true_and, Acc.rangeErr.injEq]
      refine ⟨?_, ?_⟩
      · intro n hn; omega
      · intro n; exact eq_comm
    · simp only [hgt, if_false, reduceCtorEq, false_and, implies_true,
        and_true, Acc.ok.injEq, true_and]
      intro n
      constructor
      · intro h2; subst h2; exact ⟨rfl, by omega⟩
      · exact fun h2 => h2.1

theorem allDigits_head {c : UInt8} {cs : Bytes} (h : allDigits (c :: cs)) : c ≠ 43 ∧ c ≠ 45 := by
  have := h.2 c (by simp)
  constructor
  · intro hc; subst hc; exact absurd this.1 (by decide)
  · intro hc; subst hc; exact absurd this.1 (by decide)

/-- `parseInt` after the sign has been split off. -/
def parseIntBody (neg : Bool) (ds : Bytes) : Acc Int :=
  match digitsVal ds with
  | none => .syntaxErr
  | some n =>
    if ¬ neg ∧ (n : Int) > maxInt64 then .rangeErr maxInt64
    else if neg ∧ (n : Int) > -minInt64 then .rangeErr minInt64
    else .ok (if neg then -(n : Int) else (n : Int))

theorem parseInt_cons (c : UInt8) (rest : Bytes) :
    parseInt (c :: rest) =
      if c = 43 then parseIntBody false rest
      else if c = 45 then parseIntBody true rest
      else parseIntBody false (c :: rest) := by
  unfold parseInt parseIntBody
  by_cases h1 : c = 43
  · subst h1; simp only [if_true]; cases digitsVal rest <;> rfl
  · by_cases h2 : c = 45
    · subst h2; simp only [h1, if_false, if_true]; cases digitsVal rest <;> rfl
    · simp only [h1, h2, if_false]; cases digitsVal (c :: rest) <;> rfl

theorem parseIntBody_ok (neg : Bool) (ds : Bytes) (v : Int) :
    parseIntBody neg ds = .ok v ↔
      allDigits ds ∧ v = (if neg then -(decVal ds : Int) else (decVal ds : Int)) ∧
        minInt64 ≤ v ∧ v ≤ maxInt64 := by
  unfold parseIntBody
  cases h : digitsVal ds with
  | none =>
    have hn := (digitsVal_eq_none_iff ds).mp h
    simp [hn]
  | some m =>
    obtain ⟨ha, hv⟩ := (digitsVal_eq_some_iff ds m).mp h
    subst hv
    simp only [ha, true_and]
    cases neg
    · simp only [Bool.false_eq_true, not_false_eq_true, true_and, false_and, if_false]
      by_cases hgt : (decVal ds : Int) > maxInt64
      · simp only [hgt, if_true, reduceCtorEq, false_iff]
        rintro ⟨rfl, _, h3⟩; omega
      · simp only [hgt, if_false, Acc.ok.injEq]
        constructor
        · intro h2; subst h2
          refine ⟨rfl, ?_, by omega⟩
          unfold minInt64; omega
        · exact fun h2 => h2.1.symm
    · simp only [not_true_eq_false, false_and, if_false, true_and, if_true]
      by_cases hgt : (decVal ds : Int) > -minInt64
      · simp only [hgt, if_true, reduceCtorEq, false_iff]
        rintro ⟨rfl, h3, _⟩; omega
      · simp only [hgt, if_false, Acc.ok.injEq]
        constructor
        · intro h2; subst h2
          refine ⟨rfl, by omega, ?_⟩
          unfold maxInt64; omega
        · exact fun h2 => h2.1.symm

theorem parseInt_ok (s : Bytes) (v : Int) :
    parseInt s = .ok v ↔
      ∃ neg ds, (s = (if neg then [45] else []) ++ ds ∨ (neg = false ∧ s = 43 :: ds)) ∧ allDigits ds ∧
        v = (if neg then -(decVal ds : Int) else (decVal ds : Int)) ∧ minInt64 ≤ v ∧ v ≤ maxInt64 := by
  cases s with
  | nil =>
    simp only [parseInt, reduceCtorEq, false_iff]
    rintro ⟨neg, ds, h1, h2, _⟩
    rcases h1 with h1 | ⟨_, h1⟩
    · cases neg
      · simp only [Bool.false_eq_true, if_false, List.nil_append] at h1
        exact h2.1 h1.symm
      · simp at h1
    · cases h1
  | cons c rest =>
    rw [parseInt_cons]
    by_cases h1 : c = 43
    · subst h1
      simp only [if_true, parseIntBody_ok]
      constructor
      · intro h; exact ⟨false, rest, Or.inr ⟨rfl, rfl⟩, h⟩
      · rintro ⟨neg, ds, hs, hrest⟩
        rcases hs with hs | ⟨hneg, hs⟩
        · cases neg
          · simp only [Bool.false_eq_true, if_false, List.nil_append] at hs
            subst hs
            exact absurd rfl (allDigits_head hrest.1).1
          · simp at hs
        · subst hneg
          simp only [List.cons.injEq, true_and] at hs
          subst hs; exact hrest
    · by_cases h2 : c = 45
      · subst h2
        simp only [h1, if_false, if_true, parseIntBody_ok]
        constructor
        · intro h; exact ⟨true, rest, Or.inl (by simp), h⟩
        · rintro ⟨neg, ds, hs, hrest⟩
          rcases hs with hs | ⟨hneg, hs⟩
          · cases neg
            · simp only [Bool.false_eq_true, if_false, List.nil_append] at hs
              subst hs
              exact absurd rfl (allDigits_head hrest.1).2
            · simp only [if_true, List.cons_append, List.nil_append, List.cons.injEq, true_and] at hs
              subst hs; exact hrest
          · simp at hs
      · simp only [h1, h2, if_false, parseIntBody_ok]
        constructor
        · intro h; exact ⟨false, c :: rest, Or.inl (by simp), h⟩
        · rintro ⟨neg, ds, hs, hrest⟩
          rcases hs with hs | ⟨hneg, hs⟩
          · cases neg
            · simp only [Bool.false_eq_true, if_false, List.nil_append] at hs
              subst hs; exact hrest
            · simp only [if_true, List.cons_append, List.nil_append, List.cons.injEq] at hs
              exact absurd hs.1 h2
          · simp only [List.cons.injEq] at hs
            exact absurd hs.1 h1

end Mux
