/-
  Mux.Proofs.HostsReach — the private tree of a `Hosts` matcher satisfies all tree invariants (`AllInv`:
  `NamesOkL []`, `IdxLit`, `StructInv2`, `TInv`, …) after every history of `Add` (domains passing the brace check),
  `Delete` and `RegisterInterceptor` in which no interceptor is registered under a rule text that a regexp segment
  ALREADY STORED in the tree uses (`HostsReachWf`); in particular after every history that registers all
  interceptors before the first domain (`HostsReachWf.of_regsFirst`: then the tree is even the tree of a
  well-formed `Tree` history, `regsFirst_reachAll`).  Hence the frame property of `Tree.remove` applies to
  `Hosts.Delete`.

  Why the side condition on `RegisterInterceptor`: it changes the table under which the stored segments were
  parsed — `{a:rule}` stored as a REGEXP segment would now parse as an INTERCEPTOR segment —, so the invariant
  "every segment is `newSegment ic` of its text" of `StructInv`/`WellFormedTree`/`TInv` survives exactly when no
  stored regexp segment has that rule (`Mux/Proofs/SetIc.lean`).
-/
import Mux.Proofs.Frame
import Mux.Proofs.SetIc
import Mux.Proofs.HostsExamples
namespace Mux.P14
open Mux Mux.P12

def HOp.isReg : HOp → Prop
  | .registerInterceptor _ _ => True
  | _ => False

/-- `Add` of a domain whose lower-cased text has balanced, non-nested braces; any `Delete`. -/
def HOp.domainOk : HOp → Prop
  | .add d => WfPattern (toLower d) = true
  | .delete _ => True
  | .registerInterceptor _ _ => False

/-- What a history step must satisfy: `Add` registers a domain with balanced, non-nested braces; `Delete` is
arbitrary; `RegisterInterceptor(rule)` happens when no regexp segment stored in the tree uses `rule`. -/
def hostsOpOk (hs : Hosts) : HOp → Prop
  | .add d => WfPattern (toLower d) = true
  | .delete _ => True
  | .registerInterceptor _ rule => RuleFree rule hs.tree.root.children

def hostsRunOk : Hosts → List HOp → Prop
  | _, [] => True
  | hs, op :: ops => hostsOpOk hs op ∧ hostsRunOk (hostsStep hs op) ops

/-- A matcher made by `NewHosts` and such a history. -/
def HostsReachWf (hs : Hosts) : Prop := ∃ ops, hostsRunOk Hosts.empty ops ∧ hs = hostsRun Hosts.empty ops

def hostName : Bytes := bytesOfString "host"

/-- The tree of `NewHosts` with interceptor table `ic`. -/
def hostTree0 (ic : Interceptors) : Tree := Tree.new hostName ic { base := .nil } (some { base := .nil }) .nil .nil

theorem regs_tree : ∀ (regs : List HOp) (hs : Hosts) (ic : Interceptors), (∀ op ∈ regs, HOp.isReg op) →
    hs.tree = hostTree0 ic → ∃ ic', (hostsRun hs regs).tree = hostTree0 ic' := by
  intro regs
  induction regs with
  | nil => intro hs ic _ h; exact ⟨ic, h⟩
  | cons op regs ih =>
    intro hs ic hr h
    have hop := hr op List.mem_cons_self
    have hrest : ∀ o ∈ regs, HOp.isReg o := fun o ho => hr o (List.mem_cons_of_mem _ ho)
    cases op with
    | add d => exact absurd hop (by simp [HOp.isReg])
    | delete d => exact absurd hop (by simp [HOp.isReg])
    | registerInterceptor id rule =>
      show ∃ ic', (hostsRun (hostsStep hs (.registerInterceptor id rule)) regs).tree = _
      simp only [hostsStep]
      cases he : hs.registerInterceptor id rule with
      | none => exact ih hs ic hrest h
      | some hs' =>
        refine ih hs' (ic ++ [(rule, id)]) hrest ?_
        rw [(Hosts.registerInterceptor_some he).2, h]
        rfl

theorem step_add_tree (hs : Hosts) (d : Bytes) :
    (hostsStep hs (.add d)).tree = hs.tree.step (.add (toLower d) { base := .hostEmpty, wraps := [] } [] [mGET]) := by
  simp only [hostsStep, Tree.step, Hosts.add_eq]
  cases hs.tree.add (toLower d) { base := .hostEmpty, wraps := [] } [] [mGET] <;> rfl

theorem step_delete_tree (hs : Hosts) (d : Bytes) :
    (hostsStep hs (.delete d)).tree = hs.tree.step (.remove (toLower d) []) := by
  simp only [hostsStep, Tree.step, Hosts.delete_eq]
  cases hs.tree.remove (toLower d) [] <;> rfl

theorem ops_tree : ∀ (ops : List HOp) (hs : Hosts), (∀ op ∈ ops, HOp.domainOk op) →
    ∃ tops : List TOp, (∀ o ∈ tops, o.wf = true) ∧ (hostsRun hs ops).tree = hs.tree.run tops := by
  intro ops
  induction ops with
  | nil => intro hs _; exact ⟨[], by simp, rfl⟩
  | cons op ops ih =>
    intro hs hr
    have hop := hr op List.mem_cons_self
    obtain ⟨tops, hw, ht⟩ := ih (hostsStep hs op) (fun o ho => hr o (List.mem_cons_of_mem _ ho))
    cases op with
    | add d =>
      refine ⟨.add (toLower d) { base := .hostEmpty, wraps := [] } [] [mGET] :: tops, ?_, ?_⟩
      · intro o ho
        rcases List.mem_cons.1 ho with rfl | ho
        · exact hop
        · exact hw o ho
      · show (hostsRun (hostsStep hs (.add d)) ops).tree = _
        rw [ht, step_add_tree]; rfl
    | delete d =>
      refine ⟨.remove (toLower d) [] :: tops, ?_, ?_⟩
      · intro o ho
        rcases List.mem_cons.1 ho with rfl | ho
        · rfl
        · exact hw o ho
      · show (hostsRun (hostsStep hs (.delete d)) ops).tree = _
        rw [ht, step_delete_tree]; rfl
    | registerInterceptor id rule => exact absurd hop (by simp [HOp.domainOk])

/-- "Interceptors first": the private tree is the tree of a well-formed `Tree` history. -/
theorem regsFirst_reachAll {regs ops : List HOp} (hregs : ∀ op ∈ regs, HOp.isReg op) (hops : ∀ op ∈ ops, HOp.domainOk op) :
    ReachAll (hostsRun (hostsRun Hosts.empty regs) ops).tree := by
  obtain ⟨ic, hic⟩ := regs_tree regs Hosts.empty [] hregs rfl
  obtain ⟨tops, hw, ht⟩ := ops_tree ops (hostsRun Hosts.empty regs) hops
  rw [ht, hic]
  exact ⟨_, _, _, _, _, _, tops, hw, rfl⟩

/-- One step keeps all invariants. -/
theorem hostsStep_inv {hs : Hosts} (h : AllInv hs.tree) {op : HOp} (hop : hostsOpOk hs op) :
    AllInv (hostsStep hs op).tree := by
  cases op with
  | add d => rw [step_add_tree]; exact h.step (op := .add _ _ _ _) hop
  | delete d => rw [step_delete_tree]; exact h.step (op := .remove _ _) rfl
  | registerInterceptor id rule =>
    simp only [hostsStep]
    cases he : hs.registerInterceptor id rule with
    | none => exact h
    | some hs' =>
      simp only
      rw [(Hosts.registerInterceptor_some he).2]
      exact h.setIc id hop

theorem hostsRun_inv : ∀ (ops : List HOp) (hs : Hosts), AllInv hs.tree → hostsRunOk hs ops → AllInv (hostsRun hs ops).tree := by
  intro ops
  induction ops with
  | nil => intro hs h _; exact h
  | cons op ops ih => intro hs h hok; exact ih _ (hostsStep_inv h hok.1) hok.2

/-- **All tree invariants hold of the private tree.** -/
theorem HostsReachWf.inv {hs : Hosts} (h : HostsReachWf hs) : AllInv hs.tree := by
  obtain ⟨ops, hok, rfl⟩ := h
  exact hostsRun_inv ops _ (AllInv.new _ _ _ _ _ _) hok

theorem HostsReachWf.reach {hs : Hosts} (h : HostsReachWf hs) : HostsReach hs := by
  obtain ⟨ops, _, rfl⟩ := h
  exact ⟨ops, rfl⟩

theorem hostsRunOk_append : ∀ (a b : List HOp) (hs : Hosts), hostsRunOk hs a → hostsRunOk (hostsRun hs a) b →
    hostsRunOk hs (a ++ b) := by
  intro a
  induction a with
  | nil => intro b hs _ h; exact h
  | cons op a ih => intro b hs h1 h2; exact ⟨h1.1, ih b _ h1.2 h2⟩

theorem regs_runOk : ∀ (regs : List HOp) (hs : Hosts) (ic : Interceptors), (∀ op ∈ regs, HOp.isReg op) →
    hs.tree = hostTree0 ic → hostsRunOk hs regs := by
  intro regs
  induction regs with
  | nil => intro _ _ _ _; trivial
  | cons op regs ih =>
    intro hs ic hr h
    have hop := hr op List.mem_cons_self
    have hrest : ∀ o ∈ regs, HOp.isReg o := fun o ho => hr o (List.mem_cons_of_mem _ ho)
    obtain ⟨ic', hic'⟩ := regs_tree [op] hs ic (fun o ho => by simp only [List.mem_singleton] at ho; exact ho ▸ hop) h
    refine ⟨?_, ih _ ic' hrest hic'⟩
    cases op with
    | add d => exact absurd hop (by simp [HOp.isReg])
    | delete d => exact absurd hop (by simp [HOp.isReg])
    | registerInterceptor id rule =>
      show RuleFree rule hs.tree.root.children
      rw [h]
      intro n hn
      simp [hostTree0, Tree.new, nodesL] at hn

theorem ops_runOk : ∀ (ops : List HOp) (hs : Hosts), (∀ op ∈ ops, HOp.domainOk op) → hostsRunOk hs ops := by
  intro ops
  induction ops with
  | nil => intro _ _; trivial
  | cons op ops ih =>
    intro hs hr
    refine ⟨?_, ih _ (fun o ho => hr o (List.mem_cons_of_mem _ ho))⟩
    have hop := hr op List.mem_cons_self
    cases op with
    | add d => exact hop
    | delete d => trivial
    | registerInterceptor id rule => exact absurd hop (by simp [HOp.domainOk])

/-- The simple sufficient condition: all interceptors are registered before the first domain. -/
theorem HostsReachWf.of_regsFirst {regs ops : List HOp} (hregs : ∀ op ∈ regs, HOp.isReg op)
    (hops : ∀ op ∈ ops, HOp.domainOk op) : HostsReachWf (hostsRun (hostsRun Hosts.empty regs) ops) :=
  ⟨regs ++ ops, hostsRunOk_append regs ops _ (regs_runOk regs _ [] hregs rfl) (ops_runOk ops _ hops),
    by simp [hostsRun, List.foldl_append]⟩

theorem HostsReachWf.names {hs : Hosts} (h : HostsReachWf hs) : NamesOkL [] hs.tree.root.children :=
  h.inv.names

theorem HostsReachWf.idxLit {hs : Hosts} (h : HostsReachWf hs) : Node.All IdxLit hs.tree.root :=
  h.inv.idxLit

/-- `Hosts.Delete` leaves every host that was resolved to a node of ANOTHER domain matched as before. -/
theorem delete_frame (env : Env) {hs hs' : Hosts} (h : HostsReachWf hs) {d : Bytes} (hd : hs.delete d = .ok hs')
    (host path : Bytes) (ha : isAscii host = true) {f : Found} {q : Node}
    (hres : hs.tree.handler env (normHost host) [] mGET = .res f) (hq : f.node = some q)
    (hne : q.pattern ≠ toLower d) :
    hs'.match env host path [] = hs.match env host path [] := by
  rw [Hosts.delete_eq] at hd
  cases he : hs.tree.remove (toLower d) [] with
  | error e => rw [he] at hd; cases hd
  | ok t' =>
    rw [he] at hd
    simp only [Except.map, Except.ok.injEq] at hd
    subst hd
    obtain ⟨f', hres', h1, h2, h3, _⟩ := frame_remove' h.inv he hres hq hne
    rw [Hosts.match_res env _ host path [] f' ha hres', Hosts.match_res env hs host path [] f ha hres, h2, h3]

end Mux.P14
