/-
  Mux.Proofs.ReachAll — ONE reachability predicate for the three notions of "history whose registered
  patterns are well-formed" used by earlier proof files:

    * `P9.ReachWf`   (`PatOk`  : every piece of `splitString p` is `P9.WfPiece`),
    * `P8.ReachTidy` (`TidyOp` : every piece of `splitString p` is `P8.Tidy`),
    * `C03.WfOps` / `P11.Sim` (`TOp.wf` : `Mux.WfPattern p = true`, the executable brace check).

  The three hypotheses on a pattern are EQUIVALENT (`wfPattern_iff_P9`, `P9_iff_P8`); the executable one
  is taken as the definition of `ReachAll`.  A tree satisfying `ReachAll` has all invariants at once
  (`AllInv`): `StructInv2` (hence `StructInv`, `DistinctFirstBytes`), `WellFormedTree` (hence
  `NamesOkL []`), `TInv`/`Sim` (table refinement), `TreeInv`, `IdxLit`.
-/
import Mux.Proofs.Names
import Mux.Proofs.StructDistinct
import Mux.Proofs.ScanSpec
import Mux.Proofs.Table
namespace Mux.P14
open Mux

/-! ## The three piece predicates coincide -/

theorem plain_iff_P9 (v : Bytes) : P11.Plain v ↔ P9.NoBrace v := Iff.rfl
theorem plain_iff_P8 (v : Bytes) : P11.Plain v ↔ P8.NoBrace v := Iff.rfl

theorem wfPiece_iff_tidy (v : Bytes) : P9.WfPiece v ↔ P8.Tidy v := by
  unfold P9.WfPiece P8.Tidy P9.TokPiece P8.TokForm P9.tok
  exact Iff.rfl

theorem wfVal_wfPiece {v : Bytes} (h : P11.WfVal v) : P9.WfPiece v := by
  rcases h with ⟨_, hp⟩ | ⟨ia, sa, rfl, hia, hsa⟩
  · exact .inl hp
  · exact .inr ⟨ia, sa, rfl, hia, hsa⟩

theorem wfPiece_wfVal {v : Bytes} (hne : v ≠ []) (h : P9.WfPiece v) : P11.WfVal v := by
  rcases h with hp | ⟨ia, sa, rfl, hia, hsa⟩
  · exact .inl ⟨hne, hp⟩
  · exact .inr ⟨ia, sa, rfl, hia, hsa⟩

/-- `P9.WfPattern` and `P8.TidyPattern` are the same predicate. -/
theorem P9_iff_P8 (p : Bytes) : P9.WfPattern p ↔ P8.TidyPattern p := by
  unfold P9.WfPattern P8.TidyPattern
  exact forall_congr' fun v => imp_congr_right fun _ => wfPiece_iff_tidy v

/-- The executable brace check implies the piece form. -/
theorem wfPattern_P9 {p : Bytes} (h : WfPattern p = true) : P9.WfPattern p := by
  intro v hv
  rcases P11.splitAux_wf false [] p (fun _ => .inl rfl) (fun h => by cases h) h v hv with rfl | h
  · exact .inl P9.NoBrace.nil
  · exact wfVal_wfPiece h

theorem wfPattern_P8 {p : Bytes} (h : WfPattern p = true) : P8.TidyPattern p :=
  (P9_iff_P8 p).1 (wfPattern_P9 h)

/-! ### The converse: pieces without stray braces ⇒ the brace check succeeds -/

theorem wfBraces_true_plain : ∀ (v : Bytes), P11.Plain v → ∀ rest, wfBraces true (v ++ endByte :: rest) = wfBraces false rest
  | [], _, rest => by simp [wfBraces]
  | b :: v, h, rest => by
    obtain ⟨h1, h2, h3⟩ := P11.Plain.cons h
    simp only [List.cons_append, wfBraces, h2, if_false, h1]
    exact wfBraces_true_plain v h3 rest

theorem wfBraces_false_plain : ∀ (v : Bytes), P11.Plain v → ∀ rest, wfBraces false (v ++ rest) = wfBraces false rest
  | [], _, rest => rfl
  | b :: v, h, rest => by
    obtain ⟨h1, h2, h3⟩ := P11.Plain.cons h
    simp only [List.cons_append, wfBraces, h2, if_false, h1]
    exact wfBraces_false_plain v h3 rest

theorem wfBraces_piece {v : Bytes} (h : P9.WfPiece v) (rest : Bytes) : wfBraces false (v ++ rest) = wfBraces false rest := by
  rcases h with hp | ⟨ia, sa, rfl, hia, hsa⟩
  · exact wfBraces_false_plain v hp rest
  · show wfBraces false (startByte :: (ia ++ endByte :: sa) ++ rest) = _
    simp only [List.cons_append, wfBraces, if_true, List.append_assoc]
    rw [wfBraces_true_plain ia hia]
    exact wfBraces_false_plain sa hsa rest

theorem wfBraces_flatten : ∀ (l : List Bytes), (∀ v ∈ l, P9.WfPiece v) → wfBraces false l.flatten = true
  | [], _ => rfl
  | v :: l, h => by
    rw [List.flatten_cons, wfBraces_piece (h v List.mem_cons_self)]
    exact wfBraces_flatten l (fun w hw => h w (List.mem_cons_of_mem _ hw))

/-- The pieces of `splitAux` concatenate to the accumulator followed by the input. -/
theorem splitAux_flatten : ∀ (st : Bool) (cur rest : Bytes), (splitAux st cur rest).flatten = cur ++ rest
  | _, cur, [] => by simp [splitAux]
  | false, cur, b :: rest => by
    simp only [splitAux]
    split
    · split
      · rename_i hc; subst hc
        rw [splitAux_flatten true [b] rest]; rfl
      · rw [List.flatten_cons, splitAux_flatten true [b] rest]; rfl
    · rw [splitAux_flatten false (cur ++ [b]) rest]; simp
  | true, cur, b :: rest => by
    simp only [splitAux]
    split
    · rw [splitAux_flatten false (cur ++ [b]) rest]; simp
    · rw [splitAux_flatten true (cur ++ [b]) rest]; simp

theorem splitString_flatten (p : Bytes) : (splitString p).flatten = p := by
  unfold splitString; rw [splitAux_flatten]; rfl

/-- **The three pattern hypotheses are equivalent.** -/
theorem wfPattern_iff_P9 (p : Bytes) : WfPattern p = true ↔ P9.WfPattern p := by
  refine ⟨wfPattern_P9, fun h => ?_⟩
  unfold WfPattern
  rw [← splitString_flatten p]
  exact wfBraces_flatten _ h

theorem wfPattern_iff_P8 (p : Bytes) : WfPattern p = true ↔ P8.TidyPattern p :=
  (wfPattern_iff_P9 p).trans (P9_iff_P8 p)

theorem wf_patOk {op : TOp} : op.wf = true ↔ P9.PatOk op := by
  cases op with
  | add p h ms methods => exact wfPattern_iff_P9 p
  | _ => simp [TOp.wf, P9.PatOk]

theorem wf_tidyOp {op : TOp} : op.wf = true ↔ P8.TidyOp op := by
  cases op with
  | add p h ms methods => exact wfPattern_iff_P8 p
  | _ => simp [TOp.wf, P8.TidyOp]

/-! ## The common reachability predicate -/

/-- A tree produced from a fresh one by a history (`add`/`remove`/`clean`/`use`) whose REGISTERED
patterns pass the executable brace check `WfPattern` (balanced, non-nested `{…}`; the arguments of
`remove` and `clean` are arbitrary). -/
def ReachAll (t : Tree) : Prop :=
  ∃ name ic nf tr ob nb ops, (∀ op ∈ ops, TOp.wf op = true) ∧ t = (Tree.new name ic nf tr ob nb).run ops

theorem ReachAll.reachWf {t : Tree} (h : ReachAll t) : P9.ReachWf t := by
  obtain ⟨name, ic, nf, tr, ob, nb, ops, hops, rfl⟩ := h
  exact ⟨name, ic, nf, tr, ob, nb, ops, fun op ho => wf_patOk.1 (hops op ho), rfl⟩

theorem ReachAll.reachTidy {t : Tree} (h : ReachAll t) : P8.ReachTidy t := by
  obtain ⟨name, ic, nf, tr, ob, nb, ops, hops, rfl⟩ := h
  exact ⟨name, ic, nf, tr, ob, nb, ops, fun op ho => wf_tidyOp.1 (hops op ho), rfl⟩

theorem ReachAll.reach {t : Tree} (h : ReachAll t) : t.Reach := h.reachWf.reach

theorem ReachAll.of_reachWf {t : Tree} (h : P9.ReachWf t) : ReachAll t := by
  obtain ⟨name, ic, nf, tr, ob, nb, ops, hops, rfl⟩ := h
  exact ⟨name, ic, nf, tr, ob, nb, ops, fun op ho => wf_patOk.2 (hops op ho), rfl⟩

theorem ReachAll.of_reachTidy {t : Tree} (h : P8.ReachTidy t) : ReachAll t := by
  obtain ⟨name, ic, nf, tr, ob, nb, ops, hops, rfl⟩ := h
  exact ⟨name, ic, nf, tr, ob, nb, ops, fun op ho => wf_tidyOp.2 (hops op ho), rfl⟩

/-- The three reachability predicates coincide. -/
theorem reachAll_iff_reachWf (t : Tree) : ReachAll t ↔ P9.ReachWf t := ⟨ReachAll.reachWf, ReachAll.of_reachWf⟩
theorem reachAll_iff_reachTidy (t : Tree) : ReachAll t ↔ P8.ReachTidy t := ⟨ReachAll.reachTidy, ReachAll.of_reachTidy⟩

theorem ReachAll.new (name : Bytes) (ic : Interceptors) (nf : Handler) (tr : Option Handler) (ob nb : Base) :
    ReachAll (Tree.new name ic nf tr ob nb) := ⟨name, ic, nf, tr, ob, nb, [], by simp, rfl⟩

theorem ReachAll.step {t : Tree} (h : ReachAll t) {op : TOp} (hop : op.wf = true) : ReachAll (t.step op) := by
  obtain ⟨name, ic, nf, tr, ob, nb, ops, hops, rfl⟩ := h
  refine ⟨name, ic, nf, tr, ob, nb, ops ++ [op], ?_, by simp [Tree.run]⟩
  intro o ho
  rcases List.mem_append.1 ho with ho | ho
  · exact hops o ho
  · simp only [List.mem_singleton] at ho
    exact ho ▸ hop

theorem ReachAll.run {t : Tree} (h : ReachAll t) {ops : List TOp} (hops : ∀ op ∈ ops, op.wf = true) :
    ReachAll (t.run ops) := by
  unfold Tree.run
  induction ops generalizing t with
  | nil => exact h
  | cons op ops ih => exact ih (h.step (hops op (by simp))) (fun o ho => hops o (by simp [ho]))

/-! ## All invariants at once -/

/-- Everything the earlier proof files establish for trees of well-formed histories. -/
structure AllInv (t : Tree) : Prop where
  s2 : P8.StructInv2 t
  wf : P9.WellFormedTree t
  ti : P11.TInv t

theorem AllInv.new (name : Bytes) (ic : Interceptors) (nf : Handler) (tr : Option Handler) (ob nb : Base) :
    AllInv (Tree.new name ic nf tr ob nb) :=
  ⟨P8.struct2_new name ic nf tr ob nb, P9.wellFormed_new name ic nf tr ob nb, P11.TInv_new name ic nf tr ob nb⟩

theorem AllInv.step {t : Tree} (h : AllInv t) {op : TOp} (hop : op.wf = true) : AllInv (t.step op) :=
  ⟨P8.struct2_step h.s2 op (wf_tidyOp.1 hop), P9.wf_step h.wf (wf_patOk.1 hop), P11.TInv_step h.ti op hop⟩

theorem AllInv.run {t : Tree} (h : AllInv t) {ops : List TOp} (hops : ∀ op ∈ ops, op.wf = true) :
    AllInv (t.run ops) := by
  unfold Tree.run
  induction ops generalizing t with
  | nil => exact h
  | cons op ops ih => exact ih (h.step (hops op (by simp))) (fun o ho => hops o (by simp [ho]))

theorem ReachAll.inv {t : Tree} (h : ReachAll t) : AllInv t := by
  obtain ⟨name, ic, nf, tr, ob, nb, ops, hops, rfl⟩ := h
  exact (AllInv.new name ic nf tr ob nb).run hops

/-- The table refinement `Sim` for the abstract table of the history. -/
theorem ReachAll.sim {t : Tree} (h : ReachAll t) : ∃ tb, P11.Sim t tb := by
  obtain ⟨name, ic, nf, tr, ob, nb, ops, hops, rfl⟩ := h
  exact ⟨_, P11.sim_history name ic nf tr ob nb ops hops⟩

namespace AllInv
variable {t : Tree} (h : AllInv t)
include h

theorem struct : P8.StructInv t := h.s2.toStructInv
theorem treeInv : TreeInv t := h.ti.inv2.toTreeInv
theorem treeInv2 : TreeInv2 t := h.ti.inv2
theorem names : NamesOkL [] t.root.children := P9.namesOk_of_wf h.wf
theorem namesRoot : Node.NamesOk [] t.root := (Node.namesOk_iff [] t.root).2 h.names
theorem idxLit : Node.All IdxLit t.root := P8.All_idxLit_of_SOk _ h.struct.all
theorem idxOk : Node.All IdxOk t.root := h.treeInv.allIdx
theorem distinct {n : Node} (hn : n ∈ t.root.nodes) : P8.DistinctFirstBytes n :=
  (((All_iff_nodes _).1 _).1 h.s2.all n hn).2.distinct
theorem patternOk : Node.PatternOk t.root := P8.patternOk_of_SOk _ h.struct.all
theorem rootPat : t.root.pattern = [] := h.ti.rootPat

end AllInv

/-- **One predicate gives everything**: `StructInv`, `TreeInv`, `WellFormedTree`, `NamesOkL []`,
`DistinctFirstBytes` at every node, `IdxLit`, and the table refinement `Sim`. -/
theorem ReachAll.everything {t : Tree} (h : ReachAll t) :
    P8.StructInv t ∧ TreeInv t ∧ P9.WellFormedTree t ∧ NamesOkL [] t.root.children ∧
      (∀ n ∈ t.root.nodes, P8.DistinctFirstBytes n) ∧ Node.All IdxLit t.root ∧ ∃ tb, P11.Sim t tb :=
  ⟨h.inv.struct, h.inv.treeInv, h.inv.wf, h.inv.names, fun _ hn => h.inv.distinct hn, h.inv.idxLit, h.sim⟩

end Mux.P14
