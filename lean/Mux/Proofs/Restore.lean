/-
  Mux.Proofs.Restore — the undo of `matchChildren` after the D30 repair (`restoreParam`): association-list facts.

  `restoreParam before after name` gives `name` the value it had in `before` (or deletes it when it had none).  On
  parameters with one entry per key (`keys.Nodup`), undoing the record of ONE child gives back exactly the parameters
  from before the child was tried (`restoreParam_record`) — whatever the child's name is, in particular when it is
  the name of an incoming (matcher) parameter.
-/
import Mux.Proofs.MatchSound
import Mux.Proofs.Params
namespace Mux.P19
open Mux

variable {V : Type}

/-- Lookups after the undo: the restored name has its former value, every other key is untouched. -/
theorem get?_restoreParam (before after : Params) (x k : Bytes) :
    (restoreParam before after x).get? k = if k = x then before.get? x else after.get? k := by
  unfold restoreParam
  cases h : before.get? x with
  | some v =>
    simp only
    rw [AMap.get?_set]
  | none =>
    simp only
    rw [AMap.get?_erase]

/-- Setting a key to the value it already has changes nothing (one entry per key). -/
theorem set_self {m : AMap V} (hnd : m.keys.Nodup) {k : Bytes} {v : V} (h : m.get? k = some v) : m.set k v = m := by
  have hc : m.contains k = true := by rw [AMap.contains_eq_isSome, h]; rfl
  unfold AMap.set
  rw [if_pos hc]
  conv => rhs; rw [← List.map_id m]
  apply List.map_congr_left
  intro e he
  by_cases hk : e.1 = k
  · rw [if_pos hk]
    have hmem : (k, e.2) ∈ m := by rw [← hk]; exact he
    have := (AMap.mem_iff_get? m k e.2 hnd).1 hmem
    rw [h] at this
    cases this
    rw [← hk]; rfl
  · rw [if_neg hk]; rfl

theorem set_of_contains {m : AMap V} {k : Bytes} (v : V) (h : m.contains k = true) :
    m.set k v = m.map (fun e => if e.1 = k then (k, v) else e) := by
  unfold AMap.set; rw [if_pos h]

/-- The second `set` of the same key wins. -/
theorem set_set (m : AMap V) (k : Bytes) (c v : V) : (m.set k c).set k v = m.set k v := by
  by_cases hc : m.contains k = true
  · have hc' : (m.set k c).contains k = true := by
      rw [AMap.contains_eq_isSome, AMap.get?_set]; simp
    rw [set_of_contains v hc', set_of_contains c hc, set_of_contains v hc, List.map_map]
    apply List.map_congr_left
    intro e _
    by_cases hk : e.1 = k <;> simp [hk]
  · have hk : k ∉ m.keys := by
      intro hmem
      exact hc ((AMap.contains_iff_mem_keys m k).2 hmem)
    rw [AMap.set_fresh c hk, AMap.set_fresh v hk]
    have hc' : AMap.contains (m ++ [(k, c)]) k = true := by simp [AMap.contains]
    rw [set_of_contains v hc', List.map_append]
    congr 1
    · conv => rhs; rw [← List.map_id m]
      apply List.map_congr_left
      intro e he
      have : ¬ e.1 = k := fun x => hk (x ▸ List.mem_map_of_mem (f := (·.1)) he)
      rw [if_neg this]; rfl
    · simp

theorem nodup_record (s : Seg) (cap : Bytes) {ps : Params} (hnd : ps.keys.Nodup) : (s.record cap ps).keys.Nodup := by
  unfold Seg.record
  split
  · exact AMap.nodup_keys_set ps _ _ hnd
  · exact hnd

/-- **One child, undone.**  On parameters with one entry per key: recording the capture of a child's segment and then
restoring the child's name gives back the parameters exactly — also when the name was a key before (then the capture
had overwritten its value, and the undo writes the old value back). -/
theorem restoreParam_record (s : Seg) (cap : Bytes) {ps : Params} (hnd : ps.keys.Nodup) :
    restoreParam ps (s.record cap ps) s.name = ps := by
  unfold restoreParam
  cases h : ps.get? s.name with
  | some v =>
    simp only
    unfold Seg.record
    split
    · rw [set_set]; exact set_self hnd h
    · exact set_self hnd h
  | none =>
    simp only
    have hk : s.name ∉ ps.keys := (AMap.get?_eq_none_iff ps s.name).1 h
    unfold Seg.record
    split
    · exact AMap.erase_set_fresh cap hk
    · exact AMap.erase_fresh hk

/-- The parameters a chain of captures leaves: the `set` fold (`Mux.P18.setAll` is this function). -/
def setCaps (ps : Params) (caps : List (Bytes × Bytes)) : Params := caps.foldl (fun a e => a.set e.1 e.2) ps

theorem setCaps_record (s : Seg) (cap : Bytes) (ps : Params) (rest : List (Seg × Bytes)) :
    setCaps (s.record cap ps) (captures rest) = setCaps ps (captures ((s, cap) :: rest)) := by
  rw [captures_cons, captures_single]
  unfold Seg.record setCaps
  split
  · rfl
  · rfl

end Mux.P19
