/-
  Mux.Proofs.StructDistinct — literal siblings start with pairwise distinct bytes
  (`DistinctFirstBytes`, the second half of I-sort in DESIGN §4.4) in every tree built by a history
  whose registered patterns are tidy (every piece of `splitString pattern` is brace-free text or one
  `{token}` followed by brace-free text).

  The invariant `SOk2 = SOk ∧ DOk` (`DOk`: children have tidy texts, literal children have distinct
  first bytes) is preserved by `getNode` when the inserted texts are tidy, and by every other
  operation unconditionally.
-/
import Mux.Proofs.StructCons
import Mux.Proofs.StructTidy
namespace Mux.P8
open Mux

/-! ## The invariant -/

/-- The relation behind `DistinctFirstBytes`. -/
def DRel (a b : Node) : Prop := a.seg.kind = .str → b.seg.kind = .str → a.seg.value.head? ≠ b.seg.value.head?

theorem DRel.symm {a b : Node} (h : DRel a b) : DRel b a := fun hb ha e => h ha hb e.symm

theorem distinct_iff (n : Node) : DistinctFirstBytes n ↔ n.children.Pairwise DRel := Iff.rfl

structure DOk (n : Node) : Prop where
  tidy : ∀ c ∈ n.children, Tidy c.seg.value
  distinct : n.children.Pairwise DRel

def SOk2 (ic : Interceptors) (n : Node) : Prop := SOk ic n ∧ DOk n

theorem pairwise_DRel_iff_map (cs : List Node) :
    cs.Pairwise DRel ↔ (cs.map sigc).Pairwise
      (fun x y => x.1.kind = .str → y.1.kind = .str → x.1.value.head? ≠ y.1.value.head?) := by
  rw [List.pairwise_map]; rfl

theorem tidy_of_map_sublist {cs cs' : List Node} (hs : (cs'.map sigc).Sublist (cs.map sigc))
    (h : ∀ c ∈ cs, Tidy c.seg.value) : ∀ c ∈ cs', Tidy c.seg.value := by
  intro c hc
  have : sigc c ∈ cs.map sigc := hs.subset (List.mem_map_of_mem hc)
  obtain ⟨d, hd, hsd⟩ := List.mem_map.1 this
  have : d.seg = c.seg := congrArg Prod.fst hsd
  rw [← this]; exact h d hd

theorem DOk.of_map_sublist {n m : Node} (h : DOk n) (hs : (m.children.map sigc).Sublist (n.children.map sigc)) :
    DOk m :=
  ⟨tidy_of_map_sublist hs h.tidy, by
    have := h.distinct
    rw [pairwise_DRel_iff_map] at this ⊢
    exact this.sublist hs⟩

theorem SOk2.closed (ic : Interceptors) : Closed (SOk2 ic) where
  congr := fun h hp hi hs => ⟨h.1.congr hp hi hs, h.2.of_map_sublist (by rw [hs]; exact List.Sublist.refl _)⟩
  sublist := fun h hp hs hi => ⟨h.1.of_sublist hp hs hi, h.2.of_map_sublist hs⟩
  empty := fun s p mi hs => ⟨(SOk.closed ic).empty s p mi hs, by intro c hc; simp at hc, by simp⟩

theorem SOk2.all_SOk {ic : Interceptors} : ∀ n : Node, Node.All (SOk2 ic) n → Node.All (SOk ic) n :=
  (AllL_mono (fun _ h => h.1)).1

/-! ## `removeNodes` removes one element with that text -/

theorem removeNodes_spec {cs : List Node} {v : Bytes} {c : Node} (hc : c ∈ cs) (hv : c.seg.value = v) :
    ∃ pre e post, cs = pre ++ e :: post ∧ e.seg.value = v ∧ removeNodes cs v = pre ++ post := by
  induction cs with
  | nil => cases hc
  | cons d ds ih =>
    by_cases hd : d.seg.value = v
    · exact ⟨[], d, ds, rfl, hd, by simp [removeNodes, hd]⟩
    · rcases List.mem_cons.1 hc with rfl | hc
      · exact absurd hv hd
      · obtain ⟨pre, e, post, h1, h2, h3⟩ := ih hc
        exact ⟨d :: pre, e, post, by rw [h1]; rfl, h2, by simp [removeNodes, hd, h3]⟩

/-! ## `getNode` -/

def GP2 (ic : Interceptors) (n : Node) (r : Node × List Nat) : Prop :=
  r.1.seg = n.seg ∧ r.1.pattern = n.pattern ∧ Node.All (SOk2 ic) r.1

structure GB2 (ic : Interceptors) (n n1 parent : Node) (j : Nat) : Prop where
  ok1 : Node.All (SOk2 ic) n1
  seg1 : n1.seg = n.seg
  pat1 : n1.pattern = n.pattern
  pos : ∃ d, n1.children[j]? = some d ∧ sigc d = sigc parent
  okp : Node.All (SOk2 ic) parent

theorem GB2.leaf {ic n n1 parent j} (b : GB2 ic n n1 parent j) : GP2 ic n (n1, [j]) :=
  ⟨b.seg1, b.pat1, b.ok1⟩

theorem GB2.descend {ic n n1 parent j} (b : GB2 ic n n1 parent j) {res : Node × List Nat} (hp : GP2 ic parent res) :
    GP2 ic n (n1.setChildren (n1.children.set j res.1) n1.indexes, j :: res.2) := by
  obtain ⟨hs, hpat, hall⟩ := hp
  obtain ⟨d, hd, hsd⟩ := b.pos
  refine ⟨b.seg1, b.pat1, ?_⟩
  rw [Node.All_iff]
  refine ⟨?_, ?_⟩
  · refine (SOk2.closed ic).congr b.ok1.head rfl rfl ?_
    simp only [Node.setChildren, Node.children_mk]
    refine map_sigc_set hd ?_
    rw [hsd]
    simp only [sigc, hs, hpat]
  · simpa [Node.setChildren] using AllL_set b.ok1.tail hall

theorem SOk2.leaf (ic : Interceptors) (pp : Bytes) (s : Seg) : Node.All (SOk2 ic) (newLeaf pp s) := by
  simp only [newLeaf, Node.All, AllL, and_true]
  exact (SOk2.closed ic).empty _ _ _ _

theorem setSeg_All2 {ic : Interceptors} {c : Node} (s : Seg) (h : Node.All (SOk2 ic) c) : Node.All (SOk2 ic) (c.setSeg s) := by
  rw [Node.All_iff] at h ⊢
  exact ⟨(SOk2.closed ic).congr h.1 rfl rfl rfl, h.2⟩

theorem GB2.ofSort {ic : Interceptors} {n n1 parent : Node} {cs : List Node} {w : Bytes} {j : Nat}
    (hc : ∀ c ∈ cs, ChildOk ic n.pattern c) (ht : ∀ c ∈ cs, Tidy c.seg.value) (hd : cs.Pairwise DRel)
    (hall : AllL (SOk2 ic) cs)
    (hs : sortNode (n.setChildren cs n.indexes) = .ok n1) (hj : childPos n1.children w = some j)
    (hpc : ChildOk ic n.pattern parent) (hpw : parent.seg.value = w) (hp : Node.All (SOk2 ic) parent) :
    GB2 ic n n1 parent j := by
  obtain ⟨hok, hseg, hpat, hch⟩ := SOk.of_sortNode (ic := ic) (m := n.setChildren cs n.indexes)
    (by simpa [Node.setChildren] using hc) hs
  simp only [Node.setChildren, Node.seg_mk, Node.pattern_mk, Node.children_mk] at hseg hpat hch
  obtain ⟨d, hdj, hdv⟩ := childPos_spec hj
  refine ⟨?_, hseg, hpat, ⟨d, hdj, ?_⟩, hp⟩
  · rw [Node.All_iff]
    refine ⟨⟨hok, ?_, ?_⟩, by rw [hch]; exact AllL_sortChildren.2 hall⟩
    · intro c hcm
      rw [hch] at hcm
      exact ht c ((sortChildren_perm cs).mem_iff.1 hcm)
    · rw [hch]
      exact (List.Perm.pairwise_iff (fun h => DRel.symm h) (sortChildren_perm cs)).2 hd
  · have hdc : ChildOk ic n.pattern d := by
      have := hok.child d (List.mem_of_getElem? hdj)
      rwa [hpat] at this
    exact hdc.sig_eq hpc (by rw [hdv, hpw])

/-- What the `.best l i` result of the child scan says about the tidy texts involved (`cv` the text
of the selected child, `v` the new text, `L = l.toNat > 0` the cut position). -/
theorem cut_facts {ic : Interceptors} {c : Node} {seg : Seg} {v : Bytes} {l : Int}
    (hcseg : newSegment ic c.seg.value = .ok c.seg) (hct : Tidy c.seg.value)
    (hseg : newSegment ic v = .ok seg) (hvt : Tidy v)
    (hsim : c.seg.similarity seg = l) (hl : 0 < l) :
    Tidy (c.seg.value.take l.toNat) ∧ NoBrace (c.seg.value.drop l.toNat) ∧ NoBrace (v.drop l.toNat) ∧
      (NoBrace (c.seg.value.take l.toNat) → c.seg.kind = .str) := by
  have hsv : seg.value = v := newSegment_value _ _ _ hseg
  obtain ⟨hk, hlp⟩ := similarity_pos hsim hl
  rw [hsv] at hlp
  by_cases hcl : c.seg.kind = .str
  · have hcn : NoBrace c.seg.value := (hct.lit_iff hcseg).1 hcl
    have hvn : NoBrace v := (hvt.lit_iff hseg).1 (by rw [← hk]; exact hcl)
    exact ⟨.inl (hcn.take _), hcn.drop _, hvn.drop _, fun _ => hcl⟩
  · have hctok : TokForm c.seg.value := by
      rcases hct with h | h
      · exact absurd ((Tidy.lit_iff (.inl h) hcseg).2 h) hcl
      · exact h
    have hvtok : TokForm v := by
      rcases hvt with h | h
      · exact absurd (hk ▸ (Tidy.lit_iff (.inl h) hseg).2 h) hcl
      · exact h
    obtain ⟨ic1, tc, hce, hic1, htc⟩ := hctok
    obtain ⟨iv, tv, hve, hiv, htv⟩ := hvtok
    rw [hce, hve] at hlp
    have hpos : 0 < longestPrefix (startByte :: (iv ++ endByte :: tv)) (startByte :: (ic1 ++ endByte :: tc)) := by
      rw [← hlp]; exact hl
    obtain ⟨e, hge⟩ := longestPrefix_tok hiv hic1 htv htc hpos
    rw [← hlp] at hge
    subst e
    have hL : iv.length + 3 ≤ l.toNat := by omega
    obtain ⟨a1, a2⟩ := TokForm.take hiv htc hL
    obtain ⟨_, b2⟩ := TokForm.take hiv htv hL
    rw [hce, hve]
    exact ⟨.inr a1, a2, b2, fun hn => absurd hn a1.not_noBrace⟩

set_option hygiene false in
/-- The common tail of the "similar child" branch of `getNode` (used twice). -/
local macro "gs2_tail" parent:term : tactic => `(tactic|
  (split at h
   · split at h
     · simp only [pure, Except.pure, Except.ok.injEq] at h
       subst h; exact b.leaf
     · have ih := ih1 $parent
       simp only at ih
       split at h
       · simp at h
       rename_i res hres
       simp only [pure, Except.pure, Except.ok.injEq] at h
       subst h
       exact b.descend (ih res b.okp (hrest _ (by simp)) (hrt _ (by simp)) (fun x hx => hrest x (by simp [hx]))
         (fun x hx => hrt x (by simp [hx])) hres)
   · rename_i hvl
     split at h
     · simp at h
     rename_i res hres
     simp only [pure, Except.pure, Except.ok.injEq] at h
     subst h
     exact b.descend (ih3 l hl $parent hvl res b.okp
       (by intro hnil; have := congrArg List.length hnil; simp at this; omega) (.inl hF.2.2.1) hrest hrt hres)))

theorem getNode_struct2 (ic : Interceptors) (n : Node) (v : Bytes) (rest : List Bytes) :
    ∀ r, Node.All (SOk2 ic) n → v ≠ [] → Tidy v → (∀ x ∈ rest, x ≠ []) → (∀ x ∈ rest, Tidy x) →
      getNode ic n v rest = .ok r → GP2 ic n r := by
  induction n, v, rest using getNode.induct with
  | _ n v rest ih1 ih2 ih3 =>
    intro r hn hv hvt hrest hrt h
    rw [getNode] at h
    simp only [bind, Except.bind] at h
    split at h
    · simp at h
    rename_i seg hseg
    have hsv : seg.value = v := newSegment_value _ _ _ hseg
    split at h
    · -- an identical child exists
      rename_i i _
      split at h
      · simp [throw, throwThe, MonadExceptOf.throw] at h
      rename_i c hc
      have b : GB2 ic n n c i := ⟨hn, rfl, rfl, ⟨c, hc, rfl⟩, AllL_getElem? hn.tail hc⟩
      split at h
      · simp only [pure, Except.pure, Except.ok.injEq] at h
        subst h; exact b.leaf
      · rename_i v' rest'
        have ih := ih1 c
        simp only at ih
        split at h
        · simp at h
        rename_i res hres
        simp only [pure, Except.pure, Except.ok.injEq] at h
        subst h
        exact b.descend (ih res b.okp (hrest _ (by simp)) (hrt _ (by simp)) (fun x hx => hrest x (by simp [hx]))
          (fun x hx => hrt x (by simp [hx])) hres)
    · rename_i l i hscan
      obtain ⟨hl0, hsims, hsel⟩ := scanChildren_best hscan
      split at h
      · -- a new leaf
        rename_i hle
        split at h
        · simp at h
        rename_i n1 hn1
        split at h
        · simp [throw, throwThe, MonadExceptOf.throw] at h
        rename_i j hj
        have hleafC : ChildOk ic n.pattern (newLeaf n.pattern seg) :=
          ⟨rfl, by simp only [newLeaf, Node.seg_mk]; rw [hsv]; exact hv,
            by simp only [newLeaf, Node.seg_mk]; rw [hsv]; exact hseg⟩
        have hleafD : ∀ c ∈ n.children, DRel c (newLeaf n.pattern seg) := by
          intro c hc hck hnk he
          simp only [newLeaf, Node.seg_mk] at hnk he
          have hcC := hn.head.1.child c hc
          have hcn : NoBrace c.seg.value := ((hn.head.2.tidy c hc).lit_iff hcC.2.2).1 hck
          have hvn : NoBrace v := (hvt.lit_iff hseg).1 hnk
          obtain ⟨hs1, hs2⟩ := hsims c hc
          by_cases hvc : seg.value = c.seg.value
          · exact hs2 (similarity_of_eq hvc)
          · rw [similarity_same_kind hvc (by rw [hnk, hck])] at hs1
            rw [hsv] at he hs1
            cases hcv : c.seg.value with
            | nil => exact hcC.2.1 hcv
            | cons x a =>
              cases hvv : v with
              | nil => exact hv hvv
              | cons y b' =>
                rw [hcv, hvv] at he
                simp only [List.head?_cons, Option.some.injEq] at he
                subst he
                rw [hcv] at hcn; rw [hvv] at hvn
                have := longestPrefix_noBrace_pos hvn hcn
                rw [hcv, hvv] at hs1
                omega
        have b : GB2 ic n n1 (newLeaf n.pattern seg) j := by
          refine GB2.ofSort (cs := n.children ++ [newLeaf n.pattern seg]) ?_ ?_ ?_ ?_ hn1 hj hleafC
            (by simp only [newLeaf, Node.seg_mk]; exact hsv) (SOk2.leaf ic _ _)
          · intro c hc
            rcases List.mem_append.1 hc with hc | hc
            · exact hn.head.1.child c hc
            · simp only [List.mem_singleton] at hc; subst hc; exact hleafC
          · intro c hc
            rcases List.mem_append.1 hc with hc | hc
            · exact hn.head.2.tidy c hc
            · simp only [List.mem_singleton] at hc; subst hc
              simp only [newLeaf, Node.seg_mk]; rw [hsv]; exact hvt
          · rw [List.pairwise_append]
            refine ⟨hn.head.2.distinct, by simp, ?_⟩
            intro a ha b' hb'
            simp only [List.mem_singleton] at hb'; subst hb'
            exact hleafD a ha
          · exact AllL_append.2 ⟨hn.tail, by simp only [AllL, and_true]; exact SOk2.leaf ic _ _⟩
        split at h
        · simp only [pure, Except.pure, Except.ok.injEq] at h
          subst h; exact b.leaf
        · rename_i v' rest'
          have ih := ih2 seg
          simp only at ih
          split at h
          · simp at h
          rename_i res hres
          simp only [pure, Except.pure, Except.ok.injEq] at h
          subst h
          exact b.descend (ih res b.okp (hrest _ (by simp)) (hrt _ (by simp)) (fun x hx => hrest x (by simp [hx]))
            (fun x hx => hrt x (by simp [hx])) hres)
      · -- a similar child: split it if necessary, then descend
        rename_i hl
        split at h
        · simp [throw, throwThe, MonadExceptOf.throw] at h
        rename_i c hc
        have hcmem : c ∈ n.children := List.mem_of_getElem? hc
        have hcAll := AllL_getElem? hn.tail hc
        have hcC : ChildOk ic n.pattern c := hn.head.1.child c hcmem
        have hsim : c.seg.similarity seg = l := by
          rcases hsel with ⟨e, _⟩ | ⟨k, c', hk, hi, hs, _⟩
          · omega
          · rw [Nat.zero_add] at hi; subst hi
            rw [hc] at hk; cases hk; exact hs
        have hF := cut_facts hcC.2.2 (hn.head.2.tidy c hcmem) hseg hvt hsim (by omega)
        split at h
        · -- no split needed
          simp only [pure, Except.pure] at h
          have b : GB2 ic n n c i := ⟨hn, rfl, rfl, ⟨c, hc, rfl⟩, hcAll⟩
          gs2_tail c
        · rename_i hlen
          split at h
          · simp at h
          rename_i ss hss
          split at h
          · simp at h
          rename_i ret hret
          split at h
          · simp at h
          rename_i n1 hn1
          split at h
          · simp [throw, throwThe, MonadExceptOf.throw] at h
          rename_i j hj
          simp only [pure, Except.pure] at h
          obtain ⟨s1, s2⟩ := ss
          obtain ⟨hle, hns1, hns2, hv1, hv2⟩ := splitAt_ok hss
          have hlpos : 0 < l.toNat := by omega
          have hv1ne : s1.value ≠ [] := by
            rw [hv1]; intro hnil
            have := congrArg List.length hnil
            rw [List.length_take, List.length_nil] at this; omega
          have hv2ne : s2.value ≠ [] := by
            rw [hv2]; intro hnil
            have := congrArg List.length hnil
            rw [List.length_drop, List.length_nil] at this; omega
          have hcat : c.seg.value = s1.value ++ s2.value := by rw [hv1, hv2, List.take_append_drop]
          have hlower : Node.All (SOk2 ic) (c.setSeg s2) := setSeg_All2 s2 hcAll
          have hlowerC : ChildOk ic (n.pattern ++ s1.value) (c.setSeg s2) := by
            refine ⟨?_, hv2ne, by rw [show (c.setSeg s2).seg = s2 from rfl, hv2]; exact hns2⟩
            show c.pattern = (n.pattern ++ s1.value) ++ s2.value
            rw [hcC.1, hcat, List.append_assoc]
          obtain ⟨hretOk, hretSeg, hretPat, hretCh⟩ := SOk.of_sortNode (ic := ic)
            (m := .mk s1 (n.pattern ++ s1.value) 0 [] [] [c.setSeg s2])
            (by intro x hx; simp only [Node.children_mk, List.mem_singleton] at hx; subst hx; exact hlowerC) hret
          simp only [Node.seg_mk, Node.pattern_mk, Node.children_mk] at hretSeg hretPat hretCh
          have hretD : DOk ret := by
            refine ⟨?_, ?_⟩
            · intro x hx
              rw [hretCh] at hx
              have := (sortChildren_perm _).mem_iff.1 hx
              simp only [List.mem_singleton] at this; subst this
              show Tidy s2.value
              rw [hv2]; exact .inl hF.2.1
            · rw [hretCh]
              exact (List.Perm.pairwise_iff (fun h => DRel.symm h) (sortChildren_perm _)).2 (by simp)
          have hretAll : Node.All (SOk2 ic) ret := by
            rw [Node.All_iff]
            refine ⟨⟨hretOk, hretD⟩, ?_⟩
            rw [hretCh, AllL_sortChildren]
            simp only [AllL, and_true]; exact hlower
          have hretC : ChildOk ic n.pattern ret :=
            ⟨by rw [hretPat, hretSeg], by rw [hretSeg]; exact hv1ne, by rw [hretSeg, hv1]; exact hns1⟩
          have hretT : Tidy ret.seg.value := by rw [hretSeg, hv1]; exact hF.1
          -- literal `ret` means literal `c`, with the same first byte
          have hretRel : ∀ d ∈ removeNodes n.children c.seg.value, DRel d ret := by
            intro d hd hdk hrk
            rw [hretSeg] at hrk
            have hs1n : NoBrace (c.seg.value.take l.toNat) := by
              have := (hF.1.lit_iff hns1).1 hrk
              exact this
            have hck : c.seg.kind = .str := hF.2.2.2 hs1n
            have hhead : ret.seg.value.head? = c.seg.value.head? := by
              rw [hretSeg, hv1]
              cases hcv : c.seg.value with
              | nil => simp
              | cons x a =>
                obtain ⟨k, hk⟩ : ∃ k, l.toNat = k + 1 := ⟨l.toNat - 1, by omega⟩
                rw [hk]; simp
            rw [hhead]
            obtain ⟨pre, e, post, e1, e2, e3⟩ := removeNodes_spec hcmem rfl
            have heC := hn.head.1.child e (by rw [e1]; simp)
            have hes : e.seg = c.seg := by
              have := heC.2.2
              rw [e2, hcC.2.2] at this
              exact (Except.ok.inj this).symm
            have hpw := hn.head.2.distinct
            rw [e1, List.pairwise_append, List.pairwise_cons] at hpw
            rw [e3] at hd
            rcases List.mem_append.1 hd with hd | hd
            · have := hpw.2.2 d hd e List.mem_cons_self hdk (by rw [hes]; exact hck)
              rwa [hes] at this
            · have := hpw.2.1.1 d hd (by rw [hes]; exact hck) hdk
              rw [hes] at this
              exact fun h => this h.symm
          have b : GB2 ic n n1 ret j := by
            refine GB2.ofSort (cs := removeNodes n.children c.seg.value ++ [ret]) ?_ ?_ ?_ ?_ hn1 hj hretC
              (by rw [hretSeg]) hretAll
            · intro x hx
              rcases List.mem_append.1 hx with hx | hx
              · exact hn.head.1.child x ((removeNodes_sublist _ _).subset hx)
              · simp only [List.mem_singleton] at hx; subst hx; exact hretC
            · intro x hx
              rcases List.mem_append.1 hx with hx | hx
              · exact hn.head.2.tidy x ((removeNodes_sublist _ _).subset hx)
              · simp only [List.mem_singleton] at hx; subst hx; exact hretT
            · rw [List.pairwise_append]
              refine ⟨hn.head.2.distinct.sublist (removeNodes_sublist _ _), by simp, ?_⟩
              intro a ha b' hb'
              simp only [List.mem_singleton] at hb'; subst hb'
              exact hretRel a ha
            · exact AllL_append.2 ⟨AllL_removeNodes _ hn.tail, by simp only [AllL, and_true]; exact hretAll⟩
          gs2_tail ret

/-! ## Trees -/

/-- `StructInv` together with tidy texts and distinct first bytes of literal siblings. -/
structure StructInv2 (t : Tree) : Prop where
  all : Node.All (SOk2 t.ic) t.root
  rootPat : t.root.pattern = []

theorem StructInv2.toStructInv {t : Tree} (h : StructInv2 t) : StructInv t := ⟨SOk2.all_SOk _ h.all, h.rootPat⟩

/-- Every piece of the pattern is brace-free text or one `{token}` followed by brace-free text. -/
def TidyPattern (p : Bytes) : Prop := ∀ v ∈ splitString p, Tidy v

/-- The operation registers a tidy pattern (no condition on `remove`, `clean`, `use`). -/
def TidyOp : TOp → Prop
  | .add p _ _ _ => TidyPattern p
  | _ => True

theorem struct2_new (name : Bytes) (ic : Interceptors) (nf : Handler) (tr : Option Handler)
    (ob : Base := .options) (nb : Base := .notAllowed) : StructInv2 (Tree.new name ic nf tr ob nb) := by
  refine ⟨?_, rfl⟩
  simp only [Tree.new, Node.All, AllL, and_true]
  exact (SOk2.closed ic).empty _ _ _ _

theorem StructInv2.of_root {t : Tree} {root' : Node} {counts' : AMap Nat} {hs : AMap Handler} {mi : Nat}
    (ha : Node.All (SOk2 t.ic) root') (hp : root'.pattern = []) :
    StructInv2 { t with counts := counts', root := root'.setHandlers hs mi } :=
  ⟨(All_of_shape (SOk2.closed t.ic) (n' := root'.setHandlers hs mi) ha ⟨rfl, rfl, rfl, rfl⟩).2, hp⟩

theorem struct2_add {t t' : Tree} {p : Bytes} {h : Handler} {ms : List Nat} {methods : List Bytes}
    (hinv : StructInv2 t) (htidy : TidyPattern p) (he : t.add p h ms methods = .ok t') : StructInv2 t' := by
  obtain ⟨v, rest, root1, path, root2, hne, hsp, hget, hmod, rfl⟩ := add_ok' he
  have hpieces := splitString_pieces_nonempty p hne
  unfold TidyPattern at htidy
  rw [hsp] at hpieces htidy
  obtain ⟨_, hp1, ha1⟩ := getNode_struct2 t.ic t.root v rest _ hinv.all (hpieces v (by simp)) (htidy v (by simp))
    (fun x hx => hpieces x (by simp [hx])) (fun x hx => htidy x (by simp [hx])) hget
  simp only at hp1 ha1
  obtain ⟨hs2, ha2⟩ := modifyAt_SOk (SOk2.closed t.ic) _ (addMethodsNode_shape t h p ms (effMethods methods)) path root1 root2 ha1 hmod
  have hp2 : root2.pattern = [] := by
    have := congrArg Prod.snd hs2
    simp only [sigc] at this
    rw [this, hp1, hinv.rootPat]
  exact StructInv2.of_root (t := t) ha2 hp2

theorem struct2_remove {t t' : Tree} {p : Bytes} {methods : List Bytes}
    (hinv : StructInv2 t) (he : t.remove p methods = .ok t') : StructInv2 t' := by
  rcases Tree.remove_ok he with rfl | ⟨path, root1, _, hrem, rfl⟩
  · exact hinv
  · obtain ⟨hs, ha⟩ := removeAt_SOk (SOk2.closed t.ic) _ (removeMethods_shape t.hasTrace methods) path t.root root1 hinv.all hrem
    have hp : root1.pattern = [] := by
      have := congrArg Prod.snd hs
      simp only [sigc] at this
      rw [this, hinv.rootPat]
    exact StructInv2.of_root (t := t) ha hp

theorem struct2_clean {t t' : Tree} {pre : Bytes} (hinv : StructInv2 t) (he : t.clean pre = .ok t') : StructInv2 t' := by
  obtain ⟨root1, hclean, rfl⟩ := Tree.clean_ok he
  obtain ⟨hs, ha⟩ := clean_SOk (SOk2.closed t.ic) t.root pre root1 hinv.all hclean
  have hp : root1.pattern = [] := by
    have := congrArg Prod.snd hs
    simp only [sigc] at this
    rw [this, hinv.rootPat]
  exact StructInv2.of_root (t := t) ha hp

theorem struct2_use {t : Tree} (ms : List Nat) (hinv : StructInv2 t) : StructInv2 (t.applyMiddleware ms) := by
  obtain ⟨hs, ha⟩ := applyMw_SOk (SOk2.closed t.ic) t.name ms t.root hinv.all
  refine ⟨ha, ?_⟩
  have := congrArg Prod.snd hs
  simp only [sigc] at this
  show (t.root.applyMw t.name ms).pattern = []
  rw [this, hinv.rootPat]

theorem struct2_step {t : Tree} (hinv : StructInv2 t) (op : TOp) (hop : TidyOp op) : StructInv2 (t.step op) := by
  cases op with
  | add p h ms methods =>
    simp only [Tree.step]
    split
    · rename_i t' he; exact struct2_add hinv hop he
    · exact hinv
  | remove p methods =>
    simp only [Tree.step]
    split
    · rename_i t' he; exact struct2_remove hinv he
    · exact hinv
  | clean pre =>
    simp only [Tree.step]
    split
    · rename_i t' he; exact struct2_clean hinv he
    · exact hinv
  | use ms => exact struct2_use ms hinv

theorem struct2_run {t : Tree} (hinv : StructInv2 t) (ops : List TOp) (hops : ∀ op ∈ ops, TidyOp op) :
    StructInv2 (t.run ops) := by
  unfold Tree.run
  induction ops generalizing t with
  | nil => exact hinv
  | cons op ops ih =>
    exact ih (struct2_step hinv op (hops op List.mem_cons_self)) (fun o ho => hops o (List.mem_cons_of_mem _ ho))

/-- A tree produced from a fresh one by a history that registers tidy patterns only. -/
def ReachTidy (t : Tree) : Prop :=
  ∃ name ic nf tr ob nb ops, (∀ op ∈ ops, TidyOp op) ∧ t = (Tree.new name ic nf tr ob nb).run ops

theorem ReachTidy.reach {t : Tree} (h : ReachTidy t) : t.Reach := by
  obtain ⟨name, ic, nf, tr, ob, nb, ops, _, rfl⟩ := h
  exact ⟨name, ic, nf, tr, ob, nb, ops, rfl⟩

theorem struct2_reach {t : Tree} (h : ReachTidy t) : StructInv2 t := by
  obtain ⟨name, ic, nf, tr, ob, nb, ops, hops, rfl⟩ := h
  exact struct2_run (struct2_new name ic nf tr ob nb) ops hops

/-- **Literal siblings start with distinct bytes** in every node of a tree reached by a tidy
history. -/
theorem distinct_of_reachTidy {t : Tree} (h : ReachTidy t) {n : Node} (hn : n ∈ t.root.nodes) :
    DistinctFirstBytes n :=
  (((All_iff_nodes _).1 _).1 (struct2_reach h).all n hn).2.distinct

end Mux.P8
