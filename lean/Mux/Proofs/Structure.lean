/-
  Mux.Proofs.Structure — the structural invariant `StructInv` of a tree (DESIGN §4.4: I-sort,
  I-index, the pattern and segment part of I-seg) is preserved by every operation of a history,
  hence holds of every reachable tree; consequences: `PatternOk`, `IdxLit`, sortedness by kind,
  `IndexOk` (under `DistinctFirstBytes`).
-/
import Mux.Proofs.StructGetNode
namespace Mux.P8
open Mux

/-- The closure properties of a node predicate that only looks at `pattern`, `indexes` and the
`(seg, pattern)` of the children, and survives the deletion of children once the index is rebuilt. -/
structure Closed (P : Node → Prop) : Prop where
  congr : ∀ {n m : Node}, P n → m.pattern = n.pattern → m.indexes = n.indexes →
    m.children.map sigc = n.children.map sigc → P m
  sublist : ∀ {n m : Node}, P n → m.pattern = n.pattern →
    (m.children.map sigc).Sublist (n.children.map sigc) → buildIndexes m.children = .ok m.indexes → P m
  empty : ∀ (s : Seg) (p : Bytes) (mi : Nat) (hs : AMap Handler), P (.mk s p mi hs [] [])

theorem SOk.closed (ic : Interceptors) : Closed (SOk ic) where
  congr := fun h hp hi hs => h.congr hp hi hs
  sublist := fun h hp hs hi => h.of_sublist hp hs hi
  empty := fun _ _ _ _ => ⟨by intro c hc; simp at hc, by simp [RankSorted], by simp [buildIndexes, indexesSize]⟩

variable {P : Node → Prop}

/-! ## modifyAt -/

/-- `f` changes neither the segment, the pattern, the index nor the children. -/
def KeepsShapeE (f : Node → Except Err Node) : Prop :=
  ∀ m m', f m = .ok m' → m'.seg = m.seg ∧ m'.pattern = m.pattern ∧ m'.indexes = m.indexes ∧ m'.children = m.children

def KeepsShape (f : Node → Node) : Prop :=
  ∀ m, (f m).seg = m.seg ∧ (f m).pattern = m.pattern ∧ (f m).indexes = m.indexes ∧ (f m).children = m.children

theorem All_of_shape (hP : Closed P) {n n' : Node} (hn : Node.All P n)
    (h : n'.seg = n.seg ∧ n'.pattern = n.pattern ∧ n'.indexes = n.indexes ∧ n'.children = n.children) :
    sigc n' = sigc n ∧ Node.All P n' := by
  obtain ⟨h1, h2, h3, h4⟩ := h
  refine ⟨by simp [sigc, h1, h2], ?_⟩
  rw [Node.All_iff] at hn ⊢
  exact ⟨hP.congr hn.1 h2 h3 (by rw [h4]), by rw [h4]; exact hn.2⟩

theorem modifyAtL_SOk (f : Node → Except Err Node) (path : List Nat)
    (ih : ∀ n n', Node.All P n → n.modifyAt f path = .ok n' → sigc n' = sigc n ∧ Node.All P n') :
    ∀ cs i cs', AllL P cs → modifyAtL f cs i path = .ok cs' →
      cs'.map sigc = cs.map sigc ∧ AllL P cs' := by
  intro cs
  induction cs with
  | nil => intro i cs' _ h; simp [modifyAtL] at h
  | cons c cs ihc =>
    intro i cs' hall h
    cases i with
    | zero =>
      simp only [modifyAtL, bind, Except.bind, pure, Except.pure] at h
      split at h
      · simp at h
      rename_i c' hc'
      simp only [Except.ok.injEq] at h
      subst h
      obtain ⟨h1, h2⟩ := ih c c' hall.1 hc'
      exact ⟨by simp [h1], ⟨h2, hall.2⟩⟩
    | succ i =>
      simp only [modifyAtL, bind, Except.bind, pure, Except.pure] at h
      split at h
      · simp at h
      rename_i cs1 hcs1
      simp only [Except.ok.injEq] at h
      subst h
      obtain ⟨h1, h2⟩ := ihc i cs1 hall.2 hcs1
      exact ⟨by simp [h1], ⟨hall.1, h2⟩⟩

theorem modifyAt_SOk (hP : Closed P) (f : Node → Except Err Node) (hf : KeepsShapeE f) :
    ∀ (path : List Nat) (n n' : Node), Node.All P n → n.modifyAt f path = .ok n' →
      sigc n' = sigc n ∧ Node.All P n' := by
  intro path
  induction path with
  | nil =>
    intro n n' hn h
    cases n
    simp only [Node.modifyAt] at h
    exact All_of_shape hP hn (hf _ _ h)
  | cons i path ih =>
    intro n n' hn h
    cases n with
    | mk s p mi hs idx cs =>
      simp only [Node.modifyAt, bind, Except.bind, pure, Except.pure] at h
      split at h
      · simp at h
      rename_i cs' hcs'
      simp only [Except.ok.injEq] at h
      subst h
      obtain ⟨h1, h2⟩ := modifyAtL_SOk f path ih cs i cs' hn.2 hcs'
      refine ⟨rfl, ?_⟩
      exact ⟨hP.congr hn.1 rfl rfl h1, h2⟩

/-! ## removeAt -/

theorem removeAtL_SOk (f : Node → Node) (path : List Nat)
    (ih : ∀ n n', Node.All P n → n.removeAt f path = .ok n' → sigc n' = sigc n ∧ Node.All P n') :
    ∀ cs i cs' d, AllL P cs → removeAtL f cs i path = .ok (cs', d) →
      (cs'.map sigc).Sublist (cs.map sigc) ∧ (d = false → cs'.map sigc = cs.map sigc) ∧ AllL P cs' := by
  intro cs
  induction cs with
  | nil => intro i cs' d _ h; simp [removeAtL] at h
  | cons c cs ihc =>
    intro i cs' d hall h
    cases i with
    | zero =>
      simp only [removeAtL, bind, Except.bind, pure, Except.pure] at h
      split at h
      · simp at h
      rename_i c' hc'
      split at h
      · simp only [Except.ok.injEq, Prod.mk.injEq] at h
        obtain ⟨rfl, rfl⟩ := h
        exact ⟨by simp, by simp, hall.2⟩
      · simp only [Except.ok.injEq, Prod.mk.injEq] at h
        obtain ⟨rfl, rfl⟩ := h
        obtain ⟨h1, h2⟩ := ih c c' hall.1 hc'
        exact ⟨by simp [h1], fun _ => by simp [h1], ⟨h2, hall.2⟩⟩
    | succ i =>
      simp only [removeAtL, bind, Except.bind, pure, Except.pure] at h
      split at h
      · simp at h
      rename_i r hr
      simp only [Except.ok.injEq, Prod.mk.injEq] at h
      obtain ⟨rfl, rfl⟩ := h
      obtain ⟨h1, h2, h3⟩ := ihc i r.1 r.2 hall.2 hr
      exact ⟨by simpa using h1.cons_cons (sigc c), fun hd => by simp [h2 hd], ⟨hall.1, h3⟩⟩

theorem removeAt_SOk (hP : Closed P) (f : Node → Node) (hf : KeepsShape f) :
    ∀ (path : List Nat) (n n' : Node), Node.All P n → n.removeAt f path = .ok n' →
      sigc n' = sigc n ∧ Node.All P n' := by
  intro path
  induction path with
  | nil =>
    intro n n' hn h
    cases n
    simp only [Node.removeAt, Except.ok.injEq] at h
    subst h
    exact All_of_shape hP hn (hf _)
  | cons i path ih =>
    intro n n' hn h
    cases n with
    | mk s p mi hs idx cs =>
      simp only [Node.removeAt, bind, Except.bind, pure, Except.pure] at h
      split at h
      · simp at h
      rename_i r hr
      obtain ⟨h1, h2, h3⟩ := removeAtL_SOk f path ih cs i r.1 r.2 hn.2 hr
      split at h
      · split at h
        · simp at h
        rename_i idx' hidx'
        simp only [Except.ok.injEq] at h
        subst h
        exact ⟨rfl, hP.sublist hn.1 rfl h1 hidx', h3⟩
      · rename_i hd
        simp only [Except.ok.injEq] at h
        subst h
        have hd' : r.2 = false := by simpa using hd
        exact ⟨rfl, hP.congr hn.1 rfl rfl (h2 hd'), h3⟩

/-! ## clean -/

theorem clean_SOk (hP : Closed P) : ∀ (n : Node) (pre : Bytes) (n' : Node), Node.All P n → n.clean pre = .ok n' →
    sigc n' = sigc n ∧ Node.All P n' := by
  intro n
  induction n using Node.rec (motive_2 := fun cs => ∀ pre cs', AllL P cs →
      cleanL cs pre = .ok cs' → cs'.map sigc = cs.map sigc ∧ AllL P cs') with
  | mk s p mi hs idx cs ih =>
    intro pre n' hn h
    simp only [Node.clean] at h
    split at h
    · simp only [Except.ok.injEq] at h
      subst h
      refine ⟨rfl, ?_⟩
      simp only [Node.All, AllL, and_true]
      exact hP.empty _ _ _ _
    · simp only [bind, Except.bind, pure, Except.pure] at h
      split at h
      · simp at h
      rename_i cs1 hcs1
      split at h
      · simp at h
      rename_i idx' hidx'
      simp only [Except.ok.injEq] at h
      subst h
      obtain ⟨h1, h2⟩ := ih pre cs1 hn.2 hcs1
      refine ⟨rfl, ?_, AllL_foldl_removeNodes _ h2⟩
      refine hP.sublist hn.1 rfl ?_ hidx'
      simp only [Node.children_mk]
      rw [← h1]
      exact (foldl_removeNodes_sublist _ cs1).map sigc
  | nil =>
    rename_i pre cs' _ h
    simp only [cleanL, Except.ok.injEq] at h
    subst h; exact ⟨rfl, trivial⟩
  | cons c cs ih1 ih2 =>
    rename_i pre cs' hall h
    simp only [cleanL, bind, Except.bind, pure, Except.pure] at h
    by_cases hcond : c.seg.value.length < pre.length ∧ hasPrefix pre c.seg.value = true
    · simp only [hcond, and_self, if_true] at h
      split at h
      · simp at h
      rename_i c' hc'
      split at h
      · simp at h
      rename_i cs1 hcs1
      simp only [Except.ok.injEq] at h
      subst h
      obtain ⟨a1, a2⟩ := ih1 _ c' hall.1 hc'
      obtain ⟨b1, b2⟩ := ih2 pre cs1 hall.2 hcs1
      exact ⟨by simp [a1, b1], ⟨a2, b2⟩⟩
    · simp only [hcond, if_false] at h
      split at h
      · simp at h
      rename_i cs1 hcs1
      simp only [Except.ok.injEq] at h
      subst h
      obtain ⟨b1, b2⟩ := ih2 pre cs1 hall.2 hcs1
      exact ⟨by simp [b1], ⟨hall.1, b2⟩⟩

/-! ## applyMw -/

theorem applyMw_SOk (hP : Closed P) (router : Bytes) (ms : List Nat) :
    ∀ n : Node, Node.All P n → sigc (n.applyMw router ms) = sigc n ∧ Node.All P (n.applyMw router ms) := by
  intro n
  induction n using Node.rec (motive_2 := fun cs => AllL P cs →
      (applyMwL router ms cs).map sigc = cs.map sigc ∧ AllL P (applyMwL router ms cs)) with
  | mk s p mi hs idx cs ih =>
    intro h
    obtain ⟨h1, h2⟩ := ih h.2
    refine ⟨rfl, ?_⟩
    simp only [Node.applyMw, Node.All]
    exact ⟨hP.congr h.1 rfl rfl h1, h2⟩
  | nil => simp [applyMwL, AllL]
  | cons c cs ih1 ih2 =>
    rename_i h
    obtain ⟨a1, a2⟩ := ih1 h.1
    obtain ⟨b1, b2⟩ := ih2 h.2
    simp only [applyMwL, AllL, List.map_cons]
    exact ⟨by rw [a1, b1], a2, b2⟩

/-! ## The invariant of a tree -/

variable {ic : Interceptors}


/-- The structural invariant of a tree: every node satisfies `SOk` (for the tree's interceptor
table) and the root's pattern is empty. -/
structure StructInv (t : Tree) : Prop where
  all : Node.All (SOk t.ic) t.root
  rootPat : t.root.pattern = []

theorem struct_new (name : Bytes) (ic : Interceptors) (nf : Handler) (tr : Option Handler)
    (ob : Base := .options) (nb : Base := .notAllowed) : StructInv (Tree.new name ic nf tr ob nb) := by
  refine ⟨?_, rfl⟩
  simp only [Tree.new, Node.All, AllL, and_true]
  exact ⟨by intro c hc; simp at hc, by simp [RankSorted], by simp [buildIndexes, indexesSize]⟩

theorem setHandlers_SOk {n : Node} (hs : AMap Handler) (mi : Nat) (h : Node.All (SOk ic) n) :
    Node.All (SOk ic) (n.setHandlers hs mi) :=
  (All_of_shape (SOk.closed ic) (n' := n.setHandlers hs mi) h ⟨rfl, rfl, rfl, rfl⟩).2

theorem StructInv.of_root {t : Tree} {root' : Node} {counts' : AMap Nat} {hs : AMap Handler} {mi : Nat}
    (ha : Node.All (SOk t.ic) root') (hp : root'.pattern = []) :
    StructInv { t with counts := counts', root := root'.setHandlers hs mi } :=
  ⟨setHandlers_SOk hs mi ha, hp⟩

/-- `Tree.add_ok` with the fact that the pattern is not empty. -/
theorem add_ok' {t t' : Tree} {p : Bytes} {h : Handler} {ms : List Nat} {methods : List Bytes}
    (he : t.add p h ms methods = .ok t') :
    ∃ v rest root1 path root2,
      p ≠ [] ∧ splitString p = v :: rest ∧
      getNode t.ic t.root v rest = .ok (root1, path) ∧
      root1.modifyAt (t.addMethodsNode h p ms (effMethods methods)) path = .ok root2 ∧
      t' = ({ t with root := root2 }).bumpMethods (effMethods methods) := by
  obtain ⟨v, rest, root1, path, root2, _, h2, h3, h4, h5⟩ := Tree.add_ok he
  refine ⟨v, rest, root1, path, root2, ?_, h2, h3, h4, h5⟩
  rintro rfl
  unfold Tree.add at he
  simp only [bind, Except.bind, pure, Except.pure, split] at he
  split at he
  · simp at he
  split at he
  · simp [throw, throwThe, MonadExceptOf.throw] at he
  · simp at he

theorem addMethodsNode_shape (t : Tree) (h : Handler) (p : Bytes) (ms : List Nat) (methods : List Bytes) :
    KeepsShapeE (t.addMethodsNode h p ms methods) := by
  intro m m' hm
  unfold Tree.addMethodsNode at hm
  simp only [bind, Except.bind, pure, Except.pure] at hm
  split at hm
  · simp at hm
  simp only [Except.ok.injEq] at hm
  subst hm
  exact ⟨rfl, rfl, rfl, rfl⟩

theorem removeMethods_shape (ht : Bool) (methods : List Bytes) : KeepsShape (removeMethods ht methods) :=
  fun _ => ⟨rfl, rfl, rfl, rfl⟩

theorem struct_add {t t' : Tree} {p : Bytes} {h : Handler} {ms : List Nat} {methods : List Bytes}
    (hinv : StructInv t) (he : t.add p h ms methods = .ok t') : StructInv t' := by
  obtain ⟨v, rest, root1, path, root2, hne, hsp, hget, hmod, rfl⟩ := add_ok' he
  have hpieces := splitString_pieces_nonempty p hne
  rw [hsp] at hpieces
  obtain ⟨_, hp1, ha1⟩ := getNode_SOk hinv.all (hpieces v (by simp)) (fun x hx => hpieces x (by simp [hx])) hget
  obtain ⟨hs2, ha2⟩ := modifyAt_SOk (SOk.closed t.ic) _ (addMethodsNode_shape t h p ms (effMethods methods)) path root1 root2 ha1 hmod
  have hp2 : root2.pattern = [] := by
    have := congrArg Prod.snd hs2
    simp only [sigc] at this
    rw [this, hp1, hinv.rootPat]
  exact StructInv.of_root (t := t) ha2 hp2

theorem struct_remove {t t' : Tree} {p : Bytes} {methods : List Bytes}
    (hinv : StructInv t) (he : t.remove p methods = .ok t') : StructInv t' := by
  rcases Tree.remove_ok he with rfl | ⟨path, root1, _, hrem, rfl⟩
  · exact hinv
  · obtain ⟨hs, ha⟩ := removeAt_SOk (SOk.closed t.ic) _ (removeMethods_shape t.hasTrace methods) path t.root root1 hinv.all hrem
    have hp : root1.pattern = [] := by
      have := congrArg Prod.snd hs
      simp only [sigc] at this
      rw [this, hinv.rootPat]
    exact StructInv.of_root (t := t) ha hp

theorem struct_clean {t t' : Tree} {pre : Bytes} (hinv : StructInv t) (he : t.clean pre = .ok t') : StructInv t' := by
  obtain ⟨root1, hclean, rfl⟩ := Tree.clean_ok he
  obtain ⟨hs, ha⟩ := clean_SOk (SOk.closed t.ic) t.root pre root1 hinv.all hclean
  have hp : root1.pattern = [] := by
    have := congrArg Prod.snd hs
    simp only [sigc] at this
    rw [this, hinv.rootPat]
  exact StructInv.of_root (t := t) ha hp

theorem struct_use {t : Tree} (ms : List Nat) (hinv : StructInv t) : StructInv (t.applyMiddleware ms) := by
  obtain ⟨hs, ha⟩ := applyMw_SOk (SOk.closed t.ic) t.name ms t.root hinv.all
  refine ⟨ha, ?_⟩
  have := congrArg Prod.snd hs
  simp only [sigc] at this
  show (t.root.applyMw t.name ms).pattern = []
  rw [this, hinv.rootPat]

/-- Every operation of a history preserves the structural invariant. -/
theorem struct_step {t : Tree} (hinv : StructInv t) (op : TOp) : StructInv (t.step op) := by
  cases op with
  | add p h ms methods =>
    simp only [Tree.step]
    split
    · rename_i t' he; exact struct_add hinv he
    · exact hinv
  | remove p methods =>
    simp only [Tree.step]
    split
    · rename_i t' he; exact struct_remove hinv he
    · exact hinv
  | clean pre =>
    simp only [Tree.step]
    split
    · rename_i t' he; exact struct_clean hinv he
    · exact hinv
  | use ms => exact struct_use ms hinv

theorem struct_run {t : Tree} (hinv : StructInv t) (ops : List TOp) : StructInv (t.run ops) := by
  unfold Tree.run
  induction ops generalizing t with
  | nil => exact hinv
  | cons op ops ih => exact ih (struct_step hinv op)

/-- Every reachable tree satisfies the structural invariant. -/
theorem struct_reach {t : Tree} (h : t.Reach) : StructInv t := by
  obtain ⟨name, ic, nf, tr, ob, nb, ops, rfl⟩ := h
  exact struct_run (struct_new name ic nf tr ob nb) ops

end Mux.P8
