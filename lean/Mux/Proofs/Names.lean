/-
  Mux.Proofs.Names — I-seg, names part: on every tree reachable by a history whose registered
  patterns are well-formed, parameter names (the `-` ones included) are pairwise distinct along every
  root-to-node chain, literal segments carry the empty name and capturing segments a non-empty one.
  Hence the hypothesis `NamesOkL [] root.children` of the matcher-soundness theorems (C01) holds.
-/
import Mux.Proofs.WfOps
import Mux.Proofs.MatchSound
namespace Mux.P9
open Mux

/-! ## From the structural invariant to `NamesStrict` and `SegNameWf` -/

theorem Node.Wf.nameWf {ic : Interceptors} {used : List Bytes} {n : Node} (h : Node.Wf ic used n) : SegNameWf n :=
  h.segOk.nameWf

mutual
theorem namesStrict_of_wf (ic : Interceptors) : (n : Node) → (used : List Bytes) →
    WfL ic used n.children → Node.NamesStrict used n ∧ AllL SegNameWf n.children
  | .mk _ _ _ _ _ cs, used, h => by
    unfold Node.NamesStrict
    exact namesStrictL_of_wf ic cs used h
theorem namesStrictL_of_wf (ic : Interceptors) : (cs : List Node) → (used : List Bytes) →
    WfL ic used cs → NamesStrictL used cs ∧ AllL SegNameWf cs
  | [], _, _ => by unfold NamesStrictL AllL; exact ⟨trivial, trivial⟩
  | c :: cs, used, h => by
    unfold WfL at h
    obtain ⟨hc, _, hcs⟩ := h
    have hcw := (Node.wf_iff ic used c).1 hc
    have ih1 := namesStrict_of_wf ic c (usedBelow used c.seg) hcw.2.2.2
    have ih2 := namesStrictL_of_wf ic cs used hcs
    unfold NamesStrictL AllL
    refine ⟨⟨hcw.2.1, ih1.1, ih2.1⟩, ?_, ih2.2⟩
    rw [Node.All_iff]
    exact ⟨hc.nameWf, ih1.2⟩
end

/-- On a well-formed tree the matcher's name hypothesis holds. -/
theorem namesOk_of_wf {t : Tree} (h : WellFormedTree t) : NamesOkL [] t.root.children := by
  obtain ⟨h1, h2⟩ := namesStrictL_of_wf t.ic t.root.children [] h
  exact NamesOkL_of_strict _ [] [] h1 h2 (fun _ hk => hk) (by simp)

theorem namesStrict_of_wfTree {t : Tree} (h : WellFormedTree t) :
    NamesStrictL [] t.root.children ∧ AllL SegNameWf t.root.children :=
  namesStrictL_of_wf t.ic t.root.children [] h

/-! ## The chain form -/



/-- The parameter names along a chain of segments (literal segments contribute nothing; `-` ones
are included). -/
def chainNames (segs : List Seg) : List Bytes := (segs.filter (fun s => decide (s.kind ≠ .str))).map (·.name)

theorem NamesStrictL_mem {used : List Bytes} {cs : List Node} (h : NamesStrictL used cs) {c : Node} (hc : c ∈ cs) :
    (c.seg.kind = .str ∨ c.seg.name ∉ used) ∧
      Node.NamesStrict (if c.seg.kind = .str then used else c.seg.name :: used) c := by
  induction cs with
  | nil => cases hc
  | cons d cs ih =>
    unfold NamesStrictL at h
    rcases List.mem_cons.1 hc with rfl | hc
    · exact ⟨h.1, h.2.1⟩
    · exact ih h.2.2 hc

theorem Node.namesStrict_iff (used : List Bytes) (n : Node) : Node.NamesStrict used n ↔ NamesStrictL used n.children := by
  cases n; simp [Node.NamesStrict]

/-- Along every chain below a node satisfying `NamesStrict`, parameter names are pairwise distinct
and differ from the names in use above. -/
theorem chainNames_nodup {n m : Node} {segs : List Seg} (hc : Chain n segs m) :
    ∀ used, Node.NamesStrict used n → (chainNames segs).Nodup ∧ ∀ k ∈ chainNames segs, k ∉ used := by
  induction hc with
  | nil n => intro used _; simp [chainNames]
  | @cons n c m segs hmem _ ih =>
    intro used hn
    obtain ⟨h1, h2⟩ := NamesStrictL_mem ((Node.namesStrict_iff used n).1 hn) hmem
    have := ih _ h2
    by_cases hk : c.seg.kind = .str
    · simp only [hk, if_true] at this
      simpa [chainNames, hk] using this
    · simp only [hk, if_false] at this
      have hfresh : c.seg.name ∉ used := h1.resolve_left hk
      have e : chainNames (c.seg :: segs) = c.seg.name :: chainNames segs := by
        simp [chainNames, hk]
      rw [e]
      refine ⟨List.nodup_cons.2 ⟨fun hm => this.2 _ hm (by simp), this.1⟩, ?_⟩
      intro k hk'
      rcases List.mem_cons.1 hk' with rfl | hk'
      · exact hfresh
      · exact fun hu => this.2 k hk' (by simp [hu])

/-- **I-seg (names).** On a reachable tree (well-formed patterns): along every root-to-node chain the
parameter names are pairwise distinct. -/
theorem reach_chainNames {t : Tree} (h : ReachWf t) {m : Node} {segs : List Seg} (hc : Chain t.root segs m) :
    (chainNames segs).Nodup :=
  (chainNames_nodup hc [] ((Node.namesStrict_iff [] t.root).2 (namesStrict_of_wfTree h.wf).1)).1

/-- **I-seg (names), matcher form.** -/
theorem reach_namesOk {t : Tree} (h : ReachWf t) : NamesOkL [] t.root.children := namesOk_of_wf h.wf

/-- **I-seg (segments).** On a reachable tree every node below the root carries the segment that
`NewSegment` makes of its own (well-formed, non-empty) text. -/
theorem wfL_all_segOk {ic : Interceptors} : ∀ (n : Node) (used : List Bytes), WfL ic used n.children →
    AllL (fun c => SegOk ic c.seg) n.children := by
  intro n
  induction n using Node.rec (motive_2 := fun cs => ∀ used, WfL ic used cs → AllL (fun c => SegOk ic c.seg) cs) with
  | mk s p mi hs idx cs ih => intro used h; exact ih used h
  | nil => trivial
  | cons c cs ih1 ih2 =>
    rename_i used h
    unfold WfL at h
    obtain ⟨hc, _, hcs⟩ := h
    have hcw := (Node.wf_iff ic used c).1 hc
    unfold AllL
    refine ⟨?_, ih2 used hcs⟩
    rw [Node.All_iff]
    exact ⟨hcw.1, ih1 _ hcw.2.2.2⟩

theorem reach_segOk {t : Tree} (h : ReachWf t) : AllL (fun c => SegOk t.ic c.seg) t.root.children :=
  wfL_all_segOk t.root [] h.wf


/-! ## `Split` yields pairwise distinct parameter names -/

theorem splitLoop_names {ic : Interceptors} : ∀ {ps : List Bytes} {flag : Bool} {names : List Bytes} {segs : List Seg},
    splitLoop ic ps flag names = .ok segs →
      (chainNames segs).Nodup ∧ ∀ k ∈ chainNames segs, k ∉ names := by
  intro ps
  induction ps with
  | nil => intro _ _ segs h; simp [splitLoop] at h; subst h; simp [chainNames]
  | cons p ps ih =>
    intro flag names segs h
    obtain ⟨_, _, seg, segs', _, hfresh, hrest, rfl⟩ := splitLoop_cons_inv h
    have := ih hrest
    by_cases hk : seg.kind = .str
    · simp only [usedBelow, hk, if_true] at this
      simpa [chainNames, hk] using this
    · simp only [usedBelow, hk, if_false] at this
      have e : chainNames (seg :: segs') = seg.name :: chainNames segs' := by simp [chainNames, hk]
      rw [e]
      refine ⟨List.nodup_cons.2 ⟨fun hm => this.2 _ hm (by simp), this.1⟩, ?_⟩
      intro k hk'
      rcases List.mem_cons.1 hk' with rfl | hk'
      · exact hfresh.resolve_left hk
      · exact fun hu => this.2 k hk' (by simp [hu])

/-- The parameter names of an accepted pattern are pairwise distinct (the `names` accumulator of
`Split`). -/
theorem split_names_nodup {ic : Interceptors} {p : Bytes} {segs : List Seg} (h : split ic p = .ok segs) :
    (chainNames segs).Nodup := by
  unfold split at h
  split at h
  · cases h
  · exact (splitLoop_names h).1

end Mux.P9
