/-
  Mux.Proofs.GetNodeFuel — a fuel-indexed (structurally recursive) copy of `getNode`, equal to it.

  `getNode` is defined by well-founded recursion, which neither `decide` nor the kernel can unfold.
  `getNode_eq_fuel` replaces it by `getNodeF` (structural in the fuel), after which concrete
  histories can be evaluated by `decide +kernel` (used for the non-vacuity examples of C09/C19).
-/
import Mux.Spec.Defs
namespace Mux.P10
open Mux

/-- The body of `getNode` with the recursive calls abstracted. -/
def getNodeBody (ic : Interceptors) (recf : Node → Bytes → List Bytes → Except Err (Node × List Nat))
    (n : Node) (v : Bytes) (rest : List Bytes) : Except Err (Node × List Nat) := do
  let seg ← newSegment ic v
  match scanChildren seg n.children 0 0 0 with
  | .identical i =>
    match n.children[i]? with
    | none => throw (.fault 230)
    | some c =>
      match rest with
      | [] => return (n, [i])
      | v' :: rest' =>
        let (c', p) ← recf c v' rest'
        return (n.setChildren (n.children.set i c') n.indexes, i :: p)
  | .best l i =>
    if l ≤ 0 then
      let nn := newLeaf n.pattern seg
      let n1 ← sortNode (n.setChildren (n.children ++ [nn]) n.indexes)
      match childPos n1.children v with
      | none => throw (.fault 231)
      | some j =>
        match rest with
        | [] => return (n1, [j])
        | v' :: rest' =>
          let (nn', p) ← recf nn v' rest'
          return (n1.setChildren (n1.children.set j nn') n1.indexes, j :: p)
    else
      let l := l.toNat
      match n.children[i]? with
      | none => throw (.fault 232)
      | some c =>
        let (n1, j, parent) ←
          if c.seg.value.length ≤ l then pure (n, i, c)
          else do
            let cs0 := removeNodes n.children c.seg.value
            let (s1, s2) ← c.seg.splitAt ic l
            let lower := c.setSeg s2
            let ret : Node := .mk s1 (n.pattern ++ s1.value) 0 [] [] [lower]
            let ret ← sortNode ret
            let n1 ← sortNode (n.setChildren (cs0 ++ [ret]) n.indexes)
            match childPos n1.children s1.value with
            | none => throw (.fault 233)
            | some j => pure (n1, j, ret)
        if v.length ≤ l then
          match rest with
          | [] => return (n1, [j])
          | v' :: rest' =>
            let (p', path) ← recf parent v' rest'
            return (n1.setChildren (n1.children.set j p') n1.indexes, j :: path)
        else
          let (p', path) ← recf parent (v.drop l) rest
          return (n1.setChildren (n1.children.set j p') n1.indexes, j :: path)

/-- `getNode` with fuel. -/
def getNodeF (ic : Interceptors) : Nat → Node → Bytes → List Bytes → Except Err (Node × List Nat)
  | 0 => fun _ _ _ => .error (.fault 999)
  | k + 1 => getNodeBody ic (getNodeF ic k)

/-- The measure that every recursive call of `getNode` decreases. -/
def gnMeasure (v : Bytes) (rest : List Bytes) : Nat := v.length + rest.flatten.length + rest.length

theorem getNode_unfold (ic : Interceptors) (n : Node) (v : Bytes) (rest : List Bytes) :
    getNode ic n v rest = getNodeBody ic (getNode ic) n v rest := by
  rw [getNode]; rfl

set_option hygiene false in
local macro "gn_tail" : tactic => `(tactic|
  (simp only [pure, Except.pure]
   split
   · split
     · rfl
     · rw [h]
       simp only [gnMeasure, List.flatten_cons, List.length_append, List.length_cons]; omega
   · rw [h]
     simp only [gnMeasure, List.length_drop]
     omega))

theorem getNodeBody_congr (ic : Interceptors) (f g : Node → Bytes → List Bytes → Except Err (Node × List Nat))
    (n : Node) (v : Bytes) (rest : List Bytes)
    (h : ∀ n' v' rest', gnMeasure v' rest' < gnMeasure v rest → f n' v' rest' = g n' v' rest') :
    getNodeBody ic f n v rest = getNodeBody ic g n v rest := by
  unfold getNodeBody
  simp only [bind, Except.bind]
  split
  · rfl
  split
  · split
    · rfl
    · split
      · rfl
      · rw [h]
        simp only [gnMeasure, List.flatten_cons, List.length_append, List.length_cons]; omega
  · split
    · split
      · rfl
      split
      · rfl
      · split
        · rfl
        · rw [h]
          simp only [gnMeasure, List.flatten_cons, List.length_append, List.length_cons]; omega
    · rename_i hl
      split
      · rfl
      · split
        · gn_tail
        · split
          · rfl
          split
          · rfl
          split
          · rfl
          split
          · rfl
          · gn_tail

theorem getNode_eq_fuel (ic : Interceptors) : ∀ (fuel : Nat) (n : Node) (v : Bytes) (rest : List Bytes),
    gnMeasure v rest < fuel → getNode ic n v rest = getNodeF ic fuel n v rest := by
  intro fuel
  induction fuel with
  | zero => intro n v rest h; omega
  | succ k ih =>
    intro n v rest h
    rw [getNode_unfold]
    show _ = getNodeBody ic (getNodeF ic k) n v rest
    apply getNodeBody_congr
    intro n' v' rest' hlt
    exact ih n' v' rest' (by omega)

/-- Unconditional form, usable by `simp only` under binders. -/
theorem getNode_eq_F (ic : Interceptors) (n : Node) (v : Bytes) (rest : List Bytes) :
    getNode ic n v rest = getNodeF ic (gnMeasure v rest + 1) n v rest :=
  getNode_eq_fuel ic _ n v rest (Nat.lt_succ_self _)

end Mux.P10

namespace Mux.P10
open Mux

/-- Evaluate a concrete history: unfold the given definitions and the operations down to `getNode`,
replace `getNode` by its fuel version and let the kernel compute.  (`sortChildren` is a
well-founded `mergeSort`, which the kernel evaluates on lists of length ≤ 1 only: the histories
used in examples build chain-shaped trees.) -/
macro "mux_eval" "[" ids:ident,* "]" : tactic =>
  `(tactic| (simp only [$[$ids:ident],*, Router.run, Tree.run, Tree.step, List.foldl_cons, List.foldl_nil, Router.step,
      Router.handle, Tree.add, getNode_eq_F]; decide +kernel))

end Mux.P10
