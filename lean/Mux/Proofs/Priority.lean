/-
  Mux.Proofs.Priority — C02 part B1: the order in which `matchChildren` tries the children.

  * `matchFrom … cs 0` is a left fold of `tryChild` over `cs` (list order, first hit wins);
  * the index fast path is an optimisation of that linear scan: under explicit hypotheses on the
    index the indexed search returns what the linear scan returns.
-/
import Mux.Proofs.MatchSound
namespace Mux

/-! ## One child -/

/-- What the `LOOP:` body does with one child: match the child's own segment, descend, and on a
miss of the subtree restore the parameter of the child's name (D30 repair). -/
def tryChild (env : Env) (ic : Interceptors) (c : Node) (path : Bytes) (ps : Params) : MR :=
  match c.seg.match env ic path with
  | .no => .miss ps
  | .unsupported => .unsupported
  | .yes cap rest =>
    match Node.matchChildren env ic c rest (c.seg.record cap ps) with
    | .miss ps2 => .miss (restoreParam ps ps2 c.seg.name)
    | r => r

/-- One step of the scan: a result other than a miss is final. -/
def stepMR (env : Env) (ic : Interceptors) (path : Bytes) (acc : MR) (c : Node) : MR :=
  match acc with
  | .miss ps => tryChild env ic c path ps
  | r => r

theorem matchFrom_cons_zero (env : Env) (ic : Interceptors) (c : Node) (cs : List Node) (path : Bytes) (ps : Params) :
    matchFrom env ic (c :: cs) 0 path ps =
      match tryChild env ic c path ps with
      | .miss ps' => matchFrom env ic cs 0 path ps'
      | r => r := by
  rw [matchFrom]
  unfold tryChild Seg.record
  cases c.seg.match env ic path with
  | no => rfl
  | unsupported => rfl
  | yes cap rest =>
    simp only
    cases Node.matchChildren env ic c rest
      (if c.seg.kind ≠ .str ∧ ¬ c.seg.ignoreName then ps.set c.seg.name cap else ps) <;> rfl

/-- Starting at child `k` is scanning the list without its first `k` elements. -/
theorem matchFrom_eq_drop (env : Env) (ic : Interceptors) : ∀ (cs : List Node) (k : Nat) (path : Bytes) (ps : Params),
    matchFrom env ic cs k path ps = matchFrom env ic (cs.drop k) 0 path ps
  | [], k, _, _ => by cases k <;> simp [matchFrom]
  | _ :: _, 0, _, _ => rfl
  | _ :: cs, k + 1, path, ps => by rw [matchFrom, List.drop_succ_cons]; exact matchFrom_eq_drop env ic cs k path ps

theorem foldl_stepMR_final (env : Env) (ic : Interceptors) (path : Bytes) (cs : List Node) (r : MR)
    (h : ∀ ps, r ≠ .miss ps) : cs.foldl (stepMR env ic path) r = r := by
  induction cs with
  | nil => rfl
  | cons c cs ih =>
    rw [List.foldl_cons]
    have : stepMR env ic path r c = r := by
      cases r with
      | miss ps => exact absurd rfl (h ps)
      | _ => rfl
    rw [this, ih]

/-- **The `LOOP:` part is a left fold over the children, in list order.** -/
theorem matchFrom_eq_foldl (env : Env) (ic : Interceptors) (cs : List Node) (path : Bytes) (ps : Params) :
    matchFrom env ic cs 0 path ps = cs.foldl (stepMR env ic path) (.miss ps) := by
  induction cs generalizing ps with
  | nil => rw [matchFrom]; rfl
  | cons c cs ih =>
    rw [matchFrom_cons_zero, List.foldl_cons]
    show _ = cs.foldl _ (tryChild env ic c path ps)
    cases h : tryChild env ic c path ps with
    | miss ps' => exact ih ps'
    | hit m ps' => exact (foldl_stepMR_final env ic path cs _ (fun _ h => by cases h)).symm
    | fault s => exact (foldl_stepMR_final env ic path cs _ (fun _ h => by cases h)).symm
    | unsupported => exact (foldl_stepMR_final env ic path cs _ (fun _ h => by cases h)).symm

/-- A node without index: `matchChildren` is the linear scan followed by the self-match. -/
theorem Node.matchChildren_noIndex (env : Env) (ic : Interceptors) (seg : Seg) (pat : Bytes) (mi : Nat) (hs : AMap Handler)
    (cs : List Node) (path : Bytes) (ps : Params) :
    (Node.mk seg pat mi hs [] cs).matchChildren env ic path ps =
      match cs.foldl (stepMR env ic path) (.miss ps) with
      | .miss ps2 => if path.isEmpty ∧ hs.length > 0 then .hit (.mk seg pat mi hs [] cs) ps2 else .miss ps2
      | r => r := by
  rw [Node.matchChildren_eq, ← matchFrom_eq_foldl]
  rfl

/-! ## The first hit wins -/

theorem tryChild_eq_matchFrom (env : Env) (ic : Interceptors) (c : Node) (path : Bytes) (ps : Params) :
    tryChild env ic c path ps = matchFrom env ic [c] 0 path ps := by
  rw [matchFrom_cons_zero]
  cases tryChild env ic c path ps <;> simp [matchFrom]

/-- Tracked, a child that misses hands the parameters back unchanged. -/
theorem tryChild_miss {env : Env} {ic : Interceptors} {cs : List Node} {c : Node} (hc : c ∈ cs) {path : Bytes} {ps ps' : Params}
    {used : List Bytes} (ht : TrackL used cs ps) (h : tryChild env ic c path ps = .miss ps') : ps' = ps := by
  rw [tryChild_eq_matchFrom] at h
  have hn := NamesOkL_mem ht.1 hc
  exact matchFrom_miss h (used := used) (by rw [NamesOkL, NamesOkL]; exact ⟨hn.1, hn.2, trivial⟩)
    (by simp only [AllL, and_true]; exact AllL_mem ht.2.1 hc) ht.2.2

/-- Decomposition of a hit of the scan (no hypothesis): some child hits with the parameters left by
the scan of the children before it, all of which missed. -/
theorem matchFrom_hit_iff (env : Env) (ic : Interceptors) (cs : List Node) (path : Bytes) (ps : Params) (m : Node) (ps' : Params) :
    matchFrom env ic cs 0 path ps = .hit m ps' ↔
      ∃ pre c post ps0, cs = pre ++ c :: post ∧ matchFrom env ic pre 0 path ps = .miss ps0 ∧
        tryChild env ic c path ps0 = .hit m ps' := by
  induction cs generalizing ps with
  | nil =>
    constructor
    · intro h; rw [matchFrom] at h; cases h
    · rintro ⟨pre, c, post, _, h, _⟩; cases pre <;> cases h
  | cons d cs ih =>
    rw [matchFrom_cons_zero]
    constructor
    · intro h
      cases ht : tryChild env ic d path ps with
      | miss ps1 =>
        rw [ht] at h
        obtain ⟨pre, c, post, ps0, e, h1, h2⟩ := (ih ps1).1 h
        refine ⟨d :: pre, c, post, ps0, by rw [e]; rfl, ?_, h2⟩
        rw [matchFrom_cons_zero, ht]; exact h1
      | hit m1 ps1 =>
        rw [ht] at h
        exact ⟨[], d, cs, ps, rfl, by rw [matchFrom], by rw [ht]; exact h⟩
      | fault s => rw [ht] at h; cases h
      | unsupported => rw [ht] at h; cases h
    · rintro ⟨pre, c, post, ps0, e, h1, h2⟩
      cases pre with
      | nil =>
        rw [matchFrom] at h1
        cases h1
        simp only [List.nil_append, List.cons.injEq] at e
        obtain ⟨rfl, rfl⟩ := e
        rw [h2]
      | cons d' pre =>
        simp only [List.cons_append, List.cons.injEq] at e
        obtain ⟨rfl, rfl⟩ := e
        rw [matchFrom_cons_zero] at h1
        cases ht : tryChild env ic d path ps with
        | miss ps1 =>
          rw [ht] at h1
          exact (ih ps1).2 ⟨pre, c, post, ps0, rfl, h1, h2⟩
        | hit m1 ps1 => rw [ht] at h1; cases h1
        | fault s => rw [ht] at h1; cases h1
        | unsupported => rw [ht] at h1; cases h1

/-- **First hit wins** (tracked): the scan hits `m` iff some child `i` hits `m` when tried with the
original parameters and every child before it misses. -/
theorem matchFrom_first_hit {env : Env} {ic : Interceptors} {cs : List Node} {path : Bytes} {ps : Params} {used : List Bytes}
    (ht : TrackL used cs ps) (m : Node) (ps' : Params) :
    matchFrom env ic cs 0 path ps = .hit m ps' ↔
      ∃ (i : Nat) (c : Node), cs[i]? = some c ∧ tryChild env ic c path ps = .hit m ps' ∧
        ∀ j < i, ∀ c' : Node, cs[j]? = some c' → tryChild env ic c' path ps = .miss ps := by
  induction cs with
  | nil =>
    constructor
    · intro h; rw [matchFrom] at h; cases h
    · rintro ⟨i, c, h, _⟩; simp at h
  | cons d cs ih =>
    have ht' : TrackL used cs ps := ⟨ht.1.2.2, ht.2.1.2, ht.2.2⟩
    rw [matchFrom_cons_zero]
    constructor
    · intro h
      cases hd : tryChild env ic d path ps with
      | miss ps1 =>
        rw [hd] at h
        have e := tryChild_miss List.mem_cons_self ht hd
        subst e
        obtain ⟨i, c, h1, h2, h3⟩ := (ih ht').1 h
        refine ⟨i + 1, c, by simpa using h1, h2, ?_⟩
        intro j hj c' hc'
        cases j with
        | zero => simp only [List.getElem?_cons_zero, Option.some.injEq] at hc'; subst hc'; exact hd
        | succ j => exact h3 j (by omega) c' (by simpa using hc')
      | hit m1 ps1 =>
        rw [hd] at h
        exact ⟨0, d, rfl, by rw [hd]; exact h, fun j hj => by omega⟩
      | fault s => rw [hd] at h; cases h
      | unsupported => rw [hd] at h; cases h
    · rintro ⟨i, c, h1, h2, h3⟩
      cases i with
      | zero =>
        simp only [List.getElem?_cons_zero, Option.some.injEq] at h1
        subst h1
        rw [h2]
      | succ i =>
        have hd := h3 0 (by omega) d rfl
        rw [hd]
        refine (ih ht').2 ⟨i, c, by simpa using h1, h2, ?_⟩
        intro j hj c' hc'
        exact h3 (j + 1) (by omega) c' (by simpa using hc')

/-! ## The index fast path is an optimisation of the linear scan -/

/-- A literal child whose text starts with another byte than the path does not match. -/
theorem lit_no_of_ne (env : Env) (ic : Interceptors) {c : Node} (hk : c.seg.kind = .str) {b' : UInt8} {v : Bytes}
    (hv : c.seg.value = b' :: v) {b : UInt8} (tl : Bytes) (hne : b' ≠ b) : c.seg.match env ic (b :: tl) = .no := by
  unfold Seg.match
  rw [hk, hv]
  simp [hasPrefix, List.isPrefixOf, hne]

/-- A literal child with non-empty text does not match the empty path. -/
theorem lit_no_of_nil (env : Env) (ic : Interceptors) {c : Node} (hk : c.seg.kind = .str) {b' : UInt8} {v : Bytes}
    (hv : c.seg.value = b' :: v) : c.seg.match env ic [] = .no := by
  unfold Seg.match
  rw [hk, hv]
  simp [hasPrefix, List.isPrefixOf]

/-- Children whose own segment does not match are skipped by the scan. -/
theorem matchFrom_skip_no (env : Env) (ic : Interceptors) (pre rest : List Node) (path : Bytes) (ps : Params)
    (h : ∀ c ∈ pre, c.seg.match env ic path = .no) :
    matchFrom env ic (pre ++ rest) 0 path ps = matchFrom env ic rest 0 path ps := by
  induction pre with
  | nil => rfl
  | cons c pre ih =>
    rw [List.cons_append, matchFrom, h c List.mem_cons_self]
    exact ih (fun c' hc' => h c' (List.mem_cons_of_mem _ hc'))

theorem matchFrom_skip_len (env : Env) (ic : Interceptors) (pre rest : List Node) (path : Bytes) (ps : Params) :
    matchFrom env ic (pre ++ rest) pre.length path ps = matchFrom env ic rest 0 path ps := by
  rw [matchFrom_eq_drop]; simp

/-- `matchAt` tries exactly child `i`. -/
theorem matchAt_eq (env : Env) (ic : Interceptors) : ∀ (cs : List Node) (i : Nat) (c : Node) (path : Bytes) (ps : Params),
    cs[i]? = some c →
    matchAt env ic cs i path ps =
      match c.seg.match env ic path with
      | .no => .miss ps
      | .unsupported => .unsupported
      | .yes cap rest => Node.matchChildren env ic c rest (c.seg.record cap ps)
  | [], _, _, _, _, h => by simp at h
  | d :: cs, 0, c, path, ps, h => by
    simp only [List.getElem?_cons_zero, Option.some.injEq] at h
    subst h
    rw [matchAt]; rfl
  | d :: cs, i + 1, c, path, ps, h => by
    rw [matchAt]
    exact matchAt_eq env ic cs i c path ps (by simpa using h)

/-- The hypotheses on the index of a node whose children are `lits ++ others`:
the children in `lits` are literals with non-empty text, the `LOOP:` part starts right after them,
the index maps the first byte of each of them to its position, and it maps nothing anywhere else.
(Pairwise distinct first bytes follow, the index being a function.)  `buildIndexes` on the sorted
children establishes this whenever literal siblings start with distinct bytes. -/
structure IndexOk (idx : List (UInt8 × Nat)) (lits : List Node) : Prop where
  lit : ∀ c ∈ lits, c.seg.kind = .str
  len : idx.length = lits.length
  maps : ∀ (i : Nat) (c : Node), lits[i]? = some c → ∃ b v, c.seg.value = b :: v ∧ idxLookup idx b = some i
  range : ∀ b i, idxLookup idx b = some i → i < lits.length

/-- The search of an indexed node: fast path, then the loop after the indexed children. -/
def indexedSearch (env : Env) (ic : Interceptors) (idx : List (UInt8 × Nat)) (cs : List Node) (path : Bytes) (ps : Params) : MR :=
  match fastPath env ic idx cs path ps with
  | .miss ps1 => matchFrom env ic cs idx.length path ps1
  | r => r

theorem idx_nonempty_lits {idx : List (UInt8 × Nat)} {lits : List Node} (h : IndexOk idx lits) (hne : idx ≠ []) :
    0 < lits.length := by
  cases idx with
  | nil => exact absurd rfl hne
  | cons e idx =>
    have : idxLookup (e :: idx) e.1 = some e.2 := by simp [idxLookup]
    have := h.range _ _ this
    omega

/-- No literal starts with `b`: every literal fails on a path starting with `b`. -/
theorem lits_no_of_unmapped (env : Env) (ic : Interceptors) {idx : List (UInt8 × Nat)} {lits : List Node} (h : IndexOk idx lits)
    {b : UInt8} (tl : Bytes) (hb : ∀ (j : Nat) (c : Node), lits[j]? = some c → ∀ v, c.seg.value ≠ b :: v) :
    ∀ c ∈ lits, c.seg.match env ic (b :: tl) = .no := by
  intro c hc
  obtain ⟨j, hj⟩ := List.getElem?_of_mem hc
  obtain ⟨b', v, hv, _⟩ := h.maps j c hj
  refine lit_no_of_ne env ic (h.lit c hc) hv tl ?_
  rintro rfl
  exact hb j c hj v hv

/-- **Index fast path = linear scan.**  Under `IndexOk` and the tracking hypotheses the indexed
search returns exactly what the linear scan over all children returns. -/
theorem indexedSearch_eq_scan (env : Env) (ic : Interceptors) {idx : List (UInt8 × Nat)} {lits others : List Node}
    (hI : IndexOk idx lits) {path : Bytes} {ps : Params} {used : List Bytes} (ht : TrackL used (lits ++ others) ps) :
    indexedSearch env ic idx (lits ++ others) path ps = matchFrom env ic (lits ++ others) 0 path ps := by
  unfold indexedSearch
  -- the loop part skips exactly the literals
  have hloop : ∀ ps1, matchFrom env ic (lits ++ others) idx.length path ps1 = matchFrom env ic others 0 path ps1 := by
    intro ps1; rw [hI.len]; exact matchFrom_skip_len env ic lits others path ps1
  cases path with
  | nil =>
    have hf : fastPath env ic idx (lits ++ others) [] ps = .miss ps := by
      unfold fastPath; cases idx <;> rfl
    rw [hf]
    simp only
    rw [hloop, matchFrom_skip_no]
    intro c hc
    obtain ⟨j, hj⟩ := List.getElem?_of_mem hc
    obtain ⟨b', v, hv, _⟩ := hI.maps j c hj
    exact lit_no_of_nil env ic (hI.lit c hc) hv
  | cons b tl =>
    cases idx with
    | nil =>
      have : lits = [] := List.eq_nil_of_length_eq_zero hI.len.symm
      subst this
      rfl
    | cons e idx' =>
      have hpos := idx_nonempty_lits hI (by simp)
      have hf : fastPath env ic (e :: idx') (lits ++ others) (b :: tl) ps =
          matchAt env ic (lits ++ others) ((idxLookup (e :: idx') b).getD 0) (b :: tl) ps := rfl
      rw [hf]
      generalize hi : (idxLookup (e :: idx') b).getD 0 = i
      have hilt : i < lits.length := by
        cases hl : idxLookup (e :: idx') b with
        | none => rw [hl] at hi; simp at hi; omega
        | some i' => rw [hl] at hi; simp at hi; subst hi; exact hI.range _ _ hl
      obtain ⟨c, hc⟩ : ∃ c, lits[i]? = some c := ⟨lits[i], by simp [hilt]⟩
      have hcmem : c ∈ lits := List.mem_of_getElem? hc
      have hcs : (lits ++ others)[i]? = some c := by rw [List.getElem?_append_left hilt]; exact hc
      rw [matchAt_eq env ic _ i c _ _ hcs]
      obtain ⟨b', v, hv, hmap⟩ := hI.maps i c hc
      have hstr := hI.lit c hcmem
      by_cases hbb : b' = b
      · subst hbb
        -- `c` is the only literal starting with `b'`
        have huniq : ∀ (j : Nat) (c' : Node), lits[j]? = some c' → j ≠ i → c'.seg.match env ic (b' :: tl) = .no := by
          intro j c' hj hji
          obtain ⟨b'', v', hv', hmap'⟩ := hI.maps j c' hj
          refine lit_no_of_ne env ic (hI.lit c' (List.mem_of_getElem? hj)) hv' tl ?_
          rintro rfl
          rw [hmap] at hmap'
          exact hji (Option.some.inj hmap').symm
        have hsplit : lits = lits.take i ++ c :: lits.drop (i + 1) := by
          have := List.getElem?_eq_some_iff.1 hc
          obtain ⟨hlt, rfl⟩ := this
          simp
        have hpre : ∀ c' ∈ lits.take i, c'.seg.match env ic (b' :: tl) = .no := by
          intro c' hc'
          obtain ⟨j, hj⟩ := List.getElem?_of_mem hc'
          have hjlt : j < i := by
            have := (List.getElem?_eq_some_iff.1 hj).1
            simp at this; omega
          rw [List.getElem?_take_of_lt hjlt] at hj
          exact huniq j c' hj (by omega)
        have hpost : ∀ c' ∈ lits.drop (i + 1), c'.seg.match env ic (b' :: tl) = .no := by
          intro c' hc'
          obtain ⟨j, hj⟩ := List.getElem?_of_mem hc'
          rw [List.getElem?_drop] at hj
          exact huniq _ c' hj (by omega)
        have hlin : matchFrom env ic (lits ++ others) 0 (b' :: tl) ps =
            match tryChild env ic c (b' :: tl) ps with
            | .miss ps' => matchFrom env ic others 0 (b' :: tl) ps'
            | r => r := by
          conv => lhs; rw [hsplit, List.append_assoc, matchFrom_skip_no env ic _ _ _ _ hpre, List.cons_append,
            matchFrom_cons_zero]
          cases tryChild env ic c (b' :: tl) ps with
          | miss ps' => exact matchFrom_skip_no env ic _ _ _ _ hpost
          | _ => rfl
        rw [hlin]
        unfold tryChild
        have hrec : ∀ cap, c.seg.record cap ps = ps := by
          intro cap; unfold Seg.record; rw [if_neg (fun h => h.1 hstr)]
        cases hm : c.seg.match env ic (b' :: tl) with
        | no => simp only; exact hloop ps
        | unsupported => rfl
        | yes cap rest =>
          simp only
          rw [hrec]
          cases hr : Node.matchChildren env ic c rest ps with
          | miss ps2 =>
            simp only
            rw [hloop]
            -- tracked: the literal's name is not a key, deleting it changes nothing
            have hcin : c ∈ lits ++ others := List.mem_append_left _ hcmem
            obtain ⟨hfresh, hok⟩ := NamesOkL_mem ht.1 hcin
            rw [if_neg (fun h => h.1 hstr)] at hok
            have e := Node.matchChildren_miss hr hok (AllL_mem ht.2.1 hcin) ht.2.2
            subst e
            rw [P19.restoreParam_fresh _ (fun hmem => hfresh (ht.2.2 _ hmem)),
              AMap.erase_fresh (fun hmem => hfresh (ht.2.2 _ hmem))]
          | hit m ps' => rfl
          | fault s => rfl
          | unsupported => rfl
      · -- the selected literal starts with another byte; then no literal starts with `b`
        have hnone : ∀ (j : Nat) (c' : Node), lits[j]? = some c' → ∀ v', c'.seg.value ≠ b :: v' := by
          intro j c' hj v' hv'
          obtain ⟨b'', v'', hv'', hmap'⟩ := hI.maps j c' hj
          rw [hv'] at hv''
          simp only [List.cons.injEq] at hv''
          obtain ⟨rfl, _⟩ := hv''
          -- `idxLookup b = some j`, so the selected position is `j`, whose literal starts with `b`
          rw [hmap'] at hi
          simp only [Option.getD_some] at hi
          subst hi
          rw [hc] at hj
          cases hj
          rw [hv] at hv'
          simp only [List.cons.injEq] at hv'
          exact hbb hv'.1
        rw [lit_no_of_ne env ic hstr hv tl hbb]
        simp only
        rw [hloop, matchFrom_skip_no env ic _ _ _ _ (lits_no_of_unmapped env ic hI tl hnone)]

/-- **`matchChildren` of an indexed node is the linear scan** (followed by the self-match), under
`IndexOk` and the tracking hypotheses. -/
theorem Node.matchChildren_indexed_eq_scan (env : Env) (ic : Interceptors) (seg : Seg) (pat : Bytes) (mi : Nat)
    (hs : AMap Handler) {idx : List (UInt8 × Nat)} {lits others : List Node} (hI : IndexOk idx lits)
    {path : Bytes} {ps : Params} {used : List Bytes} (ht : TrackL used (lits ++ others) ps) :
    (Node.mk seg pat mi hs idx (lits ++ others)).matchChildren env ic path ps =
      match (lits ++ others).foldl (stepMR env ic path) (.miss ps) with
      | .miss ps2 =>
        if path.isEmpty ∧ hs.length > 0 then .hit (.mk seg pat mi hs idx (lits ++ others)) ps2 else .miss ps2
      | r => r := by
  rw [Node.matchChildren_eq, ← matchFrom_eq_foldl, ← indexedSearch_eq_scan env ic hI ht]
  unfold indexedSearch
  cases fastPath env ic idx (lits ++ others) path ps <;> rfl

/-! ## Non-vacuity of `IndexOk` / `TrackL`: two literal children `a…`, `b…` in the index, one
parameter child after them. -/

section Example
private def litA : Node := .mk { value := [97, 47] } [] 1 [([71], { base := .user 1 })] [] []
private def litB : Node := .mk { value := [98] } [] 1 [([71], { base := .user 2 })] [] []
private def parX : Node :=
  .mk { value := [123, 120, 125], kind := .named, name := [120], endpoint := true } [] 1 [([71], { base := .user 3 })] [] []

example : IndexOk [(97, 0), (98, 1)] [litA, litB] where
  lit := by decide
  len := rfl
  maps := by
    intro i c h
    match i, h with
    | 0, h => cases h; exact ⟨97, [47], rfl, rfl⟩
    | 1, h => cases h; exact ⟨98, [], rfl, rfl⟩
    | n + 2, h => simp at h
  range := by
    intro b i h
    unfold idxLookup at h
    simp only [List.find?_cons, List.find?_nil] at h
    split at h
    · cases h; decide
    · split at h
      · cases h; decide
      · cases h

example : TrackL [] ([litA, litB] ++ [parX]) [] := by
  refine ⟨by decide, ?_, by simp [AMap.keys]⟩
  simp only [litA, litB, parX, List.cons_append, List.nil_append, AllL, Node.All, and_true]
  exact ⟨IdxLit.of_nil rfl, IdxLit.of_nil rfl, IdxLit.of_nil rfl⟩
end Example

end Mux
