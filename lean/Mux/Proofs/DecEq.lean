/-
  Mux.Proofs.DecEq — decidable equality for the syntax-layer data, so that regression examples can
  be closed by `decide` (kernel evaluation, no extra axioms).
-/
import Mux.Model.Syntax
namespace Mux
deriving instance DecidableEq for Re
deriving instance DecidableEq for ParseRes
deriving instance DecidableEq for Seg
deriving instance DecidableEq for MatchRes
end Mux
deriving instance DecidableEq for Except
namespace Mux
end Mux
