/-
  Mux.Proofs.WfTree — the structural invariant of the tree below the root (`WfL`): every segment is
  `NewSegment` of its own well-formed text (I-seg), parameter names are pairwise distinct along every
  chain, an endpoint node (`…}`) has no children, and siblings are kept apart (different texts; same
  kind ⇒ nothing `longestPrefix` would split off).  The restructuring step of `getNode` cannot fail
  on such a tree for a validated pattern and re-establishes the invariant.
-/
import Mux.Proofs.GnStep
import Mux.Proofs.CutPoint
import Mux.Proofs.MatchSound
namespace Mux.P9
open Mux

/-! ## The invariant -/

/-- The names in use below a node with segment `s`, given the names in use above it. -/
def usedBelow (used : List Bytes) (s : Seg) : List Bytes := if s.kind = .str then used else s.name :: used

mutual
/-- A node below the root, given the parameter names `used` on the chain above it. -/
def Node.Wf (ic : Interceptors) (used : List Bytes) : Node → Prop
  | .mk s _ _ _ _ cs =>
    SegOk ic s ∧ (s.kind = .str ∨ s.name ∉ used) ∧ (lastByte s.value = endByte → cs = []) ∧
      WfL ic (usedBelow used s) cs
/-- A list of siblings. -/
def WfL (ic : Interceptors) (used : List Bytes) : List Node → Prop
  | [] => True
  | c :: cs => Node.Wf ic used c ∧ (∀ d ∈ cs, SibDisj c.seg d.seg) ∧ WfL ic used cs
end

theorem Node.wf_iff (ic : Interceptors) (used : List Bytes) (n : Node) :
    Node.Wf ic used n ↔ SegOk ic n.seg ∧ (n.seg.kind = .str ∨ n.seg.name ∉ used) ∧
      (lastByte n.seg.value = endByte → n.children = []) ∧ WfL ic (usedBelow used n.seg) n.children := by
  cases n; simp [Node.Wf]

theorem WfL_iff (ic : Interceptors) (used : List Bytes) (cs : List Node) :
    WfL ic used cs ↔ (∀ c ∈ cs, Node.Wf ic used c) ∧ cs.Pairwise (fun a b => SibDisj a.seg b.seg) := by
  induction cs with
  | nil => simp [WfL]
  | cons c cs ih =>
    simp only [WfL, ih, List.mem_cons, forall_eq_or_imp, List.pairwise_cons]
    constructor
    · rintro ⟨h1, h2, h3, h4⟩; exact ⟨⟨h1, h3⟩, h2, h4⟩
    · rintro ⟨⟨h1, h3⟩, h2, h4⟩; exact ⟨h1, h2, h3, h4⟩

theorem sibDisj_symm : ∀ {a b : Node}, SibDisj a.seg b.seg → SibDisj b.seg a.seg := fun h => h.symm

theorem WfL_perm {ic : Interceptors} {used : List Bytes} {as bs : List Node} (hp : as.Perm bs) :
    WfL ic used as ↔ WfL ic used bs := by
  rw [WfL_iff, WfL_iff]
  have h1 : (∀ c ∈ as, Node.Wf ic used c) ↔ (∀ c ∈ bs, Node.Wf ic used c) :=
    ⟨fun h c hc => h c (hp.mem_iff.2 hc), fun h c hc => h c (hp.mem_iff.1 hc)⟩
  rw [h1, hp.pairwise_iff (fun {a b} h => sibDisj_symm h)]

theorem WfL_sublist {ic : Interceptors} {used : List Bytes} {as bs : List Node} (hs : as.Sublist bs)
    (h : WfL ic used bs) : WfL ic used as := by
  rw [WfL_iff] at *
  exact ⟨fun c hc => h.1 c (hs.subset hc), h.2.sublist hs⟩

theorem WfL_mem {ic : Interceptors} {used : List Bytes} {cs : List Node} (h : WfL ic used cs) {c : Node}
    (hc : c ∈ cs) : Node.Wf ic used c := ((WfL_iff ic used cs).1 h).1 c hc

theorem WfL_nil (ic : Interceptors) (used : List Bytes) : WfL ic used [] := by simp [WfL]

/-- Values of siblings are pairwise different. -/
theorem WfL_values {ic : Interceptors} {used : List Bytes} {cs : List Node} (h : WfL ic used cs) :
    cs.Pairwise (fun a b => a.seg.value ≠ b.seg.value) :=
  ((WfL_iff ic used cs).1 h).2.imp (fun h => h.1)

/-- Replacing a child by a node with the same segment keeps the sibling invariant. -/
theorem WfL_set {ic : Interceptors} {used : List Bytes} {cs : List Node} {j : Nat} {x p' : Node}
    (h : WfL ic used cs) (hx : cs[j]? = some x) (hseg : p'.seg = x.seg) (hp : Node.Wf ic used p') :
    WfL ic used (cs.set j p') := by
  rw [WfL_iff] at *
  refine ⟨?_, ?_⟩
  · intro c hc
    rcases List.mem_or_eq_of_mem_set hc with hc | hc
    · exact h.1 c hc
    · exact hc ▸ hp
  · have hj : j < cs.length := (List.getElem?_eq_some_iff.1 hx).1
    have hxe : cs[j] = x := (List.getElem?_eq_some_iff.1 hx).2
    have e : (cs.set j p').map (·.seg) = cs.map (·.seg) := by
      rw [List.map_set]
      apply List.ext_getElem?
      intro i
      rw [List.getElem?_set]
      split
      · rename_i hij
        subst hij
        simp [hj, hseg, hxe]
      · rfl
    have key : ∀ l : List Node, l.Pairwise (fun a b => SibDisj a.seg b.seg) ↔ (l.map (·.seg)).Pairwise SibDisj := by
      intro l; rw [List.pairwise_map]
    rw [key, e, ← key]
    exact h.2

/-! ## `sortNode`, `childPos` on such sibling lists -/

theorem hasDupValues_false {cs : List Node} (h : cs.Pairwise (fun a b => a.seg.value ≠ b.seg.value)) :
    hasDupValues cs = false := by
  induction cs with
  | nil => rfl
  | cons c cs ih =>
    rw [List.pairwise_cons] at h
    simp only [hasDupValues, Bool.or_eq_false_iff, List.any_eq_false, decide_eq_true_eq]
    exact ⟨fun d hd e => h.1 d hd e.symm, ih h.2⟩

theorem buildIndexesLoop_ok (cs : List Node) (h : ∀ c ∈ cs, c.seg.value ≠ []) (i : Nat) (acc : List (UInt8 × Nat)) :
    ∃ idx, buildIndexesLoop cs i acc = .ok idx := by
  induction cs generalizing i acc with
  | nil => exact ⟨acc, rfl⟩
  | cons c cs ih =>
    simp only [buildIndexesLoop]
    split
    · cases hv : c.seg.value with
      | nil => exact absurd hv (h c (by simp))
      | cons b r => exact ih (fun d hd => h d (by simp [hd])) _ _
    · exact ih (fun d hd => h d (by simp [hd])) _ _

theorem buildIndexes_ok {cs : List Node} (h : ∀ c ∈ cs, c.seg.value ≠ []) : ∃ idx, buildIndexes cs = .ok idx := by
  unfold buildIndexes
  split
  · exact ⟨[], rfl⟩
  · exact buildIndexesLoop_ok cs h 0 []

/-- `node.sort` succeeds when the sibling texts are pairwise different and not empty. -/
theorem sortNode_succeeds {n : Node} (h1 : n.children.Pairwise (fun a b => a.seg.value ≠ b.seg.value))
    (h2 : ∀ c ∈ n.children, c.seg.value ≠ []) :
    ∃ idx, sortNode n = .ok (n.setChildren (sortChildren n.children) idx) := by
  obtain ⟨idx, hidx⟩ := buildIndexes_ok (cs := sortChildren n.children)
    (fun c hc => h2 c ((sortChildren_perm _).mem_iff.1 hc))
  refine ⟨idx, ?_⟩
  unfold sortNode
  simp [hasDupValues_false h1, hidx, bind, Except.bind, pure, Except.pure]

theorem childPos_some {cs : List Node} {v : Bytes} {c : Node} (hc : c ∈ cs) (hv : c.seg.value = v) :
    ∃ j x, childPos cs v = some j ∧ cs[j]? = some x ∧ x.seg.value = v := by
  unfold childPos
  cases h : cs.findIdx? (fun c => c.seg.value = v) with
  | none =>
    rw [List.findIdx?_eq_none_iff] at h
    have := h c hc
    simp [hv] at this
  | some j =>
    rw [List.findIdx?_eq_some_iff_getElem] at h
    obtain ⟨hj, hp, _⟩ := h
    exact ⟨j, cs[j], rfl, by simp [hj], by simpa using hp⟩

theorem childPos_inv {cs : List Node} {v : Bytes} {j : Nat} (h : childPos cs v = some j) :
    ∃ x, cs[j]? = some x ∧ x.seg.value = v := by
  unfold childPos at h
  rw [List.findIdx?_eq_some_iff_getElem] at h
  obtain ⟨hj, hp, _⟩ := h
  exact ⟨cs[j], by simp [hj], by simpa using hp⟩

/-! ## `similarity` and `scanChildren` -/

theorem longestPrefix_ne_neg1 (a b : Bytes) : longestPrefix a b ≠ -1 := by
  rcases longestPrefix_spec a b with h | ⟨k, h, _⟩ <;> rw [h] <;> omega

theorem similarity_neg1_iff (c seg : Seg) : c.similarity seg = -1 ↔ seg.value = c.value := by
  unfold Seg.similarity
  split
  · simp [*]
  · rename_i hne
    split
    · simp [hne]
    · simp [hne, longestPrefix_ne_neg1]

theorem similarity_of_ne {c seg : Seg} (h : seg.value ≠ c.value) :
    c.similarity seg = if seg.kind ≠ c.kind then 0 else longestPrefix seg.value c.value := by
  unfold Seg.similarity
  rw [if_neg h]

theorem similarity_pos {c seg : Seg} (h : 0 < c.similarity seg) :
    seg.value ≠ c.value ∧ seg.kind = c.kind ∧ c.similarity seg = longestPrefix seg.value c.value := by
  have hne : seg.value ≠ c.value := by
    intro e
    rw [(similarity_neg1_iff c seg).2 e] at h
    omega
  rw [similarity_of_ne hne] at h ⊢
  split at h
  · omega
  · rename_i hk
    refine ⟨hne, Classical.not_not.1 hk, ?_⟩
    rw [if_neg hk]

theorem similarity_le0 {c seg : Seg} (h : c.similarity seg ≤ 0) (h1 : c.similarity seg ≠ -1) :
    SibDisj seg c := by
  have hne : seg.value ≠ c.value := fun e => h1 ((similarity_neg1_iff c seg).2 e)
  refine ⟨hne, fun hk => ?_⟩
  rw [similarity_of_ne hne, if_neg (by simpa using hk)] at h
  exact h

/-- What the scan of `addSegment` returns. -/
theorem scanChildren_spec (seg : Seg) (cs : List Node) (i0 : Nat) (l0 : Int) (b0 : Nat) :
    match scanChildren seg cs i0 l0 b0 with
    | .identical i => ∃ c, i0 ≤ i ∧ cs[i - i0]? = some c ∧ seg.value = c.seg.value
    | .best l b =>
      (∀ d ∈ cs, d.seg.similarity seg ≠ -1 ∧ d.seg.similarity seg ≤ l) ∧ l0 ≤ l ∧
        (l0 < l → ∃ c, i0 ≤ b ∧ cs[b - i0]? = some c ∧ c.seg.similarity seg = l) ∧ (l = l0 → b = b0) := by
  induction cs generalizing i0 l0 b0 with
  | nil => simp [scanChildren]
  | cons c cs ih =>
    have shift : ∀ (b : Nat) (d : Node), i0 + 1 ≤ b → cs[b - (i0 + 1)]? = some d → (c :: cs)[b - i0]? = some d := by
      intro b d hb hd
      have : b - i0 = (b - (i0 + 1)) + 1 := by omega
      rw [this, List.getElem?_cons_succ]; exact hd
    simp only [scanChildren]
    by_cases h1 : c.seg.similarity seg = -1
    · rw [if_pos h1]
      exact ⟨c, Nat.le_refl _, by simp, (similarity_neg1_iff _ _).1 h1⟩
    · rw [if_neg h1]
      by_cases h2 : c.seg.similarity seg > l0
      · rw [if_pos h2]
        have := ih (i0 + 1) (c.seg.similarity seg) i0
        split at this
        · obtain ⟨d, hd1, hd2, hd3⟩ := this
          exact ⟨d, by omega, shift _ d hd1 hd2, hd3⟩
        · obtain ⟨a1, a2, a3, a4⟩ := this
          rename_i l b _
          refine ⟨?_, by omega, ?_, fun e => by omega⟩
          · intro d hd
            rcases List.mem_cons.1 hd with rfl | hd
            · exact ⟨h1, a2⟩
            · exact a1 d hd
          · intro _
            by_cases hlt : c.seg.similarity seg < l
            · obtain ⟨d, hd1, hd2, hd3⟩ := a3 hlt
              exact ⟨d, by omega, shift _ d hd1 hd2, hd3⟩
            · have hl : l = c.seg.similarity seg := by omega
              have hb := a4 hl
              subst hb
              exact ⟨c, Nat.le_refl _, by simp, hl.symm⟩
      · rw [if_neg h2]
        have := ih (i0 + 1) l0 b0
        split at this
        · obtain ⟨d, hd1, hd2, hd3⟩ := this
          exact ⟨d, by omega, shift _ d hd1 hd2, hd3⟩
        · obtain ⟨a1, a2, a3, a4⟩ := this
          refine ⟨?_, a2, ?_, a4⟩
          · intro d hd
            rcases List.mem_cons.1 hd with rfl | hd
            · exact ⟨h1, by omega⟩
            · exact a1 d hd
          · intro hlt
            obtain ⟨d, hd1, hd2, hd3⟩ := a3 hlt
            exact ⟨d, by omega, shift _ d hd1 hd2, hd3⟩


/-! ## `splitLoop`, one piece at a time -/

theorem usedBelow_eq (names : List Bytes) (seg : Seg) :
    (if seg.kind ≠ .str then seg.name :: names else names) = usedBelow names seg := by
  unfold usedBelow
  by_cases h : seg.kind = .str <;> simp [h]

theorem splitLoop_cons_inv {ic : Interceptors} {v : Bytes} {rest : List Bytes} {flag : Bool} {names : List Bytes}
    {segs : List Seg} (h : splitLoop ic (v :: rest) flag names = .ok segs) :
    v ≠ [] ∧ ¬ (flag = true ∧ v.head? = some startByte) ∧
      ∃ seg segs', newSegment ic v = .ok seg ∧ (seg.kind = .str ∨ seg.name ∉ names) ∧
        splitLoop ic rest (decide (lastByte v = endByte)) (usedBelow names seg) = .ok segs' ∧
        segs = seg :: segs' := by
  have hv : v ≠ [] := by
    intro e; subst e
    simp [splitLoop, atE, bind, Except.bind] at h
  refine ⟨hv, ?_⟩
  simp only [splitLoop, bind, Except.bind, atE_zero _ _ hv, atE_last _ _ hv, pure, Except.pure, throw,
    throwThe, MonadExceptOf.throw, usedBelow_eq] at h
  split at h
  · cases h
  rename_i hadj
  cases hs : newSegment ic v with
  | error e => rw [hs] at h; cases h
  | ok seg =>
    rw [hs] at h
    simp only [] at h
    split at h
    · cases h
    rename_i hdup
    cases hr : splitLoop ic rest (decide (lastByte v = endByte)) (usedBelow names seg) with
    | error e => rw [hr] at h; cases h
    | ok segs' =>
      rw [hr] at h
      simp only [Except.ok.injEq] at h
      refine ⟨?_, seg, segs', rfl, ?_, hr, h.symm⟩
      · intro hh
        apply hadj
        refine ⟨hh.1, ?_⟩
        cases v with
        | nil => exact absurd rfl hv
        | cons c r => simpa using hh.2
      · by_cases hk : seg.kind = .str
        · exact .inl hk
        · right
          intro hm
          exact hdup ⟨hk, by simpa using hm⟩

/-- A brace-free, non-empty piece in front of an accepted list of pieces is accepted (whatever the
flag), and adds no name. -/
theorem splitLoop_lit {ic : Interceptors} {w : Bytes} {rest : List Bytes} (flag : Bool) {names : List Bytes}
    {segs' : List Seg} (hw : NoBrace w) (hne : w ≠ []) (hlen : w.length ≤ maxInt16)
    (h : splitLoop ic rest (decide (lastByte w = endByte)) names = .ok segs') :
    splitLoop ic (w :: rest) flag names = .ok ({ value := w } :: segs') := by
  have hfirst : ¬ (flag = true ∧ w.headD 0 = startByte) := by
    intro hh
    cases w with
    | nil => exact absurd rfl hne
    | cons c r => exact hw.1 (by simp at hh; simp [hh.2])
  simp only [splitLoop, bind, Except.bind, atE_zero _ _ hne, atE_last _ _ hne, pure, Except.pure, throw,
    throwThe, MonadExceptOf.throw, newSegment_noStart ic hw.1 hlen, hfirst, if_false]
  simp [h]

theorem lastByte_drop {v : Bytes} {L : Nat} (h : L < v.length) : lastByte (v.drop L) = lastByte v := by
  simp only [lastByte, List.length_drop, List.getElem?_drop]
  congr 2
  omega

/-! ## Small facts -/

theorem SegOk.eq_of_value {ic : Interceptors} {a b : Seg} (ha : SegOk ic a) (hb : SegOk ic b)
    (h : a.value = b.value) : a = b := by
  have h1 := ha.seg
  rw [h, hb.seg] at h1
  cases h1; rfl

theorem pairwise_mem_ne {α : Type} {R : α → α → Prop} {l : List α} (hs : ∀ a b, R a b → R b a)
    (hl : l.Pairwise R) {a b : α} (ha : a ∈ l) (hb : b ∈ l) (hne : a ≠ b) : R a b := by
  induction l with
  | nil => cases ha
  | cons x l ih =>
    rw [List.pairwise_cons] at hl
    rcases List.mem_cons.1 ha with ha | ha <;> rcases List.mem_cons.1 hb with hb | hb
    · exact absurd (ha.trans hb.symm) hne
    · exact ha ▸ hl.1 b hb
    · exact hb ▸ hs _ _ (hl.1 a ha)
    · exact ih hl.2 ha hb

theorem removeNodes_values {cs : List Node} {v : Bytes}
    (h : cs.Pairwise (fun a b => a.seg.value ≠ b.seg.value)) : ∀ d ∈ removeNodes cs v, d.seg.value ≠ v := by
  induction cs with
  | nil => simp [removeNodes]
  | cons c cs ih =>
    rw [List.pairwise_cons] at h
    simp only [removeNodes]
    split
    · rename_i hc
      intro d hd e
      exact h.1 d hd (hc.trans e.symm)
    · rename_i hc
      intro d hd
      rcases List.mem_cons.1 hd with rfl | hd
      · exact hc
      · exact ih h.2 d hd

theorem WfL_of_getElem? {ic : Interceptors} {used : List Bytes} {cs : List Node} (h : WfL ic used cs)
    {i : Nat} {c : Node} (hc : cs[i]? = some c) : Node.Wf ic used c :=
  WfL_mem h (List.mem_of_getElem? hc)


theorem WfPiece.good {v : Bytes} (h : WfPiece v) : GoodPiece v := by
  rcases h with h | ⟨body, suf, rfl, _, _⟩
  · exact .inr h.1
  · exact .inl (by simp [tok])

/-! ## The shape of one restructuring step -/

@[simp] theorem setChildren_setChildren (n : Node) (a c : List Node) (b d : List (UInt8 × Nat)) :
    (n.setChildren a b).setChildren c d = n.setChildren c d := by
  cases n; rfl

@[simp] theorem setChildren_children (n : Node) (a : List Node) (b : List (UInt8 × Nat)) :
    (n.setChildren a b).children = a := by cases n; rfl

@[simp] theorem setChildren_seg (n : Node) (a : List Node) (b : List (UInt8 × Nat)) :
    (n.setChildren a b).seg = n.seg := by cases n; rfl

@[simp] theorem setChildren_pattern (n : Node) (a : List Node) (b : List (UInt8 × Nat)) :
    (n.setChildren a b).pattern = n.pattern := by cases n; rfl

@[simp] theorem setChildren_handlers (n : Node) (a : List Node) (b : List (UInt8 × Nat)) :
    (n.setChildren a b).handlers = n.handlers := by cases n; rfl

@[simp] theorem setChildren_methodIndex (n : Node) (a : List Node) (b : List (UInt8 × Nat)) :
    (n.setChildren a b).methodIndex = n.methodIndex := by cases n; rfl

@[simp] theorem setChildren_indexes (n : Node) (a : List Node) (b : List (UInt8 × Nat)) :
    (n.setChildren a b).indexes = b := by cases n; rfl

@[simp] theorem setSeg_seg (n : Node) (s : Seg) : (n.setSeg s).seg = s := by cases n; rfl
@[simp] theorem setSeg_children (n : Node) (s : Seg) : (n.setSeg s).children = n.children := by cases n; rfl
@[simp] theorem setSeg_handlers (n : Node) (s : Seg) : (n.setSeg s).handlers = n.handlers := by cases n; rfl

/-- The lower half of a split node. -/
def lowerOf (c : Node) (L : Nat) : Node := c.setSeg { value := c.seg.value.drop L }

/-- The upper half of a split node. -/
def upperOf (n c : Node) (L : Nat) (s1 : Seg) (idx1 : List (UInt8 × Nat)) : Node :=
  .mk s1 (n.pattern ++ s1.value) 0 [] idx1 [lowerOf c L]

/-- The four things one level of `getNode` can do. -/
inductive GShape (ic : Interceptors) (n : Node) (v : Bytes) (rest : List Bytes) (seg : Seg) : GStep → Prop
  /-- a child with exactly this segment exists -/
  | ident (i : Nat) (c : Node) : n.children[i]? = some c → c.seg = seg →
      GShape ic n v rest seg ⟨n, i, c, restCont rest⟩
  /-- no child shares anything with the segment: a new leaf -/
  | leaf (idx : List (UInt8 × Nat)) (j : Nat) :
      (∀ d ∈ n.children, SibDisj seg d.seg) →
      (sortChildren (n.children ++ [newLeaf n.pattern seg]))[j]? = some (newLeaf n.pattern seg) →
      GShape ic n v rest seg
        ⟨n.setChildren (sortChildren (n.children ++ [newLeaf n.pattern seg])) idx, j, newLeaf n.pattern seg,
          restCont rest⟩
  /-- a child's whole text is a proper prefix of the segment: descend with the remainder -/
  | desc (i : Nat) (c : Node) (L : Nat) : n.children[i]? = some c → c.seg.value ≠ v → c.seg.kind = seg.kind →
      longestPrefix c.seg.value v = (L : Int) → 0 < L → L = c.seg.value.length → L < v.length →
      GShape ic n v rest seg ⟨n, i, c, some (v.drop L, rest)⟩
  /-- a child shares a proper prefix of its text with the segment: split it -/
  | split (i : Nat) (c : Node) (L : Nat) (s1 : Seg) (idx1 idx : List (UInt8 × Nat)) (j : Nat) :
      n.children[i]? = some c → c.seg.value ≠ v → c.seg.kind = seg.kind →
      longestPrefix c.seg.value v = (L : Int) → 0 < L → L < c.seg.value.length → L ≤ v.length →
      newSegment ic (c.seg.value.take L) = .ok s1 →
      (sortChildren (removeNodes n.children c.seg.value ++ [upperOf n c L s1 idx1]))[j]? =
        some (upperOf n c L s1 idx1) →
      GShape ic n v rest seg
        ⟨n.setChildren (sortChildren (removeNodes n.children c.seg.value ++ [upperOf n c L s1 idx1])) idx, j,
          upperOf n c L s1 idx1, if v.length ≤ L then restCont rest else some (v.drop L, rest)⟩

theorem Node.Wf.segOk {ic : Interceptors} {used : List Bytes} {n : Node} (h : Node.Wf ic used n) : SegOk ic n.seg :=
  ((Node.wf_iff ic used n).1 h).1

theorem WfL_segOk {ic : Interceptors} {used : List Bytes} {cs : List Node} (h : WfL ic used cs) :
    ∀ c ∈ cs, SegOk ic c.seg := fun _ hc => (WfL_mem h hc).segOk

/-- On a well-formed sibling list, one level of `getNode` succeeds for a segment satisfying I-seg,
in one of the four shapes. -/
theorem gnPrep_shape {ic : Interceptors} {used : List Bytes} {n : Node} {v : Bytes} (rest : List Bytes) {seg : Seg}
    (hwf : WfL ic used n.children) (hseg : newSegment ic v = .ok seg) (hvne0 : v ≠ []) (hvg : GoodPiece v) :
    ∃ s, gnPrep ic n v rest = .ok s ∧ GShape ic n v rest seg s := by
  have hsv : seg.value = v := newSegment_value ic v seg hseg
  have hvals := WfL_values hwf
  have hne : ∀ c ∈ n.children, c.seg.value ≠ [] := fun c hc => (WfL_segOk hwf c hc).ne
  unfold gnPrep
  simp only [bind, Except.bind, hseg, pure, Except.pure, throw, throwThe, MonadExceptOf.throw]
  have hscan := scanChildren_spec seg n.children 0 0 0
  cases hsc : scanChildren seg n.children 0 0 0 with
  | identical i =>
    rw [hsc] at hscan
    obtain ⟨c, _, hc, hval⟩ := hscan
    simp only [Nat.sub_zero] at hc
    simp only [hc]
    refine ⟨_, rfl, .ident i c hc ?_⟩
    have h1 := (WfL_of_getElem? hwf hc).segOk.seg
    rw [← hval, hsv, hseg] at h1
    cases h1; rfl
  | best l b =>
    rw [hsc] at hscan
    obtain ⟨a1, a2, a3, _⟩ := hscan
    simp only []
    by_cases hl : l ≤ 0
    · -- a new leaf
      simp only [hl, if_true]
      have hdis : ∀ d ∈ n.children, SibDisj seg d.seg := fun d hd =>
        similarity_le0 (Int.le_trans (a1 d hd).2 hl) (a1 d hd).1
      have hv1 : (n.children ++ [newLeaf n.pattern seg]).Pairwise (fun a b => a.seg.value ≠ b.seg.value) := by
        rw [List.pairwise_append]
        refine ⟨hvals, by simp, ?_⟩
        intro a ha b' hb
        simp only [List.mem_singleton] at hb
        subst hb
        exact fun e => (hdis a ha).1 e.symm
      have hv2 : ∀ c ∈ n.children ++ [newLeaf n.pattern seg], c.seg.value ≠ [] := by
        intro c hc
        rcases List.mem_append.1 hc with hc | hc
        · exact hne c hc
        · simp only [List.mem_singleton] at hc
          subst hc
          simpa [newLeaf, hsv] using hvne0
      obtain ⟨idx, hsort⟩ := sortNode_succeeds
        (n := n.setChildren (n.children ++ [newLeaf n.pattern seg]) n.indexes) (by simpa using hv1) (by simpa using hv2)
      simp only [setChildren_children, setChildren_setChildren] at hsort
      simp only [hsort, setChildren_children]
      have hmem : newLeaf n.pattern seg ∈ sortChildren (n.children ++ [newLeaf n.pattern seg]) :=
        (sortChildren_perm _).mem_iff.2 (by simp)
      obtain ⟨j, x, hj, hx, hxv⟩ := childPos_some (v := v) hmem (by simp [newLeaf, hsv])
      simp only [hj]
      refine ⟨_, rfl, .leaf idx j hdis ?_⟩
      have hxm : x ∈ n.children ++ [newLeaf n.pattern seg] :=
        (sortChildren_perm _).mem_iff.1 (List.mem_of_getElem? hx)
      rcases List.mem_append.1 hxm with hxm | hxm
      · exact absurd (hxv.trans hsv.symm) (fun e => (hdis x hxm).1 e.symm)
      · simp only [List.mem_singleton] at hxm
        subst hxm
        exact hx
    · -- a similar child
      have hl0 : 0 < l := by omega
      simp only [hl, if_false]
      obtain ⟨c, _, hc, hsim⟩ := a3 hl0
      simp only [Nat.sub_zero] at hc
      simp only [hc]
      rw [← hsim] at hl0
      obtain ⟨hvne, hkind, hlp⟩ := similarity_pos hl0
      have hcok := (WfL_of_getElem? hwf hc).segOk
      rw [hsv] at hvne hlp
      rw [hlp, longestPrefix_comm] at hl0
      obtain ⟨L, hL, hL0, hLc, hLv, hpre, hcut, _, s1, hs1, hw1, hk1, _, _, _, hsplit⟩ :=
        cutPoint1 hcok hseg hvg hkind.symm hl0
      have hlL : l.toNat = L := by
        rw [← hsim, hlp, longestPrefix_comm, hL]; simp
      simp only [hlL]
      unfold gnSplit
      simp only [bind, Except.bind, pure, Except.pure, throw, throwThe, MonadExceptOf.throw]
      by_cases hcl : c.seg.value.length ≤ L
      · -- no split
        have hLeq : L = c.seg.value.length := by omega
        have hvl : ¬ v.length ≤ L := by
          intro hvl
          apply hvne
          have e1 : v.take L = v := List.take_of_length_le hvl
          have e2 : c.seg.value.take L = c.seg.value := List.take_of_length_le hcl
          rw [← e1, ← e2, hpre]
        simp only [hcl, if_true, hvl, if_false]
        exact ⟨_, rfl, .desc b c L hc (fun e => hvne e.symm) hkind.symm hL hL0 hLeq (by omega)⟩
      · -- split
        have hlt : L < c.seg.value.length := by omega
        obtain ⟨hsp, hs1ok, hs2ok⟩ := hsplit hlt
        simp only [hcl, if_false, hsp]
        -- the upper half
        have hlow : ∀ c' ∈ [c.setSeg { value := c.seg.value.drop L }], c'.seg.value ≠ [] := by
          intro c' hc'
          simp only [List.mem_singleton] at hc'
          subst hc'
          simpa using hs2ok.ne
        obtain ⟨idx1, hsort1⟩ := sortNode_succeeds
          (n := Node.mk s1 (n.pattern ++ s1.value) 0 [] [] [c.setSeg { value := c.seg.value.drop L }])
          (by simp) (by simpa using hlow)
        simp only [Node.children_mk, sortChildren, List.mergeSort_singleton, Node.setChildren, Node.seg_mk,
          Node.pattern_mk, Node.methodIndex_mk, Node.handlers_mk] at hsort1
        simp only [hsort1]
        have hret : (Node.mk s1 (n.pattern ++ s1.value) 0 [] idx1 [c.setSeg { value := c.seg.value.drop L }]) =
            upperOf n c L s1 idx1 := rfl
        rw [hret]
        -- the new sibling list
        have hs1v : s1.value = c.seg.value.take L := newSegment_value ic _ s1 hs1
        have hrem := removeNodes_values (v := c.seg.value) hvals
        have hcm : c ∈ n.children := List.mem_of_getElem? hc
        have hpw := ((WfL_iff ic used n.children).1 hwf).2
        have hdis : ∀ d ∈ removeNodes n.children c.seg.value, SibDisj d.seg s1 := by
          intro d hd
          have hdm : d ∈ n.children := (removeNodes_sublist _ _).subset hd
          have hdc' : SibDisj d.seg c.seg :=
            pairwise_mem_ne (R := fun a b : Node => SibDisj a.seg b.seg) (fun a b h => h.symm) hpw hdm hcm
              (fun e => hrem d hd (by rw [e]))
          exact hdc'.take (WfL_segOk hwf d hdm) hcok hcut hs1ok hs1v hk1
        have hv1 : (removeNodes n.children c.seg.value ++ [upperOf n c L s1 idx1]).Pairwise
            (fun a b => a.seg.value ≠ b.seg.value) := by
          rw [List.pairwise_append]
          refine ⟨hvals.sublist (removeNodes_sublist _ _), by simp, ?_⟩
          intro a ha b' hb
          simp only [List.mem_singleton] at hb
          subst hb
          exact (hdis a ha).1
        have hv2 : ∀ c' ∈ removeNodes n.children c.seg.value ++ [upperOf n c L s1 idx1], c'.seg.value ≠ [] := by
          intro c' hc'
          rcases List.mem_append.1 hc' with hc' | hc'
          · exact hne c' ((removeNodes_sublist _ _).subset hc')
          · simp only [List.mem_singleton] at hc'
            subst hc'
            exact hs1ok.ne
        obtain ⟨idx, hsort⟩ := sortNode_succeeds
          (n := n.setChildren (removeNodes n.children c.seg.value ++ [upperOf n c L s1 idx1]) n.indexes)
          (by simpa using hv1) (by simpa using hv2)
        simp only [setChildren_children, setChildren_setChildren] at hsort
        simp only [hsort, setChildren_children]
        have hmem : upperOf n c L s1 idx1 ∈
            sortChildren (removeNodes n.children c.seg.value ++ [upperOf n c L s1 idx1]) :=
          (sortChildren_perm _).mem_iff.2 (by simp)
        obtain ⟨j, x, hj, hx, hxv⟩ := childPos_some (v := s1.value) hmem rfl
        simp only [hj]
        refine ⟨_, rfl, .split b c L s1 idx1 idx j hc (fun e => hvne e.symm) hkind.symm hL hL0 hlt hLv hs1 ?_⟩
        have hxm : x ∈ removeNodes n.children c.seg.value ++ [upperOf n c L s1 idx1] :=
          (sortChildren_perm _).mem_iff.1 (List.mem_of_getElem? hx)
        rcases List.mem_append.1 hxm with hxm | hxm
        · exact absurd hxv (hdis x hxm).1
        · simp only [List.mem_singleton] at hxm
          subst hxm
          exact hx


/-! ## A step re-establishes the invariant -/

theorem WfL_append_single {ic : Interceptors} {used : List Bytes} {cs : List Node} {x : Node}
    (h : WfL ic used cs) (hx : Node.Wf ic used x) (hd : ∀ d ∈ cs, SibDisj d.seg x.seg) :
    WfL ic used (cs ++ [x]) := by
  rw [WfL_iff] at *
  refine ⟨?_, ?_⟩
  · intro c hc
    rcases List.mem_append.1 hc with hc | hc
    · exact h.1 c hc
    · simp only [List.mem_singleton] at hc
      exact hc ▸ hx
  · rw [List.pairwise_append]
    refine ⟨h.2, by simp, ?_⟩
    intro a ha b hb
    simp only [List.mem_singleton] at hb
    subst hb
    exact hd a ha

theorem usedBelow_congr (used : List Bytes) {a b : Seg} (hk : a.kind = b.kind) (hn : a.name = b.name) :
    usedBelow used a = usedBelow used b := by
  unfold usedBelow; rw [hk, hn]

theorem wf_newLeaf {ic : Interceptors} {used : List Bytes} (pat : Bytes) {seg : Seg} (hok : SegOk ic seg)
    (hfresh : seg.kind = .str ∨ seg.name ∉ used) : Node.Wf ic used (newLeaf pat seg) := by
  rw [Node.wf_iff]
  exact ⟨hok, hfresh, fun _ => rfl, WfL_nil _ _⟩

/-- What the continuation of a step looks like. -/
def ContOk (v : Bytes) (rest : List Bytes) (s : GStep) : Prop :=
  (s.cont = restCont rest ∧ (lastByte s.parent.seg.value = endByte → lastByte v = endByte)) ∨
    (∃ L, 0 < L ∧ L < v.length ∧ NoBrace (v.drop L) ∧ s.cont = some (v.drop L, rest) ∧
      lastByte s.parent.seg.value ≠ endByte)

/-- After a step of one of the four shapes: the restructured sibling list is well-formed, position
`j` holds a node with the segment of `parent`, `parent` is well-formed and its segment has the kind
and name of the new segment, and the continuation is the tail of the piece list or the brace-free
remainder of the piece. -/
theorem GShape.wf {ic : Interceptors} {used : List Bytes} {n : Node} {v : Bytes} {rest : List Bytes} {seg : Seg}
    {s : GStep} (hs : GShape ic n v rest seg s) (hwf : WfL ic used n.children) (hok : SegOk ic seg)
    (hsv : seg.value = v) (hfresh : seg.kind = .str ∨ seg.name ∉ used) :
    WfL ic used s.n1.children ∧ s.n1.children[s.j]? = some s.parent ∧
      Node.Wf ic used s.parent ∧ s.parent.seg.kind = seg.kind ∧ s.parent.seg.name = seg.name ∧
      s.n1.seg = n.seg ∧ s.n1.pattern = n.pattern ∧ s.n1.handlers = n.handlers ∧
      s.n1.methodIndex = n.methodIndex ∧ ContOk v rest s := by
  cases hs with
  | ident i c hc hcs =>
    refine ⟨hwf, hc, WfL_of_getElem? hwf hc, by rw [hcs], by rw [hcs], rfl, rfl, rfl, rfl, .inl ⟨rfl, ?_⟩⟩
    simp only [hcs, hsv]
    exact id
  | leaf idx j hdis hpos =>
    have hleaf := wf_newLeaf (used := used) n.pattern hok hfresh
    refine ⟨?_, ?_, hleaf, rfl, rfl, by simp, by simp, by simp, by simp, .inl ⟨rfl, ?_⟩⟩
    · simp only [setChildren_children]
      rw [WfL_perm (sortChildren_perm _)]
      exact WfL_append_single hwf hleaf (fun d hd => (hdis d hd).symm)
    · simpa using hpos
    · simp only [newLeaf, Node.seg_mk, hsv]
      exact id
  | desc i c L hc hvne hkind hL hL0 hLeq hLv =>
    have hcw := WfL_of_getElem? hwf hc
    have hcok := hcw.segOk
    obtain ⟨L', hL', _, _, _, _, _, hdv, hname, _, _, _⟩ :=
      cutPoint hcok hok hkind (by rw [hsv, hL]; omega)
    rw [hsv, hL] at hL'
    have hLL : L' = L := by omega
    subst hLL
    rw [hsv] at hdv
    have hcut : CutAt c.seg.value L' := cutAt_of_lp hcok hok hkind (by rw [hsv]; exact hL) hL0
    refine ⟨hwf, hc, hcw, hkind, hname, rfl, rfl, rfl, rfl, .inr ⟨L', hL0, hLv, hdv, rfl, ?_⟩⟩
    have := hcut.last.1
    rwa [List.take_of_length_le (by omega)] at this
  | split i c L s1 idx1 idx j hc hvne hkind hL hL0 hLc hLv hs1 hpos =>
    have hcw := WfL_of_getElem? hwf hc
    have hcok := hcw.segOk
    obtain ⟨L', hL', _, _, _, _, hdc, hdv, hname, _, _, s1', hs1', _, hk1, hn1, _, _, hsplit⟩ :=
      cutPoint hcok hok hkind (by rw [hsv, hL]; omega)
    rw [hsv, hL] at hL'
    have hLL : L' = L := by omega
    subst hLL
    rw [hs1] at hs1'
    cases hs1'
    rw [hsv] at hdv
    obtain ⟨_, hs1ok, hs2ok⟩ := hsplit hLc
    have hs1v : s1.value = c.seg.value.take L' := newSegment_value ic _ s1 hs1
    have hcut : CutAt c.seg.value L' := cutAt_of_lp hcok hok hkind (by rw [hsv]; exact hL) hL0
    have hlast1 : lastByte s1.value ≠ endByte := by rw [hs1v]; exact hcut.last.1
    obtain ⟨_, hcfresh, _, hcch⟩ := (Node.wf_iff ic used c).1 hcw
    -- the upper half is well-formed
    have hup : Node.Wf ic used (upperOf n c L' s1 idx1) := by
      unfold upperOf
      rw [Node.wf_iff]
      simp only [Node.children_mk, Node.seg_mk]
      refine ⟨hs1ok, by rw [hk1, hn1]; exact hcfresh, fun h => absurd h hlast1, ?_⟩
      simp only [WfL, List.not_mem_nil, false_imp_iff, implies_true, and_true]
      unfold lowerOf
      rw [Node.wf_iff]
      simp only [setSeg_seg, setSeg_children]
      refine ⟨hs2ok, .inl trivial, fun h => absurd h (hdc.last_ne hs2ok.ne), ?_⟩
      have e1 : usedBelow (usedBelow used s1) { value := c.seg.value.drop L' } = usedBelow used s1 := by
        simp [usedBelow]
      rw [e1, usedBelow_congr used hk1 hn1]
      exact hcch
    have hvals := WfL_values hwf
    have hrem := removeNodes_values (v := c.seg.value) hvals
    have hcm : c ∈ n.children := List.mem_of_getElem? hc
    have hpw := ((WfL_iff ic used n.children).1 hwf).2
    have hdis : ∀ d ∈ removeNodes n.children c.seg.value, SibDisj d.seg s1 := by
      intro d hd
      have hdm : d ∈ n.children := (removeNodes_sublist _ _).subset hd
      have hdc' : SibDisj d.seg c.seg :=
        pairwise_mem_ne (R := fun a b : Node => SibDisj a.seg b.seg) (fun a b h => h.symm) hpw hdm hcm
          (fun e => hrem d hd (by rw [e]))
      exact hdc'.take (WfL_segOk hwf d hdm) hcok hcut hs1ok hs1v hk1
    refine ⟨?_, ?_, hup, by simp [upperOf, hk1, hkind], by simp [upperOf, hn1, hname], by simp, by simp,
      by simp, by simp, ?_⟩
    · simp only [setChildren_children]
      rw [WfL_perm (sortChildren_perm _)]
      exact WfL_append_single (WfL_sublist (removeNodes_sublist _ _) hwf) hup (by simpa [upperOf] using hdis)
    · simpa using hpos
    · by_cases hvl : v.length ≤ L'
      · left
        simp only [hvl, if_true, true_and]
        intro h
        exact absurd h (by simpa [upperOf] using hlast1)
      · right
        refine ⟨L', hL0, by omega, hdv, by simp [hvl], by simpa [upperOf] using hlast1⟩


/-! ## `getNode` succeeds on validated input and keeps the invariant -/

/-- What `Split` has established about the pieces still to be inserted below a node whose chain
carries the parameter names `used`. -/
structure PiecesOk (ic : Interceptors) (used : List Bytes) (v : Bytes) (rest : List Bytes) : Prop where
  split : ∃ flag segs, splitLoop ic (v :: rest) flag used = .ok segs
  wf : ∀ x ∈ v :: rest, WfPiece x
  heads : ∀ x ∈ rest, x.head? = some startByte

/-- The continuation of a step satisfies the precondition again, and the node the search continues
in does not end with `}` (so it may receive children). -/
theorem PiecesOk.cont {ic : Interceptors} {used : List Bytes} {v : Bytes} {rest : List Bytes} {seg : Seg}
    {s : GStep} (hp : PiecesOk ic used v rest) (hseg : newSegment ic v = .ok seg)
    (hk : s.parent.seg.kind = seg.kind) (hn : s.parent.seg.name = seg.name) (hc : ContOk v rest s)
    {v' : Bytes} {rest' : List Bytes} (hcont : s.cont = some (v', rest')) :
    lastByte s.parent.seg.value ≠ endByte ∧ PiecesOk ic (usedBelow used s.parent.seg) v' rest' := by
  obtain ⟨flag, segs, hsplit⟩ := hp.split
  obtain ⟨hvne, _, seg', segs', hseg', _, hrest, _⟩ := splitLoop_cons_inv hsplit
  rw [hseg] at hseg'
  cases hseg'
  rw [← usedBelow_congr used hk hn] at hrest
  rcases hc with ⟨h1, h2⟩ | ⟨L, hL0, hLv, hnb, h1, h2⟩
  · rw [h1] at hcont
    have hr := restCont_some hcont
    subst hr
    refine ⟨?_, ⟨_, _, hrest⟩, fun x hx => hp.wf x (List.mem_cons_of_mem _ hx),
      fun x hx => hp.heads x (List.mem_cons_of_mem _ hx)⟩
    intro hlast
    have := (splitLoop_cons_inv hrest).2.1
    exact this ⟨by simpa using h2 hlast, hp.heads v' (by simp)⟩
  · rw [h1] at hcont
    simp only [Option.some.injEq, Prod.mk.injEq] at hcont
    obtain ⟨rfl, rfl⟩ := hcont
    have hdne : v.drop L ≠ [] := by
      intro e
      have := congrArg List.length e
      simp at this
      omega
    have hlen : (v.drop L).length ≤ maxInt16 := by
      have := newSegment_len hseg
      simp; omega
    rw [← lastByte_drop hLv] at hrest
    refine ⟨h2, ⟨false, _, splitLoop_lit false hnb hdne hlen hrest⟩, ?_, hp.heads⟩
    intro x hx
    rcases List.mem_cons.1 hx with rfl | hx
    · exact .inl hnb
    · exact hp.wf x (List.mem_cons_of_mem _ hx)

/-- **`getNode` cannot fail after the validation.** On a well-formed sibling list, for pieces that
`Split` accepted (well-formed, the later ones starting with `{`): `getNode` succeeds, the
restructured sibling list is well-formed again, and the node it was called on keeps its segment,
pattern, handlers and method index. -/
theorem getNode_wf (ic : Interceptors) (n : Node) (v : Bytes) (rest : List Bytes) :
    ∀ used, WfL ic used n.children → PiecesOk ic used v rest →
      ∃ r, getNode ic n v rest = .ok r ∧ WfL ic used r.1.children ∧ r.1.seg = n.seg ∧
        r.1.pattern = n.pattern ∧ r.1.handlers = n.handlers ∧ r.1.methodIndex = n.methodIndex := by
  induction n, v, rest using getNode_induction ic with
  | step n v rest ih =>
    intro used hwf hp
    obtain ⟨flag, segs, hsplit⟩ := hp.split
    obtain ⟨hvne, _, seg, segs', hseg, hfresh, _, _⟩ := splitLoop_cons_inv hsplit
    have hok : SegOk ic seg := SegOk.of_newSegment hseg (hp.wf v (by simp)) hvne
    have hsv : seg.value = v := newSegment_value ic v seg hseg
    obtain ⟨s, hprep, hshape⟩ := gnPrep_shape rest hwf hseg hvne (hp.wf v (by simp)).good
    obtain ⟨hwf1, hx, hpar, hk, hn, e1, e2, e3, e4, hcontok⟩ := hshape.wf hwf hok hsv hfresh
    rw [getNode_eq, hprep]
    simp only [gnFinish]
    cases hcont : s.cont with
    | none => exact ⟨_, rfl, hwf1, e1, e2, e3, e4⟩
    | some vr =>
      obtain ⟨v', rest'⟩ := vr
      obtain ⟨hlast, hp'⟩ := hp.cont hseg hk hn hcontok hcont
      obtain ⟨_, hpfresh, _, hpch⟩ := (Node.wf_iff ic used s.parent).1 hpar
      obtain ⟨r', hr', hwf', f1, _, _, _⟩ := ih s v' rest' hprep hcont _ hpch hp'
      simp only [bind, Except.bind, hr', pure, Except.pure]
      refine ⟨_, rfl, ?_, by simpa using e1, by simpa using e2, by simpa using e3, by simpa using e4⟩
      simp only [setChildren_children]
      refine WfL_set hwf1 hx f1 ?_
      rw [Node.wf_iff, f1]
      exact ⟨hpar.segOk, hpfresh, fun h => absurd h hlast, hwf'⟩

end Mux.P9
