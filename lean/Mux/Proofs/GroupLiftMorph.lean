/-
  Mux.Proofs.GroupLiftMorph — the matcher is PARAMETRIC in the incoming parameters: which children are tried, which
  node is reported and where the search faults depend on the path only; the parameter map is only written
  (`set name capture`, `restoreParam … name` of an abandoned child).  Hence every relation between two parameter maps that is
  preserved by a simultaneous `set` / `erase` is preserved by `matchChildren` and by `Tree.handler`.

  After the D30 repair the undo of an abandoned child is `restoreParam before after name` (put the value of `name`
  from before the child was tried back, or delete it): `Closed.restore` asks for exactly that step.  The stronger law
  that the repair makes true (a miss leaves the parameters exactly as they were, whatever the names) is in
  `Mux/Proofs/RestoreMatch.lean`; the relations `R1`/`R2` of this file remain closed and are kept for the lookup forms.

  Used to transfer the exact parameter law of `C01_found_from` (incoming keys disjoint from the names of the tree)
  to ARBITRARY incoming parameters, e.g. the captures of a `Group` matcher.
-/
import Mux.Proofs.HandlerSound
import Mux.Proofs.Params
import Mux.Proofs.Restore
namespace Mux.P18
open Mux

/-- Two results of the matcher agree up to `R` on the parameters. -/
def MRRel (R : Params → Params → Prop) : MR → MR → Prop
  | .fault s, .fault s' => s = s'
  | .unsupported, .unsupported => True
  | .miss a, .miss b => R a b
  | .hit m a, .hit m' b => m = m' ∧ R a b
  | _, _ => False

/-- `R` is preserved by the two updates the matcher performs. -/
structure Closed (R : Params → Params → Prop) : Prop where
  set : ∀ a b x v, R a b → R (a.set x v) (b.set x v)
  restore : ∀ a b a2 b2 x, R a b → R a2 b2 → R (restoreParam a a2 x) (restoreParam b b2 x)

theorem Closed.record {R : Params → Params → Prop} (hR : Closed R) (s : Seg) (cap : Bytes) {a b : Params}
    (h : R a b) : R (if s.kind ≠ .str ∧ ¬ s.ignoreName then a.set s.name cap else a)
      (if s.kind ≠ .str ∧ ¬ s.ignoreName then b.set s.name cap else b) := by
  split
  · exact hR.set a b _ _ h
  · exact h

theorem MRRel.miss_left {R : Params → Params → Prop} {a : Params} {y : MR} (h : MRRel R (.miss a) y) :
    ∃ b, y = .miss b ∧ R a b := by
  cases y <;> simp only [MRRel] at h
  exact ⟨_, rfl, h⟩

theorem MRRel.hit_left {R : Params → Params → Prop} {m : Node} {a : Params} {y : MR} (h : MRRel R (.hit m a) y) :
    ∃ b, y = .hit m b ∧ R a b := by
  cases y <;> simp only [MRRel] at h
  obtain ⟨rfl, h⟩ := h
  exact ⟨_, rfl, h⟩

theorem MRRel.fault_left {R : Params → Params → Prop} {s : Nat} {y : MR} (h : MRRel R (.fault s) y) : y = .fault s := by
  cases y <;> simp only [MRRel] at h
  subst h; rfl

theorem MRRel.unsupported_left {R : Params → Params → Prop} {y : MR} (h : MRRel R .unsupported y) :
    y = .unsupported := by
  cases y <;> simp only [MRRel] at h
  rfl

mutual
theorem matchChildren_rel (env : Env) (ic : Interceptors) {R : Params → Params → Prop} (hR : Closed R) :
    (n : Node) → (path : Bytes) → (a b : Params) → R a b →
      MRRel R (n.matchChildren env ic path a) (n.matchChildren env ic path b)
  | .mk seg pat mi hs idx cs, path, a, b, hab => by
    rw [Node.matchChildren_eq, Node.matchChildren_eq]
    have hfast : MRRel R (fastPath env ic idx cs path a) (fastPath env ic idx cs path b) := by
      unfold fastPath
      split
      · exact matchAt_rel env ic hR cs _ _ a b hab
      · exact hab
    cases hfa : fastPath env ic idx cs path a with
    | fault s => rw [hfa] at hfast; rw [hfast.fault_left]; rfl
    | unsupported => rw [hfa] at hfast; rw [hfast.unsupported_left]; trivial
    | hit m a' =>
      rw [hfa] at hfast
      obtain ⟨b', hb', hr⟩ := hfast.hit_left
      rw [hb']; exact ⟨rfl, hr⟩
    | miss a1 =>
      rw [hfa] at hfast
      obtain ⟨b1, hb1, hr1⟩ := hfast.miss_left
      rw [hb1]
      simp only
      have hfrom := matchFrom_rel env ic hR cs idx.length path a1 b1 hr1
      cases hma : matchFrom env ic cs idx.length path a1 with
      | fault s => rw [hma] at hfrom; rw [hfrom.fault_left]; rfl
      | unsupported => rw [hma] at hfrom; rw [hfrom.unsupported_left]; trivial
      | hit m a' =>
        rw [hma] at hfrom
        obtain ⟨b', hb', hr⟩ := hfrom.hit_left
        rw [hb']; exact ⟨rfl, hr⟩
      | miss a2 =>
        rw [hma] at hfrom
        obtain ⟨b2, hb2, hr2⟩ := hfrom.miss_left
        rw [hb2]
        simp only
        split
        · exact ⟨rfl, hr2⟩
        · exact hr2

theorem matchAt_rel (env : Env) (ic : Interceptors) {R : Params → Params → Prop} (hR : Closed R) :
    (cs : List Node) → (i : Nat) → (path : Bytes) → (a b : Params) → R a b →
      MRRel R (matchAt env ic cs i path a) (matchAt env ic cs i path b)
  | [], _, _, _, _, _ => by rw [matchAt, matchAt]; rfl
  | c :: cs, 0, path, a, b, hab => by
    rw [matchAt, matchAt]
    cases hm : c.seg.match env ic path with
    | no => exact hab
    | unsupported => trivial
    | yes cap rest =>
      simp only
      exact matchChildren_rel env ic hR c rest _ _ (hR.record c.seg cap hab)
  | _ :: cs, i + 1, path, a, b, hab => by
    rw [matchAt, matchAt]
    exact matchAt_rel env ic hR cs i path a b hab

theorem matchFrom_rel (env : Env) (ic : Interceptors) {R : Params → Params → Prop} (hR : Closed R) :
    (cs : List Node) → (skip : Nat) → (path : Bytes) → (a b : Params) → R a b →
      MRRel R (matchFrom env ic cs skip path a) (matchFrom env ic cs skip path b)
  | [], _, _, _, _, hab => by rw [matchFrom, matchFrom]; exact hab
  | _ :: cs, skip + 1, path, a, b, hab => by
    rw [matchFrom, matchFrom]
    exact matchFrom_rel env ic hR cs skip path a b hab
  | c :: cs, 0, path, a, b, hab => by
    rw [matchFrom, matchFrom]
    cases hm : c.seg.match env ic path with
    | no => exact matchFrom_rel env ic hR cs 0 path a b hab
    | unsupported => trivial
    | yes cap rest =>
      simp only
      have ih := matchChildren_rel env ic hR c rest _ _ (hR.record c.seg cap hab)
      cases hma : Node.matchChildren env ic c rest
          (if c.seg.kind ≠ .str ∧ ¬ c.seg.ignoreName then a.set c.seg.name cap else a) with
      | fault s => rw [hma] at ih; rw [ih.fault_left]; rfl
      | unsupported => rw [hma] at ih; rw [ih.unsupported_left]; trivial
      | hit m a' =>
        rw [hma] at ih
        obtain ⟨b', hb', hr⟩ := ih.hit_left
        rw [hb']; exact ⟨rfl, hr⟩
      | miss a2 =>
        rw [hma] at ih
        obtain ⟨b2, hb2, hr2⟩ := ih.miss_left
        rw [hb2]
        simp only
        exact matchFrom_rel env ic hR cs 0 path _ _ (hR.restore a b a2 b2 _ hab hr2)
end

/-! ## `Tree.handler` -/

/-- Two answers of `Tree.handler` agree up to `R` on the parameters. -/
def HRRel (R : Params → Params → Prop) : HR → HR → Prop
  | .fault s, .fault s' => s = s'
  | .unsupported, .unsupported => True
  | .res f, .res f' => f.node = f'.node ∧ f.handler = f'.handler ∧ f.ok = f'.ok ∧ R f.params f'.params
  | _, _ => False

theorem handlerNoTrace_rel (env : Env) (t : Tree) {R : Params → Params → Prop} (hR : Closed R) (path method : Bytes)
    (a b : Params) (hab : R a b) :
    HRRel R (Tree.handler.Tree.handlerNoTrace env t path a method) (Tree.handler.Tree.handlerNoTrace env t path b method) := by
  unfold Tree.handler.Tree.handlerNoTrace
  have hm : MRRel R (if path = [42] ∨ path = [] then MR.hit t.root a else t.root.matchChildren env t.ic path a)
      (if path = [42] ∨ path = [] then MR.hit t.root b else t.root.matchChildren env t.ic path b) := by
    split
    · exact ⟨rfl, hab⟩
    · exact matchChildren_rel env t.ic hR t.root path a b hab
  simp only
  cases hra : (if path = [42] ∨ path = [] then MR.hit t.root a else t.root.matchChildren env t.ic path a) with
  | fault s => rw [hra] at hm; rw [hm.fault_left]; rfl
  | unsupported => rw [hra] at hm; rw [hm.unsupported_left]; trivial
  | miss a' =>
    rw [hra] at hm
    obtain ⟨b', hb', hr⟩ := hm.miss_left
    rw [hb']; exact ⟨rfl, rfl, rfl, hr⟩
  | hit m a' =>
    rw [hra] at hm
    obtain ⟨b', hb', hr⟩ := hm.hit_left
    rw [hb']
    simp only
    split
    · exact ⟨rfl, rfl, rfl, hr⟩
    · split
      · exact ⟨rfl, rfl, rfl, hr⟩
      · split
        · exact ⟨rfl, rfl, rfl, hr⟩
        · exact ⟨rfl, rfl, rfl, hr⟩

/-- **Parametricity of `Tree.handler`**: the answers for two incoming parameter maps related by a closed relation
report the same node, the same handler and the same `ok`, and related parameters. -/
theorem handler_rel (env : Env) (t : Tree) {R : Params → Params → Prop} (hR : Closed R) (path method : Bytes)
    (a b : Params) (hab : R a b) : HRRel R (t.handler env path a method) (t.handler env path b method) := by
  unfold Tree.handler
  split
  · split
    · exact ⟨rfl, rfl, rfl, hab⟩
    · exact handlerNoTrace_rel env t hR path method a b hab
  · exact handlerNoTrace_rel env t hR path method a b hab

theorem HRRel.res_left {R : Params → Params → Prop} {f : Found} {y : HR} (h : HRRel R (.res f) y) :
    ∃ f', y = .res f' ∧ f.node = f'.node ∧ f.handler = f'.handler ∧ f.ok = f'.ok ∧ R f.params f'.params := by
  cases y <;> simp only [HRRel] at h
  exact ⟨_, rfl, h⟩

/-! ## The relations used -/

variable {V : Type}

theorem get?_set_self (m : AMap V) (k : Bytes) (v : V) : (m.set k v).get? k = some v := by
  rw [AMap.get?_set]; simp

theorem get?_set_other (m : AMap V) {k k' : Bytes} (v : V) (h : k' ≠ k) : (m.set k v).get? k' = m.get? k' := by
  rw [AMap.get?_set]; simp [h]

theorem get?_erase_self (m : AMap V) (k : Bytes) : (m.erase k).get? k = none := by
  rw [AMap.get?_erase]; simp

theorem get?_erase_other (m : AMap V) {k k' : Bytes} (h : k' ≠ k) : (m.erase k).get? k' = m.get? k' := by
  rw [AMap.get?_erase]; simp [h]

/-- `R1 D a b`: `a` agrees with `b` on every key outside `D` and on every key that `b` has. -/
def R1 (D : List Bytes) (a b : Params) : Prop :=
  ∀ k, (k ∉ D ∨ (b.get? k).isSome = true) → a.get? k = b.get? k

theorem R1.closed (D : List Bytes) : Closed (R1 D) where
  set := by
    intro a b x v h k hk
    by_cases hx : k = x
    · subst hx; rw [get?_set_self, get?_set_self]
    · rw [get?_set_other _ _ hx, get?_set_other _ _ hx]
      rw [get?_set_other _ _ hx] at hk
      exact h k hk
  restore := by
    intro a b a2 b2 x h h2 k hk
    rw [P19.get?_restoreParam, P19.get?_restoreParam]
    rw [P19.get?_restoreParam] at hk
    by_cases hx : k = x
    · subst hx
      rw [if_pos rfl, if_pos rfl]
      rw [if_pos rfl] at hk
      exact h k hk
    · rw [if_neg hx, if_neg hx]
      rw [if_neg hx] at hk
      exact h2 k hk

/-- `R2 ps a b`: every key of `a` has the value it has in `ps`, or none, or the value it has in `b`. -/
def R2 (ps : Params) (a b : Params) : Prop :=
  ∀ k, a.get? k = ps.get? k ∨ a.get? k = none ∨ a.get? k = b.get? k

theorem R2.closed (ps : Params) : Closed (R2 ps) where
  set := by
    intro a b x v h k
    by_cases hx : k = x
    · subst hx; rw [get?_set_self, get?_set_self]; exact .inr (.inr rfl)
    · rw [get?_set_other _ _ hx, get?_set_other _ _ hx]; exact h k
  restore := by
    intro a b a2 b2 x h h2 k
    rw [P19.get?_restoreParam, P19.get?_restoreParam]
    by_cases hx : k = x
    · subst hx
      rw [if_pos rfl, if_pos rfl]
      exact h k
    · rw [if_neg hx, if_neg hx]; exact h2 k

theorem Closed.and {R S : Params → Params → Prop} (hR : Closed R) (hS : Closed S) :
    Closed (fun a b => R a b ∧ S a b) where
  set := fun a b x v h => ⟨hR.set a b x v h.1, hS.set a b x v h.2⟩
  restore := fun a b a2 b2 x h h2 => ⟨hR.restore a b a2 b2 x h.1 h2.1, hS.restore a b a2 b2 x h.2 h2.2⟩

/-- The incoming parameters without the keys in `D`. -/
def dropKeys (D : List Bytes) (ps : Params) : Params := ps.filter (fun e => decide (e.1 ∉ D))

theorem dropKeys_keys (D : List Bytes) (ps : Params) : ∀ k ∈ (dropKeys D ps).keys, k ∉ D ∧ k ∈ ps.keys := by
  intro k hk
  simp only [dropKeys, AMap.keys, List.mem_map, List.mem_filter] at hk
  obtain ⟨e, ⟨he, hd⟩, rfl⟩ := hk
  exact ⟨by simpa using hd, List.mem_map_of_mem he⟩

theorem get?_dropKeys (D : List Bytes) (ps : Params) {k : Bytes} (hk : k ∉ D) : (dropKeys D ps).get? k = ps.get? k := by
  unfold dropKeys
  induction ps with
  | nil => rfl
  | cons e ps ih =>
    by_cases he : e.1 ∈ D
    · have : ¬ e.1 = k := fun x => hk (x ▸ he)
      rw [List.filter_cons_of_neg (by simp [he]), ih, AMap.get?_cons, if_neg this]
    · rw [List.filter_cons_of_pos (by simp [he]), AMap.get?_cons, AMap.get?_cons, ih]

theorem get?_dropKeys_mem (D : List Bytes) (ps : Params) {k : Bytes} (hk : k ∈ D) : (dropKeys D ps).get? k = none := by
  simp only [dropKeys, AMap.get?, Option.map_eq_none_iff, List.find?_eq_none, List.mem_filter]
  intro e he
  have : e.1 ∉ D := by simpa using he.2
  simpa using fun x : e.1 = k => this (x ▸ hk)

theorem dropKeys_eq_self (D : List Bytes) (ps : Params) (h : ∀ k ∈ ps.keys, k ∉ D) : dropKeys D ps = ps := by
  unfold dropKeys
  rw [List.filter_eq_self]
  intro e he
  simpa using h e.1 (List.mem_map_of_mem he)

theorem R1_start (D : List Bytes) (ps : Params) : R1 D ps (dropKeys D ps) := by
  intro k hk
  by_cases hD : k ∈ D
  · rcases hk with hk | hk
    · exact absurd hD hk
    · rw [get?_dropKeys_mem D ps hD] at hk; cases hk
  · exact (get?_dropKeys D ps hD).symm

theorem R2_start (ps b : Params) : R2 ps ps b := fun _ => .inl rfl

end Mux.P18
