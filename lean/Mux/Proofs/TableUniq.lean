/-
  Mux.Proofs.TableUniq — consequences of the invariant `Sh`: the patterns of the nodes below a node
  are pairwise distinct, and `findPath` finds the node with a given pattern whenever one exists.
-/
import Mux.Proofs.TableGetNode
namespace Mux.P11
open Mux

/-! ## Patterns below a node extend the node's pattern -/

theorem below_pattern (ic : Interceptors) :
    (∀ n : Node, Node.All (Sh ic) n → ∀ x ∈ nodesL n.children, ∃ r, r ≠ [] ∧ x.pattern = n.pattern ++ r) := by
  intro n
  induction n using Node.rec (motive_2 := fun cs => ∀ pp, ShL ic pp cs → AllL (Sh ic) cs →
      ∀ x ∈ nodesL cs, ∃ r, r ≠ [] ∧ x.pattern = pp ++ r) with
  | mk s p mi hs idx cs ih =>
    intro h x hx
    exact ih p h.1 h.2 x hx
  | nil => rename_i pp _ _ x hx; simp [nodesL] at hx
  | cons c cs ih1 ih2 =>
    rename_i pp hsh hall x hx
    rw [nodesL_cons] at hx
    obtain ⟨hco, _, hsho⟩ := ShL_cons.1 hsh
    rw [AllL_cons_iff] at hall
    rcases List.mem_cons.1 hx with rfl | hx
    · exact ⟨x.seg.value, hco.1.ne_nil, hco.2.2.1⟩
    · rcases List.mem_append.1 hx with hx | hx
      · obtain ⟨r, hr, e⟩ := ih1 hall.1 x hx
        refine ⟨c.seg.value ++ r, by simp [hr], ?_⟩
        rw [e, hco.2.2.1]; simp
      · exact ih2 pp hsho hall.2 x hx

/-- A node of the subtree of `c` is `c` itself or lies strictly below it. -/
theorem subtree_pattern {ic : Interceptors} {c x : Node} (hc : Node.All (Sh ic) c) (hx : x ∈ c.nodes) :
    x = c ∨ (x ∈ nodesL c.children ∧ ∃ r, r ≠ [] ∧ x.pattern = c.pattern ++ r) := by
  rw [Node.nodes_eq] at hx
  rcases List.mem_cons.1 hx with h | h
  · exact .inl h
  · exact .inr ⟨h, below_pattern ic c hc x h⟩

theorem nodesL_nil_of_children {c x : Node} (h : c.children = []) (hx : x ∈ nodesL c.children) : False := by
  rw [h] at hx; simp [nodesL] at hx

theorem prefix_antisymm {α} {a b : List α} (h1 : a <+: b) (h2 : b <+: a) : a = b := by
  obtain ⟨t, rfl⟩ := h1
  obtain ⟨u, hu⟩ := h2
  have := congrArg List.length hu
  simp only [List.length_append] at this
  have ht : t = [] := List.eq_nil_of_length_eq_zero (by omega)
  simp [ht]

/-- Nodes in the subtrees of two different siblings have different patterns. -/
theorem sibling_patterns_ne {ic : Interceptors} {pp : Bytes} {c d x y : Node}
    (hc : ChildOk ic pp c) (hd : ChildOk ic pp d) (hk : ckey c ≠ ckey d)
    (hca : Node.All (Sh ic) c) (hda : Node.All (Sh ic) d)
    (hx : x ∈ c.nodes) (hy : y ∈ d.nodes) : x.pattern ≠ y.pattern := by
  -- the one-sided argument
  have key : ∀ {c d x y : Node}, ChildOk ic pp c → ChildOk ic pp d → ckey c ≠ ckey d →
      Node.All (Sh ic) c → Node.All (Sh ic) d → x ∈ c.nodes → y ∈ d.nodes →
      c.seg.value <+: d.seg.value → x.pattern ≠ y.pattern := by
    intro c d x y hc hd hk hca hda hx hy hpre e
    have hcl : Closed c.seg.value := closed_of_prefix hc.1 hd.1 hk hpre
    have hcc := hc.2.2.2 hcl
    have hxc : x = c := by
      rcases subtree_pattern hca hx with h | ⟨h, _⟩
      · exact h
      · exact (nodesL_nil_of_children hcc h).elim
    subst hxc
    have hyp : ∃ r, y.pattern = d.pattern ++ r := by
      rcases subtree_pattern hda hy with h | ⟨_, r, _, h⟩
      · exact ⟨[], by simp [h]⟩
      · exact ⟨r, h⟩
    obtain ⟨r, hr⟩ := hyp
    rw [hr, hc.2.2.1, hd.2.2.1, List.append_assoc] at e
    have e' := List.append_cancel_left e
    have : d.seg.value <+: x.seg.value := ⟨r, e'.symm⟩
    exact hk (by unfold ckey; rw [prefix_antisymm hpre this])
  intro e
  have hxp : ∃ r, x.pattern = pp ++ c.seg.value ++ r := by
    rcases subtree_pattern hca hx with h | ⟨_, r, _, h⟩
    · exact ⟨[], by simp [h, hc.2.2.1]⟩
    · exact ⟨r, by rw [h, hc.2.2.1]⟩
  have hyp : ∃ r, y.pattern = pp ++ d.seg.value ++ r := by
    rcases subtree_pattern hda hy with h | ⟨_, r, _, h⟩
    · exact ⟨[], by simp [h, hd.2.2.1]⟩
    · exact ⟨r, by rw [h, hd.2.2.1]⟩
  obtain ⟨r1, h1⟩ := hxp
  obtain ⟨r2, h2⟩ := hyp
  rw [h1, h2, List.append_assoc, List.append_assoc] at e
  have e' := List.append_cancel_left e
  have hcmp : c.seg.value <+: d.seg.value ∨ d.seg.value <+: c.seg.value := by
    have p1 : c.seg.value <+: c.seg.value ++ r1 := List.prefix_append _ _
    have p2 : d.seg.value <+: c.seg.value ++ r1 := by rw [e']; exact List.prefix_append _ _
    by_cases hle : c.seg.value.length ≤ d.seg.value.length
    · exact .inl (List.prefix_of_prefix_length_le p1 p2 hle)
    · exact .inr (List.prefix_of_prefix_length_le p2 p1 (by omega))
  rcases hcmp with h | h
  · exact key hc hd hk hca hda hx hy h (by rw [h1, h2, List.append_assoc, List.append_assoc, e'])
  · exact key hd hc (fun e => hk e.symm) hda hca hy hx h (by rw [h1, h2, List.append_assoc, List.append_assoc, e'])

theorem mem_nodesL {cs : List Node} {x : Node} : x ∈ nodesL cs ↔ ∃ c ∈ cs, x ∈ c.nodes := by
  induction cs with
  | nil => simp [nodesL]
  | cons c cs ih =>
    rw [nodesL_cons]
    simp only [List.mem_cons, List.mem_append, ih, exists_eq_or_imp, Node.nodes_eq]
    constructor
    · rintro (h | h | h)
      · exact .inl (.inl h)
      · exact .inl (.inr h)
      · exact .inr h
    · rintro ((h | h) | h)
      · exact .inl h
      · exact .inr (.inl h)
      · exact .inr (.inr h)

/-- The patterns of the nodes below a node are pairwise distinct. -/
theorem patterns_nodup (ic : Interceptors) :
    ∀ n : Node, Node.All (Sh ic) n → ((nodesL n.children).map (·.pattern)).Nodup := by
  intro n
  induction n using Node.rec (motive_2 := fun cs => ∀ pp, ShL ic pp cs → AllL (Sh ic) cs →
      ((nodesL cs).map (·.pattern)).Nodup) with
  | mk s p mi hs idx cs ih => intro h; exact ih p h.1 h.2
  | nil => simp [nodesL]
  | cons c cs ih1 ih2 =>
    rename_i pp hsh hall
    obtain ⟨hco, hkeys, hsho⟩ := ShL_cons.1 hsh
    rw [AllL_cons_iff] at hall
    have hself : c ∈ c.nodes := by rw [Node.nodes_eq]; simp
    rw [nodesL_cons]
    simp only [List.map_cons, List.map_append, List.nodup_cons, List.mem_append, List.mem_map, not_or,
      not_exists, not_and, List.nodup_append]
    refine ⟨⟨?_, ?_⟩, ih1 hall.1, ih2 pp hsho hall.2, ?_⟩
    · intro x hx e
      obtain ⟨r, hr, hxr⟩ := below_pattern ic c hall.1 x hx
      rw [hxr] at e
      have := congrArg List.length e
      simp at this
      exact hr this
    · intro y hy e
      obtain ⟨d, hd, hyd⟩ := mem_nodesL.1 hy
      exact sibling_patterns_ne hco (hsho.1 d hd) (fun e => hkeys d hd e.symm) hall.1
        ((AllL_iff _ _).1 hall.2 d hd) hself hyd e.symm
    · intro a ha b hb
      obtain ⟨x, hx, rfl⟩ := ha
      obtain ⟨y, hy, rfl⟩ := hb
      obtain ⟨d, hd, hyd⟩ := mem_nodesL.1 hy
      have hxc : x ∈ c.nodes := by rw [Node.nodes_eq]; simp [hx]
      exact sibling_patterns_ne hco (hsho.1 d hd) (fun e => hkeys d hd e.symm) hall.1
        ((AllL_iff _ _).1 hall.2 d hd) hxc hyd

/-- Two nodes below a node with the same pattern are the same node. -/
theorem node_unique {ic : Interceptors} {n x y : Node} (hn : Node.All (Sh ic) n)
    (hx : x ∈ nodesL n.children) (hy : y ∈ nodesL n.children) (e : x.pattern = y.pattern) : x = y :=
  eq_of_map_nodup (patterns_nodup ic n hn) hx hy e

end Mux.P11
