/-
  Mux.Proofs.ConcProg — two further invariants of the abstract readers/writer semantics
  (`Mux.Proofs.RWLock`), both generic in the system `S`:

  * `progInv_reachable` — nothing is executed that is not in a program: every operation still to be
    run by thread `j`, in flight in thread `j`, or recorded as completed by thread `j` is an element of
    `progs j`, and every operation of the writer order `wlog` is an element of some `progs j`.
    (Needed to transport a hypothesis on the PROGRAMS — "every registered pattern is well-formed",
    "no thread removes q" — to every state of the linearization order.)

  * `seqInv_reachable` — program order is real-time order: the completed operations of one thread, in
    order of return, followed by its operation in flight, followed by the rest of its program, ARE its
    program; and an operation of a thread returned before the next one of the same thread was invoked.
    (Needed to apply the real-time clause of `atomic_reachable` to two operations of one thread.)
-/
import Mux.Proofs.RWLock
namespace Mux.RWLock
variable {S : Sys}

/-! ## Everything executed comes from a program -/

def ProgInv (progs : Nat → List S.Op) (c : Config S) : Prop :=
  (∀ j, (∀ op ∈ (c.thr j).prog, op ∈ progs j) ∧ ∀ v, (c.thr j).ph.call? = some v → v.op ∈ progs j) ∧
  (∀ op ∈ c.wlog, ∃ j, op ∈ progs j) ∧
  (∀ r ∈ c.done, r.call.op ∈ progs r.tid)

theorem progInv_init (s0 : S.σ) (progs : Nat → List S.Op) : ProgInv progs (Config.init s0 progs) :=
  ⟨fun _ => ⟨fun _ h => h, by simp [Config.init, Phase.call?]⟩, by simp [Config.init], by simp [Config.init]⟩

theorem progInv_step {progs : Nat → List S.Op} {c c' : Config S} (h : ProgInv progs c) (hs : Step c c') :
    ProgInv progs c' := by
  obtain ⟨h1, h2, h3⟩ := h
  cases hs with
  | invoke i op rest hi =>
    refine ⟨fun j => ?_, h2, h3⟩
    have := h1 i
    dsimp only
    by_cases hji : j = i
    · subst hji; simp only [upd_same]; rw [hi] at this
      refine ⟨fun o ho => this.1 o (by simp [ho]), fun v hv => ?_⟩
      simp [Phase.call?] at hv; subst hv; exact this.1 op (by simp)
    · rw [upd_other _ _ _ _ hji]; exact h1 j
  | acquire i p v hi en =>
    refine ⟨fun j => ?_, h2, h3⟩
    have := h1 i
    dsimp only
    by_cases hji : j = i
    · subst hji; simp only [upd_same]; rw [hi] at this; simpa [Phase.call?] using this
    · rw [upd_other _ _ _ _ hji]; exact h1 j
  | access i p v a todo lp hi =>
    refine ⟨fun j => ?_, h2, h3⟩
    have := h1 i
    dsimp only
    by_cases hji : j = i
    · subst hji; simp only [upd_same]; rw [hi] at this; simpa [Phase.call?] using this
    · rw [upd_other _ _ _ _ hji]; exact h1 j
  | commit i p v todo hi =>
    have hthis := h1 i
    rw [hi] at hthis
    have hv : v.op ∈ progs i := hthis.2 v (by simp [Phase.call?])
    refine ⟨fun j => ?_, ?_, h3⟩
    · dsimp only
      by_cases hji : j = i
      · subst hji; simp only [upd_same]; simpa [Phase.call?] using hthis
      · rw [upd_other _ _ _ _ hji]; exact h1 j
    · intro op ho
      dsimp only at ho
      split at ho
      · rw [List.mem_append, List.mem_singleton] at ho
        rcases ho with ho | rfl
        · exact h2 op ho
        · exact ⟨i, hv⟩
      · exact h2 op ho
  | release i p v r k hi =>
    have hthis := h1 i
    rw [hi] at hthis
    have hv : v.op ∈ progs i := hthis.2 v (by simp [Phase.call?])
    refine ⟨fun j => ?_, h2, ?_⟩
    · dsimp only
      by_cases hji : j = i
      · subst hji; simp only [upd_same]; exact ⟨hthis.1, by simp [Phase.call?]⟩
      · rw [upd_other _ _ _ _ hji]; exact h1 j
    · intro x hx
      dsimp only at hx
      rw [List.mem_append, List.mem_singleton] at hx
      rcases hx with hx | rfl
      · exact h3 x hx
      · exact hv

theorem progInv_reachable {s0 : S.σ} {progs : Nat → List S.Op} {c : Config S}
    (h : Reachable s0 progs c) : ProgInv progs c := by
  induction h with
  | init => exact progInv_init s0 progs
  | step _ hs ih => exact progInv_step ih hs

/-- Every operation of the writer order is an operation of some thread's program. -/
theorem wlog_subset {s0 : S.σ} {progs : Nat → List S.Op} {c : Config S}
    (h : Reachable s0 progs c) : ∀ op ∈ c.wlog, ∃ j, op ∈ progs j := (progInv_reachable h).2.1

/-- Every completed operation is an operation of the program of the thread that ran it. -/
theorem done_subset {s0 : S.σ} {progs : Nat → List S.Op} {c : Config S}
    (h : Reachable s0 progs c) : ∀ r ∈ c.done, r.call.op ∈ progs r.tid := (progInv_reachable h).2.2

/-! ## Program order is real-time order -/

/-- The operations thread `j` has completed, in order of return. -/
def Config.doneOf (c : Config S) (j : Nat) : List (Rec S) := c.done.filter (fun r => r.tid = j)

def SeqInv (progs : Nat → List S.Op) (c : Config S) : Prop :=
  (∀ j, (c.doneOf j).map (·.call.op) ++ ((c.thr j).ph.call?.toList.map (·.op)) ++ (c.thr j).prog = progs j) ∧
  (∀ r ∈ c.done, r.tEnd < c.now ∧ ∀ v, (c.thr r.tid).ph.call? = some v → r.tEnd ≤ v.tStart) ∧
  c.done.Pairwise (fun A B => A.tid = B.tid → A.tEnd ≤ B.call.tStart)

theorem seqInv_init (s0 : S.σ) (progs : Nat → List S.Op) : SeqInv progs (Config.init s0 progs) :=
  ⟨by simp [Config.init, Config.doneOf, Phase.call?], by simp [Config.init], by simp [Config.init]⟩

theorem call?_tStart_lt {s0 : S.σ} {c : Config S} (hA : AtomicInv s0 c) {j : Nat} {v : Call S}
    (hv : (c.thr j).ph.call? = some v) : v.tStart < c.now := (hA.phase j).tStart_lt hv

theorem seqInv_step {s0 : S.σ} {progs : Nat → List S.Op} {c c' : Config S} (hA : AtomicInv s0 c)
    (h : SeqInv progs c) (hs : Step c c') : SeqInv progs c' := by
  obtain ⟨h1, h2, h3⟩ := h
  cases hs with
  | invoke i op rest hi =>
    refine ⟨fun j => ?_, fun r hr => ⟨by have := (h2 r hr).1; dsimp only; omega, fun v hv => ?_⟩, h3⟩
    · have := h1 j
      dsimp only [Config.doneOf] at this ⊢
      by_cases hji : j = i
      · subst hji; simp only [upd_same]; rw [hi] at this; simpa [Phase.call?] using this
      · rw [upd_other _ _ _ _ hji]; exact this
    · dsimp only at hv
      by_cases hji : r.tid = i
      · rw [hji] at hv; simp [Phase.call?] at hv; subst hv
        have := (h2 r hr).1; dsimp only; omega
      · rw [upd_other _ _ _ _ hji] at hv; exact (h2 r hr).2 v hv
  | acquire i p v hi en =>
    refine ⟨fun j => ?_, fun r hr => ⟨by have := (h2 r hr).1; dsimp only; omega, fun v' hv => ?_⟩, h3⟩
    · have := h1 j
      dsimp only [Config.doneOf] at this ⊢
      by_cases hji : j = i
      · subst hji; simp only [upd_same]; rw [hi] at this; simpa [Phase.call?] using this
      · rw [upd_other _ _ _ _ hji]; exact this
    · dsimp only at hv
      by_cases hji : r.tid = i
      · rw [hji] at hv; simp [Phase.call?] at hv; subst hv
        exact (h2 r hr).2 v (by rw [hji, hi]; rfl)
      · rw [upd_other _ _ _ _ hji] at hv; exact (h2 r hr).2 v' hv
  | access i p v a todo lp hi =>
    refine ⟨fun j => ?_, fun r hr => ⟨by have := (h2 r hr).1; dsimp only; omega, fun v' hv => ?_⟩, h3⟩
    · have := h1 j
      dsimp only [Config.doneOf] at this ⊢
      by_cases hji : j = i
      · subst hji; simp only [upd_same]; rw [hi] at this; simpa [Phase.call?] using this
      · rw [upd_other _ _ _ _ hji]; exact this
    · dsimp only at hv
      by_cases hji : r.tid = i
      · rw [hji] at hv; simp [Phase.call?] at hv; subst hv
        exact (h2 r hr).2 v (by rw [hji, hi]; rfl)
      · rw [upd_other _ _ _ _ hji] at hv; exact (h2 r hr).2 v' hv
  | commit i p v todo hi =>
    refine ⟨fun j => ?_, fun r hr => ⟨by have := (h2 r hr).1; dsimp only; omega, fun v' hv => ?_⟩, h3⟩
    · have := h1 j
      dsimp only [Config.doneOf] at this ⊢
      by_cases hji : j = i
      · subst hji; simp only [upd_same]; rw [hi] at this; simpa [Phase.call?] using this
      · rw [upd_other _ _ _ _ hji]; exact this
    · dsimp only at hv
      by_cases hji : r.tid = i
      · rw [hji] at hv; simp [Phase.call?] at hv; subst hv
        exact (h2 r hr).2 v (by rw [hji, hi]; rfl)
      · rw [upd_other _ _ _ _ hji] at hv; exact (h2 r hr).2 v' hv
  | release i p v r k hi =>
    have hvi : v.tStart < c.now := call?_tStart_lt hA (j := i) (by rw [hi]; rfl)
    refine ⟨fun j => ?_, fun x hx => ?_, ?_⟩
    · have := h1 j
      dsimp only [Config.doneOf] at this ⊢
      by_cases hji : j = i
      · subst hji; simp only [upd_same]; rw [hi] at this
        simpa [Phase.call?, List.filter_append] using this
      · rw [upd_other _ _ _ _ hji]
        have hij : ¬ i = j := fun h => hji h.symm
        simpa [List.filter_append, hij] using this
    · dsimp only at hx ⊢
      rw [List.mem_append, List.mem_singleton] at hx
      rcases hx with hx | rfl
      · refine ⟨by have := (h2 x hx).1; omega, fun v' hv => ?_⟩
        by_cases hji : x.tid = i
        · rw [hji] at hv; simp [Phase.call?] at hv
        · rw [upd_other _ _ _ _ hji] at hv; exact (h2 x hx).2 v' hv
      · exact ⟨by dsimp only; omega, fun v' hv => by simp [Phase.call?] at hv⟩
    · dsimp only
      rw [List.pairwise_append]
      refine ⟨h3, by simp, fun A hA' B hB hAB => ?_⟩
      rw [List.mem_singleton] at hB
      subst hB
      dsimp only at hAB ⊢
      exact (h2 A hA').2 v (by rw [hAB, hi]; rfl)

theorem seqInv_reachable {s0 : S.σ} {progs : Nat → List S.Op} {c : Config S}
    (h : Reachable s0 progs c) : SeqInv progs c := by
  induction h with
  | init => exact seqInv_init s0 progs
  | step hc hs ih => exact seqInv_step (atomic_reachable hc) ih hs

/-- Two completed operations of ONE thread, `A` returned first: `A` returned before `B` was invoked. -/
theorem SeqInv.ordered {progs : Nat → List S.Op} {c : Config S} (h : SeqInv progs c) {j : Nat} {A B : Rec S}
    {l1 l2 l3 : List (Rec S)} (hd : c.doneOf j = l1 ++ A :: l2 ++ B :: l3) : A.tEnd ≤ B.call.tStart := by
  have hp : (c.doneOf j).Pairwise (fun A B => A.tid = B.tid → A.tEnd ≤ B.call.tStart) :=
    h.2.2.sublist List.filter_sublist
  have hA : A ∈ c.doneOf j := by rw [hd]; simp
  have hB : B ∈ c.doneOf j := by rw [hd]; simp
  have hAj : A.tid = j := by simpa [Config.doneOf] using (List.mem_filter.1 hA).2
  have hBj : B.tid = j := by simpa [Config.doneOf] using (List.mem_filter.1 hB).2
  rw [hd, List.append_assoc, List.pairwise_append] at hp
  have := hp.2.1
  rw [List.cons_append, List.pairwise_cons] at this
  exact this.1 B (by simp) (by rw [hAj, hBj])

/-- **A two-operation program.** If thread `j`'s program is `[a, b]` with `a ≠ b` and both have
completed (records `A` for `a`, `B` for `b`), then `A` returned before `B` was invoked. -/
theorem two_ops_ordered {s0 : S.σ} {progs : Nat → List S.Op} {c : Config S} (h : Reachable s0 progs c)
    {j : Nat} {a b : S.Op} (hp : progs j = [a, b]) (hab : a ≠ b) {A B : Rec S}
    (hA : A ∈ c.done) (hB : B ∈ c.done) (hAj : A.tid = j) (hBj : B.tid = j)
    (hAo : A.call.op = a) (hBo : B.call.op = b) : A.tEnd ≤ B.call.tStart := by
  have hS := seqInv_reachable h
  have h1 := hS.1 j
  rw [hp] at h1
  have hA' : A ∈ c.doneOf j := List.mem_filter.2 ⟨hA, by simp [hAj]⟩
  have hB' : B ∈ c.doneOf j := List.mem_filter.2 ⟨hB, by simp [hBj]⟩
  -- the completed operations of thread j are a prefix of [a, b] containing both
  have hlen : (c.doneOf j).length ≤ 2 := by
    have := congrArg List.length h1
    simp at this; omega
  match hd : c.doneOf j, hlen with
  | [], _ => rw [hd] at hA'; simp at hA'
  | [X], _ =>
    rw [hd] at hA' hB' h1
    simp at hA' hB'
    subst hA'; subst hB'
    exact absurd (hAo.symm.trans hBo) hab
  | [X, Y], _ =>
    rw [hd] at hA' hB' h1
    simp only [List.map_cons, List.map_nil, List.cons_append, List.nil_append] at h1
    have hX : X.call.op = a := by injection h1
    have hY : Y.call.op = b := by
      injection h1 with _ h1; injection h1
    simp only [List.mem_cons, List.not_mem_nil, or_false] at hA' hB'
    have hAX : A = X := by
      rcases hA' with h | h
      · exact h
      · subst h; exact absurd (hAo.symm.trans hY) hab
    have hBY : B = Y := by
      rcases hB' with h | h
      · subst h; exact absurd (hX.symm.trans hBo) hab
      · exact h
    subst hAX; subst hBY
    exact hS.ordered (j := j) (l1 := []) (l2 := []) (l3 := []) (by simpa using hd)

/-! ## Building runs: one thread runs one operation alone

Used by the non-vacuity examples: from a reachable configuration in which the lock is free and thread
`i` is idle with `op` next in its program, the configuration in which `op` has completed — invoked,
lock acquired, all micro-accesses performed, committed, released, with no other thread moving in
between — is reachable. -/

theorem upd_upd {α : Type} (f : Nat → α) (i : Nat) (x y : α) (j : Nat) : upd (upd f i x) i y j = upd f i y j := by
  by_cases h : j = i <;> simp [upd, h]

theorem drain {s0 : S.σ} {progs : Nat → List S.Op} (todo : List (S.Loc × Bool)) {c : Config S}
    (h : Reachable s0 progs c) {i : Nat} {p : List S.Op} {v : Call S} {lp : Option (S.Resp × Nat)}
    (hi : c.thr i = ⟨p, .inside v todo lp⟩) :
    ∃ c', Reachable s0 progs c' ∧ c'.st = c.st ∧ c'.lock = c.lock ∧ c'.wlog = c.wlog ∧ c'.done = c.done ∧
      ∀ j, c'.thr j = upd c.thr i ⟨p, .inside v [] lp⟩ j := by
  induction todo generalizing c with
  | nil =>
    refine ⟨c, h, rfl, rfl, rfl, rfl, fun j => ?_⟩
    by_cases hj : j = i
    · subst hj; simp [hi]
    · simp [upd, hj]
  | cons a todo ih =>
    have h1 := h.step (.access c i p v a todo lp hi)
    obtain ⟨c', hc', e1, e2, e3, e4, e5⟩ := ih h1 (by simp)
    exact ⟨c', hc', e1, e2, e3, e4, fun j => by rw [e5 j]; exact upd_upd _ _ _ _ _⟩

theorem solo {s0 : S.σ} {progs : Nat → List S.Op} {c : Config S} (h : Reachable s0 progs c)
    {i : Nat} {op : S.Op} {rest : List S.Op} (hi : c.thr i = ⟨op :: rest, .idle⟩) (hl : c.lock = .free) :
    ∃ (c' : Config S) (r : Rec S), Reachable s0 progs c' ∧ c'.st = (S.sem op c.st).1 ∧ c'.lock = .free ∧
      (∀ j, c'.thr j = upd c.thr i ⟨rest, .idle⟩ j) ∧
      c'.wlog = (if S.mode op then c.wlog ++ [op] else c.wlog) ∧ c'.done = c.done ++ [r] ∧
      r.tid = i ∧ r.call.op = op ∧ r.call.start = c.wlog.length ∧ r.resp = (S.sem op c.st).2 ∧
      r.lin = c.wlog.length := by
  have h1 := h.step (.invoke c i op rest hi)
  have h2 := h1.step (.acquire _ i rest ⟨op, c.wlog.length, c.now⟩ (by simp) (by simp [hl, Lock.canAcq]))
  obtain ⟨c3, h3, e1, e2, e3, e4, e5⟩ := drain (S.accs op) h2 (i := i) (p := rest)
    (v := ⟨op, c.wlog.length, c.now⟩) (lp := none) (by simp)
  have hi3 : c3.thr i = ⟨rest, .inside ⟨op, c.wlog.length, c.now⟩ [] none⟩ := by rw [e5 i]; simp
  have h4 := h3.step (.commit c3 i rest ⟨op, c.wlog.length, c.now⟩ [] hi3)
  have h5 := h4.step (.release _ i rest ⟨op, c.wlog.length, c.now⟩ (S.sem op c3.st).2 c3.wlog.length (by simp))
  refine ⟨_, ⟨i, ⟨op, c.wlog.length, c.now⟩, (S.sem op c3.st).2, c3.wlog.length,
    (if S.mode op then c3.wlog ++ [op] else c3.wlog).length, c3.now + 1⟩, h5, ?_, ?_, ?_, ?_, ?_,
    rfl, rfl, rfl, ?_, ?_⟩
  · simp [e1]
  · simp only [e2, hl]; cases S.mode op <;> rfl
  · intro j
    simp only
    by_cases hj : j = i
    · subst hj; simp
    · simp only [upd, hj, if_false]
      rw [e5 j]
      simp [upd, hj]
  · simp [e3]
  · simp only [e4]
  · simp [e1]
  · simp [e3]

end Mux.RWLock
