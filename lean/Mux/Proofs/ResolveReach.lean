/-
  Mux.Proofs.ResolveReach — C02 part B3 (completeness of the depth-first search), at tree level and
  independent of any reference resolver.

  `ReachesBy env ic n path ps is m ps'`: the index path `is` (positions in the successive child
  lists) leads from `n` to `m`, the segment of every child on the way matching the remaining path
  under the deterministic per-segment match `Seg.match` (first candidate only), the path being used
  up at `m`, which has handlers.  `Reaches` forgets the index path.

  Main theorem `complete_node`: for every node of a tree satisfying the structural invariant
  (`SOk2`: kind-sorted children, exact index, distinct first bytes of literal siblings), under the
  parameter-tracking hypotheses of `C02_priority`,
    * `matchChildren` never faults;
    * a miss leaves the parameters alone and NO index path reaches anything;
    * a hit is reached by an index path which comes first, in depth-first order (`Before`), among
      all index paths that reach anything.
-/
import Mux.Proofs.StructExamples
namespace Mux.P15
open Mux Mux.P8

/-! ## Chains of per-segment matches -/

/-- A chain of children, given by the positions in the child lists, each child's `Seg.match`
succeeding on what is left of the path, ending in a node with handlers when nothing is left. -/
inductive ReachesBy (env : Env) (ic : Interceptors) : Node → Bytes → Params → List Nat → Node → Params → Prop where
  | here {n : Node} {ps : Params} : n.handlers ≠ [] → ReachesBy env ic n [] ps [] n ps
  | child {n : Node} {path : Bytes} {ps : Params} {i : Nat} {c : Node} {cap rest : Bytes} {is : List Nat} {m : Node}
      {ps' : Params} :
      n.children[i]? = some c → c.seg.match env ic path = .yes cap rest →
      ReachesBy env ic c rest (c.seg.record cap ps) is m ps' → ReachesBy env ic n path ps (i :: is) m ps'

/-- The same without the positions. -/
inductive Reaches (env : Env) (ic : Interceptors) : Node → Bytes → Params → Node → Params → Prop where
  | here {n : Node} {ps : Params} : n.handlers ≠ [] → Reaches env ic n [] ps n ps
  | child {n : Node} {path : Bytes} {ps : Params} {c : Node} {cap rest : Bytes} {m : Node} {ps' : Params} :
      c ∈ n.children → c.seg.match env ic path = .yes cap rest →
      Reaches env ic c rest (c.seg.record cap ps) m ps' → Reaches env ic n path ps m ps'

theorem reaches_iff {env : Env} {ic : Interceptors} {n : Node} {path : Bytes} {ps : Params} {m : Node} {ps' : Params} :
    Reaches env ic n path ps m ps' ↔ ∃ is, ReachesBy env ic n path ps is m ps' := by
  constructor
  · intro h
    induction h with
    | here h => exact ⟨[], .here h⟩
    | child hc hm _ ih =>
      obtain ⟨is, his⟩ := ih
      obtain ⟨i, hi⟩ := List.getElem?_of_mem hc
      exact ⟨i :: is, .child hi hm his⟩
  · rintro ⟨is, h⟩
    induction h with
    | here h => exact .here h
    | child hi hm _ ih => exact .child (List.mem_of_getElem? hi) hm ih

/-- The index path determines the chain: same positions, same result. -/
theorem ReachesBy.deterministic {env : Env} {ic : Interceptors} {n : Node} {path : Bytes} {ps : Params} {is : List Nat}
    {m m' : Node} {ps' ps'' : Params} (h : ReachesBy env ic n path ps is m ps') (h' : ReachesBy env ic n path ps is m' ps'') :
    m' = m ∧ ps'' = ps' := by
  induction h with
  | here _ => cases h'; exact ⟨rfl, rfl⟩
  | child hi hm _ ih =>
    cases h' with
    | child hi' hm' hr' =>
      rw [hi] at hi'; cases hi'
      rw [hm] at hm'; cases hm'
      exact ih hr'

/-- The reached node has handlers, is a descendant, and the path is the chain instantiated: the
matched texts concatenate to the path. -/
theorem ReachesBy.handlers {env : Env} {ic : Interceptors} {n : Node} {path : Bytes} {ps : Params} {is : List Nat}
    {m : Node} {ps' : Params} (h : ReachesBy env ic n path ps is m ps') : m.handlers ≠ [] := by
  induction h with
  | here h => exact h
  | child _ _ _ ih => exact ih

theorem ReachesBy.mem_nodes {env : Env} {ic : Interceptors} {n : Node} {path : Bytes} {ps : Params} {is : List Nat}
    {m : Node} {ps' : Params} (h : ReachesBy env ic n path ps is m ps') : m ∈ n.nodes := by
  induction h with
  | here _ => rw [Node.nodes_eq]; exact List.mem_cons_self
  | @child n _ _ _ c _ _ _ _ _ hi _ _ ih =>
    rw [Node.nodes_eq]
    refine List.mem_cons_of_mem _ ?_
    have hc : c ∈ n.children := List.mem_of_getElem? hi
    have : ∀ cs : List Node, c ∈ cs → ∀ x ∈ c.nodes, x ∈ nodesL cs := by
      intro cs
      induction cs with
      | nil => intro h; cases h
      | cons d ds ihd =>
        intro h x hx
        simp only [nodesL, List.mem_append]
        rcases List.mem_cons.1 h with rfl | h
        · exact .inl hx
        · exact .inr (ihd h x hx)
    exact this _ hc _ ih

/-! ## Depth-first order on index paths -/

/-- `Before is js`: the depth-first search, trying the children in list order and a node's own
"path used up" case LAST, visits the index path `is` strictly before `js`. -/
inductive Before : List Nat → List Nat → Prop where
  | self {i : Nat} {is : List Nat} : Before (i :: is) []
  | lt {i j : Nat} {is js : List Nat} : i < j → Before (i :: is) (j :: js)
  | tail {i : Nat} {is js : List Nat} : Before is js → Before (i :: is) (i :: js)

theorem Before.irrefl : ∀ is : List Nat, ¬ Before is is
  | [], h => by cases h
  | i :: is, h => by
    cases h with
    | lt h => omega
    | tail h => exact Before.irrefl is h

theorem Before.trans {a b c : List Nat} (h1 : Before a b) (h2 : Before b c) : Before a c := by
  induction h1 generalizing c with
  | self => cases h2
  | lt h =>
    cases h2 with
    | self => exact .self
    | lt h' => exact .lt (by omega)
    | tail _ => exact .lt h
  | tail _ ih =>
    cases h2 with
    | self => exact .self
    | lt h' => exact .lt h'
    | tail h' => exact .tail (ih h')

theorem Before.asymm {a b : List Nat} (h1 : Before a b) (h2 : Before b a) : False :=
  Before.irrefl a (h1.trans h2)

/-- The order is total. -/
theorem Before.total : ∀ a b : List Nat, a = b ∨ Before a b ∨ Before b a
  | [], [] => .inl rfl
  | [], _ :: _ => .inr (.inr .self)
  | _ :: _, [] => .inr (.inl .self)
  | i :: is, j :: js => by
    rcases Nat.lt_trichotomy i j with h | rfl | h
    · exact .inr (.inl (.lt h))
    · rcases Before.total is js with rfl | h | h
      · exact .inl rfl
      · exact .inr (.inl (.tail h))
      · exact .inr (.inr (.tail h))
    · exact .inr (.inr (.lt h))

/-! ## One child -/

theorem tryChild_miss_cases {env : Env} {ic : Interceptors} {c : Node} {path : Bytes} {ps ps1 : Params}
    (h : tryChild env ic c path ps = .miss ps1) :
    c.seg.match env ic path = .no ∨
      ∃ cap rest ps2, c.seg.match env ic path = .yes cap rest ∧
        c.matchChildren env ic rest (c.seg.record cap ps) = .miss ps2 := by
  unfold tryChild at h
  cases hm : c.seg.match env ic path with
  | no => exact .inl rfl
  | unsupported => rw [hm] at h; cases h
  | yes cap rest =>
    rw [hm] at h
    simp only at h
    cases hr : Node.matchChildren env ic c rest (c.seg.record cap ps) with
    | miss ps2 => exact .inr ⟨cap, rest, ps2, rfl, hr⟩
    | hit m1 ps1 => rw [hr] at h; cases h
    | fault s => rw [hr] at h; cases h
    | unsupported => rw [hr] at h; cases h

theorem tryChild_fault_cases {env : Env} {ic : Interceptors} {c : Node} {path : Bytes} {ps : Params} {s : Nat}
    (h : tryChild env ic c path ps = .fault s) :
    ∃ cap rest, c.seg.match env ic path = .yes cap rest ∧
      c.matchChildren env ic rest (c.seg.record cap ps) = .fault s := by
  unfold tryChild at h
  cases hm : c.seg.match env ic path with
  | no => rw [hm] at h; cases h
  | unsupported => rw [hm] at h; cases h
  | yes cap rest =>
    rw [hm] at h
    simp only at h
    cases hr : Node.matchChildren env ic c rest (c.seg.record cap ps) with
    | miss ps2 => rw [hr] at h; cases h
    | hit m1 ps1 => rw [hr] at h; cases h
    | fault s' => rw [hr] at h; cases h; exact ⟨cap, rest, rfl, hr⟩
    | unsupported => rw [hr] at h; cases h

/-- Tracked, a fault of the scan is the fault of one of the children. -/
theorem matchFrom_fault {env : Env} {ic : Interceptors} {cs : List Node} {path : Bytes} {ps : Params} {used : List Bytes}
    (ht : TrackL used cs ps) {s : Nat} (h : matchFrom env ic cs 0 path ps = .fault s) :
    ∃ c ∈ cs, tryChild env ic c path ps = .fault s := by
  induction cs with
  | nil => rw [matchFrom] at h; cases h
  | cons d cs ih =>
    have ht' : TrackL used cs ps := ⟨ht.1.2.2, ht.2.1.2, ht.2.2⟩
    rw [matchFrom_cons_zero] at h
    cases hd : tryChild env ic d path ps with
    | miss ps1 =>
      rw [hd] at h
      have e := tryChild_miss List.mem_cons_self ht hd
      subst e
      obtain ⟨c, hc, hf⟩ := ih ht' h
      exact ⟨c, List.mem_cons_of_mem _ hc, hf⟩
    | hit m1 ps1 => rw [hd] at h; cases h
    | fault s' => rw [hd] at h; cases h; exact ⟨d, List.mem_cons_self, hd⟩
    | unsupported => rw [hd] at h; cases h

/-! ## The theorem -/

/-- What is proved of one node (for all paths and tracked parameters). -/
def Complete (env : Env) (ic : Interceptors) (n : Node) : Prop :=
  ∀ (path : Bytes) (ps : Params) (used : List Bytes), NamesOkL used n.children → (∀ k ∈ ps.keys, k ∈ used) →
    (∀ s, n.matchChildren env ic path ps ≠ .fault s) ∧
    (∀ ps', n.matchChildren env ic path ps = .miss ps' →
      ps' = ps ∧ ∀ is m ps'', ¬ ReachesBy env ic n path ps is m ps'') ∧
    (∀ m ps', n.matchChildren env ic path ps = .hit m ps' →
      ∃ is, ReachesBy env ic n path ps is m ps' ∧
        ∀ is' m' ps'', ReachesBy env ic n path ps is' m' ps'' → is' = is ∨ Before is is')

/-- The tracking hypotheses of a child after its own segment matched. -/
theorem child_track {cs : List Node} {c : Node} (hc : c ∈ cs) {used : List Bytes} (hN : NamesOkL used cs) {ps : Params}
    (hk : ∀ k ∈ ps.keys, k ∈ used) (cap : Bytes) :
    ∃ used', NamesOkL used' c.children ∧ ∀ k ∈ (c.seg.record cap ps).keys, k ∈ used' := by
  obtain ⟨hfresh, hok⟩ := NamesOkL_mem hN hc
  obtain ⟨_, r2, _⟩ := record_spec (s := c.seg) cap hfresh hk
  exact ⟨_, (Node.namesOk_iff _ c).1 hok, r2⟩

/-- A child that missed (tracked) is not the start of any chain. -/
theorem no_reach_of_miss {env : Env} {ic : Interceptors} {cs : List Node} {c : Node} (hc : c ∈ cs) (hC : Complete env ic c)
    {used : List Bytes} (hN : NamesOkL used cs) {path : Bytes} {ps ps1 : Params} (hk : ∀ k ∈ ps.keys, k ∈ used)
    (hmiss : tryChild env ic c path ps = .miss ps1) {cap rest : Bytes} (hm : c.seg.match env ic path = .yes cap rest)
    {is : List Nat} {m : Node} {ps' : Params} (hr : ReachesBy env ic c rest (c.seg.record cap ps) is m ps') : False := by
  rcases tryChild_miss_cases hmiss with h | ⟨cap2, rest2, ps2, hm2, hsub⟩
  · rw [h] at hm; cases hm
  · rw [hm] at hm2; cases hm2
    obtain ⟨used', hN', hk'⟩ := child_track hc hN hk cap
    exact ((hC rest _ used' hN' hk').2.1 ps2 hsub).2 is m ps' hr

theorem complete_mk (env : Env) (ic : Interceptors) {ic0 : Interceptors} (n : Node) (hall : Node.All (SOk2 ic0) n)
    (ih : ∀ c ∈ n.children, Complete env ic c) : Complete env ic n := by
  intro path ps used hN hk
  have hS : Node.All (SOk ic0) n := SOk2.all_SOk _ hall
  have hd : DistinctFirstBytes n := hall.head.2.distinct
  have ht : TrackL used n.children ps := ⟨hN, AllL_idxLit_of_SOk _ hS.tail, hk⟩
  rw [matchChildren_eq_scan env ic hS hd hN hk]
  refine ⟨?_, ?_, ?_⟩
  · -- no fault
    intro s h
    cases hr : matchFrom env ic n.children 0 path ps with
    | miss ps2 => rw [hr] at h; simp only [selfStep] at h; split at h <;> cases h
    | hit m1 ps1 => rw [hr] at h; cases h
    | unsupported => rw [hr] at h; cases h
    | fault s' =>
      obtain ⟨c, hc, hf⟩ := matchFrom_fault ht hr
      obtain ⟨cap, rest, _, hsub⟩ := tryChild_fault_cases hf
      obtain ⟨used', hN', hk'⟩ := child_track hc hN hk cap
      exact (ih c hc rest _ used' hN' hk').1 s' hsub
  · -- a miss: nothing is reachable
    intro ps' h
    obtain ⟨rfl, hall', hself⟩ := (scan_miss_iff ht ps').1 h
    refine ⟨rfl, ?_⟩
    intro is m ps'' hr
    cases hr with
    | here hh => exact hself ⟨rfl, hh⟩
    | child hi hm hr' =>
      have hc := List.mem_of_getElem? hi
      exact no_reach_of_miss hc (ih _ hc) hN hk (hall' _ hc) hm hr'
  · -- a hit: the first chain in depth-first order
    intro m ps' h
    rcases (scan_hit_iff ht m ps').1 h with ⟨i, c, hi, hhit, hbefore⟩ | ⟨hall', hp, hh, rfl, rfl⟩
    · have hc := List.mem_of_getElem? hi
      obtain ⟨cap, rest, hm, hsub⟩ := (tryChild_hit_iff env ic c path ps m ps').1 hhit
      obtain ⟨used', hN', hk'⟩ := child_track hc hN hk cap
      obtain ⟨is, hreach, hfirst⟩ := (ih c hc rest _ used' hN' hk').2.2 m ps' hsub
      refine ⟨i :: is, .child hi hm hreach, ?_⟩
      intro is' m' ps'' hr
      cases hr with
      | here _ => exact .inr .self
      | @child _ _ _ j c' cap' rest' js _ _ hj hm' hr' =>
        rcases Nat.lt_trichotomy j i with hlt | rfl | hgt
        · have hc' := List.mem_of_getElem? hj
          exact (no_reach_of_miss hc' (ih _ hc') hN hk (hbefore j hlt c' hj) hm' hr').elim
        · rw [hi] at hj; cases hj
          rw [hm] at hm'; cases hm'
          rcases hfirst js m' ps'' hr' with rfl | hb
          · exact .inl rfl
          · exact .inr (.tail hb)
        · exact .inr (.lt hgt)
    · subst hp
      refine ⟨[], .here hh, ?_⟩
      intro is' m' ps'' hr
      cases hr with
      | here _ => exact .inl rfl
      | child hi hm hr' =>
        have hc := List.mem_of_getElem? hi
        exact (no_reach_of_miss hc (ih _ hc) hN hk (hall' _ hc) hm hr').elim

/-- **Completeness and first-chain property of the depth-first search**, for every node all of whose
descendants satisfy the structural invariant with distinct first bytes. -/
theorem complete_node (env : Env) (ic : Interceptors) {ic0 : Interceptors} :
    ∀ n : Node, Node.All (SOk2 ic0) n → Complete env ic n := by
  intro n
  induction n using Node.rec (motive_2 := fun cs => AllL (SOk2 ic0) cs → ∀ c ∈ cs, Complete env ic c) with
  | mk s p mi hs idx cs ih =>
    intro hall
    exact complete_mk env ic _ hall (ih hall.tail)
  | nil => rename_i c hc; cases hc
  | cons c cs ih1 ih2 =>
    rename_i hall d hd
    rcases List.mem_cons.1 hd with rfl | hd
    · exact ih1 hall.1
    · exact ih2 hall.2 d hd

/-- With `unsupported` excluded, the three outcomes in `Reaches` form. -/
theorem complete_iff (env : Env) (ic : Interceptors) {ic0 : Interceptors} {n : Node} (hall : Node.All (SOk2 ic0) n)
    (path : Bytes) (ps : Params) (used : List Bytes) (hN : NamesOkL used n.children) (hk : ∀ k ∈ ps.keys, k ∈ used)
    (hsup : n.matchChildren env ic path ps ≠ .unsupported) :
    (n.matchChildren env ic path ps = .miss ps ↔ ¬ ∃ m ps', Reaches env ic n path ps m ps') ∧
    ((∃ m ps', n.matchChildren env ic path ps = .hit m ps') ↔ ∃ m ps', Reaches env ic n path ps m ps') := by
  obtain ⟨hf, hmiss, hhit⟩ := complete_node env ic n hall path ps used hN hk
  have key : (∃ m ps', Reaches env ic n path ps m ps') → ∃ m ps', n.matchChildren env ic path ps = .hit m ps' := by
    rintro ⟨m, ps', hr⟩
    obtain ⟨is, his⟩ := reaches_iff.1 hr
    cases hres : n.matchChildren env ic path ps with
    | miss ps2 => exact ((hmiss ps2 hres).2 is m ps' his).elim
    | hit m1 ps1 => exact ⟨m1, ps1, rfl⟩
    | fault s => exact (hf s hres).elim
    | unsupported => exact (hsup hres).elim
  have key2 : (∃ m ps', n.matchChildren env ic path ps = .hit m ps') → ∃ m ps', Reaches env ic n path ps m ps' := by
    rintro ⟨m, ps', h⟩
    obtain ⟨is, his, _⟩ := hhit m ps' h
    exact ⟨m, ps', reaches_iff.2 ⟨is, his⟩⟩
  refine ⟨⟨?_, ?_⟩, ⟨key2, key⟩⟩
  · intro h hex
    obtain ⟨m, ps', h'⟩ := key hex
    rw [h] at h'; cases h'
  · intro hno
    cases hres : n.matchChildren env ic path ps with
    | miss ps2 => rw [(hmiss ps2 hres).1]
    | hit m1 ps1 => exact (hno (key2 ⟨m1, ps1, hres⟩)).elim
    | fault s => exact (hf s hres).elim
    | unsupported => exact (hsup hres).elim

/-! ## ASCII paths never leave the modelled regexp domain -/

theorem finishRuled_rx_ascii {ic : Interceptors} {v : Bytes} {st en sp : Nat} {s : Seg}
    (h : finishRuled ic v st en sp = .ok s) (hk : s.kind = .rx) : isAscii s.suffix = true := by
  unfold finishRuled at h
  simp only at h
  split at h
  · cases h; cases hk
  · split at h
    · cases h
    · rename_i hasc
      split at h
      · cases h
      · cases h
        simpa using hasc

/-- The literal text after a regexp token is ASCII (else `newSegment` answers `unsupported`). -/
theorem newSegment_rx_ascii {ic : Interceptors} {v : Bytes} {s : Seg}
    (h : newSegment ic v = .ok s) (hk : s.kind = .rx) : isAscii s.suffix = true := by
  rw [newSegment_closed] at h
  split at h
  · cases h
  · split at h
    · split at h
      · split at h
        · cases h
        · cases h; cases hk
      · split at h
        · cases h
        · split at h
          · cases h; cases hk
          · split at h
            · cases h; cases hk
            · split at h
              · cases h
              · exact finishRuled_rx_ascii h hk
    · cases h; cases hk

theorem Seg.match_supported (env : Env) (ic : Interceptors) (s : Seg) (path : Bytes) (hp : isAscii path = true)
    (hs : s.kind = .rx → isAscii s.suffix = true) : s.match env ic path ≠ .unsupported := by
  by_cases hk : s.kind = .rx
  · unfold Seg.match
    rw [hk]
    simp only [hp, hs hk, not_true_eq_false, and_false, or_self, if_false]
    split <;> simp
  · exact Seg.match_ne_unsupported env ic s path hk

theorem isAscii_of_suffix {a b : Bytes} (h : a <:+ b) (hb : isAscii b = true) : isAscii a = true := by
  obtain ⟨t, rfl⟩ := h
  unfold isAscii at *
  rw [List.all_append, Bool.and_eq_true] at hb
  exact hb.2

theorem tryChild_unsupported_cases {env : Env} {ic : Interceptors} {c : Node} {path : Bytes} {ps : Params}
    (h : tryChild env ic c path ps = .unsupported) :
    c.seg.match env ic path = .unsupported ∨
      ∃ cap rest, c.seg.match env ic path = .yes cap rest ∧
        c.matchChildren env ic rest (c.seg.record cap ps) = .unsupported := by
  unfold tryChild at h
  cases hm : c.seg.match env ic path with
  | no => rw [hm] at h; cases h
  | unsupported => exact .inl rfl
  | yes cap rest =>
    rw [hm] at h
    simp only at h
    cases hr : Node.matchChildren env ic c rest (c.seg.record cap ps) with
    | miss ps2 => rw [hr] at h; cases h
    | hit m1 ps1 => rw [hr] at h; cases h
    | fault s' => rw [hr] at h; cases h
    | unsupported => exact .inr ⟨cap, rest, rfl, hr⟩

theorem matchFrom_unsupported {env : Env} {ic : Interceptors} {cs : List Node} {path : Bytes} {ps : Params} {used : List Bytes}
    (ht : TrackL used cs ps) (h : matchFrom env ic cs 0 path ps = .unsupported) :
    ∃ c ∈ cs, tryChild env ic c path ps = .unsupported := by
  induction cs with
  | nil => rw [matchFrom] at h; cases h
  | cons d cs ih =>
    have ht' : TrackL used cs ps := ⟨ht.1.2.2, ht.2.1.2, ht.2.2⟩
    rw [matchFrom_cons_zero] at h
    cases hd : tryChild env ic d path ps with
    | miss ps1 =>
      rw [hd] at h
      have e := tryChild_miss List.mem_cons_self ht hd
      subst e
      obtain ⟨c, hc, hf⟩ := ih ht' h
      exact ⟨c, List.mem_cons_of_mem _ hc, hf⟩
    | hit m1 ps1 => rw [hd] at h; cases h
    | fault s' => rw [hd] at h; cases h
    | unsupported => exact ⟨d, List.mem_cons_self, hd⟩

/-- On an ASCII path the matcher never answers `unsupported`. -/
def Supported (env : Env) (ic : Interceptors) (n : Node) : Prop :=
  ∀ (path : Bytes) (ps : Params) (used : List Bytes), isAscii path = true → NamesOkL used n.children →
    (∀ k ∈ ps.keys, k ∈ used) → n.matchChildren env ic path ps ≠ .unsupported

theorem supported_mk (env : Env) (ic : Interceptors) {ic0 : Interceptors} (n : Node) (hall : Node.All (SOk2 ic0) n)
    (ih : ∀ c ∈ n.children, Supported env ic c) : Supported env ic n := by
  intro path ps used hp hN hk h
  have hS : Node.All (SOk ic0) n := SOk2.all_SOk _ hall
  have hd : DistinctFirstBytes n := hall.head.2.distinct
  have ht : TrackL used n.children ps := ⟨hN, AllL_idxLit_of_SOk _ hS.tail, hk⟩
  rw [matchChildren_eq_scan env ic hS hd hN hk] at h
  cases hr : matchFrom env ic n.children 0 path ps with
  | miss ps2 => rw [hr] at h; simp only [selfStep] at h; split at h <;> cases h
  | hit m1 ps1 => rw [hr] at h; cases h
  | fault s' => rw [hr] at h; cases h
  | unsupported =>
    obtain ⟨c, hc, hu⟩ := matchFrom_unsupported ht hr
    have hco := hS.head.child c hc
    rcases tryChild_unsupported_cases hu with hm | ⟨cap, rest, hm, hsub⟩
    · exact Seg.match_supported env ic c.seg path hp (newSegment_rx_ascii hco.2.2) hm
    · obtain ⟨used', hN', hk'⟩ := child_track hc hN hk cap
      exact ih c hc rest _ used' (isAscii_of_suffix (Seg.match_rest_suffix env ic c.seg path cap rest hm) hp) hN' hk' hsub

theorem supported_node (env : Env) (ic : Interceptors) {ic0 : Interceptors} :
    ∀ n : Node, Node.All (SOk2 ic0) n → Supported env ic n := by
  intro n
  induction n using Node.rec (motive_2 := fun cs => AllL (SOk2 ic0) cs → ∀ c ∈ cs, Supported env ic c) with
  | mk s p mi hs idx cs ih =>
    intro hall
    exact supported_mk env ic _ hall (ih hall.tail)
  | nil => rename_i c hc; cases hc
  | cons c cs ih1 ih2 =>
    rename_i hall d hd
    rcases List.mem_cons.1 hd with rfl | hd
    · exact ih1 hall.1
    · exact ih2 hall.2 d hd

end Mux.P15
