/-
  Mux.Proofs.UrlToks — the canonical token stream of a list of segments (`toks`: literal text with
  adjacent literals merged | parameter name and `-` flag), the fact that URL building depends only on
  it, and the re-segmentation lemma: a list of segments that each re-parse from their own well-formed
  text (`SegOk`, e.g. the chain of a node in a well-formed tree) has the same token stream as `Split` of
  the concatenated text — under ANY interceptor table, as names, flags and suffixes do not depend on it.
-/
import Mux.Proofs.Url
import Mux.Proofs.WfTree
namespace Mux.P13
open Mux Mux.P9

/-! ## Token streams -/

/-- A literal run, or a parameter `(name, ignore flag)`. -/
abbrev Tok := Sum Bytes (Bytes × Bool)

/-- Put literal text in front of a token stream, merging it with a leading literal run and dropping
it when empty. -/
def consLit (x : Bytes) : List Tok → List Tok
  | .inl y :: r => .inl (x ++ y) :: r
  | [] => if x = [] then [] else [.inl x]
  | .inr p :: r => if x = [] then .inr p :: r else .inl x :: .inr p :: r

/-- The token stream of a list of segments: a literal segment contributes its text, a parameter
segment its name and flag followed by its suffix as literal text. -/
def toks : List Seg → List Tok
  | [] => []
  | s :: r => if s.kind = .str then consLit s.value (toks r) else .inr (s.name, s.ignoreName) :: consLit s.suffix (toks r)

/-- Two segment lists spell the same pattern: same parameters in the same order, same literal text
between them (however it is cut into segments). -/
def SameToks (a b : List Seg) : Prop := toks a = toks b

theorem consLit_nil (l : List Tok) : consLit [] l = l := by
  cases l with
  | nil => rfl
  | cons t r => cases t <;> simp [consLit]

theorem consLit_append (a b : Bytes) (l : List Tok) : consLit (a ++ b) l = consLit a (consLit b l) := by
  cases l with
  | nil =>
    by_cases hb : b = []
    · subst hb; simp [consLit]
    · have : a ++ b ≠ [] := by simp [hb]
      simp [consLit, hb]
  | cons t r =>
    cases t with
    | inl y => simp [consLit]
    | inr p =>
      by_cases hb : b = []
      · subst hb; simp [consLit]
      · have : a ++ b ≠ [] := by simp [hb]
        simp [consLit, hb]

/-- URL building from a token stream. -/
def urlToks (ps : AMap Bytes) : List Tok → Except Err Bytes
  | [] => .ok []
  | .inl x :: r => match urlToks ps r with
    | .ok u => .ok (x ++ u)
    | .error e => .error e
  | .inr p :: r => match ps.get? p.1 with
    | none => .error .missingParam
    | some v => match urlToks ps r with
      | .ok u => .ok (v ++ u)
      | .error e => .error e

theorem urlToks_consLit (ps : AMap Bytes) (x : Bytes) (l : List Tok) :
    urlToks ps (consLit x l) = match urlToks ps l with
      | .ok u => .ok (x ++ u)
      | .error e => .error e := by
  cases l with
  | nil =>
    by_cases hx : x = []
    · subst hx; simp [consLit, urlToks]
    · simp [consLit, hx, urlToks]
  | cons t r =>
    cases t with
    | inl y =>
      simp only [consLit, urlToks]
      cases urlToks ps r <;> simp
    | inr p =>
      by_cases hx : x = []
      · subst hx
        simp only [consLit, if_true]
        cases urlToks ps (.inr p :: r) <;> simp
      · simp only [consLit, hx, if_false]
        rw [urlToks]

/-- **(i)** The non-strict loop depends only on the token stream. -/
theorem urlLoop_eq_urlToks (ps : AMap Bytes) (segs : List Seg) : urlLoop ps segs = urlToks ps (toks segs) := by
  induction segs with
  | nil => rfl
  | cons s segs ih =>
    simp only [urlLoop, toks, bind, Except.bind, pure, Except.pure]
    by_cases hk : s.kind = .str
    · simp only [hk, if_true]
      rw [urlToks_consLit, ← ih]
      cases urlLoop ps segs <;> rfl
    · simp only [hk, if_false, urlToks]
      cases ps.get? s.name with
      | none => rfl
      | some v =>
        simp only []
        rw [urlToks_consLit, ← ih]
        cases urlLoop ps segs <;> simp

theorem urlLoop_congr_toks (ps : AMap Bytes) {a b : List Seg} (h : SameToks a b) : urlLoop ps a = urlLoop ps b := by
  rw [urlLoop_eq_urlToks, urlLoop_eq_urlToks, h]

/-! ## `splitString` of a concatenation of well-formed pieces -/

theorem splitAux_false_noBrace (cur v rest : Bytes) (hv : NoBrace v) :
    splitAux false cur (v ++ rest) = splitAux false (cur ++ v) rest := by
  induction v generalizing cur with
  | nil => simp
  | cons b v ih =>
    obtain ⟨h1, _⟩ := ne_start_of_noBrace hv
    simp only [List.cons_append, splitAux, h1, if_false]
    rw [ih _ hv.tail]
    simp

theorem splitAux_true_body (cur body rest : Bytes) (hb : endByte ∉ body) :
    splitAux true cur (body ++ endByte :: rest) = splitAux false (cur ++ body ++ [endByte]) rest := by
  induction body generalizing cur with
  | nil => simp [splitAux]
  | cons b body ih =>
    simp only [List.mem_cons, not_or] at hb
    have hne : ¬ b = endByte := fun e => hb.1 e.symm
    simp only [List.cons_append, splitAux, hne, if_false]
    rw [ih _ hb.2]
    simp

/-- What `splitAux` emits in front when a `{` arrives. -/
def emit (cur : Bytes) (l : List Bytes) : List Bytes := if cur = [] then l else cur :: l

theorem splitAux_false_tok (cur body suf rest : Bytes) (hb : NoBrace body) (hs : NoBrace suf) :
    splitAux false cur (tok body suf ++ rest) = emit cur (splitAux false (tok body suf) rest) := by
  have e1 : splitAux true [startByte] (body ++ endByte :: (suf ++ rest)) =
      splitAux false (tok body suf) rest := by
    rw [splitAux_true_body _ _ _ hb.2, splitAux_false_noBrace _ _ _ hs]
    simp [tok]
  simp only [tok, List.cons_append, List.append_assoc, splitAux, if_true, emit]
  simp only [tok] at e1
  rw [e1]

/-- The pieces `splitString` makes of a concatenation of well-formed texts: a text without `{` is
glued to the piece in progress, a token text starts a new piece. -/
def mergeVals (cur : Bytes) : List Bytes → List Bytes
  | [] => [cur]
  | v :: vs => if v.head? = some startByte then emit cur (mergeVals v vs) else mergeVals (cur ++ v) vs

theorem splitAux_flatten_wf (vs : List Bytes) (hw : ∀ v ∈ vs, WfPiece v) (cur : Bytes) :
    splitAux false cur vs.flatten = mergeVals cur vs := by
  induction vs generalizing cur with
  | nil => simp [splitAux, mergeVals]
  | cons v vs ih =>
    have ih' := ih (fun x hx => hw x (by simp [hx]))
    simp only [List.flatten_cons, mergeVals]
    rcases hw v (by simp) with hn | ⟨body, suf, rfl, hb, hs⟩
    · have hh : ¬ v.head? = some startByte := by
        intro h
        cases v with
        | nil => cases h
        | cons c r => exact hn.1 (by simp at h; simp [h])
      rw [if_neg hh, splitAux_false_noBrace _ _ _ hn, ih']
    · rw [if_pos (by simp [tok]), splitAux_false_tok _ _ _ _ hb hs, ih']

/-! ## Name, flag and suffix of a token piece do not depend on the interceptors or on the suffix -/

/-- The raw name inside `{…}`: the text before the first `:` (all of it when there is none). -/
def bodyName (body : Bytes) : Bytes × Bool :=
  stripIgn (body.take ((indexByte separatorByte body).getD body.length))

theorem indexByte_append_of_some {b : UInt8} {x : Bytes} {k : Nat} (h : indexByte b x = some k) (y : Bytes) :
    indexByte b (x ++ y) = some k := by
  induction x generalizing k with
  | nil => cases h
  | cons c x ih =>
    simp only [List.cons_append, indexByte] at h ⊢
    split
    · rename_i hc; simpa [hc] using h
    · rename_i hc
      simp only [hc, if_false] at h
      cases hi : indexByte b x with
      | none => rw [hi] at h; cases h
      | some j =>
        rw [hi] at h
        rw [ih hi]
        exact h

/-- Where the first `:` of a token piece lies: inside the braces at the position it has in the
body, or (if the body has none) after the closing brace or nowhere. -/
theorem tok_sep (body suf : Bytes) :
    (∃ k, indexByte separatorByte body = some k ∧ indexByte separatorByte (tok body suf) = some (k + 1)) ∨
    (indexByte separatorByte body = none ∧
      (indexByte separatorByte (tok body suf) = none ∨
        ∃ j, indexByte separatorByte (tok body suf) = some (body.length + 2 + j))) := by
  have h0 : ¬ startByte = separatorByte := by decide
  have h1 : ¬ endByte = separatorByte := by decide
  cases hb : indexByte separatorByte body with
  | some k =>
    left
    refine ⟨k, rfl, ?_⟩
    simp only [tok, indexByte, h0, if_false]
    rw [indexByte_append_of_some hb]
    rfl
  | none =>
    right
    refine ⟨rfl, ?_⟩
    have hnm : separatorByte ∉ body := indexByte_eq_none_iff.1 hb
    simp only [tok, indexByte, h0, if_false]
    rw [indexByte_append_of_not_mem hnm]
    simp only [indexByte, h1, if_false]
    cases indexByte separatorByte suf with
    | none => left; rfl
    | some j => right; exact ⟨j, by simp; omega⟩

theorem tok_take_drop1 (body suf : Bytes) (k : Nat) (hk : k ≤ body.length) :
    ((tok body suf).take (k + 1)).drop 1 = body.take k := by
  simp only [tok, List.take_succ_cons, List.drop_succ_cons, List.drop_zero]
  rw [List.take_append_of_le_length hk]

/-- **Per-piece lemma.** Whatever the interceptors and whatever follows the closing brace, the segment
that `NewSegment` makes of `{body}suf` is a parameter with the name and `-` flag read off the body, and
its suffix is `suf`. -/
theorem newSegment_tok {ic : Interceptors} {body suf : Bytes} {s : Seg} (hb : NoBrace body) (_hs : NoBrace suf)
    (h : newSegment ic (tok body suf) = .ok s) :
    s.kind ≠ .str ∧ s.suffix = suf ∧ s.name = (bodyName body).1 ∧ s.ignoreName = (bodyName body).2 := by
  have hst := tok_start body suf
  have hen := tok_end suf hb.2
  obtain ⟨hk, hsuf, _⟩ := newSegment_brace_facts h hst hen
  have hsuf' : s.suffix = suf := by
    rw [hsuf]
    have := tok_drop body suf 0
    simpa using this
  refine ⟨hk, hsuf', ?_⟩
  have hlen := newSegment_len h
  rw [newSegment_closed, if_neg (by omega), hst, hen] at h
  simp only [] at h
  have named_en : (mkNamed (tok body suf) 0 (body.length + 1) (body.length + 1)).name =
        (stripIgn body).1 ∧
      (mkNamed (tok body suf) 0 (body.length + 1) (body.length + 1)).ignoreName = (stripIgn body).2 := by
    simp only [mkNamed, Nat.zero_add]
    rw [tok_take_drop1 body suf body.length (Nat.le_refl _), List.take_length]
    exact ⟨rfl, rfl⟩
  rcases tok_sep body suf with ⟨k, hk1, hk2⟩ | ⟨hnone, hk2 | ⟨j, hk2⟩⟩
  · -- `:` inside the braces
    have hkl : k < body.length := indexByte_some_lt hk1
    have hbn : bodyName body = stripIgn (body.take k) := by simp [bodyName, hk1]
    have named_sp : (mkNamed (tok body suf) 0 (body.length + 1) (k + 1)).name = (stripIgn (body.take k)).1 ∧
        (mkNamed (tok body suf) 0 (body.length + 1) (k + 1)).ignoreName = (stripIgn (body.take k)).2 := by
      simp only [mkNamed, Nat.zero_add]
      rw [tok_take_drop1 body suf k (by omega)]
      exact ⟨rfl, rfl⟩
    rw [hk2] at h
    simp only [] at h
    split at h
    · cases h
    split at h
    · cases h; rw [hbn]; exact named_sp
    split at h
    · omega
    split at h
    · cases h
    · unfold finishRuled at h
      simp only [Nat.zero_add] at h
      rw [tok_take_drop1 body suf k (by omega)] at h
      rw [hbn]
      split at h
      · cases h; exact ⟨rfl, rfl⟩
      · split at h
        · cases h
        · split at h
          · cases h
          · cases h; exact ⟨rfl, rfl⟩
  · -- no `:` at all
    have hbn : bodyName body = stripIgn body := by simp [bodyName, hnone]
    rw [hk2] at h
    simp only [] at h
    split at h
    · cases h
    · cases h; rw [hbn]; exact named_en
  · -- `:` after the closing brace
    have hbn : bodyName body = stripIgn body := by simp [bodyName, hnone]
    rw [hk2] at h
    simp only [] at h
    split at h
    · cases h
    split at h
    · omega
    split at h
    · cases h; rw [hbn]; exact named_en
    · omega

/-! ## The piece in progress -/

/-- The piece `splitString` is accumulating: literal text so far, or a token and its suffix so far. -/
inductive Cur where
  | lit (x : Bytes)
  | tk (body suf : Bytes)

/-- Its text. -/
def Cur.text : Cur → Bytes
  | .lit x => x
  | .tk body suf => tok body suf

/-- Its parts contain no stray brace. -/
def Cur.Ok : Cur → Prop
  | .lit x => NoBrace x
  | .tk body suf => NoBrace body ∧ NoBrace suf

/-- What it contributes in front of a token stream. -/
def Cur.toks : Cur → List Tok → List Tok
  | .lit x, l => consLit x l
  | .tk body suf, l => .inr (bodyName body) :: consLit suf l

/-- Glue literal text to it. -/
def Cur.app : Cur → Bytes → Cur
  | .lit x, v => .lit (x ++ v)
  | .tk body suf, v => .tk body (suf ++ v)

theorem NoBrace.append {a b : Bytes} (ha : NoBrace a) (hb : NoBrace b) : NoBrace (a ++ b) := by
  simp only [NoBrace, List.mem_append, not_or]
  exact ⟨⟨ha.1, hb.1⟩, ha.2, hb.2⟩

theorem Cur.app_text (c : Cur) (v : Bytes) : (c.app v).text = c.text ++ v := by
  cases c <;> simp [Cur.app, Cur.text, tok]

theorem Cur.app_ok {c : Cur} {v : Bytes} (hc : c.Ok) (hv : NoBrace v) : (c.app v).Ok := by
  cases c with
  | lit x => exact NoBrace.append hc hv
  | tk body suf => exact ⟨hc.1, NoBrace.append hc.2 hv⟩

theorem Cur.app_toks (c : Cur) (v : Bytes) (l : List Tok) : (c.app v).toks l = c.toks (consLit v l) := by
  cases c <;> simp [Cur.app, Cur.toks, consLit_append]

theorem Cur.ok_wf {c : Cur} (h : c.Ok) : WfPiece c.text := by
  cases c with
  | lit x => exact .inl h
  | tk body suf => exact .inr ⟨body, suf, rfl, h.1, h.2⟩

/-- A well-formed text is the text of some piece in progress. -/
theorem WfPiece.cur {v : Bytes} (h : WfPiece v) : ∃ c : Cur, c.Ok ∧ c.text = v := by
  rcases h with h | ⟨body, suf, rfl, hb, hs⟩
  · exact ⟨.lit v, h, rfl⟩
  · exact ⟨.tk body suf, ⟨hb, hs⟩, rfl⟩

/-- The segment `NewSegment` (any interceptors) makes of a finished piece contributes exactly the
piece's tokens. -/
theorem toks_cons_of_newSegment {ic : Interceptors} {c : Cur} {s : Seg} (hc : c.Ok)
    (h : newSegment ic c.text = .ok s) (r : List Seg) : toks (s :: r) = c.toks (toks r) := by
  cases c with
  | lit x =>
    have := newSegment_str_of_noStart h hc.1
    subst this
    simp [toks, Cur.toks, Cur.text]
  | tk body suf =>
    obtain ⟨hk, hsuf, hn, hi⟩ := newSegment_tok hc.1 hc.2 h
    simp only [toks, hk, if_false, Cur.toks, hsuf, hn, hi]

/-- A segment satisfying I-seg (under any interceptors) contributes the tokens of its own text. -/
theorem toks_cons_of_segOk {ic : Interceptors} {s : Seg} (hs : SegOk ic s) {c : Cur} (hc : c.Ok)
    (ht : c.text = s.value) (r : List Seg) : toks (s :: r) = c.toks (toks r) :=
  toks_cons_of_newSegment hc (ht ▸ hs.seg) r

/-! ## The re-segmentation lemma -/

theorem splitLoop_emit {ic : Interceptors} {cur : Bytes} {l : List Bytes} {flag : Bool} {names : List Bytes}
    {segs : List Seg} (h : splitLoop ic (emit cur l) flag names = .ok segs) :
    (cur = [] ∧ splitLoop ic l flag names = .ok segs) ∨
    ∃ s segs' flag' names', newSegment ic cur = .ok s ∧ splitLoop ic l flag' names' = .ok segs' ∧
      segs = s :: segs' := by
  unfold emit at h
  split at h
  · rename_i hc; exact .inl ⟨hc, h⟩
  · obtain ⟨_, _, seg, segs', h1, _, h2, h3⟩ := splitLoop_cons_inv h
    exact .inr ⟨seg, segs', _, _, h1, h2, h3⟩

theorem toks_mergeVals {ic ic' : Interceptors} (cs : List Seg) (hok : ∀ s ∈ cs, SegOk ic s) :
    ∀ (c : Cur), c.Ok → ∀ (flag : Bool) (names : List Bytes) (segs' : List Seg),
      splitLoop ic' (mergeVals c.text (cs.map (·.value))) flag names = .ok segs' →
      toks segs' = c.toks (toks cs) := by
  induction cs with
  | nil =>
    intro c hc flag names segs' h
    simp only [List.map_nil, mergeVals] at h
    obtain ⟨_, _, seg, segs'', h1, _, h2, rfl⟩ := splitLoop_cons_inv h
    simp only [splitLoop, Except.ok.injEq] at h2
    subst h2
    exact toks_cons_of_newSegment hc h1 []
  | cons s cs ih =>
    intro c hc flag names segs' h
    have hs := hok s (by simp)
    have ih' := ih (fun x hx => hok x (by simp [hx]))
    obtain ⟨d, hd, hdt⟩ := WfPiece.cur hs.wf
    simp only [List.map_cons, mergeVals] at h
    cases d with
    | lit x =>
      simp only [Cur.text] at hdt
      have hnb : NoBrace s.value := hdt ▸ hd
      have hh : ¬ s.value.head? = some startByte := by
        intro hh
        cases hv : s.value with
        | nil => rw [hv] at hh; cases hh
        | cons b r => rw [hv] at hh hnb; exact hnb.1 (by simp at hh; simp [hh])
      rw [if_neg hh, ← Cur.app_text] at h
      have := ih' (c.app s.value) (Cur.app_ok hc hnb) flag names segs' h
      rw [this, Cur.app_toks]
      have hk : s.kind = .str := hs.kind_str_iff.2 hnb
      simp [toks, hk]
    | tk body suf =>
      have hh : s.value.head? = some startByte := by rw [← hdt]; simp [Cur.text, tok]
      rw [if_pos hh] at h
      have hsc : toks (s :: cs) = (Cur.tk body suf).toks (toks cs) := toks_cons_of_segOk hs hd hdt cs
      rcases splitLoop_emit h with ⟨hnil, h'⟩ | ⟨s0, segs'', flag', names', h1, h2, rfl⟩
      · rw [← hdt] at h'
        have := ih' (.tk body suf) hd flag names segs' h'
        rw [this, ← hsc]
        -- the piece in progress is empty: it contributes nothing
        cases c with
        | lit x => simp only [Cur.text] at hnil; subst hnil; simp [Cur.toks, consLit_nil]
        | tk b' s' => simp [Cur.text, tok] at hnil
      · rw [← hdt] at h2
        have := ih' (.tk body suf) hd flag' names' segs'' h2
        rw [toks_cons_of_newSegment hc h1 segs'', this, ← hsc]

/-- **(ii) The re-segmentation lemma.** Let `cs` be segments that each re-parse from their own
well-formed text under the interceptors `ic` (the chain of a node of a well-formed tree).  If `Split`
— under any interceptors `ic'` — accepts the concatenated text, its segments have the same token stream:
the same parameters (name, `-` flag) in the same order with the same literal text in between. -/
theorem toks_split_chain {ic ic' : Interceptors} {cs : List Seg} (hok : ∀ s ∈ cs, SegOk ic s) {segs' : List Seg}
    (h : split ic' (cs.map (·.value)).flatten = .ok segs') : SameToks segs' cs := by
  unfold split at h
  split at h
  · cases h
  · unfold splitString at h
    rw [splitAux_flatten_wf _ (by
      intro v hv
      obtain ⟨s, hs, rfl⟩ := List.mem_map.1 hv
      exact (hok s hs).wf)] at h
    have := toks_mergeVals (ic' := ic') cs hok (.lit []) NoBrace.nil false [] segs' h
    simpa [SameToks, Cur.toks, consLit_nil] using this

/-- Hence URL building from the chain and from the split pattern agree, for every parameter map. -/
theorem urlLoop_split_chain {ic ic' : Interceptors} {cs : List Seg} (hok : ∀ s ∈ cs, SegOk ic s) {segs' : List Seg}
    (h : split ic' (cs.map (·.value)).flatten = .ok segs') (ps : AMap Bytes) :
    urlLoop ps segs' = urlLoop ps cs :=
  urlLoop_congr_toks ps (toks_split_chain hok h)

/-- `Interceptors.URL` of the concatenated text is URL building from the chain, whenever `Split` accepts
the text. -/
theorem url_of_chain {ic ic' : Interceptors} {cs : List Seg} (hok : ∀ s ∈ cs, SegOk ic s) {segs' : List Seg}
    (h : split ic' (cs.map (·.value)).flatten = .ok segs') (ps : AMap Bytes) :
    ic'.url (cs.map (·.value)).flatten ps = urlLoop ps cs := by
  have hne : (cs.map (·.value)).flatten ≠ [] := by
    intro e; rw [e] at h; simp [split] at h
  simp only [Interceptors.url, if_neg hne, h, bind, Except.bind]
  exact urlLoop_split_chain hok h ps

end Mux.P13
