/-
  Mux.Proofs.TableRefine — the refinement: the live pairs of `tableOf t` follow `Spec.add/remove/clean`
  step by step, hence `tableOf (t0.run ops)` and `specRun t0 ops` have the same live pairs.
-/
import Mux.Proofs.TableSpec
import Mux.Proofs.TableNoErr
import Mux.Proofs.TreeHead
namespace Mux.P11
open Mux

/-! ## Live pairs of a tree -/

theorem has_tableOf (t : Tree) (q m : Bytes) :
    (tableOf t).has q m ↔ ∃ e ∈ liveL t.root.children, e.1 = q ∧ m ∈ regKeys e.2 := by
  unfold tableOf Spec.Table.has
  constructor
  · rintro ⟨ms, hmem, hm⟩
    rw [List.mem_map] at hmem
    obtain ⟨e, he, heq⟩ := hmem
    simp only [Prod.mk.injEq] at heq
    exact ⟨e, he, heq.1, heq.2 ▸ hm⟩
  · rintro ⟨e, he, rfl, hm⟩
    exact ⟨regKeys e.2, List.mem_map.2 ⟨e, he, rfl⟩, hm⟩

theorem regKeys_nil : regKeys [] = [] := rfl

theorem ent_has (x : Node) (q m : Bytes) :
    (∃ e ∈ ent x, e.1 = q ∧ m ∈ regKeys e.2) ↔ x.pattern = q ∧ m ∈ regKeys x.handlers := by
  unfold ent
  cases h : x.handlers with
  | nil => simp [regKeys_nil]
  | cons a l => simp

theorem mem_split3 {α} {A E B : List α} {e : α} : e ∈ A ++ E ++ B ↔ e ∈ A ++ B ∨ e ∈ E := by
  simp only [List.mem_append]
  constructor
  · rintro ((h | h) | h)
    · exact .inl (.inl h)
    · exact .inr h
    · exact .inl (.inr h)
  · rintro ((h | h) | h)
    · exact .inl (.inl h)
    · exact .inr h
    · exact .inl (.inr h)

/-- Live pairs when the entries are `A ++ ent x ++ B`. -/
theorem has_split (es A B : List (Bytes × AMap Handler)) (x : Node) (hes : es.Perm (A ++ ent x ++ B))
    (q m : Bytes) :
    (∃ e ∈ es, e.1 = q ∧ m ∈ regKeys e.2) ↔
      (∃ e ∈ A ++ B, e.1 = q ∧ m ∈ regKeys e.2) ∨ (x.pattern = q ∧ m ∈ regKeys x.handlers) := by
  rw [← ent_has]
  constructor
  · rintro ⟨e, he, h⟩
    rcases mem_split3.1 (hes.mem_iff.1 he) with h' | h'
    · exact .inl ⟨e, h', h⟩
    · exact .inr ⟨e, h', h⟩
  · rintro (⟨e, he, h⟩ | ⟨e, he, h⟩)
    · exact ⟨e, hes.mem_iff.2 (mem_split3.2 (.inl he)), h⟩
    · exact ⟨e, hes.mem_iff.2 (mem_split3.2 (.inr he)), h⟩

/-! ## Patterns of entries are unique -/

theorem liveL_patterns_nodup {ic : Interceptors} {n : Node} (hn : Node.All (Sh ic) n) :
    ((liveL n.children).map (·.1)).Nodup := by
  have h := patterns_nodup ic n hn
  unfold liveL
  rw [List.map_map]
  exact h.sublist (List.filter_sublist.map _)

/-- The entries other than the one of the node `x` carry other patterns. -/
theorem others_ne {ic : Interceptors} {n x : Node} (hn : Node.All (Sh ic) n) (hx : x ∈ nodesL n.children)
    {A B : List (Bytes × AMap Handler)} (hl : liveL n.children = A ++ ent x ++ B) :
    ∀ e ∈ A ++ B, e.1 ≠ x.pattern := by
  intro e he hep
  have hmem : e ∈ liveL n.children := by rw [hl]; exact mem_split3.2 (.inl he)
  obtain ⟨y, hy, hyne, rfl⟩ := mem_liveL.1 hmem
  have hyx : y = x := node_unique hn hy hx hep
  subst hyx
  have hent : ent y = [(y.pattern, y.handlers)] := by
    unfold ent
    cases h : y.handlers with
    | nil => exact absurd h hyne
    | cons a l => simp
  have hnd := liveL_patterns_nodup hn
  rw [hl, hent] at hnd
  simp only [List.map_append, List.map_cons, List.map_nil] at hnd
  rcases List.mem_append.1 he with h | h
  · have := (List.nodup_append.1 (List.nodup_append.1 hnd).1).2.2 y.pattern (List.mem_map_of_mem h) y.pattern (by simp)
    exact this rfl
  · have := (List.nodup_append.1 hnd).2.2 y.pattern (by simp) y.pattern (List.mem_map_of_mem h)
    exact this rfl

/-! ## `removeMethods` on the hand-registered keys -/

theorem rmStep_reg (hs : AMap Handler) (m k : Bytes) (hk : IsReg k) :
    k ∈ (rmStep hs m).keys ↔ k ∈ hs.keys ∧ k ≠ m := by
  unfold rmStep
  split
  · rename_i h
    constructor
    · intro h1
      refine ⟨h1, fun e => ?_⟩
      subst e
      rcases h with h | h | h
      · exact hk.2.1 h
      · exact hk.1 h
      · exact hk.2.2 h
    · exact fun h1 => h1.1
  · split
    · rename_i hg
      subst hg
      rw [AMap.keys_eraseT, AMap.keys_eraseT]
      simp only [List.mem_filter, ne_eq, decide_eq_true_eq]
      constructor
      · rintro ⟨⟨h1, _⟩, h2⟩; exact ⟨h1, h2⟩
      · rintro ⟨h1, h2⟩; exact ⟨⟨h1, hk.1⟩, h2⟩
    · rw [AMap.keys_eraseT]
      simp [List.mem_filter]

theorem foldl_rmStep_reg (methods : List Bytes) (hs : AMap Handler) (k : Bytes) (hk : IsReg k) :
    k ∈ (methods.foldl rmStep hs).keys ↔ k ∈ hs.keys ∧ k ∉ methods := by
  induction methods generalizing hs with
  | nil => simp
  | cons m ms ih =>
    simp only [List.foldl_cons, List.mem_cons, not_or]
    rw [ih, rmStep_reg hs m k hk]
    constructor
    · rintro ⟨⟨h1, h2⟩, h3⟩; exact ⟨h1, h2, h3⟩
    · rintro ⟨h1, h2, h3⟩; exact ⟨⟨h1, h2⟩, h3⟩

/-- The hand-registered keys after `removeMethods`. -/
theorem removeMethods_reg (ht : Bool) (methods : List Bytes) (x : Node) (m : Bytes) :
    m ∈ regKeys (removeMethods ht methods x).handlers ↔
      m ∈ regKeys x.handlers ∧ ¬ (methods = [] ∨ m ∈ methods) := by
  rw [removeMethods_handlers]
  split
  · rename_i hempty
    have : methods = [] := by simpa using hempty
    simp [regKeys_nil, this]
  · rename_i hempty
    have hne : methods ≠ [] := by simpa using hempty
    have hfold : m ∈ regKeys (methods.foldl rmStep x.handlers) ↔
        m ∈ regKeys x.handlers ∧ ¬ (methods = [] ∨ m ∈ methods) := by
      rw [mem_regKeys, mem_regKeys]
      constructor
      · rintro ⟨h1, h2⟩
        have := (foldl_rmStep_reg methods x.handlers m h2).1 h1
        exact ⟨⟨this.1, h2⟩, fun h => h.elim hne this.2⟩
      · rintro ⟨⟨h1, h2⟩, h3⟩
        exact ⟨(foldl_rmStep_reg methods x.handlers m h2).2 ⟨h1, fun h => h3 (.inr h)⟩, h2⟩
    split
    · rename_i htest
      rw [← hfold]
      simp only [regKeys_nil, List.not_mem_nil, false_iff]
      intro hm
      rw [mem_regKeys] at hm
      have hlen : (methods.foldl rmStep x.handlers).keys.length = 2 := by simpa [AMap.keys] using htest.1
      exact length_ne_two_of_three hm.1 ((AMap.contains_iff _ _).1 htest.2.1) ((AMap.contains_iff _ _).1 htest.2.2)
        hm.2.2.1 hm.2.2.2 method_consts_ne.2.2.2.2.2.2.2.1 hlen
    · exact hfold

/-! ## The four operations on the live pairs of the tree -/

theorem tree_has_add {t t' : Tree} {p : Bytes} {h : Handler} {ms : List Nat} {methods : List Bytes}
    (hinv : TInv t) (hw : WfPattern p = true) (he : t.add p h ms methods = .ok t') (q m : Bytes) :
    (tableOf t').has q m ↔ (tableOf t).has q m ∨ (q = p ∧ m ∈ effMethods methods) := by
  obtain ⟨_, x, x', A, B, h1, h2, hxp, hfx, _, _⟩ := add_effect hinv hw he
  obtain ⟨_, hp', _, _, hk, hm⟩ := addMethodsNode_keys hfx
  rw [has_tableOf, has_tableOf, has_split _ A B x h1, has_split _ A B x' (List.Perm.of_eq h2), hp', hxp]
  have hreg : m ∈ regKeys x'.handlers ↔ m ∈ regKeys x.handlers ∨ m ∈ effMethods methods := by
    rw [mem_regKeys, mem_regKeys, hk m]
    constructor
    · rintro ⟨h1 | h1 | h1 | h1 | h1, h2⟩
      · exact .inl ⟨h1, h2⟩
      · exact .inr h1
      · exact absurd h1.1 h2.1
      · exact absurd h1 h2.2.1
      · exact absurd h1 h2.2.2
    · rintro (⟨h1, h2⟩ | h1)
      · exact ⟨.inl h1, h2⟩
      · exact ⟨.inr (.inl h1), (hm m h1).1⟩
  rw [hreg]
  constructor
  · rintro (h | ⟨h3, h4 | h4⟩)
    · exact .inl (.inl h)
    · exact .inl (.inr ⟨h3, h4⟩)
    · exact .inr ⟨h3.symm, h4⟩
  · rintro ((h | h) | ⟨h3, h4⟩)
    · exact .inl h
    · exact .inr ⟨h.1, .inl h.2⟩
    · exact .inr ⟨h3.symm, .inr h4⟩

theorem tree_has_remove {t t' : Tree} {p : Bytes} {methods : List Bytes}
    (hinv : TInv t) (he : t.remove p methods = .ok t') (q m : Bytes) :
    (tableOf t').has q m ↔ (tableOf t).has q m ∧ ¬ (q = p ∧ (methods = [] ∨ m ∈ methods)) := by
  rcases (remove_effect hinv he).2 with ⟨rfl, hno⟩ | ⟨x, A, B, root1, hx, hxp, e1, e2, _⟩
  · constructor
    · intro h
      refine ⟨h, fun hq => ?_⟩
      obtain ⟨e, hmem, hep, _⟩ := (has_tableOf _ _ _).1 h
      obtain ⟨y, hy, _, rfl⟩ := mem_liveL.1 hmem
      exact hno y hy (hep.trans hq.1)
    · exact fun h => h.1
  · have hoth := others_ne hinv.sh hx e1
    have hp' : (removeMethods t.hasTrace methods x).pattern = x.pattern := (removeMethods_keeps _ _ x).2.1
    rw [has_tableOf, has_tableOf, has_split _ A B x (List.Perm.of_eq e1),
      has_split _ A B _ (List.Perm.of_eq e2), hp', removeMethods_reg, hxp]
    constructor
    · rintro (⟨e, hmem, hep, hm⟩ | ⟨h1, h2, h3⟩)
      · refine ⟨.inl ⟨e, hmem, hep, hm⟩, fun hq => hoth e hmem ?_⟩
        rw [hep, hq.1, hxp]
      · exact ⟨.inr ⟨h1, h2⟩, fun hq => h3 hq.2⟩
    · rintro ⟨h | ⟨h1, h2⟩, hno⟩
      · exact .inl h
      · exact .inr ⟨h1, h2, fun h3 => hno ⟨h1.symm, h3⟩⟩

theorem tree_has_clean {t t' : Tree} {pre : Bytes} (hinv : TInv t) (he : t.clean pre = .ok t') (q m : Bytes) :
    (tableOf t').has q m ↔ (tableOf t).has q m ∧ ¬ pre <+: q := by
  obtain ⟨_, hl, _⟩ := clean_effect hinv he
  rw [has_tableOf, has_tableOf, hl]
  constructor
  · rintro ⟨e, hmem, rfl, hm⟩
    rw [List.mem_filter] at hmem
    refine ⟨⟨e, hmem.1, rfl, hm⟩, fun hp => ?_⟩
    have := (hasPrefix_iff e.1 pre).2 hp
    simp [keepE, this] at hmem
  · rintro ⟨⟨e, hmem, rfl, hm⟩, hno⟩
    refine ⟨e, List.mem_filter.2 ⟨hmem, ?_⟩, rfl, hm⟩
    unfold keepE
    cases hh : hasPrefix e.1 pre with
    | false => rfl
    | true => exact absurd ((hasPrefix_iff e.1 pre).1 hh) hno

theorem regKeys_mwE (router : Bytes) (ms : List Nat) (e : Bytes × AMap Handler) :
    regKeys (mwE router ms e).2 = regKeys e.2 := by
  unfold regKeys mwE
  rw [AMap.keys_mapVals e.2 (fun k v => wrapWith v k e.1 router ms)]

theorem tree_has_use {t : Tree} (ms : List Nat) (hinv : TInv t) (q m : Bytes) :
    (tableOf (t.applyMiddleware ms)).has q m ↔ (tableOf t).has q m := by
  rw [has_tableOf, has_tableOf, (use_effect ms hinv).2]
  constructor
  · rintro ⟨e, hmem, rfl, hm⟩
    rw [List.mem_map] at hmem
    obtain ⟨e0, he0, rfl⟩ := hmem
    exact ⟨e0, he0, rfl, by rwa [regKeys_mwE] at hm⟩
  · rintro ⟨e, hmem, rfl, hm⟩
    exact ⟨mwE t.name ms e, List.mem_map_of_mem hmem, rfl, by rwa [regKeys_mwE]⟩

/-! ## The refinement -/

/-- `tb` is the abstract table of the tree `t`. -/
structure Refines (t : Tree) (tb : Spec.Table) : Prop where
  inv : TInv t
  has : ∀ q m, (tableOf t).has q m ↔ tb.has q m
  ok : TableOk tb

theorem Refines.step {t : Tree} {tb : Spec.Table} (h : Refines t tb) (op : TOp) (hw : op.wf = true) :
    Refines (t.step op) (Spec.stepWith t tb op) := by
  refine ⟨TInv_step h.inv op hw, ?_, ?_⟩
  · intro q m
    cases op with
    | add p hd ms methods =>
      simp only [Tree.step, Spec.stepWith]
      cases he : t.add p hd ms methods with
      | ok t' => simp only []; rw [tree_has_add h.inv hw he, has_add, h.has]
      | error e => exact h.has q m
    | remove p methods =>
      simp only [Tree.step, Spec.stepWith]
      cases he : t.remove p methods with
      | ok t' => simp only []; rw [tree_has_remove h.inv he, has_remove, h.has]
      | error e =>
        -- `remove` never fails on a tree with the invariant, but the statement does not need that:
        -- the specification step is then compared with the unchanged tree
        simp only []
        exact absurd he (remove_no_error h.inv p methods e)
    | clean pre =>
      simp only [Tree.step, Spec.stepWith]
      cases he : t.clean pre with
      | ok t' => simp only []; rw [tree_has_clean h.inv he, has_clean, h.has]
      | error e => simp only []; exact absurd he (clean_no_error h.inv pre e)
    | use ms =>
      simp only [Tree.step, Spec.stepWith]
      rw [tree_has_use ms h.inv, h.has]
  · cases op with
    | add p hd ms methods =>
      simp only [Spec.stepWith]
      split
      · exact h.ok.add p methods
      · exact h.ok
    | remove p methods => exact h.ok.remove p methods
    | clean pre => exact h.ok.clean pre
    | use ms => exact h.ok

end Mux.P11
