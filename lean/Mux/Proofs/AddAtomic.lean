/-
  Mux.Proofs.AddAtomic — the decision logic of `Tree.add` (property C17, part A): the stages of the
  validation in closed form, error classes of every stage, what `checkMethods` guarantees about
  duplicates, and a characterisation of `checkAmb`.
-/
import Mux.Proofs.TreeHead
import Mux.Proofs.TreeReach
import Mux.Proofs.MatchSound
import Mux.Proofs.FindAgree
namespace Mux.P9
open Mux

/-! ## `Tree.add` stage by stage -/

/-- The last two stages of `Tree.add`: restructure, then install the handlers. -/
def addTail (t : Tree) (p : Bytes) (h : Handler) (ms : List Nat) (methods : List Bytes) : Except Err Tree :=
  match splitString p with
  | [] => .error (.fault 260)
  | v :: rest =>
    match getNode t.ic t.root v rest with
    | .error e => .error e
    | .ok (root1, path) =>
      match root1.modifyAt (t.addMethodsNode h p ms methods) path with
      | .error e => .error e
      | .ok root2 => .ok (({ t with root := root2 }).bumpMethods methods)

/-- `Tree.add` as a cascade of its five stages. -/
theorem add_eq (t : Tree) (p : Bytes) (h : Handler) (ms : List Nat) (methods : List Bytes) :
    t.add p h ms methods =
      match t.root.checkAmb t.ic p false with
      | .error e => .error e
      | .ok (some true) => .error .ambiguous
      | .ok _ =>
        match split t.ic p with
        | .error e => .error e
        | .ok _ =>
          match t.checkMethods p (effMethods methods) [] with
          | .error e => .error e
          | .ok _ => addTail t p h ms (effMethods methods) := by
  unfold Tree.add addTail effMethods
  simp only [bind, Except.bind, pure, Except.pure, throw, throwThe, MonadExceptOf.throw]
  cases t.root.checkAmb t.ic p false with
  | error e => rfl
  | ok a =>
    simp only []
    cases a with
    | none =>
      simp only []
      cases split t.ic p with
      | error e => rfl
      | ok segs =>
        simp only []
        cases t.checkMethods p (if methods.isEmpty = true then anyMethods else methods) [] with
        | error e => rfl
        | ok u =>
          simp only []
          cases splitString p with
          | nil => rfl
          | cons v rest =>
            simp only []
            cases getNode t.ic t.root v rest with
            | error e => rfl
            | ok r =>
              obtain ⟨root1, path⟩ := r
              simp only []
              cases root1.modifyAt (t.addMethodsNode h p ms (if methods.isEmpty = true then anyMethods else methods)) path <;> rfl
    | some b =>
      cases b with
      | true => rfl
      | false =>
        simp only []
        cases split t.ic p with
        | error e => rfl
        | ok segs =>
          simp only []
          cases t.checkMethods p (if methods.isEmpty = true then anyMethods else methods) [] with
          | error e => rfl
          | ok u =>
            simp only []
            cases splitString p with
            | nil => rfl
            | cons v rest =>
              simp only []
              cases getNode t.ic t.root v rest with
              | error e => rfl
              | ok r =>
                obtain ⟨root1, path⟩ := r
                simp only []
                cases root1.modifyAt (t.addMethodsNode h p ms (if methods.isEmpty = true then anyMethods else methods)) path <;> rfl


/-! ## Error classes of the stages -/

/-- The errors of the pattern syntax. -/
def SynErr (e : Err) : Prop :=
  e = .empty ∨ e = .adjacent ∨ e = .syntax ∨ e = .dupName ∨ e = .regexp ∨ e = .tooLong ∨ e = .unsupported

/-- The errors of the method list. -/
def MethErr (e : Err) : Prop := e = .reserved ∨ e = .unknownMethod ∨ e = .dupMethod

theorem compileRule_error {name : Bytes} {ign : Bool} {rule : Bytes} {e : Err}
    (h : compileRule name ign rule = .error e) : e = .regexp ∨ e = .unsupported := by
  unfold compileRule at h
  split at h
  · split at h
    · cases h
    · cases h; exact .inl rfl
  · cases h; exact .inl rfl
  · cases h; exact .inr rfl

theorem finishRuled_error {ic : Interceptors} {v : Bytes} {st en sp : Nat} {e : Err}
    (h : finishRuled ic v st en sp = .error e) : e = .regexp ∨ e = .unsupported := by
  unfold finishRuled at h
  simp only [] at h
  split at h
  · cases h
  · split at h
    · cases h; exact .inr rfl
    · split at h
      · rename_i e' he
        cases h
        exact compileRule_error he
      · cases h

theorem newSegment_error {ic : Interceptors} {v : Bytes} {e : Err} (h : newSegment ic v = .error e) :
    SynErr e ∨ ∃ k, e = .fault k := by
  rw [newSegment_closed] at h
  split at h
  · cases h; exact .inl (.inr (.inr (.inr (.inr (.inr (.inl rfl))))))
  split at h
  · split at h
    · split at h
      · cases h; exact .inl (.inr (.inr (.inl rfl)))
      · cases h
    · split at h
      · cases h; exact .inl (.inr (.inr (.inl rfl)))
      split at h
      · cases h
      split at h
      · cases h
      split at h
      · cases h; exact .inr ⟨_, rfl⟩
      · rcases finishRuled_error h with rfl | rfl
        · exact .inl (.inr (.inr (.inr (.inr (.inl rfl)))))
        · exact .inl (.inr (.inr (.inr (.inr (.inr (.inr rfl))))))
  · cases h

theorem splitLoop_error {ic : Interceptors} {ps : List Bytes} {flag : Bool} {names : List Bytes} {e : Err}
    (h : splitLoop ic ps flag names = .error e) : SynErr e ∨ ∃ k, e = .fault k := by
  induction ps generalizing flag names with
  | nil => cases h
  | cons p ps ih =>
    simp only [splitLoop, bind, Except.bind, pure, Except.pure, throw, throwThe, MonadExceptOf.throw] at h
    split at h
    · rename_i e' he
      cases h
      simp only [atE] at he
      split at he
      · cases he
      · cases he; exact .inr ⟨_, rfl⟩
    split at h
    · cases h; exact .inl (.inr (.inl rfl))
    split at h
    · rename_i e' he
      cases h
      simp only [atE] at he
      split at he
      · cases he
      · cases he; exact .inr ⟨_, rfl⟩
    split at h
    · rename_i e' he
      cases h
      exact newSegment_error he
    split at h
    · cases h; exact .inl (.inr (.inr (.inr (.inl rfl))))
    split at h
    · rename_i e' he
      cases h
      exact ih he
    · cases h

theorem split_error {ic : Interceptors} {p : Bytes} {e : Err} (h : split ic p = .error e) : SynErr e := by
  have hnf := split_no_fault ic p
  unfold split at h
  split at h
  · cases h; exact .inl rfl
  · rcases splitLoop_error h with h' | ⟨k, rfl⟩
    · exact h'
    · rename_i hp
      exact absurd (by unfold split; rw [if_neg hp]; exact h) (hnf k)


/-! ## `checkAmb` -/

theorem splitString_cons_prefix {p v : Bytes} {rest : List Bytes} (h : splitString p = v :: rest) : v <+: p := by
  have := splitString_join p
  rw [h] at this
  exact ⟨rest.flatten, by simpa using this⟩

/-- The first segment of an accepted pattern is a non-empty prefix of the pattern text. -/
theorem split_ok_first {ic : Interceptors} {pat : Bytes} {segs : List Seg} (h : split ic pat = .ok segs) :
    ∃ s0 rest, segs = s0 :: rest ∧ s0.value <+: pat ∧ s0.value ≠ [] := by
  unfold split at h
  split at h
  · cases h
  · cases hs : splitString pat with
    | nil => exact absurd hs (splitString_ne_nil pat)
    | cons v rest =>
      rw [hs] at h
      obtain ⟨hv, _, seg, segs', hseg, _, _, rfl⟩ := splitLoop_cons_inv h
      have hval := newSegment_value _ _ _ hseg
      exact ⟨seg, segs', rfl, by rw [hval]; exact splitString_cons_prefix hs, by rw [hval]; exact hv⟩

/-- The literal suffix of a segment is part of its text. -/
theorem newSegment_suffix_le {ic : Interceptors} {v : Bytes} {s : Seg} (h : newSegment ic v = .ok s) :
    s.suffix.length ≤ s.value.length := by
  have hval := newSegment_value ic v s h
  rw [hval]
  have named : ∀ st en hi, (mkNamed v st en hi).suffix.length ≤ v.length := by
    intro st en hi; simp only [mkNamed, List.length_drop]; omega
  rw [newSegment_closed] at h
  split at h
  · cases h
  split at h
  · split at h
    · split at h
      · cases h
      · cases h; exact named _ _ _
    · split at h
      · cases h
      split at h
      · cases h; exact named _ _ _
      split at h
      · cases h; exact named _ _ _
      split at h
      · cases h
      · unfold finishRuled at h
        simp only [] at h
        split at h
        · cases h; simp only [List.length_drop]; omega
        · split at h
          · cases h
          · split at h
            · cases h
            · cases h; simp only [List.length_drop]; omega
  · cases h; simp

/-- The first segment of an accepted pattern: its literal suffix is part of its text. -/
theorem split_ok_first_suffix {ic : Interceptors} {pat : Bytes} {s0 : Seg} {segs : List Seg}
    (h : split ic pat = .ok (s0 :: segs)) : s0.suffix.length ≤ s0.value.length := by
  unfold split at h
  split at h
  · cases h
  · cases hs : splitString pat with
    | nil => exact absurd hs (splitString_ne_nil pat)
    | cons v rest =>
      rw [hs] at h
      obtain ⟨_, _, seg, segs', hseg, _, _, heq⟩ := splitLoop_cons_inv h
      cases heq
      exact newSegment_suffix_le hseg

/-- The offset of the D33 branch of `checkAmbiguous` lies inside the pattern: no fault at site 252. -/
theorem ambPrefix_offset_le {ic : Interceptors} {pat : Bytes} {s0 : Seg} {segs : List Seg} {c : Seg}
    (h : split ic pat = .ok (s0 :: segs)) (hp : c.isAmbiguousPrefix s0 = true) :
    s0.value.length - s0.suffix.length + c.suffix.length ≤ pat.length := by
  have h1 := split_ok_first_suffix h
  obtain ⟨s0', rest, heq, hpre, _⟩ := split_ok_first h
  cases heq
  have h2 := hpre.length_le
  have h3 : c.suffix.length < s0.suffix.length := by
    simp only [Seg.isAmbiguousPrefix, Bool.decide_and, Bool.and_eq_true, decide_eq_true_eq] at hp
    exact hp.2.2.2.2.1
  omega

theorem sliceE_drop (site : Nat) (pat : Bytes) {k : Nat} (h : k ≤ pat.length) :
    sliceE site pat k pat.length = .ok (pat.drop k) := by
  rw [sliceE_ok site pat k pat.length h (Nat.le_refl _), List.take_length]

/-- A walk of the ambiguity check from `n` over the pattern text `pat` to a node `m` with handlers.
Each step goes to a child, either because the child's text is a literal prefix of the remaining
pattern (`false`), or because the child's segment `isAmbiguous` with the first segment of the
remaining pattern (`true`), which is then skipped; or (D33 repair, also `true`) because the child is the
upper half of a split parameter node: its segment is the same token as the first segment of the remaining
pattern up to the name or the `-` flag, its literal suffix a proper prefix of that segment's suffix
(`isAmbiguousPrefix`), and the walk goes on below it with what follows the token and that shorter suffix. -/
inductive AmbPath (ic : Interceptors) : Node → Bytes → Node → List (Seg × Bool) → Prop
  | here (n : Node) : n.handlers ≠ [] → AmbPath ic n [] n []
  | lit {n c m : Node} {pat : Bytes} {steps : List (Seg × Bool)} : pat ≠ [] → c ∈ n.children →
      c.seg.value <+: pat → AmbPath ic c (pat.drop c.seg.value.length) m steps →
      AmbPath ic n pat m ((c.seg, false) :: steps)
  | amb {n c m : Node} {pat : Bytes} {s0 : Seg} {segs : List Seg} {steps : List (Seg × Bool)} : pat ≠ [] →
      c ∈ n.children → ¬ c.seg.value <+: pat → split ic pat = .ok (s0 :: segs) →
      c.seg.isAmbiguous s0 = true → AmbPath ic c (pat.drop s0.value.length) m steps →
      AmbPath ic n pat m ((c.seg, true) :: steps)
  | pre {n c m : Node} {pat : Bytes} {s0 : Seg} {segs : List Seg} {steps : List (Seg × Bool)} : pat ≠ [] →
      c ∈ n.children → ¬ c.seg.value <+: pat → split ic pat = .ok (s0 :: segs) →
      c.seg.isAmbiguous s0 = false → c.seg.isAmbiguousPrefix s0 = true →
      AmbPath ic c (pat.drop (s0.value.length - s0.suffix.length + c.seg.suffix.length)) m steps →
      AmbPath ic n pat m ((c.seg, true) :: steps)

/-- The walk is a chain of the tree, and it ends in a node with handlers. -/
theorem AmbPath.chain {ic : Interceptors} {n m : Node} {pat : Bytes} {steps : List (Seg × Bool)}
    (h : AmbPath ic n pat m steps) : Chain n (steps.map (·.1)) m ∧ m.handlers ≠ [] := by
  induction h with
  | here n hn => exact ⟨Chain.nil n, hn⟩
  | lit _ hc _ _ ih => exact ⟨Chain.cons hc ih.1, ih.2⟩
  | amb _ hc _ _ _ _ ih => exact ⟨Chain.cons hc ih.1, ih.2⟩
  | pre _ hc _ _ _ _ _ ih => exact ⟨Chain.cons hc ih.1, ih.2⟩

mutual
/-- Soundness of `node.checkAmbiguous`: an answer `some b` comes from a walk, and `b` is the incoming
flag or-ed with "some step was an ambiguous one". -/
theorem checkAmb_sound (ic : Interceptors) : (n : Node) → (pat : Bytes) → (has b : Bool) →
    n.checkAmb ic pat has = .ok (some b) →
    ∃ m steps, AmbPath ic n pat m steps ∧ b = (has || steps.any (·.2))
  | .mk s p mi hs idx cs, pat, has, b, h => by
    simp only [Node.checkAmb] at h
    split at h
    · rename_i hemp
      have hpat : pat = [] := by simpa using hemp
      subst hpat
      split at h
      · rename_i hlen
        simp only [Except.ok.injEq, Option.some.injEq] at h
        refine ⟨_, [], AmbPath.here _ ?_, by simp [h]⟩
        intro e
        simp only [Node.handlers_mk] at e
        rw [e] at hlen
        simp at hlen
      · cases h
    · rename_i hemp
      have hpat : pat ≠ [] := by simpa using hemp
      exact checkAmbL_sound ic cs (.mk s p mi hs idx cs) pat has b (fun c hc => hc) hpat h
theorem checkAmbL_sound (ic : Interceptors) : (cs : List Node) → (n : Node) → (pat : Bytes) → (has b : Bool) →
    (∀ c ∈ cs, c ∈ n.children) → pat ≠ [] → checkAmbL ic cs pat has = .ok (some b) →
    ∃ m steps, AmbPath ic n pat m steps ∧ b = (has || steps.any (·.2))
  | [], _, _, _, _, _, _, h => by simp [checkAmbL] at h
  | c :: cs, n, pat, has, b, hsub, hpat, h => by
    have hcn : c ∈ n.children := hsub c (by simp)
    have hsub' : ∀ d ∈ cs, d ∈ n.children := fun d hd => hsub d (by simp [hd])
    simp only [checkAmbL, bind, Except.bind, pure, Except.pure, throw, throwThe, MonadExceptOf.throw] at h
    split at h
    · rename_i hpre
      have hpre' : c.seg.value <+: pat := (hasPrefix_iff _ _).1 hpre
      cases hr : Node.checkAmb ic c (pat.drop c.seg.value.length) has with
      | error e => rw [hr] at h; cases h
      | ok r =>
        rw [hr] at h
        cases r with
        | none => exact checkAmbL_sound ic cs n pat has b hsub' hpat h
        | some b' =>
          simp only [Except.ok.injEq, Option.some.injEq] at h
          subst h
          obtain ⟨m, steps, hp, hb⟩ := checkAmb_sound ic c _ has b' hr
          exact ⟨m, (c.seg, false) :: steps, AmbPath.lit hpat hcn hpre' hp, by simp [hb]⟩
    · rename_i hpre
      have hpre' : ¬ c.seg.value <+: pat := fun hp => hpre ((hasPrefix_iff _ _).2 hp)
      cases hs : split ic pat with
      | error e => rw [hs] at h; cases h
      | ok segs =>
        rw [hs] at h
        obtain ⟨s0, rest, rfl, hs0p, _⟩ := split_ok_first hs
        simp only [] at h
        split at h
        · rename_i hamb
          rw [sliceE_drop 251 pat hs0p.length_le] at h
          simp only [] at h
          cases hr : Node.checkAmb ic c (pat.drop s0.value.length) true with
          | error e => rw [hr] at h; cases h
          | ok r =>
            rw [hr] at h
            cases r with
            | none => exact checkAmbL_sound ic cs n pat has b hsub' hpat h
            | some b' =>
              simp only [Except.ok.injEq, Option.some.injEq] at h
              subst h
              obtain ⟨m, steps, hp, hb⟩ := checkAmb_sound ic c _ true b' hr
              refine ⟨m, (c.seg, true) :: steps, AmbPath.amb hpat hcn hpre' hs hamb hp, ?_⟩
              simp [hb]
        · rename_i hamb
          split at h
          · rename_i hpfx
            rw [sliceE_drop 252 pat (ambPrefix_offset_le hs hpfx)] at h
            simp only [] at h
            cases hr : Node.checkAmb ic c
                (pat.drop (s0.value.length - s0.suffix.length + c.seg.suffix.length)) true with
            | error e => rw [hr] at h; cases h
            | ok r =>
              rw [hr] at h
              cases r with
              | none => exact checkAmbL_sound ic cs n pat has b hsub' hpat h
              | some b' =>
                simp only [Except.ok.injEq, Option.some.injEq] at h
                subst h
                obtain ⟨m, steps, hp, hb⟩ := checkAmb_sound ic c _ true b' hr
                refine ⟨m, (c.seg, true) :: steps,
                  AmbPath.pre hpat hcn hpre' hs (by simpa using hamb) hpfx hp, ?_⟩
                simp [hb]
          · exact checkAmbL_sound ic cs n pat has b hsub' hpat h
end

mutual
/-- `checkAmbiguous` fails only with a syntax error of the pattern (it calls `Split`): never a fault. -/
theorem checkAmb_error (ic : Interceptors) : (n : Node) → (pat : Bytes) → (has : Bool) → (e : Err) →
    n.checkAmb ic pat has = .error e → SynErr e
  | .mk s p mi hs idx cs, pat, has, e, h => by
    simp only [Node.checkAmb] at h
    split at h
    · split at h <;> cases h
    · exact checkAmbL_error ic cs pat has e h
theorem checkAmbL_error (ic : Interceptors) : (cs : List Node) → (pat : Bytes) → (has : Bool) → (e : Err) →
    checkAmbL ic cs pat has = .error e → SynErr e
  | [], _, _, _, h => by simp [checkAmbL] at h
  | c :: cs, pat, has, e, h => by
    simp only [checkAmbL, bind, Except.bind, pure, Except.pure, throw, throwThe, MonadExceptOf.throw] at h
    split at h
    · cases hr : Node.checkAmb ic c (pat.drop c.seg.value.length) has with
      | error e' =>
        rw [hr] at h
        cases h
        exact checkAmb_error ic c _ has _ hr
      | ok r =>
        rw [hr] at h
        cases r with
        | none => exact checkAmbL_error ic cs pat has e h
        | some b' => cases h
    · cases hs : split ic pat with
      | error e' =>
        rw [hs] at h
        cases h
        exact split_error hs
      | ok segs =>
        rw [hs] at h
        obtain ⟨s0, rest, rfl, hs0p, _⟩ := split_ok_first hs
        simp only [] at h
        split at h
        · rw [sliceE_drop 251 pat hs0p.length_le] at h
          simp only [] at h
          cases hr : Node.checkAmb ic c (pat.drop s0.value.length) true with
          | error e' =>
            rw [hr] at h
            cases h
            exact checkAmb_error ic c _ true _ hr
          | ok r =>
            rw [hr] at h
            cases r with
            | none => exact checkAmbL_error ic cs pat has e h
            | some b' => cases h
        · split at h
          · rename_i hpfx
            rw [sliceE_drop 252 pat (ambPrefix_offset_le hs hpfx)] at h
            simp only [] at h
            cases hr : Node.checkAmb ic c
                (pat.drop (s0.value.length - s0.suffix.length + c.seg.suffix.length)) true with
            | error e' =>
              rw [hr] at h
              cases h
              exact checkAmb_error ic c _ true _ hr
            | ok r =>
              rw [hr] at h
              cases r with
              | none => exact checkAmbL_error ic cs pat has e h
              | some b' => cases h
          · exact checkAmbL_error ic cs pat has e h
end


/-! ## Error class of `getNode`, `modifyAt`, `addMethodsNode` -/

/-- What `getNode` can fail with: an error of `NewSegment`, `unsupported` (duplicate sibling texts,
outside the modelled domain) or a fault. -/
def GnErr (e : Err) : Prop := SynErr e ∨ ∃ k, e = .fault k

theorem buildIndexesLoop_error {cs : List Node} {i : Nat} {acc : List (UInt8 × Nat)} {e : Err}
    (h : buildIndexesLoop cs i acc = .error e) : e = .fault 210 := by
  induction cs generalizing i acc with
  | nil => cases h
  | cons c cs ih =>
    simp only [buildIndexesLoop] at h
    split at h
    · split at h
      · cases h; rfl
      · exact ih h
    · exact ih h

theorem sortNode_error {n : Node} {e : Err} (h : sortNode n = .error e) : GnErr e := by
  unfold sortNode at h
  simp only [bind, Except.bind, pure, Except.pure, throw, throwThe, MonadExceptOf.throw] at h
  split at h
  · cases h; exact .inl (.inr (.inr (.inr (.inr (.inr (.inr rfl))))))
  · split at h
    · rename_i e' he
      cases h
      unfold buildIndexes at he
      split at he
      · cases he
      · exact .inr ⟨_, buildIndexesLoop_error he⟩
    · cases h

theorem splitAt_error {ic : Interceptors} {seg : Seg} {pos : Nat} {e : Err} (h : seg.splitAt ic pos = .error e) :
    GnErr e := by
  simp only [Seg.splitAt, bind, Except.bind, pure, Except.pure] at h
  split at h
  · rename_i e' he
    cases h
    simp only [sliceE] at he
    split at he
    · cases he
    · cases he; exact .inr ⟨_, rfl⟩
  split at h
  · rename_i e' he
    cases h
    exact newSegment_error he
  split at h
  · rename_i e' he
    cases h
    simp only [sliceE] at he
    split at he
    · cases he
    · cases he; exact .inr ⟨_, rfl⟩
  split at h
  · rename_i e' he
    cases h
    exact newSegment_error he
  · cases h

theorem gnSplit_error {ic : Interceptors} {n c : Node} {i l : Nat} {e : Err} (h : gnSplit ic n c i l = .error e) :
    GnErr e := by
  unfold gnSplit at h
  simp only [bind, Except.bind, pure, Except.pure, throw, throwThe, MonadExceptOf.throw] at h
  split at h
  · cases h
  split at h
  · rename_i e' he
    cases h
    exact splitAt_error he
  split at h
  · rename_i e' he
    cases h
    exact sortNode_error he
  split at h
  · rename_i e' he
    cases h
    exact sortNode_error he
  split at h
  · cases h; exact .inr ⟨_, rfl⟩
  · cases h

theorem gnPrep_error {ic : Interceptors} {n : Node} {v : Bytes} {rest : List Bytes} {e : Err}
    (h : gnPrep ic n v rest = .error e) : GnErr e := by
  unfold gnPrep at h
  simp only [bind, Except.bind, pure, Except.pure, throw, throwThe, MonadExceptOf.throw] at h
  split at h
  · rename_i e' he
    cases h
    exact newSegment_error he
  split at h
  · split at h
    · cases h; exact .inr ⟨_, rfl⟩
    · cases h
  · split at h
    · split at h
      · rename_i e' he
        cases h
        exact sortNode_error he
      split at h
      · cases h; exact .inr ⟨_, rfl⟩
      · cases h
    · split at h
      · cases h; exact .inr ⟨_, rfl⟩
      split at h
      · rename_i e' he
        cases h
        exact gnSplit_error he
      · cases h

theorem getNode_error (ic : Interceptors) (n : Node) (v : Bytes) (rest : List Bytes) :
    ∀ e, getNode ic n v rest = .error e → GnErr e := by
  induction n, v, rest using getNode_induction ic with
  | step n v rest ih =>
    intro e h
    rw [getNode_eq] at h
    cases hp : gnPrep ic n v rest with
    | error e' =>
      rw [hp] at h
      cases h
      exact gnPrep_error hp
    | ok s =>
      rw [hp] at h
      simp only [gnFinish] at h
      cases hc : s.cont with
      | none => rw [hc] at h; cases h
      | some vr =>
        obtain ⟨v', rest'⟩ := vr
        rw [hc] at h
        simp only [bind, Except.bind, pure, Except.pure] at h
        cases hr : getNode ic s.parent v' rest' with
        | error e' =>
          rw [hr] at h
          cases h
          exact ih s v' rest' hp hc _ hr
        | ok r => rw [hr] at h; cases h

theorem modifyAt_error (f : Node → Except Err Node) : ∀ (path : List Nat) (n : Node) (e : Err),
    n.modifyAt f path = .error e → e = .fault 240 ∨ ∃ m, f m = .error e := by
  intro path
  induction path with
  | nil =>
    intro n e h
    cases n
    simp only [Node.modifyAt] at h
    exact .inr ⟨_, h⟩
  | cons i path ih =>
    intro n e h
    cases n with
    | mk s p mi hs idx cs =>
      simp only [Node.modifyAt, bind, Except.bind, pure, Except.pure] at h
      have hL : ∀ (cs : List Node) (i : Nat) (e : Err), modifyAtL f cs i path = .error e →
          e = .fault 240 ∨ ∃ m, f m = .error e := by
        intro cs
        induction cs with
        | nil => intro i e h; simp [modifyAtL] at h; exact .inl h.symm
        | cons c cs ihc =>
          intro i e h
          cases i with
          | zero =>
            simp only [modifyAtL, bind, Except.bind, pure, Except.pure] at h
            split at h
            · rename_i e' he
              cases h
              exact ih c _ he
            · cases h
          | succ i =>
            simp only [modifyAtL, bind, Except.bind, pure, Except.pure] at h
            split at h
            · rename_i e' he
              cases h
              exact ihc i _ he
            · cases h
      split at h
      · rename_i e' he
        cases h
        exact hL cs i _ he
      · cases h

theorem addMethodsLoop_error (t : Tree) (h : Handler) (p : Bytes) (ms : List Nat) :
    ∀ (methods : List Bytes) (hs : AMap Handler) (e : Err),
      addMethodsLoop t h p ms methods hs = .error e → MethErr e := by
  intro methods
  induction methods with
  | nil => intro hs e he; cases he
  | cons m rest ih =>
    intro hs e he
    simp only [addMethodsLoop, bind, Except.bind, throw, throwThe, MonadExceptOf.throw] at he
    split at he
    · cases he; exact .inl rfl
    split at he
    · cases he; exact .inr (.inl rfl)
    split at he
    · cases he; exact .inr (.inr rfl)
    exact ih _ e he

theorem addMethodsNode_error {t : Tree} {h : Handler} {p : Bytes} {ms : List Nat} {methods : List Bytes}
    {n : Node} {e : Err} (he : t.addMethodsNode h p ms methods n = .error e) : MethErr e := by
  unfold Tree.addMethodsNode at he
  simp only [bind, Except.bind, pure, Except.pure] at he
  split at he
  · rename_i e' hl
    cases he
    exact addMethodsLoop_error t h p ms methods _ _ hl
  · cases he

/-- The last two stages fail only with an error of `getNode`, a fault, or an error of the method
loop. -/
theorem addTail_error {t : Tree} {p : Bytes} {h : Handler} {ms : List Nat} {methods : List Bytes} {e : Err}
    (he : addTail t p h ms methods = .error e) : GnErr e ∨ MethErr e := by
  unfold addTail at he
  split at he
  · cases he; exact .inl (.inr ⟨_, rfl⟩)
  · split at he
    · rename_i e' hg
      cases he
      exact .inl (getNode_error _ _ _ _ _ hg)
    · split at he
      · rename_i e' hm
        cases he
        rcases modifyAt_error _ _ _ _ hm with rfl | ⟨m, hm'⟩
        · exact .inl (.inr ⟨_, rfl⟩)
        · exact .inr (addMethodsNode_error hm')
      · cases he


/-! ## What a successful validation of the method list guarantees -/

theorem checkMethods_full (t : Tree) (p : Bytes) : ∀ (methods seen : List Bytes),
    t.checkMethods p methods seen = .ok () →
      methods.Nodup ∧ ∀ m ∈ methods, m ∉ seen ∧ t.hasMethodAt p m = false := by
  intro methods
  induction methods with
  | nil => intro _ _; simp
  | cons m rest ih =>
    intro seen h
    rw [checkMethods_cons] at h
    split at h
    · cases h
    split at h
    · cases h
    split at h
    · cases h
    rename_i hseen
    split at h
    · cases h
    rename_i hlive
    obtain ⟨h1, h2⟩ := ih _ h
    refine ⟨List.nodup_cons.2 ⟨fun hm => (h2 m hm).1 (by simp), h1⟩, ?_⟩
    intro x hx
    rcases List.mem_cons.1 hx with rfl | hx
    · exact ⟨by simpa using hseen, by simpa using hlive⟩
    · exact ⟨fun hs => (h2 x hx).1 (by simp [hs]), (h2 x hx).2⟩

/-- A method occurring twice is refused. -/
theorem checkMethods_dup (t : Tree) (p : Bytes) (methods seen : List Bytes) (h : ¬ methods.Nodup) :
    t.checkMethods p methods seen ≠ .ok () := fun hok => h (checkMethods_full t p methods seen hok).1

/-- A method already registered for the pattern is refused. -/
theorem checkMethods_live (t : Tree) (p : Bytes) (methods seen : List Bytes) {m : Bytes} (hm : m ∈ methods)
    (h : t.hasMethodAt p m = true) : t.checkMethods p methods seen ≠ .ok () := by
  intro hok
  have := ((checkMethods_full t p methods seen hok).2 m hm).2
  rw [h] at this
  cases this

/-- Without reserved or unknown names in the list, the only error is `dupMethod`. -/
theorem checkMethods_error_dup (t : Tree) (p : Bytes) : ∀ (methods seen : List Bytes) (e : Err),
    (∀ m ∈ methods, ¬ BadMethod t.hasTrace m) → t.checkMethods p methods seen = .error e → e = .dupMethod := by
  intro methods
  induction methods with
  | nil => intro _ e _ h; simp [Tree.checkMethods] at h
  | cons m rest ih =>
    intro seen e hbad h
    have hm := hbad m (by simp)
    rw [checkMethods_cons] at h
    split at h
    · rename_i hres
      exfalso
      apply hm
      rcases hres with h1 | h1 | h1
      · exact .inl h1
      · exact .inr (.inl h1)
      · exact .inr (.inr (.inl h1))
    split at h
    · rename_i hkn
      exfalso
      apply hm
      refine .inr (.inr (.inr ?_))
      intro hmem
      have := (isKnownMethod_iff m).2 hmem
      rw [hkn] at this
      cases this
    split at h
    · cases h; rfl
    split at h
    · cases h; rfl
    exact ih _ e (fun x hx => hbad x (by simp [hx])) h

/-! ## The handler stage cannot fail after the validation -/

theorem contains_false_iff {V : Type} (hs : AMap V) (k : Bytes) : hs.contains k = false ↔ k ∉ hs.keys := by
  rw [← AMap.contains_iff]
  cases hs.contains k <;> simp

theorem addMethodsLoop_ok (t : Tree) (h : Handler) (p : Bytes) (ms : List Nat) :
    ∀ (methods : List Bytes) (hs : AMap Handler), (∀ m ∈ methods, ¬ BadMethod t.hasTrace m) → methods.Nodup →
      (∀ m ∈ methods, hs.contains m = false) → ∃ hs', addMethodsLoop t h p ms methods hs = .ok hs' := by
  intro methods
  induction methods with
  | nil => intro hs _ _ _; exact ⟨hs, rfl⟩
  | cons m rest ih =>
    intro hs hbad hnd hfree
    have hm := hbad m (by simp)
    have hres : ¬ (m = mOPTIONS ∨ m = mHEAD ∨ (t.hasTrace = true ∧ m = mTRACE)) := by
      rintro (h1 | h1 | h1)
      · exact hm (.inl h1)
      · exact hm (.inr (.inl h1))
      · exact hm (.inr (.inr (.inl h1)))
    have hkn : isKnownMethod m = true :=
      (isKnownMethod_iff m).2 (Classical.not_not.1 fun h' => hm (.inr (.inr (.inr h'))))
    have hc : hs.contains m = false := hfree m (by simp)
    simp only [addMethodsLoop, bind, Except.bind, throw, throwThe, MonadExceptOf.throw, hres, if_false, hkn,
      not_true_eq_false, hc, Bool.false_eq_true]
    rw [List.nodup_cons] at hnd
    apply ih _ (fun x hx => hbad x (by simp [hx])) hnd.2
    intro x hx
    rw [contains_false_iff, AMap.mem_keys_set]
    have hxm : x ≠ m := fun e => hnd.1 (e ▸ hx)
    have hxh : x ≠ mHEAD := fun e => hbad x (by simp [hx]) (.inr (.inl e))
    have hxf : x ∉ hs.keys := (contains_false_iff hs x).1 (hfree x (by simp [hx]))
    rintro (h1 | h1)
    · split at h1
      · rw [AMap.mem_keys_set] at h1
        rcases h1 with h1 | h1
        · exact hxf h1
        · exact hxh h1
      · exact hxf h1
    · exact hxm h1

theorem addMethodsNode_ok (t : Tree) (h : Handler) (p : Bytes) (ms : List Nat) (methods : List Bytes) (n : Node)
    (hbad : ∀ m ∈ methods, ¬ BadMethod t.hasTrace m) (hnd : methods.Nodup)
    (hfree : ∀ m ∈ methods, n.handlers.contains m = false) :
    ∃ n', t.addMethodsNode h p ms methods n = .ok n' ∧ n'.seg = n.seg ∧ n'.children = n.children := by
  obtain ⟨hs', hl⟩ := addMethodsLoop_ok t h p ms methods n.handlers hbad hnd hfree
  unfold Tree.addMethodsNode
  simp only [bind, Except.bind, hl, pure, Except.pure]
  exact ⟨_, rfl, by simp [Node.setHandlers], by simp [Node.setHandlers]⟩

theorem addMethodsNode_fields {t : Tree} {h : Handler} {p : Bytes} {ms : List Nat} {methods : List Bytes}
    {n n' : Node} (he : t.addMethodsNode h p ms methods n = .ok n') : n'.seg = n.seg ∧ n'.children = n.children := by
  unfold Tree.addMethodsNode at he
  simp only [bind, Except.bind, pure, Except.pure] at he
  split at he
  · cases he
  · cases he
    exact ⟨by simp [Node.setHandlers], by simp [Node.setHandlers]⟩

theorem modifyAtL_set (f : Node → Except Err Node) (path : List Nat) {c c' : Node}
    (hc : c.modifyAt f path = .ok c') : ∀ (cs : List Node) (i : Nat), cs[i]? = some c →
      modifyAtL f cs i path = .ok (cs.set i c') := by
  intro cs
  induction cs with
  | nil => intro i h; simp at h
  | cons d cs ih =>
    intro i h
    cases i with
    | zero =>
      simp only [List.getElem?_cons_zero, Option.some.injEq] at h
      subst h
      simp [modifyAtL, bind, Except.bind, hc, pure, Except.pure]
    | succ i =>
      simp only [List.getElem?_cons_succ] at h
      simp [modifyAtL, bind, Except.bind, ih i h, pure, Except.pure]

/-- `modifyAt` along a valid path with a function that succeeds on the target and keeps `seg` and
`children`: it succeeds, and the structural invariant is untouched. -/
theorem modifyAt_ok_wf (ic : Interceptors) (f : Node → Except Err Node)
    (hf : ∀ m m', f m = .ok m' → m'.seg = m.seg ∧ m'.children = m.children) :
    ∀ (path : List Nat) (n tg : Node), n.getAt path = some tg → (∃ tg', f tg = .ok tg') →
      ∃ n', n.modifyAt f path = .ok n' ∧ n'.seg = n.seg ∧ n'.children.length = n.children.length ∧
        ∀ used, WfL ic used n.children → WfL ic used n'.children := by
  intro path
  induction path with
  | nil =>
    intro n tg hg ⟨tg', htg⟩
    simp only [Node.getAt_nil, Option.some.injEq] at hg
    subst hg
    obtain ⟨e1, e2⟩ := hf _ _ htg
    refine ⟨tg', by cases n; simpa [Node.modifyAt] using htg, e1, by rw [e2], ?_⟩
    intro used h; rw [e2]; exact h
  | cons i path ih =>
    intro n tg hg hft
    rw [Node.getAt_cons] at hg
    cases hc : n.children[i]? with
    | none => rw [hc] at hg; cases hg
    | some c =>
      rw [hc] at hg
      simp only [Option.bind_some] at hg
      obtain ⟨c', hc', e1, e2, e3⟩ := ih c tg hg hft
      cases n with
      | mk s p mi hs idx cs =>
        simp only [Node.children_mk] at hc
        refine ⟨.mk s p mi hs idx (cs.set i c'), ?_, rfl, by simp, ?_⟩
        · simp [Node.modifyAt, bind, Except.bind, modifyAtL_set f path hc' cs i hc, pure, Except.pure]
        · intro used h
          simp only [Node.children_mk] at h ⊢
          refine WfL_set h hc e1 ?_
          have hcw := WfL_of_getElem? h hc
          rw [Node.wf_iff] at hcw ⊢
          rw [e1]
          refine ⟨hcw.1, hcw.2.1, ?_, e3 _ hcw.2.2.2⟩
          intro hl
          have := hcw.2.2.1 hl
          rw [this] at e2
          exact List.eq_nil_of_length_eq_zero e2


/-! ## Pieces after the first start with `{` -/

theorem splitAux_heads (st : Bool) (cur rest : Bytes) :
    (∀ x ∈ (splitAux st cur rest).tail, x.head? = some startByte) ∧
      (cur.head? = some startByte → ∀ x ∈ splitAux st cur rest, x.head? = some startByte) := by
  induction rest generalizing st cur with
  | nil => simp [splitAux]
  | cons b rest ih =>
    have happ : cur.head? = some startByte → (cur ++ [b]).head? = some startByte := by
      intro h
      cases cur with
      | nil => cases h
      | cons c cs => simpa using h
    cases st with
    | false =>
      simp only [splitAux]
      split
      · rename_i hb
        have h1 := ih true [b]
        have hb' : [b].head? = some startByte := by simp [hb]
        split
        · rename_i hc
          refine ⟨h1.1, fun h => ?_⟩
          rw [hc] at h; cases h
        · refine ⟨by simpa using h1.2 hb', fun h x hx => ?_⟩
          rcases List.mem_cons.1 hx with rfl | hx
          · exact h
          · exact h1.2 hb' x hx
      · exact ⟨(ih false (cur ++ [b])).1, fun h => (ih false (cur ++ [b])).2 (happ h)⟩
    | true =>
      simp only [splitAux]
      split
      · exact ⟨(ih false (cur ++ [b])).1, fun h => (ih false (cur ++ [b])).2 (happ h)⟩
      · exact ⟨(ih true (cur ++ [b])).1, fun h => (ih true (cur ++ [b])).2 (happ h)⟩

theorem splitString_tail_heads {p v : Bytes} {rest : List Bytes} (h : splitString p = v :: rest) :
    ∀ x ∈ rest, x.head? = some startByte := by
  have := (splitAux_heads false [] p).1
  unfold splitString at h
  rw [h] at this
  simpa using this

/-! ## The whole of `Tree.add` after a successful validation -/

/-- The structural invariant of a tree: `WfL` below the root, with no parameter name in use at the
root. -/
def WellFormedTree (t : Tree) : Prop := WfL t.ic [] t.root.children

theorem wellFormed_new (name : Bytes) (ic : Interceptors) (nf : Handler) (tr : Option Handler) (ob nb : Base) :
    WellFormedTree (Tree.new name ic nf tr ob nb) := by
  simp [WellFormedTree, Tree.new, WfL]

theorem piecesOk_of_split {ic : Interceptors} {p : Bytes} {segs : List Seg} (hp : WfPattern p)
    (hs : split ic p = .ok segs) {v : Bytes} {rest : List Bytes} (hv : splitString p = v :: rest) :
    PiecesOk ic [] v rest := by
  refine ⟨?_, fun x hx => hp x (hv ▸ hx), splitString_tail_heads hv⟩
  unfold split at hs
  split at hs
  · cases hs
  · rw [hv] at hs
    exact ⟨false, segs, hs⟩

/-- The two stages after the validation cannot fail on a well-formed tree, and the tree stays
well-formed. -/
theorem addTail_ok {t : Tree} {p : Bytes} {segs : List Seg} (h : Handler) (ms : List Nat) {methods : List Bytes}
    (hwf : WellFormedTree t) (hp : WfPattern p) (hs : split t.ic p = .ok segs)
    (hm : t.checkMethods p methods [] = .ok ()) :
    ∃ t', addTail t p h ms methods = .ok t' ∧ WellFormedTree t' ∧ t'.ic = t.ic := by
  cases hv : splitString p with
  | nil => exact absurd hv (splitString_ne_nil p)
  | cons v rest =>
    have hpo := piecesOk_of_split hp hs hv
    obtain ⟨r, hr, hwf1, _⟩ := getNode_wf t.ic t.root v rest [] hwf hpo
    obtain ⟨tg, htg, hag⟩ := getNode_agree t.ic t.root v rest [] hwf hpo r hr
    have hjoin : v ++ rest.flatten = p := by
      have := splitString_join p
      rw [hv] at this
      simpa using this
    rw [hjoin] at hag
    obtain ⟨hnd, hfull⟩ := checkMethods_full t p methods [] hm
    have hbad := checkMethods_ok t p methods [] hm
    have hfree : ∀ m ∈ methods, tg.handlers.contains m = false := by
      intro m hmm
      rcases hag with h0 | ⟨path, m0, h1, h2, h3⟩
      · rw [h0]; rfl
      · have := (hfull m hmm).2
        simp only [Tree.hasMethodAt, h1, h2] at this
        rw [← h3]; exact this
    obtain ⟨tg', htg', _, _⟩ := addMethodsNode_ok t h p ms methods tg hbad hnd hfree
    obtain ⟨root2, hmod, _, _, hwf2⟩ := modifyAt_ok_wf t.ic (t.addMethodsNode h p ms methods)
      (fun m m' hm' => addMethodsNode_fields hm') r.2 r.1 tg htg ⟨tg', htg'⟩
    obtain ⟨root1, path⟩ := r
    refine ⟨({ t with root := root2 }).bumpMethods methods, ?_, ?_, rfl⟩
    · unfold addTail
      simp only [hv, hr]
      simp only [] at hmod
      rw [hmod]
    · simp only [WellFormedTree, Tree.bumpMethods, Node.setHandlers, Node.children_mk]
      exact hwf2 [] hwf1

/-- **C17/C05, the substantive part.** On a well-formed tree, for a well-formed pattern: once the
ambiguity check, `Split` and the method validation have passed, `Tree.add` succeeds (no late error,
no fault), and the new tree is well-formed. -/
theorem add_validated_ok {t : Tree} {p : Bytes} {segs : List Seg} (h : Handler) (ms : List Nat) {methods : List Bytes}
    {a : Option Bool} (hwf : WellFormedTree t) (hp : WfPattern p)
    (hamb : t.root.checkAmb t.ic p false = .ok a) (ha : a ≠ some true)
    (hs : split t.ic p = .ok segs) (hm : t.checkMethods p (effMethods methods) [] = .ok ()) :
    ∃ t', t.add p h ms methods = .ok t' ∧ WellFormedTree t' ∧ t'.ic = t.ic := by
  obtain ⟨t', ht', hw', hic⟩ := addTail_ok h ms hwf hp hs hm
  refine ⟨t', ?_, hw', hic⟩
  rw [add_eq, hamb]
  cases a with
  | none => simp only [hs, hm]; exact ht'
  | some b =>
    cases b with
    | true => exact absurd rfl ha
    | false => simp only [hs, hm]; exact ht'

/-- The error of `Tree.add` on a well-formed tree and pattern is always raised by the validation:
it is `ambiguous`, a syntax error of the pattern, or an error of the method list; never a fault. -/
theorem add_error_class {t : Tree} {p : Bytes} (h : Handler) (ms : List Nat) (methods : List Bytes) {e : Err}
    (hwf : WellFormedTree t) (hp : WfPattern p) (he : t.add p h ms methods = .error e) :
    e = .ambiguous ∨ SynErr e ∨ MethErr e := by
  rw [add_eq] at he
  cases hamb : t.root.checkAmb t.ic p false with
  | error e' =>
    rw [hamb] at he
    cases he
    exact .inr (.inl (checkAmb_error _ _ _ _ _ hamb))
  | ok a =>
    rw [hamb] at he
    have key : (match split t.ic p with
        | .error e => .error e
        | .ok _ => match t.checkMethods p (effMethods methods) [] with
          | .error e => .error e
          | .ok _ => addTail t p h ms (effMethods methods)) = Except.error e →
        SynErr e ∨ MethErr e := by
      intro he
      cases hs : split t.ic p with
      | error e' => rw [hs] at he; cases he; exact .inl (split_error hs)
      | ok segs =>
        rw [hs] at he
        simp only [] at he
        cases hm : t.checkMethods p (effMethods methods) [] with
        | error e' => rw [hm] at he; cases he; exact .inr (checkMethods_error t p _ _ _ hm)
        | ok u =>
          rw [hm] at he
          obtain ⟨t', ht', _⟩ := addTail_ok h ms hwf hp hs hm
          simp only [] at he
          rw [ht'] at he
          cases he
    cases a with
    | none => exact .inr (key he)
    | some b =>
      cases b with
      | true => cases he; exact .inl rfl
      | false => exact .inr (key he)

end Mux.P9
