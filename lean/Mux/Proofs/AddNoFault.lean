/-
  Mux.Proofs.AddNoFault — `Tree.add` never faults on a well-formed tree, for ANY pattern string
  (well-formed or not): the restructuring of `getNode` cuts existing nodes at legal positions only
  (the scan of `longestPrefix` follows the braces of the common prefix, which are those of the
  existing, well-formed node), and every piece handed to `NewSegment` is a piece of `splitString` or a
  brace-free remainder of one.
-/
import Mux.Proofs.AddAtomic
namespace Mux.P9
open Mux

/-! ## Pieces of `splitString` -/

/-- What `splitAux` keeps true of the piece under construction outside a token. -/
def CurOk (cur : Bytes) : Prop :=
  startByte ∉ cur ∨ ∃ x y, cur = x ++ endByte :: y ∧ endByte ∉ x ∧ startByte ∉ y

theorem CurOk.tailFree {cur : Bytes} (h : CurOk cur) : TailFree cur := by
  intro en hen
  rcases h with h | ⟨x, y, rfl, hx, hy⟩
  · exact fun hm => h (List.mem_of_mem_drop hm)
  · rw [indexByte_append_of_not_mem hx] at hen
    simp only [indexByte, if_true, Option.map_some, Nat.zero_add, Option.some.injEq] at hen
    subst hen
    simpa using hy

theorem tailFree_of_noEnd {cur : Bytes} (h : endByte ∉ cur) : TailFree cur := by
  intro en hen
  rw [indexByte_none_of_not_mem h] at hen
  cases hen

theorem splitAux_tailFree (st : Bool) (cur rest : Bytes) (h1 : st = true → endByte ∉ cur)
    (h2 : st = false → CurOk cur) : ∀ p ∈ splitAux st cur rest, TailFree p := by
  induction rest generalizing st cur with
  | nil =>
    cases st with
    | false => simpa [splitAux] using (h2 rfl).tailFree
    | true => simpa [splitAux] using tailFree_of_noEnd (h1 rfl)
  | cons b rest ih =>
    cases st with
    | false =>
      have hc := h2 rfl
      simp only [splitAux]
      split
      · rename_i hb
        have hnew : endByte ∉ [b] := by
          rw [hb]; decide
        split
        · exact ih true [b] (fun _ => hnew) (fun h => by cases h)
        · intro p hp
          rcases List.mem_cons.1 hp with rfl | hp
          · exact hc.tailFree
          · exact ih true [b] (fun _ => hnew) (fun h => by cases h) p hp
      · rename_i hb
        refine ih false (cur ++ [b]) (fun h => by cases h) (fun _ => ?_)
        rcases hc with hc | ⟨x, y, rfl, hx, hy⟩
        · left
          simp only [List.mem_append, List.mem_singleton, not_or]
          exact ⟨hc, fun e => hb e.symm⟩
        · right
          refine ⟨x, y ++ [b], by simp, hx, ?_⟩
          simp only [List.mem_append, List.mem_singleton, not_or]
          exact ⟨hy, fun e => hb e.symm⟩
    | true =>
      have hc := h1 rfl
      simp only [splitAux]
      split
      · rename_i hb
        refine ih false (cur ++ [b]) (fun h => by cases h) (fun _ => ?_)
        right
        exact ⟨cur, [], by simp [hb], hc, by simp⟩
      · rename_i hb
        refine ih true (cur ++ [b]) (fun _ => ?_) (fun h => by cases h)
        simp only [List.mem_append, List.mem_singleton, not_or]
        exact ⟨hc, fun e => hb e.symm⟩

theorem splitString_tailFree (s : Bytes) : ∀ p ∈ splitString s, TailFree p :=
  splitAux_tailFree false [] s (fun h => by cases h) (fun _ => .inl (by simp))

/-- What is known of a piece handed to `getNode`. -/
structure PieceG (x : Bytes) : Prop where
  good : GoodPiece x
  tail : TailFree x
  ne : x ≠ []

theorem pieceG_of_noStart {x : Bytes} (h : startByte ∉ x) (hne : x ≠ []) : PieceG x :=
  ⟨.inr h, fun _ _ hm => h (List.mem_of_mem_drop hm), hne⟩

theorem splitString_pieceG {p : Bytes} (hp : p ≠ []) : ∀ x ∈ splitString p, PieceG x := fun x hx =>
  ⟨splitString_good p x hx, splitString_tailFree p x hx, splitString_pieces_nonempty p hp x hx⟩

/-! ## One step -/

/-- The node the search continues in has a well-formed child list, and the remaining pieces are
pieces again. -/
theorem GShape.next {ic : Interceptors} {used : List Bytes} {n : Node} {v : Bytes} {rest : List Bytes} {seg : Seg}
    {s : GStep} (hs : GShape ic n v rest seg s) (hwf : WfL ic used n.children)
    (hseg : newSegment ic v = .ok seg) (hv : PieceG v) (hrest : ∀ x ∈ rest, PieceG x) :
    (∃ used', WfL ic used' s.parent.children) ∧
      ∀ v' rest', s.cont = some (v', rest') → PieceG v' ∧ ∀ x ∈ rest', PieceG x := by
  have hrc : ∀ v' rest', restCont rest = some (v', rest') → PieceG v' ∧ ∀ x ∈ rest', PieceG x := by
    intro v' rest' h
    have := restCont_some h
    subst this
    exact ⟨hrest v' (by simp), fun x hx => hrest x (by simp [hx])⟩
  have hdrop : ∀ {c : Node} {L : Nat}, SegOk ic c.seg → c.seg.kind = seg.kind →
      longestPrefix c.seg.value v = (L : Int) → 0 < L → L < v.length → PieceG (v.drop L) := by
    intro c L hcok hkind hL hL0 hLv
    obtain ⟨L', hL', _, _, _, _, _, htail, _⟩ := cutPoint1 hcok hseg hv.good hkind (by rw [hL]; omega)
    rw [hL] at hL'
    have : L' = L := by omega
    subst this
    refine pieceG_of_noStart (htail hv.tail) ?_
    intro e
    have := congrArg List.length e
    simp at this
    omega
  cases hs with
  | ident i c hc hcs =>
    exact ⟨⟨_, ((Node.wf_iff ic used c).1 (WfL_of_getElem? hwf hc)).2.2.2⟩, hrc⟩
  | leaf idx j hdis hpos =>
    exact ⟨⟨[], by simp [newLeaf, WfL]⟩, hrc⟩
  | desc i c L hc hvne hkind hL hL0 hLeq hLv =>
    have hcw := WfL_of_getElem? hwf hc
    refine ⟨⟨_, ((Node.wf_iff ic used c).1 hcw).2.2.2⟩, ?_⟩
    intro v' rest' h
    simp only [Option.some.injEq, Prod.mk.injEq] at h
    obtain ⟨rfl, rfl⟩ := h
    exact ⟨hdrop hcw.segOk hkind hL hL0 hLv, hrest⟩
  | split i c L s1 idx1 idx j hc hvne hkind hL hL0 hLc hLv hs1 hpos =>
    have hcw := WfL_of_getElem? hwf hc
    obtain ⟨L', hL', _, _, _, _, hcut, _, _, _, _, _, _, _, _, hsplit⟩ :=
      cutPoint1 hcw.segOk hseg hv.good hkind (by rw [hL]; omega)
    rw [hL] at hL'
    have : L' = L := by omega
    subst this
    obtain ⟨_, _, hs2ok⟩ := hsplit hLc
    refine ⟨⟨usedBelow used c.seg, ?_⟩, ?_⟩
    · simp only [upperOf, Node.children_mk, WfL, List.not_mem_nil, false_imp_iff, implies_true, and_true]
      unfold lowerOf
      rw [Node.wf_iff]
      simp only [setSeg_seg, setSeg_children]
      refine ⟨hs2ok, .inl trivial, fun h => absurd h (hcut.drop_noBrace.last_ne hs2ok.ne), ?_⟩
      have e1 : usedBelow (usedBelow used c.seg) { value := c.seg.value.drop L' } = usedBelow used c.seg := by
        simp [usedBelow]
      rw [e1]
      exact ((Node.wf_iff ic used c).1 hcw).2.2.2
    · intro v' rest' h
      by_cases hvl : v.length ≤ L'
      · simp only [hvl, if_true] at h
        exact hrc v' rest' h
      · simp only [hvl, if_false, Option.some.injEq, Prod.mk.injEq] at h
        obtain ⟨rfl, rfl⟩ := h
        exact ⟨hdrop hcw.segOk hkind hL hL0 (by omega), hrest⟩

/-! ## `getNode` -/

theorem gnPrep_of_newSegment_error {ic : Interceptors} {n : Node} {v : Bytes} {rest : List Bytes} {e : Err}
    (h : newSegment ic v = .error e) : gnPrep ic n v rest = .error e := by
  unfold gnPrep
  simp [bind, Except.bind, h]

/-- **`getNode` never faults** below a node with a well-formed child list, whatever the pieces (any
pieces of `splitString`, or brace-free remainders). -/
theorem getNode_no_fault (ic : Interceptors) (n : Node) (v : Bytes) (rest : List Bytes) :
    (∃ used, WfL ic used n.children) → PieceG v → (∀ x ∈ rest, PieceG x) →
      ∀ k, getNode ic n v rest ≠ .error (.fault k) := by
  induction n, v, rest using getNode_induction ic with
  | step n v rest ih =>
    rintro ⟨used, hwf⟩ hv hrest k
    rw [getNode_eq]
    cases hseg : newSegment ic v with
    | error e =>
      rw [gnPrep_of_newSegment_error hseg]
      intro h
      cases h
      exact newSegment_piece_no_fault ic v hv.good k hseg
    | ok seg =>
      obtain ⟨s, hprep, hshape⟩ := gnPrep_shape rest hwf hseg hv.ne hv.good
      obtain ⟨hpw, hcont⟩ := hshape.next hwf hseg hv hrest
      rw [hprep]
      simp only [gnFinish]
      cases hc : s.cont with
      | none => simp [pure, Except.pure]
      | some vr =>
        obtain ⟨v', rest'⟩ := vr
        obtain ⟨hv', hrest'⟩ := hcont v' rest' hc
        have := ih s v' rest' hprep hc hpw hv' hrest' k
        simp only [bind, Except.bind, pure, Except.pure]
        cases hr : getNode ic s.parent v' rest' with
        | error e =>
          simp only []
          intro h
          cases h
          exact this hr
        | ok r => simp

/-! ## `modifyAt` along a valid path fails only if the function does -/

theorem modifyAt_valid_error (f : Node → Except Err Node) : ∀ (path : List Nat) (n : Node) (e : Err),
    (n.getAt path).isSome = true → n.modifyAt f path = .error e → ∃ m, f m = .error e := by
  intro path
  induction path with
  | nil =>
    intro n e _ h
    cases n
    simp only [Node.modifyAt] at h
    exact ⟨_, h⟩
  | cons i path ih =>
    intro n e hg h
    rw [Node.getAt_cons] at hg
    cases hc : n.children[i]? with
    | none => rw [hc] at hg; cases hg
    | some c =>
      rw [hc] at hg
      simp only [Option.bind_some] at hg
      cases n with
      | mk s p mi hs idx cs =>
        simp only [Node.children_mk] at hc
        cases hm : c.modifyAt f path with
        | ok c' =>
          simp [Node.modifyAt, bind, Except.bind, modifyAtL_set f path hm cs i hc, pure, Except.pure] at h
        | error e' =>
          have hL : ∀ (cs : List Node) (i : Nat), cs[i]? = some c → modifyAtL f cs i path = .error e' := by
            intro cs
            induction cs with
            | nil => intro i h; simp at h
            | cons d cs ihc =>
              intro i h
              cases i with
              | zero =>
                simp only [List.getElem?_cons_zero, Option.some.injEq] at h
                subst h
                simp [modifyAtL, bind, Except.bind, hm]
              | succ i =>
                simp only [List.getElem?_cons_succ] at h
                simp [modifyAtL, bind, Except.bind, ihc i h]
          simp only [Node.modifyAt, bind, Except.bind, hL cs i hc] at h
          cases h
          exact ih c _ hg hm

/-! ## `Tree.add` -/

/-- **`Tree.add` never faults** on a well-formed tree satisfying `TreeInv`, for any pattern string,
handler, middleware list and method list. -/
theorem add_no_fault {t : Tree} (hwf : WellFormedTree t) (hinv : TreeInv t) (p : Bytes) (h : Handler)
    (ms : List Nat) (methods : List Bytes) (k : Nat) : t.add p h ms methods ≠ .error (.fault k) := by
  intro he
  rw [add_eq] at he
  have hSyn : ∀ {e : Err}, SynErr e → e ≠ .fault k := by
    intro e h1 h2; subst h2; simp [SynErr] at h1
  have hMeth : ∀ {e : Err}, MethErr e → e ≠ .fault k := by
    intro e h1 h2; subst h2; simp [MethErr] at h1
  have htail : ∀ segs, split t.ic p = .ok segs → addTail t p h ms (effMethods methods) ≠ .error (.fault k) := by
    intro segs hs he
    have hpne : p ≠ [] := by
      intro e; subst e; simp [split] at hs
    unfold addTail at he
    cases hv : splitString p with
    | nil => exact absurd hv (splitString_ne_nil p)
    | cons v rest =>
      rw [hv] at he
      simp only [] at he
      have hpg := splitString_pieceG hpne
      cases hg : getNode t.ic t.root v rest with
      | error e =>
        rw [hg] at he
        simp only [Except.error.injEq] at he
        subst he
        exact getNode_no_fault t.ic t.root v rest ⟨[], hwf⟩ (hpg v (hv ▸ by simp))
          (fun x hx => hpg x (hv ▸ by simp [hx])) k hg
      | ok r =>
        obtain ⟨root1, path⟩ := r
        rw [hg] at he
        simp only [] at he
        have hpost := getNode_post t.ic (GoodQ t.hasTrace) (GoodQ_empty _) t.root v rest _ hinv.rootIdx hinv.below hg
        have hvalid : (root1.getAt path).isSome = true := hpost.2.2.2.2.2.2.2
        cases hm : root1.modifyAt (t.addMethodsNode h p ms (effMethods methods)) path with
        | error e =>
          rw [hm] at he
          simp only [Except.error.injEq] at he
          subst he
          obtain ⟨m, hm'⟩ := modifyAt_valid_error _ path root1 _ hvalid hm
          exact hMeth (addMethodsNode_error hm') rfl
        | ok root2 => rw [hm] at he; cases he
  have key : (match split t.ic p with
      | .error e => .error e
      | .ok _ => match t.checkMethods p (effMethods methods) [] with
        | .error e => .error e
        | .ok _ => addTail t p h ms (effMethods methods)) ≠ Except.error (Err.fault k) := by
    intro he
    cases hs : split t.ic p with
    | error e => rw [hs] at he; cases he; exact hSyn (split_error hs) rfl
    | ok segs =>
      rw [hs] at he
      simp only [] at he
      cases hm : t.checkMethods p (effMethods methods) [] with
      | error e =>
        rw [hm] at he; cases he
        exact hMeth (checkMethods_error t p _ _ _ hm) rfl
      | ok u =>
        rw [hm] at he
        exact htail segs hs he
  cases hamb : t.root.checkAmb t.ic p false with
  | error e =>
    rw [hamb] at he
    cases he
    exact hSyn (checkAmb_error _ _ _ _ _ hamb) rfl
  | ok a =>
    rw [hamb] at he
    cases a with
    | none => exact key he
    | some b =>
      cases b with
      | true => cases he
      | false => exact key he


/-- Every error of `Tree.add`, on any tree: `ambiguous`, a syntax error, an error of the method
list, or a fault. -/
theorem add_error_stage {t : Tree} {p : Bytes} {h : Handler} {ms : List Nat} {methods : List Bytes} {e : Err}
    (he : t.add p h ms methods = .error e) : e = .ambiguous ∨ SynErr e ∨ MethErr e ∨ ∃ k, e = .fault k := by
  rw [add_eq] at he
  have key : (match split t.ic p with
      | .error e => .error e
      | .ok _ => match t.checkMethods p (effMethods methods) [] with
        | .error e => .error e
        | .ok _ => addTail t p h ms (effMethods methods)) = Except.error e →
      SynErr e ∨ MethErr e ∨ ∃ k, e = .fault k := by
    intro he
    cases hs : split t.ic p with
    | error e' => rw [hs] at he; cases he; exact .inl (split_error hs)
    | ok segs =>
      rw [hs] at he
      simp only [] at he
      cases hm : t.checkMethods p (effMethods methods) [] with
      | error e' => rw [hm] at he; cases he; exact .inr (.inl (checkMethods_error t p _ _ _ hm))
      | ok u =>
        rw [hm] at he
        rcases addTail_error he with (h1 | h1) | h1
        · exact .inl h1
        · exact .inr (.inr h1)
        · exact .inr (.inl h1)
  cases hamb : t.root.checkAmb t.ic p false with
  | error e' =>
    rw [hamb] at he
    cases he
    exact .inr (.inl (checkAmb_error _ _ _ _ _ hamb))
  | ok a =>
    rw [hamb] at he
    cases a with
    | none => exact .inr (key he)
    | some b =>
      cases b with
      | true => cases he; exact .inl rfl
      | false => exact .inr (key he)

/-- On a well-formed tree the error of `Tree.add` is never a fault, for any pattern string. -/
theorem add_error_class_any {t : Tree} (hwf : WellFormedTree t) (hinv : TreeInv t) {p : Bytes} {h : Handler}
    {ms : List Nat} {methods : List Bytes} {e : Err} (he : t.add p h ms methods = .error e) :
    e = .ambiguous ∨ SynErr e ∨ MethErr e := by
  rcases add_error_stage he with h1 | h1 | h1 | ⟨k, rfl⟩
  · exact .inl h1
  · exact .inr (.inl h1)
  · exact .inr (.inr h1)
  · exact absurd he (add_no_fault hwf hinv p h ms methods k)

end Mux.P9
