/-
  Mux.Proofs.FacadeOnionProg — façade programs (`FOp`/`runF`/`desugar` of `Mux/Proofs/Facade.lean`): the `Use`
  arguments of the translation, the ancestry chain of every façade object of the table, and the lift of
  `own_persists` to façade programs and to routers inside a group history.
-/
import Mux.Proofs.FacadeOnionOwn
import Mux.Proofs.Facade
import Mux.Proofs.OnionGroup
namespace Mux.P18
open Mux Mux.P10

/-! ## The `Use` arguments of a façade program -/

/-- The argument of a `Use` on the router inside a façade program. -/
def fopUse : FOp → Option (List Nat)
  | .router (.use m) => some m
  | _ => none

/-- All `Use` middlewares of a façade program, in call order. -/
def progUseMs (prog : List FOp) : List Nat := (prog.filterMap fopUse).flatten

theorem plainOps_append (a b : List DOp) : plainOps (a ++ b) = plainOps a ++ plainOps b := by
  induction a with
  | nil => rfl
  | cons op a ih =>
    cases op with
    | op o => simp [plainOps, ih]
    | url s p ps => simp [plainOps, ih]

theorem useArgs_desugarOp (tab : List Facade) (op : FOp) :
    (plainOps (desugarOp tab op)).filterMap useArg = (fopUse op).toList := by
  cases op with
  | router o => cases o <;> simp [desugarOp, plainOps, useArg, fopUse]
  | newPrefix _ _ => simp [desugarOp, plainOps, fopUse]
  | newResource _ _ => simp [desugarOp, plainOps, fopUse]
  | subPrefix _ _ _ => simp [desugarOp, plainOps, fopUse]
  | subResource _ _ _ => simp [desugarOp, plainOps, fopUse]
  | routerUrl _ _ _ => simp [desugarOp, plainOps, fopUse]
  | handle i _ _ _ _ => simp only [desugarOp, fopUse]; cases tab[i]? <;> simp [plainOps, useArg]
  | resHandle i _ _ _ => simp only [desugarOp, fopUse]; cases tab[i]? <;> simp [plainOps, useArg]
  | remove i _ _ => simp only [desugarOp, fopUse]; cases tab[i]? <;> simp [plainOps, useArg]
  | resRemove i _ => simp only [desugarOp, fopUse]; cases tab[i]? <;> simp [plainOps, useArg]
  | prefixClean i => simp only [desugarOp, fopUse]; cases tab[i]? <;> simp [plainOps, useArg]
  | resourceClean i => simp only [desugarOp, fopUse]; cases tab[i]? <;> simp [plainOps, useArg]
  | url i _ _ _ => simp only [desugarOp, fopUse]; cases tab[i]? <;> simp [plainOps]

theorem useArgs_desugarFrom (prog : List FOp) : ∀ tab : List Facade,
    (plainOps (desugarFrom tab prog)).filterMap useArg = prog.filterMap fopUse := by
  induction prog with
  | nil => intro _; rfl
  | cons op rest ih =>
    intro tab
    rw [desugarFrom, plainOps_append, List.filterMap_append, useArgs_desugarOp, ih, List.filterMap_cons]
    cases fopUse op <;> rfl

theorem useMs_desugar (prog : List FOp) :
    ((plainOps (desugar prog)).filterMap useArg).flatten = progUseMs prog := by
  unfold desugar progUseMs
  rw [useArgs_desugarFrom]

/-! ## The façade table and the ancestry of its objects -/

/-- The façade table a program builds. -/
def tabOf (prog : List FOp) : List Facade := prog.foldl tabStep []

theorem runF_tab (env : Env) (prog : List FOp) : ∀ s : FState, (runF env s prog).tab = prog.foldl tabStep s.tab := by
  induction prog with
  | nil => intro _; rfl
  | cons op rest ih =>
    intro s
    simp only [runF, List.foldl_cons] at ih ⊢
    rw [ih (s.step env op), (step_desugar env s op).1]

theorem desugarFrom_append (a b : List FOp) : ∀ tab : List Facade,
    desugarFrom tab (a ++ b) = desugarFrom tab a ++ desugarFrom (a.foldl tabStep tab) b := by
  induction a with
  | nil => intro _; rfl
  | cons op a ih => intro tab; simp [desugarFrom, ih]

/-- The ancestry of a façade object: the `(pattern, middlewares)` arguments of the creating calls, OUTERMOST first
(`r.Prefix(p₁, m₁…).Prefix(p₂, m₂…).Resource(p₃, m₃…)` is `[(p₁, m₁), (p₂, m₂), (p₃, m₃)]`). -/
abbrev FChain := List (Bytes × List Nat)

/-- The full pattern prefix of the object: the pieces concatenated outside-in. -/
def FChain.pattern (ch : FChain) : Bytes := (ch.map (·.1)).flatten
/-- Its middlewares as they are appended to a registration: INNERMOST façade first, outermost last. -/
def FChain.ms (ch : FChain) : List Nat := (ch.reverse.map (·.2)).flatten
/-- The façade object (`Facade` of the model) it denotes. -/
def FChain.flat (ch : FChain) : Facade := ⟨ch.pattern, ch.ms⟩

def chainStep (ct : List FChain) : FOp → List FChain
  | .newPrefix p m => ct ++ [[(p, m)]]
  | .newResource p m => ct ++ [[(p, m)]]
  | .subPrefix i p m => match ct[i]? with
    | some ch => ct ++ [ch ++ [(p, m)]]
    | none => ct
  | .subResource i p m => match ct[i]? with
    | some ch => ct ++ [ch ++ [(p, m)]]
    | none => ct
  | _ => ct

/-- The ancestry chains of the façade table a program builds (same indices as the table). -/
def chainsOf (prog : List FOp) : List FChain := prog.foldl chainStep []

theorem flat_sub (ch : FChain) (p : Bytes) (m : List Nat) : ch.flat.sub p m = FChain.flat (ch ++ [(p, m)]) := by
  simp [FChain.flat, FChain.pattern, FChain.ms, Facade.sub]

theorem tabStep_flat (ct : List FChain) (op : FOp) :
    tabStep (ct.map FChain.flat) op = (chainStep ct op).map FChain.flat := by
  cases op with
  | newPrefix p m => simp [tabStep, chainStep, FChain.flat, FChain.pattern, FChain.ms, Facade.ofRouter]
  | newResource p m => simp [tabStep, chainStep, FChain.flat, FChain.pattern, FChain.ms, Facade.ofRouter]
  | subPrefix i p m =>
    simp only [tabStep, chainStep, List.getElem?_map]
    cases ct[i]? with
    | none => rfl
    | some ch => simp [flat_sub]
  | subResource i p m =>
    simp only [tabStep, chainStep, List.getElem?_map]
    cases ct[i]? with
    | none => rfl
    | some ch => simp [flat_sub]
  | _ => rfl

theorem tabOf_flat (prog : List FOp) : tabOf prog = (chainsOf prog).map FChain.flat := by
  unfold tabOf chainsOf
  have : ∀ (ct : List FChain), prog.foldl tabStep (ct.map FChain.flat) = (prog.foldl chainStep ct).map FChain.flat := by
    induction prog with
    | nil => intro _; rfl
    | cons op rest ih => intro ct; rw [List.foldl_cons, List.foldl_cons, tabStep_flat, ih]
  exact this []

/-- Object `i` of the table is the flat form of its ancestry. -/
theorem tabOf_get (prog : List FOp) (i : Nat) : (tabOf prog)[i]? = ((chainsOf prog)[i]?).map FChain.flat := by
  rw [tabOf_flat, List.getElem?_map]

/-! ## A registration through a façade -/

/-- The registrations of a façade program: `p.Handle(pattern, h, m, methods…)` (also `Get/Post/…/Any`) and
`res.Handle(h, m, methods…)` of a `Resource` (pattern argument `""`). -/
def regOf : FOp → Option (Nat × Bytes × Nat × List Nat × List Bytes)
  | .handle i pat h m methods => some (i, pat, h, m, methods)
  | .resHandle i h m methods => some (i, [], h, m, methods)
  | _ => none

theorem regOf_desugar {op : FOp} {i : Nat} {pat : Bytes} {h : Nat} {m : List Nat} {methods : List Bytes}
    (hreg : regOf op = some (i, pat, h, m, methods)) {tab : List Facade} {f : Facade} (hf : tab[i]? = some f) :
    desugarOp tab op = [.op (.handle (f.pattern ++ pat) h (m ++ f.ms) methods)] ∧ tabStep tab op = tab := by
  cases op with
  | handle i' pat' h' m' ms' =>
    simp only [regOf, Option.some.injEq, Prod.mk.injEq] at hreg
    obtain ⟨rfl, rfl, rfl, rfl, rfl⟩ := hreg
    simp [desugarOp, hf, tabStep]
  | resHandle i' h' m' ms' =>
    simp only [regOf, Option.some.injEq, Prod.mk.injEq] at hreg
    obtain ⟨rfl, rfl, rfl, rfl, rfl⟩ := hreg
    simp [desugarOp, hf, tabStep]
  | _ => simp [regOf] at hreg

/-- **Façade programs.**  `NewRouter`; a façade program `pre`; a registration `op` through the façade object `i`
whose ancestry is `ch` (so the call is `Handle(ch.pattern ++ pat, h, m ++ ch.ms, methods…)` on the router) that
succeeds; a façade program `post` whose translation leaves the entry `(ch.pattern ++ pat, k)` alone; all registered
patterns of the translation well-formed.  Then the entry is `h` wrapped in
`m ++ ch.ms ++ progUseMs (whole program)`. -/
theorem facade_persists (env : Env) {cfg : RouterCfg} {r0 : Router} (hnew : Router.new cfg = some r0)
    (pre post : List FOp) (op : FOp) (i : Nat) (pat : Bytes) (h : Nat) (m : List Nat) (methods : List Bytes)
    (ch : FChain) (k : Bytes)
    (hreg : regOf op = some (i, pat, h, m, methods)) (hch : (chainsOf pre)[i]? = some ch)
    (hwf : ∀ o ∈ plainOps (desugar (pre ++ op :: post)), ROp.wf o = true)
    (hok : ∃ r', (runF env { router := r0 } pre).router.handle (ch.pattern ++ pat) h (m ++ ch.ms) methods = .ok r')
    (hpost : ∀ o ∈ plainOps (desugarFrom (tabOf pre) post), Untouched (ch.pattern ++ pat) k o)
    (hk : k ∈ effMethods methods ∨ (k = mHEAD ∧ mGET ∈ effMethods methods)) :
    Has (runF env { router := r0 } (pre ++ op :: post)).router.tree (ch.pattern ++ pat) k
      { base := .user h,
        wraps := mkWraps (m ++ ch.ms ++ progUseMs (pre ++ op :: post)) k (ch.pattern ++ pat) cfg.name } := by
  have hf : (tabOf pre)[i]? = some ch.flat := by rw [tabOf_get, hch]; rfl
  obtain ⟨hd, htab⟩ := regOf_desugar hreg hf
  have hdes : plainOps (desugar (pre ++ op :: post)) =
      plainOps (desugar pre) ++ .handle (ch.pattern ++ pat) h (m ++ ch.ms) methods ::
        plainOps (desugarFrom (tabOf pre) post) := by
    unfold desugar
    rw [desugarFrom_append, plainOps_append]
    show _ ++ plainOps (desugarOp (tabOf pre) op ++ desugarFrom (tabStep (tabOf pre) op) post) = _
    rw [hd, htab]
    rfl
  have hrouter := (runF_desugar env (pre ++ op :: post) { router := r0 })
  have hR : (runF env { router := r0 } (pre ++ op :: post)).router =
      r0.run (plainOps (desugar (pre ++ op :: post))) := by
    have h2 := runD_router env (desugar (pre ++ op :: post)) { router := r0 }
    have h' : runD env { router := r0 } (desugar (pre ++ op :: post)) = _ := hrouter
    rw [h'] at h2
    exact h2
  have hRpre : (runF env { router := r0 } pre).router = r0.run (plainOps (desugar pre)) := by
    have h2 := runD_router env (desugar pre) { router := r0 }
    have h' : runD env { router := r0 } (desugar pre) = _ := runF_desugar env pre { router := r0 }
    rw [h'] at h2
    exact h2
  rw [hR, hdes, ← useMs_desugar, hdes]
  rw [hdes] at hwf
  rw [hRpre] at hok
  exact own_persists hnew _ _ _ h (m ++ ch.ms) methods k hwf hok hpost hk

/-! ## A router inside a group history -/

/-- **Groups.**  The same for a router of the table of a group history (`GOp`: `Group.Add/Use/Remove` and calls on
the routers): its plain history is `effOps` (`C09_group`) — its own calls interleaved with `Use(g.ms)` at the moment
it is added and `Use(m)` for every `Group.Use(m)` while it is a member. -/
theorem group_persists {cfg : RouterCfg} {r0 : Router} (hnew : Router.new cfg = some r0) (s : GState)
    (hnd : (Group.ids s.1).Nodup) (gprog : List GOp) (rid : Nat) (hr : s.2.get? rid = some r0)
    (pre post : List ROp) (p : Bytes) (h : Nat) (m : List Nat) (methods : List Bytes) (k : Bytes)
    (heff : effOps s rid gprog = pre ++ .handle p h m methods :: post)
    (hwf : ∀ op ∈ effOps s rid gprog, ROp.wf op = true)
    (hok : ∃ r', (r0.run pre).handle p h m methods = .ok r')
    (hpost : ∀ op ∈ post, Untouched p k op)
    (hk : k ∈ effMethods methods ∨ (k = mHEAD ∧ mGET ∈ effMethods methods)) :
    ∃ R, (grun s gprog).2.get? rid = some R ∧
      Has R.tree p k
        { base := .user h, wraps := mkWraps (m ++ ((effOps s rid gprog).filterMap useArg).flatten) k p cfg.name } := by
  refine ⟨r0.run (effOps s rid gprog), by rw [grun_get gprog s hnd rid, hr]; rfl, ?_⟩
  rw [heff] at hwf ⊢
  exact own_persists hnew pre post p h m methods k hwf hok hpost hk

end Mux.P18
