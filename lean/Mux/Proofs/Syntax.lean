/-
  Mux.Proofs.Syntax — `internal/syntax`: `NewSegment`, `splitString`, `Split`, `longestPrefix`.
-/
import Mux.Model.Router
import Mux.Spec.Defs
namespace Mux

/-! ## `indexByte` -/

theorem indexByte_some_get {b : UInt8} {s : Bytes} {i : Nat} (h : indexByte b s = some i) :
    s[i]? = some b := by
  induction s generalizing i with
  | nil => cases h
  | cons c cs ih =>
    simp only [indexByte] at h
    split at h
    · rename_i hc
      cases h
      simp [hc]
    · cases hi : indexByte b cs with
      | none => simp [hi] at h
      | some j =>
        simp only [hi, Option.map_some, Option.some.injEq] at h
        subst h
        simpa using ih hi

theorem indexByte_some_lt {b : UInt8} {s : Bytes} {i : Nat} (h : indexByte b s = some i) :
    i < s.length := by
  have := indexByte_some_get h
  exact (List.getElem?_eq_some_iff.1 this).1

theorem indexByte_eq_none_iff {b : UInt8} {s : Bytes} : indexByte b s = none ↔ b ∉ s := by
  induction s with
  | nil => simp [indexByte]
  | cons c cs ih =>
    simp only [indexByte, List.mem_cons, not_or]
    split
    · rename_i hc; simp [hc]
    · rename_i hc
      rw [Option.map_eq_none_iff, ih]
      constructor
      · intro h; exact ⟨fun e => hc e.symm, h⟩
      · intro h; exact h.2

theorem indexByte_head {b : UInt8} {s : Bytes} (h : s.head? = some b) : indexByte b s = some 0 := by
  cases s with
  | nil => cases h
  | cons c cs =>
    simp only [List.head?_cons, Option.some.injEq] at h
    simp [indexByte, h]

theorem indexByte_ne_of_ne {a b : UInt8} {s : Bytes} {i j : Nat} (hab : a ≠ b)
    (hi : indexByte a s = some i) (hj : indexByte b s = some j) : i ≠ j := by
  intro e
  subst e
  have h1 := indexByte_some_get hi
  have h2 := indexByte_some_get hj
  rw [h1] at h2
  exact hab (Option.some.inj h2)

/-! ## checked slicing -/

theorem sliceE_ok (site : Nat) (s : Bytes) (lo hi : Nat) (h1 : lo ≤ hi) (h2 : hi ≤ s.length) :
    sliceE site s lo hi = .ok ((s.take hi).drop lo) := by
  simp [sliceE, h1, h2]

theorem sliceE_err (site : Nat) (s : Bytes) (lo hi : Nat) (h : ¬ (lo ≤ hi ∧ hi ≤ s.length)) :
    sliceE site s lo hi = .error (.fault site) := by
  simp only [sliceE, if_neg h]

/-- The last byte (0 for the empty string, where Go would fault). -/
def lastByte (v : Bytes) : UInt8 := (v[v.length - 1]?).getD 0

theorem atE_last (site : Nat) (v : Bytes) (h : v ≠ []) : atE site v (v.length - 1) = .ok (lastByte v) := by
  have : v.length - 1 < v.length := by
    cases v with
    | nil => exact absurd rfl h
    | cons b r => simp
  simp [atE, lastByte, List.getElem?_eq_getElem this]

theorem atE_zero (site : Nat) (v : Bytes) (h : v ≠ []) : atE site v 0 = .ok (v.headD 0) := by
  cases v with
  | nil => exact absurd rfl h
  | cons b r => simp [atE]

/-! ## `cleanName` -/

/-- `cleanName` on a non-empty name. -/
def stripIgn : Bytes → Bytes × Bool
  | [] => ([], false)
  | b :: r => if b = ignoreByte then (r, true) else (b :: r, false)

theorem cleanName_ok (raw : Bytes) (h : raw ≠ []) : cleanName raw = .ok (stripIgn raw) := by
  cases raw with
  | nil => exact absurd rfl h
  | cons b r =>
    simp only [cleanName, stripIgn]
    split <;> rfl

/-! ## `newSegment` in closed form -/

/-- The named segment built from `v` with `{` at `st`, `}` at `en`, the name ending at `hi`. -/
def mkNamed (v : Bytes) (st en hi : Nat) : Seg :=
  { value := v, kind := .named,
    name := (stripIgn ((v.take hi).drop (st + 1))).1,
    ignoreName := (stripIgn ((v.take hi).drop (st + 1))).2,
    suffix := v.drop (en + 1), endpoint := decide (lastByte v = endByte) }

/-- The interceptor / regexp segment built from `v` with `{` at `st`, `:` at `sp`, `}` at `en`. -/
def finishRuled (ic : Interceptors) (v : Bytes) (st en sp : Nat) : Except Err Seg :=
  let rule := (v.take en).drop (sp + 1)
  let nm := stripIgn ((v.take sp).drop (st + 1))
  let suffix := v.drop (en + 1)
  match ic.find rule with
  | some _ => .ok { value := v, kind := .icpt, name := nm.1, ignoreName := nm.2, rule := rule,
                    suffix := suffix, endpoint := decide (lastByte v = endByte) }
  | none =>
    if ¬ isAscii suffix then .error .unsupported
    else match compileRule nm.1 nm.2 rule with
      | .error e => .error e
      | .ok re => .ok { value := v, kind := .rx, name := nm.1, ignoreName := nm.2, rule := rule,
                        suffix := suffix, re := re }

/-- `NewSegment` with all bounds checks discharged: the only reachable fault is site 107
(`val[start+1 : separator]` with `separator < start`, e.g. `"a:{b}"`). -/
theorem newSegment_closed (ic : Interceptors) (v : Bytes) : newSegment ic v =
    if v.length > maxInt16 then .error .tooLong else
    match indexByte startByte v, indexByte endByte v with
    | some st, some en =>
      match indexByte separatorByte v with
      | none => if st > en ∨ st + 1 = en then .error .syntax else .ok (mkNamed v st en en)
      | some sp =>
        if st > en ∨ st + 1 = en ∨ st + 1 = sp then .error .syntax
        else if sp + 1 = en then .ok (mkNamed v st en sp)
        else if sp > en then .ok (mkNamed v st en en)
        else if sp < st then .error (.fault 107)
        else finishRuled ic v st en sp
    | _, _ => .ok { value := v } := by
  unfold newSegment
  simp only [bind, Except.bind, pure, Except.pure, throw, throwThe, MonadExceptOf.throw]
  split
  · rfl
  cases hst : indexByte startByte v with
  | none => rfl
  | some st =>
  cases hen : indexByte endByte v with
  | none => rfl
  | some en =>
  have hstl := indexByte_some_lt hst
  have henl := indexByte_some_lt hen
  have hne : st ≠ en := indexByte_ne_of_ne (by decide) hst hen
  have hv : v ≠ [] := by intro e; subst e; simp at hstl
  have h103 := sliceE_ok 103 v (en + 1) v.length (by omega) (by omega)
  rw [List.take_length] at h103
  simp only [atE_last 102 v hv, h103]
  cases hsp : indexByte separatorByte v with
  | none =>
    simp only [if_true, Bool.false_eq_true, or_false]
    split
    · rfl
    · rename_i hc
      have h105 := sliceE_ok 105 v (st + 1) en (by omega) (by omega)
      have hraw : (v.take en).drop (st + 1) ≠ [] := by
        intro e
        have := congrArg List.length e
        simp at this
        omega
      simp only [h105, cleanName_ok _ hraw]
      rfl
  | some sp =>
    have hspl := indexByte_some_lt hsp
    have hne2 : sp ≠ en := indexByte_ne_of_ne (by decide) hsp hen
    have hne3 : st ≠ sp := indexByte_ne_of_ne (by decide) hst hsp
    simp only [decide_eq_true_eq, Option.getD_some]
    have hc1 : (st > en ∨ st + 1 = en ∨ (sp > 0 ∧ st + 1 = sp)) ↔ (st > en ∨ st + 1 = en ∨ st + 1 = sp) := by
      omega
    simp only [hc1]
    split
    · rfl
    · rename_i hc
      by_cases h1 : sp + 1 = en
      · have hlt : sp < en := by omega
        have h104 := sliceE_ok 104 v (st + 1) sp (by omega) (by omega)
        have hraw : (v.take sp).drop (st + 1) ≠ [] := by
          intro e
          have := congrArg List.length e
          simp at this
          omega
        simp only [h1, true_or, if_true, hlt, h104, cleanName_ok _ hraw]
        rfl
      · by_cases h2 : sp > en
        · have hlt : ¬ sp < en := by omega
          have h105 := sliceE_ok 105 v (st + 1) en (by omega) (by omega)
          have hraw : (v.take en).drop (st + 1) ≠ [] := by
            intro e
            have := congrArg List.length e
            simp at this
            omega
          simp only [h1, h2, or_true, if_true, hlt, if_false, h105, cleanName_ok _ hraw]
          rfl
        · have h106 := sliceE_ok 106 v (sp + 1) en (by omega) (by omega)
          simp only [h1, h2, or_self, if_false, h106]
          by_cases h3 : sp < st
          · rw [sliceE_err 107 v (st + 1) sp (by omega)]
            simp only [h3, if_true]
          · have h107 := sliceE_ok 107 v (st + 1) sp (by omega) (by omega)
            have hraw : (v.take sp).drop (st + 1) ≠ [] := by
              intro e
              have := congrArg List.length e
              simp at this
              omega
            simp only [h107, cleanName_ok _ hraw, h3, if_false, finishRuled]
            cases ic.find (List.drop (sp + 1) (List.take en v)) with
            | some _ => rfl
            | none =>
              simp only []
              split
              · rfl
              · cases compileRule (stripIgn (List.drop (st + 1) (List.take sp v))).fst
                  (stripIgn (List.drop (st + 1) (List.take sp v))).snd (List.drop (sp + 1) (List.take en v)) <;> rfl

/-! ## Consequences -/

theorem Interceptors.find_nil (r : Bytes) : Interceptors.find [] r = none := rfl

theorem newSegment_value (ic : Interceptors) (v : Bytes) (s : Seg) (h : newSegment ic v = .ok s) :
    s.value = v := by
  unfold newSegment at h
  simp only [bind, Except.bind, pure, Except.pure, throw, throwThe, MonadExceptOf.throw] at h
  repeat' split at h
  all_goals first | (cases h; rfl) | cases h

theorem compileRule_ne_fault (name : Bytes) (ign : Bool) (rule : Bytes) (n : Nat) :
    compileRule name ign rule ≠ .error (.fault n) := by
  unfold compileRule
  split
  · split <;> simp
  · simp
  · simp

theorem finishRuled_ne_fault (ic : Interceptors) (v : Bytes) (st en sp n : Nat) :
    finishRuled ic v st en sp ≠ .error (.fault n) := by
  unfold finishRuled
  simp only []
  split
  · simp
  · split
    · simp
    · split
      · rename_i e he
        intro h
        cases h
        exact compileRule_ne_fault _ _ _ _ he
      · simp

/-- Exactly when `NewSegment` faults: the first `:` lies before the first `{`, and the braces
enclose at least one byte.  (Example: `"a:{b}"` — Go evaluates `val[3:1]`.) -/
theorem newSegment_fault_iff (ic : Interceptors) (v : Bytes) (n : Nat) :
    newSegment ic v = .error (.fault n) ↔
      n = 107 ∧ v.length ≤ maxInt16 ∧ ∃ st en sp, indexByte startByte v = some st ∧
        indexByte endByte v = some en ∧ indexByte separatorByte v = some sp ∧ sp < st ∧ st + 1 < en := by
  rw [newSegment_closed]
  by_cases hl : v.length > maxInt16
  · simp only [hl, if_true]
    constructor
    · intro h; cases h
    · rintro ⟨_, h, _⟩; omega
  simp only [hl, if_false]
  cases hst : indexByte startByte v with
  | none => simp
  | some st =>
  cases hen : indexByte endByte v with
  | none => simp
  | some en =>
  have hne : st ≠ en := indexByte_ne_of_ne (by decide) hst hen
  cases hsp : indexByte separatorByte v with
  | none =>
    simp only []
    split <;> simp
  | some sp =>
    simp only []
    split
    · simp; omega
    split
    · simp; omega
    split
    · simp; omega
    split
    · simp; omega
    · rename_i h1 h2 h3 h4
      constructor
      · intro h; exact absurd h (finishRuled_ne_fault _ _ _ _ _ _)
      · rintro ⟨_, _, st', en', sp', h5, h6, h7, h8, h9⟩
        cases h5; cases h6; cases h7
        omega

/-- The bounds guards of `NewSegment` suffice whenever the first `:` does not precede the
first `{` — in particular for every piece produced by `splitString`. -/
theorem newSegment_no_fault (ic : Interceptors) (v : Bytes)
    (hsep : ∀ st sp, indexByte startByte v = some st → indexByte separatorByte v = some sp → st ≤ sp)
    (n : Nat) : newSegment ic v ≠ .error (.fault n) := by
  intro h
  obtain ⟨_, _, st, en, sp, h1, _, h3, h4, _⟩ := (newSegment_fault_iff ic v n).1 h
  have := hsep st sp h1 h3
  omega

theorem finishRuled_icpt (ic : Interceptors) (v : Bytes) (st en sp : Nat) (s : Seg)
    (h : finishRuled ic v st en sp = .ok s) (hk : s.kind = .icpt) :
    s.rule = (v.take en).drop (sp + 1) ∧ (ic.find s.rule).isSome := by
  unfold finishRuled at h
  simp only [] at h
  split at h
  · rename_i id hf
    cases h
    simp [hf]
  · split at h
    · cases h
    · split at h
      · cases h
      · cases h; cases hk

theorem finishRuled_agree (ic : Interceptors) (v : Bytes) (st en sp : Nat)
    (h : ∀ s, finishRuled ic v st en sp = .ok s → s.kind ≠ .icpt) :
    finishRuled ic v st en sp = finishRuled [] v st en sp := by
  unfold finishRuled at h ⊢
  simp only [Interceptors.find_nil] at h ⊢
  split
  · rename_i id hf
    simp only [hf] at h
    exact absurd rfl (h _ rfl)
  · rfl

/-- The rule text of a `{name:rule}` piece, when it has one (the text between the first `:` and the
first `}`, provided `{` comes first and both the name and the rule are non-empty). -/
def pieceRule (v : Bytes) : Option Bytes :=
  match indexByte startByte v, indexByte endByte v, indexByte separatorByte v with
  | some st, some en, some sp => if st + 1 < sp ∧ sp + 1 < en then some ((v.take en).drop (sp + 1)) else none
  | _, _, _ => none

/-- Either the piece is a `{name:rule}` piece (and then `NewSegment` is `finishRuled`), or the
result does not depend on the interceptors at all. -/
theorem newSegment_ruled_or (ic : Interceptors) (v : Bytes) :
    (∃ st en sp, indexByte startByte v = some st ∧ indexByte endByte v = some en ∧
        indexByte separatorByte v = some sp ∧ st + 1 < sp ∧ sp + 1 < en ∧
        ∀ ic', newSegment ic' v = finishRuled ic' v st en sp) ∨
    ((∀ ic', newSegment ic' v = newSegment ic v) ∧ (∀ s, newSegment ic v = .ok s → s.kind ≠ .icpt) ∧
      (v.length ≤ maxInt16 → pieceRule v = none)) := by
  simp only [newSegment_closed, pieceRule]
  by_cases hl : v.length > maxInt16
  · right; simp [hl]; omega
  simp only [hl, if_false]
  cases hst : indexByte startByte v with
  | none => right; simp
  | some st =>
  cases hen : indexByte endByte v with
  | none => right; simp
  | some en =>
  have hne : st ≠ en := indexByte_ne_of_ne (by decide) hst hen
  cases hsp : indexByte separatorByte v with
  | none =>
    right
    simp only [implies_true, true_and, and_true]
    split
    · simp
    · rintro s h; cases h; simp [mkNamed]
  | some sp =>
    have hne2 : sp ≠ en := indexByte_ne_of_ne (by decide) hsp hen
    have hne3 : st ≠ sp := indexByte_ne_of_ne (by decide) hst hsp
    simp only []
    by_cases h1 : st > en ∨ st + 1 = en ∨ st + 1 = sp
    · right
      have hno : ¬ (st + 1 < sp ∧ sp + 1 < en) := by omega
      simp [if_pos h1, if_neg hno]
    by_cases h2 : sp + 1 = en
    · right
      have hno : ¬ (st + 1 < sp ∧ sp + 1 < en) := by omega
      simp only [if_neg h1, if_pos h2, if_neg hno, implies_true, true_and, and_true]
      rintro s h; cases h; simp [mkNamed]
    by_cases h3 : sp > en
    · right
      have hno : ¬ (st + 1 < sp ∧ sp + 1 < en) := by omega
      simp only [if_neg h1, if_neg h2, if_pos h3, if_neg hno, implies_true, true_and, and_true]
      rintro s h; cases h; simp [mkNamed]
    by_cases h4 : sp < st
    · right
      have hno : ¬ (st + 1 < sp ∧ sp + 1 < en) := by omega
      simp [if_neg h1, if_neg h2, if_neg h3, if_pos h4, if_neg hno]
    · left
      refine ⟨st, en, sp, rfl, rfl, rfl, by omega, by omega, ?_⟩
      intro ic'
      simp only [if_neg h1, if_neg h2, if_neg h3, if_neg h4]

theorem newSegment_icpt (ic : Interceptors) (v : Bytes) (s : Seg)
    (h : newSegment ic v = .ok s) (hk : s.kind = .icpt) :
    ∃ st en sp, indexByte startByte v = some st ∧ indexByte endByte v = some en ∧
      indexByte separatorByte v = some sp ∧ st + 1 < sp ∧ sp + 1 < en ∧
      s.rule = (v.take en).drop (sp + 1) ∧ (ic.find s.rule).isSome := by
  rcases newSegment_ruled_or ic v with ⟨st, en, sp, h1, h2, h3, h4, h5, h6⟩ | ⟨_, h2, _⟩
  · rw [h6] at h
    exact ⟨st, en, sp, h1, h2, h3, h4, h5, finishRuled_icpt ic v st en sp s h hk⟩
  · exact absurd hk (h2 s h)

/-- If `NewSegment` with the interceptors `ic` does not yield an interceptor segment, it yields
exactly what it yields without interceptors (`CheckSyntax`). -/
theorem newSegment_agree (ic : Interceptors) (v : Bytes)
    (h : ∀ s, newSegment ic v = .ok s → s.kind ≠ .icpt) : newSegment ic v = newSegment [] v := by
  rcases newSegment_ruled_or ic v with ⟨st, en, sp, _, _, _, _, _, h6⟩ | ⟨h1, _, _⟩
  · rw [h6 ic] at h ⊢
    rw [h6 []]
    exact finishRuled_agree ic v st en sp h
  · exact (h1 []).symm

theorem newSegment_agree_of_rule (ic : Interceptors) (v : Bytes)
    (h : ∀ r, pieceRule v = some r → ic.find r = none) : newSegment ic v = newSegment [] v := by
  apply newSegment_agree
  intro s hs hk
  obtain ⟨st, en, sp, h1, h2, h3, h4, h5, h6, h7⟩ := newSegment_icpt ic v s hs hk
  have : pieceRule v = some s.rule := by
    simp [pieceRule, h1, h2, h3, h4, h5, h6]
  rw [h _ this] at h7
  cases h7

/-! ## `splitString` -/

theorem splitAux_ne_nil (st : Bool) (cur rest : Bytes) : splitAux st cur rest ≠ [] := by
  induction rest generalizing st cur with
  | nil => simp [splitAux]
  | cons b rest ih =>
    cases st with
    | false =>
      simp only [splitAux]
      split
      · split
        · exact ih _ _
        · simp
      · exact ih _ _
    | true =>
      simp only [splitAux]
      split <;> exact ih _ _

theorem splitAux_flatten (st : Bool) (cur rest : Bytes) :
    (splitAux st cur rest).flatten = cur ++ rest := by
  induction rest generalizing st cur with
  | nil => simp [splitAux]
  | cons b rest ih =>
    cases st with
    | false =>
      simp only [splitAux]
      split
      · split
        · rename_i hc; simp [ih, hc]
        · simp [ih]
      · simp [ih]
    | true =>
      simp only [splitAux]
      split <;> simp [ih]

theorem splitAux_nonempty (st : Bool) (cur rest : Bytes) (h : cur ≠ []) :
    ∀ p ∈ splitAux st cur rest, p ≠ [] := by
  induction rest generalizing st cur with
  | nil => simpa [splitAux] using h
  | cons b rest ih =>
    cases st with
    | false =>
      simp only [splitAux]
      split
      · intro p hp
        rcases List.mem_cons.1 hp with rfl | hp
        · exact h
        · exact ih _ _ (by simp) p hp
      · exact ih _ _ (by simp)
    | true =>
      simp only [splitAux]
      split <;> exact ih _ _ (by simp)

/-- A piece either begins with `{` or contains no `{` at all. -/
def GoodPiece (p : Bytes) : Prop := p.head? = some startByte ∨ startByte ∉ p

theorem splitAux_good (st : Bool) (cur rest : Bytes)
    (h1 : st = true → cur.head? = some startByte) (h2 : st = false → GoodPiece cur) :
    ∀ p ∈ splitAux st cur rest, GoodPiece p := by
  induction rest generalizing st cur with
  | nil =>
    cases st with
    | false => simpa [splitAux] using h2 rfl
    | true => simp only [splitAux, List.mem_singleton, forall_eq]; exact .inl (h1 rfl)
  | cons b rest ih =>
    cases st with
    | false =>
      have hg := h2 rfl
      simp only [splitAux]
      split
      · rename_i hb
        split
        · exact ih _ _ (fun _ => by simp [hb]) (fun h => by cases h)
        · intro p hp
          rcases List.mem_cons.1 hp with rfl | hp
          · exact hg
          · exact ih _ _ (fun _ => by simp [hb]) (fun h => by cases h) p hp
      · rename_i hb
        refine ih _ _ (fun h => by cases h) (fun _ => ?_)
        rcases hg with hg | hg
        · left
          cases cur with
          | nil => cases hg
          | cons c cs => simpa using hg
        · right
          simp only [List.mem_append, List.mem_singleton, not_or]
          exact ⟨hg, fun e => hb e.symm⟩
    | true =>
      have hh := h1 rfl
      have hh' : (cur ++ [b]).head? = some startByte := by
        cases cur with
        | nil => cases hh
        | cons c cs => simpa using hh
      simp only [splitAux]
      split
      · exact ih _ _ (fun h => by cases h) (fun _ => .inl hh')
      · exact ih _ _ (fun _ => hh') (fun h => by cases h)

theorem splitString_ne_nil (s : Bytes) : splitString s ≠ [] := splitAux_ne_nil _ _ _

theorem splitString_nil : splitString [] = [[]] := rfl

theorem splitString_join (s : Bytes) : (splitString s).flatten = s := by
  simp [splitString, splitAux_flatten]

theorem splitString_pieces_nonempty (s : Bytes) (h : s ≠ []) : ∀ p ∈ splitString s, p ≠ [] := by
  cases s with
  | nil => exact absurd rfl h
  | cons b rest =>
    simp only [splitString, splitAux]
    split
    · exact splitAux_nonempty _ _ _ (by simp)
    · exact splitAux_nonempty _ _ _ (by simp)

theorem splitString_good (s : Bytes) : ∀ p ∈ splitString s, GoodPiece p :=
  splitAux_good false [] s (fun h => by cases h) (fun _ => .inr (by simp))

theorem GoodPiece.sep (p : Bytes) (h : GoodPiece p) :
    ∀ st sp, indexByte startByte p = some st → indexByte separatorByte p = some sp → st ≤ sp := by
  intro st sp h1 _
  rcases h with h | h
  · rw [indexByte_head h] at h1
    cases h1
    omega
  · rw [indexByte_eq_none_iff.2 h] at h1
    cases h1

theorem newSegment_piece_no_fault (ic : Interceptors) (p : Bytes) (h : GoodPiece p) (n : Nat) :
    newSegment ic p ≠ .error (.fault n) :=
  newSegment_no_fault ic p (GoodPiece.sep p h) n

/-! ## `Split` -/

theorem splitLoop_no_fault (ic : Interceptors) (ps : List Bytes) (flag : Bool) (names : List Bytes)
    (hne : ∀ p ∈ ps, p ≠ []) (hg : ∀ p ∈ ps, GoodPiece p) (n : Nat) :
    splitLoop ic ps flag names ≠ .error (.fault n) := by
  induction ps generalizing flag names with
  | nil => simp [splitLoop]
  | cons p ps ih =>
    have hp : p ≠ [] := hne p (by simp)
    have hns := newSegment_piece_no_fault ic p (hg p (by simp)) n
    have ih' := fun flag names => ih flag names (fun q hq => hne q (by simp [hq])) (fun q hq => hg q (by simp [hq]))
    simp only [splitLoop, bind, Except.bind, atE_zero _ _ hp, atE_last _ _ hp, pure, Except.pure, throw,
      throwThe, MonadExceptOf.throw]
    split
    · simp
    · cases hs : newSegment ic p with
      | error e =>
        simp only []
        intro h
        cases h
        exact hns hs
      | ok seg =>
        simp only []
        split
        · simp
        · cases hr : splitLoop ic ps (decide (lastByte p = endByte))
            (if seg.kind ≠ Kind.str then seg.name :: names else names) with
          | error e =>
            simp only []
            intro h
            cases h
            exact ih' _ _ hr
          | ok r => simp

theorem split_no_fault (ic : Interceptors) (p : Bytes) (n : Nat) : split ic p ≠ .error (.fault n) := by
  unfold split
  split
  · simp
  · rename_i h
    exact splitLoop_no_fault ic _ _ _ (splitString_pieces_nonempty p h) (splitString_good p) n

theorem splitLoop_congr (ic ic' : Interceptors) (ps : List Bytes) (flag : Bool) (names : List Bytes)
    (h : ∀ p ∈ ps, newSegment ic p = newSegment ic' p) :
    splitLoop ic ps flag names = splitLoop ic' ps flag names := by
  induction ps generalizing flag names with
  | nil => rfl
  | cons p ps ih =>
    have ih' := fun flag names => ih flag names (fun q hq => h q (by simp [hq]))
    simp only [splitLoop, h p (by simp), ih']

theorem finishRuled_nil_rule (v : Bytes) (st en sp : Nat) (s : Seg)
    (h : finishRuled [] v st en sp = .ok s) : s.rule = (v.take en).drop (sp + 1) := by
  unfold finishRuled at h
  simp only [Interceptors.find_nil] at h
  split at h
  · cases h
  · split at h
    · cases h
    · cases h; rfl

/-- `Handle` (interceptors `ic`) and `CheckSyntax` (no interceptors) split a pattern identically
whenever splitting with `ic` produces no interceptor segment. -/
theorem split_agree (ic : Interceptors) (p : Bytes)
    (h : ∀ piece ∈ splitString p, ∀ s, newSegment ic piece = .ok s → s.kind ≠ .icpt) :
    split ic p = split [] p := by
  unfold split
  split
  · rfl
  · exact splitLoop_congr ic [] _ _ _ (fun piece hp => newSegment_agree ic piece (h piece hp))

/-- Purely syntactic form: no `rule` text of the pattern is a key of `ic`. -/
theorem split_agree_of_rule (ic : Interceptors) (p : Bytes)
    (h : ∀ piece ∈ splitString p, ∀ r, pieceRule piece = some r → ic.find r = none) :
    split ic p = split [] p := by
  unfold split
  split
  · rfl
  · exact splitLoop_congr ic [] _ _ _ (fun piece hp => newSegment_agree_of_rule ic piece (h piece hp))

/-- All pieces of an accepted pattern are accepted by `NewSegment`. -/
theorem splitLoop_ok_pieces (ic : Interceptors) (ps : List Bytes) (flag : Bool) (names : List Bytes)
    (segs : List Seg) (h : splitLoop ic ps flag names = .ok segs) :
    ∀ p ∈ ps, ∃ s, newSegment ic p = .ok s := by
  induction ps generalizing flag names segs with
  | nil => simp
  | cons p ps ih =>
    simp only [splitLoop, bind, Except.bind, pure, Except.pure, throw, throwThe, MonadExceptOf.throw] at h
    repeat' split at h
    all_goals first | (cases h; done) | skip
    rename_i seg hseg _ _ r hr
    intro q hq
    rcases List.mem_cons.1 hq with rfl | hq
    · exact ⟨seg, hseg⟩
    · exact ih _ _ _ hr q hq

/-- The formalisation "every rule that `CheckSyntax` sees is not a key of `ic`" gives agreement
only on patterns that `CheckSyntax` accepts (see the counterexample in `Mux.Properties.C05`). -/
theorem split_agree_of_ok (ic : Interceptors) (p : Bytes)
    (h : ∀ piece ∈ splitString p, ∀ s, newSegment [] piece = .ok s → ic.find s.rule = none)
    (hok : (split [] p).isOk = true) : split ic p = split [] p := by
  cases hs : split [] p with
  | error e => rw [hs] at hok; cases hok
  | ok segs =>
    rw [← hs]
    apply split_agree_of_rule
    intro piece hp r hr
    have hpne : p ≠ [] := by
      intro e; subst e; simp [split] at hs
    simp only [split, if_neg hpne] at hs
    obtain ⟨s, hseg⟩ := splitLoop_ok_pieces [] _ _ _ _ hs piece hp
    have := h piece hp s hseg
    rcases newSegment_ruled_or [] piece with ⟨st, en, sp, h1, h2, h3, h4, h5, h6⟩ | ⟨_, _, hnone⟩
    · rw [h6] at hseg
      have hrule := finishRuled_nil_rule _ _ _ _ _ hseg
      simp only [pieceRule, h1, h2, h3, h4, h5, and_self, if_true, Option.some.injEq] at hr
      rw [← hr, ← hrule]; exact this
    · have hlen : piece.length ≤ maxInt16 := by
        refine Nat.le_of_not_gt fun hl => ?_
        rw [newSegment_closed, if_pos hl] at hseg
        cases hseg
      rw [hnone hlen] at hr
      cases hr

theorem split_agree_isOk (ic : Interceptors) (p : Bytes)
    (h : ∀ piece ∈ splitString p, ∀ s, newSegment ic piece = .ok s → s.kind ≠ .icpt) :
    (split ic p).isOk = (split [] p).isOk := by
  rw [split_agree ic p h]

/-! ## `URL` never faults -/

theorem urlLoop_error (ps : AMap Bytes) (segs : List Seg) (e : Err) (h : urlLoop ps segs = .error e) :
    e = .missingParam := by
  induction segs with
  | nil => cases h
  | cons s segs ih =>
    simp only [urlLoop, bind, Except.bind, pure, Except.pure] at h
    split at h
    · split at h
      · rename_i e' he
        cases h
        exact ih he
      · cases h
    · split at h
      · cases h; rfl
      · split at h
        · rename_i e' he
          cases h
          exact ih he
        · cases h

theorem Interceptors.url_no_fault (ic : Interceptors) (p : Bytes) (ps : AMap Bytes) (n : Nat) :
    ic.url p ps ≠ .error (.fault n) := by
  unfold Interceptors.url
  split
  · simp
  · simp only [bind, Except.bind]
    split
    · rename_i e he
      intro h
      cases h
      exact split_no_fault ic p n he
    · intro h
      cases urlLoop_error _ _ _ h

/-! ## `longestPrefix` -/

theorem lpLoop_spec (s1 s2 : Bytes) (i : Nat) (st en : Int) (br : Bool) :
    lpLoop s1 s2 i st en br = st ∨
      ∃ k : Nat, lpLoop s1 s2 i st en br = ((i + k : Nat) : Int) ∧ k ≤ s1.length ∧ k ≤ s2.length ∧
        s1.take k = s2.take k := by
  induction s1 generalizing s2 i st en br with
  | nil =>
    simp only [lpLoop]
    split
    · exact .inl rfl
    · exact .inr ⟨0, by simp⟩
  | cons a s1 ih =>
    cases s2 with
    | nil =>
      simp only [lpLoop]
      split
      · exact .inl rfl
      · exact .inr ⟨0, by simp⟩
    | cons b s2 =>
      simp only [lpLoop]
      have lift : ∀ (st' en' : Int) (br' : Bool), a = b → (st' = st ∨ st' = (i : Int)) →
          (lpLoop s1 s2 (i + 1) st' en' br' = st ∨
            ∃ k : Nat, lpLoop s1 s2 (i + 1) st' en' br' = ((i + k : Nat) : Int) ∧ k ≤ (a :: s1).length ∧
              k ≤ (b :: s2).length ∧ (a :: s1).take k = (b :: s2).take k) := by
        intro st' en' br' hab hst'
        rcases ih s2 (i + 1) st' en' br' with h | ⟨k, h, h1, h2, h3⟩
        · rcases hst' with e | e
          · left; rw [h, e]
          · right; exact ⟨0, by rw [h, e]; simp, by simp, by simp, by simp⟩
        · right
          refine ⟨k + 1, ?_, by simpa using h1, by simpa using h2, ?_⟩
          · rw [h]; congr 1; omega
          · simp [hab, h3]
      split
      · split
        · exact .inl rfl
        · exact .inr ⟨0, by simp⟩
      · rename_i hab
        have hab' : a = b := by simpa using hab
        split
        · exact lift _ _ _ hab' (by cases br <;> simp)
        · split
          · exact lift _ _ _ hab' (.inl rfl)
          · exact lift _ _ _ hab' (.inl rfl)

theorem lpLoop_comm (s1 s2 : Bytes) (i : Nat) (st en : Int) (br : Bool) :
    lpLoop s1 s2 i st en br = lpLoop s2 s1 i st en br := by
  induction s1 generalizing s2 i st en br with
  | nil =>
    cases s2 <;> simp [lpLoop]
  | cons a s1 ih =>
    cases s2 with
    | nil => simp [lpLoop]
    | cons b s2 =>
      simp only [lpLoop]
      by_cases hab : a = b
      · subst hab
        simp only [ne_eq, not_true_eq_false, if_false, ih]
      · have hba : ¬ b = a := fun e => hab e.symm
        simp only [ne_eq, hab, hba, not_false_eq_true, if_true]

theorem longestPrefix_comm (a b : Bytes) : longestPrefix a b = longestPrefix b a :=
  lpLoop_comm a b 0 (-10) (-10) false

theorem longestPrefix_spec (a b : Bytes) :
    longestPrefix a b = -10 ∨
      ∃ k : Nat, longestPrefix a b = (k : Int) ∧ k ≤ a.length ∧ k ≤ b.length ∧ a.take k = b.take k := by
  rcases lpLoop_spec a b 0 (-10) (-10) false with h | ⟨k, h, h1, h2, h3⟩
  · exact .inl h
  · exact .inr ⟨k, by simpa [longestPrefix] using h, h1, h2, h3⟩

theorem longestPrefix_le (a b : Bytes) : longestPrefix a b ≤ ((min a.length b.length : Nat) : Int) := by
  rcases longestPrefix_spec a b with h | ⟨k, h, h1, h2, _⟩
  · rw [h]; omega
  · rw [h]; omega

theorem longestPrefix_pos_prefix (a b : Bytes) (h : 0 < longestPrefix a b) :
    a.take (longestPrefix a b).toNat = b.take (longestPrefix a b).toNat := by
  rcases longestPrefix_spec a b with h' | ⟨k, h', _, _, h3⟩
  · rw [h'] at h; omega
  · rw [h']; simpa using h3

/-- The result is `-10` (no common part that may be split off) or a length of a common prefix. -/
theorem longestPrefix_ge (a b : Bytes) : -10 ≤ longestPrefix a b := by
  rcases longestPrefix_spec a b with h | ⟨k, h, _⟩ <;> rw [h] <;> omega

/-! ## `Segment.Split` (used by the tree when a node is split) -/

theorem GoodPiece.take (p : Bytes) (n : Nat) (h : GoodPiece p) : GoodPiece (p.take n) := by
  rcases h with h | h
  · cases n with
    | zero => right; simp
    | succ n =>
      left
      cases p with
      | nil => cases h
      | cons b r => simpa using h
  · right
    exact fun hm => h (List.mem_of_mem_take hm)

/-- `Segment.Split` does not fault when the position is in range and both halves are pieces in the
sense of `GoodPiece` (each begins with `{` or contains none). -/
theorem Seg.splitAt_no_fault (ic : Interceptors) (seg : Seg) (pos n : Nat)
    (hpos : pos ≤ seg.value.length) (h1 : GoodPiece (seg.value.take pos))
    (h2 : GoodPiece (seg.value.drop pos)) : seg.splitAt ic pos ≠ .error (.fault n) := by
  have e1 := sliceE_ok 120 seg.value 0 pos (by omega) hpos
  have e2 := sliceE_ok 121 seg.value pos seg.value.length hpos (Nat.le_refl _)
  simp only [List.drop_zero, List.take_length] at e1 e2
  simp only [Seg.splitAt, bind, Except.bind, e1, e2, pure, Except.pure]
  cases ha : newSegment ic (List.take pos seg.value) with
  | error e =>
    simp only []
    intro h; cases h
    exact newSegment_piece_no_fault ic _ h1 n ha
  | ok s1 =>
    simp only []
    cases hb : newSegment ic (List.drop pos seg.value) with
    | error e =>
      simp only []
      intro h; cases h
      exact newSegment_piece_no_fault ic _ h2 n hb
    | ok s2 => simp

end Mux
