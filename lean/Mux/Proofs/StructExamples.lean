/-
  Mux.Proofs.StructExamples — concrete instances for the non-vacuity examples of C01b/C02:
  * `exR`: the tree REACHED by the history `[Handle("/{id}", h, GET)]` from a fresh tree, evaluated
    step by step (`getNode` is defined by well-founded recursion, so `decide` cannot run it);
  * `exS`: a hand-built tree with five literal siblings (so that the first-byte index is in use) and
    one named sibling; it satisfies `StructInv` (checked by `decide`).
-/
import Mux.Proofs.ScanSpec
import Mux.Proofs.StructDistinct
import Mux.Proofs.DecEq
namespace Mux.P8
open Mux

/-! ## Decidability of the invariant on concrete nodes -/

instance (ic : Interceptors) (pp : Bytes) (c : Node) : Decidable (ChildOk ic pp c) := by unfold ChildOk; infer_instance
instance (cs : List Node) : Decidable (RankSorted cs) := by unfold RankSorted; infer_instance
instance (ic : Interceptors) (n : Node) : Decidable (SOk ic n) :=
  decidable_of_iff ((∀ c ∈ n.children, ChildOk ic n.pattern c) ∧ RankSorted n.children ∧ buildIndexes n.children = .ok n.indexes)
    ⟨fun h => ⟨h.1, h.2.1, h.2.2⟩, fun h => ⟨h.child, h.sorted, h.index⟩⟩
instance (n : Node) : Decidable (DistinctFirstBytes n) := by unfold DistinctFirstBytes; infer_instance

/-! ## A reached tree: `GET /{id}` -/

def exH : Handler := { base := .user 1 }
def exT0 : Tree := Tree.new [114] [] { base := .notFound } none
/-- `/{id}` -/
def exPat : Bytes := [47, 123, 105, 100, 125]
def exSegId : Seg := { value := [123, 105, 100, 125], kind := .named, name := [105, 100], endpoint := true }
def exSlash0 : Node := newLeaf [] { value := [47] }
def exSlash1 : Node := exSlash0.setChildren [newLeaf [47] exSegId] []
def exRoot1 : Node := exT0.root.setChildren [exSlash1] []

theorem exGet_inner : getNode [] exSlash0 [123, 105, 100, 125] [] = .ok (exSlash1, [0]) := by
  rw [getNode]
  have hs : newSegment [] [123, 105, 100, 125] = .ok exSegId := by decide
  simp only [hs, bind, Except.bind]
  have hsc : scanChildren exSegId exSlash0.children 0 0 0 = .best 0 0 := rfl
  rw [hsc]
  have hsort : sortNode (exSlash0.setChildren (exSlash0.children ++ [newLeaf exSlash0.pattern exSegId]) exSlash0.indexes)
      = .ok exSlash1 := by
    have : exSlash0.children ++ [newLeaf exSlash0.pattern exSegId] = [newLeaf [47] exSegId] := rfl
    rw [this]
    unfold sortNode sortChildren
    simp only [Node.setChildren, Node.children_mk, List.mergeSort_singleton]
    rfl
  simp only [Int.le_refl, if_true, hsort]
  rfl

theorem exGet : getNode exT0.ic exT0.root [47] [[123, 105, 100, 125]] = .ok (exRoot1, [0, 0]) := by
  show getNode [] exT0.root [47] [[123, 105, 100, 125]] = _
  rw [getNode]
  have hs : newSegment [] [47] = .ok { value := [47] } := by decide
  simp only [hs, bind, Except.bind]
  have hsc : scanChildren { value := [47] } exT0.root.children 0 0 0 = .best 0 0 := rfl
  rw [hsc]
  have hsort : sortNode (exT0.root.setChildren (exT0.root.children ++ [newLeaf exT0.root.pattern { value := [47] }]) exT0.root.indexes)
      = .ok (exT0.root.setChildren [exSlash0] []) := by
    have : exT0.root.children ++ [newLeaf exT0.root.pattern { value := [47] }] = [exSlash0] := rfl
    rw [this]
    unfold sortNode sortChildren
    simp only [Node.setChildren, Node.children_mk, List.mergeSort_singleton]
    rfl
  simp only [Int.le_refl, if_true, hsort]
  have hcp : childPos (exT0.root.setChildren [exSlash0] []).children [47] = some 0 := rfl
  simp only [hcp]
  have hin : getNode [] (newLeaf exT0.root.pattern { value := [47] }) [123, 105, 100, 125] [] = .ok (exSlash1, [0]) :=
    exGet_inner
  rw [hin]
  rfl

/-- The tree after the history `[Handle("/{id}", h, GET)]`, in explicit form. -/
def exRExplicit : Tree :=
  ({ exT0 with root := (exRoot1.modifyAt (exT0.addMethodsNode exH exPat [] [mGET]) [0, 0]).toOption.getD exRoot1 }).bumpMethods [mGET]

theorem exAdd : exT0.add exPat exH [] [mGET] = .ok exRExplicit := by
  unfold Tree.add
  have hsp : splitString exPat = [[47], [123, 105, 100, 125]] := by decide
  simp only [hsp]
  rw [exGet]
  rfl

/-- The reached tree. -/
def exR : Tree := exT0.run [.add exPat exH [] [mGET]]

theorem exR_eq : exR = exRExplicit := by
  simp only [exR, Tree.run, List.foldl, Tree.step, exAdd]

theorem exR_reach : exR.Reach := ⟨_, _, _, _, _, _, _, rfl⟩

/-- `/{id}` is a tidy pattern: its pieces are `/` and `{id}`. -/
theorem exPat_tidy : TidyPattern exPat := by
  intro v hv
  have hsp : splitString exPat = [[47], [123, 105, 100, 125]] := by decide
  rw [hsp] at hv
  simp only [List.mem_cons, List.not_mem_nil, or_false] at hv
  rcases hv with rfl | rfl
  · exact .inl (by decide)
  · exact .inr ⟨[105, 100], [], rfl, by decide, by decide⟩

theorem exR_reachTidy : ReachTidy exR :=
  ⟨_, _, _, _, _, _, [.add exPat exH [] [mGET]], by
    intro op hop
    simp only [List.mem_singleton] at hop
    subst hop
    exact exPat_tidy, rfl⟩

theorem exR_names : NamesOkL [] exR.root.children := by rw [exR_eq]; decide

theorem exR_shape : exR.root.children.map (fun c => (c.seg.value, c.children.map (fun d => (d.seg.value, d.pattern, d.handlers.keys)))) =
    [([47], [([123, 105, 100, 125], exPat, [mHEAD, mGET, mOPTIONS, mNotAllowed])])] := by
  rw [exR_eq]; decide

/-! ## A hand-built indexed tree: `/a /b /c /d /e /{id}` -/

def exLit (b : UInt8) : Node := .mk { value := [b] } [47, b] 1 [([71, 69, 84], { base := .user 1 })] [] []
def exPar : Node := .mk exSegId exPat 1 [([71, 69, 84], { base := .user 2 })] [] []
def exSlashS : Node :=
  .mk { value := [47] } [47] 0 [] [(97, 0), (98, 1), (99, 2), (100, 3), (101, 4)]
    [exLit 97, exLit 98, exLit 99, exLit 100, exLit 101, exPar]
def exS : Tree :=
  { root := .mk { value := [] } [] 0 [([], { base := .notAllowed })] [] [exSlashS], name := [114], notFound := { base := .notFound } }

theorem exS_struct : StructInv exS := by
  refine ⟨?_, rfl⟩
  simp only [exS, exSlashS, exLit, exPar, Node.All, AllL, and_true]
  decide

theorem exS_names : NamesOkL [] exS.root.children := by decide

theorem exS_distinct : ∀ n ∈ exS.root.nodes, DistinctFirstBytes n := by decide

theorem exSlashS_mem : exSlashS ∈ exS.root.nodes := by
  simp [exS, Node.nodes, nodesL, exSlashS]

end Mux.P8
