/-
  Mux.Proofs.CorsConfig — helper lemmas for C11 / C12 about the configuration side:
  string helpers (`joinWith`, `splitComma`, `trimSpace`, `intToBytes`), `Cors.sanitize`,
  `Cors.headerIsAllowed`.
-/
import Mux.Proofs.Cors
namespace Mux

/-! ## Strings -/

theorem joinWith_eq_nil_iff (sep : Bytes) (hsep : sep ≠ []) (l : List Bytes) :
    joinWith sep l = [] ↔ l = [] ∨ l = [[]] := by
  match l with
  | [] => simp [joinWith]
  | [x] => simp [joinWith]
  | x :: y :: r => simp [joinWith, hsep]

theorem ByteArray_toList_loop_length (bs : ByteArray) (i : Nat) (r : List UInt8) :
    (ByteArray.toList.loop bs i r).length = r.length + (bs.size - i) := by
  fun_induction ByteArray.toList.loop bs i r with
  | case1 i r h ih => rw [ih]; simp; omega
  | case2 i r h => simp; omega

theorem bytesOfString_eq_nil_iff (s : String) : bytesOfString s = [] ↔ s = "" := by
  constructor
  · intro h
    have := congrArg List.length h
    simp only [bytesOfString, ByteArray.toList, ByteArray_toList_loop_length] at this
    simpa using this
  · rintro rfl; decide +kernel

theorem intToBytes_ne_nil (n : Int) : intToBytes n ≠ [] := by
  unfold intToBytes
  rw [Ne, bytesOfString_eq_nil_iff]
  show Int.repr n ≠ ""
  intro h
  have hl := congrArg String.length h
  cases n with
  | ofNat m =>
    have := @Nat.length_repr_pos m
    simp [Int.repr] at hl
  | negSucc m =>
    simp [Int.repr] at hl


theorem splitComma_ne_nil (s : Bytes) : splitComma s ≠ [] := by
  induction s with
  | nil => simp [splitComma]
  | cons b r ih =>
    unfold splitComma
    split
    · simp
    · split <;> simp

/-- `splitComma` inverts `joinWith ","`… -/
theorem joinWith_splitComma (s : Bytes) : joinWith [44] (splitComma s) = s := by
  induction s with
  | nil => simp [splitComma, joinWith]
  | cons b r ih =>
    unfold splitComma
    split
    · rename_i hb
      cases hsr : splitComma r with
      | nil => exact absurd hsr (splitComma_ne_nil r)
      | cons x xs => rw [hsr] at ih; simp [joinWith, ih, hb]
    · cases hsr : splitComma r with
      | nil => exact absurd hsr (splitComma_ne_nil r)
      | cons x xs =>
        rw [hsr] at ih
        cases xs with
        | nil => simp_all [joinWith]
        | cons y ys => simp only [joinWith] at ih ⊢; simp [← ih]

/-- … and its items contain no comma: it is `strings.Split(s, ",")`. -/
theorem splitComma_no_comma (s : Bytes) : ∀ x ∈ splitComma s, (44 : UInt8) ∉ x := by
  induction s with
  | nil => simp [splitComma]
  | cons b r ih =>
    unfold splitComma
    split
    · intro x hx
      simp at hx
      rcases hx with rfl | hx
      · simp
      · exact ih x hx
    · rename_i hb
      cases hsr : splitComma r with
      | nil => exact absurd hsr (splitComma_ne_nil r)
      | cons y ys =>
        rw [hsr] at ih
        intro x hx
        simp at hx
        rcases hx with rfl | hx
        · have := ih y (by simp)
          simp
          exact ⟨fun h => hb h.symm, this⟩
        · exact ih x (by simp [hx])

/-- `trimSpace s` is `s` without a prefix and a suffix of white space, and it neither starts nor
ends with white space. -/
theorem trimSpace_spec (s : Bytes) :
    ∃ a b, s = a ++ trimSpace s ++ b ∧ a.all isSpaceByte = true ∧ b.all isSpaceByte = true ∧
      (∀ x, (trimSpace s).head? = some x → isSpaceByte x = false) ∧
      (∀ x, (trimSpace s).getLast? = some x → isSpaceByte x = false) := by
  let d := s.dropWhile isSpaceByte
  have hd : s = s.takeWhile isSpaceByte ++ d := (List.takeWhile_append_dropWhile).symm
  have hd2 : d = (d.reverse.dropWhile isSpaceByte).reverse ++ (d.reverse.takeWhile isSpaceByte).reverse := by
    rw [← List.reverse_append, List.takeWhile_append_dropWhile, List.reverse_reverse]
  have ht : trimSpace s = (d.reverse.dropWhile isSpaceByte).reverse := rfl
  refine ⟨s.takeWhile isSpaceByte, (d.reverse.takeWhile isSpaceByte).reverse, ?_, by simp, by simp, ?_, ?_⟩
  · rw [ht, List.append_assoc, ← hd2]; exact hd
  · intro x hx
    have h1 : d.head? = some x := by
      rw [hd2, List.head?_append, ← ht, hx]; rfl
    have := List.head?_dropWhile_not isSpaceByte s
    simp only [show s.dropWhile isSpaceByte = d from rfl, h1] at this
    exact this
  · intro x hx
    rw [ht, List.getLast?_reverse] at hx
    have := List.head?_dropWhile_not isSpaceByte d.reverse
    simp only [hx] at this
    exact this

/-! ## `Cors.sanitize` -/

theorem Cors.sanitize_eq_some {origins allowHeaders exposed : List Bytes} {maxAge : Int} {cred : Bool}
    {c : Cors} (hs : Cors.sanitize origins allowHeaders exposed maxAge cred = some c) :
    -1 ≤ maxAge ∧ ¬ ([42] ∈ origins ∧ cred = true) ∧
    c.origins = origins ∧
    c.anyOrigins = decide ([42] ∈ origins) ∧
    c.deny = decide (origins = []) ∧
    c.allowHeaders = allowHeaders ∧
    c.anyHeaders = decide ([42] ∈ allowHeaders) ∧
    c.allowHeadersString =
      (if [42] ∈ allowHeaders then bytesOfString "*,Authorization" else joinWith [44] allowHeaders) ∧
    c.exposedHeadersString = joinWith [44] exposed ∧
    c.maxAgeString = (if maxAge = 0 then [] else intToBytes maxAge) ∧
    c.allowCredentials = cred := by
  unfold Cors.sanitize at hs
  simp only [] at hs
  split at hs
  · simp at hs
  · split at hs
    · simp at hs
    · rename_i h1 h2
      simp only [Option.some.injEq] at hs
      subst hs
      refine ⟨by omega, by simpa using h2, rfl, by simp, ?_, rfl, by simp, ?_, ?_, rfl, rfl⟩
      · cases origins <;> simp
      · simp only [star_authorization]
        by_cases h : [42] ∈ allowHeaders
        · simp [h]
        · cases allowHeaders <;> simp_all [joinWith]
      · cases exposed <;> simp [joinWith]


theorem Cors.sanitize_eq_none_iff (origins allowHeaders exposed : List Bytes) (maxAge : Int) (cred : Bool) :
    Cors.sanitize origins allowHeaders exposed maxAge cred = none ↔
      maxAge < -1 ∨ ([42] ∈ origins ∧ cred = true) := by
  unfold Cors.sanitize
  simp only []
  split
  · simp [*]
  · split
    · rename_i h1 h2; simp at h2; simp [h2]
    · rename_i h1 h2; simp at h2; simp [h1]; exact h2

/-! ## `Cors.headerIsAllowed` -/

theorem Cors.headerIsAllowed_iff (c : Cors) (rh : Hdr) :
    c.headerIsAllowed rh = true ↔
      c.anyHeaders = true ∨ trimSpace (rh.get hACRH) = [] ∨
      ∀ item ∈ splitComma (trimSpace (rh.get hACRH)),
        ∃ a ∈ c.allowHeaders, toLower a = toLower (trimSpace item) := by
  unfold Cors.headerIsAllowed
  by_cases h1 : c.anyHeaders = true
  · simp [h1]
  · by_cases h2 : trimSpace (rh.get hACRH) = []
    · simp [h2]
    · simp [h1, h2, equalFoldAscii]

/-! ## The two decisions of `handle`, in terms of the `sanitize` arguments -/

section
variable {origins allowHeaders exposed : List Bytes} {maxAge : Int} {cred : Bool} {c : Cors}

theorem Cors.granted_iff (hs : Cors.sanitize origins allowHeaders exposed maxAge cred = some c)
    (nm : List Bytes) (method path : Bytes) (rh : Hdr) :
    c.granted nm method path rh ↔
      origins ≠ [] ∧
      (Cors.isPreflight method path rh → rh.get hACRM ∈ nm ∧ c.headerIsAllowed rh = true) ∧
      ([42] ∈ origins ∨ rh.get hOrigin ∈ origins) := by
  obtain ⟨_, _, ho, ha, hd, _⟩ := Cors.sanitize_eq_some hs
  simp [Cors.granted, Cors.prePass, ho, ha, hd]

theorem Cors.preOK_iff (hs : Cors.sanitize origins allowHeaders exposed maxAge cred = some c)
    (nm : List Bytes) (method path : Bytes) (rh : Hdr) :
    c.preOK nm method path rh ↔
      origins ≠ [] ∧ Cors.isPreflight method path rh ∧ rh.get hACRM ∈ nm := by
  obtain ⟨_, _, _, _, hd, _⟩ := Cors.sanitize_eq_some hs
  simp [Cors.preOK, hd]
end

end Mux
