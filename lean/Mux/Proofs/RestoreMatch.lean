/-
  Mux.Proofs.RestoreMatch — what the D30 repair makes true of the matcher, WITHOUT any hypothesis on names.

  With `restoreParam` as the undo of an abandoned child, on parameters with one entry per key (`keys.Nodup`) and a tree
  whose index fast path only selects literal children (`IdxLit`, the matcher hypothesis that has nothing to do with
  names):

    * a miss of `matchChildren` / `matchFrom` returns EXACTLY the incoming parameters;
    * a hit returns the `set` fold of the captures of the chain that was taken over the incoming parameters
      (`setCaps ps (captures chain)`): captures override equal-named incoming parameters (and earlier captures of the
      same name), every other incoming parameter keeps its value and its place.

  Neither `NamesOk` nor disjointness of the incoming keys from the names of the tree is needed: an abandoned branch
  whose parameter has the name of an incoming parameter leaves no trace (before the repair it deleted that parameter:
  the former `C01_group_collision`).  `Tree.handler` forms: `handler_found_restore`, `handler_404_restore`.
-/
import Mux.Proofs.Restore
import Mux.Proofs.HandlerSound
namespace Mux.P19
open Mux

/-- Tracking hypotheses after the repair (node level): the fast path selects literals, one entry per key. -/
def TrN (n : Node) (ps : Params) : Prop := Node.All IdxLit n ∧ ps.keys.Nodup
/-- The same for a list of siblings. -/
def TrL (cs : List Node) (ps : Params) : Prop := AllL IdxLit cs ∧ ps.keys.Nodup

/-- `n.matchChildren … path ps = .hit m ps'` is justified, with the parameters of the repaired matcher. -/
def HitNR (env : Env) (ic : Interceptors) (n : Node) (path : Bytes) (ps : Params) (m : Node) (ps' : Params) : Prop :=
  ∃ chain : List (Seg × Bytes),
    Chain n (chain.map (·.1)) m ∧ path = instChain chain ∧
    (∀ sv ∈ chain, sv.1.Satisfies env ic sv.2) ∧ m.handlers ≠ [] ∧
    (TrN n ps → ps' = setCaps ps (captures chain))

def HitLR (env : Env) (ic : Interceptors) (cs : List Node) (path : Bytes) (ps : Params) (m : Node) (ps' : Params) : Prop :=
  ∃ c ∈ cs, ∃ (cap : Bytes) (chain : List (Seg × Bytes)),
    Chain c (chain.map (·.1)) m ∧ path = instChain ((c.seg, cap) :: chain) ∧
    (∀ sv ∈ (c.seg, cap) :: chain, sv.1.Satisfies env ic sv.2) ∧ m.handlers ≠ [] ∧
    (TrL cs ps → ps' = setCaps ps (captures ((c.seg, cap) :: chain)))

theorem HitLR.tail {env : Env} {ic : Interceptors} {d : Node} {cs : List Node} {path : Bytes} {ps : Params} {m : Node}
    {ps' : Params} (h : HitLR env ic cs path ps m ps') : HitLR env ic (d :: cs) path ps m ps' := by
  obtain ⟨c, hc, cap, chain, h1, h2, h3, h4, h5⟩ := h
  exact ⟨c, List.mem_cons_of_mem _ hc, cap, chain, h1, h2, h3, h4, fun ht => h5 ⟨ht.1.2, ht.2⟩⟩

theorem hit_of_child {env : Env} {ic : Interceptors} {cs : List Node} {c : Node} (hc : c ∈ cs)
    {path cap rest : Bytes} {ps : Params} (hm : c.seg.match env ic path = .yes cap rest)
    {m : Node} {ps' : Params} (h : HitNR env ic c rest (c.seg.record cap ps) m ps') :
    HitLR env ic cs path ps m ps' := by
  obtain ⟨chain, h1, h2, h3, h4, h5⟩ := h
  obtain ⟨e1, e2, _⟩ := Seg.match_sound env ic c.seg path cap rest hm
  refine ⟨c, hc, cap, chain, h1, ?_, ?_, h4, ?_⟩
  · rw [e1, h2]; rfl
  · intro sv hsv
    rcases List.mem_cons.1 hsv with rfl | hsv
    · exact e2
    · exact h3 sv hsv
  · intro ht
    rw [h5 ⟨AllL_mem ht.1 hc, nodup_record c.seg cap ht.2⟩, setCaps_record]

/-- After child `c` missed (its subtree handing back what it was given), the undo gives back the parameters from
before `c` was tried. -/
theorem miss_of_child {cs : List Node} {c : Node} (hc : c ∈ cs) {cap : Bytes} {ps ps2 : Params}
    (h : TrN c (c.seg.record cap ps) → ps2 = c.seg.record cap ps)
    (ht : TrL cs ps) : restoreParam ps ps2 c.seg.name = ps := by
  rw [h ⟨AllL_mem ht.1 hc, nodup_record c.seg cap ht.2⟩]
  exact restoreParam_record c.seg cap ht.2

mutual
theorem matchChildren_post (env : Env) (ic : Interceptors) : (n : Node) → (path : Bytes) → (ps : Params) →
    MR.Post (HitNR env ic n path ps) (fun ps' => TrN n ps → ps' = ps) (n.matchChildren env ic path ps)
  | .mk seg pat mi hs idx cs, path, ps => by
    have hAt := fun i => matchAt_post env ic cs i path ps
    have hFrom := fun ps1 => matchFrom_post env ic cs idx.length path ps1
    rw [Node.matchChildren_eq]
    have hfast : MR.Post (HitLR env ic cs path ps) (fun ps' => TrN (.mk seg pat mi hs idx cs) ps → ps' = ps)
        (fastPath env ic idx cs path ps) := by
      unfold fastPath
      split
      · rename_i hd tl b tl'
        have := hAt ((idxLookup (hd :: tl) b).getD 0)
        cases hr : matchAt env ic cs ((idxLookup (hd :: tl) b).getD 0) (b :: tl') ps with
        | hit m ps' => rw [hr] at this; exact this
        | miss ps' =>
          rw [hr] at this
          intro ht
          refine this ⟨ht.1.2, ht.2⟩ ?_
          intro c hc
          exact ht.1.1 (by simp [Node.indexes]) b c hc
        | fault s => trivial
        | unsupported => trivial
      · intro _; rfl
    have lift : ∀ {ps0 m ps'}, (TrN (.mk seg pat mi hs idx cs) ps → ps0 = ps) →
        HitLR env ic cs path ps0 m ps' → HitNR env ic (.mk seg pat mi hs idx cs) path ps m ps' := by
      intro ps0 m ps' h0 ⟨c, hc, cap, chain, h1, h2, h3, h4, h5⟩
      refine ⟨(c.seg, cap) :: chain, Chain.cons hc h1, h2, h3, h4, ?_⟩
      intro ht
      have := h0 ht
      subst this
      exact h5 ⟨ht.1.2, ht.2⟩
    cases hf : fastPath env ic idx cs path ps with
    | hit m ps' =>
      rw [hf] at hfast
      exact lift (fun _ => rfl) hfast
    | fault s => trivial
    | unsupported => trivial
    | miss ps1 =>
      rw [hf] at hfast
      simp only
      have hfr := hFrom ps1
      cases hr : matchFrom env ic cs idx.length path ps1 with
      | hit m ps' =>
        rw [hr] at hfr
        exact lift hfast hfr
      | fault s => trivial
      | unsupported => trivial
      | miss ps2 =>
        rw [hr] at hfr
        simp only
        have e2 : TrN (.mk seg pat mi hs idx cs) ps → ps2 = ps := by
          intro ht
          have := hfast ht
          subst this
          exact hfr ⟨ht.1.2, ht.2⟩
        split
        · rename_i hcond
          refine ⟨[], Chain.nil _, ?_, ?_, ?_, ?_⟩
          · show path = []; simpa using hcond.1
          · intro sv hsv; cases hsv
          · intro hnil
            have := hcond.2
            simp only [Node.handlers] at hnil
            rw [hnil] at this
            exact absurd this (by simp)
          · intro ht
            rw [e2 ht]; rfl
        · exact e2

theorem matchAt_post (env : Env) (ic : Interceptors) : (cs : List Node) → (i : Nat) → (path : Bytes) → (ps : Params) →
    MR.Post (HitLR env ic cs path ps)
      (fun ps' => TrL cs ps → (∀ c, cs[i]? = some c → c.seg.kind = .str) → ps' = ps)
      (matchAt env ic cs i path ps)
  | [], _, _, _ => by rw [matchAt]; trivial
  | c :: cs, 0, path, ps => by
    rw [matchAt]
    cases hm : c.seg.match env ic path with
    | no => intro _ _; rfl
    | unsupported => trivial
    | yes cap rest =>
      simp only
      have ih := matchChildren_post env ic c rest (c.seg.record cap ps)
      unfold Seg.record at ih
      cases hr : Node.matchChildren env ic c rest
          (if c.seg.kind ≠ .str ∧ ¬ c.seg.ignoreName then ps.set c.seg.name cap else ps) with
      | hit m ps' =>
        rw [hr] at ih
        exact hit_of_child List.mem_cons_self hm ih
      | fault s => trivial
      | unsupported => trivial
      | miss ps2 =>
        rw [hr] at ih
        intro ht hlit
        have hstr : c.seg.kind = .str := hlit c rfl
        have hne : ¬ (c.seg.kind ≠ .str ∧ ¬ c.seg.ignoreName) := fun h => h.1 hstr
        simp only [hne, if_false] at ih
        exact ih ⟨ht.1.1, ht.2⟩
  | d :: cs, i + 1, path, ps => by
    rw [matchAt]
    have ih := matchAt_post env ic cs i path ps
    cases hr : matchAt env ic cs i path ps with
    | hit m ps' => rw [hr] at ih; exact ih.tail
    | fault s => trivial
    | unsupported => trivial
    | miss ps2 =>
      rw [hr] at ih
      intro ht hlit
      exact ih ⟨ht.1.2, ht.2⟩ (by simpa using hlit)

theorem matchFrom_post (env : Env) (ic : Interceptors) : (cs : List Node) → (skip : Nat) → (path : Bytes) → (ps : Params) →
    MR.Post (HitLR env ic cs path ps) (fun ps' => TrL cs ps → ps' = ps) (matchFrom env ic cs skip path ps)
  | [], _, _, ps => by rw [matchFrom]; intro _; rfl
  | d :: cs, skip + 1, path, ps => by
    rw [matchFrom]
    have ih := matchFrom_post env ic cs skip path ps
    cases hr : matchFrom env ic cs skip path ps with
    | hit m ps' => rw [hr] at ih; exact ih.tail
    | fault s => trivial
    | unsupported => trivial
    | miss ps2 =>
      rw [hr] at ih
      intro ht
      exact ih ⟨ht.1.2, ht.2⟩
  | c :: cs, 0, path, ps => by
    rw [matchFrom]
    have tailStep : ∀ ps0, (TrL (c :: cs) ps → ps0 = ps) →
        MR.Post (HitLR env ic (c :: cs) path ps) (fun ps' => TrL (c :: cs) ps → ps' = ps)
          (matchFrom env ic cs 0 path ps0) := by
      intro ps0 h0
      have ih := matchFrom_post env ic cs 0 path ps0
      cases hr : matchFrom env ic cs 0 path ps0 with
      | hit m ps' =>
        rw [hr] at ih
        obtain ⟨c', hc', cap, chain, h1, h2, h3, h4, h5⟩ := ih
        refine ⟨c', List.mem_cons_of_mem _ hc', cap, chain, h1, h2, h3, h4, ?_⟩
        intro ht
        have := h0 ht
        subst this
        exact h5 ⟨ht.1.2, ht.2⟩
      | fault s => trivial
      | unsupported => trivial
      | miss ps2 =>
        rw [hr] at ih
        intro ht
        have := h0 ht
        subst this
        exact ih ⟨ht.1.2, ht.2⟩
    cases hm : c.seg.match env ic path with
    | no => exact tailStep ps (fun _ => rfl)
    | unsupported => trivial
    | yes cap rest =>
      simp only
      have ih := matchChildren_post env ic c rest (c.seg.record cap ps)
      unfold Seg.record at ih
      cases hr : Node.matchChildren env ic c rest
          (if c.seg.kind ≠ .str ∧ ¬ c.seg.ignoreName then ps.set c.seg.name cap else ps) with
      | hit m ps' =>
        rw [hr] at ih
        exact hit_of_child List.mem_cons_self hm ih
      | fault s => trivial
      | unsupported => trivial
      | miss ps2 =>
        rw [hr] at ih
        simp only
        exact tailStep _ (fun ht => miss_of_child (cap := cap) List.mem_cons_self ih ht)
end

/-! ## User-facing forms -/

/-- **A hit after the D30 repair**: the chain, and the parameters are the `set` fold of its captures over the incoming
parameters — for ANY incoming parameters with one entry per key. -/
theorem matchChildren_restore {env : Env} {ic : Interceptors} {n : Node} {path : Bytes} {ps : Params} {m : Node}
    {ps' : Params} (h : n.matchChildren env ic path ps = .hit m ps') :
    ∃ chain : List (Seg × Bytes),
      Chain n (chain.map (·.1)) m ∧ path = instChain chain ∧
      (∀ sv ∈ chain, sv.1.Satisfies env ic sv.2) ∧ m.handlers ≠ [] ∧
      (Node.All IdxLit n → ps.keys.Nodup → ps' = setCaps ps (captures chain)) := by
  have := matchChildren_post env ic n path ps
  rw [h] at this
  obtain ⟨chain, h1, h2, h3, h4, h5⟩ := this
  exact ⟨chain, h1, h2, h3, h4, fun a b => h5 ⟨a, b⟩⟩

/-- **A miss leaves no trace, whatever the names** (D1 + D30 repairs). -/
theorem matchChildren_miss_restore {env : Env} {ic : Interceptors} {n : Node} {path : Bytes} {ps ps' : Params}
    (h : n.matchChildren env ic path ps = .miss ps') (hi : Node.All IdxLit n) (hnd : ps.keys.Nodup) : ps' = ps := by
  have := matchChildren_post env ic n path ps
  rw [h] at this
  exact this ⟨hi, hnd⟩

theorem matchFrom_miss_restore {env : Env} {ic : Interceptors} {cs : List Node} {skip : Nat} {path : Bytes}
    {ps ps' : Params} (h : matchFrom env ic cs skip path ps = .miss ps') (hi : AllL IdxLit cs) (hnd : ps.keys.Nodup) :
    ps' = ps := by
  have := matchFrom_post env ic cs skip path ps
  rw [h] at this
  exact this ⟨hi, hnd⟩

/-! ## `Tree.handler` -/

/-- `C01_found_from` without its hypothesis on names: any incoming parameters with one entry per key. -/
theorem handler_found_restore {env : Env} {t : Tree} {path : Bytes} {ps : Params} {method : Bytes} {f : Found} {n : Node}
    (hI : Node.All IdxLit t.root) (hnd : ps.keys.Nodup)
    (hp : path ≠ []) (hs : path ≠ [42]) (htr : t.trace = none ∨ method ≠ mTRACE)
    (h : t.handler env path ps method = .res f) (hf : f.node = some n) :
    ∃ chain : List (Seg × Bytes),
      chain ≠ [] ∧ Chain t.root (chain.map (·.1)) n ∧ path = instChain chain ∧
      (∀ sv ∈ chain, sv.1.Satisfies env t.ic sv.2) ∧
      f.params = setCaps ps (captures chain) ∧ n.handlers ≠ [] ∧ HandlerAgrees n method f := by
  rw [Tree.handler_noTrace htr] at h
  rcases handlerNoTrace_res h with ⟨_, _, hnone, _⟩ | ⟨_, _, _, _, hnone, _⟩ | ⟨m, ps', hr, hne, hsome, hps, hag⟩
  · rw [hnone] at hf; cases hf
  · rw [hnone] at hf; cases hf
  · rw [hsome] at hf
    cases hf
    rw [Tree.matchRes_of_ne hp hs] at hr
    obtain ⟨chain, h1, h2, h3, _, h5⟩ := matchChildren_restore hr
    refine ⟨chain, ?_, h1, h2, h3, ?_, hne, hag⟩
    · rintro rfl
      exact hp h2
    · rw [hps]
      exact h5 hI hnd

/-- `C01_404_from` without its hypothesis on names: a 404 reports exactly the incoming parameters. -/
theorem handler_404_restore {env : Env} {t : Tree} {path : Bytes} {ps : Params} {method : Bytes} {f : Found}
    (hI : Node.All IdxLit t.root) (hnd : ps.keys.Nodup)
    (h : t.handler env path ps method = .res f) (hf : f.node = none) :
    f.params = ps ∧ f.handler = t.notFound ∧ f.ok = false := by
  rcases Tree.handler_cases env t path ps method with ⟨h', _, _, e⟩ | ⟨_, e⟩
  · rw [e] at h
    simp only [HR.res.injEq] at h
    subst h
    cases hf
  · rw [e] at h
    rcases handlerNoTrace_res h with ⟨ps', hr, _, hh, hok, hps⟩ | ⟨m, ps', hr, hnil, _, hh, hok, hps⟩ |
        ⟨m, ps', _, _, hsome, _⟩
    · refine ⟨?_, hh, hok⟩
      rw [hps]
      by_cases hpath : path = [] ∨ path = [42]
      · rw [Tree.matchRes_of_eq hpath] at hr; cases hr
      · rw [Tree.matchRes_of_ne (fun h => hpath (Or.inl h)) (fun h => hpath (Or.inr h))] at hr
        exact matchChildren_miss_restore hr hI hnd
    · refine ⟨?_, hh, hok⟩
      rw [hps]
      by_cases hpath : path = [] ∨ path = [42]
      · rw [Tree.matchRes_of_eq hpath] at hr
        cases hr; rfl
      · rw [Tree.matchRes_of_ne (fun h => hpath (Or.inl h)) (fun h => hpath (Or.inr h))] at hr
        obtain ⟨_, _, _, _, h4, _⟩ := Node.matchChildren_hit hr
        exact absurd hnil h4
    · rw [hsome] at hf; cases hf

end Mux.P19
