/-
  Mux.Proofs.Trace — `html.EscapeString`, the TRACE helper and the TRACE short-circuit (C18).
-/
import Mux.Proofs.Head
import Mux.Spec.Defs
namespace Mux

/-! ## The five entities -/

def entLt : Bytes := [38, 108, 116, 59]        -- &lt;
def entGt : Bytes := [38, 103, 116, 59]        -- &gt;
def entAmp : Bytes := [38, 97, 109, 112, 59]   -- &amp;
def entApos : Bytes := [38, 35, 51, 57, 59]    -- &#39;
def entQuot : Bytes := [38, 35, 51, 52, 59]    -- &#34;
def entities : List Bytes := [entLt, entGt, entAmp, entApos, entQuot]

theorem entLt_eq : bytesOfString "&lt;" = entLt := by decide +kernel
theorem entGt_eq : bytesOfString "&gt;" = entGt := by decide +kernel
theorem entAmp_eq : bytesOfString "&amp;" = entAmp := by decide +kernel
theorem entApos_eq : bytesOfString "&#39;" = entApos := by decide +kernel
theorem entQuot_eq : bytesOfString "&#34;" = entQuot := by decide +kernel

/-- What one input byte becomes. -/
def escByte (b : UInt8) : Bytes :=
  if b = 60 then entLt else if b = 62 then entGt else if b = 38 then entAmp
  else if b = 39 then entApos else if b = 34 then entQuot else [b]

theorem htmlEscape_cons (b : UInt8) (rest : Bytes) :
    htmlEscape (b :: rest) = escByte b ++ htmlEscape rest := by
  simp only [htmlEscape, escByte, entLt_eq, entGt_eq, entAmp_eq, entApos_eq, entQuot_eq]

theorem htmlEscape_nil : htmlEscape [] = [] := rfl

/-- The shape of `escByte b`: one of the five entities, or the byte itself, which then is none of
the five special bytes. -/
theorem escByte_cases (b : UInt8) :
    escByte b ∈ entities ∨ (escByte b = [b] ∧ b ≠ 60 ∧ b ≠ 62 ∧ b ≠ 38 ∧ b ≠ 39 ∧ b ≠ 34) := by
  unfold escByte
  by_cases h1 : b = 60
  · simp [h1, entities]
  by_cases h2 : b = 62
  · simp [h2, entities]
  by_cases h3 : b = 38
  · simp [h3, entities]
  by_cases h4 : b = 39
  · simp [h4, entities]
  by_cases h5 : b = 34
  · simp [h5, entities]
  · right; simp [h1, h2, h3, h4, h5]

/-- The bytes that may not appear in escaped text. -/
def forbiddenByte (b : UInt8) : Prop := b = 60 ∨ b = 62 ∨ b = 34 ∨ b = 39

theorem entities_safe : ∀ e ∈ entities, ∀ b ∈ e, ¬ forbiddenByte b := by
  unfold forbiddenByte; decide

theorem escByte_safe (b x : UInt8) (hx : x ∈ escByte b) : ¬ forbiddenByte x := by
  rcases escByte_cases b with h | ⟨h, h1, h2, _, h4, h5⟩
  · exact entities_safe _ h x hx
  · rw [h, List.mem_singleton] at hx
    subst hx
    unfold forbiddenByte
    simp [h1, h2, h4, h5]

theorem htmlEscape_safe (s : Bytes) : ∀ b ∈ htmlEscape s, ¬ forbiddenByte b := by
  induction s with
  | nil => intro b hb; cases hb
  | cons c rest ih =>
    intro b hb
    rw [htmlEscape_cons, List.mem_append] at hb
    rcases hb with hb | hb
    · exact escByte_safe c b hb
    · exact ih b hb

/-! ## Every `&` starts an entity -/

/-- An entity has its only `&` at position 0. -/
theorem entity_tail_noamp : ∀ e ∈ entities, (38 : UInt8) ∉ e.tail := by decide

theorem entity_amp_pos : ∀ e ∈ entities, ∀ pre post, e = pre ++ 38 :: post → pre = [] := by
  intro e he pre post h
  cases pre with
  | nil => rfl
  | cons x pre =>
    exfalso
    have hmem : (38 : UInt8) ∈ e.tail := by rw [h]; simp
    exact entity_tail_noamp e he hmem

theorem escByte_amp (b : UInt8) (pre post : Bytes) (h : escByte b = pre ++ 38 :: post) :
    pre = [] ∧ escByte b ∈ entities := by
  rcases escByte_cases b with he | ⟨he, _, _, h3, _, _⟩
  · exact ⟨entity_amp_pos _ he pre post h, he⟩
  · exfalso
    rw [he] at h
    cases pre with
    | nil => simp only [List.nil_append, List.cons.injEq] at h; exact h3 h.1
    | cons x pre =>
      simp only [List.cons_append, List.cons.injEq] at h
      have := h.2
      cases pre <;> simp at this

theorem htmlEscape_amp (s : Bytes) (pre post : Bytes) (h : htmlEscape s = pre ++ 38 :: post) :
    ∃ e ∈ entities, e <+: 38 :: post := by
  induction s generalizing pre with
  | nil => rw [htmlEscape_nil] at h; cases pre <;> cases h
  | cons c rest ih =>
    rw [htmlEscape_cons, List.append_eq_append_iff] at h
    rcases h with ⟨a', h1, h2⟩ | ⟨c', h1, h2⟩
    · -- the `&` lies in the escaped rest
      exact ih a' h2
    · -- `escByte c = pre ++ c'`, `38 :: post = c' ++ htmlEscape rest`
      cases c' with
      | nil =>
        rw [List.nil_append] at h2
        exact ih [] h2.symm
      | cons x c'' =>
        rw [List.cons_append, List.cons.injEq] at h2
        obtain ⟨hx, hpost⟩ := h2
        subst hx
        obtain ⟨hpre, hent⟩ := escByte_amp c pre c'' h1
        subst hpre
        rw [List.nil_append] at h1
        refine ⟨escByte c, hent, ?_⟩
        rw [h1, hpost]
        exact ⟨htmlEscape rest, rfl⟩

/-! ## Unescaping -/

/-- Inverse of `htmlEscape` on the five entities it produces (`html.UnescapeString` restricted to
them); everything else is copied. -/
def htmlUnescape : Bytes → Bytes
  | 38 :: 108 :: 116 :: 59 :: rest => 60 :: htmlUnescape rest
  | 38 :: 103 :: 116 :: 59 :: rest => 62 :: htmlUnescape rest
  | 38 :: 97 :: 109 :: 112 :: 59 :: rest => 38 :: htmlUnescape rest
  | 38 :: 35 :: 51 :: 57 :: 59 :: rest => 39 :: htmlUnescape rest
  | 38 :: 35 :: 51 :: 52 :: 59 :: rest => 34 :: htmlUnescape rest
  | b :: rest => b :: htmlUnescape rest
  | [] => []

theorem htmlUnescape_other (b : UInt8) (rest : Bytes) (hb : b ≠ 38) :
    htmlUnescape (b :: rest) = b :: htmlUnescape rest := by
  rw [htmlUnescape.eq_def]
  split <;> simp_all

theorem htmlUnescape_escByte (b : UInt8) (t : Bytes) :
    htmlUnescape (escByte b ++ t) = b :: htmlUnescape t := by
  unfold escByte
  by_cases h1 : b = 60
  · subst h1; simp [entLt, htmlUnescape]
  by_cases h2 : b = 62
  · subst h2; simp [entGt, htmlUnescape]
  by_cases h3 : b = 38
  · subst h3; simp [entAmp, htmlUnescape]
  by_cases h4 : b = 39
  · subst h4; simp [entApos, htmlUnescape]
  by_cases h5 : b = 34
  · subst h5; simp [entQuot, htmlUnescape]
  · simp only [h1, h2, h3, h4, h5, if_false, List.singleton_append]
    exact htmlUnescape_other b t h3

theorem htmlUnescape_escape (s : Bytes) : htmlUnescape (htmlEscape s) = s := by
  induction s with
  | nil => rfl
  | cons b rest ih => rw [htmlEscape_cons, htmlUnescape_escByte, ih]

/-! ## The helper -/

theorem traceHelper_some (text : Bytes) (r0 : Rec) (h0 : r0.code = none) :
    traceHelper (some text) r0 =
      ({ hdr := r0.hdr.set hContentType (bytesOfString "message/http"), code := some 200,
         snap := some (r0.hdr.set hContentType (bytesOfString "message/http")),
         body := r0.body + (htmlEscape text).length }, htmlEscape text) := by
  simp [traceHelper, Rec.write, Rec.writeHeader, h0, informational_200]

/-! ## The TRACE short-circuit -/

theorem handler_trace (env : Env) (t : Tree) (h : Handler) (ht : t.trace = some h) (path : Bytes) (ps : Params) :
    t.handler env path ps mTRACE = .res { node := some t.root, handler := h, ok := true, params := ps } := by
  unfold Tree.handler
  rw [ht]
  simp

theorem handler_notrace (env : Env) (t : Tree) (ht : t.trace = none) (path : Bytes) (ps : Params) (method : Bytes) :
    t.handler env path ps method = Tree.handler.Tree.handlerNoTrace env t path ps method := by
  unfold Tree.handler
  rw [ht]

theorem handler_other (env : Env) (t : Tree) (path : Bytes) (ps : Params) (method : Bytes) (hm : method ≠ mTRACE) :
    t.handler env path ps method = Tree.handler.Tree.handlerNoTrace env t path ps method := by
  unfold Tree.handler
  split
  · rw [if_neg hm]
  · rfl

/-! ## The TRACE handler is wrapped only by `Use` -/

theorem bumpMethods_trace (t : Tree) (ms : List Bytes) :
    (t.bumpMethods ms).trace = t.trace ∧ (t.bumpMethods ms).name = t.name := ⟨rfl, rfl⟩
theorem recount_trace (t : Tree) : t.recount.trace = t.trace ∧ t.recount.name = t.name := ⟨rfl, rfl⟩

theorem add_trace (t t' : Tree) (p : Bytes) (h : Handler) (ms : List Nat) (methods : List Bytes)
    (ha : t.add p h ms methods = .ok t') : t'.trace = t.trace ∧ t'.name = t.name := by
  unfold Tree.add at ha
  simp only [bind, Except.bind, pure, Except.pure] at ha
  repeat' split at ha
  all_goals (try cases ha)
  all_goals exact ⟨rfl, rfl⟩

theorem remove_trace (t t' : Tree) (p : Bytes) (methods : List Bytes)
    (ha : t.remove p methods = .ok t') : t'.trace = t.trace ∧ t'.name = t.name := by
  unfold Tree.remove at ha
  simp only [bind, Except.bind, pure, Except.pure] at ha
  repeat' split at ha
  all_goals (try cases ha)
  all_goals exact ⟨rfl, rfl⟩

theorem clean_trace (t t' : Tree) (p : Bytes)
    (ha : t.clean p = .ok t') : t'.trace = t.trace ∧ t'.name = t.name := by
  unfold Tree.clean at ha
  simp only [bind, Except.bind, pure, Except.pure] at ha
  repeat' split at ha
  all_goals (try cases ha)
  all_goals exact ⟨rfl, rfl⟩

/-- The middlewares given to `Use` in a history, in order. -/
def useMs : List TOp → List Nat
  | [] => []
  | .use ms :: ops => ms ++ useMs ops
  | _ :: ops => useMs ops

theorem wrapWith_wrapWith (h : Handler) (m p r : Bytes) (a b : List Nat) :
    wrapWith (wrapWith h m p r a) m p r b = wrapWith h m p r (a ++ b) := by
  simp [wrapWith, List.append_assoc]

theorem wrapWith_nil (h : Handler) (m p r : Bytes) : wrapWith h m p r [] = h := by
  simp [wrapWith]

theorem run_trace (t : Tree) (ops : List TOp) :
    (t.run ops).trace = t.trace.map (fun h => wrapWith h mTRACE [] t.name (useMs ops)) ∧
      (t.run ops).name = t.name := by
  unfold Tree.run
  induction ops generalizing t with
  | nil =>
    refine ⟨?_, rfl⟩
    simp only [List.foldl_nil, useMs, wrapWith_nil]
    cases t.trace <;> rfl
  | cons op ops ih =>
    rw [List.foldl_cons]
    have keep : ∀ t' : Tree, t'.trace = t.trace ∧ t'.name = t.name → useMs (op :: ops) = useMs ops →
        (List.foldl Tree.step t' ops).trace = t.trace.map (fun h => wrapWith h mTRACE [] t.name (useMs (op :: ops))) ∧
        (List.foldl Tree.step t' ops).name = t.name := by
      intro t' ht hu
      rw [(ih t').1, (ih t').2, ht.1, ht.2, hu]
      exact ⟨rfl, rfl⟩
    cases op with
    | add p h ms methods =>
      simp only [Tree.step]
      cases ha : t.add p h ms methods with
      | ok t' => exact keep t' (add_trace _ _ _ _ _ _ ha) rfl
      | error e => exact keep t ⟨rfl, rfl⟩ rfl
    | remove p methods =>
      simp only [Tree.step]
      cases ha : t.remove p methods with
      | ok t' => exact keep t' (remove_trace _ _ _ _ ha) rfl
      | error e => exact keep t ⟨rfl, rfl⟩ rfl
    | clean pre =>
      simp only [Tree.step]
      cases ha : t.clean pre with
      | ok t' => exact keep t' (clean_trace _ _ _ ha) rfl
      | error e => exact keep t ⟨rfl, rfl⟩ rfl
    | use ms =>
      simp only [Tree.step]
      rw [(ih _).1, (ih _).2]
      refine ⟨?_, rfl⟩
      show (t.trace.map _).map _ = _
      rw [Option.map_map]
      congr 1
      funext h
      exact wrapWith_wrapWith h mTRACE [] t.name ms (useMs ops)

end Mux
