/-
  Mux.Proofs.HandlerSound — `Tree.handler` on top of the matcher: what each answer means.
-/
import Mux.Proofs.MatchSound
namespace Mux

/-- The handler reported for node `n` and `method` agrees with the node's handler map: a found
handler is the entry of `method` (and `method` is not the 405 key `""`); otherwise `method` has no
entry (or is `""`) and the handler is the node's 405 entry (the zero value when there is none). -/
def HandlerAgrees (n : Node) (method : Bytes) (f : Found) : Prop :=
  (f.ok = true → method ≠ mNotAllowed ∧ n.handlers.get? method = some f.handler) ∧
  (f.ok = false → (method = mNotAllowed ∨ n.handlers.get? method = none) ∧
      f.handler = (n.handlers.get? mNotAllowed).getD { base := .nil })

/-- The matcher call `Tree.Handler` makes. -/
def Tree.matchRes (env : Env) (t : Tree) (path : Bytes) (ps : Params) : MR :=
  if path = [42] ∨ path = [] then .hit t.root ps else t.root.matchChildren env t.ic path ps

/-- Case analysis of `Tree.handlerNoTrace`. -/
theorem handlerNoTrace_res {env : Env} {t : Tree} {path : Bytes} {ps : Params} {method : Bytes} {f : Found}
    (h : Tree.handler.Tree.handlerNoTrace env t path ps method = .res f) :
    (∃ ps', t.matchRes env path ps = .miss ps' ∧
        f.node = none ∧ f.handler = t.notFound ∧ f.ok = false ∧ f.params = ps') ∨
    (∃ n ps', t.matchRes env path ps = .hit n ps' ∧ n.handlers = [] ∧
        f.node = none ∧ f.handler = t.notFound ∧ f.ok = false ∧ f.params = ps') ∨
    (∃ n ps', t.matchRes env path ps = .hit n ps' ∧ n.handlers ≠ [] ∧
        f.node = some n ∧ f.params = ps' ∧ HandlerAgrees n method f) := by
  unfold Tree.handler.Tree.handlerNoTrace at h
  simp only at h
  change (match t.matchRes env path ps with
    | .fault s => HR.fault s
    | .unsupported => HR.unsupported
    | .miss ps' => HR.res { node := none, handler := t.notFound, ok := false, params := ps' }
    | .hit n ps' => _) = _ at h
  cases hr : t.matchRes env path ps with
  | fault s => rw [hr] at h; cases h
  | unsupported => rw [hr] at h; cases h
  | miss ps' =>
    rw [hr] at h
    simp only [HR.res.injEq] at h
    subst h
    exact Or.inl ⟨ps', rfl, rfl, rfl, rfl, rfl⟩
  | hit n ps' =>
    rw [hr] at h
    simp only at h
    by_cases hsz : n.size = 0
    · rw [if_pos hsz] at h
      simp only [HR.res.injEq] at h
      subst h
      refine Or.inr (Or.inl ⟨n, ps', rfl, ?_, rfl, rfl, rfl, rfl⟩)
      exact List.eq_nil_of_length_eq_zero hsz
    · rw [if_neg hsz] at h
      have hne : n.handlers ≠ [] := fun he => hsz (by simp [Node.size, he])
      refine Or.inr (Or.inr ⟨n, ps', rfl, hne, ?_⟩)
      by_cases hm : method = mNotAllowed
      · rw [if_pos hm] at h
        simp only at h
        cases h405 : n.handlers.get? mNotAllowed with
        | some h' =>
          rw [h405] at h
          simp only [HR.res.injEq] at h
          subst h
          exact ⟨rfl, rfl, by unfold HandlerAgrees; exact ⟨fun hk => (by cases hk), fun _ => ⟨Or.inl hm, by simp [h405]⟩⟩⟩
        | none =>
          rw [h405] at h
          simp only [HR.res.injEq] at h
          subst h
          exact ⟨rfl, rfl, by unfold HandlerAgrees; exact ⟨fun hk => (by cases hk), fun _ => ⟨Or.inl hm, by simp [h405]⟩⟩⟩
      · rw [if_neg hm] at h
        cases hg : n.handlers.get? method with
        | some h' =>
          rw [hg] at h
          simp only [HR.res.injEq] at h
          subst h
          exact ⟨rfl, rfl, by unfold HandlerAgrees; exact ⟨fun _ => ⟨hm, hg⟩, fun hk => (by cases hk)⟩⟩
        | none =>
          rw [hg] at h
          simp only at h
          cases h405 : n.handlers.get? mNotAllowed with
          | some h' =>
            rw [h405] at h
            simp only [HR.res.injEq] at h
            subst h
            exact ⟨rfl, rfl, by unfold HandlerAgrees; exact ⟨fun hk => (by cases hk), fun _ => ⟨Or.inr hg, by simp [h405]⟩⟩⟩
          | none =>
            rw [h405] at h
            simp only [HR.res.injEq] at h
            subst h
            exact ⟨rfl, rfl, by unfold HandlerAgrees; exact ⟨fun hk => (by cases hk), fun _ => ⟨Or.inr hg, by simp [h405]⟩⟩⟩

/-- `Tree.handler` is the TRACE short-circuit or `handlerNoTrace`. -/
theorem Tree.handler_cases (env : Env) (t : Tree) (path : Bytes) (ps : Params) (method : Bytes) :
    (∃ h, t.trace = some h ∧ method = mTRACE ∧
        t.handler env path ps method = .res { node := some t.root, handler := h, ok := true, params := ps }) ∨
    ((t.trace = none ∨ method ≠ mTRACE) ∧
        t.handler env path ps method = Tree.handler.Tree.handlerNoTrace env t path ps method) := by
  unfold Tree.handler
  cases ht : t.trace with
  | none => exact Or.inr ⟨Or.inl rfl, rfl⟩
  | some h =>
    by_cases hm : method = mTRACE
    · exact Or.inl ⟨h, rfl, hm, by simp [hm]⟩
    · exact Or.inr ⟨Or.inr hm, by simp [hm]⟩

theorem Tree.handler_noTrace {env : Env} {t : Tree} {path : Bytes} {ps : Params} {method : Bytes}
    (h : t.trace = none ∨ method ≠ mTRACE) :
    t.handler env path ps method = Tree.handler.Tree.handlerNoTrace env t path ps method := by
  rcases Tree.handler_cases env t path ps method with ⟨h', ht, hm, _⟩ | ⟨_, e⟩
  · rcases h with h | h
    · rw [h] at ht; cases ht
    · exact absurd hm h
  · exact e

theorem Tree.matchRes_of_ne {env : Env} {t : Tree} {path : Bytes} {ps : Params} (h1 : path ≠ []) (h2 : path ≠ [42]) :
    t.matchRes env path ps = t.root.matchChildren env t.ic path ps := by
  unfold Tree.matchRes
  rw [if_neg]
  rintro (h | h)
  · exact h2 h
  · exact h1 h

theorem Tree.matchRes_of_eq {env : Env} {t : Tree} {path : Bytes} {ps : Params} (h : path = [] ∨ path = [42]) :
    t.matchRes env path ps = .hit t.root ps := by
  unfold Tree.matchRes
  rw [if_pos (Or.symm h)]

/-- The hypotheses on the tree and the incoming parameters under which `Tree.handler` tracks the
parameters exactly. -/
structure Tree.Tracks (t : Tree) (ps : Params) : Prop where
  names : NamesOkL ps.keys t.root.children
  idx : Node.All IdxLit t.root

/-- General form of `C01_found` (arbitrary incoming parameters, as `Group` dispatch needs). -/
theorem Tree.handler_found {env : Env} {t : Tree} {path : Bytes} {ps : Params} {method : Bytes} {f : Found} {n : Node}
    (hT : t.Tracks ps) (hp : path ≠ []) (hs : path ≠ [42]) (htr : t.trace = none ∨ method ≠ mTRACE)
    (h : t.handler env path ps method = .res f) (hf : f.node = some n) :
    ∃ chain : List (Seg × Bytes),
      chain ≠ [] ∧ Chain t.root (chain.map (·.1)) n ∧ path = instChain chain ∧
      (∀ sv ∈ chain, sv.1.Satisfies env t.ic sv.2) ∧
      f.params = ps ++ captures chain ∧ n.handlers ≠ [] ∧ HandlerAgrees n method f := by
  rw [Tree.handler_noTrace htr] at h
  rcases handlerNoTrace_res h with ⟨_, _, hnone, _⟩ | ⟨_, _, _, _, hnone, _⟩ | ⟨m, ps', hr, hne, hsome, hps, hag⟩
  · rw [hnone] at hf; cases hf
  · rw [hnone] at hf; cases hf
  · rw [hsome] at hf
    cases hf
    rw [Tree.matchRes_of_ne hp hs] at hr
    obtain ⟨chain, h1, h2, h3, _, h5⟩ := Node.matchChildren_hit hr
    refine ⟨chain, ?_, h1, h2, h3, ?_, hne, hag⟩
    · rintro rfl
      exact hp h2
    · rw [hps]
      exact h5 ps.keys ((Node.namesOk_iff _ _).2 hT.names) hT.idx (fun _ hk => hk)

/-- General form of `C01_404`: a 404 returns the incoming parameters untouched. -/
theorem Tree.handler_404 {env : Env} {t : Tree} {path : Bytes} {ps : Params} {method : Bytes} {f : Found}
    (hT : t.Tracks ps) (h : t.handler env path ps method = .res f) (hf : f.node = none) :
    f.params = ps ∧ f.handler = t.notFound ∧ f.ok = false := by
  rcases Tree.handler_cases env t path ps method with ⟨h', _, _, e⟩ | ⟨_, e⟩
  · rw [e] at h
    simp only [HR.res.injEq] at h
    subst h
    cases hf
  · rw [e] at h
    rcases handlerNoTrace_res h with ⟨ps', hr, _, hh, hok, hps⟩ | ⟨m, ps', hr, hnil, _, hh, hok, hps⟩ |
        ⟨m, ps', _, _, hsome, _⟩
    · refine ⟨?_, hh, hok⟩
      rw [hps]
      by_cases hpath : path = [] ∨ path = [42]
      · rw [Tree.matchRes_of_eq hpath] at hr; cases hr
      · rw [Tree.matchRes_of_ne (fun h => hpath (Or.inl h)) (fun h => hpath (Or.inr h))] at hr
        exact Node.matchChildren_miss hr ((Node.namesOk_iff _ _).2 hT.names) hT.idx (fun _ hk => hk)
    · refine ⟨?_, hh, hok⟩
      rw [hps]
      by_cases hpath : path = [] ∨ path = [42]
      · rw [Tree.matchRes_of_eq hpath] at hr
        cases hr; rfl
      · rw [Tree.matchRes_of_ne (fun h => hpath (Or.inl h)) (fun h => hpath (Or.inr h))] at hr
        obtain ⟨_, _, _, _, h4, _⟩ := Node.matchChildren_hit hr
        exact absurd hnil h4
    · rw [hsome] at hf; cases hf

/-- `""` and `*` address the root: no matching happens, the parameters are returned as they came. -/
theorem Tree.handler_root {env : Env} {t : Tree} {path : Bytes} {ps : Params} {method : Bytes} {f : Found}
    (hpath : path = [] ∨ path = [42]) (h : t.handler env path ps method = .res f) :
    f.params = ps ∧ (f.node = some t.root ∨ (f.node = none ∧ t.root.handlers = [])) ∧
    (t.root.handlers ≠ [] → f.node = some t.root) := by
  rcases Tree.handler_cases env t path ps method with ⟨h', _, _, e⟩ | ⟨_, e⟩
  · rw [e] at h
    simp only [HR.res.injEq] at h
    subst h
    exact ⟨rfl, Or.inl rfl, fun _ => rfl⟩
  · rw [e] at h
    rcases handlerNoTrace_res h with ⟨ps', hr, _⟩ | ⟨m, ps', hr, hnil, hnone, _, _, hps⟩ |
        ⟨m, ps', hr, hne, hsome, hps, _⟩
    · rw [Tree.matchRes_of_eq hpath] at hr; cases hr
    · rw [Tree.matchRes_of_eq hpath] at hr
      cases hr
      exact ⟨hps, Or.inr ⟨hnone, hnil⟩, fun hne => absurd hnil hne⟩
    · rw [Tree.matchRes_of_eq hpath] at hr
      cases hr
      exact ⟨hps, Or.inl hsome, fun _ => hsome⟩

end Mux
