/-
  Mux.Proofs.HostsLateStruct — the table-free part of the structural invariant (`SX`: children ordered by kind,
  the first-byte index is the one `buildIndexes` computes) is kept by `getNode` run with ANY interceptor table on a
  tree whose segments were parsed under any tables.  Consequence: `IdxLit` (the index only points to literal
  children), the second hypothesis of the matcher-soundness theorems.

  Where `Mux/Proofs/StructGetNode.lean` identifies the child found by `childPos` through "same text ⇒ same segment"
  (true for ONE table), here it is identified through the duplicate-text check of `sortNode`.
-/
import Mux.Proofs.HostsLateNames
import Mux.Proofs.StructCons
namespace Mux.P17
open Mux Mux.P8 Mux.P9

/-- I-sort and I-index of one node. -/
structure SX (n : Node) : Prop where
  sorted : RankSorted n.children
  index : buildIndexes n.children = .ok n.indexes

theorem SX.closed : Closed SX where
  congr := fun h _ hi hs =>
    ⟨(rankSorted_iff_map _).2 (by rw [hs]; exact (rankSorted_iff_map _).1 h.sorted),
      by rw [hi, buildIndexes_congr hs]; exact h.index⟩
  sublist := fun h _ hs hi => ⟨h.sorted.of_map_sublist hs, hi⟩
  empty := fun _ _ _ _ => ⟨by simp [RankSorted], by simp [buildIndexes, indexesSize]⟩

theorem SX.idxLit {n : Node} (h : SX n) : IdxLit n := by
  by_cases hne : n.indexes = []
  · exact IdxLit.of_nil hne
  apply IdxLit.of_positions
  intro i hi c hc
  have hent := buildIndexes_entries h.index
  rcases List.mem_cons.1 hi with rfl | hi
  · obtain ⟨e, he⟩ := List.exists_mem_of_ne_nil _ hne
    obtain ⟨c', hc', hk, _⟩ := hent e he
    exact kind_str_of_rank_le (h.sorted.getElem_le (Nat.zero_le _) hc hc') hk
  · obtain ⟨e, he, rfl⟩ := List.mem_map.1 hi
    obtain ⟨c', hc', hk, _⟩ := hent e he
    rw [hc] at hc'
    cases hc'
    exact hk

theorem All_idxLit_of_SX : ∀ n : Node, Node.All SX n → Node.All IdxLit n :=
  (AllL_mono (fun _ h => SX.idxLit h)).1

/-! ## `sortNode` -/

theorem SX.of_sortNode {m n1 : Node} (hs : sortNode m = .ok n1) : SX n1 := by
  obtain ⟨idx, hidx, rfl⟩ := sortNode_ok hs
  exact ⟨by simpa [Node.setChildren] using rankSorted_sortChildren m.children,
    by simpa [Node.setChildren] using hidx⟩

theorem pairwise_of_hasDupValues {cs : List Node} (h : hasDupValues cs = false) :
    cs.Pairwise (fun a b => a.seg.value ≠ b.seg.value) := by
  induction cs with
  | nil => exact List.Pairwise.nil
  | cons c cs ih =>
    simp only [hasDupValues, Bool.or_eq_false_iff, List.any_eq_false, decide_eq_true_eq] at h
    rw [List.pairwise_cons]
    exact ⟨fun d hd e => h.1 d hd e.symm, ih h.2⟩

theorem sortNode_nodup {m n1 : Node} (hs : sortNode m = .ok n1) : hasDupValues m.children = false := by
  unfold sortNode at hs
  by_cases hd : hasDupValues m.children = true
  · simp [hd, bind, Except.bind, throw, throwThe, MonadExceptOf.throw] at hs
  · simpa using hd

/-- After `sortNode`, the child found under a text is THE child of the unsorted list with that text. -/
theorem childPos_sortNode {m n1 : Node} (hs : sortNode m = .ok n1) {w : Bytes} {j : Nat}
    (hj : childPos n1.children w = some j) {parent : Node} (hp : parent ∈ m.children) (hpw : parent.seg.value = w) :
    n1.children[j]? = some parent := by
  obtain ⟨d, hd, hdv⟩ := childPos_spec hj
  have hdm : d ∈ m.children := (mem_of_sortNode hs).1 (List.mem_of_getElem? hd)
  have hpw' := pairwise_of_hasDupValues (sortNode_nodup hs)
  have : d = parent := by
    refine Classical.byContradiction fun hne => ?_
    exact pairwise_mem_ne (R := fun a b : Node => a.seg.value ≠ b.seg.value) (fun a b h e => h e.symm) hpw' hdm hp hne
      (hdv.trans hpw.symm)
  rw [hd, this]

/-! ## One restructuring step -/

theorem setSeg_AllSX {c : Node} (s : Seg) (h : Node.All SX c) : Node.All SX (c.setSeg s) := by
  rw [Node.All_iff] at h ⊢
  exact ⟨⟨by simpa using h.1.sorted, by cases c; exact h.1.index⟩, by simpa using h.2⟩

theorem newLeaf_AllSX (pp : Bytes) (s : Seg) : Node.All SX (newLeaf pp s) := by
  simp only [newLeaf, Node.All, AllL, and_true]
  exact ⟨by simp [RankSorted], by simp [buildIndexes, indexesSize]⟩

/-- **One level of `getNode`** on a tree satisfying `SX` everywhere. -/
theorem gnPrep_SX {ic : Interceptors} {n : Node} {v : Bytes} {rest : List Bytes} {s : GStep}
    (hn : Node.All SX n) (h : gnPrep ic n v rest = .ok s) :
    Node.All SX s.n1 ∧ sigc s.n1 = sigc n ∧ s.n1.children[s.j]? = some s.parent ∧ Node.All SX s.parent := by
  unfold gnPrep at h
  simp only [bind, Except.bind, pure, Except.pure, throw, throwThe, MonadExceptOf.throw] at h
  split at h
  · cases h
  rename_i seg hseg
  have hsv : seg.value = v := newSegment_value ic v seg hseg
  split at h
  · -- identical
    rename_i i _
    split at h
    · cases h
    rename_i c hc
    simp only [Except.ok.injEq] at h
    subst h
    exact ⟨hn, rfl, hc, AllL_getElem? hn.tail hc⟩
  · rename_i l b _
    split at h
    · -- a new leaf
      split at h
      · cases h
      rename_i n1 hn1
      split at h
      · cases h
      rename_i j hj
      simp only [Except.ok.injEq] at h
      subst h
      obtain ⟨hch, hsg, hpt⟩ := sortNode_children hn1
      refine ⟨?_, ?_, ?_, newLeaf_AllSX _ _⟩
      · rw [Node.All_iff]
        refine ⟨SX.of_sortNode hn1, ?_⟩
        rw [hch, AllL_sortChildren]
        simp only [setChildren_children]
        exact AllL_append.2 ⟨hn.tail, by simp only [AllL, and_true]; exact newLeaf_AllSX _ _⟩
      · simp only [sigc, hsg, hpt, setChildren_seg, setChildren_pattern]
      · exact childPos_sortNode hn1 hj (by simp) (by simp [newLeaf, hsv])
    · -- a similar child
      split at h
      · cases h
      rename_i c hc
      have hcAll := AllL_getElem? hn.tail hc
      cases hgs : gnSplit ic n c b l.toNat with
      | error e => rw [hgs] at h; cases h
      | ok r3 =>
        obtain ⟨n1, j, parent⟩ := r3
        rw [hgs] at h
        simp only [Except.ok.injEq] at h
        subst h
        unfold gnSplit at hgs
        simp only [bind, Except.bind, pure, Except.pure, throw, throwThe, MonadExceptOf.throw] at hgs
        split at hgs
        · -- no split
          simp only [Except.ok.injEq, Prod.mk.injEq] at hgs
          obtain ⟨rfl, rfl, rfl⟩ := hgs
          exact ⟨hn, rfl, hc, hcAll⟩
        · split at hgs
          · cases hgs
          rename_i ss hss
          obtain ⟨s1, s2⟩ := ss
          simp only [] at hgs
          cases hret : sortNode (Node.mk s1 (n.pattern ++ s1.value) 0 [] [] [c.setSeg s2]) with
          | error e => rw [hret] at hgs; cases hgs
          | ok ret =>
            rw [hret] at hgs
            simp only [] at hgs
            cases hn1' : sortNode (n.setChildren (removeNodes n.children c.seg.value ++ [ret]) n.indexes) with
            | error e => rw [hn1'] at hgs; cases hgs
            | ok n1' =>
              rw [hn1'] at hgs
              simp only [] at hgs
              split at hgs
              · cases hgs
              rename_i j' hj
              simp only [Except.ok.injEq, Prod.mk.injEq] at hgs
              obtain ⟨rfl, rfl, rfl⟩ := hgs
              obtain ⟨hrch, hrsg, _⟩ := sortNode_children hret
              have hretAll : Node.All SX ret := by
                rw [Node.All_iff]
                refine ⟨SX.of_sortNode hret, ?_⟩
                rw [hrch, AllL_sortChildren]
                simp only [Node.children_mk, AllL, and_true]
                exact setSeg_AllSX s2 hcAll
              obtain ⟨hch, hsg, hpt⟩ := sortNode_children hn1'
              refine ⟨?_, ?_, ?_, hretAll⟩
              · rw [Node.All_iff]
                refine ⟨SX.of_sortNode hn1', ?_⟩
                rw [hch, AllL_sortChildren]
                simp only [setChildren_children]
                exact AllL_append.2 ⟨AllL_removeNodes _ hn.tail, by simp only [AllL, and_true]; exact hretAll⟩
              · simp only [sigc, hsg, hpt, setChildren_seg, setChildren_pattern]
              · exact childPos_sortNode hn1' hj (by simp) (by rw [show ret.seg = s1 by simpa using hrsg])

/-- **`getNode` keeps `SX` on the whole subtree**, and the `(seg, pattern)` of the node it is called on. -/
theorem getNode_SX (ic : Interceptors) (n : Node) (v : Bytes) (rest : List Bytes) :
    ∀ r, Node.All SX n → getNode ic n v rest = .ok r → Node.All SX r.1 ∧ sigc r.1 = sigc n := by
  induction n, v, rest using getNode_induction ic with
  | step n v rest ih =>
    intro r hn hget
    rw [getNode_eq] at hget
    cases hprep : gnPrep ic n v rest with
    | error e => rw [hprep] at hget; cases hget
    | ok s =>
      rw [hprep] at hget
      simp only [gnFinish] at hget
      obtain ⟨h1, h2, h3, h4⟩ := gnPrep_SX hn hprep
      cases hcont : s.cont with
      | none =>
        rw [hcont] at hget
        simp only [pure, Except.pure, Except.ok.injEq] at hget
        subst hget
        exact ⟨h1, h2⟩
      | some vr =>
        obtain ⟨v', rest'⟩ := vr
        rw [hcont] at hget
        simp only [bind, Except.bind, pure, Except.pure] at hget
        cases hrec : getNode ic s.parent v' rest' with
        | error e => rw [hrec] at hget; cases hget
        | ok r' =>
          rw [hrec] at hget
          simp only [Except.ok.injEq] at hget
          subst hget
          obtain ⟨hp1, hp2⟩ := ih s v' rest' hprep hcont r' h4 hrec
          refine ⟨?_, ?_⟩
          · rw [Node.All_iff]
            refine ⟨SX.closed.congr h1.head (by simp) (by simp) ?_, ?_⟩
            · simp only [setChildren_children]
              exact map_sigc_set h3 hp2
            · simpa using AllL_set h1.tail hp1
          · simpa [sigc] using h2

end Mux.P17
