/-
  Mux.Proofs.ParseInt — the remaining cases of the specification of `parseInt` (`strconv.ParseInt(s, 10, 64)`):
  range errors, syntax errors, and the specification as a function.  (`parseInt_ok` is in `Mux/Proofs/Params.lean`.)
-/
import Mux.Proofs.Params
namespace Mux

/-! ## `ParseInt`, complete -/

/-- `s` is `ds` with an optional sign: `ds`, `-ds` (`neg`), or `+ds`. -/
def Signed (s : Bytes) (neg : Bool) (ds : Bytes) : Prop :=
  s = (if neg then [45] else []) ++ ds ∨ (neg = false ∧ s = 43 :: ds)

/-- Every non-empty string splits into a sign and a body on which `parseInt` runs `parseIntBody`. -/
theorem parseInt_split (s : Bytes) (hs : s ≠ []) : ∃ neg ds, Signed s neg ds ∧ parseInt s = parseIntBody neg ds := by
  cases s with
  | nil => exact absurd rfl hs
  | cons c rest =>
    rw [parseInt_cons]
    by_cases h1 : c = 43
    · subst h1; exact ⟨false, rest, .inr ⟨rfl, rfl⟩, by simp⟩
    · by_cases h2 : c = 45
      · subst h2; exact ⟨true, rest, .inl (by simp), by simp⟩
      · exact ⟨false, c :: rest, .inl (by simp), by simp [h1, h2]⟩

/-- A signed digit string has ONE reading: `parseInt` computes `parseIntBody` of that very sign and body. -/
theorem parseInt_signed {s : Bytes} {neg : Bool} {ds : Bytes} (h : Signed s neg ds) (hd : allDigits ds) :
    parseInt s = parseIntBody neg ds := by
  obtain ⟨c, cs, rfl⟩ : ∃ c cs, ds = c :: cs := by
    cases ds with
    | nil => exact absurd rfl hd.1
    | cons c cs => exact ⟨c, cs, rfl⟩
  obtain ⟨h43, h45⟩ := allDigits_head hd
  rcases h with h | ⟨hn, h⟩
  · cases neg
    · simp only [Bool.false_eq_true, if_false, List.nil_append] at h
      subst h; rw [parseInt_cons]; simp [h43, h45]
    · simp only [if_true, List.cons_append, List.nil_append] at h
      subst h; rw [parseInt_cons]; simp
  · subst hn; subst h; rw [parseInt_cons]; simp

theorem parseIntBody_syntax (neg : Bool) (ds : Bytes) : parseIntBody neg ds = .syntaxErr ↔ ¬ allDigits ds := by
  unfold parseIntBody
  cases h : digitsVal ds with
  | none => simp [(digitsVal_eq_none_iff ds).mp h]
  | some m =>
    have ha := ((digitsVal_eq_some_iff ds m).mp h).1
    simp only [ha, not_true_eq_false, iff_false]
    split
    · simp
    · split <;> simp

theorem parseIntBody_range (neg : Bool) (ds : Bytes) (v : Int) :
    parseIntBody neg ds = .rangeErr v ↔ allDigits ds ∧
      ((neg = false ∧ (decVal ds : Int) > maxInt64 ∧ v = maxInt64) ∨
       (neg = true ∧ (decVal ds : Int) > -minInt64 ∧ v = minInt64)) := by
  unfold parseIntBody
  cases h : digitsVal ds with
  | none => simp [(digitsVal_eq_none_iff ds).mp h]
  | some m =>
    obtain ⟨ha, hv⟩ := (digitsVal_eq_some_iff ds m).mp h
    subst hv
    simp only [ha, true_and]
    cases neg
    · simp only [Bool.false_eq_true, not_false_eq_true, true_and, false_and, if_false, or_false]
      by_cases hgt : (decVal ds : Int) > maxInt64
      · simp only [hgt, if_true, Acc.rangeErr.injEq, true_and]; exact eq_comm
      · simp [hgt]
    · simp only [not_true_eq_false, false_and, if_false, true_and, Bool.true_eq_false, false_or]
      by_cases hgt : (decVal ds : Int) > -minInt64
      · simp only [hgt, if_true, Acc.rangeErr.injEq, true_and]; exact eq_comm
      · simp [hgt]

/-- parseInt_range**: `ParseInt` answers a range error with value `v` exactly for the optionally signed
non-empty digit strings whose value does not fit into `int64`; `v` is the bound on the side of the sign (what
`strconv` returns together with `ErrRange`). -/
theorem parseInt_range (s : Bytes) (v : Int) :
    parseInt s = .rangeErr v ↔
      ∃ neg ds, (s = (if neg then [45] else []) ++ ds ∨ (neg = false ∧ s = 43 :: ds)) ∧ allDigits ds ∧
        ((neg = false ∧ (decVal ds : Int) > maxInt64 ∧ v = maxInt64) ∨
         (neg = true ∧ (decVal ds : Int) > -minInt64 ∧ v = minInt64)) := by
  constructor
  · intro h
    have hs : s ≠ [] := by rintro rfl; simp [parseInt] at h
    obtain ⟨neg, ds, hsig, heq⟩ := parseInt_split s hs
    rw [heq, parseIntBody_range] at h
    exact ⟨neg, ds, hsig, h.1, h.2⟩
  · rintro ⟨neg, ds, hsig, hd, hv⟩
    rw [parseInt_signed hsig hd, parseIntBody_range]
    exact ⟨hd, hv⟩

/-- parseInt_syntax**: `ParseInt` answers a syntax error exactly for the strings that are NOT an optionally
signed non-empty decimal digit string (the empty string, a lone sign, any other byte anywhere, two signs, …). -/
theorem parseInt_syntax (s : Bytes) :
    parseInt s = .syntaxErr ↔
      ¬ ∃ neg ds, (s = (if neg then [45] else []) ++ ds ∨ (neg = false ∧ s = 43 :: ds)) ∧ allDigits ds := by
  constructor
  · rintro h ⟨neg, ds, hsig, hd⟩
    rw [parseInt_signed hsig hd, parseIntBody_syntax] at h
    exact h hd
  · intro h
    by_cases hs : s = []
    · subst hs; rfl
    · obtain ⟨neg, ds, hsig, heq⟩ := parseInt_split s hs
      rw [heq, parseIntBody_syntax]
      exact fun hd => h ⟨neg, ds, hsig, hd⟩

/-- `ParseInt` itself never answers "not exists" (that is the accessor's answer for an absent key). -/
theorem parseInt_ne_notExists (s : Bytes) : parseInt s ≠ .notExists := by
  by_cases hs : s = []
  · subst hs; simp [parseInt]
  · obtain ⟨neg, ds, _, heq⟩ := parseInt_split s hs
    rw [heq]; unfold parseIntBody
    split
    · simp
    · split
      · simp
      · split <;> simp

/-- parseInt_value**: the specification as a function.  On an optionally signed non-empty digit string with
signed value `x`, `ParseInt` returns `x` if `minInt64 ≤ x ≤ maxInt64`, and otherwise the range error with the bound
nearest to `x`; on every other string the syntax error.  (`C20_parseInt_ok/_range/_syntax` are its three inverses.) -/
theorem parseInt_value (s : Bytes) :
    (∀ neg ds, (s = (if neg then [45] else []) ++ ds ∨ (neg = false ∧ s = 43 :: ds)) → allDigits ds →
      let x : Int := if neg then -(decVal ds : Int) else (decVal ds : Int)
      parseInt s = if x > maxInt64 then .rangeErr maxInt64 else if x < minInt64 then .rangeErr minInt64 else .ok x) ∧
    ((¬ ∃ neg ds, (s = (if neg then [45] else []) ++ ds ∨ (neg = false ∧ s = 43 :: ds)) ∧ allDigits ds) →
      parseInt s = .syntaxErr) := by
  refine ⟨?_, (parseInt_syntax s).2⟩
  intro neg ds hsig hd x
  rw [parseInt_signed hsig hd]
  unfold parseIntBody
  rw [digitsVal_of_allDigits hd]
  have hnn : (0 : Int) ≤ (decVal ds : Int) := Int.natCast_nonneg _
  cases neg
  · simp only [Bool.false_eq_true, not_false_eq_true, true_and, false_and, if_false, x]
    by_cases hgt : (decVal ds : Int) > maxInt64
    · simp [hgt]
    · have : ¬ (decVal ds : Int) < minInt64 := by unfold minInt64; omega
      simp [hgt, this]
  · simp only [not_true_eq_false, false_and, if_false, true_and, if_true, x]
    have h1 : ¬ (-(decVal ds : Int) > maxInt64) := by unfold maxInt64; omega
    by_cases hgt : (decVal ds : Int) > -minInt64
    · have : -(decVal ds : Int) < minInt64 := by omega
      simp [hgt, h1, this]
    · have : ¬ -(decVal ds : Int) < minInt64 := by omega
      simp [hgt, h1, this]


end Mux
