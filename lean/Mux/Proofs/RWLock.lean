/-
  Mux.Proofs.RWLock — an abstract small-step semantics of threads that run API operations, each as
  ONE critical section of a readers/writer lock, and the two generic theorems of C06/C07:

  * `lockInv_reachable` / `drf`      — data-race freedom: two threads are inside their critical
    sections at the same time only if both hold the lock in read mode, so their next
    micro-accesses never conflict;
  * `atomic_reachable` and corollaries — linearizability: the shared state is the fold of the writer
    operations in lock-acquisition order, every published response is the sequential response
    in the state after a prefix of that order lying between the operation's invocation and its
    return, and the order is consistent with real time.

  Both are proved once: for any system `S`, any number of threads (threads are indexed by `Nat`;
  a thread whose program is `[]` never moves, so `N` threads are the special case `progs i = []`
  for `i ≥ N`; infinitely many active threads are covered as well) and any scheduler (the step
  relation lets ANY enabled thread move).

  What is trusted and not modelled (DESIGN §10): `sync.RWMutex` implements the lock below; and the
  step from "data-race free" to "a critical section behaves as if it was executed atomically at
  one instant while the lock is held" is the DRF-SC guarantee of the Go memory model.  The
  semantics below builds that guarantee in: the `commit` step applies the sequential meaning
  `sem op` of the operation to the shared state at one (arbitrary) instant between `acquire` and
  `release`, while the micro-accesses (`access` steps) only serve to state race freedom.

  The side condition "every API call is one critical section of the right mode, and reads/writes
  only inside it" is what `Mux.Ties.C06_discipline` / `C06_modes` check on the regenerated facts.
-/
namespace Mux.RWLock

/-! ## Systems -/

/-- A shared state, a set of API operations with a lock mode (`true` = writer), their sequential
meaning, and the micro-accesses (location, is-write) each performs inside its critical section.
Reader operations neither change the state nor perform write accesses. -/
structure Sys where
  σ : Type
  Op : Type
  Resp : Type
  Loc : Type
  mode : Op → Bool
  sem : Op → σ → σ × Resp
  accs : Op → List (Loc × Bool)
  reader_pure : ∀ op s, mode op = false → (sem op s).1 = s
  reader_accs : ∀ op, mode op = false → ∀ a ∈ accs op, a.2 = false

/-- Sequential run of a list of operations (only the state). -/
def run (S : Sys) (s : S.σ) (ops : List S.Op) : S.σ := ops.foldl (fun s op => (S.sem op s).1) s

theorem run_append (S : Sys) (s : S.σ) (a b : List S.Op) : run S s (a ++ b) = run S (run S s a) b := by
  simp [run]

/-! ## The lock -/

inductive Lock where
  | free
  | readers (n : Nat)
  | writer (i : Nat)
  deriving DecidableEq, Repr

/-- `RLock` is enabled iff the lock is free or read-held; `Lock` iff it is free. -/
def Lock.canAcq : Lock → Bool → Bool
  | .free, _ => true
  | .readers _, false => true
  | _, _ => false

def Lock.acq : Lock → Bool → Nat → Lock
  | .free, true, i => .writer i
  | .free, false, _ => .readers 1
  | .readers n, false, _ => .readers (n + 1)
  | l, _, _ => l

/-- `Unlock` frees the lock, `RUnlock` decrements the reader count. -/
def Lock.rel : Lock → Bool → Lock
  | .readers (n + 2), false => .readers (n + 1)
  | _, _ => .free

/-! ## Configurations -/

/-- An invoked operation with two ghost stamps taken at invocation: how many writer operations had
taken effect, and the global clock. -/
structure Call (S : Sys) where
  op : S.Op
  start : Nat
  tStart : Nat

/-- Where a thread is in its current operation. `inside v todo lp`: holds the lock for `v.op`,
`todo` are the micro-accesses still to perform, `lp = some (resp, k)` once the linearization point
has passed (ghost `k` = number of writer operations that had taken effect before it). -/
inductive Phase (S : Sys) where
  | idle
  | waiting (v : Call S)
  | inside (v : Call S) (todo : List (S.Loc × Bool)) (lp : Option (S.Resp × Nat))

/-- `some m`: the thread is inside a critical section of mode `m`. -/
def Phase.held {S : Sys} : Phase S → Option Bool
  | .inside v _ _ => some (S.mode v.op)
  | _ => none

/-- The operation in flight, if any. -/
def Phase.call? {S : Sys} : Phase S → Option (Call S)
  | .idle => none
  | .waiting v => some v
  | .inside v _ _ => some v

/-- The next micro-access of a thread: defined only inside a critical section. -/
def Phase.next? {S : Sys} : Phase S → Option (S.Loc × Bool)
  | .inside _ (a :: _) _ => some a
  | _ => none

structure Thread (S : Sys) where
  prog : List S.Op
  ph : Phase S

/-- Ghost record of a completed operation: thread, call, published response, `lin` = number of
writer operations that had taken effect at its linearization point, `fin` = the same number at its
return, `tEnd` = clock at its return. -/
structure Rec (S : Sys) where
  tid : Nat
  call : Call S
  resp : S.Resp
  lin : Nat
  fin : Nat
  tEnd : Nat

structure Config (S : Sys) where
  st : S.σ
  lock : Lock
  thr : Nat → Thread S
  /-- ghost: writer operations in the order in which they took effect -/
  wlog : List S.Op
  /-- ghost: writer operations in the order in which they acquired the lock -/
  wacq : List S.Op
  /-- ghost: completed operations in the order of their return -/
  done : List (Rec S)
  /-- ghost: global clock, one tick per step -/
  now : Nat

def upd {α : Type} (f : Nat → α) (i : Nat) (x : α) : Nat → α := fun j => if j = i then x else f j

@[simp] theorem upd_same {α : Type} (f : Nat → α) (i : Nat) (x : α) : upd f i x i = x := by simp [upd]
theorem upd_other {α : Type} (f : Nat → α) (i j : Nat) (x : α) (h : j ≠ i) : upd f i x j = f j := by simp [upd, h]

variable {S : Sys}

def Config.init (s0 : S.σ) (progs : Nat → List S.Op) : Config S :=
  { st := s0, lock := .free, thr := fun i => ⟨progs i, .idle⟩, wlog := [], wacq := [], done := [], now := 0 }

/-- One step of one thread; the scheduler is arbitrary (any thread whose step is enabled may move). -/
inductive Step : Config S → Config S → Prop where
  /-- the API call starts (it may then have to wait for the lock) -/
  | invoke (c : Config S) (i : Nat) (op : S.Op) (rest : List S.Op)
      (h : c.thr i = ⟨op :: rest, .idle⟩) :
      Step c { c with thr := upd c.thr i ⟨rest, .waiting ⟨op, c.wlog.length, c.now⟩⟩, now := c.now + 1 }
  /-- `RLock`/`Lock` according to the mode of the operation; enabled only if the lock admits it -/
  | acquire (c : Config S) (i : Nat) (p : List S.Op) (v : Call S)
      (h : c.thr i = ⟨p, .waiting v⟩) (en : c.lock.canAcq (S.mode v.op) = true) :
      Step c { c with lock := c.lock.acq (S.mode v.op) i,
                      thr := upd c.thr i ⟨p, .inside v (S.accs v.op) none⟩,
                      wacq := if S.mode v.op then c.wacq ++ [v.op] else c.wacq,
                      now := c.now + 1 }
  /-- one micro-access inside the critical section -/
  | access (c : Config S) (i : Nat) (p : List S.Op) (v : Call S) (a : S.Loc × Bool) (todo : List (S.Loc × Bool))
      (lp : Option (S.Resp × Nat)) (h : c.thr i = ⟨p, .inside v (a :: todo) lp⟩) :
      Step c { c with thr := upd c.thr i ⟨p, .inside v todo lp⟩, now := c.now + 1 }
  /-- the linearization point: at some instant while the lock is held the operation takes effect -/
  | commit (c : Config S) (i : Nat) (p : List S.Op) (v : Call S) (todo : List (S.Loc × Bool))
      (h : c.thr i = ⟨p, .inside v todo none⟩) :
      Step c { c with st := (S.sem v.op c.st).1,
                      thr := upd c.thr i ⟨p, .inside v todo (some ((S.sem v.op c.st).2, c.wlog.length))⟩,
                      wlog := if S.mode v.op then c.wlog ++ [v.op] else c.wlog,
                      now := c.now + 1 }
  /-- `RUnlock`/`Unlock`; the response is published -/
  | release (c : Config S) (i : Nat) (p : List S.Op) (v : Call S) (r : S.Resp) (k : Nat)
      (h : c.thr i = ⟨p, .inside v [] (some (r, k))⟩) :
      Step c { c with lock := c.lock.rel (S.mode v.op),
                      thr := upd c.thr i ⟨p, .idle⟩,
                      done := c.done ++ [⟨i, v, r, k, c.wlog.length, c.now⟩],
                      now := c.now + 1 }

inductive Reachable (s0 : S.σ) (progs : Nat → List S.Op) : Config S → Prop where
  | init : Reachable s0 progs (Config.init s0 progs)
  | step {c c' : Config S} : Reachable s0 progs c → Step c c' → Reachable s0 progs c'

/-! ## Data-race freedom -/

/-- The lock state describes exactly who is inside: `free` — nobody; `writer i` — thread `i`, in
write mode, and nobody else; `readers n` — exactly `n ≥ 1` threads (the list `ins` enumerates them
without repetition), all in read mode.  And a thread in read mode has only reads left to do. -/
def LockInv (c : Config S) : Prop :=
  (∀ j v todo lp, (c.thr j).ph = .inside v todo lp → S.mode v.op = false → ∀ a ∈ todo, a.2 = false) ∧
  match c.lock with
  | .free => ∀ j, (c.thr j).ph.held = none
  | .writer i => (c.thr i).ph.held = some true ∧ ∀ j, j ≠ i → (c.thr j).ph.held = none
  | .readers n => 0 < n ∧ (∃ ins : List Nat, ins.Nodup ∧ ins.length = n ∧ ∀ j, j ∈ ins ↔ (c.thr j).ph.held = some false) ∧
      ∀ j, (c.thr j).ph.held ≠ some true

theorem optBool_cases (o : Option Bool) : o = none ∨ o = some false ∨ o = some true := by
  cases o with
  | none => simp
  | some b => cases b <;> simp

theorem lockInv_init (s0 : S.σ) (progs : Nat → List S.Op) : LockInv (Config.init s0 progs) := by
  simp [LockInv, Config.init, Phase.held]

theorem lockInv_step {c c' : Config S} (hinv : LockInv c) (hs : Step c c') : LockInv c' := by
  obtain ⟨hT, hL⟩ := hinv
  cases hs with
  | invoke i op rest h =>
    dsimp only [LockInv]
    refine ⟨?_, ?_⟩
    · intro j v todo lp hj
      by_cases hji : j = i
      · subst hji; simp at hj
      · rw [upd_other _ _ _ _ hji] at hj; exact hT j v todo lp hj
    · have hh : ∀ j, ((upd c.thr i ⟨rest, .waiting ⟨op, c.wlog.length, c.now⟩⟩) j).ph.held = (c.thr j).ph.held := by
        intro j
        by_cases hji : j = i
        · subst hji; simp [h, Phase.held]
        · rw [upd_other _ _ _ _ hji]
      simp only [hh]
      exact hL
  | acquire i p v h en =>
    dsimp only [LockInv]
    have hra := S.reader_accs v.op
    refine ⟨?_, ?_⟩
    · grind [upd]
    · cases hl : c.lock <;> cases hm : S.mode v.op <;> simp only [hl, hm, Lock.canAcq, Lock.acq] at en hL ⊢
      · refine ⟨by omega, ⟨[i], ?_⟩, ?_⟩ <;> grind [upd, Phase.held]
      · grind [upd, Phase.held]
      · obtain ⟨hn, ⟨ins, h1, h2, h3⟩, h4⟩ := hL
        refine ⟨by omega, ⟨i :: ins, ?_⟩, ?_⟩ <;> grind [upd, Phase.held]
      all_goals simp at en
  | access i p v a todo lp h =>
    dsimp only [LockInv]
    refine ⟨?_, ?_⟩
    · grind [upd]
    · cases hl : c.lock <;> simp only [hl] at hL ⊢
      · grind [upd, Phase.held]
      · obtain ⟨hn, ⟨ins, h1, h2, h3⟩, h4⟩ := hL
        refine ⟨hn, ⟨ins, ?_⟩, ?_⟩ <;> grind [upd, Phase.held]
      · grind [upd, Phase.held]
  | commit i p v todo h =>
    dsimp only [LockInv]
    refine ⟨?_, ?_⟩
    · grind [upd]
    · cases hl : c.lock <;> simp only [hl] at hL ⊢
      · grind [upd, Phase.held]
      · obtain ⟨hn, ⟨ins, h1, h2, h3⟩, h4⟩ := hL
        refine ⟨hn, ⟨ins, ?_⟩, ?_⟩ <;> grind [upd, Phase.held]
      · grind [upd, Phase.held]
  | release i p v r k h =>
    dsimp only [LockInv]
    refine ⟨?_, ?_⟩
    · grind [upd]
    · cases hl : c.lock <;> simp only [hl] at hL ⊢
      · grind [upd, Phase.held, Lock.rel]
      · obtain ⟨hn, ⟨ins, h1, h2, h3⟩, h4⟩ := hL
        have hm : S.mode v.op = false := by grind [Phase.held]
        have hi : i ∈ ins := by grind [Phase.held]
        rename_i n
        match n, hn with
        | 1, _ =>
          simp only [Lock.rel]
          have : ∀ j, j ∈ ins → j = i := by
            intro j hj
            match ins, h2, hi, hj with
            | [x], _, hi, hj => simp at hi hj; omega
          intro j
          have := optBool_cases (c.thr j).ph.held
          grind [upd, Phase.held]
        | n + 2, _ =>
          simp only [hm, Lock.rel]
          refine ⟨by omega, ⟨ins.erase i, ?_⟩, ?_⟩
          · refine ⟨h1.erase i, by simp [List.length_erase_of_mem hi, h2], ?_⟩
            intro j
            rw [h1.mem_erase_iff]
            grind [upd, Phase.held]
          · grind [upd, Phase.held]
      · grind [upd, Phase.held, Lock.rel]

theorem lockInv_reachable {s0 : S.σ} {progs : Nat → List S.Op} {c : Config S}
    (h : Reachable s0 progs c) : LockInv c := by
  induction h with
  | init => exact lockInv_init s0 progs
  | step _ hs ih => exact lockInv_step ih hs

/-- A write-mode holder is alone, and the lock says so. -/
theorem LockInv.of_writer {c : Config S} (h : LockInv c) {i : Nat} (hi : (c.thr i).ph.held = some true) :
    c.lock = .writer i ∧ ∀ j, j ≠ i → (c.thr j).ph.held = none := by
  obtain ⟨_, hL⟩ := h
  cases hl : c.lock <;> simp only [hl] at hL
  · grind
  · grind
  · rename_i k
    by_cases hik : i = k
    · subst hik; exact ⟨rfl, hL.2⟩
    · grind

/-- While a reader is inside, the lock is read-held and nobody is inside in write mode. -/
theorem LockInv.of_reader {c : Config S} (h : LockInv c) {i : Nat} (hi : (c.thr i).ph.held = some false) :
    (∃ n, c.lock = .readers n) ∧ ∀ j, (c.thr j).ph.held ≠ some true := by
  obtain ⟨_, hL⟩ := h
  cases hl : c.lock <;> simp only [hl] at hL
  · grind
  · exact ⟨⟨_, rfl⟩, hL.2.2⟩
  · grind

/-- Two micro-accesses conflict: same location and at least one of them writes. -/
def Conflict (a b : S.Loc × Bool) : Prop := a.1 = b.1 ∧ (a.2 = true ∨ b.2 = true)

/-- **Mutual exclusion.** Two distinct threads are inside their critical sections at the same time
only if both are readers. -/
theorem drf_modes {s0 : S.σ} {progs : Nat → List S.Op} {c : Config S} (h : Reachable s0 progs c)
    {i j : Nat} (hij : i ≠ j) {mi mj : Bool}
    (hi : (c.thr i).ph.held = some mi) (hj : (c.thr j).ph.held = some mj) : mi = false ∧ mj = false := by
  have hinv := lockInv_reachable h
  cases mi with
  | true => have := (hinv.of_writer hi).2 j (Ne.symm hij); simp [hj] at this
  | false =>
    cases mj with
    | true => have := (hinv.of_writer hj).2 i hij; simp [hi] at this
    | false => exact ⟨rfl, rfl⟩

/-- **Data-race freedom.** In no reachable configuration do two distinct threads have conflicting
next micro-accesses. -/
theorem drf {s0 : S.σ} {progs : Nat → List S.Op} {c : Config S} (h : Reachable s0 progs c)
    {i j : Nat} (hij : i ≠ j) {a b : S.Loc × Bool}
    (hi : (c.thr i).ph.next? = some a) (hj : (c.thr j).ph.next? = some b) : ¬ Conflict a b := by
  have hinv := lockInv_reachable h
  have key : ∀ (k : Nat) (x : S.Loc × Bool), (c.thr k).ph.next? = some x →
      ∃ v todo lp, (c.thr k).ph = .inside v (x :: todo) lp := by
    intro k x hk
    cases hp : (c.thr k).ph with
    | idle => simp [hp, Phase.next?] at hk
    | waiting v => simp [hp, Phase.next?] at hk
    | inside v todo lp =>
      cases todo with
      | nil => simp [hp, Phase.next?] at hk
      | cons y ys => simp [hp, Phase.next?] at hk; subst hk; exact ⟨v, ys, lp, rfl⟩
  obtain ⟨vi, ti, li, hpi⟩ := key i a hi
  obtain ⟨vj, tj, lj, hpj⟩ := key j b hj
  have hm := drf_modes h hij (mi := S.mode vi.op) (mj := S.mode vj.op) (by simp [hpi, Phase.held]) (by simp [hpj, Phase.held])
  have ha := hinv.1 i vi _ li hpi hm.1 a (by simp)
  have hb := hinv.1 j vj _ lj hpj hm.2 b (by simp)
  simp [Conflict, ha, hb]

/-! ## Atomicity (linearizability under the lock discipline) -/

/-- The completed writer operations, in the order of their return. -/
def Config.doneW (c : Config S) : List S.Op := (c.done.filter (fun r => S.mode r.call.op)).map (·.call.op)

/-- What is known about a completed operation, relative to the writer order `wlog`. -/
structure RecOK (s0 : S.σ) (wlog : List S.Op) (now : Nat) (r : Rec S) : Prop where
  start_le : r.call.start ≤ r.lin
  lin_le : r.lin ≤ r.fin
  fin_le : r.fin ≤ wlog.length
  resp_eq : r.resp = (S.sem r.call.op (run S s0 (wlog.take r.lin))).2
  writer : S.mode r.call.op = true → wlog[r.lin]? = some r.call.op ∧ r.fin = r.lin + 1
  reader : S.mode r.call.op = false → r.fin = r.lin
  time : r.call.tStart < r.tEnd ∧ r.tEnd < now

/-- What is known about an operation in flight. -/
def PhaseOK (s0 : S.σ) (wlog : List S.Op) (now : Nat) : Phase S → Prop
  | .idle => True
  | .waiting v => v.start ≤ wlog.length ∧ v.tStart < now
  | .inside v _ none => v.start ≤ wlog.length ∧ v.tStart < now
  | .inside v _ (some (r, k)) => v.start ≤ k ∧ v.tStart < now ∧
      r = (S.sem v.op (run S s0 (wlog.take k))).2 ∧
      (S.mode v.op = true → k + 1 = wlog.length ∧ wlog[k]? = some v.op) ∧
      (S.mode v.op = false → k = wlog.length)

/-- Acquisition order = effect order = return order for writers, up to the one writer inside. -/
def LogInv (c : Config S) : Prop :=
  match c.lock with
  | .writer i => ∀ v todo lp, (c.thr i).ph = .inside v todo lp →
      match lp with
      | none => c.wacq = c.wlog ++ [v.op] ∧ c.wlog = c.doneW
      | some _ => c.wacq = c.wlog ∧ c.wlog = c.doneW ++ [v.op]
  | _ => c.wacq = c.wlog ∧ c.wlog = c.doneW

/-- Real time: an operation that returned before another one was invoked has all its effects
counted in the other's start stamp. -/
def RTInv (c : Config S) : Prop :=
  ∀ A ∈ c.done, (∀ B ∈ c.done, A.tEnd ≤ B.call.tStart → A.fin ≤ B.call.start) ∧
    ∀ j v, (c.thr j).ph.call? = some v → A.tEnd ≤ v.tStart → A.fin ≤ v.start

structure AtomicInv (s0 : S.σ) (c : Config S) : Prop where
  lock : LockInv c
  state : c.st = run S s0 c.wlog
  log : LogInv c
  phase : ∀ j, PhaseOK s0 c.wlog c.now (c.thr j).ph
  recs : ∀ r ∈ c.done, RecOK s0 c.wlog c.now r
  rt : RTInv c
  /-- the `k`-th completed writer is linearized at position `k` of the writer order -/
  lins : (c.done.filter (fun r => S.mode r.call.op)).map (·.lin) = List.range c.doneW.length

theorem RecOK.mono {s0 : S.σ} {w : List S.Op} {n n' : Nat} {r : Rec S} (h : RecOK s0 w n r)
    (x : List S.Op) (hn : n ≤ n') : RecOK s0 (w ++ x) n' r := by
  have h1 := h.lin_le; have h2 := h.fin_le
  refine ⟨h.start_le, h.lin_le, by simp; omega, ?_, ?_, h.reader, ⟨h.time.1, by have := h.time.2; omega⟩⟩
  · rw [List.take_append_of_le_length (by omega)]; exact h.resp_eq
  · intro hm
    obtain ⟨ha, hb⟩ := h.writer hm
    refine ⟨?_, hb⟩
    rw [List.getElem?_append_left (by omega)]; exact ha

theorem RecOK.mono_now {s0 : S.σ} {w : List S.Op} {n n' : Nat} {r : Rec S} (h : RecOK s0 w n r)
    (hn : n ≤ n') : RecOK s0 w n' r := by
  have := h.mono [] hn; simpa using this

theorem PhaseOK.mono_now {s0 : S.σ} {w : List S.Op} {n n' : Nat} {ph : Phase S} (h : PhaseOK s0 w n ph)
    (hn : n ≤ n') : PhaseOK s0 w n' ph := by
  match ph, h with
  | .idle, _ => trivial
  | .waiting v, h => exact ⟨h.1, by have := h.2; omega⟩
  | .inside v _ none, h => exact ⟨h.1, by have := h.2; omega⟩
  | .inside v _ (some (r, k)), h => exact ⟨h.1, by have := h.2.1; omega, h.2.2⟩

/-- Operations that are not inside a critical section are not affected by a growing writer order. -/
theorem PhaseOK.grow {s0 : S.σ} {w : List S.Op} {n n' : Nat} {ph : Phase S} (h : PhaseOK s0 w n ph)
    (hh : ph.held = none) (x : List S.Op) (hn : n ≤ n') : PhaseOK s0 (w ++ x) n' ph := by
  match ph, h, hh with
  | .idle, _, _ => trivial
  | .waiting v, h, _ => exact ⟨by have := h.1; simp; omega, by have := h.2; omega⟩

theorem state_step {s0 : S.σ} {c c' : Config S} (h : c.st = run S s0 c.wlog) (hs : Step c c') :
    c'.st = run S s0 c'.wlog := by
  cases hs with
  | invoke i op rest hi => exact h
  | acquire i p v hi en => exact h
  | access i p v a todo lp hi => exact h
  | release i p v r k hi => exact h
  | commit i p v todo hi =>
    dsimp only
    cases hm : S.mode v.op
    · simp [S.reader_pure v.op _ hm, h]
    · simp [h, run]

theorem doneW_append (c : Config S) (r : Rec S) :
    ((c.done ++ [r]).filter (fun r => S.mode r.call.op)).map (·.call.op) =
      if S.mode r.call.op then c.doneW ++ [r.call.op] else c.doneW := by
  cases hm : S.mode r.call.op <;> simp [Config.doneW, List.filter_append, hm]

theorem log_step {c c' : Config S} (hinv : LockInv c) (hL : LogInv c) (hs : Step c c') : LogInv c' := by
  cases hs with
  | invoke i op rest hi =>
    dsimp only [LogInv, Config.doneW] at hL ⊢
    cases hl : c.lock <;> simp only [hl] at hL ⊢ <;> grind [upd]
  | acquire i p v hi en =>
    dsimp only [LogInv, Config.doneW] at hL ⊢
    cases hl : c.lock <;> cases hm : S.mode v.op <;> simp only [hl, hm, Lock.canAcq, Lock.acq] at en hL ⊢
    · simpa using hL
    · intro v' todo lp hv
      simp at hv
      obtain ⟨rfl, _, rfl⟩ := hv
      simp [hL.1, hL.2]
    · simpa using hL
    all_goals simp at en
  | access i p v a todo lp hi =>
    dsimp only [LogInv, Config.doneW] at hL ⊢
    cases hl : c.lock <;> simp only [hl] at hL ⊢ <;> grind [upd]
  | commit i p v todo hi =>
    cases hm : S.mode v.op
    · obtain ⟨⟨n, hl⟩, _⟩ := hinv.of_reader (i := i) (by simp [hi, Phase.held, hm])
      dsimp only [LogInv, Config.doneW] at hL ⊢
      simp only [hl] at hL ⊢
      simpa [hm] using hL
    · obtain ⟨hl, _⟩ := hinv.of_writer (i := i) (by simp [hi, Phase.held, hm])
      dsimp only [LogInv, Config.doneW] at hL ⊢
      simp only [hl] at hL ⊢
      intro v' todo' lp hv
      simp at hv
      obtain ⟨rfl, _, rfl⟩ := hv
      have := hL v todo none (by simp [hi])
      simp at this ⊢
      simp [this.1, ← this.2]
  | release i p v r k hi =>
    cases hm : S.mode v.op
    · obtain ⟨⟨n, hl⟩, _⟩ := hinv.of_reader (i := i) (by simp [hi, Phase.held, hm])
      unfold LogInv at hL ⊢
      simp only [hl] at hL
      have hd : ((c.done ++ [(⟨i, v, r, k, c.wlog.length, c.now⟩ : Rec S)]).filter (fun r => S.mode r.call.op)).map (·.call.op) = c.doneW := by
        rw [doneW_append]; simp [hm]
      match n with
      | 0 => simpa [Lock.rel, hl, hm, Config.doneW, hd] using hL
      | 1 => simpa [Lock.rel, hl, hm, Config.doneW, hd] using hL
      | n + 2 => simpa [Lock.rel, hl, hm, Config.doneW, hd] using hL
    · obtain ⟨hl, _⟩ := hinv.of_writer (i := i) (by simp [hi, Phase.held, hm])
      unfold LogInv at hL ⊢
      simp only [hl] at hL
      have hd : ((c.done ++ [(⟨i, v, r, k, c.wlog.length, c.now⟩ : Rec S)]).filter (fun r => S.mode r.call.op)).map (·.call.op) = c.doneW ++ [v.op] := by
        rw [doneW_append]; simp [hm]
      have := hL v [] (some (r, k)) (by simp [hi])
      simp at this
      simpa [Lock.rel, hl, hm, Config.doneW, hd] using this

theorem phase_step {s0 : S.σ} {c c' : Config S} (hinv : LockInv c) (hst : c.st = run S s0 c.wlog)
    (hP : ∀ j, PhaseOK s0 c.wlog c.now (c.thr j).ph) (hs : Step c c') :
    ∀ j, PhaseOK s0 c'.wlog c'.now (c'.thr j).ph := by
  cases hs with
  | invoke i op rest hi =>
    intro j
    dsimp only
    by_cases hji : j = i
    · subst hji; simp [PhaseOK]
    · rw [upd_other _ _ _ _ hji]; exact (hP j).mono_now (by omega)
  | acquire i p v hi en =>
    intro j
    dsimp only
    by_cases hji : j = i
    · subst hji
      have := hP j
      rw [hi] at this
      simp only [upd_same]
      exact ⟨this.1, by have := this.2; omega⟩
    · rw [upd_other _ _ _ _ hji]; exact (hP j).mono_now (by omega)
  | access i p v a todo lp hi =>
    intro j
    dsimp only
    by_cases hji : j = i
    · subst hji
      have := hP j
      rw [hi] at this
      simp only [upd_same]
      match lp, this with
      | none, this => exact ⟨this.1, by have := this.2; omega⟩
      | some (r, k), this => exact ⟨this.1, by have := this.2.1; omega, this.2.2⟩
    · rw [upd_other _ _ _ _ hji]; exact (hP j).mono_now (by omega)
  | commit i p v todo hi =>
    intro j
    dsimp only
    have hPi := hP i
    rw [hi] at hPi
    cases hm : S.mode v.op
    · simp only [Bool.false_eq_true, if_false]
      by_cases hji : j = i
      · subst hji
        simp only [upd_same]
        refine ⟨hPi.1, by have := hPi.2; omega, ?_, by simp [hm], fun _ => rfl⟩
        rw [List.take_length, hst]
      · rw [upd_other _ _ _ _ hji]; exact (hP j).mono_now (by omega)
    · simp only [if_true]
      by_cases hji : j = i
      · subst hji
        simp only [upd_same]
        refine ⟨hPi.1, by have := hPi.2; omega, ?_, fun _ => ⟨by simp, List.getElem?_concat_length⟩, by simp [hm]⟩
        rw [List.take_left, hst]
      · rw [upd_other _ _ _ _ hji]
        have := (hinv.of_writer (i := i) (by simp [hi, Phase.held, hm])).2 j hji
        exact (hP j).grow this _ (by omega)
  | release i p v r k hi =>
    intro j
    dsimp only
    by_cases hji : j = i
    · subst hji; simp [PhaseOK]
    · rw [upd_other _ _ _ _ hji]; exact (hP j).mono_now (by omega)

theorem recs_step {s0 : S.σ} {c c' : Config S}
    (hP : ∀ j, PhaseOK s0 c.wlog c.now (c.thr j).ph)
    (hR : ∀ r ∈ c.done, RecOK s0 c.wlog c.now r) (hs : Step c c') :
    ∀ r ∈ c'.done, RecOK s0 c'.wlog c'.now r := by
  cases hs with
  | invoke i op rest hi => exact fun r hr => (hR r hr).mono_now (by simp)
  | acquire i p v hi en => exact fun r hr => (hR r hr).mono_now (by simp)
  | access i p v a todo lp hi => exact fun r hr => (hR r hr).mono_now (by simp)
  | commit i p v todo hi =>
    intro r hr
    dsimp only at hr ⊢
    split
    · exact (hR r hr).mono _ (by simp)
    · exact (hR r hr).mono_now (by simp)
  | release i p v r k hi =>
    intro x hx
    dsimp only at hx ⊢
    rw [List.mem_append, List.mem_singleton] at hx
    rcases hx with hx | rfl
    · exact (hR x hx).mono_now (by simp)
    · have hPi := hP i
      rw [hi] at hPi
      obtain ⟨h1, h2, h3, h4, h5⟩ := hPi
      have hk : k ≤ c.wlog.length := by
        cases hm : S.mode v.op
        · have := h5 hm; omega
        · have := (h4 hm).1; omega
      exact ⟨h1, hk, Nat.le_refl _, h3, fun hm => ⟨(h4 hm).2, (h4 hm).1.symm⟩, fun hm => (h5 hm).symm, h2, by simp⟩

theorem PhaseOK.tStart_lt {s0 : S.σ} {w : List S.Op} {n : Nat} {ph : Phase S} (h : PhaseOK s0 w n ph)
    {v : Call S} (hv : ph.call? = some v) : v.tStart < n := by
  match ph, h, hv with
  | .waiting v, h, hv => simp [Phase.call?] at hv; subst hv; exact h.2
  | .inside v _ none, h, hv => simp [Phase.call?] at hv; subst hv; exact h.2
  | .inside v _ (some (r, k)), h, hv => simp [Phase.call?] at hv; subst hv; exact h.2.1

theorem rt_step {s0 : S.σ} {c c' : Config S}
    (hP : ∀ j, PhaseOK s0 c.wlog c.now (c.thr j).ph)
    (hR : ∀ r ∈ c.done, RecOK s0 c.wlog c.now r) (hT : RTInv c) (hs : Step c c') : RTInv c' := by
  cases hs with
  | invoke i op rest hi =>
    intro A hA
    dsimp only at hA ⊢
    refine ⟨(hT A hA).1, ?_⟩
    intro j v hv hle
    by_cases hji : j = i
    · subst hji
      simp [Phase.call?] at hv
      subst hv
      exact (hR A hA).fin_le
    · rw [upd_other _ _ _ _ hji] at hv; exact (hT A hA).2 j v hv hle
  | acquire i p v hi en =>
    intro A hA
    dsimp only at hA ⊢
    refine ⟨(hT A hA).1, ?_⟩
    intro j v' hv hle
    by_cases hji : j = i
    · subst hji
      simp [Phase.call?] at hv
      exact (hT A hA).2 j v' (by simp [hi, Phase.call?, hv]) hle
    · rw [upd_other _ _ _ _ hji] at hv; exact (hT A hA).2 j v' hv hle
  | access i p v a todo lp hi =>
    intro A hA
    dsimp only at hA ⊢
    refine ⟨(hT A hA).1, ?_⟩
    intro j v' hv hle
    by_cases hji : j = i
    · subst hji
      simp [Phase.call?] at hv
      exact (hT A hA).2 j v' (by simp [hi, Phase.call?, hv]) hle
    · rw [upd_other _ _ _ _ hji] at hv; exact (hT A hA).2 j v' hv hle
  | commit i p v todo hi =>
    intro A hA
    dsimp only at hA ⊢
    refine ⟨(hT A hA).1, ?_⟩
    intro j v' hv hle
    by_cases hji : j = i
    · subst hji
      simp [Phase.call?] at hv
      exact (hT A hA).2 j v' (by simp [hi, Phase.call?, hv]) hle
    · rw [upd_other _ _ _ _ hji] at hv; exact (hT A hA).2 j v' hv hle
  | release i p v r k hi =>
    have hvi : v.tStart < c.now := (hP i).tStart_lt (by simp [hi, Phase.call?])
    intro A hA
    dsimp only at hA ⊢
    rw [List.mem_append, List.mem_singleton] at hA
    rcases hA with hA | rfl
    · refine ⟨?_, ?_⟩
      · intro B hB
        rw [List.mem_append, List.mem_singleton] at hB
        rcases hB with hB | rfl
        · exact (hT A hA).1 B hB
        · exact (hT A hA).2 i v (by simp [hi, Phase.call?])
      · intro j v' hv hle
        by_cases hji : j = i
        · subst hji; simp [Phase.call?] at hv
        · rw [upd_other _ _ _ _ hji] at hv; exact (hT A hA).2 j v' hv hle
    · dsimp only
      refine ⟨?_, ?_⟩
      · intro B hB hle
        rw [List.mem_append, List.mem_singleton] at hB
        rcases hB with hB | rfl
        · have := (hR B hB).time; omega
        · dsimp only at hle; omega
      · intro j v' hv hle
        by_cases hji : j = i
        · subst hji; simp [Phase.call?] at hv
        · rw [upd_other _ _ _ _ hji] at hv
          have := (hP j).tStart_lt hv; omega

theorem lins_step {s0 : S.σ} {c c' : Config S} (hinv : LockInv c) (hL : LogInv c)
    (hP : ∀ j, PhaseOK s0 c.wlog c.now (c.thr j).ph)
    (h : (c.done.filter (fun r => S.mode r.call.op)).map (·.lin) = List.range c.doneW.length)
    (hs : Step c c') :
    (c'.done.filter (fun r => S.mode r.call.op)).map (·.lin) = List.range c'.doneW.length := by
  cases hs with
  | invoke i op rest hi => exact h
  | acquire i p v hi en => exact h
  | access i p v a todo lp hi => exact h
  | commit i p v todo hi => exact h
  | release i p v r k hi =>
    unfold Config.doneW at h ⊢
    dsimp only
    cases hm : S.mode v.op
    · simpa [List.filter_append, hm] using h
    · obtain ⟨hl, _⟩ := hinv.of_writer (i := i) (by simp [hi, Phase.held, hm])
      unfold LogInv at hL
      simp only [hl] at hL
      have h1 := hL v [] (some (r, k)) (by simp [hi])
      have h2 := hP i
      rw [hi] at h2
      have h3 := (h2.2.2.2.1 hm).1
      simp only at h1
      have hk : k = c.doneW.length := by
        have := congrArg List.length h1.2
        simp at this; omega
      simp [List.filter_append, hm, List.range_succ, h, hk, Config.doneW]

theorem atomicInv_init (s0 : S.σ) (progs : Nat → List S.Op) : AtomicInv s0 (Config.init s0 progs) where
  lock := lockInv_init s0 progs
  state := by simp [Config.init, run]
  log := by simp [LogInv, Config.init, Config.doneW]
  phase := by intro j; simp [Config.init, PhaseOK]
  recs := by simp [Config.init]
  rt := by simp [RTInv, Config.init]
  lins := by simp [Config.init, Config.doneW]

theorem atomicInv_step {s0 : S.σ} {c c' : Config S} (h : AtomicInv s0 c) (hs : Step c c') : AtomicInv s0 c' where
  lock := lockInv_step h.lock hs
  state := state_step h.state hs
  log := log_step h.lock h.log hs
  phase := phase_step h.lock h.state h.phase hs
  recs := recs_step h.phase h.recs hs
  rt := rt_step h.phase h.recs h.rt hs
  lins := lins_step h.lock h.log h.phase h.lins hs

theorem atomic_reachable {s0 : S.σ} {progs : Nat → List S.Op} {c : Config S}
    (h : Reachable s0 progs c) : AtomicInv s0 c := by
  induction h with
  | init => exact atomicInv_init s0 progs
  | step _ hs ih => exact atomicInv_step ih hs

/-- The writer order: at most the one writer that is inside separates acquisition order, effect
order and return order. In particular, whenever the lock is not write-held, the writer order is
exactly the list of COMPLETED writer operations. -/
theorem AtomicInv.writers {s0 : S.σ} {c : Config S} (h : AtomicInv s0 c) :
    (c.wacq = c.wlog ∨ ∃ op, c.wacq = c.wlog ++ [op]) ∧ (c.wlog = c.doneW ∨ ∃ op, c.wlog = c.doneW ++ [op]) ∧
    ((∀ i, c.lock ≠ .writer i) → c.wacq = c.wlog ∧ c.wlog = c.doneW) := by
  have hL := h.log
  have hK := h.lock.2
  unfold LogInv at hL
  cases hl : c.lock <;> simp only [hl] at hL hK
  · simp [hL.1, ← hL.2]
  · simp [hL.1, ← hL.2]
  · rename_i i
    refine ⟨?_, ?_, fun hh => absurd rfl (hh i)⟩
    all_goals
      cases hp : (c.thr i).ph with
      | idle => simp [hp, Phase.held] at hK
      | waiting v => simp [hp, Phase.held] at hK
      | inside v todo lp =>
        have := hL v todo lp hp
        cases lp with
        | none => simp only at this; simp [this.1, ← this.2]
        | some x => simp only at this; simp [this.1, this.2]

/-- **Real-time order.** If `A` returned before `B` was invoked, `A` is linearized no later than
`B`, and strictly earlier if `A` is a writer (so `B` sees `A`'s effect). -/
theorem AtomicInv.realtime {s0 : S.σ} {c : Config S} (h : AtomicInv s0 c) {A B : Rec S}
    (hA : A ∈ c.done) (hB : B ∈ c.done) (hle : A.tEnd ≤ B.call.tStart) :
    A.lin ≤ B.lin ∧ (S.mode A.call.op = true → A.lin < B.lin) := by
  have h1 := (h.rt A hA).1 B hB hle
  have hAo := h.recs A hA
  have hBo := h.recs B hB
  have := hAo.lin_le; have := hBo.start_le
  refine ⟨by omega, fun hm => ?_⟩
  have := (hAo.writer hm).2
  omega

/-! ## Read-only programs: a quiescent router -/

/-- Every operation of every thread is a reader. -/
def ReadOnly (progs : Nat → List S.Op) : Prop := ∀ i, ∀ op ∈ progs i, S.mode op = false

def ROInv (c : Config S) : Prop :=
  (∀ j, (∀ op ∈ (c.thr j).prog, S.mode op = false) ∧ ∀ v, (c.thr j).ph.call? = some v → S.mode v.op = false) ∧
  c.wlog = []

theorem roInv_step {c c' : Config S} (h : ROInv c) (hs : Step c c') : ROInv c' := by
  obtain ⟨h1, h2⟩ := h
  cases hs with
  | invoke i op rest hi =>
    refine ⟨fun j => ?_, h2⟩
    have := h1 i
    dsimp only
    by_cases hji : j = i
    · subst hji; simp only [upd_same]; rw [hi] at this; simp [Phase.call?] at this ⊢; grind
    · rw [upd_other _ _ _ _ hji]; exact h1 j
  | acquire i p v hi en =>
    refine ⟨fun j => ?_, h2⟩
    have := h1 i
    dsimp only
    by_cases hji : j = i
    · subst hji; simp only [upd_same]; rw [hi] at this; simpa [Phase.call?] using this
    · rw [upd_other _ _ _ _ hji]; exact h1 j
  | access i p v a todo lp hi =>
    refine ⟨fun j => ?_, h2⟩
    have := h1 i
    dsimp only
    by_cases hji : j = i
    · subst hji; simp only [upd_same]; rw [hi] at this; simpa [Phase.call?] using this
    · rw [upd_other _ _ _ _ hji]; exact h1 j
  | commit i p v todo hi =>
    have := h1 i
    rw [hi] at this
    have hm : S.mode v.op = false := this.2 v (by simp [Phase.call?])
    refine ⟨fun j => ?_, by simp [hm, h2]⟩
    dsimp only
    by_cases hji : j = i
    · subst hji; simp only [upd_same]; simpa [Phase.call?] using this
    · rw [upd_other _ _ _ _ hji]; exact h1 j
  | release i p v r k hi =>
    refine ⟨fun j => ?_, h2⟩
    have := h1 i
    dsimp only
    by_cases hji : j = i
    · subst hji; simp only [upd_same]; rw [hi] at this; simp [Phase.call?] at this ⊢; exact this.1
    · rw [upd_other _ _ _ _ hji]; exact h1 j

theorem ro_reachable {s0 : S.σ} {progs : Nat → List S.Op} (hro : ReadOnly progs) {c : Config S}
    (h : Reachable s0 progs c) : ROInv c := by
  induction h with
  | init => exact ⟨fun j => ⟨hro j, by simp [Config.init, Phase.call?]⟩, rfl⟩
  | step _ hs ih => exact roInv_step ih hs

/-- Any number of concurrent reader operations on a state nobody modifies: the lock is never
write-held, the state stays the initial one, and every response is the sequential function of the
(initial state, own request). -/
theorem readonly {s0 : S.σ} {progs : Nat → List S.Op} (hro : ReadOnly progs) {c : Config S}
    (h : Reachable s0 progs c) :
    (c.lock = .free ∨ ∃ n, c.lock = .readers n) ∧ c.st = s0 ∧ ∀ r ∈ c.done, r.resp = (S.sem r.call.op s0).2 := by
  have hR := ro_reachable hro h
  have hA := atomic_reachable h
  refine ⟨?_, by rw [hA.state, hR.2]; rfl, fun r hr => ?_⟩
  · have hK := hA.lock.2
    cases hl : c.lock with
    | free => simp
    | readers n => simp
    | writer i =>
      simp only [hl] at hK
      cases hp : (c.thr i).ph with
      | idle => simp [hp, Phase.held] at hK
      | waiting v => simp [hp, Phase.held] at hK
      | inside v todo lp =>
        have := (hR.1 i).2 v (by simp [hp, Phase.call?])
        simp [hp, Phase.held, this] at hK
  · have := (hA.recs r hr).resp_eq
    rw [hR.2] at this
    simpa [run] using this

/-! ## The variant without any lock (`WithLock(false)`)

No acquire/release at all: a thread starts an operation, performs its micro-accesses, takes effect
at some instant in between, and returns.  Nothing excludes anything — with a writer operation a
conflicting pair of accesses is reachable (`toy_nolock_race` below) — but if no operation
writes, there is no conflicting pair and every response is the sequential one. -/
namespace NoLock

inductive NPhase (S : Sys) where
  | idle
  | running (op : S.Op) (todo : List (S.Loc × Bool)) (resp : Option S.Resp)

def NPhase.next? {S : Sys} : NPhase S → Option (S.Loc × Bool)
  | .running _ (a :: _) _ => some a
  | _ => none

structure NThread (S : Sys) where
  prog : List S.Op
  ph : NPhase S

structure NRec (S : Sys) where
  tid : Nat
  op : S.Op
  resp : S.Resp

structure NConfig (S : Sys) where
  st : S.σ
  thr : Nat → NThread S
  done : List (NRec S)

def NConfig.init (s0 : S.σ) (progs : Nat → List S.Op) : NConfig S :=
  { st := s0, thr := fun i => ⟨progs i, .idle⟩, done := [] }

inductive NStep : NConfig S → NConfig S → Prop where
  | start (c : NConfig S) (i : Nat) (op : S.Op) (rest : List S.Op) (h : c.thr i = ⟨op :: rest, .idle⟩) :
      NStep c { c with thr := upd c.thr i ⟨rest, .running op (S.accs op) none⟩ }
  | access (c : NConfig S) (i : Nat) (p : List S.Op) (op : S.Op) (a : S.Loc × Bool) (todo : List (S.Loc × Bool))
      (resp : Option S.Resp) (h : c.thr i = ⟨p, .running op (a :: todo) resp⟩) :
      NStep c { c with thr := upd c.thr i ⟨p, .running op todo resp⟩ }
  | effect (c : NConfig S) (i : Nat) (p : List S.Op) (op : S.Op) (todo : List (S.Loc × Bool))
      (h : c.thr i = ⟨p, .running op todo none⟩) :
      NStep c { c with st := (S.sem op c.st).1, thr := upd c.thr i ⟨p, .running op todo (some (S.sem op c.st).2)⟩ }
  | finish (c : NConfig S) (i : Nat) (p : List S.Op) (op : S.Op) (r : S.Resp)
      (h : c.thr i = ⟨p, .running op [] (some r)⟩) :
      NStep c { c with thr := upd c.thr i ⟨p, .idle⟩, done := c.done ++ [⟨i, op, r⟩] }

inductive NReachable (s0 : S.σ) (progs : Nat → List S.Op) : NConfig S → Prop where
  | init : NReachable s0 progs (NConfig.init s0 progs)
  | step {c c' : NConfig S} : NReachable s0 progs c → NStep c c' → NReachable s0 progs c'

def NThreadOK (s0 : S.σ) (t : NThread S) : Prop :=
  (∀ op ∈ t.prog, S.mode op = false) ∧
  match t.ph with
  | .idle => True
  | .running op todo resp => S.mode op = false ∧ (∀ a ∈ todo, a.2 = false) ∧ ∀ r, resp = some r → r = (S.sem op s0).2

def NInv (s0 : S.σ) (c : NConfig S) : Prop :=
  c.st = s0 ∧ (∀ j, NThreadOK s0 (c.thr j)) ∧ ∀ r ∈ c.done, r.resp = (S.sem r.op s0).2

theorem nInv_step {s0 : S.σ} {c c' : NConfig S} (h : NInv s0 c) (hs : NStep c c') : NInv s0 c' := by
  obtain ⟨h1, h2, h3⟩ := h
  cases hs with
  | start i op rest hi =>
    refine ⟨h1, fun j => ?_, h3⟩
    have := h2 i
    rw [hi] at this
    dsimp only
    by_cases hji : j = i
    · subst hji
      simp only [upd_same]
      have hm : S.mode op = false := this.1 op (by simp)
      exact ⟨fun o ho => this.1 o (by simp [ho]), hm, S.reader_accs op hm, by simp⟩
    · rw [upd_other _ _ _ _ hji]; exact h2 j
  | access i p op a todo resp hi =>
    refine ⟨h1, fun j => ?_, h3⟩
    have := h2 i
    rw [hi] at this
    dsimp only
    by_cases hji : j = i
    · subst hji
      simp only [upd_same]
      exact ⟨this.1, this.2.1, fun x hx => this.2.2.1 x (by simp [hx]), this.2.2.2⟩
    · rw [upd_other _ _ _ _ hji]; exact h2 j
  | effect i p op todo hi =>
    have := h2 i
    rw [hi] at this
    have hm : S.mode op = false := this.2.1
    refine ⟨by dsimp only; rw [S.reader_pure op _ hm, h1], fun j => ?_, h3⟩
    dsimp only
    by_cases hji : j = i
    · subst hji
      simp only [upd_same]
      exact ⟨this.1, hm, this.2.2.1, by simp [h1]⟩
    · rw [upd_other _ _ _ _ hji]; exact h2 j
  | finish i p op r hi =>
    have := h2 i
    rw [hi] at this
    refine ⟨h1, fun j => ?_, ?_⟩
    · dsimp only
      by_cases hji : j = i
      · subst hji; simp only [upd_same]; exact ⟨this.1, trivial⟩
      · rw [upd_other _ _ _ _ hji]; exact h2 j
    · intro x hx
      dsimp only at hx
      rw [List.mem_append, List.mem_singleton] at hx
      rcases hx with hx | rfl
      · exact h3 x hx
      · exact this.2.2.2 r rfl

/-- Without any lock: if no operation writes, the shared state never changes, every response is
the sequential function of (initial state, own request), every pending micro-access is a read,
and hence no two threads have conflicting next accesses. -/
theorem readonly {s0 : S.σ} {progs : Nat → List S.Op} (hro : ReadOnly progs) {c : NConfig S}
    (h : NReachable s0 progs c) :
    c.st = s0 ∧ (∀ r ∈ c.done, r.resp = (S.sem r.op s0).2) ∧
    (∀ i a, (c.thr i).ph.next? = some a → a.2 = false) ∧
    (∀ i j a b, i ≠ j → (c.thr i).ph.next? = some a → (c.thr j).ph.next? = some b → ¬ Conflict a b) := by
  have hinv : NInv s0 c := by
    induction h with
    | init => exact ⟨rfl, fun j => ⟨hro j, trivial⟩, by simp [NConfig.init]⟩
    | step _ hs ih => exact nInv_step ih hs
  have hreads : ∀ i a, (c.thr i).ph.next? = some a → a.2 = false := by
    intro i a ha
    have := (hinv.2.1 i).2
    cases hp : (c.thr i).ph with
    | idle => simp [hp, NPhase.next?] at ha
    | running op todo resp =>
      cases todo with
      | nil => simp [hp, NPhase.next?] at ha
      | cons x xs =>
        simp [hp, NPhase.next?] at ha
        subst ha
        rw [hp] at this
        exact this.2.1 x (by simp)
  refine ⟨hinv.1, hinv.2.2, hreads, ?_⟩
  intro i j a b _ ha hb
  simp [Conflict, hreads i a ha, hreads j b hb]

end NoLock

/-! ## A toy instance: non-vacuity of the semantics -/

/-- A counter: `true` = increment (writer, one write to the only location), `false` = read it. -/
def toy : Sys where
  σ := Nat
  Op := Bool
  Resp := Nat
  Loc := Unit
  mode := fun op => op
  sem := fun op s => if op then (s + 1, s) else (s, s)
  accs := fun op => [((), op)]
  reader_pure := by intro op s h; simp [h]
  reader_accs := by intro op h a ha; simp at ha; simp [ha, h]

/-- Thread 0 increments, thread 1 reads. -/
def toyProgs : Nat → List Bool := fun i => if i = 0 then [true] else if i = 1 then [false] else []

/-- A reachable configuration in which the reader (thread 1) is inside its critical section, the
writer (thread 0) waits, and the writer's `acquire` is NOT enabled. -/
example : ∃ c : Config toy, Reachable (S := toy) (0 : Nat) toyProgs c ∧ (c.thr 1).ph.held = some false ∧
    (∃ p v, c.thr 0 = ⟨p, .waiting v⟩ ∧ toy.mode v.op = true ∧ c.lock.canAcq (toy.mode v.op) = false) ∧
    c.lock = .readers 1 := by
  refine ⟨_, .step (.step (.step .init (.invoke _ 1 false [] rfl)) (.acquire _ 1 [] ⟨false, 0, 0⟩ rfl rfl))
    (.invoke _ 0 true [] rfl), rfl, ⟨[], ⟨true, 0, 2⟩, rfl, rfl, rfl⟩, rfl⟩

/-- The hypothesis of `NoLock.readonly` is needed, and `Conflict` is not vacuous: without the lock,
a writer and a reader reach a configuration whose next micro-accesses conflict. -/
theorem toy_nolock_race : ∃ c : NoLock.NConfig toy, NoLock.NReachable (S := toy) (0 : Nat) toyProgs c ∧
    ∃ a b, (c.thr 0).ph.next? = some a ∧ (c.thr 1).ph.next? = some b ∧ Conflict (S := toy) a b :=
  ⟨_, .step (.step .init (.start _ 0 true [] rfl)) (.start _ 1 false [] rfl), ((), true), ((), false), rfl, rfl, rfl, Or.inl rfl⟩

/-- With the lock the same two programs never reach such a configuration (`drf`). -/
example (c : Config toy) (h : Reachable (S := toy) (0 : Nat) toyProgs c) (a b : Unit × Bool)
    (ha : (c.thr 0).ph.next? = some a) (hb : (c.thr 1).ph.next? = some b) : ¬ Conflict (S := toy) a b :=
  drf h (by decide) ha hb

/-- A complete run (so the statements about `done` are not vacuous): the reader is invoked first
(`start = 0`), then the writer runs its whole critical section, then the reader gets the lock: it
is linearized after the writer (`lin = 1`), answers `1`, and the final state is `1`. -/
example : ∃ c : Config toy, Reachable (S := toy) (0 : Nat) toyProgs c ∧ c.st = (1 : Nat) ∧ c.lock = .free ∧
    c.wlog = [true] ∧ c.done.map (fun r => (r.tid, r.call.start, r.lin, r.fin, r.resp)) = [(0, 0, 0, 1, (0 : Nat)), (1, 0, 1, 1, (1 : Nat))] := by
  have h0 : Reachable (S := toy) (0 : Nat) toyProgs _ := .init
  have h1 := h0.step (.invoke _ 1 false [] rfl)
  have h2 := h1.step (.invoke _ 0 true [] rfl)
  have h3 := h2.step (.acquire _ 0 [] ⟨true, 0, 1⟩ rfl rfl)
  have h4 := h3.step (.access _ 0 [] ⟨true, 0, 1⟩ ((), true) [] none rfl)
  have h5 := h4.step (.commit _ 0 [] ⟨true, 0, 1⟩ [] rfl)
  have h6 := h5.step (.release _ 0 [] ⟨true, 0, 1⟩ (0 : Nat) 0 rfl)
  have h7 := h6.step (.acquire _ 1 [] ⟨false, 0, 0⟩ rfl rfl)
  have h8 := h7.step (.access _ 1 [] ⟨false, 0, 0⟩ ((), false) [] none rfl)
  have h9 := h8.step (.commit _ 1 [] ⟨false, 0, 0⟩ [] rfl)
  have h10 := h9.step (.release _ 1 [] ⟨false, 0, 0⟩ (1 : Nat) 1 rfl)
  exact ⟨_, h10, rfl, rfl, rfl, rfl⟩

end Mux.RWLock
