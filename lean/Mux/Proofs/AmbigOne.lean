/-
  Mux.Proofs.AmbigOne — a tree built from the empty tree by ONE successful `add` of a pattern `q` is a
  linear chain of fresh leaves, one per piece of `q`; the ambiguity check on it rejects every accepted
  pattern `p ≠ q` whose segments are, one by one, the same text or a name variant of `q`'s.
-/
import Mux.Proofs.AddDecide
import Mux.Proofs.AddNoFault
namespace Mux.P9
open Mux

/-! ## `splitString` of a concatenation of pieces -/

theorem splitAux_append_noStart (cur x y : Bytes) (h : startByte ∉ x) :
    splitAux false cur (x ++ y) = splitAux false (cur ++ x) y := by
  induction x generalizing cur with
  | nil => simp
  | cons b x ih =>
    simp only [List.mem_cons, not_or] at h
    have hb : ¬ b = startByte := fun e => h.1 e.symm
    simp only [List.cons_append, splitAux, hb, if_false]
    rw [ih (cur ++ [b]) h.2]
    simp

theorem splitAux_append_noEnd (cur x y : Bytes) (h : endByte ∉ x) :
    splitAux true cur (x ++ y) = splitAux true (cur ++ x) y := by
  induction x generalizing cur with
  | nil => simp
  | cons b x ih =>
    simp only [List.mem_cons, not_or] at h
    have hb : ¬ b = endByte := fun e => h.1 e.symm
    simp only [List.cons_append, splitAux, hb, if_false]
    rw [ih (cur ++ [b]) h.2]
    simp

/-- A well-formed piece in front of text that starts with `{` (or is empty) is split off whole. -/
theorem splitAux_piece {x : Bytes} (hx : WfPiece x) (y : Bytes) :
    splitAux false [] (x ++ y) = splitAux false x y := by
  rcases hx with hn | ⟨body, suf, rfl, hb, hs⟩
  · simpa using splitAux_append_noStart [] x y hn.1
  · have e : tok body suf ++ y = startByte :: (body ++ (endByte :: (suf ++ y))) := by simp [tok]
    rw [e]
    simp only [splitAux, if_true]
    rw [splitAux_append_noEnd [startByte] body _ hb.2]
    simp only [splitAux, if_true]
    rw [splitAux_append_noStart _ suf y hs.1]
    simp [tok]

theorem splitString_piece_cons {x : Bytes} (hx : WfPiece x) (hne : x ≠ []) (y : Bytes) :
    splitString (x ++ startByte :: y) = x :: splitString (startByte :: y) := by
  unfold splitString
  rw [splitAux_piece hx]
  simp [splitAux, hne]

theorem splitString_piece_single {x : Bytes} (hx : WfPiece x) : splitString x = [x] := by
  have := splitAux_piece hx []
  simp only [List.append_nil] at this
  unfold splitString
  rw [this]
  simp [splitAux]

/-- Pieces as `splitString` produces them from a well-formed pattern. -/
structure Canon (pieces : List Bytes) : Prop where
  wf : ∀ x ∈ pieces, WfPiece x
  ne : ∀ x ∈ pieces, x ≠ []
  heads : ∀ x ∈ pieces.tail, x.head? = some startByte

theorem Canon.tail {x : Bytes} {xs : List Bytes} (h : Canon (x :: xs)) : Canon xs :=
  ⟨fun y hy => h.wf y (by simp [hy]), fun y hy => h.ne y (by simp [hy]),
    fun y hy => h.heads y (by simp only [List.tail_cons]; exact List.mem_of_mem_tail hy)⟩

theorem splitString_flatten {pieces : List Bytes} (hc : Canon pieces) (hne : pieces ≠ []) :
    splitString pieces.flatten = pieces := by
  induction pieces with
  | nil => exact absurd rfl hne
  | cons x xs ih =>
    cases xs with
    | nil => simpa using splitString_piece_single (hc.wf x (by simp))
    | cons y ys =>
      have hy := hc.heads y (by simp)
      have ih' := ih hc.tail (by simp)
      obtain ⟨y', rfl⟩ : ∃ y', y = startByte :: y' := by
        cases y with
        | nil => cases hy
        | cons b y' =>
          simp only [List.head?_cons, Option.some.injEq] at hy
          exact ⟨y', by rw [hy]⟩
      simp only [List.flatten_cons, List.cons_append] at ih' ⊢
      rw [splitString_piece_cons (hc.wf x (by simp)) (hc.ne x (by simp)), ih']

theorem canon_splitString {p : Bytes} (hp : WfPattern p) (hne : p ≠ []) : Canon (splitString p) := by
  refine ⟨hp, splitString_pieces_nonempty p hne, ?_⟩
  cases hs : splitString p with
  | nil => simp
  | cons v rest => simpa using splitString_tail_heads hs

/-! ## `splitLoop` is monotone in its accumulators -/

theorem splitLoop_mono (ic : Interceptors) : ∀ (ps : List Bytes) (flag flag' : Bool) (names names' : List Bytes)
    (segs : List Seg), splitLoop ic ps flag names = .ok segs → (flag' = true → flag = true) →
      (∀ x ∈ names', x ∈ names) → splitLoop ic ps flag' names' = .ok segs := by
  intro ps
  induction ps with
  | nil => intro _ _ _ _ segs h _ _; simpa [splitLoop] using h
  | cons p ps ih =>
    intro flag flag' names names' segs h hf hn
    obtain ⟨hp, hadj, seg, segs', hseg, hfresh, hrest, rfl⟩ := splitLoop_cons_inv h
    have hrest' := ih _ _ _ (usedBelow names' seg) _ hrest (fun h => h) (by
      intro x hx
      unfold usedBelow at hx ⊢
      by_cases hk : seg.kind = .str
      · simp only [hk, if_true] at hx ⊢
        exact hn x hx
      · simp only [hk, if_false] at hx ⊢
        rcases List.mem_cons.1 hx with rfl | hx
        · simp
        · exact List.mem_cons_of_mem _ (hn x hx))
    have hadj' : ¬ (flag' = true ∧ p.headD 0 = startByte) := by
      intro hh
      apply hadj
      refine ⟨hf hh.1, ?_⟩
      cases p with
      | nil => exact absurd rfl hp
      | cons c r => simpa using hh.2
    have hdup : ¬ (seg.kind ≠ .str ∧ names'.contains seg.name = true) := by
      intro hh
      rcases hfresh with h1 | h1
      · exact hh.1 h1
      · exact h1 (hn _ (by simpa using hh.2))
    simp only [splitLoop, bind, Except.bind, atE_zero _ _ hp, atE_last _ _ hp, pure, Except.pure, throw,
      throwThe, MonadExceptOf.throw, hadj', if_false, hseg, hdup, usedBelow_eq, hrest']

/-- The tail of an accepted pattern, cut at a piece boundary, is accepted with the same segments. -/
theorem split_of_pieces {ic : Interceptors} {pieces : List Bytes} (hc : Canon pieces) (hne : pieces ≠ [])
    {flag : Bool} {names : List Bytes} {segs : List Seg} (h : splitLoop ic pieces flag names = .ok segs) :
    split ic pieces.flatten = .ok segs := by
  have hfl : pieces.flatten ≠ [] := by
    cases pieces with
    | nil => exact absurd rfl hne
    | cons x xs =>
      intro e
      have := hc.ne x (by simp)
      simp only [List.flatten_cons, List.append_eq_nil_iff] at e
      exact this e.1
  unfold split
  rw [if_neg hfl, splitString_flatten hc hne]
  exact splitLoop_mono ic pieces flag false names [] segs h (fun h => by cases h) (fun x hx => by cases hx)


/-! ## The tree after one `add` on the empty tree is a linear chain -/

/-- From `n` down through single children with segments `segs` to `m`; `path` is all zeros. -/
inductive Lin : Node → List Seg → Node → List Nat → Prop
  | nil (n : Node) : Lin n [] n []
  | cons {n c m : Node} {segs : List Seg} {path : List Nat} : n.children = [c] → Lin c segs m path →
      Lin n (c.seg :: segs) m (0 :: path)

theorem getNode_fresh (ic : Interceptors) (n : Node) (v : Bytes) (rest : List Bytes) :
    n.children = [] → (∀ x ∈ v :: rest, x ≠ [] ∧ GoodPiece x) → ∀ r, getNode ic n v rest = .ok r →
      r.1.seg = n.seg ∧ r.1.handlers = n.handlers ∧
      ∃ m segs, Lin r.1 segs m r.2 ∧ m.children = [] ∧ m.handlers = [] ∧
        segs.map (·.value) = v :: rest ∧ ∀ s ∈ segs, newSegment ic s.value = .ok s := by
  induction n, v, rest using getNode_induction ic with
  | step n v rest ih =>
    intro hnil hpieces r hr
    obtain ⟨hvne, hvg⟩ := hpieces v (by simp)
    rw [getNode_eq] at hr
    cases hseg : newSegment ic v with
    | error e => rw [gnPrep_of_newSegment_error hseg] at hr; cases hr
    | ok seg =>
      have hsv : seg.value = v := newSegment_value ic v seg hseg
      obtain ⟨s, hprep, hshape⟩ := gnPrep_shape (used := []) rest (by rw [hnil]; exact WfL_nil _ _) hseg hvne hvg
      rw [hprep] at hr
      simp only [gnFinish] at hr
      cases hshape with
      | ident i c hc _ => rw [hnil] at hc; simp at hc
      | desc i c L hc => rw [hnil] at hc; simp at hc
      | split i c L s1 idx1 idx j hc => rw [hnil] at hc; simp at hc
      | leaf idx j hdis hpos =>
        rw [hnil] at hpos hr
        simp only [List.nil_append, sortChildren, List.mergeSort_singleton] at hpos hr
        have hj : j = 0 := by
          have := (List.getElem?_eq_some_iff.1 hpos).1
          simpa using this
        subst hj
        cases rest with
        | nil =>
          simp only [restCont, pure, Except.pure, Except.ok.injEq] at hr
          subst hr
          refine ⟨by simp, by simp, newLeaf n.pattern seg, [seg], ?_, rfl, rfl, by simp [hsv], ?_⟩
          · exact Lin.cons (c := newLeaf n.pattern seg) (by simp) (Lin.nil _)
          · intro s hs
            simp only [List.mem_singleton] at hs
            subst hs
            rw [hsv]; exact hseg
        | cons v' rest' =>
          simp only [restCont, bind, Except.bind, pure, Except.pure] at hr
          cases hrec : getNode ic (newLeaf n.pattern seg) v' rest' with
          | error e => rw [hrec] at hr; cases hr
          | ok r' =>
            rw [hrec] at hr
            simp only [Except.ok.injEq] at hr
            subst hr
            obtain ⟨e1, _, m, segs', hlin, hm1, hm2, hmap, hall⟩ :=
              ih _ v' rest' hprep rfl rfl (fun x hx => hpieces x (by simp only [List.mem_cons] at hx ⊢; exact .inr hx)) r' hrec
            refine ⟨by simp, by simp, m, seg :: segs', ?_, hm1, hm2, by simp [hsv, hmap], ?_⟩
            · have : seg = r'.1.seg := by rw [e1]; rfl
              rw [this]
              exact Lin.cons (by simp) hlin
            · intro s hs
              rcases List.mem_cons.1 hs with rfl | hs
              · rw [hsv]; exact hseg
              · exact hall s hs

/-- `modifyAt` along the path of a linear chain changes the last node only. -/
theorem Lin.modifyAt {f : Node → Except Err Node} (hf : ∀ m m', f m = .ok m' → m'.seg = m.seg ∧ m'.children = m.children)
    {n m : Node} {segs : List Seg} {path : List Nat} (h : Lin n segs m path) :
    ∀ n', n.modifyAt f path = .ok n' → ∃ m', f m = .ok m' ∧ Lin n' segs m' path ∧ n'.seg = n.seg := by
  induction h with
  | nil n =>
    intro n' hn'
    have : f n = .ok n' := by cases n; simpa [Node.modifyAt] using hn'
    exact ⟨n', this, Lin.nil n', (hf _ _ this).1⟩
  | @cons n c m segs path hc _ ih =>
    intro n' hn'
    cases n with
    | mk s p mi hs idx cs =>
      simp only [Node.children_mk] at hc
      subst hc
      simp only [Node.modifyAt, modifyAtL, bind, Except.bind, pure, Except.pure] at hn'
      cases hcm : c.modifyAt f path with
      | error e => rw [hcm] at hn'; cases hn'
      | ok c' =>
        rw [hcm] at hn'
        simp only [Except.ok.injEq] at hn'
        subst hn'
        obtain ⟨m', h1, h2, h3⟩ := ih c' hcm
        refine ⟨m', h1, ?_, rfl⟩
        rw [← h3]
        exact Lin.cons (by simp) h2


/-! ## Name variants -/

/-- `a` and `b` are parameter segments that differ in the name or in the `-` flag only. -/
def NameVariant (a b : Seg) : Prop :=
  a.kind ≠ .str ∧ a.kind = b.kind ∧ a.rule = b.rule ∧ a.suffix = b.suffix ∧ a.endpoint = b.endpoint ∧
    (a.ignoreName ≠ b.ignoreName ∨ a.name ≠ b.name)

theorem NameVariant.isAmbiguous {a b : Seg} (h : NameVariant a b) : b.isAmbiguous a = true := by
  obtain ⟨_, h2, h3, h4, h5, h6⟩ := h
  have hlen : b.ignoreName = a.ignoreName → b.ambiguousLength = a.ambiguousLength := by
    intro hi
    simp only [Seg.ambiguousLength, h2, h3, h4, hi]
  unfold Seg.isAmbiguous
  by_cases hi : b.ignoreName = a.ignoreName
  · have hn : a.name ≠ b.name := by
      rcases h6 with h6 | h6
      · exact absurd hi.symm h6
      · exact h6
    simp only [hi, ne_eq, not_true_eq_false, if_false]
    simp [h2, h3, h4, h5, hlen hi]
    exact fun e => hn e.symm
  · simp only [ne_eq, hi, not_false_eq_true, if_true]
    simp [h2, h3, h4, h5]

/-- Segment lists that agree piece by piece up to parameter names. -/
inductive UpToNames : List Seg → List Seg → Prop
  | nil : UpToNames [] []
  | cons {a b : Seg} {as bs : List Seg} : (a.value = b.value ∨ NameVariant a b) → UpToNames as bs →
      UpToNames (a :: as) (b :: bs)

theorem seg_suffix_tok {ic : Interceptors} {s : Seg} (h : SegOk ic s) {b suf : Bytes} (hv : s.value = tok b suf)
    (hb : endByte ∉ b) : s.suffix = suf := by
  have h1 := h.seg
  rw [hv] at h1
  have := (newSegment_brace_facts h1 (tok_start b suf) (tok_end suf hb)).2.1
  rw [this]
  have := tok_drop b suf 0
  simpa using this

/-- A name variant of the child's segment is not a textual prefix situation: the child's text is
not a prefix of the remaining pattern. -/
theorem variant_not_prefix {ic : Interceptors} {ps qs : Seg} (hp : SegOk ic ps) (hq : SegOk ic qs)
    (hv : NameVariant ps qs) (F : Bytes) : ¬ qs.value <+: ps.value ++ F := by
  intro hpre
  obtain ⟨X, hX⟩ := hpre
  obtain ⟨hk, hkk, _, hsuf, _, hdiff⟩ := hv
  obtain ⟨bp, sp, hpv, hbp, hsp⟩ := hp.tok_of_kind hk
  obtain ⟨bq, sq, hqv, hbq, hsq⟩ := hq.tok_of_kind (hkk ▸ hk)
  have e1 := seg_suffix_tok hp hpv hbp.2
  have e2 := seg_suffix_tok hq hqv hbq.2
  have e : tok bq (sq ++ X) = tok bp (sp ++ F) := by
    have : tok bq sq ++ X = tok bp sp ++ F := by rw [← hqv, ← hpv]; exact hX
    simpa [tok] using this
  obtain ⟨hb, _⟩ := tok_inj hbq.2 hbp.2 e
  have hval : ps.value = qs.value := by rw [hpv, hqv, hb, ← e1, ← e2, hsuf]
  have := hp.eq_of_value hq hval
  subst this
  rcases hdiff with h | h <;> exact h rfl

/-! ## The ambiguity check on a linear chain -/

theorem checkAmb_lin {ic : Interceptors} {n m : Node} {qsegs : List Seg} {path : List Nat}
    (hl : Lin n qsegs m path) (hm : m.handlers ≠ []) (hq : ∀ s ∈ qsegs, SegOk ic s) :
    ∀ (pieces : List Bytes) (psegs : List Seg) (flag : Bool) (names : List Bytes) (has : Bool),
      Canon pieces → splitLoop ic pieces flag names = .ok psegs → UpToNames psegs qsegs →
      ∃ b, n.checkAmb ic pieces.flatten has = .ok (some b) ∧
        ((has = true ∨ pieces ≠ qsegs.map (·.value)) → b = true) := by
  induction hl with
  | nil n =>
    intro pieces psegs flag names has hc hs hu
    cases hu
    cases pieces with
    | cons pv pieces' =>
      obtain ⟨_, _, seg, segs', _, _, _, h⟩ := splitLoop_cons_inv hs
      cases h
    | nil =>
      cases n with
      | mk s p mi hs' idx cs =>
        have hlen : hs'.length > 0 := by
          cases hs' with
          | nil => exact absurd rfl hm
          | cons _ _ => simp
        refine ⟨has, by simp [Node.checkAmb, hlen], ?_⟩
        rintro (h | h)
        · exact h
        · exact absurd rfl h
  | @cons n c m segs path hch hlin ih =>
    intro pieces psegs flag names has hc hs hu
    cases hu with
    | @cons ps _ psegs' _ hR hu' =>
      cases pieces with
      | nil => simp [splitLoop] at hs
      | cons pv pieces' =>
        obtain ⟨hpvne, _, seg, segs', hseg, _, hrest, hsegs⟩ := splitLoop_cons_inv hs
        simp only [List.cons.injEq] at hsegs
        obtain ⟨rfl, rfl⟩ := hsegs
        have hpsv : ps.value = pv := newSegment_value ic pv ps hseg
        have hpok : SegOk ic ps := SegOk.of_newSegment hseg (hc.wf pv (by simp)) hpvne
        have hcok : SegOk ic c.seg := hq c.seg (by simp)
        have hq' : ∀ s ∈ segs, SegOk ic s := fun s hs => hq s (by simp [hs])
        have hPne : (pv :: pieces').flatten ≠ [] := by
          simp only [List.flatten_cons, ne_eq, List.append_eq_nil_iff, not_and]
          intro h; exact absurd h hpvne
        cases n with
        | mk s p mi hs' idx cs =>
          simp only [Node.children_mk] at hch
          subst hch
          have hemp : (pv :: pieces').flatten.isEmpty = false := by
            cases hf : (pv :: pieces').flatten with
            | nil => exact absurd hf hPne
            | cons _ _ => rfl
          simp only [Node.checkAmb, hemp, Bool.false_eq_true, if_false, checkAmbL, bind, Except.bind, pure,
            Except.pure, throw, throwThe, MonadExceptOf.throw]
          rcases hR with hval | hvar
          · -- same text: the literal-prefix branch
            have hcv : c.seg.value = pv := by rw [← hval, hpsv]
            have hpre : hasPrefix (pv :: pieces').flatten c.seg.value = true := by
              rw [hasPrefix_iff, hcv]; exact ⟨pieces'.flatten, by simp⟩
            have hdrop : (pv :: pieces').flatten.drop c.seg.value.length = pieces'.flatten := by
              rw [hcv]; simp
            obtain ⟨b, hb1, hb2⟩ := ih hm hq' pieces' psegs' _ _ has hc.tail hrest hu'
            refine ⟨b, by simp only [hpre, if_true, hdrop, hb1], ?_⟩
            rintro (h | h)
            · exact hb2 (.inl h)
            · refine hb2 (.inr ?_)
              intro e
              apply h
              simp [e, hcv]
          · -- a name variant: the `isAmbiguous` branch
            have hnp : ¬ c.seg.value <+: (pv :: pieces').flatten := by
              have := variant_not_prefix hpok hcok hvar pieces'.flatten
              simpa [hpsv] using this
            have hpre : hasPrefix (pv :: pieces').flatten c.seg.value = false := by
              cases h : hasPrefix (pv :: pieces').flatten c.seg.value with
              | false => rfl
              | true => exact absurd ((hasPrefix_iff _ _).1 h) hnp
            have hsplit := split_of_pieces hc (by simp) hs
            have hdrop : (pv :: pieces').flatten.drop ps.value.length = pieces'.flatten := by
              rw [hpsv]; simp
            have hle : ps.value.length ≤ (pv :: pieces').flatten.length := by
              rw [hpsv]; simp
            obtain ⟨b, hb1, hb2⟩ := ih hm hq' pieces' psegs' _ _ true hc.tail hrest hu'
            have hbt : b = true := hb2 (.inl rfl)
            subst hbt
            refine ⟨true, ?_, fun _ => rfl⟩
            simp only [hpre, Bool.false_eq_true, if_false, hsplit, hvar.isAmbiguous, if_true,
              sliceE_drop 251 _ hle, hdrop, hb1]


/-! ## Assembly -/

theorem splitLoop_values {ic : Interceptors} : ∀ {ps : List Bytes} {flag : Bool} {names : List Bytes} {segs : List Seg},
    splitLoop ic ps flag names = .ok segs →
      segs.map (·.value) = ps ∧ ∀ s ∈ segs, newSegment ic s.value = .ok s := by
  intro ps
  induction ps with
  | nil => intro _ _ segs h; simp [splitLoop] at h; subst h; simp
  | cons p ps ih =>
    intro flag names segs h
    obtain ⟨_, _, seg, segs', hseg, _, hrest, rfl⟩ := splitLoop_cons_inv h
    obtain ⟨h1, h2⟩ := ih hrest
    have hv := newSegment_value ic p seg hseg
    refine ⟨by simp [hv, h1], ?_⟩
    intro s hs
    rcases List.mem_cons.1 hs with rfl | hs
    · rw [hv]; exact hseg
    · exact h2 s hs

theorem segs_eq_of_values {ic : Interceptors} : ∀ {as bs : List Seg}, as.map (·.value) = bs.map (·.value) →
    (∀ s ∈ as, newSegment ic s.value = .ok s) → (∀ s ∈ bs, newSegment ic s.value = .ok s) → as = bs := by
  intro as
  induction as with
  | nil => intro bs h _ _; cases bs with
    | nil => rfl
    | cons _ _ => simp at h
  | cons a as ih =>
    intro bs h ha hb
    cases bs with
    | nil => simp at h
    | cons b bs =>
      simp only [List.map_cons, List.cons.injEq] at h
      have h1 := ha a (by simp)
      have h2 := hb b (by simp)
      rw [h.1, h2] at h1
      cases h1
      rw [ih h.2 (fun s hs => ha s (by simp [hs])) (fun s hs => hb s (by simp [hs]))]

theorem addMethodsNode_handlers_ne {t : Tree} {h : Handler} {p : Bytes} {ms : List Nat} {methods : List Bytes}
    {n n' : Node} (he : t.addMethodsNode h p ms methods n = .ok n') : n'.handlers ≠ [] := by
  unfold Tree.addMethodsNode at he
  simp only [bind, Except.bind, pure, Except.pure] at he
  split at he
  · cases he
  rename_i hs1 _
  cases he
  simp only [Node.setHandlers, Node.handlers_mk]
  generalize (if AMap.contains hs1 mOPTIONS = true then hs1
    else hs1.set mOPTIONS (wrapWith { base := t.optionsBase } mOPTIONS p t.name ms)) = hs2
  intro e
  have hk : mNotAllowed ∈ AMap.keys ([] : AMap Handler) := by
    rw [← e]
    by_cases hc : AMap.contains hs2 mNotAllowed = true
    · rw [if_pos hc]; exact (AMap.contains_iff _ _).1 hc
    · rw [if_neg hc, AMap.mem_keys_set]; exact .inr rfl
  simp [AMap.keys] at hk

theorem Lin.setTop {n m : Node} {segs : List Seg} {path : List Nat} (h : Lin n segs m path) (hne : segs ≠ [])
    {n' : Node} (hc : n'.children = n.children) : Lin n' segs m path := by
  cases h with
  | nil => exact absurd rfl hne
  | cons hch hl => exact Lin.cons (hc.trans hch) hl

/-- **One other route.** `t1` is the empty tree after ONE successful `add` of the well-formed pattern
`q`; `p ≠ q` is an accepted well-formed pattern whose segments are, one by one, the same text as `q`'s
or a name variant of it (same kind, rule, suffix, endpoint; other name or `-` flag).  Then adding `p`
to `t1` is refused as `ambiguous`. -/
theorem ambig_one (name : Bytes) (ic : Interceptors) (nf : Handler) (tr : Option Handler) (ob nb : Base)
    {q p : Bytes} {h : Handler} {ms : List Nat} {methods : List Bytes} {t1 : Tree}
    (hq : WfPattern q) (hp : WfPattern p)
    (he : (Tree.new name ic nf tr ob nb).add q h ms methods = .ok t1)
    {psegs qsegs : List Seg} (hsp : split ic p = .ok psegs) (hsq : split ic q = .ok qsegs)
    (hu : UpToNames psegs qsegs) (hne : p ≠ q) (h' : Handler) (ms' : List Nat) (methods' : List Bytes) :
    t1.add p h' ms' methods' = .error .ambiguous := by
  obtain ⟨v, rest, root1, path, root2, _, hv, hget, hmod, rfl⟩ := Tree.add_ok he
  have hqne : q ≠ [] := by intro e; subst e; simp [split] at hsq
  have hpne : p ≠ [] := by intro e; subst e; simp [split] at hsp
  have hsq' : splitLoop ic (v :: rest) false [] = .ok qsegs := by
    unfold split at hsq; rw [if_neg hqne, hv] at hsq; exact hsq
  have hsp' : splitLoop ic (splitString p) false [] = .ok psegs := by
    unfold split at hsp; rw [if_neg hpne] at hsp; exact hsp
  have hpieces : ∀ x ∈ v :: rest, x ≠ [] ∧ GoodPiece x := by
    intro x hx
    rw [← hv] at hx
    exact ⟨splitString_pieces_nonempty q hqne x hx, splitString_good q x hx⟩
  obtain ⟨_, _, m, segs, hlin, _, _, hmap, hall⟩ :=
    getNode_fresh ic _ v rest (by simp [Tree.new]) hpieces _ hget
  simp only [] at hlin hmap
  obtain ⟨hqmap, hqall⟩ := splitLoop_values hsq'
  have hsegs : segs = qsegs := segs_eq_of_values (hmap.trans hqmap.symm) hall hqall
  subst hsegs
  obtain ⟨m', hm', hlin2, _⟩ := hlin.modifyAt (fun a b hab => addMethodsNode_fields hab) root2 hmod
  have hm'ne : m'.handlers ≠ [] := addMethodsNode_handlers_ne hm'
  have hsne : segs ≠ [] := by intro e; subst e; simp at hmap
  have hqok : ∀ s ∈ segs, SegOk ic s := by
    intro s hs
    have hval : s.value ∈ v :: rest := by rw [← hmap]; exact List.mem_map_of_mem hs
    exact SegOk.of_newSegment (hall s hs) (hq _ (hv ▸ hval)) (hpieces _ hval).1
  -- the ambiguity check on the new tree
  have hroot : Lin (({ Tree.new name ic nf tr ob nb with root := root2 }).bumpMethods (effMethods methods)).root
      segs m' path := hlin2.setTop hsne (by simp [Tree.bumpMethods, Node.setHandlers])
  obtain ⟨b, hb1, hb2⟩ := checkAmb_lin (ic := ic) hroot hm'ne hqok (splitString p) psegs false [] false
    (canon_splitString hp hpne) hsp' hu
  have hbt : b = true := by
    apply hb2
    right
    rw [hmap, ← hv]
    intro e
    apply hne
    rw [← splitString_join p, ← splitString_join q, e]
  subst hbt
  rw [splitString_join] at hb1
  have hic : (({ Tree.new name ic nf tr ob nb with root := root2 }).bumpMethods (effMethods methods)).ic = ic := rfl
  rw [add_eq, hic, hb1]

end Mux.P9
