/-
  Mux.Proofs.UrlStrict — strict reverse URL building (`Tree.URL`): the loop over the chain of the node,
  index paths vs. chains, and the characterisation of every outcome of `Tree.url`, `Router.url`,
  `Facade.url` on an arbitrary tree (no invariant needed here).
-/
import Mux.Proofs.Url
import Mux.Proofs.TreeGetNode
import Mux.Proofs.RemoveNoFault
namespace Mux.P13
open Mux Mux.P9

/-! ## The strict loop -/

/-- A parameter segment has a value, and the value passes `Segment.Valid`. -/
def SegValid (env : Env) (ic : Interceptors) (ps : AMap Bytes) (s : Seg) : Prop :=
  ∃ v, ps.get? s.name = some v ∧ s.valid env ic v = some true

/-- All parameter segments of the list are valid for `ps`. -/
def AllValid (env : Env) (ic : Interceptors) (ps : AMap Bytes) (segs : List Seg) : Prop :=
  ∀ s ∈ segs, s.kind ≠ .str → SegValid env ic ps s

theorem AllValid_nil (env : Env) (ic : Interceptors) (ps : AMap Bytes) : AllValid env ic ps [] := by
  intro s hs; cases hs

theorem AllValid_cons {env : Env} {ic : Interceptors} {ps : AMap Bytes} {s : Seg} {segs : List Seg} :
    AllValid env ic ps (s :: segs) ↔ (s.kind ≠ .str → SegValid env ic ps s) ∧ AllValid env ic ps segs := by
  simp [AllValid]

/-- The strict loop succeeds iff every parameter segment has a value that is valid, and then it returns
what the non-strict loop returns on the same segments. -/
theorem strictUrlLoop_ok_iff (env : Env) (ic : Interceptors) (ps : AMap Bytes) (segs : List Seg) (u : Bytes) :
    strictUrlLoop env ic ps segs = .ok u ↔ AllValid env ic ps segs ∧ urlLoop ps segs = .ok u := by
  induction segs generalizing u with
  | nil => simp [strictUrlLoop, urlLoop, AllValid_nil]
  | cons s segs ih =>
    rw [AllValid_cons]
    simp only [strictUrlLoop, urlLoop, bind, Except.bind, pure, Except.pure]
    by_cases hk : s.kind = .str
    · simp only [hk, if_true, ne_eq, not_true_eq_false, false_implies, true_and]
      cases h1 : strictUrlLoop env ic ps segs with
      | error e =>
        cases h2 : urlLoop ps segs with
        | error e' => simp
        | ok r' =>
          simp only [reduceCtorEq, Except.ok.injEq, false_iff, not_and]
          intro hv
          have := (ih r').2 ⟨hv, h2⟩
          rw [h1] at this; cases this
      | ok r =>
        obtain ⟨hv, h2⟩ := (ih r).1 h1
        simp [h2, hv]
    · simp only [hk, if_false, ne_eq, not_false_eq_true, true_implies, SegValid]
      cases hg : AMap.get? ps s.name with
      | none => simp
      | some v =>
        simp only [Option.some.injEq, exists_eq_left']
        cases hval : s.valid env ic v with
        | none => simp
        | some b =>
          cases b with
          | false => simp
          | true =>
            simp only [true_and]
            cases h1 : strictUrlLoop env ic ps segs with
            | error e =>
              cases h2 : urlLoop ps segs with
              | error e' => simp
              | ok r' =>
                simp only [reduceCtorEq, Except.ok.injEq, false_iff, not_and]
                intro hv
                have := (ih r').2 ⟨hv, h2⟩
                rw [h1] at this; cases this
            | ok r =>
              obtain ⟨hv, h2⟩ := (ih r).1 h1
              simp [h2, hv]

/-- Why the strict loop fails: at the FIRST parameter segment that has no value (`missingParam`), or whose
value `Segment.Valid` rejects (`badValue`) or cannot judge (`unsupported`); all parameter segments
before it are valid. -/
def FirstBad (env : Env) (ic : Interceptors) (ps : AMap Bytes) (segs : List Seg) (e : Err) : Prop :=
  ∃ pre s post, segs = pre ++ s :: post ∧ AllValid env ic ps pre ∧ s.kind ≠ .str ∧
    ((ps.get? s.name = none ∧ e = .missingParam) ∨
     ∃ v, ps.get? s.name = some v ∧
       ((s.valid env ic v = some false ∧ e = .badValue) ∨ (s.valid env ic v = none ∧ e = .unsupported)))

theorem strictUrlLoop_error_iff (env : Env) (ic : Interceptors) (ps : AMap Bytes) (segs : List Seg) (e : Err) :
    strictUrlLoop env ic ps segs = .error e ↔ FirstBad env ic ps segs e := by
  induction segs with
  | nil =>
    simp only [strictUrlLoop, reduceCtorEq, false_iff]
    rintro ⟨pre, s, post, h, _⟩
    simp at h
  | cons s segs ih =>
    -- stepping over a valid head
    have step : (s.kind ≠ .str → SegValid env ic ps s) →
        (FirstBad env ic ps (s :: segs) e ↔ FirstBad env ic ps segs e) := by
      intro hs
      constructor
      · rintro ⟨pre, x, post, h, hv, hk, hbad⟩
        cases pre with
        | nil =>
          simp only [List.nil_append, List.cons.injEq] at h
          obtain ⟨rfl, rfl⟩ := h
          obtain ⟨v, hg, hval⟩ := hs hk
          rcases hbad with ⟨h1, _⟩ | ⟨v', h1, h2⟩
          · rw [hg] at h1; cases h1
          · rw [hg] at h1; cases h1
            rw [hval] at h2
            rcases h2 with ⟨h2, _⟩ | ⟨h2, _⟩ <;> cases h2
        | cons y pre =>
          simp only [List.cons_append, List.cons.injEq] at h
          obtain ⟨rfl, rfl⟩ := h
          exact ⟨pre, x, post, rfl, (AllValid_cons.1 hv).2, hk, hbad⟩
      · rintro ⟨pre, x, post, rfl, hv, hk, hbad⟩
        exact ⟨s :: pre, x, post, rfl, AllValid_cons.2 ⟨hs, hv⟩, hk, hbad⟩
    simp only [strictUrlLoop, bind, Except.bind, pure, Except.pure]
    by_cases hk : s.kind = .str
    · simp only [hk, if_true]
      rw [step (fun h => absurd hk h), ← ih]
      cases strictUrlLoop env ic ps segs <;> simp
    · simp only [hk, if_false]
      cases hg : AMap.get? ps s.name with
      | none =>
        simp only [Except.error.injEq]
        constructor
        · rintro rfl
          exact ⟨[], s, segs, rfl, AllValid_nil _ _ _, hk, .inl ⟨hg, rfl⟩⟩
        · rintro ⟨pre, x, post, h, hv, hkx, hbad⟩
          cases pre with
          | nil =>
            simp only [List.nil_append, List.cons.injEq] at h
            obtain ⟨rfl, rfl⟩ := h
            rcases hbad with ⟨_, rfl⟩ | ⟨v, h1, _⟩
            · rfl
            · rw [hg] at h1; cases h1
          | cons y pre =>
            simp only [List.cons_append, List.cons.injEq] at h
            obtain ⟨rfl, rfl⟩ := h
            obtain ⟨v, h1, _⟩ := (AllValid_cons.1 hv).1 hk
            rw [hg] at h1; cases h1
      | some v =>
        have hhead : ∀ b, s.valid env ic v = b → b ≠ some true → ∀ e0,
            ((b = some false ∧ e0 = Err.badValue) ∨ (b = none ∧ e0 = Err.unsupported)) →
            (e0 = e ↔ FirstBad env ic ps (s :: segs) e) := by
          intro b hb hne e0 he0
          constructor
          · rintro rfl
            refine ⟨[], s, segs, rfl, AllValid_nil _ _ _, hk, .inr ⟨v, hg, ?_⟩⟩
            rw [hb]; exact he0
          · rintro ⟨pre, x, post, h, hv, hkx, hbad⟩
            cases pre with
            | nil =>
              simp only [List.nil_append, List.cons.injEq] at h
              obtain ⟨rfl, rfl⟩ := h
              rcases hbad with ⟨h1, _⟩ | ⟨v', h1, h2⟩
              · rw [hg] at h1; cases h1
              · rw [hg] at h1; cases h1
                rw [hb] at h2
                rcases he0 with ⟨rfl, rfl⟩ | ⟨rfl, rfl⟩ <;> rcases h2 with ⟨h2, rfl⟩ | ⟨h2, rfl⟩ <;>
                  first | rfl | cases h2
            | cons y pre =>
              simp only [List.cons_append, List.cons.injEq] at h
              obtain ⟨rfl, rfl⟩ := h
              obtain ⟨v', h1, h2⟩ := (AllValid_cons.1 hv).1 hk
              rw [hg] at h1; cases h1
              rw [hb] at h2
              exact absurd h2 hne
        cases hval : s.valid env ic v with
        | none =>
          simp only [hval, Except.error.injEq]
          exact hhead none hval (by simp) _ (.inr ⟨rfl, rfl⟩)
        | some b =>
          cases b with
          | false =>
            simp only [hval, Except.error.injEq]
            exact hhead (some false) hval (by simp) _ (.inl ⟨rfl, rfl⟩)
          | true =>
            simp only [hval]
            rw [step (fun _ => ⟨v, hg, hval⟩), ← ih]
            cases strictUrlLoop env ic ps segs <;> simp

/-- `Segment.Valid` cannot judge only regexp segments: a non-ASCII value under a rule with a wide
class, or a non-ASCII suffix (which `NewSegment` never lets into a tree, see `valid_none_of_segOk`). -/
theorem valid_none_iff (env : Env) (ic : Interceptors) (s : Seg) (v : Bytes) :
    s.valid env ic v = none ↔
      s.kind = .rx ∧ ((s.re.wide = true ∧ isAscii v = false) ∨ isAscii s.suffix = false) := by
  cases hk : s.kind with
  | str => simp [Seg.valid, hk]
  | icpt => simp [Seg.valid, hk]
  | named => simp [Seg.valid, hk]
  | rx =>
    rw [Seg.valid_rx_eq env ic s v hk]
    simp only [true_and]
    split
    · rename_i h
      simpa using h
    · rename_i h
      constructor
      · intro h'; split at h' <;> cases h'
      · intro h'; exact absurd (by simpa using h') h

/-! ## Index paths and chains -/

theorem segsAtL_eq (cs : List Node) (i : Nat) (p : List Nat) :
    segsAtL cs i p = (cs[i]?).bind (fun c => (c.segsAt p).map (c.seg :: ·)) := by
  induction cs generalizing i with
  | nil => simp [segsAtL]
  | cons c cs ih =>
    cases i with
    | zero => simp [segsAtL]
    | succ i => simp [segsAtL, ih]

@[simp] theorem Node.segsAt_nil (n : Node) : n.segsAt [] = some [] := by
  cases n; simp [Node.segsAt]

theorem Node.segsAt_cons (n : Node) (i : Nat) (p : List Nat) :
    n.segsAt (i :: p) = (n.children[i]?).bind (fun c => (c.segsAt p).map (c.seg :: ·)) := by
  cases n; simp [Node.segsAt, segsAtL_eq]

/-- An index path that leads to a node also yields the segments on the way, and these form a chain. -/
theorem getAt_chain : ∀ (p : List Nat) (n x : Node), n.getAt p = some x →
    ∃ segs, n.segsAt p = some segs ∧ Chain n segs x ∧ segs.length = p.length := by
  intro p
  induction p with
  | nil =>
    intro n x h
    simp only [Node.getAt_nil, Option.some.injEq] at h
    subst h
    exact ⟨[], by simp, Chain.nil _, rfl⟩
  | cons i p ih =>
    intro n x h
    rw [Node.getAt_cons] at h
    cases hc : n.children[i]? with
    | none => rw [hc] at h; cases h
    | some c =>
      rw [hc] at h
      simp only [Option.bind_some] at h
      obtain ⟨segs, h1, h2, h3⟩ := ih c x h
      refine ⟨c.seg :: segs, ?_, Chain.cons (List.mem_of_getElem? hc) h2, by simp [h3]⟩
      rw [Node.segsAt_cons, hc]
      simp [h1]

theorem segsAt_none_iff (p : List Nat) (n : Node) : n.segsAt p = none ↔ n.getAt p = none := by
  induction p generalizing n with
  | nil => simp
  | cons i p ih =>
    rw [Node.getAt_cons, Node.segsAt_cons]
    cases hc : n.children[i]? with
    | none => simp
    | some c => simp [ih c]

/-! ## `Tree.url` -/

/-- The two ways `Tree.URL` can go. -/
theorem Tree.url_cases (env : Env) (t : Tree) (pattern : Bytes) (ps : AMap Bytes) :
    (t.root.findPath pattern = none ∧ t.url env pattern ps = .error .notRoute) ∨
    ∃ p n segs, t.root.findPath pattern = some p ∧ t.root.getAt p = some n ∧ t.root.segsAt p = some segs ∧
      Chain t.root segs n ∧
      t.url env pattern ps = if n.handlers = [] then .error .notRoute else strictUrlLoop env t.ic ps segs := by
  unfold Tree.url
  cases hf : t.root.findPath pattern with
  | none => exact .inl ⟨rfl, rfl⟩
  | some p =>
    right
    have hsome := findPath_valid t.root pattern p hf
    cases hg : t.root.getAt p with
    | none => rw [hg] at hsome; cases hsome
    | some n =>
      obtain ⟨segs, h1, h2, _⟩ := getAt_chain p t.root n hg
      refine ⟨p, n, segs, rfl, hg, h1, h2, ?_⟩
      simp only [h1, hg, Node.size]
      by_cases hz : n.handlers = []
      · simp [hz]
      · have : n.handlers.length ≠ 0 := fun h => hz (List.eq_nil_of_length_eq_zero h)
        simp [hz, this]

/-- Every successful `Tree.URL`: `find` located a node, the node has handlers, and the strict loop ran
over the chain of segments from the root to that node. -/
theorem Tree.url_ok_iff (env : Env) (t : Tree) (pattern : Bytes) (ps : AMap Bytes) (u : Bytes) :
    t.url env pattern ps = .ok u ↔
      ∃ p n segs, t.root.findPath pattern = some p ∧ t.root.getAt p = some n ∧ t.root.segsAt p = some segs ∧
        Chain t.root segs n ∧ n.handlers ≠ [] ∧ strictUrlLoop env t.ic ps segs = .ok u := by
  rcases Tree.url_cases env t pattern ps with ⟨h1, h2⟩ | ⟨p, n, segs, h1, h2, h3, h4, h5⟩
  · rw [h2]
    constructor
    · intro h; cases h
    · rintro ⟨p, _, _, hp, _⟩; rw [h1] at hp; cases hp
  · rw [h5]
    constructor
    · intro h
      by_cases hz : n.handlers = []
      · rw [if_pos hz] at h; cases h
      · rw [if_neg hz] at h
        exact ⟨p, n, segs, h1, h2, h3, h4, hz, h⟩
    · rintro ⟨p', n', segs', h1', h2', h3', _, hz, h⟩
      rw [h1] at h1'; cases h1'
      rw [h2] at h2'; cases h2'
      rw [h3] at h3'; cases h3'
      rw [if_neg hz]; exact h

/-- Every failing `Tree.URL`: `notRoute` iff `find` fails or finds a node without handlers; otherwise
the error of the strict loop.  The fault site 270 is unreachable. -/
theorem Tree.url_error_iff (env : Env) (t : Tree) (pattern : Bytes) (ps : AMap Bytes) (e : Err) :
    t.url env pattern ps = .error e ↔
      (e = .notRoute ∧ (t.root.findPath pattern = none ∨
        ∃ p n, t.root.findPath pattern = some p ∧ t.root.getAt p = some n ∧ n.handlers = [])) ∨
      (∃ p n segs, t.root.findPath pattern = some p ∧ t.root.getAt p = some n ∧ t.root.segsAt p = some segs ∧
        Chain t.root segs n ∧ n.handlers ≠ [] ∧ FirstBad env t.ic ps segs e) := by
  rcases Tree.url_cases env t pattern ps with ⟨h1, h2⟩ | ⟨p, n, segs, h1, h2, h3, h4, h5⟩
  · rw [h2]
    constructor
    · intro h; cases h; exact .inl ⟨rfl, .inl h1⟩
    · rintro (⟨rfl, _⟩ | ⟨p, _, _, hp, _⟩)
      · rfl
      · rw [h1] at hp; cases hp
  · rw [h5]
    constructor
    · intro h
      by_cases hz : n.handlers = []
      · rw [if_pos hz] at h; cases h
        exact .inl ⟨rfl, .inr ⟨p, n, h1, h2, hz⟩⟩
      · rw [if_neg hz] at h
        exact .inr ⟨p, n, segs, h1, h2, h3, h4, hz, (strictUrlLoop_error_iff _ _ _ _ _).1 h⟩
    · rintro (⟨rfl, hp | ⟨p', n', h1', h2', hz⟩⟩ | ⟨p', n', segs', h1', h2', h3', _, hz, h⟩)
      · rw [h1] at hp; cases hp
      · rw [h1] at h1'; cases h1'
        rw [h2] at h2'; cases h2'
        rw [if_pos hz]
      · rw [h1] at h1'; cases h1'
        rw [h2] at h2'; cases h2'
        rw [h3] at h3'; cases h3'
        rw [if_neg hz]; exact (strictUrlLoop_error_iff _ _ _ _ _).2 h

/-! ## `Router.url`, `Facade.url` -/

/-- `Router.URL` in strict mode: the URL domain followed by `Tree.URL` of the pattern; the empty pattern
is not looked up. -/
theorem Router.url_strict_eq (env : Env) (r : Router) (pattern : Bytes) (ps : AMap Bytes) :
    r.url env true pattern ps =
      if pattern = [] then .ok r.urlDomain
      else match r.tree.url env pattern ps with
        | .ok u => .ok (r.urlDomain ++ u)
        | .error e => .error e := by
  unfold Router.url
  by_cases hp : pattern = []
  · subst hp; simp [bind, Except.bind, pure, Except.pure]
  · have : pattern.length ≠ 0 := fun h => hp (List.eq_nil_of_length_eq_zero h)
    simp only [this, if_false, if_true, hp, bind, Except.bind, pure, Except.pure]
    cases r.tree.url env pattern ps <;> rfl

theorem Router.url_strict_ok_iff (env : Env) (r : Router) (pattern : Bytes) (ps : AMap Bytes) (u : Bytes) :
    r.url env true pattern ps = .ok u ↔
      (pattern = [] ∧ u = r.urlDomain) ∨
      (pattern ≠ [] ∧ ∃ u', r.tree.url env pattern ps = .ok u' ∧ u = r.urlDomain ++ u') := by
  rw [Router.url_strict_eq]
  by_cases hp : pattern = []
  · simp [hp, eq_comm]
  · simp only [hp, if_false, false_and, false_or, ne_eq, not_false_eq_true, true_and]
    cases r.tree.url env pattern ps with
    | error e => simp
    | ok u' => simp [eq_comm]

theorem Router.url_strict_error_iff (env : Env) (r : Router) (pattern : Bytes) (ps : AMap Bytes) (e : Err) :
    r.url env true pattern ps = .error e ↔ pattern ≠ [] ∧ r.tree.url env pattern ps = .error e := by
  rw [Router.url_strict_eq]
  by_cases hp : pattern = []
  · simp [hp]
  · simp only [hp, if_false, ne_eq, not_false_eq_true, true_and]
    cases r.tree.url env pattern ps <;> simp

/-- Non-strict `Router.URL`. -/
theorem Router.url_nonstrict_eq (env : Env) (r : Router) (pattern : Bytes) (ps : AMap Bytes) :
    r.url env false pattern ps =
      match muxURL pattern ps with
      | .ok u => .ok (r.urlDomain ++ u)
      | .error e => .error e := by
  unfold Router.url muxURL
  by_cases hp : pattern = []
  · subst hp
    by_cases hps : ps.length = 0
    · simp [hps, bind, Except.bind, pure, Except.pure]
    · simp [hps, bind, Except.bind, pure, Except.pure, urlNonStrict, Interceptors.url]
  · have : pattern.length ≠ 0 := fun h => hp (List.eq_nil_of_length_eq_zero h)
    simp only [this, if_false, Bool.false_eq_true, bind, Except.bind, pure, Except.pure]
    by_cases hps : ps.length = 0
    · simp [hps]
    · simp only [hps, if_false]
      cases urlNonStrict pattern ps <;> rfl

theorem Facade.url_eq (env : Env) (p : Facade) (r : Router) (strict : Bool) (pattern : Bytes) (ps : AMap Bytes) :
    p.url env r strict pattern ps = r.url env strict (p.pattern ++ pattern) ps := rfl

end Mux.P13
