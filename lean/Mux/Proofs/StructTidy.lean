/-
  Mux.Proofs.StructTidy — segment texts without stray braces (`Tidy`), and what `newSegment`,
  `longestPrefix`, `Seg.similarity` and `scanChildren` do on them.  Used to prove that literal
  siblings start with distinct bytes in trees built from tidy patterns (`StructDistinct.lean`).
-/
import Mux.Proofs.StructBasic
namespace Mux.P8
open Mux

/-! ## Tidy texts -/

/-- No brace at all. -/
def NoBrace (v : Bytes) : Prop := startByte ∉ v ∧ endByte ∉ v

/-- `{inner}tail` with no further brace. -/
def TokForm (v : Bytes) : Prop :=
  ∃ inner tail, v = startByte :: (inner ++ endByte :: tail) ∧ NoBrace inner ∧ NoBrace tail

/-- A segment text is tidy when it is brace-free literal text or one parameter token followed by
brace-free text. -/
def Tidy (v : Bytes) : Prop := NoBrace v ∨ TokForm v

instance (v : Bytes) : Decidable (NoBrace v) := by unfold NoBrace; infer_instance

theorem NoBrace.take {v : Bytes} (h : NoBrace v) (k : Nat) : NoBrace (v.take k) :=
  ⟨fun hm => h.1 (List.mem_of_mem_take hm), fun hm => h.2 (List.mem_of_mem_take hm)⟩

theorem NoBrace.drop {v : Bytes} (h : NoBrace v) (k : Nat) : NoBrace (v.drop k) :=
  ⟨fun hm => h.1 (List.mem_of_mem_drop hm), fun hm => h.2 (List.mem_of_mem_drop hm)⟩

theorem NoBrace.nil : NoBrace [] := ⟨by simp, by simp⟩

theorem NoBrace.of_cons {x : UInt8} {v : Bytes} (h : NoBrace (x :: v)) : x ≠ startByte ∧ x ≠ endByte ∧ NoBrace v := by
  obtain ⟨h1, h2⟩ := h
  simp only [List.mem_cons, not_or] at h1 h2
  exact ⟨fun e => h1.1 e.symm, fun e => h2.1 e.symm, h1.2, h2.2⟩

theorem TokForm.has_braces {v : Bytes} (h : TokForm v) : startByte ∈ v ∧ endByte ∈ v := by
  obtain ⟨inner, tail, rfl, _, _⟩ := h
  simp

theorem TokForm.not_noBrace {v : Bytes} (h : TokForm v) : ¬ NoBrace v := fun hn => hn.1 h.has_braces.1

/-! ## `newSegment`: literal iff not both braces -/

theorem finishRuled_kind {ic : Interceptors} {v : Bytes} {st en sp : Nat} {s : Seg}
    (h : finishRuled ic v st en sp = .ok s) : s.kind = .icpt ∨ s.kind = .rx := by
  unfold finishRuled at h
  simp only at h
  split at h
  · cases h; exact .inl rfl
  · split at h
    · cases h
    · split at h
      · cases h
      · cases h; exact .inr rfl

theorem newSegment_lit_iff (ic : Interceptors) (v : Bytes) (s : Seg) (h : newSegment ic v = .ok s) :
    s.kind = .str ↔ ¬ (startByte ∈ v ∧ endByte ∈ v) := by
  rw [newSegment_closed] at h
  split at h
  · cases h
  cases hst : indexByte startByte v with
  | none =>
    have hn : startByte ∉ v := indexByte_eq_none_iff.1 hst
    rw [hst] at h
    simp only [Except.ok.injEq] at h
    subst h
    simp [hn]
  | some st =>
    cases hen : indexByte endByte v with
    | none =>
      have hn : endByte ∉ v := indexByte_eq_none_iff.1 hen
      rw [hst, hen] at h
      simp only [Except.ok.injEq] at h
      subst h
      simp [hn]
    | some en =>
      have h1 : startByte ∈ v := Classical.byContradiction fun hn => by
          rw [indexByte_eq_none_iff.2 hn] at hst; cases hst
      have h2 : endByte ∈ v := Classical.byContradiction fun hn => by
          rw [indexByte_eq_none_iff.2 hn] at hen; cases hen
      rw [hst, hen] at h
      simp only [h1, h2, and_self, not_true_eq_false, iff_false]
      simp only at h
      repeat' split at h
      all_goals first
        | (cases h; simp [mkNamed])
        | cases h
        | (rcases finishRuled_kind h with hk | hk <;> simp [hk])

theorem Tidy.lit_iff {ic : Interceptors} {v : Bytes} {s : Seg} (ht : Tidy v) (h : newSegment ic v = .ok s) :
    s.kind = .str ↔ NoBrace v := by
  rw [newSegment_lit_iff ic v s h]
  rcases ht with hn | htok
  · simp [hn, hn.1]
  · have := htok.has_braces
    simp only [this, and_self, not_true_eq_false, false_iff]
    exact htok.not_noBrace

/-! ## `longestPrefix` on tidy texts -/

/-- Outside braces, on brace-free text, the scan returns the length of the common prefix. -/
theorem lp_ge : ∀ (a b : Bytes) (i : Nat) (st en : Int), NoBrace a → NoBrace b → en + 1 < (i : Int) →
    (i : Int) ≤ lpLoop a b i st en false := by
  intro a
  induction a with
  | nil =>
    intro b i st en _ _ hi
    simp only [lpLoop]
    rw [if_neg (by omega)]
    exact Int.le_refl _
  | cons x a ih =>
    intro b i st en ha hb hi
    cases b with
    | nil =>
      simp only [lpLoop]
      rw [if_neg (by omega)]
      exact Int.le_refl _
    | cons y b =>
      obtain ⟨hx1, hx2, ha'⟩ := ha.of_cons
      obtain ⟨_, _, hb'⟩ := hb.of_cons
      simp only [lpLoop]
      split
      · rw [if_neg (by simp; omega)]
        exact Int.le_refl _
      · have := ih b (i + 1) st en ha' hb' (by push_cast; omega)
        push_cast at this
        omega

/-- Inside the braces of two tokens: either the scan gives up at the token start (`st`), or the
tokens are equal and the result lies at least one byte past the closing brace. -/
theorem lp_inner : ∀ (in1 in2 t1 t2 : Bytes) (i : Nat) (st en : Int),
    NoBrace in1 → NoBrace in2 → NoBrace t1 → NoBrace t2 →
    lpLoop (in1 ++ endByte :: t1) (in2 ++ endByte :: t2) i st en true = st ∨
      (in1 = in2 ∧ ((i + in1.length + 2 : Nat) : Int) ≤ lpLoop (in1 ++ endByte :: t1) (in2 ++ endByte :: t2) i st en true) := by
  intro in1
  induction in1 with
  | nil =>
    intro in2 t1 t2 i st en _ h2 ht1 ht2
    cases in2 with
    | nil =>
      have hes : ¬ (endByte = startByte) := by decide
      simp only [List.nil_append, List.length_nil]
      -- one byte past the closing brace
      cases t1 with
      | nil => left; simp [lpLoop, hes]
      | cons x t1 =>
        cases t2 with
        | nil => left; simp [lpLoop, hes]
        | cons y t2 =>
          obtain ⟨hx1, hx2, ht1'⟩ := ht1.of_cons
          obtain ⟨_, _, ht2'⟩ := ht2.of_cons
          simp only [lpLoop, hes, ↓reduceIte, ne_eq, not_true_eq_false]
          split
          · left; simp
          · right
            refine ⟨trivial, ?_⟩
            have := lp_ge t1 t2 (i + 1 + 1) st (i : Int) ht1' ht2' (by push_cast; omega)
            push_cast at this ⊢
            omega
    | cons y in2 =>
      obtain ⟨_, hy2, _⟩ := h2.of_cons
      left
      simp only [List.nil_append, List.cons_append, lpLoop]
      rw [if_pos (fun e => hy2 e.symm)]
      simp
  | cons x in1 ih =>
    intro in2 t1 t2 i st en h1 h2 ht1 ht2
    obtain ⟨hx1, hx2, h1'⟩ := h1.of_cons
    cases in2 with
    | nil =>
      left
      simp only [List.nil_append, List.cons_append, lpLoop]
      rw [if_pos hx2]
      simp
    | cons y in2 =>
      obtain ⟨_, _, h2'⟩ := h2.of_cons
      simp only [List.cons_append, lpLoop]
      split
      · left; simp
      · rename_i hxy
        have hxy' : x = y := by simpa using hxy
        rcases ih in2 t1 t2 (i + 1) st en h1' h2' ht1 ht2 with h | ⟨e, h⟩
        · exact .inl h
        · right
          refine ⟨by rw [hxy', e], ?_⟩
          simp only [List.length_cons]
          push_cast at h ⊢
          omega

/-- Brace-free texts with the same first byte share a prefix of length `≥ 1`. -/
theorem longestPrefix_noBrace_pos {x : UInt8} {a b : Bytes} (ha : NoBrace (x :: a)) (hb : NoBrace (x :: b)) :
    1 ≤ longestPrefix (x :: a) (x :: b) := by
  obtain ⟨hx1, hx2, ha'⟩ := ha.of_cons
  obtain ⟨_, _, hb'⟩ := hb.of_cons
  unfold longestPrefix
  simp only [lpLoop, ne_eq, not_true_eq_false, if_false]
  rw [if_neg hx1, if_neg hx2]
  have := lp_ge a b (0 + 1) (-10) (-10) ha' hb' (by simp)
  simpa using this

/-- Two tokens with a positive common part have the same `{inner}` and the cut lies at least one
byte past the closing brace. -/
theorem longestPrefix_tok {in1 in2 t1 t2 : Bytes} (h1 : NoBrace in1) (h2 : NoBrace in2) (ht1 : NoBrace t1) (ht2 : NoBrace t2)
    (hpos : 0 < longestPrefix (startByte :: (in1 ++ endByte :: t1)) (startByte :: (in2 ++ endByte :: t2))) :
    in1 = in2 ∧ ((in1.length + 3 : Nat) : Int) ≤
      longestPrefix (startByte :: (in1 ++ endByte :: t1)) (startByte :: (in2 ++ endByte :: t2)) := by
  unfold longestPrefix at hpos ⊢
  simp only [lpLoop, ne_eq, not_true_eq_false, if_false, if_true, Bool.false_eq_true] at hpos ⊢
  rcases lp_inner in1 in2 t1 t2 (0 + 1) ((0 : Nat) : Int) (-10) h1 h2 ht1 ht2 with h | ⟨e, h⟩
  · rw [h] at hpos; simp at hpos
  · refine ⟨e, ?_⟩
    push_cast at h ⊢
    omega

/-! ## Cutting a tidy text at the position `longestPrefix` returns -/

theorem TokForm.take {in1 t1 : Bytes} (h1 : NoBrace in1) (ht1 : NoBrace t1) {L : Nat} (hL : in1.length + 3 ≤ L) :
    TokForm ((startByte :: (in1 ++ endByte :: t1)).take L) ∧ NoBrace ((startByte :: (in1 ++ endByte :: t1)).drop L) := by
  obtain ⟨k, rfl⟩ : ∃ k, L = in1.length + 2 + k := ⟨L - (in1.length + 2), by omega⟩
  have e : startByte :: (in1 ++ endByte :: t1) = (startByte :: (in1 ++ [endByte])) ++ t1 := by simp
  have hl : (startByte :: (in1 ++ [endByte])).length = in1.length + 2 := by simp
  constructor
  · refine ⟨in1, t1.take k, ?_, h1, ht1.take k⟩
    rw [e, List.take_append, hl, List.take_of_length_le (by simp)]
    simp
  · rw [e, List.drop_append, hl]
    simp only [Nat.add_sub_cancel_left]
    rw [List.drop_of_length_le (by simp)]
    simpa using ht1.drop k

/-! ## `Seg.similarity` and `scanChildren` -/

theorem similarity_pos {c s : Seg} {l : Int} (h : c.similarity s = l) (hl : 0 < l) :
    c.kind = s.kind ∧ l = longestPrefix s.value c.value := by
  unfold Seg.similarity at h
  split at h
  · omega
  · split at h
    · omega
    · rename_i hk
      exact ⟨(Decidable.of_not_not hk).symm, h.symm⟩

theorem similarity_of_eq {c s : Seg} (h : s.value = c.value) : c.similarity s = -1 := by
  unfold Seg.similarity; rw [if_pos h]

theorem similarity_same_kind {c s : Seg} (hv : s.value ≠ c.value) (hk : s.kind = c.kind) :
    c.similarity s = longestPrefix s.value c.value := by
  unfold Seg.similarity; rw [if_neg hv, if_neg (by simp [hk])]

theorem scanChildren_best {seg : Seg} : ∀ {cs : List Node} {i0 : Nat} {l0 : Int} {b0 : Nat} {l : Int} {b : Nat},
    scanChildren seg cs i0 l0 b0 = .best l b →
    l0 ≤ l ∧ (∀ c ∈ cs, c.seg.similarity seg ≤ l ∧ c.seg.similarity seg ≠ -1) ∧
      ((l = l0 ∧ b = b0) ∨ ∃ k c, cs[k]? = some c ∧ b = i0 + k ∧ c.seg.similarity seg = l ∧ l0 < l) := by
  intro cs
  induction cs with
  | nil =>
    intro i0 l0 b0 l b h
    simp only [scanChildren, Best.best.injEq] at h
    obtain ⟨rfl, rfl⟩ := h
    exact ⟨Int.le_refl _, by simp, .inl ⟨rfl, rfl⟩⟩
  | cons c cs ih =>
    intro i0 l0 b0 l b h
    simp only [scanChildren] at h
    split at h
    · cases h
    · rename_i hne
      split at h
      · rename_i hgt
        obtain ⟨h1, h2, h3⟩ := ih h
        refine ⟨by omega, ?_, ?_⟩
        · intro x hx
          rcases List.mem_cons.1 hx with rfl | hx
          · exact ⟨h1, hne⟩
          · exact h2 x hx
        · right
          rcases h3 with ⟨e1, e2⟩ | ⟨k, c', hk, hb, hs, hlt⟩
          · exact ⟨0, c, rfl, by simpa using e2, e1.symm, by omega⟩
          · exact ⟨k + 1, c', by simpa using hk, by omega, hs, by omega⟩
      · rename_i hgt
        obtain ⟨h1, h2, h3⟩ := ih h
        refine ⟨h1, ?_, ?_⟩
        · intro x hx
          rcases List.mem_cons.1 hx with rfl | hx
          · exact ⟨by omega, hne⟩
          · exact h2 x hx
        · rcases h3 with h3 | ⟨k, c', hk, hb, hs, hlt⟩
          · exact .inl h3
          · exact .inr ⟨k + 1, c', by simpa using hk, by omega, hs, hlt⟩

end Mux.P8
