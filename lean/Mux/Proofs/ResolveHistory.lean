/-
  Mux.Proofs.ResolveHistory — C02 part B4 at tree level: after an add-only history of well-formed
  patterns (any order, any accept/reject verdicts) the tree is in canonical form for its own route
  table: `KidsCanon t.root.children ((tableOf t).patterns.map (fun p => (p, p)))`.

  `FInv t tb`: the simulation invariant of C03 (`Sim`, giving the shape invariant `Sh` and
  `tableOf t ≈ tb`) together with "every node below the root is forked or its pattern is in `tb`".
-/
import Mux.Proofs.ResolveForked
import Mux.Proofs.Table
import Mux.Proofs.Names
namespace Mux.P15
open Mux Mux.P11

/-! ## `modifyAt` with a shape-keeping function keeps `TL` -/

theorem Forked_congr {cs cs' : List Node} (h : cs'.map P8.sigc = cs.map P8.sigc) (hf : Forked cs) : Forked cs' := by
  refine Forked_of_heads ?_ hf
  intro d hd
  have : P8.sigc d ∈ cs'.map P8.sigc := by rw [h]; exact List.mem_map_of_mem hd
  obtain ⟨d', hd', e⟩ := List.mem_map.1 this
  have : d'.seg = d.seg := congrArg Prod.fst e
  exact ⟨d', hd', by rw [this]⟩

theorem modifyAt_TL {live : List Bytes} (f : Node → Except Err Node) (hf : P8.KeepsShapeE f) :
    ∀ (path : List Nat) (n n' : Node), Node.All (TL live) n → n.modifyAt f path = .ok n' →
      P8.sigc n' = P8.sigc n ∧ Node.All (TL live) n' := by
  intro path
  induction path with
  | nil =>
    intro n n' hn h
    cases n
    simp only [Node.modifyAt] at h
    obtain ⟨h1, h2, _, h4⟩ := hf _ _ h
    refine ⟨by simp [P8.sigc, h1, h2], ?_⟩
    rw [Node.All_iff] at hn ⊢
    refine ⟨?_, by rw [h4]; exact hn.2⟩
    unfold TL at *
    rw [h2, h4]; exact hn.1
  | cons i path ih =>
    intro n n' hn h
    cases n with
    | mk s p mi hs idx cs =>
      simp only [Node.modifyAt, bind, Except.bind, pure, Except.pure] at h
      split at h
      · simp at h
      rename_i cs' hcs'
      simp only [Except.ok.injEq] at h
      subst h
      obtain ⟨h1, h2⟩ := P8.modifyAtL_SOk f path ih cs i cs' hn.2 hcs'
      refine ⟨rfl, ?_, h2⟩
      rcases hn.1 with hl | hfk
      · exact .inl hl
      · exact .inr (Forked_congr h1 hfk)

/-! ## The table's patterns after `Spec.add` -/

theorem mem_patterns_add (tb : Spec.Table) (p : Bytes) (methods : List Bytes) (q : Bytes) :
    q ∈ (Spec.add tb p methods).patterns ↔ q ∈ tb.patterns ∨ q = p := by
  have key : ∀ ms : List Bytes,
      q ∈ (if tb.any (·.1 = p) then tb.map (fun e => if e.1 = p then (e.1, e.2 ++ ms) else e)
            else tb ++ [(p, ms)]).map (·.1) ↔ q ∈ tb.map (·.1) ∨ q = p := by
    intro ms
    split
    · rename_i hany
      rw [List.map_map]
      have : (fun e : Bytes × List Bytes => e.1) ∘ (fun e => if e.1 = p then (e.1, e.2 ++ ms) else e) =
          fun e => e.1 := by
        funext e; simp only [Function.comp]; split <;> rfl
      rw [this]
      constructor
      · exact .inl
      · rintro (h | rfl)
        · exact h
        · rw [List.any_eq_true] at hany
          obtain ⟨e, he, hep⟩ := hany
          exact List.mem_map.2 ⟨e, he, by simpa using hep⟩
    · simp
  exact key _

/-! ## The invariant -/

/-- Pieces after the first one start with `{`. -/
theorem headsOk_of_split {p v : Bytes} {rest : List Bytes} (hsp : splitString p = v :: rest) : HeadsOk rest := by
  obtain ⟨f, tl, e, _, ht⟩ := splitAux_shape false [] p
  have : (splitString p).tail = tl := by unfold splitString; rw [e]; rfl
  rw [hsp] at this
  simp only [List.tail_cons] at this
  subst this
  exact ht

structure FInv (t : Tree) (tb : Spec.Table) : Prop where
  sim : Sim t tb
  forked : AllL (TL tb.patterns) t.root.children

theorem FInv.new (name : Bytes) (ic : Interceptors) (nf : Handler) (tr : Option Handler) (ob nb : Base) :
    FInv (Tree.new name ic nf tr ob nb) [] :=
  ⟨Sim.new name ic nf tr ob nb, by simp [Tree.new, AllL]⟩

/-- One `add` step keeps the invariant (accepted or rejected). -/
theorem FInv.step_add {t : Tree} {tb : Spec.Table} (h : FInv t tb) (p : Bytes) (hd : Handler) (ms : List Nat)
    (methods : List Bytes) (hw : WfPattern p = true) :
    FInv (t.step (.add p hd ms methods)) (Spec.stepWith t tb (.add p hd ms methods)) := by
  refine ⟨h.sim.step _ hw, ?_⟩
  simp only [Tree.step, Spec.stepWith]
  cases he : t.add p hd ms methods with
  | error e => exact h.forked
  | ok t' =>
    simp only []
    obtain ⟨segs, v, rest, root1, path, root2, hsplit, _, hsp, hget, hmod, rfl⟩ := P11.add_ok' he
    have hinv := h.sim.inv
    have hpc := split_pieces t.ic hw hsplit hsp
    have hmono := (TL_mono (live := tb.patterns) (live' := (Spec.add tb p methods).patterns)
      (fun q hq => (mem_patterns_add tb p methods q).2 (.inl hq))).2 _ h.forked
    have htgt : t.root.pattern ++ v ++ rest.flatten ∈ (Spec.add tb p methods).patterns := by
      rw [hinv.rootPat, List.nil_append, ← List.flatten_cons, ← hsp, splitString_join]
      exact (mem_patterns_add tb p methods p).2 (.inr rfl)
    have hf := getNode_forked t.ic _ t.root v rest (root1, path) hinv.sh hmono hpc (headsOk_of_split hsp) htgt hget
    have G := getNode_shape t.ic t.root v rest (root1, path) hinv.sh hpc hget
    -- `TL` of the new root itself is irrelevant: wrap the children into a node that is live
    have hroot1 : Node.All (TL (root1.pattern :: (Spec.add tb p methods).patterns)) root1 := by
      rw [Node.All_iff]
      exact ⟨.inl List.mem_cons_self, (TL_mono (fun q hq => List.mem_cons_of_mem _ hq)).2 _ hf.all⟩
    obtain ⟨hsig, hall2⟩ := modifyAt_TL _ (P8.addMethodsNode_shape t hd p ms (effMethods methods)) path root1 root2 hroot1 hmod
    have hkids : AllL (TL (root1.pattern :: (Spec.add tb p methods).patterns)) root2.children := hall2.tail
    -- the extra pattern is the root's (empty) pattern, which no node below the root carries
    have hrp : root1.pattern = [] := by rw [G.pat]; exact hinv.rootPat
    simp only [Tree.bumpMethods, Node.setHandlers, Node.children_mk]
    have hsim' : Sim (t.step (.add p hd ms methods)) (Spec.stepWith t tb (.add p hd ms methods)) := h.sim.step _ hw
    simp only [Tree.step, Spec.stepWith, he, Tree.bumpMethods, Node.setHandlers] at hsim'
    have hsh' := hsim'.inv.sh
    simp only at hsh'
    rw [(All_iff_nodes _).2] at hkids ⊢
    intro x hx
    rcases hkids x hx with hl | hfk
    · rcases List.mem_cons.1 hl with e | hl
      · -- impossible: a node below the root has a non-empty pattern
        obtain ⟨r, hr, hxr⟩ := below_pattern t.ic _ hsh' x (by simpa using hx)
        simp only [Node.pattern_mk] at hxr
        have hp2 : root2.pattern = [] := by
          have := congrArg Prod.snd hsig
          simp only [P8.sigc] at this
          rw [this, hrp]
        rw [hp2, List.nil_append] at hxr
        rw [hrp] at e
        rw [e] at hxr
        exact absurd hxr.symm hr
      · exact .inl hl
    · exact .inr hfk

/-- A history that only registers. -/
def AddOnly (ops : List TOp) : Prop := ∀ op ∈ ops, ∃ p h ms methods, op = .add p h ms methods

theorem FInv.run {t : Tree} {tb : Spec.Table} (h : FInv t tb) (ops : List TOp) (ha : AddOnly ops)
    (hw : ∀ op ∈ ops, op.wf = true) : FInv (t.run ops) (specRunFrom t tb ops) := by
  unfold Tree.run
  induction ops generalizing t tb with
  | nil => exact h
  | cons op ops ih =>
    simp only [List.foldl_cons, specRunFrom]
    obtain ⟨p, hd, ms, methods, rfl⟩ := ha _ List.mem_cons_self
    exact ih (h.step_add p hd ms methods (hw _ List.mem_cons_self))
      (fun o ho => ha o (List.mem_cons_of_mem _ ho)) (fun o ho => hw o (List.mem_cons_of_mem _ ho))

/-! ## From the invariant to the canonical form -/

/-- A node below the root whose pattern is in the table has handlers. -/
theorem live_of_mem {t : Tree} {tb : Spec.Table} (h : Sim t tb) {x : Node} (hx : x ∈ nodesL t.root.children)
    (hp : x.pattern ∈ tb.patterns) : x.handlers ≠ [] := by
  obtain ⟨e, he, hep⟩ := List.mem_map.1 hp
  obtain ⟨m, hm⟩ := List.exists_mem_of_ne_nil _ (h.ok.nonempty e he)
  have hhas : tb.has x.pattern m := ⟨e.2, by rw [← hep]; exact he, hm⟩
  obtain ⟨e', he', hq, _⟩ := (has_tableOf t _ _).1 ((h.has _ _).2 hhas)
  obtain ⟨y, hy, hyh, rfl⟩ := mem_liveL.1 he'
  have : y = x := node_unique h.inv.sh hy hx hq
  subst this
  exact hyh

theorem kidsCanon_of_kidsOk {ic : Interceptors} {pp : Bytes} {cs : List Node} (hsh : ShL ic pp cs) (hk : KidsOk cs) :
    KidsCanon cs (remsL cs) := by
  refine ⟨?_, ?_⟩
  · rw [hk.1, List.map_map]; exact List.Perm.refl _
  · rw [hk.1, CanonL_iff]
    intro c hc g hgm hv
    obtain ⟨d, hd, rfl⟩ := List.mem_map.1 hgm
    have : d = c := ShL.eq_of_value hsh hd hc hv
    subst this
    exact (hk.2 d hd).1

/-- **B4.** The tree is in canonical form for its own route table. -/
theorem canonical_of_FInv {t : Tree} {tb : Spec.Table} (h : FInv t tb) :
    KidsCanon t.root.children ((tableOf t).patterns.map (fun p => (p, p))) := by
  have hsh := h.sim.inv.sh
  have hTT : AllL TT t.root.children := by
    have := h.forked
    rw [(All_iff_nodes _).2] at this ⊢
    intro x hx
    rcases this x hx with hl | hf
    · exact .inl (live_of_mem h.sim hx hl)
    · exact .inr hf
  have hk := (canon_rems t.ic t.root hsh hTT).1
  have := kidsCanon_of_kidsOk hsh.head hk
  rw [remsL_root hsh h.sim.inv.rootPat] at this
  rw [tableOf_patterns]
  exact this

/-! ## The three notions of "well-formed pattern" -/

theorem pieces_of_wf {p : Bytes} (hw : WfPattern p = true) : ∀ q ∈ splitString p, q = [] ∨ WfVal q :=
  splitAux_wf false [] p (fun _ => .inl rfl) (fun h => by cases h) hw

/-- Balanced, non-nested braces: every piece is brace-free text or `{token}` + brace-free text. -/
theorem tidy_of_wf {p : Bytes} (hw : WfPattern p = true) : P8.TidyPattern p := by
  intro q hq
  rcases pieces_of_wf hw q hq with rfl | ⟨_, hp⟩ | ⟨ia, sa, e, hia, hsa⟩
  · exact .inl P8.NoBrace.nil
  · exact .inl hp
  · exact .inr ⟨ia, sa, e, hia, hsa⟩

theorem wfPiece_of_wf {p : Bytes} (hw : WfPattern p = true) : P9.WfPattern p := by
  intro q hq
  rcases pieces_of_wf hw q hq with rfl | ⟨_, hp⟩ | ⟨ia, sa, e, hia, hsa⟩
  · exact .inl P9.NoBrace.nil
  · exact .inl hp
  · exact .inr ⟨ia, sa, e, hia, hsa⟩

theorem reachTidy_of_wf (name : Bytes) (ic : Interceptors) (nf : Handler) (tr : Option Handler) (ob nb : Base)
    (ops : List TOp) (hw : ∀ op ∈ ops, op.wf = true) : P8.ReachTidy ((Tree.new name ic nf tr ob nb).run ops) := by
  refine ⟨name, ic, nf, tr, ob, nb, ops, ?_, rfl⟩
  intro op hop
  cases op with
  | add p h ms methods => exact tidy_of_wf (hw _ hop)
  | _ => trivial

theorem reachWf_of_wf (name : Bytes) (ic : Interceptors) (nf : Handler) (tr : Option Handler) (ob nb : Base)
    (ops : List TOp) (hw : ∀ op ∈ ops, op.wf = true) : P9.ReachWf ((Tree.new name ic nf tr ob nb).run ops) := by
  refine ⟨name, ic, nf, tr, ob, nb, ops, ?_, rfl⟩
  intro op hop
  cases op with
  | add p h ms methods => exact wfPiece_of_wf (hw _ hop)
  | _ => trivial

/-- The invariant of an add-only history of well-formed patterns. -/
theorem finv_history (name : Bytes) (ic : Interceptors) (nf : Handler) (tr : Option Handler) (ob nb : Base)
    (ops : List TOp) (ha : AddOnly ops) (hw : ∀ op ∈ ops, op.wf = true) :
    FInv ((Tree.new name ic nf tr ob nb).run ops) (specRun (Tree.new name ic nf tr ob nb) ops) :=
  (FInv.new name ic nf tr ob nb).run ops ha hw

/-! ## Histories in which every registration is accepted -/

/-- Every `add` of the history succeeds (on the tree it is applied to). -/
def Accepted : Tree → List TOp → Prop
  | _, [] => True
  | t, op :: ops =>
    (match op with
     | .add p h ms methods => ∃ t', t.add p h ms methods = .ok t'
     | _ => True) ∧ Accepted (t.step op) ops

/-- The patterns of the table after an add-only history all of whose registrations are accepted: the
old ones and the registered ones. -/
theorem patterns_of_accepted : ∀ (ops : List TOp) (t : Tree) (tb : Spec.Table), AddOnly ops → Accepted t ops →
    ∀ q, q ∈ (specRunFrom t tb ops).patterns ↔ q ∈ tb.patterns ∨ ∃ h ms methods, TOp.add q h ms methods ∈ ops
  | [], t, tb, _, _, q => by simp [specRunFrom]
  | op :: ops, t, tb, ha, hacc, q => by
    obtain ⟨p, hd, ms, methods, rfl⟩ := ha _ List.mem_cons_self
    obtain ⟨⟨t', ht'⟩, hrest⟩ := hacc
    rw [specRunFrom, patterns_of_accepted ops _ _ (fun o ho => ha o (List.mem_cons_of_mem _ ho)) hrest q]
    simp only [Spec.stepWith, ht']
    rw [mem_patterns_add]
    constructor
    · rintro ((h | rfl) | ⟨h, ms', me', hm⟩)
      · exact .inl h
      · exact .inr ⟨hd, ms, methods, List.mem_cons_self⟩
      · exact .inr ⟨h, ms', me', List.mem_cons_of_mem _ hm⟩
    · rintro (h | ⟨h, ms', me', hm⟩)
      · exact .inl (.inl h)
      · rcases List.mem_cons.1 hm with e | hm
        · cases e; exact .inl (.inr rfl)
        · exact .inr ⟨h, ms', me', hm⟩

end Mux.P15
