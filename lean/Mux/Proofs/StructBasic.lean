/-
  Mux.Proofs.StructBasic — the structural node invariant `SOk` (I-seg: pattern and segment part,
  I-sort, I-index of DESIGN §4.4) and the list lemmas behind it.

  `SOk ic n` only looks at `n.pattern`, `n.indexes` and, of every child, at `(seg, pattern)`
  (`sigc`).  So replacing a child by one with the same `sigc` keeps it (`SOk.congr`), deleting
  children and rebuilding the index keeps it (`SOk.of_sublist`), and `sortNode` establishes it
  (`SOk.of_sortNode`).
-/
import Mux.Proofs.TreeReach
import Mux.Proofs.Syntax
import Mux.Proofs.Priority
namespace Mux.P8
open Mux

/-! ## What a parent sees of a child -/

/-- The part of a child its parent's invariant talks about. -/
def sigc (c : Node) : Seg × Bytes := (c.seg, c.pattern)

/-- The conditions on one child of a node whose pattern is `pp`: the child's pattern extends `pp` by
the child's segment text, the text is not empty, and the segment is what `newSegment` makes of the
text. -/
def ChildOk (ic : Interceptors) (pp : Bytes) (c : Node) : Prop :=
  c.pattern = pp ++ c.seg.value ∧ c.seg.value ≠ [] ∧ newSegment ic c.seg.value = .ok c.seg

/-- Children ordered by kind: literal, interceptor, regexp, named. -/
def RankSorted (cs : List Node) : Prop := cs.Pairwise (fun a b => a.seg.kind.rank ≤ b.seg.kind.rank)

/-- The structural invariant of one node. -/
structure SOk (ic : Interceptors) (n : Node) : Prop where
  child : ∀ c ∈ n.children, ChildOk ic n.pattern c
  sorted : RankSorted n.children
  index : buildIndexes n.children = .ok n.indexes

theorem ChildOk.sig {ic : Interceptors} {pp : Bytes} {a b : Node} (h : sigc a = sigc b) (ha : ChildOk ic pp a) :
    ChildOk ic pp b := by
  simp only [sigc, Prod.mk.injEq] at h
  unfold ChildOk at *
  rw [← h.1, ← h.2]; exact ha

/-- Two admissible children with the same text look the same to the parent. -/
theorem ChildOk.sig_eq {ic : Interceptors} {pp : Bytes} {a b : Node} (ha : ChildOk ic pp a) (hb : ChildOk ic pp b)
    (hv : a.seg.value = b.seg.value) : sigc a = sigc b := by
  have hs : a.seg = b.seg := by
    have h1 := ha.2.2
    rw [hv, hb.2.2] at h1
    exact (Except.ok.inj h1).symm
  simp only [sigc, Prod.mk.injEq]
  exact ⟨hs, by rw [ha.1, hb.1, hs]⟩

/-! ## `List.set` with a look-alike -/

theorem map_sigc_set {cs : List Node} {i : Nat} {c c' : Node} (hc : cs[i]? = some c) (hs : sigc c' = sigc c) :
    (cs.set i c').map sigc = cs.map sigc := by
  rw [List.map_set, hs]
  apply List.ext_getElem?
  intro j
  by_cases hj : i = j
  · subst hj
    have hlt := (List.getElem?_eq_some_iff.1 hc).1
    rw [List.getElem?_set_self (by simpa using hlt)]
    simp [hc]
  · rw [List.getElem?_set_ne hj]

/-! ## `buildIndexes` looks at the segments only -/

theorem buildIndexesLoop_congr : ∀ (cs cs' : List Node) (i : Nat) (acc : List (UInt8 × Nat)),
    cs.map (·.seg) = cs'.map (·.seg) → buildIndexesLoop cs i acc = buildIndexesLoop cs' i acc
  | [], [], _, _, _ => rfl
  | [], _ :: _, _, _, h => by simp at h
  | _ :: _, [], _, _, h => by simp at h
  | c :: cs, c' :: cs', i, acc, h => by
    simp only [List.map_cons, List.cons.injEq] at h
    simp only [buildIndexesLoop, h.1]
    split
    · split
      · rfl
      · exact buildIndexesLoop_congr cs cs' _ _ h.2
    · exact buildIndexesLoop_congr cs cs' _ _ h.2

theorem buildIndexes_congr {cs cs' : List Node} (h : cs.map sigc = cs'.map sigc) :
    buildIndexes cs = buildIndexes cs' := by
  have h1 : cs.map (·.seg) = cs'.map (·.seg) := by
    have := congrArg (List.map Prod.fst) h
    simpa [List.map_map, sigc, Function.comp_def] using this
  have hl : cs.length = cs'.length := by
    have := congrArg List.length h1
    simpa using this
  unfold buildIndexes
  rw [hl, buildIndexesLoop_congr cs cs' 0 [] h1]

/-! ## Sorting -/

theorem rank_le_of_priority_le {a b : Node} (h : a.priority ≤ b.priority) : a.seg.kind.rank ≤ b.seg.kind.rank := by
  unfold Node.priority at h
  split at h <;> split at h <;> split at h <;> split at h <;> omega

theorem rankSorted_sortChildren (cs : List Node) : RankSorted (sortChildren cs) := by
  unfold RankSorted sortChildren
  have := List.pairwise_mergeSort (le := fun a b : Node => decide (a.priority ≤ b.priority))
    (by intro a b c h1 h2; simp only [decide_eq_true_eq] at *; omega)
    (by intro a b; simp only [Bool.or_eq_true, decide_eq_true_eq]; omega) cs
  refine this.imp ?_
  intro a b h
  exact rank_le_of_priority_le (by simpa using h)

theorem rankSorted_iff_map (cs : List Node) :
    RankSorted cs ↔ (cs.map sigc).Pairwise (fun a b => a.1.kind.rank ≤ b.1.kind.rank) := by
  unfold RankSorted
  rw [List.pairwise_map]
  rfl

theorem RankSorted.of_map_sublist {cs cs' : List Node} (hs : (cs'.map sigc).Sublist (cs.map sigc))
    (h : RankSorted cs) : RankSorted cs' := by
  rw [rankSorted_iff_map] at *
  exact h.sublist hs

theorem childOk_of_map_sublist {ic : Interceptors} {pp : Bytes} {cs cs' : List Node}
    (hs : (cs'.map sigc).Sublist (cs.map sigc)) (h : ∀ c ∈ cs, ChildOk ic pp c) : ∀ c ∈ cs', ChildOk ic pp c := by
  intro c hc
  have : sigc c ∈ cs.map sigc := hs.subset (List.mem_map_of_mem hc)
  obtain ⟨d, hd, hsd⟩ := List.mem_map.1 this
  exact (h d hd).sig hsd

/-! ## The three ways a node is rebuilt -/

/-- Children deleted (and possibly replaced by look-alikes), index rebuilt. -/
theorem SOk.of_sublist {ic : Interceptors} {n m : Node} (h : SOk ic n) (hp : m.pattern = n.pattern)
    (hs : (m.children.map sigc).Sublist (n.children.map sigc))
    (hi : buildIndexes m.children = .ok m.indexes) : SOk ic m :=
  ⟨by rw [hp]; exact childOk_of_map_sublist hs h.child, h.sorted.of_map_sublist hs, hi⟩

/-- Children replaced by look-alikes, index kept. -/
theorem SOk.congr {ic : Interceptors} {n m : Node} (h : SOk ic n) (hp : m.pattern = n.pattern)
    (hi : m.indexes = n.indexes) (hs : m.children.map sigc = n.children.map sigc) : SOk ic m :=
  h.of_sublist hp (by rw [hs]; exact List.Sublist.refl _) (by rw [hi, buildIndexes_congr hs]; exact h.index)

/-- `sortNode` on admissible children. -/
theorem SOk.of_sortNode {ic : Interceptors} {m n1 : Node} (hc : ∀ c ∈ m.children, ChildOk ic m.pattern c)
    (hs : sortNode m = .ok n1) :
    SOk ic n1 ∧ n1.seg = m.seg ∧ n1.pattern = m.pattern ∧ n1.children = sortChildren m.children := by
  obtain ⟨idx, hidx, rfl⟩ := sortNode_ok hs
  refine ⟨⟨?_, ?_, ?_⟩, rfl, rfl, rfl⟩
  · intro c hcm
    exact hc c ((sortChildren_perm m.children).mem_iff.1 (by simpa [Node.setChildren] using hcm))
  · simpa [Node.setChildren] using rankSorted_sortChildren m.children
  · simpa [Node.setChildren] using hidx

/-! ## `removeNodes`, `foldl removeNodes` on the signatures -/

theorem foldl_removeNodes_sublist (vs : List Bytes) (cs : List Node) : (vs.foldl removeNodes cs).Sublist cs := by
  induction vs generalizing cs with
  | nil => exact List.Sublist.refl _
  | cons v vs ih => exact (ih _).trans (removeNodes_sublist cs v)

/-! ## Segment facts -/

theorem splitAt_ok {ic : Interceptors} {s s1 s2 : Seg} {l : Nat} (h : s.splitAt ic l = .ok (s1, s2)) :
    l ≤ s.value.length ∧ newSegment ic (s.value.take l) = .ok s1 ∧ newSegment ic (s.value.drop l) = .ok s2 ∧
      s1.value = s.value.take l ∧ s2.value = s.value.drop l := by
  unfold Seg.splitAt at h
  simp only [bind, Except.bind, pure, Except.pure] at h
  split at h
  · simp at h
  rename_i v1 hv1
  split at h
  · simp at h
  rename_i t1 ht1
  split at h
  · simp at h
  rename_i v2 hv2
  split at h
  · simp at h
  rename_i t2 ht2
  simp only [Except.ok.injEq, Prod.mk.injEq] at h
  obtain ⟨rfl, rfl⟩ := h
  unfold sliceE at hv1 hv2
  split at hv1
  · rename_i hb
    split at hv2
    · simp only [Except.ok.injEq, List.drop_zero, List.take_length] at hv1 hv2
      subst hv1; subst hv2
      exact ⟨hb.2, ht1, ht2, newSegment_value _ _ _ ht1, newSegment_value _ _ _ ht2⟩
    · simp at hv2
  · simp at hv1

theorem kind_str_of_rank_le {k k' : Kind} (h : k.rank ≤ k'.rank) (hk : k' = .str) : k = .str := by
  subst hk
  cases k <;> simp [Kind.rank] at h ⊢

end Mux.P8
