/-
  Mux.Proofs.MatchCap — matcher soundness once more (`Mux/Proofs/MatchSound.lean`), remembering for every
  segment of the justifying chain the call of `Segment.Match` that produced its value (`CapOk`).  Misses are
  taken from the existing theorem; only the hit cases are redone.  Consequence: a value captured by dispatch
  at a regexp segment passes `Segment.Valid`.
-/
import Mux.Proofs.HandlerSound
import Mux.Proofs.RxStable
import Mux.Proofs.Url
namespace Mux.P13
open Mux

/-- `v` is what `Segment.Match` of `s` captured on some path. -/
def CapOk (env : Env) (ic : Interceptors) (s : Seg) (v : Bytes) : Prop :=
  ∃ path rest, s.match env ic path = .yes v rest

def HitN2 (env : Env) (ic : Interceptors) (n : Node) (path : Bytes) (ps : Params) (m : Node) (ps' : Params) : Prop :=
  ∃ chain : List (Seg × Bytes),
    Chain n (chain.map (·.1)) m ∧ path = instChain chain ∧
    (∀ sv ∈ chain, sv.1.Satisfies env ic sv.2 ∧ CapOk env ic sv.1 sv.2) ∧ m.handlers ≠ [] ∧
    (∀ used, TrackN used n ps → ps' = ps ++ captures chain)

def HitL2 (env : Env) (ic : Interceptors) (cs : List Node) (path : Bytes) (ps : Params) (m : Node) (ps' : Params) : Prop :=
  ∃ c ∈ cs, ∃ (cap : Bytes) (chain : List (Seg × Bytes)),
    Chain c (chain.map (·.1)) m ∧ path = instChain ((c.seg, cap) :: chain) ∧
    (∀ sv ∈ (c.seg, cap) :: chain, sv.1.Satisfies env ic sv.2 ∧ CapOk env ic sv.1 sv.2) ∧ m.handlers ≠ [] ∧
    (∀ used, TrackL used cs ps → ps' = ps ++ captures ((c.seg, cap) :: chain))

theorem HitL2.tail {env : Env} {ic : Interceptors} {d : Node} {cs : List Node} {path : Bytes} {ps : Params} {m : Node}
    {ps' : Params} (h : HitL2 env ic cs path ps m ps') : HitL2 env ic (d :: cs) path ps m ps' := by
  obtain ⟨c, hc, cap, chain, h1, h2, h3, h4, h5⟩ := h
  exact ⟨c, List.mem_cons_of_mem _ hc, cap, chain, h1, h2, h3, h4,
    fun used ht => h5 used ⟨ht.1.2.2, ht.2.1.2, ht.2.2⟩⟩

theorem hit_of_child2 {env : Env} {ic : Interceptors} {cs : List Node} {c : Node} (hc : c ∈ cs)
    {path cap rest : Bytes} {ps : Params} (hm : c.seg.match env ic path = .yes cap rest)
    {m : Node} {ps' : Params} (h : HitN2 env ic c rest (c.seg.record cap ps) m ps') :
    HitL2 env ic cs path ps m ps' := by
  obtain ⟨chain, h1, h2, h3, h4, h5⟩ := h
  obtain ⟨e1, e2, _⟩ := Seg.match_sound env ic c.seg path cap rest hm
  refine ⟨c, hc, cap, chain, h1, ?_, ?_, h4, ?_⟩
  · rw [e1, h2]; rfl
  · intro sv hsv
    rcases List.mem_cons.1 hsv with rfl | hsv
    · exact ⟨e2, path, rest, hm⟩
    · exact h3 sv hsv
  · intro used ht
    obtain ⟨hfresh, hok⟩ := NamesOkL_mem ht.1 hc
    obtain ⟨r1, r2, _⟩ := record_spec (s := c.seg) cap hfresh ht.2.2
    rw [h5 _ ⟨hok, AllL_mem ht.2.1 hc, r2⟩, r1, List.append_assoc, ← captures_cons]

mutual
theorem matchChildren_hit2 (env : Env) (ic : Interceptors) : (n : Node) → (path : Bytes) → (ps : Params) →
    (m : Node) → (ps' : Params) → n.matchChildren env ic path ps = .hit m ps' → HitN2 env ic n path ps m ps'
  | .mk seg pat mi hs idx cs, path, ps, m, ps', h => by
    rw [Node.matchChildren_eq] at h
    have lift : ∀ {ps0}, (∀ used, TrackN used (.mk seg pat mi hs idx cs) ps → ps0 = ps) →
        HitL2 env ic cs path ps0 m ps' → HitN2 env ic (.mk seg pat mi hs idx cs) path ps m ps' := by
      intro ps0 h0 ⟨c, hc, cap, chain, h1, h2, h3, h4, h5⟩
      refine ⟨(c.seg, cap) :: chain, Chain.cons hc h1, h2, h3, h4, ?_⟩
      intro used ht
      have := h0 used ht
      subst this
      exact h5 used ⟨ht.1, ht.2.1.2, ht.2.2⟩
    cases hf : fastPath env ic idx cs path ps with
    | hit m1 ps1 =>
      rw [hf] at h
      simp only [MR.hit.injEq] at h
      obtain ⟨rfl, rfl⟩ := h
      unfold fastPath at hf
      split at hf
      · exact lift (fun _ _ => rfl) (matchAt_hit2 env ic cs _ _ ps m1 ps1 hf)
      · cases hf
    | fault s => rw [hf] at h; cases h
    | unsupported => rw [hf] at h; cases h
    | miss ps1 =>
      rw [hf] at h
      simp only at h
      -- a tracked miss of the fast path leaves the parameters alone (existing theorem)
      have hfast : ∀ used, TrackN used (.mk seg pat mi hs idx cs) ps → ps1 = ps := by
        unfold fastPath at hf
        split at hf
        · rename_i hd tl b tl'
          have := matchAt_post env ic cs ((idxLookup (hd :: tl) b).getD 0) (b :: tl') ps
          rw [hf] at this
          intro used ht
          refine this used ⟨ht.1, ht.2.1.2, ht.2.2⟩ ?_
          intro c hc
          exact ht.2.1.1 (by simp [Node.indexes]) b c hc
        · cases hf; intro _ _; rfl
      cases hr : matchFrom env ic cs idx.length path ps1 with
      | hit m2 ps2 =>
        rw [hr] at h
        simp only [MR.hit.injEq] at h
        obtain ⟨rfl, rfl⟩ := h
        exact lift hfast (matchFrom_hit2 env ic cs idx.length path ps1 m2 ps2 hr)
      | fault s => rw [hr] at h; cases h
      | unsupported => rw [hr] at h; cases h
      | miss ps2 =>
        rw [hr] at h
        simp only at h
        have hfr := matchFrom_post env ic cs idx.length path ps1
        rw [hr] at hfr
        split at h
        · rename_i hcond
          simp only [MR.hit.injEq] at h
          obtain ⟨rfl, rfl⟩ := h
          refine ⟨[], Chain.nil _, ?_, ?_, ?_, ?_⟩
          · show path = []; simpa using hcond.1
          · intro sv hsv; cases hsv
          · intro hnil
            have := hcond.2
            simp only [Node.handlers] at hnil
            rw [hnil] at this
            exact absurd this (by simp)
          · intro used ht
            have e1 := hfast used ht
            subst e1
            rw [hfr used ⟨ht.1, ht.2.1.2, ht.2.2⟩]; simp [captures]
        · cases h

theorem matchAt_hit2 (env : Env) (ic : Interceptors) : (cs : List Node) → (i : Nat) → (path : Bytes) → (ps : Params) →
    (m : Node) → (ps' : Params) → matchAt env ic cs i path ps = .hit m ps' → HitL2 env ic cs path ps m ps'
  | [], _, _, _, _, _, h => by rw [matchAt] at h; cases h
  | c :: cs, 0, path, ps, m, ps', h => by
    rw [matchAt] at h
    cases hm : c.seg.match env ic path with
    | no => rw [hm] at h; cases h
    | unsupported => rw [hm] at h; cases h
    | yes cap rest =>
      rw [hm] at h
      simp only at h
      have ih := matchChildren_hit2 env ic c rest (c.seg.record cap ps) m ps' (by unfold Seg.record; exact h)
      exact hit_of_child2 List.mem_cons_self hm ih
  | d :: cs, i + 1, path, ps, m, ps', h => by
    rw [matchAt] at h
    exact (matchAt_hit2 env ic cs i path ps m ps' h).tail

theorem matchFrom_hit2 (env : Env) (ic : Interceptors) : (cs : List Node) → (skip : Nat) → (path : Bytes) → (ps : Params) →
    (m : Node) → (ps' : Params) → matchFrom env ic cs skip path ps = .hit m ps' → HitL2 env ic cs path ps m ps'
  | [], _, _, _, _, _, h => by rw [matchFrom] at h; cases h
  | d :: cs, skip + 1, path, ps, m, ps', h => by
    rw [matchFrom] at h
    exact (matchFrom_hit2 env ic cs skip path ps m ps' h).tail
  | c :: cs, 0, path, ps, m, ps', h => by
    rw [matchFrom] at h
    have tailStep : ∀ ps0, (∀ used, TrackL used (c :: cs) ps → ps0 = ps) →
        matchFrom env ic cs 0 path ps0 = .hit m ps' → HitL2 env ic (c :: cs) path ps m ps' := by
      intro ps0 h0 hr
      obtain ⟨c', hc', cap, chain, h1, h2, h3, h4, h5⟩ := matchFrom_hit2 env ic cs 0 path ps0 m ps' hr
      refine ⟨c', List.mem_cons_of_mem _ hc', cap, chain, h1, h2, h3, h4, ?_⟩
      intro used ht
      have := h0 used ht
      subst this
      exact h5 used ⟨ht.1.2.2, ht.2.1.2, ht.2.2⟩
    cases hm : c.seg.match env ic path with
    | no => rw [hm] at h; exact tailStep ps (fun _ _ => rfl) h
    | unsupported => rw [hm] at h; cases h
    | yes cap rest =>
      rw [hm] at h
      simp only at h
      cases hr : Node.matchChildren env ic c rest
          (if c.seg.kind ≠ .str ∧ ¬ c.seg.ignoreName then ps.set c.seg.name cap else ps) with
      | hit m2 ps2 =>
        rw [hr] at h
        simp only [MR.hit.injEq] at h
        obtain ⟨rfl, rfl⟩ := h
        have ih := matchChildren_hit2 env ic c rest (c.seg.record cap ps) m2 ps2 (by unfold Seg.record; exact hr)
        exact hit_of_child2 List.mem_cons_self hm ih
      | fault s => rw [hr] at h; cases h
      | unsupported => rw [hr] at h; cases h
      | miss ps2 =>
        rw [hr] at h
        simp only at h
        have ihm := Node.matchChildren_post env ic c rest (c.seg.record cap ps)
        unfold Seg.record at ihm
        rw [hr] at ihm
        exact tailStep _ (fun used ht => miss_of_child (cap := cap) List.mem_cons_self ihm ht) h
end

/-- `Tree.handler_found` with the provenance of every value. -/
theorem handler_found2 {env : Env} {t : Tree} {path : Bytes} {ps : Params} {method : Bytes} {f : Found} {n : Node}
    (hT : t.Tracks ps) (hp : path ≠ []) (hs : path ≠ [42]) (htr : t.trace = none ∨ method ≠ mTRACE)
    (h : t.handler env path ps method = .res f) (hf : f.node = some n) :
    ∃ chain : List (Seg × Bytes),
      chain ≠ [] ∧ Chain t.root (chain.map (·.1)) n ∧ path = instChain chain ∧
      (∀ sv ∈ chain, sv.1.Satisfies env t.ic sv.2 ∧ CapOk env t.ic sv.1 sv.2) ∧
      f.params = ps ++ captures chain ∧ n.handlers ≠ [] := by
  rw [Tree.handler_noTrace htr] at h
  rcases handlerNoTrace_res h with ⟨_, _, hnone, _⟩ | ⟨_, _, _, _, hnone, _⟩ | ⟨m, ps', hr, hne, hsome, hps, _⟩
  · rw [hnone] at hf; cases hf
  · rw [hnone] at hf; cases hf
  · rw [hsome] at hf
    cases hf
    rw [Tree.matchRes_of_ne hp hs] at hr
    obtain ⟨chain, h1, h2, h3, _, h5⟩ := matchChildren_hit2 env t.ic t.root path ps n ps' hr
    refine ⟨chain, ?_, h1, h2, h3, ?_, hne⟩
    · rintro rfl
      exact hp h2
    · rw [hps]
      exact h5 ps.keys ⟨(Node.namesOk_iff _ _).2 hT.names, hT.idx, fun _ hk => hk⟩

/-! ## A captured value is valid -/

theorem isAscii_of_append_left {a b : Bytes} (h : isAscii (a ++ b) = true) : isAscii a = true := by
  rw [isAscii_append] at h
  simp only [Bool.and_eq_true] at h
  exact h.1

/-- **Dispatch ⇒ `Valid`.** A value that `Segment.Match` captured (on any path) passes `Segment.Valid`: trivially
for named segments, by the interceptor for interceptor segments, and for regexp segments because the leftmost-first
match is stable under cutting off the rest of the path (`rxMatch_stable`). -/
theorem valid_of_capOk {env : Env} {ic : Interceptors} {s : Seg} {v : Bytes} (h : CapOk env ic s v) :
    s.valid env ic v = some true := by
  obtain ⟨path, rest, hm⟩ := h
  cases hk : s.kind with
  | str => exact Seg.valid_str env ic s v hk
  | named => exact Seg.valid_named env ic s v hk
  | icpt =>
    rw [Seg.valid_icpt env ic s v hk]
    have := (Seg.match_sound env ic s path v rest hm).2.1
    simp only [Seg.Satisfies, hk] at this
    rw [this]
  | rx =>
    rw [Seg.valid_rx_eq env ic s v hk]
    simp only [Seg.match, hk] at hm
    split at hm
    · cases hm
    · rename_i hdom
      cases hx : rxMatch s.re s.suffix path with
      | none => rw [hx] at hm; cases hm
      | some cr =>
        obtain ⟨cap, rest'⟩ := cr
        rw [hx] at hm
        simp only [MatchRes.yes.injEq] at hm
        obtain ⟨rfl, rfl⟩ := hm
        obtain ⟨hpath, _⟩ := rxMatch_sound _ _ _ _ _ hx
        subst hpath
        have hst := rxMatch_stable s.re s.suffix cap rest' hx
        have hdom' : ¬ ((s.re.wide = true ∧ ¬ isAscii cap = true) ∨ ¬ isAscii s.suffix = true) := by
          rintro (⟨hw, ha⟩ | ha)
          · apply hdom
            left
            refine ⟨hw, fun hasc => ha ?_⟩
            exact isAscii_of_append_left (isAscii_of_append_left hasc)
          · exact hdom (.inr ha)
        rw [if_neg hdom', hst]

end Mux.P13
