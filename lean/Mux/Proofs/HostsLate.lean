/-
  Mux.Proofs.HostsLate — the private tree of a `Hosts` matcher after ANY history of
      Add (domain with balanced, non-nested braces) | Delete | RegisterInterceptor(rule)
  — `RegisterInterceptor` at any time, also while stored regexp segments use `rule` — satisfies the two
  hypotheses of the matcher-soundness theorems: `NamesOkL []` and `IdxLit`.

  The invariant that survives a late registration (`LateInv`): every stored segment is `newSegment ic₀` of its own
  text for SOME table `ic₀` (the one in force when the segment was made), parameter names are pairwise distinct
  along every chain (`WfXL`), children are ordered by kind and the index is the built one (`SX`).  It does not
  mention the current table at all, so `RegisterInterceptor` keeps it trivially; `Add` keeps it by
  `getNode_wfX`/`getNode_SX`, `Delete` by `removeAt_wfX`/`P8.removeAt_SOk`.
-/
import Mux.Proofs.HostsLateStruct
import Mux.Proofs.HostsReach
namespace Mux.P17
open Mux Mux.P8 Mux.P9 Mux.P12 Mux.P14

/-- The invariant of the private tree that survives `RegisterInterceptor` at any time. -/
structure LateInv (t : Tree) : Prop where
  wf : WfXL [] t.root.children
  sx : Node.All SX t.root

theorem LateInv.new (name : Bytes) (ic : Interceptors) (nf : Handler) (tr : Option Handler) (ob nb : Base) :
    LateInv (Tree.new name ic nf tr ob nb) := by
  refine ⟨by simp [Tree.new, WfXL], ?_⟩
  simp only [Tree.new, Node.All, AllL, and_true]
  exact ⟨by simp [RankSorted], by simp [buildIndexes, indexesSize]⟩

/-- The table is not part of the invariant. -/
theorem LateInv.setIc {t : Tree} (h : LateInv t) (ic' : Interceptors) : LateInv { t with ic := ic' } :=
  ⟨h.wf, h.sx⟩

theorem setHandlers_AllSX {n : Node} (hs : AMap Handler) (mi : Nat) (h : Node.All SX n) :
    Node.All SX (n.setHandlers hs mi) :=
  (All_of_shape SX.closed (n' := n.setHandlers hs mi) h ⟨rfl, rfl, rfl, rfl⟩).2

theorem LateInv.of_root {t : Tree} {root' : Node} {counts' : AMap Nat} {hs : AMap Handler} {mi : Nat}
    (hw : WfXL [] root'.children) (ha : Node.All SX root') :
    LateInv { t with counts := counts', root := root'.setHandlers hs mi } :=
  ⟨by simpa [Node.setHandlers] using hw, setHandlers_AllSX hs mi ha⟩

/-- **`Tree.add` of a well-formed pattern keeps the invariant** — whatever tables the stored segments were parsed
under. -/
theorem LateInv.add {t t' : Tree} {p : Bytes} {h : Handler} {ms : List Nat} {methods : List Bytes}
    (hinv : LateInv t) (hp : P9.WfPattern p) (he : t.add p h ms methods = .ok t') : LateInv t' := by
  obtain ⟨_, segs, _, _, hsplit, _⟩ := add_ok_stages he
  obtain ⟨v, rest, root1, path, root2, _, hsp, hget, hmod, rfl⟩ := Tree.add_ok he
  have hpo := piecesOk_of_split hp hsplit hsp
  obtain ⟨hw1, _⟩ := getNode_wfX t.ic t.root v rest [] (root1, path) hinv.wf hpo hget
  obtain ⟨hs1, _⟩ := getNode_SX t.ic t.root v rest (root1, path) hinv.sx hget
  obtain ⟨hw2, _⟩ := modifyAt_wfX (t.addMethodsNode h p ms (effMethods methods))
    (fun m m' hm => addMethodsNode_fields hm) path root1 root2 [] hw1 hmod
  obtain ⟨_, hs2⟩ := modifyAt_SOk SX.closed _ (addMethodsNode_shape t h p ms (effMethods methods)) path root1 root2 hs1 hmod
  exact LateInv.of_root (t := t) hw2 hs2

theorem LateInv.remove {t t' : Tree} {p : Bytes} {methods : List Bytes}
    (hinv : LateInv t) (he : t.remove p methods = .ok t') : LateInv t' := by
  rcases Tree.remove_ok he with rfl | ⟨path, root1, _, hrem, rfl⟩
  · exact hinv
  · obtain ⟨hw, _⟩ := removeAt_wfX _ (removeMethods_fields t.hasTrace methods) path t.root root1 [] hinv.wf hrem
    obtain ⟨_, hs⟩ := removeAt_SOk SX.closed _ (removeMethods_shape t.hasTrace methods) path t.root root1 hinv.sx hrem
    exact LateInv.of_root (t := t) hw hs

/-! ## Histories -/

/-- `Add` registers a domain whose lower-cased text has balanced, non-nested braces; `Delete` and
`RegisterInterceptor` are arbitrary — in particular `RegisterInterceptor(rule)` may come after domains that use
`rule` as a regular expression. -/
def HOp.lateOk : HOp → Prop
  | .add d => WfPattern (toLower d) = true
  | .delete _ => True
  | .registerInterceptor _ _ => True

/-- A matcher made by `NewHosts` and such a history. -/
def HostsLateWf (hs : Hosts) : Prop := ∃ ops, (∀ op ∈ ops, HOp.lateOk op) ∧ hs = hostsRun Hosts.empty ops

theorem hostsStep_late {hs : Hosts} (h : LateInv hs.tree) {op : HOp} (hop : HOp.lateOk op) :
    LateInv (hostsStep hs op).tree := by
  cases op with
  | add d =>
    rw [step_add_tree]
    simp only [Tree.step]
    split
    · rename_i t' he; exact h.add ((wfPattern_iff_P9 _).1 hop) he
    · exact h
  | delete d =>
    rw [step_delete_tree]
    simp only [Tree.step]
    split
    · rename_i t' he; exact h.remove he
    · exact h
  | registerInterceptor id rule =>
    simp only [hostsStep]
    cases he : hs.registerInterceptor id rule with
    | none => exact h
    | some hs' =>
      simp only
      rw [(Hosts.registerInterceptor_some he).2]
      exact h.setIc _

theorem hostsRun_late : ∀ (ops : List HOp) (hs : Hosts), LateInv hs.tree → (∀ op ∈ ops, HOp.lateOk op) →
    LateInv (hostsRun hs ops).tree := by
  intro ops
  induction ops with
  | nil => intro hs h _; exact h
  | cons op ops ih =>
    intro hs h hok
    exact ih _ (hostsStep_late h (hok op List.mem_cons_self)) (fun o ho => hok o (List.mem_cons_of_mem _ ho))

theorem HostsLateWf.inv {hs : Hosts} (h : HostsLateWf hs) : LateInv hs.tree := by
  obtain ⟨ops, hok, rfl⟩ := h
  exact hostsRun_late ops _ (LateInv.new _ _ _ _ _ _) hok

theorem HostsLateWf.reach {hs : Hosts} (h : HostsLateWf hs) : HostsReach hs := by
  obtain ⟨ops, _, rfl⟩ := h
  exact ⟨ops, rfl⟩

theorem HostsLateWf.names {hs : Hosts} (h : HostsLateWf hs) : NamesOkL [] hs.tree.root.children :=
  namesOk_of_wfX h.inv.wf

theorem HostsLateWf.idxLit {hs : Hosts} (h : HostsLateWf hs) : Node.All IdxLit hs.tree.root :=
  All_idxLit_of_SX _ h.inv.sx

theorem HostsLateWf.step {hs : Hosts} (h : HostsLateWf hs) {op : HOp} (hop : HOp.lateOk op) :
    HostsLateWf (hostsStep hs op) := by
  obtain ⟨ops, hok, rfl⟩ := h
  refine ⟨ops ++ [op], ?_, by simp [hostsRun, List.foldl_append]⟩
  intro o ho
  rcases List.mem_append.1 ho with ho | ho
  · exact hok o ho
  · simp only [List.mem_singleton] at ho
    exact ho ▸ hop

/-- The histories of `P14.HostsReachWf` (no registration while the rule is in use) are a special case. -/
theorem HostsLateWf.of_reachWf {hs : Hosts} (h : HostsReachWf hs) : HostsLateWf hs := by
  obtain ⟨ops, hok, rfl⟩ := h
  refine ⟨ops, ?_, rfl⟩
  have key : ∀ (ops : List HOp) (hs : Hosts), hostsRunOk hs ops → ∀ op ∈ ops, HOp.lateOk op := by
    intro ops
    induction ops with
    | nil => intro _ _ op ho; cases ho
    | cons o ops ih =>
      intro hs hr op ho
      rcases List.mem_cons.1 ho with rfl | ho
      · cases op with
        | add d => exact hr.1
        | delete d => trivial
        | registerInterceptor id rule => trivial
      · exact ih _ hr.2 op ho
  exact key ops _ hok

/-- The parameter names of the tree stay disjoint from incoming parameters whose keys are not names of the tree:
the `_from` forms need `NamesOkL ps.keys`; it follows from `WfXL ps.keys` when the keys are fresh — here the
special case of no incoming parameters is the one proved for every history. -/
theorem HostsLateWf.namesRoot {hs : Hosts} (h : HostsLateWf hs) : Node.NamesOk [] hs.tree.root :=
  (Node.namesOk_iff [] hs.tree.root).2 h.names

end Mux.P17
