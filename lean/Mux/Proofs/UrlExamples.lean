/-
  Mux.Proofs.UrlExamples — a reached tree for the non-vacuity examples of C10 (strict / inverse):
  interceptor `digit`; `GET /p/{id:digit}/a` then `GET /p/{id:digit}/author/{n:\d+}`.  The second route's
  chain is `/p/` · `{id:digit}/a` · `uthor/` · `{n:\d+}` while `Split` of its pattern cuts
  `/p/` · `{id:digit}/author/` · `{n:\d+}` (and, without interceptors, reads `digit` as a regexp).
-/
import Mux.Proofs.UrlTree
import Mux.Proofs.GetNodeFuel
import Mux.Proofs.DecEq
namespace Mux.P13
open Mux Mux.P9 Mux.P10

def xIc : Interceptors := [(bytesOfString "digit", 0)]
def xEnv : Env := ⟨fun _ p => matchDigit p⟩
def xT0 : Tree := Tree.new [114] xIc { base := .notFound } none
/-- `/p/{id:digit}/a` -/
def xPa : Bytes := bytesOfString "/p/{id:digit}/a"
/-- `/p/{id:digit}/author/{n:\d+}` -/
def xPb : Bytes := bytesOfString "/p/{id:digit}/author/{n:\\d+}"
def xOps : List TOp := [.add xPa { base := .user 1 } [] [mGET], .add xPb { base := .user 2 } [] [mGET]]
/-- The reached tree. -/
def xT : Tree := xT0.run xOps

theorem xOps_wf : ∀ op ∈ xOps, op.wf = true := by
  intro op hop
  simp only [xOps, List.mem_cons, List.not_mem_nil, or_false] at hop
  rcases hop with rfl | rfl <;> decide +kernel

theorem xT_reach : ReachWf xT := reachWf_of_history _ _ _ _ _ _ xOps xOps_wf

/-- `id = 5`, `n = 42` -/
def xPs : AMap Bytes := [(bytesOfString "id", bytesOfString "5"), (bytesOfString "n", bytesOfString "42")]
/-- `/p/5/author/42` -/
def xPath : Bytes := bytesOfString "/p/5/author/42"

/-- The chain of the second route, as stored in the tree. -/
def xChain : List Seg :=
  [{ value := bytesOfString "/p/" },
   { value := bytesOfString "{id:digit}/a", kind := .icpt, name := bytesOfString "id", rule := bytesOfString "digit",
     suffix := bytesOfString "/a" },
   { value := bytesOfString "uthor/" },
   { value := bytesOfString "{n:\\d+}", kind := .rx, name := bytesOfString "n", rule := bytesOfString "\\d+",
     re := .plus ⟨false, clsDigit⟩ }]

theorem xT_routes : xT.routes = [([42], [mOPTIONS]), (xPa, [mGET, mHEAD, mOPTIONS]), (xPb, [mGET, mHEAD, mOPTIONS])] := by
  mux_eval [xT, xT0, xOps]

theorem xT_find : xT.root.findPath xPb = some [0, 0, 0, 0] := by
  mux_eval [xT, xT0, xOps]

theorem xT_segsAt : xT.root.segsAt [0, 0, 0, 0] = some xChain := by
  mux_eval [xT, xT0, xOps]

/-- The node of the second route, with its chain. -/
theorem xT_chain : ∃ n, xT.root.getAt [0, 0, 0, 0] = some n ∧ Chain xT.root xChain n ∧ n.pattern = xPb := by
  have hsome := findPath_valid xT.root xPb _ xT_find
  cases hg : xT.root.getAt [0, 0, 0, 0] with
  | none => rw [hg] at hsome; cases hsome
  | some n =>
    obtain ⟨segs, h1, h2, _⟩ := getAt_chain _ _ _ hg
    rw [xT_segsAt] at h1
    cases h1
    obtain ⟨n', _, g1, _, _, _, g5⟩ := reach_findPath xT_reach xT_find
    rw [hg] at g1; cases g1
    exact ⟨n, rfl, h2, g5⟩

theorem xT_url_ok : xT.url xEnv xPb xPs = .ok xPath := by
  mux_eval [xT, xT0, xOps]

/-- interceptor parameter violated (`id = x`) -/
theorem xT_url_badIcpt :
    xT.url xEnv xPb [(bytesOfString "id", bytesOfString "x"), (bytesOfString "n", bytesOfString "42")] = .error .badValue := by
  mux_eval [xT, xT0, xOps]

/-- regexp parameter not satisfied over its whole length (`n = 4a`) -/
theorem xT_url_badRx :
    xT.url xEnv xPb [(bytesOfString "id", bytesOfString "5"), (bytesOfString "n", bytesOfString "4a")] = .error .badValue := by
  mux_eval [xT, xT0, xOps]

theorem xT_url_missing : xT.url xEnv xPb [(bytesOfString "id", bytesOfString "5")] = .error .missingParam := by
  mux_eval [xT, xT0, xOps]

/-- also with empty params: the route is looked up and its parameters are required -/
theorem xT_url_empty : xT.url xEnv xPb [] = .error .missingParam := by
  mux_eval [xT, xT0, xOps]

/-- an interior node's pattern (`/p/{id:digit}/a` + `ut`) is not a route -/
theorem xT_url_notRoute : xT.url xEnv (bytesOfString "/p/{id:digit}/aut") xPs = .error .notRoute := by
  mux_eval [xT, xT0, xOps]

/-- `GET /p/5/author/42` is dispatched to the second route with `id = 5`, `n = 42`. -/
theorem xT_dispatch : ∃ f n, xT.handler xEnv xPath [] mGET = .res f ∧ f.node = some n ∧ n.pattern = xPb ∧
    f.params = xPs := by
  have h1 : (match xT.handler xEnv xPath [] mGET with
      | .res f => (f.node.map (·.pattern) == some xPb) && (f.params == xPs)
      | _ => false) = true := by
    mux_eval [xT, xT0, xOps]
  split at h1
  · rename_i f e1
    simp only [Bool.and_eq_true, beq_iff_eq] at h1
    cases hn : f.node with
    | none => rw [hn] at h1; simp at h1
    | some n =>
      rw [hn] at h1
      simp only [Option.map_some, Option.some.injEq] at h1
      exact ⟨f, n, e1, hn, h1.1, h1.2⟩
  · cases h1

/-! A second reached tree: `GET /w/{x:.+}` (a rule with a wide class). -/

/-- `/w/{x:.+}` -/
def yP : Bytes := bytesOfString "/w/{x:.+}"
def yOps : List TOp := [.add yP { base := .user 1 } [] [mGET]]
def yT : Tree := xT0.run yOps

theorem yOps_wf : ∀ op ∈ yOps, op.wf = true := by
  intro op hop
  simp only [yOps, List.mem_cons, List.not_mem_nil, or_false] at hop
  subst hop
  decide +kernel

theorem yT_reach : ReachWf yT := reachWf_of_history _ _ _ _ _ _ yOps yOps_wf

/-- a non-ASCII value under `.+`: outside the modelled domain -/
theorem yT_url_unsupported : yT.url xEnv yP [(bytesOfString "x", [200])] = .error .unsupported := by
  mux_eval [yT, xT0, yOps]

theorem yT_url_ok : yT.url xEnv yP [(bytesOfString "x", bytesOfString "a/b")] = .ok (bytesOfString "/w/a/b") := by
  mux_eval [yT, xT0, yOps]

end Mux.P13
