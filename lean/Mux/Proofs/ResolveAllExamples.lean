/-
  Mux.Proofs.ResolveAllExamples — concrete histories with `Remove`/`Clean` for `C02all.lean`, evaluated by
  the kernel through the fuel version of `getNode` (`mux_eval` for chain-shaped trees; `mux_eval2`, which
  sorts by insertion — `ResolveAllEval.lean` —, for trees with nodes that have several children).

  * `forkOps`: `/a/b`, `/a/c` registered, `/a/c` removed — the interior node `/a/` is left UNFORKED.
  * `cex2Ops`: `/{a}/x`, `/{a}/y` registered, `/{a}/y` removed — the second form of the counterexample.

  * `litOps`: `/a/`, `/a/b` registered, `/a/` removed — the handler-less LITERAL node `/a/` keeps its
    single literal child `b` (a fresh router would hold the one node `/a/b`): not canonical, harmless.
  * `deadOps`: then `Clean("/a/b")` — the node `/a/` stays behind as a dead leaf.
  * `cexOps`: `/{a}/`, `/{a}/x` registered, `/{a}/` removed — the handler-less PARAMETER node `{a}/`
    keeps its single literal child `x`: `/1/y/x` is answered 404, whereas the reference resolver (and a
    fresh router holding `/{a}/x` alone) captures `a = 1/y`.
-/
import Mux.Proofs.ResolveAllLen
import Mux.Proofs.ResolveExamples
import Mux.Proofs.FrameExamples
import Mux.Proofs.ResolveAllEval
namespace Mux.P16
open Mux Mux.Spec Mux.P15 Mux.P10

/-- `/a/` -/
def litA : Bytes := [47, 97, 47]
/-- `/a/b` -/
def litAB : Bytes := [47, 97, 47, 98]
/-- `/a/`, `/a/b` registered, `/a/` removed. -/
def litOps : List TOp :=
  [.add litA { base := .user 1 } [] [mGET], .add litAB { base := .user 2 } [] [mGET], .remove litA []]
/-- … and then `Clean("/a/b")`. -/
def deadOps : List TOp := litOps ++ [.clean litAB]

theorem litOps_wf : ∀ op ∈ litOps, op.wf = true := by decide
theorem deadOps_wf : ∀ op ∈ deadOps, op.wf = true := by decide

/-- The shape of the forest below the root, depth first: depth, text, "has handlers". -/
abbrev Shape := Nat × Bytes × Bool

mutual
def shapeOf (d : Nat) : Node → List Shape
  | .mk s _ _ hs _ cs => (d, s.value, !hs.isEmpty) :: shapesOf (d + 1) cs
def shapesOf (d : Nat) : List Node → List Shape
  | [] => []
  | c :: cs => shapeOf d c ++ shapesOf d cs
end

/-- After the removal: `/a/` (no handlers) with the single child `b` (live). -/
theorem litOps_shape : shapesOf 0 (exT0.run litOps).root.children = [(0, litA, false), (1, [98], true)] := by
  mux_eval [litOps, exT0]

theorem litOps_table : (tableOf (exT0.run litOps)).patterns = [litAB] := by mux_eval [litOps, exT0]

theorem litOps_stops : ParamStops (exT0.run litOps) := by mux_eval [litOps, exT0]

/-- The tree is NOT in canonical form for its table (the resolver's group is `/a/b`). -/
theorem litOps_not_canon : ¬ KidsCanon (exT0.run litOps).root.children ([litAB].map (fun p => (p, p))) := by
  mux_eval [litOps, exT0]

theorem litOps_answer : resOf ((exT0.run litOps).handler envAll litAB [] mGET) = some (litAB, []) := by
  mux_eval [litOps, exT0]

/-- After `Clean("/a/b")`: the dead leaf `/a/`, no route. -/
theorem deadOps_shape : shapesOf 0 (exT0.run deadOps).root.children = [(0, litA, false)] := by
  mux_eval [deadOps, litOps, exT0, List.cons_append, List.nil_append]

theorem deadOps_table : (tableOf (exT0.run deadOps)).patterns = [] := by
  mux_eval [deadOps, litOps, exT0, List.cons_append, List.nil_append]

theorem deadOps_stops : ParamStops (exT0.run deadOps) := by
  mux_eval [deadOps, litOps, exT0, List.cons_append, List.nil_append]

/-! ## A fork that is undone -/

/-- `/a/c` -/
def litAC : Bytes := [47, 97, 47, 99]
/-- `/a/b`, `/a/c` registered (the node `/a/` forks into `b` and `c`), `/a/c` removed. -/
def forkOps : List TOp :=
  [.add litAB { base := .user 1 } [] [mGET], .add litAC { base := .user 2 } [] [mGET], .remove litAC []]

theorem forkOps_wf : ∀ op ∈ forkOps, op.wf = true := by decide

/-- Before the removal: `/a/` with the children `b` and `c`. -/
theorem forkOps_before : shapesOf 0 (exT0.run (forkOps.take 2)).root.children =
    [(0, litA, false), (1, [98], true), (1, [99], true)] := by mux_eval2 [forkOps, exT0, List.take]

/-- After it: `/a/` (no handlers) keeps the single literal child `b`. -/
theorem forkOps_shape : shapesOf 0 (exT0.run forkOps).root.children = [(0, litA, false), (1, [98], true)] := by
  mux_eval2 [forkOps, exT0]

theorem forkOps_table : (tableOf (exT0.run forkOps)).patterns = [litAB] := by mux_eval2 [forkOps, exT0]
theorem forkOps_stops : ParamStops (exT0.run forkOps) := by mux_eval2 [forkOps, exT0]
theorem forkOps_not_canon : ¬ KidsCanon (exT0.run forkOps).root.children ([litAB].map (fun p => (p, p))) := by
  mux_eval2 [forkOps, exT0]
/-- The node `/a/` is neither live nor forked: the invariant of the add-only theorem is lost. -/
theorem forkOps_not_TT : ¬ AllL TT (exT0.run forkOps).root.children := by
  have h : (match (exT0.run forkOps).root.children with
      | [c] => c.handlers.isEmpty && (c.children.map (fun d => d.seg.value) == [[98]])
      | _ => false) = true := by mux_eval2 [forkOps, exT0]
  intro hall
  cases hcs : (exT0.run forkOps).root.children with
  | nil => rw [hcs] at h; cases h
  | cons c cs =>
    rw [hcs] at h hall
    cases cs with
    | cons _ _ => cases h
    | nil =>
      simp only [Bool.and_eq_true, List.isEmpty_iff, beq_iff_eq] at h
      have hT : TT c := hall.1.head
      rcases hT with hh | ⟨d, hd, hs⟩ | ⟨d1, hd1, d2, hd2, hne⟩
      · exact hh h.1
      · have : d.seg.value ∈ c.children.map (fun d => d.seg.value) := List.mem_map_of_mem hd
        rw [h.2] at this
        simp only [List.mem_singleton] at this
        rw [this] at hs
        cases hs
      · have h1 : d1.seg.value ∈ c.children.map (fun d => d.seg.value) := List.mem_map_of_mem hd1
        have h2 : d2.seg.value ∈ c.children.map (fun d => d.seg.value) := List.mem_map_of_mem hd2
        rw [h.2] at h1 h2
        simp only [List.mem_singleton] at h1 h2
        rw [h1, h2] at hne
        exact hne rfl

theorem forkOps_answer : resOf ((exT0.run forkOps).handler envAll litAB [] mGET) = some (litAB, []) := by
  mux_eval2 [forkOps, exT0]

/-! ## The counterexample -/

/-- `/{a}/` -/
def cexR : Bytes := [47, 123, 97, 125, 47]
/-- `/{a}/x` -/
def cexP : Bytes := [47, 123, 97, 125, 47, 120]
/-- `/1/y/x` -/
def cexPath : Bytes := [47, 49, 47, 121, 47, 120]
/-- `/{a}/`, `/{a}/x` registered, `/{a}/` removed. -/
def cexOps : List TOp :=
  [.add cexR { base := .user 1 } [] [mGET], .add cexP { base := .user 2 } [] [mGET], .remove cexR []]
/-- `/{a}/x` registered on a fresh router. -/
def cexFresh : List TOp := [.add cexP { base := .user 2 } [] [mGET]]

theorem cexOps_wf : ∀ op ∈ cexOps, op.wf = true := by decide
theorem cexFresh_wf : ∀ op ∈ cexFresh, op.wf = true := by decide

/-- `/` → `{a}/` (no handlers) → `x` (live). -/
theorem cexOps_shape : shapesOf 0 (exT0.run cexOps).root.children =
    [(0, [47], false), (1, [123, 97, 125, 47], false), (2, [120], true)] := by mux_eval [cexOps, exT0]

/-- The fresh router holds `/` → `{a}/x`. -/
theorem cexFresh_shape : shapesOf 0 (exT0.run cexFresh).root.children =
    [(0, [47], false), (1, [123, 97, 125, 47, 120], true)] := by mux_eval [cexFresh, exT0]

theorem cexOps_table : (tableOf (exT0.run cexOps)).patterns = [cexP] := by mux_eval [cexOps, exT0]
theorem cexFresh_table : (tableOf (exT0.run cexFresh)).patterns = [cexP] := by mux_eval [cexFresh, exT0]

theorem cexOps_answer : resOf ((exT0.run cexOps).handler envAll cexPath [] mGET) = none := by mux_eval [cexOps, exT0]
theorem cexOps_isRes : (match (exT0.run cexOps).handler envAll cexPath [] mGET with | .res _ => true | _ => false) = true := by
  mux_eval [cexOps, exT0]
theorem cexFresh_answer : resOf ((exT0.run cexFresh).handler envAll cexPath [] mGET) =
    some (cexP, [([97], [49, 47, 121])]) := by mux_eval [cexFresh, exT0]

theorem cex_resolver : resolveAll envAll [] [cexP] cexPath = [(cexP, [([97], [49, 47, 121])])] := by decide

theorem cexOps_not_stops : ¬ ParamStops (exT0.run cexOps) := by mux_eval [cexOps, exT0]

/-! ## The counterexample, second form: a fork below a parameter node that is undone -/

/-- `/{a}/y` -/
def cexQ : Bytes := [47, 123, 97, 125, 47, 121]
/-- `/{a}/x`, `/{a}/y` registered (`{a}/` forks into `x` and `y`), `/{a}/y` removed. -/
def cex2Ops : List TOp :=
  [.add cexP { base := .user 1 } [] [mGET], .add cexQ { base := .user 2 } [] [mGET], .remove cexQ []]

theorem cex2Ops_wf : ∀ op ∈ cex2Ops, op.wf = true := by decide
theorem cex2Ops_shape : shapesOf 0 (exT0.run cex2Ops).root.children =
    [(0, [47], false), (1, [123, 97, 125, 47], false), (2, [120], true)] := by mux_eval2 [cex2Ops, exT0]
theorem cex2Ops_table : (tableOf (exT0.run cex2Ops)).patterns = [cexP] := by mux_eval2 [cex2Ops, exT0]
theorem cex2Ops_answer : resOf ((exT0.run cex2Ops).handler envAll cexPath [] mGET) = none := by mux_eval2 [cex2Ops, exT0]
theorem cex2Ops_isRes : (match (exT0.run cex2Ops).handler envAll cexPath [] mGET with | .res _ => true | _ => false) = true := by
  mux_eval2 [cex2Ops, exT0]
theorem cex2Ops_not_stops : ¬ ParamStops (exT0.run cex2Ops) := by mux_eval2 [cex2Ops, exT0]

end Mux.P16
