/-
  Mux.Proofs.WOkGetNode — `getNode` (`addSegment`/`splitNode`) keeps the pattern-aware invariant
  `ListW P`, keeps the top node's own fields, and the node at the returned index path carries the
  pattern `n.pattern ++ v ++ rest.flatten` (`getNode_target_pattern`).
-/
import Mux.Proofs.WOk
namespace Mux.P10
open Mux

variable {P : Bytes → AMap Handler → Prop}

/-- What `getNode ic n v rest = .ok r` guarantees about `r = (n', path)`. -/
def GNW (P : Bytes → AMap Handler → Prop) (n : Node) (v : Bytes) (rest : List Bytes) (r : Node × List Nat) : Prop :=
  r.1.pattern = n.pattern ∧ r.1.seg = n.seg ∧ r.1.handlers = n.handlers ∧ r.1.methodIndex = n.methodIndex ∧
    ListW P n.pattern r.1.children ∧ r.2 ≠ [] ∧
    ∃ m, r.1.getAt r.2 = some m ∧ m.pattern = n.pattern ++ v ++ rest.flatten ∧ From n m

/-- The situation just before `getNode` descends (cf. `GNBase` in TreeGetNode.lean). -/
structure GNB (P : Bytes → AMap Handler → Prop) (n n1 parent : Node) (j : Nat) : Prop where
  pat1 : n1.pattern = n.pattern
  seg1 : n1.seg = n.seg
  hs1 : n1.handlers = n.handlers
  mi1 : n1.methodIndex = n.methodIndex
  w1 : ListW P n.pattern n1.children
  hj : j < n1.children.length
  ppat : parent.pattern = n.pattern ++ parent.seg.value
  pP : P parent.pattern parent.handlers
  pw : ListW P parent.pattern parent.children
  orig1 : ∀ c ∈ n1.children, From n c
  porig : ∀ x ∈ nodesL parent.children, From n x

theorem GNB.leaf {n n1 parent : Node} {j : Nat} {v : Bytes} (b : GNB P n n1 parent j)
    (hv : ∀ c, n1.children[j]? = some c → c.seg.value = v) : GNW P n v [] (n1, [j]) := by
  refine ⟨b.pat1, b.seg1, b.hs1, b.mi1, b.w1, by simp, ?_⟩
  have hj := b.hj
  have hc : n1.children[j]? = some n1.children[j] := by simp [hj]
  refine ⟨n1.children[j], ?_, ?_⟩
  · simp only [Node.getAt_cons, hc, Option.bind_some, Node.getAt_nil]
  · exact ⟨by rw [(ListW_getElem? b.w1 hc).1, hv _ hc]; simp, b.orig1 _ (List.mem_of_getElem? hc)⟩

theorem GNB.descend {n n1 parent : Node} {j : Nat} {v v' : Bytes} {rest rest' : List Bytes}
    (b : GNB P n n1 parent j) {res : Node × List Nat} (hp : GNW P parent v' rest' res)
    (heq : parent.pattern ++ v' ++ rest'.flatten = n.pattern ++ v ++ rest.flatten) :
    GNW P n v rest (n1.setChildren (n1.children.set j res.1) n1.indexes, j :: res.2) := by
  obtain ⟨hpat, hseg, hhs, _, hw, _, m, hm, hmp, hfrom⟩ := hp
  have hres : NodeW P res.1 := by
    rw [NodeW_iff, hpat, hhs]
    exact ⟨b.pP, hw⟩
  have hresp : res.1.pattern = n.pattern ++ res.1.seg.value := by rw [hpat, hseg]; exact b.ppat
  refine ⟨?_, ?_, ?_, ?_, ?_, by simp, m, ?_, ?_⟩
  · simpa [Node.setChildren] using b.pat1
  · simpa [Node.setChildren] using b.seg1
  · simpa [Node.setChildren] using b.hs1
  · simpa [Node.setChildren] using b.mi1
  · simpa [Node.setChildren] using ListW_set b.w1 hresp hres
  · simp only [Node.getAt_cons, Node.setChildren, Node.children_mk]
    have := b.hj
    simp [this, hm]
  · refine ⟨by rw [hmp, heq], ?_⟩
    rcases hfrom with h0 | ⟨y, hy, hs⟩
    · exact .inl h0
    · rcases b.porig y hy with h0 | ⟨z, hz, hs'⟩
      · exact .inl (hs.2.1.trans h0)
      · exact .inr ⟨z, hz, hs.trans hs'⟩

/-- `sortNode` after replacing the children: the base situation for the new position `j`. -/
theorem GNB.ofSort {n n1 parent : Node} {j : Nat} {cs : List Node} (hall : ListW P n.pattern cs)
    (hs : sortNode (n.setChildren cs n.indexes) = .ok n1) (hj : j < n1.children.length)
    (ppat : parent.pattern = n.pattern ++ parent.seg.value) (pP : P parent.pattern parent.handlers)
    (pw : ListW P parent.pattern parent.children) (horig : ∀ c ∈ cs, From n c)
    (porig : ∀ x ∈ nodesL parent.children, From n x) : GNB P n n1 parent j := by
  obtain ⟨idx, _, rfl⟩ := sortNode_ok hs
  refine ⟨rfl, rfl, rfl, rfl, ?_, hj, ppat, pP, pw, ?_, porig⟩
  · simpa [Node.setChildren] using (ListW_sortChildren).2 hall
  · intro c hc
    simp only [Node.setChildren, Node.children_mk] at hc
    exact horig c ((sortChildren_perm cs).mem_iff.1 hc)

set_option hygiene false in
/-- The common tail of the "similar child" branch of `getNode` (used twice). -/
local macro "gnw_tail" parent:term : tactic => `(tactic|
  (split at h
   · rename_i hvl
     have hvt : v.take l.toNat = v := List.take_of_length_le hvl
     split at h
     · simp only [pure, Except.pure, Except.ok.injEq] at h
       subst h
       refine b.leaf ?_
       intro d hd
       exact hleafv hvt d hd
     · have ih := ih1 $parent
       simp only at ih
       split at h
       · simp at h
       rename_i res hres
       simp only [pure, Except.pure, Except.ok.injEq] at h
       subst h
       refine b.descend (ih res b.pw hres) ?_
       rw [hppat, hvt]; simp
   · rename_i hvl
     split at h
     · simp at h
     rename_i res hres
     simp only [pure, Except.pure, Except.ok.injEq] at h
     subst h
     refine b.descend (ih3 l hl $parent hvl res b.pw hres) ?_
     rw [hppat]
     simp only [List.append_assoc]
     rw [← List.append_assoc (v.take l.toNat), List.take_append_drop]))

theorem getNode_W (ic : Interceptors) (P : Bytes → AMap Handler → Prop) (hP0 : ∀ p, P p [])
    (n : Node) (v : Bytes) (rest : List Bytes) :
    ∀ r, ListW P n.pattern n.children → getNode ic n v rest = .ok r → GNW P n v rest r := by
  induction n, v, rest using getNode.induct with
  | _ n v rest ih1 ih2 ih3 =>
    intro r hall h
    rw [getNode] at h
    simp only [bind, Except.bind] at h
    split at h
    · simp at h
    rename_i seg hseg
    have hsegv : seg.value = v := newSegment_value _ _ _ hseg
    split at h
    · -- an identical child exists
      rename_i i hscan
      split at h
      · simp [throw, throwThe, MonadExceptOf.throw] at h
      rename_i c hc
      have hcW := ListW_getElem? hall hc
      have hcv : c.seg.value = v := (scan_identical hscan hc).trans hsegv
      have b : GNB P n n c i :=
        ⟨rfl, rfl, rfl, rfl, hall, (List.getElem?_eq_some_iff.1 hc).1, hcW.1,
          ((NodeW_iff c).1 hcW.2).1, ((NodeW_iff c).1 hcW.2).2,
          fun d hd => .inr ⟨d, mem_nodesL_of_mem hd, Same.refl d⟩,
          fun x hx => .inr ⟨x, nodesL_sub (List.mem_of_getElem? hc) hx, Same.refl x⟩⟩
      split at h
      · simp only [pure, Except.pure, Except.ok.injEq] at h
        subst h
        refine b.leaf ?_
        intro d hd; rw [hc] at hd; cases hd; exact hcv
      · rename_i v' rest'
        have ih := ih1 c
        simp only at ih
        split at h
        · simp at h
        rename_i res hres
        simp only [pure, Except.pure, Except.ok.injEq] at h
        subst h
        refine b.descend (ih res b.pw hres) ?_
        rw [hcW.1, hcv]; simp
    · rename_i l i hscan
      split at h
      · -- a new leaf
        split at h
        · simp at h
        rename_i n1 hn1
        split at h
        · simp [throw, throwThe, MonadExceptOf.throw] at h
        rename_i j hj
        have hleafW : NodeW P (newLeaf n.pattern seg) := by
          simp only [newLeaf, NodeW, ListW, and_true]
          exact hP0 _
        have hleafp : (newLeaf n.pattern seg).pattern = n.pattern ++ (newLeaf n.pattern seg).seg.value := rfl
        have b : GNB P n n1 (newLeaf n.pattern seg) j :=
          GNB.ofSort (ListW_append.2 ⟨hall, by simp only [ListW, and_true]; exact ⟨hleafp, hleafW⟩⟩) hn1
            (childPos_lt hj) hleafp (hP0 _) (by simp [newLeaf, ListW])
            (by
              intro d hd
              rcases List.mem_append.1 hd with hd | hd
              · exact .inr ⟨d, mem_nodesL_of_mem hd, Same.refl d⟩
              · simp only [List.mem_singleton] at hd; subst hd; exact .inl rfl)
            (by intro x hx; simp [newLeaf, nodesL] at hx)
        split at h
        · simp only [pure, Except.pure, Except.ok.injEq] at h
          subst h
          refine b.leaf ?_
          intro d hd
          obtain ⟨d', hd', hv'⟩ := childPos_spec hj
          rw [hd'] at hd; cases hd; exact hv'
        · rename_i v' rest'
          have ih := ih2 seg
          simp only at ih
          split at h
          · simp at h
          rename_i res hres
          simp only [pure, Except.pure, Except.ok.injEq] at h
          subst h
          refine b.descend (ih res b.pw hres) ?_
          show (n.pattern ++ seg.value) ++ _ ++ _ = _
          rw [hsegv]; simp
      · -- a similar child: split it if necessary, then descend
        rename_i hl
        have hlpos : 0 < l := by omega
        split at h
        · simp [throw, throwThe, MonadExceptOf.throw] at h
        rename_i c hc
        have hcW := ListW_getElem? hall hc
        obtain ⟨hlc, hlv, htake⟩ := similarity_pos (scan_best hscan hlpos hc) hlpos
        rw [hsegv] at hlv htake
        split at h
        · -- no split needed
          rename_i hcl
          simp only [pure, Except.pure] at h
          have hct : c.seg.value.take l.toNat = c.seg.value := List.take_of_length_le hcl
          have hppat : c.pattern = n.pattern ++ v.take l.toNat := by rw [hcW.1, ← htake, hct]
          have b : GNB P n n c i :=
            ⟨rfl, rfl, rfl, rfl, hall, (List.getElem?_eq_some_iff.1 hc).1, hcW.1,
              ((NodeW_iff c).1 hcW.2).1, ((NodeW_iff c).1 hcW.2).2,
              fun d hd => .inr ⟨d, mem_nodesL_of_mem hd, Same.refl d⟩,
              fun x hx => .inr ⟨x, nodesL_sub (List.mem_of_getElem? hc) hx, Same.refl x⟩⟩
          have hleafv : v.take l.toNat = v → ∀ d, n.children[i]? = some d → d.seg.value = v := by
            intro hvt d hd
            rw [hc] at hd; cases hd
            rw [← hct, htake, hvt]
          gnw_tail c
        · rename_i hcl
          split at h
          · simp at h
          rename_i ss hss
          split at h
          · simp at h
          rename_i ret hret
          split at h
          · simp at h
          rename_i n1 hn1
          split at h
          · simp [throw, throwThe, MonadExceptOf.throw] at h
          rename_i j hj
          simp only [pure, Except.pure] at h
          obtain ⟨hs1v, hs2v⟩ := splitAt_values (s1 := ss.1) (s2 := ss.2) hss
          -- the lower half keeps `c`'s pattern, handlers and children
          have hlowerW : NodeW P (c.setSeg ss.2) := by
            have := hcW.2
            rw [NodeW_iff] at this ⊢
            exact this
          obtain ⟨idxr, hidxr, hreteq⟩ := sortNode_ok hret
          have hretpat : ret.pattern = n.pattern ++ ss.1.value := by rw [hreteq]; rfl
          have hretseg : ret.seg = ss.1 := by rw [hreteq]; rfl
          have hreths : ret.handlers = [] := by rw [hreteq]; rfl
          have hlowerp : (c.setSeg ss.2).pattern = ret.pattern ++ (c.setSeg ss.2).seg.value := by
            show c.pattern = ret.pattern ++ ss.2.value
            rw [hretpat, hcW.1, hs1v, hs2v, List.append_assoc, List.take_append_drop]
          have hretW : ListW P ret.pattern ret.children := by
            rw [hreteq]
            simp only [Node.setChildren, Node.children_mk, Node.pattern_mk]
            rw [ListW_sortChildren]
            simp only [ListW, and_true]
            refine ⟨?_, hlowerW⟩
            rw [← hretpat]; exact hlowerp
          have hretP : P ret.pattern ret.handlers := by rw [hreths]; exact hP0 _
          have hretp : ret.pattern = n.pattern ++ ret.seg.value := by rw [hretseg]; exact hretpat
          have hretN : NodeW P ret := by rw [NodeW_iff]; exact ⟨hretP, hretW⟩
          have hppat : ret.pattern = n.pattern ++ v.take l.toNat := by rw [hretpat, hs1v, htake]
          have b : GNB P n n1 ret j :=
            GNB.ofSort
              (ListW_append.2 ⟨ListW_removeNodes _ hall, by simp only [ListW, and_true]; exact ⟨hretp, hretN⟩⟩)
              hn1 (childPos_lt hj) hretp hretP hretW
              (by
                intro d hd
                rcases List.mem_append.1 hd with hd | hd
                · exact .inr ⟨d, mem_nodesL_of_mem ((removeNodes_sublist _ _).subset hd), Same.refl d⟩
                · simp only [List.mem_singleton] at hd; subst hd; exact .inl hreths)
              (by
                intro x hx
                rw [hreteq] at hx
                simp only [Node.setChildren, Node.children_mk, sortChildren, List.mergeSort_singleton, nodesL,
                  List.append_nil] at hx
                rw [Node.nodes_eq] at hx
                rcases List.mem_cons.1 hx with rfl | hx
                · exact .inr ⟨c, mem_nodesL_of_mem (List.mem_of_getElem? hc), rfl, rfl, rfl⟩
                · exact .inr ⟨x, nodesL_sub (List.mem_of_getElem? hc) hx, Same.refl x⟩)
          have hleafv : v.take l.toNat = v → ∀ d, n1.children[j]? = some d → d.seg.value = v := by
            intro hvt d hd
            obtain ⟨d', hd', hv'⟩ := childPos_spec hj
            rw [hd'] at hd; cases hd
            rw [hv', hs1v, htake, hvt]
          gnw_tail ret

/-- `getNode_target_pattern`: on a tree whose stored patterns are consistent (`PatternOk`), the
node at the path returned by `getNode` carries the pattern `n.pattern ++ v ++ rest.flatten`, and the
restructured tree is `PatternOk` again. -/
theorem getNode_target_pattern (ic : Interceptors) {n n' : Node} {v : Bytes} {rest : List Bytes}
    {path : List Nat} (hn : Node.PatternOk n) (h : getNode ic n v rest = .ok (n', path)) :
    Node.PatternOk n' ∧ n'.pattern = n.pattern ∧
      ∃ m, n'.getAt path = some m ∧ m.pattern = n.pattern ++ v ++ rest.flatten := by
  have hW : ListW (fun _ _ => True) n.pattern n.children := by
    have : NodeW (fun _ _ => True) n := NodeW_of n hn (by
      have := ((All_iff_nodes (fun m => (fun _ _ => True) m.pattern m.handlers)).1 n).2 (fun _ _ => trivial)
      exact this)
    exact ((NodeW_iff n).1 this).2
  obtain ⟨hp, _, _, _, hw, _, m, hm, hmp, _⟩ := getNode_W ic (fun _ _ => True) (fun _ => trivial) n v rest _ hW h
  refine ⟨?_, hp, m, hm, hmp⟩
  apply NodeW_patternOk (P := fun _ _ => True)
  rw [NodeW_iff]
  simp only at hp hw
  rw [hp]
  exact ⟨trivial, hw⟩

/-- With `splitString_join`: the target of `Tree.add`'s `getNode` call has the registered pattern. -/
theorem getNode_target_registered (ic : Interceptors) {root root' : Node} {p v : Bytes} {rest : List Bytes}
    {path : List Nat} (hroot : Node.PatternOk root) (hp0 : root.pattern = [])
    (hs : splitString p = v :: rest) (h : getNode ic root v rest = .ok (root', path)) :
    ∃ m, root'.getAt path = some m ∧ m.pattern = p := by
  obtain ⟨_, _, m, hm, hmp⟩ := getNode_target_pattern ic hroot h
  refine ⟨m, hm, ?_⟩
  have := splitString_join p
  rw [hs] at this
  rw [hmp, hp0]
  simpa using this

end Mux.P10
