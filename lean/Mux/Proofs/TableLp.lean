/-
  Mux.Proofs.TableLp — segment texts of well-formed patterns (`WfVal`: brace-free literal text, or
  `{inner}suffix` with brace-free `inner`/`suffix`), the exact value of `longestPrefix` on them, and
  the "key" of a segment text (`vkey`): the part of the text that decides whether `addSegment` treats
  two sibling texts as similar.
-/
import Mux.Proofs.Syntax
namespace Mux.P11
open Mux

/-! ## Well-formed segment texts -/

/-- No brace at all. -/
def Plain (v : Bytes) : Prop := startByte ∉ v ∧ endByte ∉ v

/-- `{inner}suffix` with brace-free `inner` and `suffix`. -/
def ParamForm (v : Bytes) : Prop := ∃ ia sa, v = startByte :: (ia ++ endByte :: sa) ∧ Plain ia ∧ Plain sa

/-- The text of a tree segment of a well-formed pattern. -/
def WfVal (v : Bytes) : Prop := (v ≠ [] ∧ Plain v) ∨ ParamForm v

/-- The text ends with `}`. -/
def Closed (v : Bytes) : Prop := v.getLast? = some endByte

theorem Plain.nil : Plain [] := by simp [Plain]

theorem Plain.cons {c : UInt8} {r : Bytes} (h : Plain (c :: r)) : c ≠ startByte ∧ c ≠ endByte ∧ Plain r := by
  simp only [Plain, List.mem_cons, not_or] at h
  exact ⟨fun e => h.1.1 e.symm, fun e => h.2.1 e.symm, h.1.2, h.2.2⟩

theorem Plain.of_cons {c : UInt8} {r : Bytes} (h1 : c ≠ startByte) (h2 : c ≠ endByte) (h : Plain r) :
    Plain (c :: r) := by
  simp only [Plain, List.mem_cons, not_or]
  exact ⟨⟨fun e => h1 e.symm, h.1⟩, fun e => h2 e.symm, h.2⟩

theorem Plain.append {a b : Bytes} (ha : Plain a) (hb : Plain b) : Plain (a ++ b) := by
  simp only [Plain, List.mem_append, not_or]
  exact ⟨⟨ha.1, hb.1⟩, ha.2, hb.2⟩

theorem Plain.take {a : Bytes} (h : Plain a) (k : Nat) : Plain (a.take k) :=
  ⟨fun hm => h.1 (List.mem_of_mem_take hm), fun hm => h.2 (List.mem_of_mem_take hm)⟩

theorem Plain.drop {a : Bytes} (h : Plain a) (k : Nat) : Plain (a.drop k) :=
  ⟨fun hm => h.1 (List.mem_of_mem_drop hm), fun hm => h.2 (List.mem_of_mem_drop hm)⟩

theorem Plain.not_closed {a : Bytes} (h : Plain a) : ¬ Closed a := by
  intro hc
  exact h.2 (List.mem_of_getLast? hc)

theorem WfVal.ne_nil {v : Bytes} (h : WfVal v) : v ≠ [] := by
  rcases h with h | ⟨ia, sa, rfl, _, _⟩
  · exact h.1
  · simp

theorem startByte_ne_endByte : startByte ≠ endByte := by decide

/-- A brace-free text followed by `}`: the `}` is found where it is. -/
theorem append_end_inj {ia ib sa sb : Bytes} (ha : endByte ∉ ia) (hb : endByte ∉ ib)
    (h : ia ++ endByte :: sa = ib ++ endByte :: sb) : ia = ib ∧ sa = sb := by
  induction ia generalizing ib with
  | nil =>
    cases ib with
    | nil => simpa using h
    | cons d ib =>
      simp only [List.nil_append, List.cons_append, List.cons.injEq] at h
      exact absurd (by simp [h.1]) hb
  | cons c ia ih =>
    cases ib with
    | nil =>
      simp only [List.nil_append, List.cons_append, List.cons.injEq] at h
      exact absurd (by simp [h.1]) ha
    | cons d ib =>
      simp only [List.cons_append, List.cons.injEq] at h
      simp only [List.mem_cons, not_or] at ha hb
      obtain ⟨e1, e2⟩ := ih ha.2 hb.2 h.2
      exact ⟨by rw [h.1, e1], e2⟩

/-! ## Length of the common prefix -/

def lcp : Bytes → Bytes → Nat
  | a :: s1, b :: s2 => if a = b then lcp s1 s2 + 1 else 0
  | _, _ => 0

@[simp] theorem lcp_nil_left (b : Bytes) : lcp [] b = 0 := by simp [lcp]
@[simp] theorem lcp_nil_right (a : Bytes) : lcp a [] = 0 := by cases a <;> simp [lcp]
theorem lcp_cons (a b : UInt8) (s1 s2 : Bytes) : lcp (a :: s1) (b :: s2) = if a = b then lcp s1 s2 + 1 else 0 := by
  simp [lcp]

theorem lcp_le_left (a b : Bytes) : lcp a b ≤ a.length := by
  induction a generalizing b with
  | nil => simp
  | cons c a ih =>
    cases b with
    | nil => simp
    | cons d b =>
      rw [lcp_cons]; split
      · have := ih b; simp; omega
      · simp

theorem lcp_pos_iff (a b : Bytes) : 0 < lcp a b ↔ ∃ c r1 r2, a = c :: r1 ∧ b = c :: r2 := by
  cases a with
  | nil => simp
  | cons c a =>
    cases b with
    | nil => simp
    | cons d b =>
      rw [lcp_cons]
      by_cases h : c = d
      · subst h; simp
      · simp [h]
        exact fun e => h e.symm

/-! ## `lpLoop` on brace-free text and inside a `{…}` group -/

theorem lpLoop_plain (a b : Bytes) (i : Nat) (st en : Int) (ha : Plain a) :
    lpLoop a b i st en false =
      if en + 1 = ((i + lcp a b : Nat) : Int) then st else ((i + lcp a b : Nat) : Int) := by
  induction a generalizing b i with
  | nil =>
    simp only [lpLoop, lcp_nil_left, Nat.add_zero]
    split <;> split <;> first | rfl | omega
  | cons c a ih =>
    cases b with
    | nil =>
      simp only [lpLoop, lcp_nil_right, Nat.add_zero]
      split <;> split <;> first | rfl | omega
    | cons d b =>
      obtain ⟨h1, h2, h3⟩ := ha.cons
      simp only [lpLoop, lcp_cons]
      by_cases hcd : c = d
      · subst hcd
        simp only [ne_eq, not_true_eq_false, if_false, h1, h2, if_true]
        rw [ih b (i + 1) h3]
        have : i + 1 + lcp a b = i + (lcp a b + 1) := by omega
        rw [this]
      · simp only [ne_eq, hcd, not_false_eq_true, if_true, if_false, Bool.false_eq_true, false_or, Nat.add_zero]

theorem lpLoop_brace (ia ib sa sb : Bytes) (i : Nat) (st en : Int) (ha : Plain ia) (hb : Plain ib) :
    lpLoop (ia ++ endByte :: sa) (ib ++ endByte :: sb) i st en true =
      if ia = ib then lpLoop sa sb (i + ia.length + 1) st ((i + ia.length : Nat) : Int) false else st := by
  induction ia generalizing ib i with
  | nil =>
    cases ib with
    | nil =>
      simp only [List.nil_append, lpLoop, ne_eq, not_true_eq_false, if_false, if_true, List.length_nil, Nat.add_zero]
      have : endByte ≠ startByte := fun e => startByte_ne_endByte e.symm
      simp [this]
    | cons d ib =>
      obtain ⟨h1, h2, h3⟩ := hb.cons
      have hne : endByte ≠ d := fun e => h2 e.symm
      simp [lpLoop, hne]
  | cons c ia ih =>
    obtain ⟨h1, h2, h3⟩ := ha.cons
    cases ib with
    | nil =>
      simp [lpLoop, h2]
    | cons d ib =>
      obtain ⟨g1, g2, g3⟩ := hb.cons
      simp only [List.cons_append, lpLoop]
      by_cases hcd : c = d
      · subst hcd
        simp only [ne_eq, not_true_eq_false, if_false, h1, h2]
        rw [ih ib (i + 1) h3 g3]
        simp only [List.cons.injEq, true_and, List.length_cons]
        have e1 : i + 1 + ia.length + 1 = i + (ia.length + 1) + 1 := by omega
        have e2 : i + 1 + ia.length = i + (ia.length + 1) := by omega
        rw [e1, e2]
      · have : ¬ (c :: ia = d :: ib) := by simp [hcd]
        simp [hcd, this]

/-! ## `longestPrefix` on well-formed texts -/

theorem lp_plain (a b : Bytes) (ha : Plain a) : longestPrefix a b = (lcp a b : Int) := by
  unfold longestPrefix
  rw [lpLoop_plain a b 0 _ _ ha]
  simp only [Nat.zero_add]
  split
  · omega
  · rfl

theorem lp_param (ia ib sa sb : Bytes) (ha : Plain ia) (hb : Plain ib) (hsa : Plain sa) :
    longestPrefix (startByte :: (ia ++ endByte :: sa)) (startByte :: (ib ++ endByte :: sb)) =
      if ia = ib ∧ 0 < lcp sa sb then ((ia.length + 2 + lcp sa sb : Nat) : Int) else 0 := by
  unfold longestPrefix
  simp only [lpLoop, ne_eq, not_true_eq_false, if_false, if_true]
  rw [lpLoop_brace ia ib sa sb _ _ _ ha hb]
  by_cases hab : ia = ib
  · simp only [hab, if_true, true_and]
    rw [lpLoop_plain sa sb _ _ _ hsa]
    split
    · rename_i h
      have : lcp sa sb = 0 := by omega
      simp [this]
    · rename_i h
      have : 0 < lcp sa sb := by omega
      simp only [this, if_true]
      congr 1
      omega
  · simp [hab]

/-! ## Keys -/

/-- The rest of a key: up to and including the first `}`, plus one more byte. -/
def keyTail : Bytes → Bytes
  | [] => []
  | c :: r => if c = endByte then c :: r.take 1 else c :: keyTail r

/-- The key of a segment text: the first byte of a literal; `{inner}` plus the first byte of the
suffix for a parameter. -/
def vkey : Bytes → Bytes
  | [] => []
  | c :: r => if c = startByte then c :: keyTail r else [c]

theorem keyTail_append (ia sa : Bytes) (h : endByte ∉ ia) :
    keyTail (ia ++ endByte :: sa) = ia ++ endByte :: sa.take 1 := by
  induction ia with
  | nil => simp [keyTail]
  | cons c ia ih =>
    simp only [List.mem_cons, not_or] at h
    have : c ≠ endByte := fun e => h.1 e.symm
    simp [keyTail, this, ih h.2]

theorem vkey_plain {c : UInt8} {r : Bytes} (h : Plain (c :: r)) : vkey (c :: r) = [c] := by
  simp [vkey, h.cons.1]

theorem vkey_param (ia sa : Bytes) (h : Plain ia) :
    vkey (startByte :: (ia ++ endByte :: sa)) = startByte :: (ia ++ endByte :: sa.take 1) := by
  simp [vkey, keyTail_append ia sa h.2]

/-- What a positive `longestPrefix` of two well-formed texts gives. -/
structure LpPos (a b : Bytes) (l : Nat) : Prop where
  lpos : 0 < l
  la : l ≤ a.length
  lb : l ≤ b.length
  takeEq : a.take l = b.take l
  keyEq : vkey a = vkey b
  wfTake : WfVal (a.take l)
  keyTake : vkey (a.take l) = vkey a
  notClosed : ¬ Closed (a.take l)
  dropA : Plain (a.drop l)
  dropB : Plain (b.drop l)

theorem lcp_take (a b : Bytes) : a.take (lcp a b) = b.take (lcp a b) := by
  induction a generalizing b with
  | nil => simp
  | cons c a ih =>
    cases b with
    | nil => simp
    | cons d b =>
      rw [lcp_cons]
      by_cases h : c = d
      · subst h; simp [ih b]
      · simp [h]

theorem lcp_comm (a b : Bytes) : lcp a b = lcp b a := by
  induction a generalizing b with
  | nil => simp
  | cons c a ih =>
    cases b with
    | nil => simp
    | cons d b =>
      rw [lcp_cons, lcp_cons]
      by_cases h : c = d
      · subst h; simp [ih b]
      · have : ¬ d = c := fun e => h e.symm
        simp [h, this]

theorem lcp_le_right (a b : Bytes) : lcp a b ≤ b.length := by
  rw [lcp_comm]; exact lcp_le_left b a

theorem take_append_le {α} (x y : List α) (k : Nat) (h : x.length ≤ k) :
    (x ++ y).take k = x ++ y.take (k - x.length) := by
  rw [List.take_append]
  rw [List.take_of_length_le h]

theorem drop_append_le {α} (x y : List α) (k : Nat) (h : x.length ≤ k) :
    (x ++ y).drop k = y.drop (k - x.length) := by
  rw [List.drop_append]
  rw [List.drop_of_length_le h]
  simp

theorem lpPos_of_wf {a b : Bytes} {l : Nat} (ha : WfVal a) (hb : WfVal b)
    (h : longestPrefix a b = (l : Int)) (hl : 0 < l) : LpPos a b l := by
  rcases ha with ⟨hane, hap⟩ | ⟨ia, sa, rfl, hia, hsa⟩
  · -- `a` is a literal
    rw [lp_plain a b hap] at h
    have hl' : l = lcp a b := by omega
    subst hl'
    obtain ⟨c, r1, r2, rfl, rfl⟩ := (lcp_pos_iff a b).1 hl
    have hbp : Plain (c :: r2) := by
      rcases hb with hb | ⟨ib, sb, e, _, _⟩
      · exact hb.2
      · simp only [List.cons.injEq] at e
        exact absurd e.1 hap.cons.1
    have hk : lcp (c :: r1) (c :: r2) = lcp r1 r2 + 1 := by simp [lcp_cons]
    refine ⟨hl, lcp_le_left _ _, lcp_le_right _ _, lcp_take _ _, ?_, ?_, ?_, ?_, hap.drop _, hbp.drop _⟩
    · rw [vkey_plain hap, vkey_plain hbp]
    · left
      rw [hk]
      exact ⟨by simp, hap.take _⟩
    · rw [hk, List.take_succ_cons, vkey_plain hap]
      have := hap.take (lcp r1 r2 + 1)
      rw [List.take_succ_cons] at this
      exact vkey_plain this
    · exact (hap.take _).not_closed
  · -- `a` is a parameter
    rcases hb with ⟨hbne, hbp⟩ | ⟨ib, sb, rfl, hib, hsb⟩
    · rw [longestPrefix_comm, lp_plain _ _ hbp] at h
      cases b with
      | nil => exact absurd rfl hbne
      | cons d b =>
        rw [lcp_cons] at h
        have : ¬ d = startByte := hbp.cons.1
        simp only [this, if_false] at h
        omega
    · rw [lp_param ia ib sa sb hia hib hsa] at h
      split at h
      · rename_i hc
        obtain ⟨rfl, hk⟩ := hc
        have hl' : l = ia.length + 2 + lcp sa sb := by omega
        subst hl'
        have hka : lcp sa sb ≤ sa.length := lcp_le_left _ _
        have hkb : lcp sa sb ≤ sb.length := lcp_le_right _ _
        have e1 : ∀ s : Bytes, startByte :: (ia ++ endByte :: s) = (startByte :: (ia ++ [endByte])) ++ s := by
          intro s; simp
        have hlen : (startByte :: (ia ++ [endByte])).length = ia.length + 2 := by simp
        have tk : ∀ s : Bytes, (startByte :: (ia ++ endByte :: s)).take (ia.length + 2 + lcp sa sb) =
            startByte :: (ia ++ endByte :: s.take (lcp sa sb)) := by
          intro s
          rw [e1, take_append_le _ _ _ (by rw [hlen]; omega), hlen]
          simp
        have dr : ∀ s : Bytes, (startByte :: (ia ++ endByte :: s)).drop (ia.length + 2 + lcp sa sb) =
            s.drop (lcp sa sb) := by
          intro s
          rw [e1, drop_append_le _ _ _ (by rw [hlen]; omega), hlen]
          simp
        obtain ⟨c, r1, r2, rfl, rfl⟩ := (lcp_pos_iff sa sb).1 hk
        refine ⟨hl, ?_, ?_, ?_, ?_, ?_, ?_, ?_, ?_, ?_⟩
        · simp only [List.length_cons, List.length_append] at hka ⊢; omega
        · simp only [List.length_cons, List.length_append] at hkb ⊢; omega
        · rw [tk, tk, lcp_take]
        · rw [vkey_param _ _ hia, vkey_param _ _ hia]; simp
        · rw [tk]
          exact .inr ⟨ia, _, rfl, hia, hsa.take _⟩
        · rw [tk, vkey_param _ _ hia, vkey_param _ _ hia]
          have : lcp (c :: r1) (c :: r2) = lcp r1 r2 + 1 := by simp [lcp_cons]
          rw [this]; simp
        · rw [tk]
          have : lcp (c :: r1) (c :: r2) = lcp r1 r2 + 1 := by simp [lcp_cons]
          rw [this, List.take_succ_cons]
          intro hc
          unfold Closed at hc
          have e2 : startByte :: (ia ++ endByte :: c :: List.take (lcp r1 r2) r1) =
              (startByte :: (ia ++ [endByte])) ++ (c :: List.take (lcp r1 r2) r1) := by simp
          rw [e2, List.getLast?_append] at hc
          have hp : Plain (c :: List.take (lcp r1 r2) r1) := by
            have := hsa.take (lcp r1 r2 + 1)
            rwa [List.take_succ_cons] at this
          cases hg : (c :: List.take (lcp r1 r2) r1).getLast? with
          | none => simp at hg
          | some x =>
            rw [hg] at hc
            simp only [Option.some_or, Option.some.injEq] at hc
            subst hc
            exact hp.not_closed hg
        · rw [dr]; exact hsa.drop _
        · rw [dr]; exact hsb.drop _
      · omega

/-- Different texts that `addSegment` does not consider similar have different keys. -/
theorem vkey_ne_of_lp_le {a b : Bytes} (ha : WfVal a) (hb : WfVal b) (hne : a ≠ b)
    (h : longestPrefix a b ≤ 0) : vkey a ≠ vkey b := by
  rcases ha with ⟨hane, hap⟩ | ⟨ia, sa, rfl, hia, hsa⟩
  · cases a with
    | nil => exact absurd rfl hane
    | cons c r1 =>
      rw [vkey_plain hap]
      rcases hb with ⟨hbne, hbp⟩ | ⟨ib, sb, rfl, hib, hsb⟩
      · cases b with
        | nil => exact absurd rfl hbne
        | cons d r2 =>
          rw [vkey_plain hbp]
          rw [lp_plain _ _ hap, lcp_cons] at h
          intro e
          simp only [List.cons.injEq, and_true] at e
          simp only [e, if_true] at h
          omega
      · rw [vkey_param _ _ hib]
        intro e
        simp only [List.cons.injEq] at e
        exact hap.cons.1 e.1
  · rw [vkey_param _ _ hia]
    rcases hb with ⟨hbne, hbp⟩ | ⟨ib, sb, rfl, hib, hsb⟩
    · cases b with
      | nil => exact absurd rfl hbne
      | cons d r2 =>
        rw [vkey_plain hbp]
        intro e
        simp only [List.cons.injEq] at e
        exact hbp.cons.1 e.1.symm
    · rw [vkey_param _ _ hib]
      rw [lp_param ia ib sa sb hia hib hsa] at h
      intro e
      simp only [List.cons.injEq, true_and] at e
      obtain ⟨e1, e2⟩ := append_end_inj hia.2 hib.2 e
      subst e1
      split at h
      · omega
      · rename_i hc
        have hk : lcp sa sb = 0 := by
          have : ¬ 0 < lcp sa sb := fun hk => hc ⟨rfl, hk⟩
          omega
        apply hne
        cases sa with
        | nil =>
          cases sb with
          | nil => rfl
          | cons d sb => simp at e2
        | cons c sa =>
          cases sb with
          | nil => simp at e2
          | cons d sb =>
            simp only [List.take_succ_cons, List.take_zero, List.cons.injEq, and_true] at e2
            rw [lcp_cons] at hk
            simp [e2] at hk

/-- Two sibling texts with different keys, one a prefix of the other: the shorter one is a bare
`{inner}`. -/
theorem closed_of_prefix {a b : Bytes} (ha : WfVal a) (hb : WfVal b) (hk : vkey a ≠ vkey b)
    (hp : a <+: b) : Closed a := by
  obtain ⟨t, rfl⟩ := hp
  rcases ha with ⟨hane, hap⟩ | ⟨ia, sa, rfl, hia, hsa⟩
  · cases a with
    | nil => exact absurd rfl hane
    | cons c r1 =>
      exfalso
      apply hk
      rw [vkey_plain hap]
      rcases hb with ⟨_, hbp⟩ | ⟨ib, sb, e, hib, hsb⟩
      · exact (vkey_plain (r := r1 ++ t) hbp).symm
      · simp only [List.cons_append, List.cons.injEq] at e
        exact absurd e.1 hap.cons.1
  · rcases hb with ⟨_, hbp⟩ | ⟨ib, sb, e, hib, hsb⟩
    · exact absurd rfl (hbp.cons (c := startByte)).1
    · simp only [List.cons_append, List.cons.injEq, true_and, List.append_assoc] at e
      obtain ⟨e1, e2⟩ := append_end_inj hia.2 hib.2 e
      subst e1
      cases sa with
      | nil =>
        unfold Closed
        have : startByte :: (ia ++ [endByte]) = (startByte :: ia) ++ [endByte] := by simp
        rw [this, List.getLast?_concat]
      | cons c sa =>
        exfalso
        apply hk
        rw [vkey_param _ _ hia]
        have e3 : startByte :: (ia ++ endByte :: c :: sa) ++ t = startByte :: (ia ++ endByte :: sb) := by
          simp [e2]
        rw [e3, vkey_param _ _ hia, ← e2]
        simp

/-- Equal texts have equal keys; distinct keys give distinct texts. -/
theorem ne_of_vkey_ne {a b : Bytes} (h : vkey a ≠ vkey b) : a ≠ b := fun e => h (e ▸ rfl)

end Mux.P11
