/-
  Mux.Proofs.HostsDelete — helper lemmas for `Mux/Properties/C14delete.lean`:
  * the matcher-level frame property of `Tree.remove` in BOTH directions (`remove_frameP`: a hit on an untouched
    pattern stays that hit, a MISS stays a miss) — the statement inside the proof of `P14.frame_remove'`, exported;
  * the route table read off the tree after `Tree.remove p []` is the old one without `p` (`tableOf_remove`), for
    every tree with the table invariant `TInv` (no history needed: the tree refines its own table).
-/
import Mux.Proofs.Frame
import Mux.Proofs.Table
import Mux.Proofs.HostsResolve
import Mux.Proofs.WitnessRx
import Mux.Proofs.ResolveHistory
namespace Mux.P30
open Mux Mux.P11 Mux.P12 Mux.P14

/-- **The frame property of `Tree.remove` at the level of the matcher**: a request that hit a node whose pattern is
not `p` hits a node with the same pattern and handlers, with the same parameters; a request that MISSED still
misses, with the same parameters. -/
theorem remove_frameP {t t' : Tree} (hinv : AllInv t) {p : Bytes} {methods : List Bytes}
    (he : t.remove p methods = .ok t') (env : Env) (rp : Bytes) :
    FrameP (fun pt => pt = p) (t.matched env rp []) (t'.matched env rp []) := by
  rcases remove_inv he with ⟨rfl, _⟩ | ⟨path, root1, hpath, hrem, rfl⟩
  · exact FrameP.refl _ _
  · obtain ⟨x, hx, hxp, hpne⟩ := findPath_sound t.ic t.root hinv.ti.sh p path hpath
    rw [hinv.rootPat, List.nil_append] at hxp
    have hF := removeMethods_frameF t.hasTrace methods
    obtain ⟨_, hpat1, hhs1, _, _⟩ := removeAt_top _ hF path t.root root1 hrem
    have hhs1' := hhs1 hpne
    unfold Tree.matched
    by_cases hsp : rp = [42] ∨ rp = []
    · simp only [hsp, if_true]
      intro _
      exact ⟨_, rfl, by simp [Tree.recount, Node.setHandlers, hpat1], by simp [Tree.recount, Node.setHandlers, hhs1']⟩
    · simp only [hsp, if_false]
      have h1 := frame_removeAt' env t.ic _ hF path t.root root1 x hinv.s2.all hx
        hrem rp [] [] hinv.namesRoot (by simp [AMap.keys])
      rw [hxp] at h1
      exact h1.trans (frame_setMi' env t.ic _ root1 _ rp [])

/-- A tree with the table invariant refines the table read off it. -/
theorem refines_self {t : Tree} (hinv : TInv t) : Refines t (tableOf t) :=
  ⟨hinv, fun _ _ => Iff.rfl, (tableOf_ok hinv).1⟩

/-- **The table after `Remove(p)`** (no methods): exactly the old patterns other than `p`. -/
theorem tableOf_remove {t t' : Tree} (hinv : TInv t) {p : Bytes} (he : t.remove p [] = .ok t') (q : Bytes) :
    q ∈ (tableOf t').patterns ↔ q ∈ (tableOf t).patterns ∧ q ≠ p := by
  have hstep : t.step (.remove p []) = t' := by simp [Tree.step, he]
  have hr := (refines_self hinv).step (.remove p []) rfl
  rw [hstep] at hr
  have := (tables_agree (tableOf_ok hr.inv).1 hr.ok hr.has).1 q
  rw [this]
  simp only [Spec.stepWith, Spec.remove, List.isEmpty_nil, if_true, Spec.Table.patterns, List.mem_map, List.mem_filter]
  constructor
  · rintro ⟨e, ⟨he1, he2⟩, rfl⟩
    exact ⟨⟨e, he1, rfl⟩, by simpa using he2⟩
  · rintro ⟨⟨e, he1, rfl⟩, hne⟩
    exact ⟨e, ⟨he1, by simpa using hne⟩, rfl⟩

/-- **The table after `Add(p)`**: the old patterns, and `p` iff the registration was accepted. -/
theorem tableOf_add {t : Tree} (hinv : TInv t) {p : Bytes} (hw : WfPattern p = true) (h : Handler) (ms : List Nat)
    (methods : List Bytes) (q : Bytes) :
    q ∈ (tableOf (t.step (.add p h ms methods))).patterns ↔
      q ∈ (tableOf t).patterns ∨ (q = p ∧ ∃ t', t.add p h ms methods = .ok t') := by
  have hr := (refines_self hinv).step (.add p h ms methods) hw
  have := (tables_agree (tableOf_ok hr.inv).1 hr.ok hr.has).1 q
  rw [this]
  simp only [Spec.stepWith]
  cases he : t.add p h ms methods with
  | error e => simp
  | ok t' =>
    simp only [P15.mem_patterns_add]
    exact ⟨fun h => h.elim .inl (fun e => .inr ⟨e, t', rfl⟩), fun h => h.elim .inl (fun e => .inr e.1)⟩

/-! ## A literal registered domain is matched -/

/-- Along a chain of a tree with the shape invariant every segment is `newSegment` of its own text. -/
theorem chain_segs_ok {ic : Interceptors} : ∀ {n x : Node} {segs : List Seg}, Chain n segs x → Node.All (Sh ic) n →
    ∀ s ∈ segs, newSegment ic s.value = .ok s ∧ WfVal s.value := by
  intro n x segs h
  induction h with
  | nil n => intro _ s hs; cases hs
  | cons hc _ ih =>
    intro hn s hs
    rcases List.mem_cons.1 hs with rfl | hs
    · exact ⟨(hn.head.1 _ hc).2.1, (hn.head.1 _ hc).1⟩
    · exact ih ((AllL_iff _ _).1 hn.tail _ hc) s hs

/-- A chain of literal segments instantiates to the concatenation of their texts, whatever the values. -/
theorem instChain_lit : ∀ (segs : List Seg), (∀ s ∈ segs, s.kind = .str) →
    instChain (segs.zip (segs.map (fun _ => ([] : Bytes)))) = (segs.map (·.value)).flatten := by
  intro segs
  induction segs with
  | nil => intro _; rfl
  | cons s segs ih =>
    intro h
    simp only [List.map_cons, List.zip_cons_cons, instChain, List.flatten_cons]
    rw [ih (fun s' hs' => h s' (List.mem_cons_of_mem _ hs'))]
    have : s.kind = .str := h s List.mem_cons_self
    simp [Seg.inst, this]

/-- **Completeness for literal routes**: on a tree with the invariants of well-formed histories, a live pattern `p`
without `{` on which `m` is registered is never answered 404 for the path `p` itself. -/
theorem literal_found {t : Tree} (hinv : AllInv t) (env : Env) {p m : Bytes} (h : (tableOf t).has p m)
    (hlit : startByte ∉ p) :
    p ≠ [] ∧ ∀ f, t.handler env p [] m = .res f → ∃ q, f.node = some q ∧ q.handlers ≠ [] := by
  obtain ⟨x, segs, hch, hsne, _, hflat, _, hw⟩ := P17.witness_table_vals hinv env h
  have hok := chain_segs_ok hch hinv.ti.sh
  have hstr : ∀ s ∈ segs, s = { value := s.value } := by
    intro s hs
    refine P9.newSegment_str_of_noStart (hok s hs).1 (fun hm => hlit ?_)
    rw [hflat]
    exact List.mem_flatten.2 ⟨s.value, List.mem_map_of_mem hs, hm⟩
  have hkind : ∀ s ∈ segs, s.kind = .str := fun s hs => by rw [hstr s hs]
  have hinst := instChain_lit segs hkind
  rw [← hflat] at hinst
  have hgood : ∀ sv ∈ segs.zip (segs.map (fun _ => ([] : Bytes))), P17.GoodVal env t.ic sv.1 sv.2 := by
    intro sv hsv
    have h1 := (List.of_mem_zip hsv).1
    have h2 := (List.of_mem_zip hsv).2
    have hv : sv.2 = [] := by
      obtain ⟨_, _, e⟩ := List.mem_map.1 h2
      exact e.symm
    refine .inl ⟨by rw [hkind _ h1]; simp, ?_, by rw [hv]; intro b hb; cases hb⟩
    unfold Seg.Satisfies
    rw [hkind _ h1]
    trivial
  have hrx : ∀ s ∈ segs, s.kind = .rx → s.re.wide = false := by
    intro s hs hk
    rw [hkind s hs] at hk; cases hk
  obtain ⟨_, hw2⟩ := hw (segs.map (fun _ => [])) (by simp) hgood (.inr hrx)
  rw [hinst] at hw2
  refine ⟨?_, fun f hres => ?_⟩
  · cases segs with
    | nil => exact absurd rfl hsne
    | cons s rest =>
      have hmem : s ∈ s :: rest := List.mem_cons_self
      have hval : s.value ≠ [] := by
        rcases (hok s hmem).2 with ⟨hne, _⟩ | ⟨ia, sa, hv, _⟩
        · exact hne
        · rw [hv]; simp
      intro hp
      rw [hp] at hflat
      simp only [List.map_cons, List.flatten_cons] at hflat
      exact hval (List.append_eq_nil_iff.1 hflat.symm).1
  · obtain ⟨q, hq, hqh, _⟩ := hw2 f hres
    exact ⟨q, hq, hqh⟩

/-- In a private tree with `HostsGet`, every pattern of the table is registered for `GET`. -/
theorem domain_has_get {hs : Hosts} (hg : HostsGet hs) {p : Bytes} (hp : p ∈ (tableOf hs.tree).patterns) :
    (tableOf hs.tree).has p mGET := by
  rw [tableOf_patterns] at hp
  obtain ⟨e, he, rfl⟩ := List.mem_map.1 hp
  obtain ⟨x, hx, hxh, rfl⟩ := P11.mem_liveL.1 he
  rw [has_tableOf]
  refine ⟨_, he, rfl, mem_regKeys.2 ⟨?_, by unfold IsReg; decide⟩⟩
  rcases (((All_iff_nodes _).2 _).1 hg x hx).1 with h0 | h0
  · exact absurd h0 hxh
  · exact h0

end Mux.P30
