/-
  Mux.Proofs.Conc — the instances of the abstract readers/writer semantics (`Mux.Proofs.RWLock`)
  used by C06/C07, and the instance-isolation lemmas of C07 (router table, context pool).
-/
import Mux.Proofs.RWLock
import Mux.Spec.Defs
import Mux.Ties.C06
import Mux.Ties.C07
namespace Mux.Conc
open Mux Mux.RWLock

/-! ## The Tree API as a system of reader and writer operations -/

/-- The API calls C06 names. `add`/`remove`/`clean` take the write lock, `handler` (the tree walk of
`ServeHTTP`), `routes` and `url` (strict `URL`) the read lock. -/
inductive Op where
  | add (pattern : Bytes) (h : Handler) (ms : List Nat) (methods : List Bytes)
  | remove (pattern : Bytes) (methods : List Bytes)
  | clean (pre : Bytes)
  | handler (path : Bytes) (ps : Params) (method : Bytes)
  | routes
  | url (pattern : Bytes) (ps : AMap Bytes)

def Op.isWriter : Op → Bool
  | .add .. => true
  | .remove .. => true
  | .clean .. => true
  | _ => false

/-- The Go method an operation is (the key of its regenerated lock shape). -/
def Op.api : Op → String
  | .add .. => "Tree.Add"
  | .remove .. => "Tree.Remove"
  | .clean .. => "Tree.Clean"
  | .handler .. => "Tree.Handler"
  | .routes => "Tree.Routes"
  | .url .. => "Tree.URL"

/-- The writer operations as history operations of `Mux.Spec.Defs`. -/
def Op.toTOp? : Op → Option TOp
  | .add p h ms methods => some (.add p h ms methods)
  | .remove p methods => some (.remove p methods)
  | .clean pre => some (.clean pre)
  | _ => none

/-- What the caller gets back. -/
inductive Resp where
  | wrote (err : Option Err)
  | handler (r : HR)
  | routes (l : List (Bytes × List Bytes))
  | url (r : Except Err Bytes)

def errOf {α : Type} : Except Err α → Option Err
  | .ok _ => none
  | .error e => some e

/-- The sequential meaning (L1): writers are `Tree.step` (a failing call leaves the tree as it
was and reports the error), readers are the pure functions of the model. -/
def sem (env : Env) : Op → Tree → Tree × Resp
  | .add p h ms methods, t => (t.step (.add p h ms methods), .wrote (errOf (t.add p h ms methods)))
  | .remove p methods, t => (t.step (.remove p methods), .wrote (errOf (t.remove p methods)))
  | .clean pre, t => (t.step (.clean pre), .wrote (errOf (t.clean pre)))
  | .handler path ps method, t => (t, .handler (t.handler env path ps method))
  | .routes, t => (t, .routes t.routes)
  | .url p ps, t => (t, .url (t.url env p ps))

/-- The shared accesses of a Go method, read off its regenerated lock shape. -/
def accsOf (f : String) : List (String × Bool) :=
  ((Ties.shapeOf f).getD []).filterMap fun
    | .read w => some (w, false)
    | .write w => some (w, true)
    | _ => none

theorem reader_accs_facts :
    (∀ a ∈ accsOf "Tree.Handler", a.2 = false) ∧ (∀ a ∈ accsOf "Tree.Routes", a.2 = false) ∧
    (∀ a ∈ accsOf "Tree.URL", a.2 = false) := by decide

/-- The tree under `WithLock(true)`. The reader constraints hold by construction of `sem`, and —
for the micro-accesses — by the regenerated facts. -/
@[reducible] def treeSys (env : Env) : Sys where
  σ := Tree
  Op := Op
  Resp := Resp
  Loc := String
  mode := Op.isWriter
  sem := sem env
  accs := fun op => accsOf op.api
  reader_pure := by intro op s h; cases op <;> first | rfl | simp [Op.isWriter] at h
  reader_accs := by
    intro op h
    cases op
    case handler => exact reader_accs_facts.1
    case routes => exact reader_accs_facts.2.1
    case url => exact reader_accs_facts.2.2
    all_goals simp [Op.isWriter] at h

/-- The mode of every operation is the mode of the first acquisition in its regenerated shape,
and every operation is one of the methods whose discipline `C06_discipline` checks. -/
theorem mode_tie (op : Op) :
    (Ties.shapeOf op.api).bind Ties.firstAcq = some op.isWriter ∧ op.api ∈ Ties.lockedApi := by
  have h := Ties.C06_modes
  cases op <;> simp only [Op.api, Op.isWriter]
  · exact ⟨h.1, by decide⟩
  · exact ⟨h.2.1, by decide⟩
  · exact ⟨h.2.2.1, by decide⟩
  · exact ⟨h.2.2.2.2.2, by decide⟩
  · exact ⟨h.2.2.2.1, by decide⟩
  · exact ⟨h.2.2.2.2.1, by decide⟩

/-- Folding `sem` over a list of operations is `Tree.run` over its writer operations. -/
theorem run_eq (env : Env) (t : Tree) (ops : List Op) :
    run (treeSys env) t ops = t.run (ops.filterMap Op.toTOp?) := by
  induction ops generalizing t with
  | nil => rfl
  | cons op ops ih =>
    have : run (treeSys env) t (op :: ops) = run (treeSys env) ((sem env op t).1) ops := rfl
    rw [this, ih]
    cases op <;> rfl

/-! ## A quiescent router: every request is a reader -/

/-- Serving on a router nobody modifies. The operation is the request; its meaning is
`Router.serveContext` on the context `NewContext` hands out (no parameters). -/
@[reducible] def serveSys (env : Env) : Sys where
  σ := Router
  Op := Req
  Resp := ServeRes
  Loc := Unit
  mode := fun _ => false
  sem := fun req r => (r, r.serveContext env req [])
  accs := fun _ => [((), false)]
  reader_pure := by intros; rfl
  reader_accs := by intro op _ a ha; simp at ha; simp [ha]

theorem serveSys_readOnly (env : Env) (progs : Nat → List Req) : ReadOnly (S := serveSys env) progs :=
  fun _ _ _ => rfl

/-! ## Instances share no state: the router table -/

theorem find_map_set (rt : RTab) (id id' : Nat) (r : Router) :
    ((rt.map (fun e => if e.1 = id then (id, r) else e)).find? (fun e => e.1 = id')).map (·.2) =
      if id' = id then (rt.find? (fun e => e.1 = id)).map (fun _ => r)
      else (rt.find? (fun e => e.1 = id')).map (·.2) := by
  induction rt with
  | nil => simp
  | cons e rt ih =>
    simp only [List.map_cons, List.find?_cons]
    by_cases h1 : e.1 = id <;> by_cases h2 : id' = id
    · subst h2; simp [h1]
    · have : ¬ id = id' := fun h => h2 h.symm
      simp [h1, h2, this, ih, -List.find?_map]
    · subst h2; simp [h1, ih, -List.find?_map]
    · by_cases h3 : e.1 = id'
      · simp [h2, h3, -List.find?_map]
      · simp [h1, h2, h3, ih, -List.find?_map]

theorem RTab.get?_set (rt : RTab) (id id' : Nat) (r : Router) :
    (rt.set id r).get? id' = if id' = id then some r else rt.get? id' := by
  unfold RTab.set RTab.get?
  by_cases hany : rt.any (·.1 = id) = true
  · rw [if_pos hany, find_map_set]
    obtain ⟨x, hx, hx1⟩ := List.any_eq_true.1 hany
    cases hf : rt.find? (fun e => e.1 = id) with
    | none =>
      rw [List.find?_eq_none] at hf
      exact absurd hx1 (hf x hx)
    | some y => simp
  · rw [if_neg hany]
    have hnone : rt.find? (fun e => e.1 = id) = none := by
      rw [List.find?_eq_none]
      intro x hx hx1
      exact hany (List.any_eq_true.2 ⟨x, hx, hx1⟩)
    by_cases h2 : id' = id
    · subst h2
      simp [List.find?_append, hnone]
    · have : ¬ id = id' := fun h => h2 h.symm
      simp [List.find?_append, h2, this]

/-- One operation on the router with handle `id`. -/
def stepAt (rt : RTab) (id : Nat) (op : ROp) : RTab :=
  match rt.get? id with
  | some r => rt.set id (r.step op)
  | none => rt

theorem stepAt_get? (rt : RTab) (id id' : Nat) (op : ROp) :
    (stepAt rt id op).get? id' = if id' = id then (rt.get? id).map (·.step op) else rt.get? id' := by
  unfold stepAt
  cases h : rt.get? id with
  | none => by_cases h2 : id' = id <;> simp [h2, h]
  | some r => simp [RTab.get?_set]

/-- A history of operations on several routers, each tagged with its handle. -/
def runAt (rt : RTab) (h : List (Nat × ROp)) : RTab := h.foldl (fun rt e => stepAt rt e.1 e.2) rt

theorem runAt_get? (rt : RTab) (h : List (Nat × ROp)) (id : Nat) :
    (runAt rt h).get? id = (rt.get? id).map (fun r => r.run ((h.filter (·.1 = id)).map (·.2))) := by
  induction h generalizing rt with
  | nil => simp [runAt, Router.run]
  | cons e h ih =>
    have : runAt rt (e :: h) = runAt (stepAt rt e.1 e.2) h := rfl
    rw [this, ih, stepAt_get?]
    by_cases h1 : id = e.1
    · subst h1
      cases hg : rt.get? e.1 <;> simp [Router.run]
    · have : ¬ e.1 = id := fun h => h1 h.symm
      simp [h1, this]

/-- Histories that also create routers (`NewRouter` under a handle). -/
inductive IOp where
  | create (cfg : RouterCfg)
  | op (o : ROp)

/-- One instance alone: its state is a function of its own history only. A failing `NewRouter`
(empty name: panic with a message) and operations on a handle that does not exist do nothing. -/
def IOp.own : Option Router → IOp → Option Router
  | cur, .create cfg => match Router.new cfg with
    | some r => some r
    | none => cur
  | cur, .op o => cur.map (·.step o)

def applyAt (rt : RTab) (id : Nat) : IOp → RTab
  | .create cfg => match Router.new cfg with
    | some r => rt.set id r
    | none => rt
  | .op o => stepAt rt id o

theorem applyAt_get? (rt : RTab) (id id' : Nat) (o : IOp) :
    (applyAt rt id o).get? id' = if id' = id then IOp.own (rt.get? id) o else rt.get? id' := by
  cases o with
  | create cfg =>
    simp only [applyAt, IOp.own]
    cases Router.new cfg with
    | none => by_cases h : id' = id <;> simp [h]
    | some r => simp [RTab.get?_set]
  | op o => simp [applyAt, IOp.own, stepAt_get?]

def runAll (rt : RTab) (h : List (Nat × IOp)) : RTab := h.foldl (fun rt e => applyAt rt e.1 e.2) rt

theorem runAll_get? (rt : RTab) (h : List (Nat × IOp)) (id : Nat) :
    (runAll rt h).get? id = ((h.filter (·.1 = id)).map (·.2)).foldl IOp.own (rt.get? id) := by
  induction h generalizing rt with
  | nil => rfl
  | cons e h ih =>
    have : runAll rt (e :: h) = runAll (applyAt rt e.1 e.2) h := rfl
    rw [this, ih, applyAt_get?]
    by_cases h1 : id = e.1
    · subst h1; simp
    · have : ¬ e.1 = id := fun h => h1 h.symm
      simp [h1, this]

/-! ## The context pool -/

inductive PoolOp where
  | destroy (c : Ctx)
  | get

/-- Runs pool operations; returns the pool and the contexts handed out (most recent first). -/
def poolRun : Pool → List PoolOp → Pool × List Ctx
  | p, [] => (p, [])
  | p, .destroy c :: ops => poolRun (p.destroy c) ops
  | p, .get :: ops =>
    let r := poolRun p.newContext.2 ops
    (r.1, p.newContext.1 :: r.2)

theorem newContext_fresh (p : Pool) : p.newContext.1 = {} := by
  cases p <;> rfl

theorem poolRun_fresh (p : Pool) (ops : List PoolOp) : ∀ c ∈ (poolRun p ops).2, c = {} := by
  induction ops generalizing p with
  | nil => simp [poolRun]
  | cons o ops ih =>
    cases o with
    | destroy c => exact ih _
    | get =>
      intro c hc
      simp only [poolRun, List.mem_cons] at hc
      rcases hc with rfl | hc
      · exact newContext_fresh p
      · exact ih _ c hc

end Mux.Conc
