/-
  Mux.Proofs.ResolveUse — the "forked or live" invariant `FInv` of `ResolveHistory.lean` survives
  `Use` (`Tree.applyMiddleware` maps the handlers and keeps segments, patterns and children), hence
  holds after every history of registrations and `Use` calls, at tree level (`TOp`) and at router
  level (`ROp`, from `Router.new`).  Also: `Tree.handler` is total (`.res`) on ASCII paths for trees
  with the invariants of a well-formed history.
-/
import Mux.Proofs.ResolveHistory
import Mux.Proofs.ReachAll
import Mux.Proofs.GroupLiftReach
import Mux.Proofs.HandlerSound
import Mux.Proofs.ResolveReach
namespace Mux.P28
open Mux Mux.P11 Mux.P15

/-! ## `applyMw` keeps "forked or live" -/

theorem applyMw_TL (live : List Bytes) (router : Bytes) (ms : List Nat) :
    ∀ n : Node, Node.All (TL live) n →
      P8.sigc (n.applyMw router ms) = P8.sigc n ∧ Node.All (TL live) (n.applyMw router ms) := by
  intro n
  induction n using Node.rec (motive_2 := fun cs => AllL (TL live) cs →
      (applyMwL router ms cs).map P8.sigc = cs.map P8.sigc ∧ AllL (TL live) (applyMwL router ms cs)) with
  | mk s p mi hs idx cs ih =>
    intro h
    obtain ⟨h1, h2⟩ := ih h.2
    refine ⟨rfl, ?_⟩
    simp only [Node.applyMw, Node.All]
    refine ⟨?_, h2⟩
    rcases h.1 with hl | hf
    · exact .inl hl
    · exact .inr (Forked_congr h1 hf)
  | nil => simp [applyMwL, AllL]
  | cons c cs ih1 ih2 =>
    rename_i h
    obtain ⟨a1, a2⟩ := ih1 h.1
    obtain ⟨b1, b2⟩ := ih2 h.2
    simp only [applyMwL, AllL, List.map_cons]
    exact ⟨by rw [a1, b1], a2, b2⟩

/-- One `Use` step keeps the invariant; the table is unchanged. -/
theorem FInv.step_use {t : Tree} {tb : Spec.Table} (h : FInv t tb) (ms : List Nat) :
    FInv (t.step (.use ms)) (Spec.stepWith t tb (.use ms)) := by
  refine ⟨h.sim.step (.use ms) rfl, ?_⟩
  show AllL (TL tb.patterns) (t.root.applyMw t.name ms).children
  have hroot : Node.All (TL (t.root.pattern :: tb.patterns)) t.root := by
    rw [Node.All_iff]
    exact ⟨.inl List.mem_cons_self, (TL_mono (fun q hq => List.mem_cons_of_mem _ hq)).2 _ h.forked⟩
  have h2 := (applyMw_TL _ t.name ms t.root hroot).2.tail
  have hsim' : Sim (t.step (.use ms)) (Spec.stepWith t tb (.use ms)) := h.sim.step (.use ms) rfl
  have hsh' : Node.All (Sh t.ic) (t.root.applyMw t.name ms) := hsim'.inv.sh
  have hrp : (t.root.applyMw t.name ms).pattern = [] := by
    rw [(applyMw_fields t.name ms t.root).2.1]; exact h.sim.inv.rootPat
  rw [(All_iff_nodes _).2] at h2 ⊢
  intro x hx
  rcases h2 x hx with hl | hfk
  · rcases List.mem_cons.1 hl with e | hl
    · obtain ⟨r, hr, hxr⟩ := below_pattern t.ic _ hsh' x hx
      rw [hrp, List.nil_append] at hxr
      rw [h.sim.inv.rootPat] at e
      rw [e] at hxr
      exact absurd hxr.symm hr
    · exact .inl hl
  · exact .inr hfk

/-- A history of registrations and `Use` calls (no `Remove`, no `Clean`). -/
def AddUse (ops : List TOp) : Prop :=
  ∀ op ∈ ops, (∃ p h ms methods, op = .add p h ms methods) ∨ ∃ ms, op = .use ms

instance (ops : List TOp) : Decidable (AddUse ops) :=
  decidable_of_iff (∀ op ∈ ops, (match op with | .add .. => true | .use _ => true | _ => false) = true) (by
    unfold AddUse
    refine forall_congr' fun op => forall_congr' fun _ => ?_
    cases op <;> simp)

theorem addUse_of_addOnly {ops : List TOp} (h : AddOnly ops) : AddUse ops := fun op hop => .inl (h op hop)

theorem FInv.step_addUse {t : Tree} {tb : Spec.Table} (h : FInv t tb) (op : TOp)
    (ha : (∃ p hd ms methods, op = .add p hd ms methods) ∨ ∃ ms, op = .use ms) (hw : op.wf = true) :
    FInv (t.step op) (Spec.stepWith t tb op) := by
  rcases ha with ⟨p, hd, ms, methods, rfl⟩ | ⟨ms, rfl⟩
  · exact h.step_add p hd ms methods hw
  · exact FInv.step_use h ms

theorem FInv.runUse {t : Tree} {tb : Spec.Table} (h : FInv t tb) (ops : List TOp) (ha : AddUse ops)
    (hw : ∀ op ∈ ops, op.wf = true) : FInv (t.run ops) (specRunFrom t tb ops) := by
  unfold Tree.run
  induction ops generalizing t tb with
  | nil => exact h
  | cons op ops ih =>
    simp only [List.foldl_cons, specRunFrom]
    exact ih (FInv.step_addUse h op (ha _ List.mem_cons_self) (hw _ List.mem_cons_self))
      (fun o ho => ha o (List.mem_cons_of_mem _ ho)) (fun o ho => hw o (List.mem_cons_of_mem _ ho))

theorem finv_history_use (name : Bytes) (ic : Interceptors) (nf : Handler) (tr : Option Handler) (ob nb : Base)
    (ops : List TOp) (ha : AddUse ops) (hw : ∀ op ∈ ops, op.wf = true) :
    FInv ((Tree.new name ic nf tr ob nb).run ops) (specRun (Tree.new name ic nf tr ob nb) ops) :=
  FInv.runUse (FInv.new name ic nf tr ob nb) ops ha hw

/-! ## Router histories of `Handle` and `Use` -/

/-- A router history that only registers (with or without middlewares) and calls `Use`. -/
def HandleUse (ops : List ROp) : Prop :=
  ∀ op ∈ ops, (∃ p h m methods, op = .handle p h m methods) ∨ ∃ m, op = .use m

instance (ops : List ROp) : Decidable (HandleUse ops) :=
  decidable_of_iff (∀ op ∈ ops, (match op with | .handle .. => true | .use _ => true | _ => false) = true) (by
    unfold HandleUse
    refine forall_congr' fun op => forall_congr' fun _ => ?_
    cases op <;> simp)

/-- The abstract table replayed along a router history (same as `C01.routerTableFrom`). -/
def rTableFrom : Router → Spec.Table → List ROp → Spec.Table
  | _, tb, [] => tb
  | r, tb, op :: ops => rTableFrom (r.step op) (Spec.stepWith r.tree tb (P18.topOf r op)) ops

theorem finv_routerFrom {r : Router} {tb : Spec.Table} (h : FInv r.tree tb) (ops : List ROp) (ha : HandleUse ops)
    (hw : ∀ op ∈ ops, P18.ROp.wf op = true) : FInv (r.run ops).tree (rTableFrom r tb ops) := by
  unfold Router.run
  induction ops generalizing r tb with
  | nil => exact h
  | cons op ops ih =>
    simp only [List.foldl_cons, rTableFrom]
    refine ih ?_ (fun o ho => ha o (List.mem_cons_of_mem _ ho)) (fun o ho => hw o (List.mem_cons_of_mem _ ho))
    rw [P18.step_tree_eq]
    refine FInv.step_addUse h _ ?_ (by rw [P18.topOf_wf]; exact hw op List.mem_cons_self)
    rcases ha op List.mem_cons_self with ⟨p, hd, m, methods, rfl⟩ | ⟨m, rfl⟩
    · exact .inl ⟨p, _, _, methods, rfl⟩
    · exact .inr ⟨m, rfl⟩

theorem finv_router {cfg : RouterCfg} {r0 : Router} (hnew : Router.new cfg = some r0) (ops : List ROp)
    (ha : HandleUse ops) (hw : ∀ op ∈ ops, P18.ROp.wf op = true) : ∃ tb, FInv (r0.run ops).tree tb := by
  have h0 : FInv r0.tree [] := by
    unfold Router.new at hnew
    split at hnew
    · cases hnew
    · cases hnew; exact FInv.new _ _ _ _ _ _
  exact ⟨_, finv_routerFrom h0 ops ha hw⟩

/-! ## `Tree.handler` is total on ASCII paths -/

theorem handlerNoTrace_unsupported {env : Env} {t : Tree} {path : Bytes} {ps : Params} {method : Bytes}
    (h : Tree.handler.Tree.handlerNoTrace env t path ps method = .unsupported) :
    t.matchRes env path ps = .unsupported := by
  unfold Tree.handler.Tree.handlerNoTrace at h
  simp only at h
  change (match t.matchRes env path ps with
    | .fault s => HR.fault s
    | .unsupported => HR.unsupported
    | .miss ps' => HR.res { node := none, handler := t.notFound, ok := false, params := ps' }
    | .hit n ps' => _) = _ at h
  cases hr : t.matchRes env path ps with
  | fault s => rw [hr] at h; cases h
  | unsupported => rfl
  | miss ps' => rw [hr] at h; cases h
  | hit n ps' =>
    rw [hr] at h
    simp only at h
    exfalso
    split at h
    · cases h
    · split at h
      · cases h
      · split at h <;> cases h

/-- On a tree with the invariants of a well-formed history, an ASCII path other than `""`/`*` is always
answered (`.res`): no fault, and the matcher stays inside the modelled regexp dialect. -/
theorem handler_total {t : Tree} (hinv : P14.AllInv t) (env : Env) (path : Bytes) (hasc : isAscii path = true)
    (method : Bytes) : ∃ f, t.handler env path [] method = .res f := by
  rcases handler_spec hinv.ti.inv2.toTreeInv env path [] method with ⟨f, h1, _⟩ | h1
  · exact ⟨f, h1⟩
  · exfalso
    rcases Tree.handler_cases env t path [] method with ⟨h', _, _, e⟩ | ⟨_, e⟩
    · rw [e] at h1; cases h1
    · rw [e] at h1
      have hm := handlerNoTrace_unsupported h1
      unfold Tree.matchRes at hm
      split at hm
      · cases hm
      · have hroot : t.root ∈ t.root.nodes := by rw [Node.nodes_eq]; exact List.mem_cons_self
        exact P15.supported_node env t.ic t.root hinv.s2.all path [] [] hasc hinv.names (by simp [AMap.keys]) hm

end Mux.P28
