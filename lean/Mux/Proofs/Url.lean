/-
  Mux.Proofs.Url — non-strict reverse URL building and `Segment.Valid`.
-/
import Mux.Proofs.Syntax
import Mux.Proofs.SegMatch
namespace Mux

/-- The text a segment contributes to a built URL. -/
def Seg.subst (ps : AMap Bytes) (s : Seg) : Bytes :=
  if s.kind = .str then s.value else (ps.get? s.name).getD [] ++ s.suffix

/-- Every parameter of the pattern has a value. -/
def ParamsPresent (ps : AMap Bytes) (segs : List Seg) : Prop :=
  ∀ s ∈ segs, s.kind ≠ .str → (ps.get? s.name).isSome

instance (ps : AMap Bytes) (segs : List Seg) : Decidable (ParamsPresent ps segs) := by
  unfold ParamsPresent; infer_instance

theorem urlLoop_ok_iff (ps : AMap Bytes) (segs : List Seg) (u : Bytes) :
    urlLoop ps segs = .ok u ↔ ParamsPresent ps segs ∧ u = (segs.map (Seg.subst ps)).flatten := by
  induction segs generalizing u with
  | nil =>
    simp only [urlLoop, ParamsPresent, List.map_nil, List.flatten_nil]
    constructor
    · intro h; cases h; exact ⟨by simp, rfl⟩
    · rintro ⟨_, rfl⟩; rfl
  | cons s segs ih =>
    simp only [urlLoop, bind, Except.bind, pure, Except.pure, ParamsPresent, List.mem_cons,
      forall_eq_or_imp, List.map_cons, List.flatten_cons]
    by_cases hk : s.kind = .str
    · simp only [hk, if_true, ne_eq, not_true_eq_false, false_implies, true_and, Seg.subst]
      cases hr : urlLoop ps segs with
      | error e =>
        simp only []
        constructor
        · intro h; cases h
        · rintro ⟨hp, rfl⟩
          have := (ih _).2 ⟨hp, rfl⟩
          rw [hr] at this; cases this
      | ok r =>
        obtain ⟨hp, rfl⟩ := (ih r).1 hr
        simp only [Except.ok.injEq]
        constructor
        · rintro rfl; exact ⟨hp, rfl⟩
        · rintro ⟨_, rfl⟩; rfl
    · simp only [hk, if_false, ne_eq, not_false_eq_true, true_implies, Seg.subst]
      cases hg : AMap.get? ps s.name with
      | none =>
        simp only []
        constructor
        · intro h; cases h
        · rintro ⟨⟨h, _⟩, _⟩; cases h
      | some v =>
        simp only [Option.isSome_some, true_and, Option.getD_some]
        cases hr : urlLoop ps segs with
        | error e =>
          simp only []
          constructor
          · intro h; cases h
          · rintro ⟨hp, rfl⟩
            have := (ih _).2 ⟨hp, rfl⟩
            rw [hr] at this; cases this
        | ok r =>
          obtain ⟨hp, rfl⟩ := (ih r).1 hr
          simp only [Except.ok.injEq]
          constructor
          · rintro rfl; exact ⟨hp, by simp⟩
          · rintro ⟨_, rfl⟩; simp

theorem urlLoop_error_iff (ps : AMap Bytes) (segs : List Seg) (e : Err) :
    urlLoop ps segs = .error e ↔ e = .missingParam ∧ ¬ ParamsPresent ps segs := by
  constructor
  · intro h
    refine ⟨urlLoop_error ps segs e h, fun hp => ?_⟩
    have := (urlLoop_ok_iff ps segs _).2 ⟨hp, rfl⟩
    rw [h] at this; cases this
  · rintro ⟨rfl, hp⟩
    cases h : urlLoop ps segs with
    | ok u => exact absurd ((urlLoop_ok_iff ps segs u).1 h).1 hp
    | error e => rw [urlLoop_error ps segs e h]

/-- Without parameters in the pattern the URL is the concatenation of the literal texts. -/
theorem urlLoop_all_str (ps : AMap Bytes) (segs : List Seg) (h : ∀ s ∈ segs, s.kind = .str) :
    urlLoop ps segs = .ok (segs.map (·.value)).flatten := by
  rw [urlLoop_ok_iff]
  refine ⟨fun s hs hk => absurd (h s hs) hk, ?_⟩
  congr 1
  apply List.map_congr_left
  intro s hs
  simp [Seg.subst, h s hs]

/-! ## `Interceptors.URL`, `mux.URL` -/

theorem Interceptors.url_ok_iff (ic : Interceptors) (p : Bytes) (ps : AMap Bytes) (u : Bytes) :
    ic.url p ps = .ok u ↔
      (p = [] ∧ u = []) ∨
      (∃ segs, split ic p = .ok segs ∧ ParamsPresent ps segs ∧ u = (segs.map (Seg.subst ps)).flatten) := by
  unfold Interceptors.url
  by_cases hp : p = []
  · subst hp
    simp only [if_true, Except.ok.injEq, true_and]
    constructor
    · rintro rfl; exact .inl rfl
    · rintro (rfl | ⟨segs, h, _⟩)
      · rfl
      · simp [split] at h
  · simp only [hp, if_false, false_and, false_or, bind, Except.bind]
    cases hs : split ic p with
    | error e => simp
    | ok segs =>
      simp only [Except.ok.injEq, exists_eq_left']
      exact urlLoop_ok_iff ps segs u

theorem Interceptors.url_error_iff (ic : Interceptors) (p : Bytes) (ps : AMap Bytes) (e : Err) :
    ic.url p ps = .error e ↔
      split ic p = .error e ∧ p ≠ [] ∨
      (∃ segs, split ic p = .ok segs ∧ e = .missingParam ∧ ¬ ParamsPresent ps segs) := by
  unfold Interceptors.url
  by_cases hp : p = []
  · subst hp
    simp [split]
  · simp only [hp, if_false, bind, Except.bind, ne_eq, not_false_eq_true, and_true]
    cases hs : split ic p with
    | error e' =>
      simp only [Except.error.injEq, reduceCtorEq, false_and, exists_false, or_false]
    | ok segs =>
      simp only [reduceCtorEq, false_or, Except.ok.injEq, exists_eq_left']
      exact urlLoop_error_iff ps segs e

theorem muxURL_nil (p : Bytes) : muxURL p [] = .ok p := rfl

theorem muxURL_eq (p : Bytes) (ps : AMap Bytes) (h : ps ≠ []) : muxURL p ps = urlNonStrict p ps := by
  cases ps with
  | nil => exact absurd rfl h
  | cons a r => simp [muxURL]

/-! ## `Segment.Valid` -/

theorem isAscii_append (a b : Bytes) : isAscii (a ++ b) = (isAscii a && isAscii b) := by
  simp [isAscii]

/-- The domain conditions of `Valid v` and `Match (v ++ suffix)` coincide. -/
theorem valid_dom_iff (s : Seg) (v : Bytes) :
    ((s.re.wide = true ∧ ¬ isAscii (v ++ s.suffix) = true) ∨ ¬ isAscii s.suffix = true) ↔
    ((s.re.wide = true ∧ ¬ isAscii v = true) ∨ ¬ isAscii s.suffix = true) := by
  rw [isAscii_append]
  cases isAscii v <;> cases isAscii s.suffix <;> simp

theorem Seg.valid_rx_eq (env : Env) (ic : Interceptors) (s : Seg) (v : Bytes) (hk : s.kind = .rx) :
    s.valid env ic v =
      if (s.re.wide = true ∧ ¬ isAscii v = true) ∨ ¬ isAscii s.suffix = true then none
      else match rxMatch s.re s.suffix (v ++ s.suffix) with
        | some (_, []) => some true
        | _ => some false := by
  simp only [Seg.valid, hk]
  split
  · rfl
  · rcases rxMatch s.re s.suffix (v ++ s.suffix) with _ | ⟨c, _ | ⟨b, r⟩⟩ <;> rfl

/-- In a successful whole-length match the capture is the value itself. -/
theorem rxMatch_whole (re : Re) (suffix v cap : Bytes)
    (h : rxMatch re suffix (v ++ suffix) = some (cap, [])) : cap = v ∧ Re.Denotes re v := by
  obtain ⟨hp, hd⟩ := rxMatch_sound _ _ _ _ _ h
  simp only [List.append_nil] at hp
  have := List.append_cancel_right hp
  subst this
  exact ⟨rfl, hd⟩

theorem Seg.valid_rx_true_iff (env : Env) (ic : Interceptors) (s : Seg) (v : Bytes) (hk : s.kind = .rx) :
    s.valid env ic v = some true ↔ s.match env ic (v ++ s.suffix) = .yes v [] := by
  rw [Seg.valid_rx_eq env ic s v hk]
  simp only [Seg.match, hk]
  by_cases hd : (s.re.wide = true ∧ ¬ isAscii v = true) ∨ ¬ isAscii s.suffix = true
  · rw [if_pos hd, if_pos ((valid_dom_iff s v).2 hd)]
    simp
  · rw [if_neg hd, if_neg (fun h => hd ((valid_dom_iff s v).1 h))]
    cases hm : rxMatch s.re s.suffix (v ++ s.suffix) with
    | none => simp
    | some x =>
      obtain ⟨cap, rest⟩ := x
      cases rest with
      | nil =>
        obtain ⟨rfl, _⟩ := rxMatch_whole _ _ _ _ hm
        simp
      | cons b r => simp

theorem Seg.valid_rx_sound (env : Env) (ic : Interceptors) (s : Seg) (v : Bytes) (hk : s.kind = .rx)
    (h : s.valid env ic v = some true) : Re.Denotes s.re v := by
  have hm := (Seg.valid_rx_true_iff env ic s v hk).1 h
  have := (Seg.match_sound env ic s _ _ _ hm).2.1
  simpa [Seg.Satisfies, hk] using this

theorem Seg.valid_rx_none_iff (env : Env) (ic : Interceptors) (s : Seg) (v : Bytes) (hk : s.kind = .rx) :
    s.valid env ic v = none ↔ s.match env ic (v ++ s.suffix) = .unsupported := by
  rw [Seg.valid_rx_eq env ic s v hk]
  simp only [Seg.match, hk]
  by_cases hd : (s.re.wide = true ∧ ¬ isAscii v = true) ∨ ¬ isAscii s.suffix = true
  · rw [if_pos hd, if_pos ((valid_dom_iff s v).2 hd)]
    simp
  · rw [if_neg hd, if_neg (fun h => hd ((valid_dom_iff s v).1 h))]
    constructor
    · intro h
      split at h <;> cases h
    · intro h
      split at h <;> cases h

/-- A denoted value is at least *matched* (maybe with a different, earlier-priority capture). -/
theorem Seg.valid_rx_denotes_match (env : Env) (ic : Interceptors) (s : Seg) (v : Bytes) (hk : s.kind = .rx)
    (hd : Re.Denotes s.re v) (hsup : s.valid env ic v ≠ none) :
    ∃ cap rest, s.match env ic (v ++ s.suffix) = .yes cap rest := by
  have h1 : s.match env ic (v ++ s.suffix) ≠ .unsupported :=
    fun h => hsup ((Seg.valid_rx_none_iff env ic s v hk).2 h)
  have := Seg.match_complete env ic s v [] (by simpa [Seg.Satisfies, hk] using hd)
    (fun _ => rfl) (by simpa [Seg.inst, hk] using h1)
  simpa [Seg.inst, hk] using this

theorem Seg.valid_icpt (env : Env) (ic : Interceptors) (s : Seg) (v : Bytes) (hk : s.kind = .icpt) :
    s.valid env ic v = some (s.accepts env ic v) := by
  simp only [Seg.valid, hk]

theorem Seg.valid_named (env : Env) (ic : Interceptors) (s : Seg) (v : Bytes) (hk : s.kind = .named) :
    s.valid env ic v = some true := by
  simp only [Seg.valid, hk]

theorem Seg.valid_str (env : Env) (ic : Interceptors) (s : Seg) (v : Bytes) (hk : s.kind = .str) :
    s.valid env ic v = some true := by
  simp only [Seg.valid, hk]

end Mux
