/-
  Mux.Proofs.WOkOps — preservation of the pattern-aware invariant `NodeW P` by `modifyAt`,
  `removeAt`, `Node.clean` and `Node.applyMw`.
-/
import Mux.Proofs.WOkGetNode
namespace Mux.P10
open Mux

variable {P : Bytes → AMap Handler → Prop}

/-! ## modifyAt -/

theorem modifyAtL_ok (f : Node → Except Err Node) (path : List Nat) :
    ∀ (cs : List Node) (i : Nat) (cs' : List Node), modifyAtL f cs i path = .ok cs' →
      ∃ c c', cs[i]? = some c ∧ c.modifyAt f path = .ok c' ∧ cs' = cs.set i c' := by
  intro cs
  induction cs with
  | nil => intro i cs' h; simp [modifyAtL] at h
  | cons c cs ih =>
    intro i cs' h
    cases i with
    | zero =>
      simp only [modifyAtL, bind, Except.bind, pure, Except.pure] at h
      split at h
      · simp at h
      rename_i c' hc'
      simp only [Except.ok.injEq] at h
      subst h
      exact ⟨c, c', by simp, hc', by simp⟩
    | succ i =>
      simp only [modifyAtL, bind, Except.bind, pure, Except.pure] at h
      split at h
      · simp at h
      rename_i cs1 hcs1
      simp only [Except.ok.injEq] at h
      subst h
      obtain ⟨d, d', hd, hm, rfl⟩ := ih i cs1 hcs1
      exact ⟨d, d', by simpa using hd, hm, by simp⟩

theorem modifyAt_cons_ok (f : Node → Except Err Node) {n n' : Node} {i : Nat} {path : List Nat}
    (h : n.modifyAt f (i :: path) = .ok n') :
    ∃ c c', n.children[i]? = some c ∧ c.modifyAt f path = .ok c' ∧
      n' = .mk n.seg n.pattern n.methodIndex n.handlers n.indexes (n.children.set i c') := by
  cases n with
  | mk s p mi hs idx cs =>
    simp only [Node.modifyAt, bind, Except.bind, pure, Except.pure] at h
    split at h
    · simp at h
    rename_i cs' hcs'
    simp only [Except.ok.injEq] at h
    subst h
    obtain ⟨c, c', hc, hm, rfl⟩ := modifyAtL_ok f path cs i cs' hcs'
    exact ⟨c, c', hc, hm, rfl⟩

/-- `modifyAt f path` when the node `m` at `path` is known and `f` keeps `m`'s pattern, segment and
children and establishes `P` for its new handlers. -/
theorem modifyAt_W (f : Node → Except Err Node) :
    ∀ (path : List Nat) (n n' m : Node), NodeW P n → n.getAt path = some m →
      (∀ m', f m = .ok m' → m'.pattern = m.pattern ∧ m'.seg = m.seg ∧ m'.children = m.children ∧
        P m'.pattern m'.handlers) →
      n.modifyAt f path = .ok n' →
      NodeW P n' ∧ n'.pattern = n.pattern ∧ n'.seg = n.seg ∧ (path ≠ [] → n'.handlers = n.handlers) ∧
        ∃ m', f m = .ok m' ∧ n'.getAt path = some m' := by
  intro path
  induction path with
  | nil =>
    intro n n' m hn hm hf h
    simp only [Node.getAt_nil, Option.some.injEq] at hm
    subst hm
    have h' : f n = .ok n' := by cases n; simpa [Node.modifyAt] using h
    obtain ⟨h1, h2, h3, h4⟩ := hf n' h'
    refine ⟨?_, h1, h2, by simp, n', h', by simp⟩
    rw [NodeW_iff, h3, h1]
    rw [h1] at h4
    exact ⟨h4, ((NodeW_iff n).1 hn).2⟩
  | cons i path ih =>
    intro n n' m hn hm hf h
    obtain ⟨c, c', hc, hmod, rfl⟩ := modifyAt_cons_ok f h
    rw [Node.getAt_cons, hc] at hm
    simp only [Option.bind_some] at hm
    have hcW := ListW_getElem? ((NodeW_iff n).1 hn).2 hc
    obtain ⟨h1, h2, h3, _, m', hm', hget⟩ := ih c c' m hcW.2 hm hf hmod
    refine ⟨?_, rfl, rfl, fun _ => rfl, m', hm', ?_⟩
    · rw [NodeW_iff]
      refine ⟨((NodeW_iff n).1 hn).1, ?_⟩
      exact ListW_set ((NodeW_iff n).1 hn).2 (by rw [h2, h3]; exact hcW.1) h1
    · rw [Node.getAt_cons]
      have hlt := (List.getElem?_eq_some_iff.1 hc).1
      simp [hlt, hget]

/-! ## removeAt -/

theorem removeAtL_ok (f : Node → Node) (path : List Nat) :
    ∀ (cs : List Node) (i : Nat) (cs' : List Node) (d : Bool), removeAtL f cs i path = .ok (cs', d) →
      ∃ c c', cs[i]? = some c ∧ c.removeAt f path = .ok c' ∧ (cs' = cs.set i c' ∨ cs' = cs.eraseIdx i) := by
  intro cs
  induction cs with
  | nil => intro i cs' d h; simp [removeAtL] at h
  | cons c cs ih =>
    intro i cs' d h
    cases i with
    | zero =>
      simp only [removeAtL, bind, Except.bind, pure, Except.pure] at h
      split at h
      · simp at h
      rename_i c' hc'
      split at h
      · simp only [Except.ok.injEq, Prod.mk.injEq] at h
        obtain ⟨rfl, rfl⟩ := h
        exact ⟨c, c', by simp, hc', .inr (by simp)⟩
      · simp only [Except.ok.injEq, Prod.mk.injEq] at h
        obtain ⟨rfl, rfl⟩ := h
        exact ⟨c, c', by simp, hc', .inl (by simp)⟩
    | succ i =>
      simp only [removeAtL, bind, Except.bind, pure, Except.pure] at h
      split at h
      · simp at h
      rename_i r hr
      simp only [Except.ok.injEq, Prod.mk.injEq] at h
      obtain ⟨rfl, rfl⟩ := h
      obtain ⟨e, e', he, hm, hcs⟩ := ih i r.1 r.2 hr
      refine ⟨e, e', by simpa using he, hm, ?_⟩
      rcases hcs with hcs | hcs
      · left; rw [hcs]; simp
      · right; rw [hcs]; simp

theorem removeAt_cons_ok (f : Node → Node) {n n' : Node} {i : Nat} {path : List Nat}
    (h : n.removeAt f (i :: path) = .ok n') :
    ∃ c c' idx', n.children[i]? = some c ∧ c.removeAt f path = .ok c' ∧
      (n' = .mk n.seg n.pattern n.methodIndex n.handlers idx' (n.children.set i c') ∨
       n' = .mk n.seg n.pattern n.methodIndex n.handlers idx' (n.children.eraseIdx i)) := by
  cases n with
  | mk s p mi hs idx cs =>
    simp only [Node.removeAt, bind, Except.bind, pure, Except.pure] at h
    split at h
    · simp at h
    rename_i r hr
    obtain ⟨c, c', hc, hm, hcs⟩ := removeAtL_ok f path cs i r.1 r.2 hr
    split at h
    · split at h
      · simp at h
      rename_i idx' _
      simp only [Except.ok.injEq] at h
      subst h
      refine ⟨c, c', idx', hc, hm, ?_⟩
      rcases hcs with hcs | hcs
      · left; rw [hcs]; rfl
      · right; rw [hcs]; rfl
    · simp only [Except.ok.injEq] at h
      subst h
      refine ⟨c, c', idx, hc, hm, ?_⟩
      rcases hcs with hcs | hcs
      · left; rw [hcs]; rfl
      · right; rw [hcs]; rfl

theorem removeAt_W (f : Node → Node)
    (hf : ∀ m, NodeW P m → NodeW P (f m) ∧ (f m).pattern = m.pattern ∧ (f m).seg = m.seg) :
    ∀ (path : List Nat) (n n' : Node), NodeW P n → n.removeAt f path = .ok n' →
      NodeW P n' ∧ n'.pattern = n.pattern ∧ n'.seg = n.seg ∧ (path ≠ [] → n'.handlers = n.handlers) := by
  intro path
  induction path with
  | nil =>
    intro n n' hn h
    have h' : f n = n' := by cases n; simpa [Node.removeAt] using h
    subst h'
    obtain ⟨h1, h2, h3⟩ := hf n hn
    exact ⟨h1, h2, h3, by simp⟩
  | cons i path ih =>
    intro n n' hn h
    obtain ⟨c, c', idx', hc, hrem, hn'⟩ := removeAt_cons_ok f h
    have hW := ((NodeW_iff n).1 hn)
    have hcW := ListW_getElem? hW.2 hc
    obtain ⟨h1, h2, h3, _⟩ := ih c c' hcW.2 hrem
    rcases hn' with rfl | rfl
    · refine ⟨?_, rfl, rfl, fun _ => rfl⟩
      rw [NodeW_iff]
      exact ⟨hW.1, ListW_set hW.2 (by rw [h2, h3]; exact hcW.1) h1⟩
    · refine ⟨?_, rfl, rfl, fun _ => rfl⟩
      rw [NodeW_iff]
      exact ⟨hW.1, ListW_sublist (List.eraseIdx_sublist _ _) hW.2⟩

/-! ## clean -/

theorem clean_W :
    ∀ (n : Node) (pre : Bytes) (n' : Node), NodeW P n → n.clean pre = .ok n' →
      NodeW P n' ∧ n'.pattern = n.pattern ∧ n'.seg = n.seg ∧ n'.handlers = n.handlers ∧
        n'.methodIndex = n.methodIndex := by
  intro n
  induction n using Node.rec (motive_2 := fun cs => ∀ pp pre cs', ListW P pp cs →
      cleanL cs pre = .ok cs' → ListW P pp cs') with
  | mk s p mi hs idx cs ih =>
    intro pre n' hn h
    simp only [Node.clean] at h
    split at h
    · simp only [Except.ok.injEq] at h
      subst h
      exact ⟨⟨hn.1, by simp [ListW]⟩, rfl, rfl, rfl, rfl⟩
    · simp only [bind, Except.bind, pure, Except.pure] at h
      split at h
      · simp at h
      rename_i cs1 hcs1
      split at h
      · simp at h
      rename_i idx' hidx'
      simp only [Except.ok.injEq] at h
      subst h
      exact ⟨⟨hn.1, ListW_foldl_removeNodes _ (ih p pre cs1 hn.2 hcs1)⟩, rfl, rfl, rfl, rfl⟩
  | nil =>
    rename_i pp pre cs' _ h
    simp only [cleanL, Except.ok.injEq] at h
    subst h; trivial
  | cons c cs ih1 ih2 =>
    rename_i pp pre cs' hall h
    simp only [cleanL, bind, Except.bind, pure, Except.pure] at h
    by_cases hcond : c.seg.value.length < pre.length ∧ hasPrefix pre c.seg.value = true
    · simp only [hcond, and_self, if_true] at h
      split at h
      · simp at h
      rename_i c' hc'
      split at h
      · simp at h
      rename_i cs1 hcs1
      simp only [Except.ok.injEq] at h
      subst h
      obtain ⟨h1, h2, h3, _, _⟩ := ih1 _ c' hall.2.1 hc'
      exact ⟨by rw [h2, h3]; exact hall.1, h1, ih2 pp pre cs1 hall.2.2 hcs1⟩
    · simp only [hcond, if_false] at h
      split at h
      · simp at h
      rename_i cs1 hcs1
      simp only [Except.ok.injEq] at h
      subst h
      exact ⟨hall.1, hall.2.1, ih2 pp pre cs1 hall.2.2 hcs1⟩

/-! ## applyMw -/

theorem applyMw_W {P' : Bytes → AMap Handler → Prop} (router : Bytes) (ms : List Nat)
    (hQ : ∀ (p : Bytes) (hs : AMap Handler), P p hs →
      P' p (hs.map (fun e => (e.1, wrapWith e.2 e.1 p router ms)))) :
    ∀ n : Node, NodeW P n → NodeW P' (n.applyMw router ms) := by
  intro n
  induction n using Node.rec (motive_2 := fun cs => ∀ pp, ListW P pp cs →
      ListW P' pp (applyMwL router ms cs)) with
  | mk s p mi hs idx cs ih =>
    intro h
    simp only [Node.applyMw, NodeW]
    exact ⟨hQ _ _ h.1, ih p h.2⟩
  | nil => simp [applyMwL, ListW]
  | cons c cs ih1 ih2 =>
    rename_i pp h
    simp only [applyMwL, ListW]
    obtain ⟨hs, hp, _, _, _, _⟩ := applyMw_fields router ms c
    exact ⟨by rw [hp, hs]; exact h.1, ih1 h.2.1, ih2 pp h.2.2⟩

theorem applyMwL_W {P' : Bytes → AMap Handler → Prop} (router : Bytes) (ms : List Nat)
    (hQ : ∀ (p : Bytes) (hs : AMap Handler), P p hs →
      P' p (hs.map (fun e => (e.1, wrapWith e.2 e.1 p router ms))))
    {pp : Bytes} {cs : List Node} (h : ListW P pp cs) : ListW P' pp (applyMwL router ms cs) := by
  rw [applyMwL_eq_map, ListW_iff]
  rw [ListW_iff] at h
  intro c hc
  rw [List.mem_map] at hc
  obtain ⟨c0, hc0, rfl⟩ := hc
  obtain ⟨hs, hp, _, _, _, _⟩ := applyMw_fields router ms c0
  exact ⟨by rw [hp, hs]; exact (h c0 hc0).1, applyMw_W router ms hQ c0 (h c0 hc0).2⟩

end Mux.P10
