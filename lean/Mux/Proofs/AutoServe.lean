/-
  Mux.Proofs.AutoServe — from the keyed invariant `TreeAuto` to responses: what `runCall` records for the
  automatic OPTIONS and 405 handlers, what `Router.serveHTTP` returns around a call, and which entry of the
  matched node a call's handler is (OPTIONS / `""`).
-/
import Mux.Proofs.AutoBases
import Mux.Proofs.Head
import Mux.Proofs.Onion
namespace Mux

/-! ## `Router.serveHTTP` around a call -/

theorem serveHTTP_call {env : Env} {pc : PanicCfg} {scripts : Scripts} {r : Router} {req : Req} {ps : Params}
    {c : Call} {out : Outcome} (h : r.serveHTTP env pc scripts req ps = (some c, out)) :
    r.serveContext env req ps = .call c ∧
      out = withRecover c.recover c.respHeaders (runCall pc scripts c) c.recActs c.headWrap := by
  unfold Router.serveHTTP at h
  cases hs : r.serveContext env req ps with
  | unsupported => rw [hs] at h; simp [ServeRes.finish] at h
  | fault s rc => rw [hs] at h; simp [ServeRes.finish] at h
  | call c' =>
    rw [hs] at h
    simp only [ServeRes.finish, Prod.mk.injEq, Option.some.injEq] at h
    obtain ⟨rfl, rfl⟩ := h
    exact ⟨rfl, rfl⟩

theorem serveHTTP_of_call {env : Env} {pc : PanicCfg} {scripts : Scripts} {r : Router} {req : Req} {ps : Params}
    {c : Call} (h : r.serveContext env req ps = .call c) :
    r.serveHTTP env pc scripts req ps =
      (some c, withRecover c.recover c.respHeaders (runCall pc scripts c) c.recActs c.headWrap) := by
  unfold Router.serveHTTP
  rw [h]; rfl

theorem withRecover_normal {rc : Bool} {hs : Hdr} {x : Except PanicVal Rec} {acts : List Act} {hw : Bool} {rec : Rec} :
    withRecover rc hs x acts hw = .normal rec ↔ x = .ok rec := by
  unfold withRecover
  cases x with
  | ok r => simp
  | error v => cases rc <;> simp

/-! ## What the automatic handlers record -/

/-- The automatic OPTIONS handler on the plain writer: `Allow` is set on the live header map, nothing is written. -/
theorem runCall_options {pc : PanicCfg} {scripts : Scripts} {c : Call} (hb : c.handler.base = .options)
    (hw : c.headWrap = false) {rec : Rec} (h : runCall pc scripts c = .ok rec) :
    rec = { hdr := c.respHeaders.set hAllow c.allow } := by
  rw [runCall_eq] at h
  cases h1 : mwPanic pc c.handler with
  | some v => rw [h1] at h; cases h
  | none =>
    rw [h1] at h
    cases h2 : basePanic pc c.handler.base with
    | some v => rw [h2] at h; cases h
    | none =>
      rw [h2] at h
      simp only [Handler.script, hb, hw, Bool.false_eq_true, if_false, Except.ok.injEq] at h
      rw [← h]; rfl

/-- The automatic 405 handler on the plain writer: `Allow` is set, then status 405 is sent (with that header). -/
theorem runCall_notAllowed {pc : PanicCfg} {scripts : Scripts} {c : Call} (hb : c.handler.base = .notAllowed)
    (hw : c.headWrap = false) {rec : Rec} (h : runCall pc scripts c = .ok rec) :
    rec = { hdr := c.respHeaders.set hAllow c.allow, code := some 405,
            snap := some (c.respHeaders.set hAllow c.allow) } := by
  rw [runCall_eq] at h
  cases h1 : mwPanic pc c.handler with
  | some v => rw [h1] at h; cases h
  | none =>
    rw [h1] at h
    cases h2 : basePanic pc c.handler.base with
    | some v => rw [h2] at h; cases h
    | none =>
      rw [h2] at h
      simp only [Handler.script, hb, hw, Bool.false_eq_true, if_false, Except.ok.injEq] at h
      rw [← h]; rfl

/-- When nothing panics the call of an automatic handler returns normally. -/
theorem runCall_auto_ok {pc : PanicCfg} {scripts : Scripts} {c : Call}
    (hb : c.handler.base = .options ∨ c.handler.base = .notAllowed)
    (hm : mwPanic pc c.handler = none) (hp : lookupNat pc.bases c.handler.base.code = none) :
    ∃ rec, runCall pc scripts c = .ok rec := by
  rw [runCall_eq, hm]
  have h2 : basePanic pc c.handler.base = none := by
    rcases hb with hb | hb <;> rw [hb] at hp ⊢ <;> exact hp
  rw [h2]
  rcases hb with hb | hb <;> simp only [Handler.script, hb] <;> exact ⟨_, rfl⟩

/-! ## Which entry the called handler is -/

/-- The call made for a request, on a tree with the invariants: with a node reported,
an OPTIONS request is answered by that node's OPTIONS entry, which is the automatic OPTIONS handler; and a call with
`ok = false` is the node's `""` entry, which is the automatic 405 handler. -/
theorem call_auto {r : Router} (hinv : TreeInv r.tree) (ha : TreeAuto r.tree) (env : Env) (req : Req) (ps : Params)
    {c : Call} {n : Node} (hc : r.serveContext env req ps = .call c) (hn : c.node = some n) :
    n ∈ r.tree.root.nodes ∧ n.handlers ≠ [] ∧
    (req.method = mOPTIONS → c.ok = true ∧ n.handlers.get? mOPTIONS = some c.handler ∧
      c.handler.base = r.tree.optionsBase ∧ c.headWrap = false) ∧
    (c.ok = false → n.handlers.get? mNotAllowed = some c.handler ∧
      c.handler.base = r.tree.notAllowedBase ∧ c.headWrap = false ∧ c.respHeaders = []) := by
  obtain ⟨c1, c2, c3, c4, c5, c6, c7, c8, c9, c10⟩ := method_consts_ne
  unfold Router.serveContext at hc
  rcases handler_spec hinv env req.path ps req.method with ⟨f, hf, hspec⟩ | hf
  · rw [hf] at hc
    simp only [ServeRes.call.injEq] at hc
    subst hc
    simp only at hn ⊢
    cases hspec with
    | notFound h1 h2 h3 => rw [h1] at hn; cases hn
    | trace h ht hm hnode hh hok =>
      rw [hnode] at hn; cases hn
      refine ⟨by rw [Node.nodes_eq]; simp, ?_, ?_, ?_⟩
      · intro h0
        have := hinv.rootKeys
        rw [h0] at this
        simp [AMap.keys] at this
      · intro hm'; rw [hm] at hm'; exact absurd hm'.symm c9
      · intro hk; rw [hok] at hk; cases hk
    | found m hnode hm hne hmeth hg hok =>
      rw [hnode] at hn; cases hn
      refine ⟨hm, hne, ?_, ?_⟩
      · intro hmO
        rw [hmO] at hg
        refine ⟨hok, hg, (ha.get hm).options _ hg, ?_⟩
        rw [hmO]
        have h5 : ¬ mOPTIONS = mHEAD := fun e => c5 e.symm
        simp [h5]
      · intro hk; rw [hok] at hk; cases hk
    | notAllowed m hnode hm hne hmeth hg hok =>
      rw [hnode] at hn; cases hn
      refine ⟨hm, hne, ?_, ?_⟩
      · intro hmO
        exfalso
        rcases hmeth with hmeth | hmeth
        · rw [hmO] at hmeth; exact c8 hmeth
        · rw [hmO] at hmeth
          have := (hinv.has_entries hm hne).2
          rw [← AMap.get?_isSome_iff, hmeth] at this
          simp at this
      · intro _
        refine ⟨hg, (ha.get hm).notAllowed _ hg, by simp [hok], by simp [hok]⟩
  · rw [hf] at hc; cases hc

/-- The bases of a router's tree: `NewRouter` passes the two automatic builders, and no operation changes them. -/
theorem run_bases {cfg : RouterCfg} {r0 : Router} (hnew : Router.new cfg = some r0) (ops : List ROp) :
    (r0.run ops).tree.optionsBase = .options ∧ (r0.run ops).tree.notAllowedBase = .notAllowed := by
  obtain ⟨tops, _, hrun⟩ := Router.run_tree r0 ops
  have hs := sameCfg_run r0.tree tops
  rw [← hrun] at hs
  unfold Router.new at hnew
  split at hnew
  · simp at hnew
  simp only [Option.some.injEq] at hnew
  subst hnew
  exact ⟨hs.2.2.2.1, hs.2.2.2.2⟩

theorem run_reach {cfg : RouterCfg} {r0 : Router} (hnew : Router.new cfg = some r0) (ops : List ROp) :
    (r0.run ops).Reach := ⟨cfg, r0, ops, hnew, rfl⟩

end Mux
