/-
  Mux.Proofs.GroupLiftRec — the recovery script (`recActs`) is fixed at construction, and it is the one the call
  handed to `CallFunc` carries (helpers of `Mux/Properties/C16stable.lean`).
-/
import Mux.Proofs.Recover
import Mux.Proofs.Group
import Mux.Spec.Defs
namespace Mux.P18
open Mux

/-- No operation touches `recover`, `recActs`, `cors` or `urlDomain`. -/
theorem step_fixed (r : Router) (op : ROp) :
    (r.step op).recActs = r.recActs ∧ (r.step op).recover = r.recover ∧ (r.step op).cors = r.cors ∧
      (r.step op).urlDomain = r.urlDomain := by
  cases op with
  | handle p h m ms =>
    simp only [Router.step, Router.handle, bind, Except.bind, pure, Except.pure]
    cases r.tree.add p { base := .user h } (m ++ r.ms) ms <;> exact ⟨rfl, rfl, rfl, rfl⟩
  | remove p ms =>
    simp only [Router.step, Router.remove, bind, Except.bind, pure, Except.pure]
    cases r.tree.remove p ms <;> exact ⟨rfl, rfl, rfl, rfl⟩
  | clean pre =>
    simp only [Router.step, Router.clean, bind, Except.bind, pure, Except.pure]
    cases r.tree.clean pre <;> exact ⟨rfl, rfl, rfl, rfl⟩
  | use m => exact ⟨rfl, rfl, rfl, rfl⟩

theorem run_fixed (r : Router) (ops : List ROp) :
    (r.run ops).recActs = r.recActs ∧ (r.run ops).recover = r.recover ∧ (r.run ops).cors = r.cors ∧
      (r.run ops).urlDomain = r.urlDomain := by
  unfold Router.run
  induction ops generalizing r with
  | nil => exact ⟨rfl, rfl, rfl, rfl⟩
  | cons op ops ih =>
    rw [List.foldl_cons]
    obtain ⟨a, b, c, d⟩ := ih (r.step op)
    obtain ⟨a', b', c', d'⟩ := step_fixed r op
    exact ⟨a.trans a', b.trans b', c.trans c', d.trans d'⟩

theorem new_fixed {cfg : RouterCfg} {r : Router} (h : Router.new cfg = some r) :
    r.recActs = cfg.recActs ∧ r.recover = cfg.recover ∧ r.cors = cfg.cors ∧
      r.urlDomain = sanitizeDomain cfg.urlDomain := by
  unfold Router.new at h
  split at h
  · cases h
  · cases h; exact ⟨rfl, rfl, rfl, rfl⟩

/-- The call of `Router.serveContext` carries the router's recovery script (and flag). -/
theorem serveContext_call_recActs (env : Env) (r : Router) (req : Req) (ps : Params) (c : Call)
    (h : r.serveContext env req ps = .call c) : c.recActs = r.recActs ∧ c.recover = r.recover := by
  unfold Router.serveContext at h
  split at h
  · cases h
  · cases h
  · cases h; exact ⟨rfl, rfl⟩

/-- `Group.serve.go`: the call is the group's own not-found call (with the group's script), or the call of an
accepted router of the table (with that router's). -/
theorem go_call_recActs (env : Env) (tab : Nat → Option Hosts) (rt : RTab) (g : Group) (req : Req) :
    ∀ (l : List (Nat × Matcher)) (path : Bytes) (c : Call), Group.serve.go env tab rt g req l path = .call c →
      (c.handler = g.notFound ∧ c.node = none ∧ c.recActs = g.recActs ∧ c.recover = g.recover) ∨
      (∃ e ∈ l, ∃ r p ps, rt.get? e.1 = some r ∧ r.serveContext env { req with path := p } ps = .call c ∧
        c.recActs = r.recActs ∧ c.recover = r.recover) := by
  intro l
  induction l with
  | nil =>
    intro path c h
    rw [Group.serve.go.eq_1] at h
    cases h
    exact .inl ⟨rfl, rfl, rfl, rfl⟩
  | cons e rest ih =>
    intro path c h
    obtain ⟨rid, m⟩ := e
    rw [Group.serve.go.eq_2] at h
    split at h
    · cases h
    · cases h
    · rename_i p ps _
      split at h
      · rename_i r hr
        obtain ⟨h1, h2⟩ := serveContext_call_recActs env r _ ps c h
        exact .inr ⟨(rid, m), List.mem_cons_self, r, p, ps, hr, h, h1, h2⟩
      · cases h
    · rename_i p _ _
      rcases ih p c h with h' | ⟨e, he, h'⟩
      · exact .inl h'
      · exact .inr ⟨e, List.mem_cons_of_mem _ he, h'⟩

/-- When every matcher rejects, `Group.serve` is the literal not-found call of the group. -/
theorem serve_all_reject (env : Env) (tab : Nat → Option Hosts) (rt : RTab) (g : Group) (req : Req)
    (hall : ∀ e ∈ g.routers, ∃ p ps, e.2.run env tab req req.path [] = .reject p ps) :
    g.serve env tab rt req =
      .call { handler := g.notFound, node := none, ok := false, params := [], routerName := [], respHeaders := [],
              headWrap := false, path := req.path, recover := g.recover, recActs := g.recActs } := by
  unfold Group.serve
  have := go_append_reject env tab rt g req g.routers [] req.path hall
  rw [List.append_nil] at this
  rw [this, go_nil]; rfl

/-- `headWrap` of a router call: the request is a HEAD that was routed (`ok`: the GET route's automatic HEAD entry). -/
theorem serveContext_headWrap (env : Env) (r : Router) (req : Req) (ps : Params) (c : Call)
    (h : r.serveContext env req ps = .call c) : c.headWrap = true ↔ c.ok = true ∧ req.method = mHEAD := by
  unfold Router.serveContext at h
  split at h
  · cases h
  · cases h
  · cases h; simp

end Mux.P18
