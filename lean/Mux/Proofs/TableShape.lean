/-
  Mux.Proofs.TableShape — the structural invariant of the route tree for well-formed patterns
  (`Sh`: children carry well-formed texts built by `NewSegment`, `pattern = parent.pattern ++ text`,
  sibling keys are pairwise distinct, a text ending with `}` has no children), the multiset of
  `(pattern, handlers)` entries of a forest (`liveL`), and auxiliary list facts.
-/
import Mux.Proofs.TablePieces
import Mux.Proofs.TreeCounts
namespace Mux.P11
open Mux

/-! ## Lists -/

theorem set_perm {α} {l : List α} {j : Nat} {x : α} (h : l[j]? = some x) :
    ∃ rest, l.Perm (x :: rest) ∧ ∀ y, (l.set j y).Perm (y :: rest) := by
  induction l generalizing j with
  | nil => simp at h
  | cons a l ih =>
    cases j with
    | zero =>
      simp only [List.getElem?_cons_zero, Option.some.injEq] at h
      subst h
      exact ⟨l, List.Perm.refl _, fun y => by simp⟩
    | succ j =>
      simp only [List.getElem?_cons_succ] at h
      obtain ⟨rest, h1, h2⟩ := ih h
      refine ⟨a :: rest, ?_, fun y => ?_⟩
      · exact (List.Perm.cons a h1).trans (List.Perm.swap x a rest)
      · simp only [List.set_cons_succ]
        exact (List.Perm.cons a (h2 y)).trans (List.Perm.swap y a rest)

theorem eq_of_map_nodup {α β} {f : α → β} {l : List α} (h : (l.map f).Nodup) {x y : α}
    (hx : x ∈ l) (hy : y ∈ l) (e : f x = f y) : x = y := by
  induction l with
  | nil => cases hx
  | cons a l ih =>
    simp only [List.map_cons, List.nodup_cons, List.mem_map, not_exists, not_and] at h
    rcases List.mem_cons.1 hx with hx1 | hx1
    · rcases List.mem_cons.1 hy with hy1 | hy1
      · rw [hx1, hy1]
      · rw [hx1] at e; exact absurd e.symm (h.1 y hy1)
    · rcases List.mem_cons.1 hy with hy1 | hy1
      · rw [hy1] at e; exact absurd e (h.1 x hx1)
      · exact ih h.2 hx1 hy1

/-! ## Entries of a forest -/

/-- The entry of a node alone. -/
def ent (n : Node) : List (Bytes × AMap Handler) :=
  if n.handlers.isEmpty then [] else [(n.pattern, n.handlers)]

/-- The entries of a subtree. -/
def liveN (n : Node) : List (Bytes × AMap Handler) := ent n ++ liveL n.children

theorem nodesL_cons (c : Node) (cs : List Node) : nodesL (c :: cs) = c :: (nodesL c.children ++ nodesL cs) := by
  cases c; simp [nodesL, Node.nodes]

theorem liveL_nil : liveL [] = [] := by simp [liveL, nodesL]

theorem liveL_cons (c : Node) (cs : List Node) : liveL (c :: cs) = liveN c ++ liveL cs := by
  unfold liveL liveN ent
  rw [nodesL_cons]
  simp only [List.filter_cons, List.filter_append]
  cases h : c.handlers.isEmpty <;> simp [liveL]

theorem liveL_append (as bs : List Node) : liveL (as ++ bs) = liveL as ++ liveL bs := by
  induction as with
  | nil => simp [liveL_nil]
  | cons a as ih => simp [liveL_cons, ih]

theorem liveL_perm {as bs : List Node} (h : as.Perm bs) : (liveL as).Perm (liveL bs) := by
  induction h with
  | nil => exact List.Perm.refl _
  | cons x _ ih => rw [liveL_cons, liveL_cons]; exact List.Perm.append_left _ ih
  | swap x y l =>
    simp only [liveL_cons, ← List.append_assoc]
    exact List.Perm.append_right _ List.perm_append_comm
  | trans _ _ ih1 ih2 => exact ih1.trans ih2

theorem liveL_singleton (c : Node) : liveL [c] = liveN c := by
  rw [liveL_cons, liveL_nil, List.append_nil]

theorem mem_liveL {cs : List Node} {e : Bytes × AMap Handler} :
    e ∈ liveL cs ↔ ∃ n ∈ nodesL cs, n.handlers ≠ [] ∧ e = (n.pattern, n.handlers) := by
  unfold liveL
  simp only [List.mem_map, List.mem_filter, Bool.not_eq_eq_eq_not, Bool.not_true, List.isEmpty_eq_false_iff]
  constructor
  · rintro ⟨n, ⟨h1, h2⟩, rfl⟩; exact ⟨n, h1, h2, rfl⟩
  · rintro ⟨n, h1, h2, rfl⟩; exact ⟨n, ⟨h1, h2⟩, rfl⟩

/-! ## The invariant -/

def ckey (c : Node) : Bytes := vkey c.seg.value

/-- What holds of a child `c` of a node with pattern `pp`. -/
def ChildOk (ic : Interceptors) (pp : Bytes) (c : Node) : Prop :=
  WfVal c.seg.value ∧ newSegment ic c.seg.value = .ok c.seg ∧ c.pattern = pp ++ c.seg.value ∧
    (Closed c.seg.value → c.children = [])

def ShL (ic : Interceptors) (pp : Bytes) (cs : List Node) : Prop :=
  (∀ c ∈ cs, ChildOk ic pp c) ∧ (cs.map ckey).Nodup

/-- The invariant of one node (a statement about its children). -/
def Sh (ic : Interceptors) (n : Node) : Prop := ShL ic n.pattern n.children

theorem ShL_perm {ic : Interceptors} {pp : Bytes} {as bs : List Node} (h : as.Perm bs) :
    ShL ic pp as ↔ ShL ic pp bs := by
  unfold ShL
  rw [(h.map ckey).nodup_iff]
  constructor
  · rintro ⟨h1, h2⟩; exact ⟨fun c hc => h1 c (h.mem_iff.2 hc), h2⟩
  · rintro ⟨h1, h2⟩; exact ⟨fun c hc => h1 c (h.mem_iff.1 hc), h2⟩

theorem ShL_cons {ic : Interceptors} {pp : Bytes} {c : Node} {cs : List Node} :
    ShL ic pp (c :: cs) ↔ ChildOk ic pp c ∧ (∀ d ∈ cs, ckey d ≠ ckey c) ∧ ShL ic pp cs := by
  unfold ShL
  simp only [List.mem_cons, forall_eq_or_imp, List.map_cons, List.nodup_cons, List.mem_map, not_exists, not_and]
  constructor
  · rintro ⟨⟨h1, h2⟩, h3, h4⟩; exact ⟨h1, h3, h2, h4⟩
  · rintro ⟨h1, h3, h2, h4⟩; exact ⟨⟨h1, h2⟩, h3, h4⟩

theorem ShL_nil (ic : Interceptors) (pp : Bytes) : ShL ic pp [] := by simp [ShL]

theorem ShL_sublist {ic : Interceptors} {pp : Bytes} {as bs : List Node} (h : as.Sublist bs)
    (hb : ShL ic pp bs) : ShL ic pp as :=
  ⟨fun c hc => hb.1 c (h.subset hc), hb.2.sublist (h.map ckey)⟩

/-- Distinct members of a list with the invariant have distinct texts. -/
theorem ShL.eq_of_value {ic : Interceptors} {pp : Bytes} {cs : List Node} (h : ShL ic pp cs) {x y : Node}
    (hx : x ∈ cs) (hy : y ∈ cs) (e : x.seg.value = y.seg.value) : x = y :=
  eq_of_map_nodup h.2 hx hy (by unfold ckey; rw [e])

/-! ## `removeNodes` -/

theorem removeNodes_perm (cs : List Node) (v : Bytes) (h : ∃ c ∈ cs, c.seg.value = v) :
    ∃ c ∈ cs, c.seg.value = v ∧ cs.Perm (c :: removeNodes cs v) := by
  induction cs with
  | nil => obtain ⟨c, hc, _⟩ := h; cases hc
  | cons a cs ih =>
    simp only [removeNodes]
    by_cases ha : a.seg.value = v
    · simp only [ha, if_true]
      exact ⟨a, by simp, ha, List.Perm.refl _⟩
    · simp only [ha, if_false]
      obtain ⟨c, hc, hv⟩ := h
      have hc' : c ∈ cs := by
        rcases List.mem_cons.1 hc with rfl | hc
        · exact absurd hv ha
        · exact hc
      obtain ⟨c1, h1, h2, h3⟩ := ih ⟨c, hc', hv⟩
      exact ⟨c1, by simp [h1], h2, (List.Perm.cons a h3).trans (List.Perm.swap c1 a _)⟩

/-- With distinct texts, `removeNodes` removes exactly the child `c`. -/
theorem removeNodes_perm_of {ic : Interceptors} {pp : Bytes} {cs others : List Node} {c : Node}
    (hsh : ShL ic pp cs) (hp : cs.Perm (c :: others)) :
    (removeNodes cs c.seg.value).Perm others := by
  have hc : c ∈ cs := hp.mem_iff.2 (by simp)
  obtain ⟨c1, h1, h2, h3⟩ := removeNodes_perm cs c.seg.value ⟨c, hc, rfl⟩
  have : c1 = c := hsh.eq_of_value h1 hc h2
  subst this
  exact (h3.symm.trans hp).cons_inv

/-! ## `childPos` -/

theorem childPos_get {cs : List Node} {v : Bytes} {j : Nat} (h : childPos cs v = some j) :
    ∃ c, cs[j]? = some c ∧ c.seg.value = v := by
  unfold childPos at h
  rw [List.findIdx?_eq_some_iff_getElem] at h
  obtain ⟨hj, hv, _⟩ := h
  exact ⟨cs[j], List.getElem?_eq_getElem hj, by simpa using hv⟩

/-! ## `scanChildren` -/

theorem similarity_eq (s seg : Seg) :
    s.similarity seg = if seg.value = s.value then -1 else if seg.kind ≠ s.kind then 0
      else longestPrefix seg.value s.value := rfl

theorem similarity_ne_neg_one {s seg : Seg} (h : seg.value ≠ s.value) : s.similarity seg ≠ -1 := by
  rw [similarity_eq, if_neg h]
  split
  · omega
  · rcases longestPrefix_spec seg.value s.value with h' | ⟨k, h', _⟩ <;> rw [h'] <;> omega

theorem similarity_neg_one {s seg : Seg} (h : s.similarity seg = -1) : seg.value = s.value := by
  by_cases e : seg.value = s.value
  · exact e
  · exact absurd h (similarity_ne_neg_one e)

theorem scan_spec (seg : Seg) (cs : List Node) (i : Nat) (l : Int) (bi : Nat) :
    match scanChildren seg cs i l bi with
    | .identical k => ∃ c, cs[k - i]? = some c ∧ i ≤ k ∧ c.seg.similarity seg = -1
    | .best l' bi' => (∀ c ∈ cs, c.seg.similarity seg ≠ -1 ∧ c.seg.similarity seg ≤ l') ∧ l ≤ l' ∧
        ((l' = l ∧ bi' = bi) ∨ ∃ c, cs[bi' - i]? = some c ∧ i ≤ bi' ∧ c.seg.similarity seg = l') := by
  induction cs generalizing i l bi with
  | nil => simp [scanChildren]
  | cons c cs ih =>
    simp only [scanChildren]
    by_cases h1 : c.seg.similarity seg = -1
    · simp only [h1, if_true]
      exact ⟨c, by simp, Nat.le_refl _, h1⟩
    · simp only [h1, if_false]
      by_cases h2 : c.seg.similarity seg > l
      · simp only [h2, if_true]
        have := ih (i + 1) (c.seg.similarity seg) i
        split
        · rename_i k hk
          rw [hk] at this
          obtain ⟨d, hd, hle, hs⟩ := this
          refine ⟨d, ?_, by omega, hs⟩
          have : k - i = (k - (i + 1)) + 1 := by omega
          rw [this]; simpa using hd
        · rename_i l' bi' hk
          rw [hk] at this
          obtain ⟨hall, hle, hor⟩ := this
          refine ⟨?_, by omega, .inr ?_⟩
          · intro d hd
            rcases List.mem_cons.1 hd with rfl | hd
            · exact ⟨h1, hle⟩
            · exact hall d hd
          · rcases hor with ⟨e1, e2⟩ | ⟨d, hd, hle', hs⟩
            · subst e1 e2
              exact ⟨c, by simp, Nat.le_refl _, rfl⟩
            · refine ⟨d, ?_, by omega, hs⟩
              have : bi' - i = (bi' - (i + 1)) + 1 := by omega
              rw [this]; simpa using hd
      · simp only [h2, if_false]
        have := ih (i + 1) l bi
        split
        · rename_i k hk
          rw [hk] at this
          obtain ⟨d, hd, hle, hs⟩ := this
          refine ⟨d, ?_, by omega, hs⟩
          have : k - i = (k - (i + 1)) + 1 := by omega
          rw [this]; simpa using hd
        · rename_i l' bi' hk
          rw [hk] at this
          obtain ⟨hall, hle, hor⟩ := this
          refine ⟨?_, hle, ?_⟩
          · intro d hd
            rcases List.mem_cons.1 hd with rfl | hd
            · exact ⟨h1, by omega⟩
            · exact hall d hd
          · rcases hor with h | ⟨d, hd, hle', hs⟩
            · exact .inl h
            · refine .inr ⟨d, ?_, by omega, hs⟩
              have : bi' - i = (bi' - (i + 1)) + 1 := by omega
              rw [this]; simpa using hd

/-- A child that is not similar to the new segment has another key. -/
theorem key_ne_of_sim_le {ic : Interceptors} {pp : Bytes} {c : Node} {seg : Seg} {v : Bytes}
    (hc : ChildOk ic pp c) (hv : WfVal v) (hseg : newSegment ic v = .ok seg)
    (h1 : c.seg.similarity seg ≠ -1) (h2 : c.seg.similarity seg ≤ 0) : ckey c ≠ vkey v := by
  have hval := newSegment_value ic v seg hseg
  rw [similarity_eq] at h1 h2
  by_cases e : seg.value = c.seg.value
  · simp [e] at h1
  · simp only [e, if_false] at h2
    unfold ckey
    by_cases hk : seg.kind = c.seg.kind
    · simp only [hk, ne_eq, not_true_eq_false, if_false] at h2
      rw [hval] at h2 e
      exact fun e' => vkey_ne_of_lp_le hv hc.1 e h2 e'.symm
    · intro e'
      exact hk (kind_of_vkey ic hv hc.1 hseg hc.2.1 e'.symm)

/-- A similar child: what the positive similarity gives. -/
theorem lpPos_of_sim {ic : Interceptors} {pp : Bytes} {c : Node} {seg : Seg} {v : Bytes} {l : Int}
    (hc : ChildOk ic pp c) (hv : WfVal v) (hseg : newSegment ic v = .ok seg)
    (h : c.seg.similarity seg = l) (hl : 0 < l) : LpPos c.seg.value v l.toNat := by
  have hval := newSegment_value ic v seg hseg
  rw [similarity_eq] at h
  split at h
  · omega
  · split at h
    · omega
    · rw [hval, longestPrefix_comm] at h
      apply lpPos_of_wf hc.1 hv
      · rw [h]; omega
      · omega

end Mux.P11
