/-
  Mux.Proofs.HostsLateNames — the name discipline of the tree (`NamesOkL`, the hypothesis of the matcher-soundness
  theorems) for trees whose stored segments were parsed under DIFFERENT interceptor tables.

  `WfXL used cs`: every segment below `cs` is `newSegment ic₀` of its own well-formed, non-empty text for SOME table
  `ic₀` (its own), and parameter names are pairwise distinct along every chain.  `getNode ic` — run with the CURRENT
  table — keeps it (`getNode_wfX`): the analysis of one restructuring step follows `Mux/Proofs/WfTree.lean`, with
  the cut-point lemma for two tables (`cutPointX`).  Unlike there, success of the step is a hypothesis (the model
  refuses — `.unsupported` — to create two siblings with the same text, which a late registration makes possible).
-/
import Mux.Proofs.HostsLateSeg
import Mux.Proofs.AddAtomic
import Mux.Proofs.Names
namespace Mux.P17
open Mux Mux.P9

/-- I-seg for SOME table. -/
def SegOkX (s : Seg) : Prop := ∃ ic0, SegOk ic0 s

mutual
def Node.WfX (used : List Bytes) : Node → Prop
  | .mk s _ _ _ _ cs => SegOkX s ∧ (s.kind = .str ∨ s.name ∉ used) ∧ WfXL (usedBelow used s) cs
def WfXL (used : List Bytes) : List Node → Prop
  | [] => True
  | c :: cs => Node.WfX used c ∧ WfXL used cs
end

theorem Node.wfX_iff (used : List Bytes) (n : Node) :
    Node.WfX used n ↔ SegOkX n.seg ∧ (n.seg.kind = .str ∨ n.seg.name ∉ used) ∧
      WfXL (usedBelow used n.seg) n.children := by
  cases n; simp [Node.WfX]

theorem WfXL_iff (used : List Bytes) (cs : List Node) : WfXL used cs ↔ ∀ c ∈ cs, Node.WfX used c := by
  induction cs with
  | nil => simp [WfXL]
  | cons c cs ih => simp [WfXL, ih]

theorem WfXL_nil (used : List Bytes) : WfXL used [] := by simp [WfXL]

theorem WfXL_perm {used : List Bytes} {as bs : List Node} (hp : as.Perm bs) : WfXL used as ↔ WfXL used bs := by
  rw [WfXL_iff, WfXL_iff]
  exact ⟨fun h c hc => h c (hp.mem_iff.2 hc), fun h c hc => h c (hp.mem_iff.1 hc)⟩

/-! ## From `WfXL` to `NamesOkL` -/

mutual
theorem namesStrict_of_wfX : (n : Node) → (used : List Bytes) →
    WfXL used n.children → Node.NamesStrict used n ∧ AllL SegNameWf n.children
  | .mk _ _ _ _ _ cs, used, h => by
    unfold Node.NamesStrict
    exact namesStrictL_of_wfX cs used h
theorem namesStrictL_of_wfX : (cs : List Node) → (used : List Bytes) →
    WfXL used cs → NamesStrictL used cs ∧ AllL SegNameWf cs
  | [], _, _ => by unfold NamesStrictL AllL; exact ⟨trivial, trivial⟩
  | c :: cs, used, h => by
    unfold WfXL at h
    obtain ⟨hc, hcs⟩ := h
    have hcw := (Node.wfX_iff used c).1 hc
    have ih1 := namesStrict_of_wfX c (usedBelow used c.seg) hcw.2.2
    have ih2 := namesStrictL_of_wfX cs used hcs
    unfold NamesStrictL AllL
    refine ⟨⟨hcw.2.1, ih1.1, ih2.1⟩, ?_, ih2.2⟩
    rw [Node.All_iff]
    obtain ⟨ic0, hok⟩ := hcw.1
    exact ⟨hok.nameWf, ih1.2⟩
end

theorem namesOk_of_wfX {cs : List Node} (h : WfXL [] cs) : NamesOkL [] cs := by
  obtain ⟨h1, h2⟩ := namesStrictL_of_wfX cs [] h
  exact NamesOkL_of_strict _ [] [] h1 h2 (fun _ hk => hk) (by simp)

/-! ## One restructuring step -/

theorem sortNode_children {m n1 : Node} (h : sortNode m = .ok n1) :
    n1.children = sortChildren m.children ∧ n1.seg = m.seg ∧ n1.pattern = m.pattern := by
  obtain ⟨idx, _, rfl⟩ := sortNode_ok h
  exact ⟨by simp, by simp, by simp⟩

theorem mem_of_sortNode {m n1 : Node} (h : sortNode m = .ok n1) {d : Node} : d ∈ n1.children ↔ d ∈ m.children := by
  rw [(sortNode_children h).1]
  exact (sortChildren_perm _).mem_iff

/-- What the continuation of a step is: the remaining pieces, or the brace-free rest of the current piece. -/
def ContX (v : Bytes) (rest : List Bytes) (s : GStep) : Prop :=
  s.cont = restCont rest ∨
    ∃ L, 0 < L ∧ L < v.length ∧ NoBrace (v.drop L) ∧ s.cont = some (v.drop L, rest)

/-- **One level of `getNode`** on a sibling list satisfying `WfXL`, for a new segment parsed under the current
table: every child of the restructured node satisfies `WfX`, so does the node the search continues in, whose
segment contributes the same name as the new segment; the node keeps its own segment. -/
theorem gnPrep_wfX {ic : Interceptors} {used : List Bytes} {n : Node} {v : Bytes} {rest : List Bytes} {seg : Seg}
    {s : GStep} (hwf : WfXL used n.children) (hseg : newSegment ic v = .ok seg) (hok : SegOk ic seg)
    (hfresh : seg.kind = .str ∨ seg.name ∉ used) (h : gnPrep ic n v rest = .ok s) :
    (∀ d ∈ s.n1.children, Node.WfX used d) ∧ Node.WfX used s.parent ∧
      usedBelow used s.parent.seg = usedBelow used seg ∧ s.n1.seg = n.seg ∧ ContX v rest s := by
  have hsv : seg.value = v := newSegment_value ic v seg hseg
  have hall := (WfXL_iff used n.children).1 hwf
  unfold gnPrep at h
  simp only [bind, Except.bind, hseg, pure, Except.pure, throw, throwThe, MonadExceptOf.throw] at h
  have hscan := scanChildren_spec seg n.children 0 0 0
  cases hsc : scanChildren seg n.children 0 0 0 with
  | identical i =>
    rw [hsc] at hscan h
    obtain ⟨c, _, hc, hval⟩ := hscan
    simp only [Nat.sub_zero] at hc
    simp only [hc, Except.ok.injEq] at h
    subst h
    have hcw := hall c (List.mem_of_getElem? hc)
    obtain ⟨ic0, hc0⟩ := ((Node.wfX_iff used c).1 hcw).1
    have hst : SameText c.seg seg := by
      have h1 := hc0.seg
      rw [← hval, hsv] at h1
      exact newSegment_indep h1 hseg
    exact ⟨hall, hcw, hst.usedBelow used, rfl, .inl rfl⟩
  | best l b =>
    rw [hsc] at hscan h
    obtain ⟨a1, a2, a3, _⟩ := hscan
    simp only [] at h
    by_cases hl : l ≤ 0
    · -- a new leaf
      simp only [hl, if_true] at h
      split at h
      · cases h
      rename_i n1 hn1
      split at h
      · cases h
      rename_i j hj
      simp only [Except.ok.injEq] at h
      subst h
      have hleaf : Node.WfX used (newLeaf n.pattern seg) := by
        rw [Node.wfX_iff]
        exact ⟨⟨ic, hok⟩, hfresh, WfXL_nil _⟩
      refine ⟨?_, hleaf, rfl, ?_, .inl rfl⟩
      · intro d hd
        have := (mem_of_sortNode hn1).1 hd
        simp only [setChildren_children, List.mem_append, List.mem_singleton] at this
        rcases this with hd' | rfl
        · exact hall d hd'
        · exact hleaf
      · simpa using (sortNode_children hn1).2.1
    · -- a similar child
      have hl0 : 0 < l := by omega
      simp only [hl, if_false] at h
      obtain ⟨c, _, hc, hsim⟩ := a3 hl0
      simp only [Nat.sub_zero] at hc
      simp only [hc] at h
      rw [← hsim] at hl0
      obtain ⟨hvne, hkind, hlp⟩ := similarity_pos hl0
      have hcw := hall c (List.mem_of_getElem? hc)
      obtain ⟨⟨ic0, hc0⟩, hcfresh, hcch⟩ := (Node.wfX_iff used c).1 hcw
      rw [hlp, longestPrefix_comm] at hl0
      obtain ⟨L, hL, hL0, hLc, hLv, hpre, hdc, hdv, hname, _, _, s1, hs1, hw1, hk1, hn1, _, _, hsplit⟩ :=
        cutPointX hc0 hok hkind.symm hl0
      have hlL : l.toNat = L := by
        rw [← hsim, hlp, longestPrefix_comm, hL]; simp
      rw [hsv] at hLv hdv
      have hub : usedBelow used c.seg = usedBelow used seg := usedBelow_congr used hkind.symm hname
      have hcont : ∀ (n1 : Node) (j : Nat) (parent : Node),
          ContX v rest ⟨n1, j, parent, if v.length ≤ L then restCont rest else some (v.drop L, rest)⟩ := by
        intro n1 j parent
        by_cases hvl : v.length ≤ L
        · left; simp [hvl]
        · right; exact ⟨L, hL0, by omega, hdv, by simp [hvl]⟩
      simp only [hlL] at h
      cases hgs : gnSplit ic n c b L with
      | error e => rw [hgs] at h; cases h
      | ok r3 =>
        obtain ⟨n1, j, parent⟩ := r3
        rw [hgs] at h
        simp only [Except.ok.injEq] at h
        subst h
        unfold gnSplit at hgs
        simp only [bind, Except.bind, pure, Except.pure, throw, throwThe, MonadExceptOf.throw] at hgs
        by_cases hcl : c.seg.value.length ≤ L
        · -- no split
          simp only [hcl, if_true, Except.ok.injEq, Prod.mk.injEq] at hgs
          obtain ⟨rfl, rfl, rfl⟩ := hgs
          exact ⟨hall, hcw, hub, rfl, hcont _ _ _⟩
        · -- split
          have hlt : L < c.seg.value.length := by omega
          obtain ⟨hsp, hs1ok, hs2ok⟩ := hsplit hlt
          simp only [hcl, if_false, hsp] at hgs
          cases hret : sortNode (Node.mk s1 (n.pattern ++ s1.value) 0 [] [] [c.setSeg { value := c.seg.value.drop L }]) with
          | error e => rw [hret] at hgs; cases hgs
          | ok ret =>
            rw [hret] at hgs
            simp only [] at hgs
            cases hn1' : sortNode (n.setChildren (removeNodes n.children c.seg.value ++ [ret]) n.indexes) with
            | error e => rw [hn1'] at hgs; cases hgs
            | ok n1' =>
              rw [hn1'] at hgs
              simp only [] at hgs
              split at hgs
              · cases hgs
              rename_i j' hj
              simp only [Except.ok.injEq, Prod.mk.injEq] at hgs
              obtain ⟨rfl, rfl, rfl⟩ := hgs
              have hlower : Node.WfX (usedBelow used s1) (c.setSeg { value := c.seg.value.drop L }) := by
                rw [Node.wfX_iff]
                simp only [setSeg_seg, setSeg_children]
                refine ⟨⟨ic, hs2ok⟩, .inl trivial, ?_⟩
                have e1 : usedBelow (usedBelow used s1) { value := c.seg.value.drop L } = usedBelow used s1 := by
                  simp [usedBelow]
                rw [e1, usedBelow_congr used hk1 hn1]
                exact hcch
              have hretseg : ret.seg = s1 := by simpa using (sortNode_children hret).2.1
              have hretw : Node.WfX used ret := by
                rw [Node.wfX_iff, hretseg]
                refine ⟨⟨ic, hs1ok⟩, by rw [hk1, hn1]; exact hcfresh, ?_⟩
                rw [WfXL_iff]
                intro d hd
                have := (mem_of_sortNode hret).1 hd
                simp only [Node.children_mk, List.mem_singleton] at this
                subst this
                exact hlower
              refine ⟨?_, hretw, ?_, ?_, hcont _ _ _⟩
              · intro d hd
                have := (mem_of_sortNode hn1').1 hd
                simp only [setChildren_children, List.mem_append, List.mem_singleton] at this
                rcases this with hd' | rfl
                · exact hall d ((removeNodes_sublist _ _).subset hd')
                · exact hretw
              · rw [hretseg, usedBelow_congr used hk1 hn1]; exact hub
              · simpa using (sortNode_children hn1').2.1

/-! ## `getNode` keeps `WfXL` -/

/-- `PiecesOk.cont` without the end-of-token bookkeeping. -/
theorem piecesOk_contX {ic : Interceptors} {used : List Bytes} {v : Bytes} {rest : List Bytes} {seg : Seg}
    {s : GStep} (hp : PiecesOk ic used v rest) (hseg : newSegment ic v = .ok seg)
    (hub : usedBelow used s.parent.seg = usedBelow used seg) (hc : ContX v rest s)
    {v' : Bytes} {rest' : List Bytes} (hcont : s.cont = some (v', rest')) :
    PiecesOk ic (usedBelow used s.parent.seg) v' rest' := by
  obtain ⟨flag, segs, hsplit⟩ := hp.split
  obtain ⟨hvne, _, seg', segs', hseg', _, hrest, _⟩ := splitLoop_cons_inv hsplit
  rw [hseg] at hseg'
  cases hseg'
  rw [← hub] at hrest
  rcases hc with h1 | ⟨L, hL0, hLv, hnb, h1⟩
  · rw [h1] at hcont
    have hr := restCont_some hcont
    subst hr
    exact ⟨⟨_, _, hrest⟩, fun x hx => hp.wf x (List.mem_cons_of_mem _ hx),
      fun x hx => hp.heads x (List.mem_cons_of_mem _ hx)⟩
  · rw [h1] at hcont
    simp only [Option.some.injEq, Prod.mk.injEq] at hcont
    obtain ⟨rfl, rfl⟩ := hcont
    have hdne : v.drop L ≠ [] := by
      intro e
      have := congrArg List.length e
      simp at this
      omega
    have hlen : (v.drop L).length ≤ maxInt16 := by
      have := newSegment_len hseg
      simp; omega
    rw [← lastByte_drop hLv] at hrest
    refine ⟨⟨false, _, splitLoop_lit false hnb hdne hlen hrest⟩, ?_, hp.heads⟩
    intro x hx
    rcases List.mem_cons.1 hx with rfl | hx
    · exact .inl hnb
    · exact hp.wf x (List.mem_cons_of_mem _ hx)

/-- **`getNode`, run with the current table, keeps `WfXL`** (and the segment of the node it is called on). -/
theorem getNode_wfX (ic : Interceptors) (n : Node) (v : Bytes) (rest : List Bytes) :
    ∀ used r, WfXL used n.children → PiecesOk ic used v rest → getNode ic n v rest = .ok r →
      WfXL used r.1.children ∧ r.1.seg = n.seg := by
  induction n, v, rest using getNode_induction ic with
  | step n v rest ih =>
    intro used r hwf hp hget
    obtain ⟨flag, segs, hsplit⟩ := hp.split
    obtain ⟨hvne, _, seg, segs', hseg, hfresh, _, _⟩ := splitLoop_cons_inv hsplit
    have hok : SegOk ic seg := SegOk.of_newSegment hseg (hp.wf v (by simp)) hvne
    rw [getNode_eq] at hget
    cases hprep : gnPrep ic n v rest with
    | error e => rw [hprep] at hget; cases hget
    | ok s =>
      rw [hprep] at hget
      simp only [gnFinish] at hget
      obtain ⟨hmem, hpar, hub, hsg, hcx⟩ := gnPrep_wfX hwf hseg hok hfresh hprep
      cases hcont : s.cont with
      | none =>
        rw [hcont] at hget
        simp only [pure, Except.pure, Except.ok.injEq] at hget
        subst hget
        exact ⟨(WfXL_iff _ _).2 hmem, hsg⟩
      | some vr =>
        obtain ⟨v', rest'⟩ := vr
        rw [hcont] at hget
        simp only [bind, Except.bind, pure, Except.pure] at hget
        cases hrec : getNode ic s.parent v' rest' with
        | error e => rw [hrec] at hget; cases hget
        | ok r' =>
          rw [hrec] at hget
          simp only [Except.ok.injEq] at hget
          subst hget
          have hp' := piecesOk_contX hp hseg hub hcx hcont
          obtain ⟨hps, hpfresh, hpch⟩ := (Node.wfX_iff used s.parent).1 hpar
          obtain ⟨hwf', f1⟩ := ih s v' rest' hprep hcont _ r' hpch hp' hrec
          refine ⟨?_, by simpa using hsg⟩
          simp only [setChildren_children]
          rw [WfXL_iff]
          intro d hd
          rcases List.mem_or_eq_of_mem_set hd with hd | rfl
          · exact hmem d hd
          · rw [Node.wfX_iff, f1]
            exact ⟨hps, hpfresh, hwf'⟩

/-! ## `modifyAt` and `removeAt` keep `WfXL` -/

theorem modifyAt_wfX (f : Node → Except Err Node)
    (hf : ∀ m m', f m = .ok m' → m'.seg = m.seg ∧ m'.children = m.children) :
    ∀ (path : List Nat) (n n' : Node) (used : List Bytes), WfXL used n.children → n.modifyAt f path = .ok n' →
      WfXL used n'.children ∧ n'.seg = n.seg := by
  intro path
  induction path with
  | nil =>
    intro n n' used hn h
    have h' : f n = .ok n' := by cases n; simpa [Node.modifyAt] using h
    obtain ⟨h1, h2⟩ := hf n n' h'
    exact ⟨by rw [h2]; exact hn, h1⟩
  | cons i path ih =>
    have hL : ∀ (cs cs' : List Node) (k : Nat) (used : List Bytes), WfXL used cs →
        modifyAtL f cs k path = .ok cs' → WfXL used cs' := by
      intro cs
      induction cs with
      | nil => intro cs' k used _ h; simp [modifyAtL] at h
      | cons c cs ihc =>
        intro cs' k used hn h
        rw [WfXL] at hn
        cases k with
        | zero =>
          simp only [modifyAtL, bind, Except.bind, pure, Except.pure] at h
          split at h
          · cases h
          rename_i c' hc'
          simp only [Except.ok.injEq] at h
          subst h
          obtain ⟨hs, hfr, hch⟩ := (Node.wfX_iff used c).1 hn.1
          obtain ⟨hch', hseg'⟩ := ih c c' _ hch hc'
          rw [WfXL, Node.wfX_iff, hseg']
          exact ⟨⟨hs, hfr, hch'⟩, hn.2⟩
        | succ k =>
          simp only [modifyAtL, bind, Except.bind, pure, Except.pure] at h
          split at h
          · cases h
          rename_i r hr
          simp only [Except.ok.injEq] at h
          subst h
          rw [WfXL]
          exact ⟨hn.1, ihc r k used hn.2 hr⟩
    intro n n' used hn h
    cases n with
    | mk s p mi hs idx cs =>
      simp only [Node.modifyAt, bind, Except.bind, pure, Except.pure] at h
      split at h
      · cases h
      rename_i cs' hcs'
      simp only [Except.ok.injEq] at h
      subst h
      exact ⟨hL cs cs' i used hn hcs', rfl⟩

theorem removeAt_wfX (f : Node → Node) (hf : ∀ m, (f m).seg = m.seg ∧ (f m).children = m.children) :
    ∀ (path : List Nat) (n n' : Node) (used : List Bytes), WfXL used n.children → n.removeAt f path = .ok n' →
      WfXL used n'.children ∧ n'.seg = n.seg := by
  intro path
  induction path with
  | nil =>
    intro n n' used hn h
    have h' : f n = n' := by cases n; simpa [Node.removeAt] using h
    subst h'
    exact ⟨by rw [(hf n).2]; exact hn, (hf n).1⟩
  | cons i path ih =>
    have hL : ∀ (cs cs' : List Node) (d : Bool) (k : Nat) (used : List Bytes), WfXL used cs →
        removeAtL f cs k path = .ok (cs', d) → WfXL used cs' := by
      intro cs
      induction cs with
      | nil => intro cs' d k used _ h; simp [removeAtL] at h
      | cons c cs ihc =>
        intro cs' d k used hn h
        rw [WfXL] at hn
        cases k with
        | zero =>
          simp only [removeAtL, bind, Except.bind, pure, Except.pure] at h
          split at h
          · cases h
          rename_i c' hc'
          obtain ⟨hs, hfr, hch⟩ := (Node.wfX_iff used c).1 hn.1
          obtain ⟨hch', hseg'⟩ := ih c c' _ hch hc'
          split at h
          · simp only [Except.ok.injEq, Prod.mk.injEq] at h
            obtain ⟨rfl, rfl⟩ := h
            exact hn.2
          · simp only [Except.ok.injEq, Prod.mk.injEq] at h
            obtain ⟨rfl, rfl⟩ := h
            rw [WfXL, Node.wfX_iff, hseg']
            exact ⟨⟨hs, hfr, hch'⟩, hn.2⟩
        | succ k =>
          simp only [removeAtL, bind, Except.bind, pure, Except.pure] at h
          split at h
          · cases h
          rename_i r hr
          simp only [Except.ok.injEq, Prod.mk.injEq] at h
          obtain ⟨rfl, rfl⟩ := h
          rw [WfXL]
          exact ⟨hn.1, ihc r.1 r.2 k used hn.2 hr⟩
    intro n n' used hn h
    cases n with
    | mk s p mi hs idx cs =>
      simp only [Node.removeAt, bind, Except.bind, pure, Except.pure] at h
      split at h
      · cases h
      rename_i r hr
      have := hL cs r.1 r.2 i used hn hr
      split at h
      · split at h
        · cases h
        simp only [Except.ok.injEq] at h
        subst h
        exact ⟨this, rfl⟩
      · simp only [Except.ok.injEq] at h
        subst h
        exact ⟨this, rfl⟩

end Mux.P17
