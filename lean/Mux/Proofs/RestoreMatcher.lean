/-
  Mux.Proofs.RestoreMatcher — "one entry per key" is an invariant of everything that writes parameters:
  `Tree.handler` (on a tree with `IdxLit`) and every `Matcher` (`Hosts` matchers whose tree has `IdxLit`, path / header
  version, `And`, `Or`).  So the parameters a `Group` matcher hands to its router — computed from NO incoming
  parameters — always satisfy the side condition of the exact law `C01_group_dispatch_exact`.
-/
import Mux.Proofs.RestoreGroup
import Mux.Proofs.Version
namespace Mux.P19
open Mux Mux.P18

theorem nodup_setCaps (caps : List (Bytes × Bytes)) : ∀ (ps : Params), ps.keys.Nodup → (setCaps ps caps).keys.Nodup := by
  induction caps with
  | nil => intro ps h; exact h
  | cons e caps ih =>
    intro ps h
    exact ih _ (AMap.nodup_keys_set ps e.1 e.2 h)

/-- `Tree.handler` keeps "one entry per key". -/
theorem handler_params_nodup (env : Env) (t : Tree) (hI : Node.All IdxLit t.root) (path method : Bytes) (ps : Params)
    (hnd : ps.keys.Nodup) (f : Found) (h : t.handler env path ps method = .res f) : f.params.keys.Nodup := by
  cases hf : f.node with
  | none => rw [(handler_404_restore hI hnd h hf).1]; exact hnd
  | some n =>
    by_cases hpath : path = [] ∨ path = [42]
    · rw [(Tree.handler_root hpath h).1]; exact hnd
    · rcases Tree.handler_cases env t path ps method with ⟨h', _, _, e⟩ | ⟨htr, _⟩
      · rw [e] at h
        simp only [HR.res.injEq] at h
        subst h
        exact hnd
      · obtain ⟨chain, _, _, _, _, c5, _⟩ :=
          handler_found_restore hI hnd (fun x => hpath (.inl x)) (fun x => hpath (.inr x)) htr h hf
        rw [c5]
        exact nodup_setCaps _ _ hnd

/-- The parameters a matcher call leaves behind (accepting or rejecting) have one entry per key. -/
def MatchOut.ParamsNodup : MatchOut → Prop
  | .accept _ ps => ps.keys.Nodup
  | .reject _ ps => ps.keys.Nodup
  | _ => True

/-- Every `Hosts` matcher of the table has a tree whose index fast path selects literal children (every matcher made
by `NewHosts` and a history of `Add`/`Delete`/`RegisterInterceptor`: `TreeInv`). -/
def HostsIdxLit (tab : Nat → Option Hosts) : Prop := ∀ id hs, tab id = some hs → Node.All IdxLit hs.tree.root

mutual
theorem run_nodup (env : Env) (tab : Nat → Option Hosts) (htab : HostsIdxLit tab) :
    (m : Matcher) → (req : Req) → (path : Bytes) → (ps : Params) → ps.keys.Nodup →
      MatchOut.ParamsNodup (m.run env tab req path ps)
  | .any, _, _, _, hnd => by rw [Matcher.run]; exact hnd
  | .hosts id, req, path, ps, hnd => by
    rw [Matcher.run]
    cases ht : tab id with
    | none => trivial
    | some hs =>
      simp only
      unfold Hosts.match
      split
      · trivial
      · cases hh : hs.tree.handler env (normHost req.host) ps mGET with
        | fault s => trivial
        | unsupported => trivial
        | res f =>
          have := handler_params_nodup env hs.tree (htab id hs ht) _ _ ps hnd f hh
          simp only
          split <;> exact this
  | .pathVersion param vers, req, path, ps, hnd => by
    rw [run_pathVersion]
    split
    · exact hnd
    · show AMap.keys (if param ≠ [] then ps.set param _ else ps) |>.Nodup
      split
      · exact AMap.nodup_keys_set ps _ _ hnd
      · exact hnd
  | .headerVersion param key vers, req, path, ps, hnd => by
    rw [run_headerVersion]
    cases hh : headerVersionMatch param key vers req ps with
    | none => exact hnd
    | some ps' =>
      show ps'.keys.Nodup
      unfold headerVersionMatch at hh
      simp only at hh
      split at hh
      · cases hh
      · split at hh
        · cases hh
        · split at hh
          · cases hh
            split
            · exact AMap.nodup_keys_set ps _ _ hnd
            · exact hnd
          · cases hh
  | .and ms, req, path, ps, hnd => by
    rw [Matcher.run]
    have := runAnd_nodup env tab htab ms req path ps hnd
    cases hr : runAnd env tab ms req path ps with
    | reject p' ps' => exact hnd
    | accept p' ps' => rw [hr] at this; exact this
    | fault s => trivial
    | unsupported => trivial
  | .or ms, req, path, ps, hnd => by
    rw [Matcher.run]
    exact runOr_nodup env tab htab ms req path ps hnd

theorem runAnd_nodup (env : Env) (tab : Nat → Option Hosts) (htab : HostsIdxLit tab) :
    (ms : List Matcher) → (req : Req) → (path : Bytes) → (ps : Params) → ps.keys.Nodup →
      MatchOut.ParamsNodup (runAnd env tab ms req path ps)
  | [], _, _, _, hnd => by rw [runAnd]; exact hnd
  | m :: ms, req, path, ps, hnd => by
    rw [runAnd]
    have h1 := run_nodup env tab htab m req path ps hnd
    cases hr : m.run env tab req path ps with
    | accept p' ps' =>
      rw [hr] at h1
      exact runAnd_nodup env tab htab ms req p' ps' h1
    | reject p' ps' => rw [hr] at h1; exact h1
    | fault s => trivial
    | unsupported => trivial

theorem runOr_nodup (env : Env) (tab : Nat → Option Hosts) (htab : HostsIdxLit tab) :
    (ms : List Matcher) → (req : Req) → (path : Bytes) → (ps : Params) → ps.keys.Nodup →
      MatchOut.ParamsNodup (runOr env tab ms req path ps)
  | [], _, _, _, hnd => by rw [runOr]; exact hnd
  | m :: ms, req, path, ps, hnd => by
    rw [runOr]
    have h1 := run_nodup env tab htab m req path ps hnd
    cases hr : m.run env tab req path ps with
    | reject p' ps' =>
      rw [hr] at h1
      exact runOr_nodup env tab htab ms req p' ps' h1
    | accept p' ps' => rw [hr] at h1; exact h1
    | fault s => trivial
    | unsupported => trivial
end

/-- What a group matcher hands to its router has one entry per key. -/
theorem matcher_accept_nodup (env : Env) (tab : Nat → Option Hosts) (htab : HostsIdxLit tab) (m : Matcher) (req : Req)
    (path p : Bytes) (ps : Params) (h : m.run env tab req path [] = .accept p ps) : ps.keys.Nodup := by
  have := run_nodup env tab htab m req path [] (by simp [AMap.keys])
  rw [h] at this
  exact this

end Mux.P19
