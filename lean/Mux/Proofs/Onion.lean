/-
  Mux.Proofs.Onion — the middleware ("onion") invariant.

  `TreeWrap ms t`: with `ms` the chronological list of all `Use` middlewares,
  * `t.notFound.wraps = mkWraps ms "" "" name`, `t.trace` has `mkWraps ms TRACE "" name`,
  * every entry `(key, h)` of the root has `h.wraps = mkWraps ms key "" name`,
  * every entry `(key, h)` of a node `n` below the root has
    `h.wraps = mkWraps (own ++ ms) key n.pattern name` for some `own`,
  * every child's pattern is the parent's pattern followed by the child's segment text.
  `WrapInv r := TreeWrap r.ms r.tree` is preserved by every router operation.
-/
import Mux.Proofs.WOkOps
import Mux.Proofs.TreeVals
import Mux.Proofs.TreeReach
namespace Mux.P10
open Mux

/-- The middleware applications `ms` (innermost first) created for one handler: every factory was
called with the same `(method, pattern, router)`. -/
def mkWraps (ms : List Nat) (method pattern router : Bytes) : List Wrap :=
  ms.map (fun m => ⟨m, method, pattern, router⟩)

@[simp] theorem mkWraps_nil (k p r : Bytes) : mkWraps [] k p r = [] := rfl

theorem mkWraps_append (a b : List Nat) (k p r : Bytes) :
    mkWraps (a ++ b) k p r = mkWraps a k p r ++ mkWraps b k p r := by
  simp [mkWraps]

theorem wrapWith_wraps (h : Handler) (k p r : Bytes) (ms : List Nat) :
    (wrapWith h k p r ms).wraps = h.wraps ++ mkWraps ms k p r := rfl

theorem mkWraps_length (ms : List Nat) (k p r : Bytes) : (mkWraps ms k p r).length = ms.length := by
  simp [mkWraps]

theorem mkWraps_mws (ms : List Nat) (k p r : Bytes) : (mkWraps ms k p r).map (·.mw) = ms := by
  simp [mkWraps, Function.comp_def]

/-- Every element carries the same arguments. -/
theorem mem_mkWraps {ms : List Nat} {k p r : Bytes} {w : Wrap} (h : w ∈ mkWraps ms k p r) :
    w.method = k ∧ w.pattern = p ∧ w.router = r ∧ w.mw ∈ ms := by
  simp only [mkWraps, List.mem_map] at h
  obtain ⟨m, hm, rfl⟩ := h
  exact ⟨rfl, rfl, rfl, hm⟩

/-- The handler predicate of the invariant below the root. -/
def WrapR (ms : List Nat) (name : Bytes) (p : Bytes) (hs : AMap Handler) : Prop :=
  ∀ e ∈ hs, ∃ own : List Nat, e.2.wraps = mkWraps (own ++ ms) e.1 p name

theorem WrapR_nil (ms : List Nat) (name p : Bytes) : WrapR ms name p [] := by
  intro e he; cases he

theorem WrapR_subset {ms : List Nat} {name p : Bytes} {hs hs' : AMap Handler} (hsub : ∀ e ∈ hs', e ∈ hs)
    (h : WrapR ms name p hs) : WrapR ms name p hs' := fun e he => h e (hsub e he)

theorem mem_set {V : Type} {hs : AMap V} {k : Bytes} {v : V} {e : Bytes × V} (he : e ∈ hs.set k v) :
    e = (k, v) ∨ e ∈ hs := by
  unfold AMap.set at he
  split at he
  · rw [List.mem_map] at he
    obtain ⟨e0, he0, rfl⟩ := he
    split
    · exact .inl rfl
    · exact .inr he0
  · rw [List.mem_append] at he
    rcases he with he | he
    · exact .inr he
    · simp at he; exact .inl he

theorem WrapR_set {ms : List Nat} {name p : Bytes} {hs : AMap Handler} (h : WrapR ms name p hs) (k : Bytes)
    (v : Handler) (own : List Nat) (hv : v.wraps = mkWraps (own ++ ms) k p name) : WrapR ms name p (hs.set k v) := by
  intro e he
  rcases mem_set he with rfl | he
  · exact ⟨own, hv⟩
  · exact h e he

/-- `Use` on a handler map. -/
theorem WrapR_applyMw (ms m : List Nat) (name p : Bytes) (hs : AMap Handler) (h : WrapR ms name p hs) :
    WrapR (ms ++ m) name p (hs.map (fun e => (e.1, wrapWith e.2 e.1 p name m))) := by
  intro e he
  rw [List.mem_map] at he
  obtain ⟨e0, he0, rfl⟩ := he
  obtain ⟨own, ho⟩ := h e0 he0
  refine ⟨own, ?_⟩
  simp only [wrapWith_wraps, ho, ← mkWraps_append, List.append_assoc]

/-! ## addMethods -/

theorem addMethodsLoop_wrap (t : Tree) (h : Handler) (hh : h.wraps = []) (pattern : Bytes) (own ms : List Nat) :
    ∀ (methods : List Bytes) (hs hs' : AMap Handler), WrapR ms t.name pattern hs →
      addMethodsLoop t h pattern (own ++ ms) methods hs = .ok hs' → WrapR ms t.name pattern hs' := by
  intro methods
  induction methods with
  | nil => intro hs hs' hp he; simp [addMethodsLoop] at he; exact he ▸ hp
  | cons m rest ih =>
    intro hs hs' hp he
    simp only [addMethodsLoop, bind, Except.bind] at he
    split at he
    · simp [throw, throwThe, MonadExceptOf.throw] at he
    split at he
    · simp [throw, throwThe, MonadExceptOf.throw] at he
    split at he
    · simp [throw, throwThe, MonadExceptOf.throw] at he
    refine ih _ hs' ?_ he
    refine WrapR_set ?_ _ _ own (by simp [wrapWith_wraps, hh])
    split
    · exact WrapR_set hp _ _ own (by simp [wrapWith_wraps, hh])
    · exact hp

theorem addMethodsNode_wrap (t : Tree) (h : Handler) (hh : h.wraps = []) (pattern : Bytes) (own ms : List Nat)
    (methods : List Bytes) (n n' : Node) (hn : WrapR ms t.name pattern n.handlers)
    (he : t.addMethodsNode h pattern (own ++ ms) methods n = .ok n') :
    n'.pattern = n.pattern ∧ n'.seg = n.seg ∧ n'.children = n.children ∧ WrapR ms t.name pattern n'.handlers := by
  unfold Tree.addMethodsNode at he
  simp only [bind, Except.bind, pure, Except.pure] at he
  split at he
  · simp at he
  rename_i hs1 hloop
  simp only [Except.ok.injEq] at he
  subst he
  have h1 := addMethodsLoop_wrap t h hh pattern own ms methods _ _ hn hloop
  refine ⟨rfl, rfl, rfl, ?_⟩
  simp only [Node.setHandlers, Node.handlers_mk]
  generalize hhs2 : (if AMap.contains hs1 mOPTIONS = true then hs1 else
      hs1.set mOPTIONS (wrapWith { base := t.optionsBase } mOPTIONS pattern t.name (own ++ ms))) = hs2
  have h2 : WrapR ms t.name pattern hs2 := by
    rw [← hhs2]
    split
    · exact h1
    · exact WrapR_set h1 _ _ own (by simp [wrapWith_wraps])
  split
  · exact h2
  · exact WrapR_set h2 _ _ own (by simp [wrapWith_wraps])

/-! ## The tree invariant -/

structure TreeWrap (ms : List Nat) (t : Tree) : Prop where
  nf : t.notFound.wraps = mkWraps ms [] [] t.name
  tr : ∀ h, t.trace = some h → h.wraps = mkWraps ms mTRACE [] t.name
  rootPat : t.root.pattern = []
  rootHs : ∀ e ∈ t.root.handlers, e.2.wraps = mkWraps ms e.1 [] t.name
  below : ListW (WrapR ms t.name) [] t.root.children

theorem TreeWrap.rootW {ms : List Nat} {t : Tree} (h : TreeWrap ms t) : NodeW (WrapR ms t.name) t.root := by
  rw [NodeW_iff, h.rootPat]
  refine ⟨?_, h.below⟩
  intro e he
  exact ⟨[], by simpa using h.rootHs e he⟩

theorem TreeWrap.patternOk {ms : List Nat} {t : Tree} (h : TreeWrap ms t) : Node.PatternOk t.root :=
  NodeW_patternOk _ h.rootW

/-- Replacing the root by one with the same pattern and handlers. -/
theorem TreeWrap.of_root {ms : List Nat} {t : Tree} (h : TreeWrap ms t) {root' : Node} (counts' : AMap Nat) (mi : Nat)
    (hp : root'.pattern = []) (hh : root'.handlers = t.root.handlers)
    (hb : ListW (WrapR ms t.name) [] root'.children) :
    TreeWrap ms { t with counts := counts', root := root'.setHandlers root'.handlers mi } := by
  refine ⟨h.nf, h.tr, ?_, ?_, ?_⟩
  · simpa [Node.setHandlers] using hp
  · simp only [Node.setHandlers, Node.handlers_mk]; rw [hh]; exact h.rootHs
  · simpa [Node.setHandlers] using hb

theorem tw_new (name : Bytes) (ic : Interceptors) (nf : Handler) (tr : Option Handler) (ob nb : Base)
    (hnf : nf.wraps = []) (htr : ∀ h, tr = some h → h.wraps = []) : TreeWrap [] (Tree.new name ic nf tr ob nb) := by
  refine ⟨by simpa [Tree.new] using hnf, ?_, rfl, ?_, by simp [Tree.new, ListW]⟩
  · intro h hh; simpa using htr h hh
  · intro e he
    simp only [Tree.new, Node.handlers_mk, List.mem_cons, List.not_mem_nil, or_false] at he
    rcases he with rfl | rfl <;> rfl

theorem tw_add {ms : List Nat} {t t' : Tree} {p : Bytes} {h : Handler} {own : List Nat} {methods : List Bytes}
    (hw : TreeWrap ms t) (hh : h.wraps = []) (he : t.add p h (own ++ ms) methods = .ok t') : TreeWrap ms t' := by
  obtain ⟨v, rest, root1, path, root2, _, hsp, hget, hmod, rfl⟩ := Tree.add_ok he
  obtain ⟨hp1, _, hh1, _, hw1, hne, m, hm, hmp, _⟩ :=
    getNode_W t.ic (WrapR ms t.name) (WrapR_nil ms t.name) t.root v rest _ (by rw [hw.rootPat]; exact hw.below) hget
  simp only at hp1 hh1 hw1 hne hm hmp
  have hmp' : m.pattern = p := by
    have := splitString_join p
    rw [hsp] at this
    rw [hmp, hw.rootPat]; simpa using this
  have hroot1 : NodeW (WrapR ms t.name) root1 := by
    rw [NodeW_iff, hp1, hh1]
    exact ⟨((NodeW_iff _).1 hw.rootW).1, hw1⟩
  have hmW : WrapR ms t.name p m.handlers := by
    have := ((NodeW_iff m).1 (NodeW_getAt hroot1 hm)).1
    rwa [hmp'] at this
  obtain ⟨hW2, hp2, _, hh2, _⟩ := modifyAt_W (P := WrapR ms t.name)
    (t.addMethodsNode h p (own ++ ms) (effMethods methods)) path root1 root2 m hroot1 hm
    (by
      intro m' hm'
      obtain ⟨a, b, c, d⟩ := addMethodsNode_wrap t h hh p own ms (effMethods methods) m m' hmW hm'
      exact ⟨a, b, c, by rw [a, hmp']; exact d⟩) hmod
  have hb := ((NodeW_iff root2).1 hW2).2
  rw [hp2, hp1, hw.rootPat] at hb
  exact hw.of_root _ _ (by rw [hp2, hp1, hw.rootPat]) ((hh2 hne).trans hh1) hb

theorem removeMethods_wrap (ht : Bool) (methods : List Bytes) {ms : List Nat} {name : Bytes} (n : Node)
    (hn : NodeW (WrapR ms name) n) :
    NodeW (WrapR ms name) (removeMethods ht methods n) ∧ (removeMethods ht methods n).pattern = n.pattern ∧
      (removeMethods ht methods n).seg = n.seg := by
  have hf : (removeMethods ht methods n).pattern = n.pattern ∧ (removeMethods ht methods n).seg = n.seg ∧
      (removeMethods ht methods n).children = n.children := by
    unfold removeMethods; simp [Node.setHandlers]
  refine ⟨?_, hf.1, hf.2.1⟩
  rw [NodeW_iff] at hn ⊢
  rw [hf.1, hf.2.2]
  refine ⟨WrapR_subset ?_ hn.1, hn.2⟩
  intro e he
  rw [removeMethods_handlers] at he
  split at he
  · simp at he
  · split at he
    · simp at he
    · exact foldl_rmStep_subset methods _ e he

theorem tw_remove {ms : List Nat} {t t' : Tree} {p : Bytes} {methods : List Bytes}
    (hw : TreeWrap ms t) (he : t.remove p methods = .ok t') : TreeWrap ms t' := by
  rcases Tree.remove_ok he with rfl | ⟨path, root1, hpath, hrem, rfl⟩
  · exact hw
  · obtain ⟨hW1, hp1, _, hh1⟩ := removeAt_W (P := WrapR ms t.name) _
      (fun m hm => removeMethods_wrap t.hasTrace methods m hm) path t.root root1 hw.rootW hrem
    have hb := ((NodeW_iff root1).1 hW1).2
    rw [hp1, hw.rootPat] at hb
    exact hw.of_root _ _ (by rw [hp1, hw.rootPat]) (hh1 (findPath_ne_nil _ _ _ hpath)) hb

theorem tw_clean {ms : List Nat} {t t' : Tree} {pre : Bytes}
    (hw : TreeWrap ms t) (he : t.clean pre = .ok t') : TreeWrap ms t' := by
  obtain ⟨root1, hclean, rfl⟩ := Tree.clean_ok he
  obtain ⟨hW1, hp1, _, hh1, _⟩ := clean_W (P := WrapR ms t.name) t.root pre root1 hw.rootW hclean
  have hb := ((NodeW_iff root1).1 hW1).2
  rw [hp1, hw.rootPat] at hb
  exact hw.of_root _ _ (by rw [hp1, hw.rootPat]) hh1 hb

theorem tw_use {ms : List Nat} {t : Tree} (m : List Nat) (hw : TreeWrap ms t) :
    TreeWrap (ms ++ m) (t.applyMiddleware m) := by
  obtain ⟨_, hp, _, hh, _, hc⟩ := applyMw_fields t.name m t.root
  refine ⟨?_, ?_, ?_, ?_, ?_⟩
  · show (wrapWith t.notFound [] [] t.name m).wraps = _
    rw [wrapWith_wraps, hw.nf, mkWraps_append]; rfl
  · intro h hh'
    simp only [Tree.applyMiddleware, Option.map_eq_some_iff] at hh'
    obtain ⟨h0, hh0, rfl⟩ := hh'
    show (wrapWith h0 mTRACE [] t.name m).wraps = _
    rw [wrapWith_wraps, hw.tr h0 hh0, mkWraps_append]; rfl
  · show (t.root.applyMw t.name m).pattern = []
    rw [hp]; exact hw.rootPat
  · show ∀ e ∈ (t.root.applyMw t.name m).handlers, e.2.wraps = mkWraps (ms ++ m) e.1 [] t.name
    rw [hh]
    intro e he
    rw [List.mem_map] at he
    obtain ⟨e0, he0, rfl⟩ := he
    simp only [wrapWith_wraps, hw.rootHs e0 he0, hw.rootPat, mkWraps_append]
  · show ListW (WrapR (ms ++ m) t.name) [] (t.root.applyMw t.name m).children
    rw [hc]
    exact applyMwL_W t.name m (fun p hs h => WrapR_applyMw ms m t.name p hs h) hw.below

/-! ## Routers -/

/-- The onion invariant of a router: `r.ms` is the list of `Use` middlewares its tree carries. -/
def WrapInv (r : Router) : Prop := TreeWrap r.ms r.tree

theorem wrap_new {cfg : RouterCfg} {r : Router} (h : Router.new cfg = some r) : WrapInv r := by
  unfold Router.new at h
  split at h
  · simp at h
  simp only [Option.some.injEq] at h
  subst h
  refine tw_new _ _ _ _ _ _ rfl ?_
  intro h hh
  split at hh
  · simp at hh; subst hh; rfl
  · simp at hh

theorem wrap_handle {r r' : Router} {p : Bytes} {h : Nat} {m : List Nat} {methods : List Bytes}
    (hw : WrapInv r) (he : r.handle p h m methods = .ok r') : WrapInv r' := by
  unfold Router.handle at he
  simp only [bind, Except.bind, pure, Except.pure] at he
  split at he
  · simp at he
  rename_i t' ht'
  simp only [Except.ok.injEq] at he
  subst he
  exact tw_add (own := m) hw rfl ht'

theorem wrap_step {r : Router} (hw : WrapInv r) (op : ROp) : WrapInv (r.step op) := by
  cases op with
  | handle p h m methods =>
    simp only [Router.step]
    split
    · rename_i r' he; exact wrap_handle hw he
    · exact hw
  | remove p methods =>
    simp only [Router.step]
    split
    · rename_i r' he
      unfold Router.remove at he
      simp only [bind, Except.bind, pure, Except.pure] at he
      split at he
      · simp at he
      rename_i t' ht'
      simp only [Except.ok.injEq] at he
      subst he
      exact tw_remove hw ht'
    · exact hw
  | clean pre =>
    simp only [Router.step]
    split
    · rename_i r' he
      unfold Router.clean at he
      simp only [bind, Except.bind, pure, Except.pure] at he
      split at he
      · simp at he
      rename_i t' ht'
      simp only [Except.ok.injEq] at he
      subst he
      exact tw_clean hw ht'
    · exact hw
  | use m => exact tw_use m hw

theorem wrap_run {r : Router} (hw : WrapInv r) (ops : List ROp) : WrapInv (r.run ops) := by
  unfold Router.run
  induction ops generalizing r with
  | nil => exact hw
  | cons op ops ih => exact ih (wrap_step hw op)

end Mux.P10

namespace Mux.P10
open Mux

/-! ## What a history never changes; the `Use` list -/

theorem run_cfg {cfg : RouterCfg} {r0 : Router} (hnew : Router.new cfg = some r0) (ops : List ROp) :
    (r0.run ops).tree.name = cfg.name ∧ (r0.run ops).tree.hasTrace = cfg.trace ∧ cfg.name ≠ [] := by
  obtain ⟨tops, _, hrun⟩ := Router.run_tree r0 ops
  have hs := sameCfg_run r0.tree tops
  rw [← hrun] at hs
  unfold Router.new at hnew
  split at hnew
  · simp at hnew
  rename_i hne
  simp only [Option.some.injEq] at hnew
  subst hnew
  refine ⟨hs.2.1, ?_, hne⟩
  rw [hs.1]
  simp only [Tree.new, Tree.hasTrace]
  cases cfg.trace <;> rfl

/-- The argument of a `Use` operation. -/
def useArg : ROp → Option (List Nat)
  | .use m => some m
  | _ => none

theorem step_ms (r : Router) (op : ROp) : (r.step op).ms = r.ms ++ ((useArg op).getD []) := by
  cases op with
  | handle p h m methods =>
    simp only [Router.step, useArg, Option.getD_none, List.append_nil]
    split
    · rename_i r' he
      unfold Router.handle at he
      simp only [bind, Except.bind, pure, Except.pure] at he
      split at he
      · simp at he
      simp only [Except.ok.injEq] at he
      subst he; rfl
    · rfl
  | remove p methods =>
    simp only [Router.step, useArg, Option.getD_none, List.append_nil]
    split
    · rename_i r' he
      unfold Router.remove at he
      simp only [bind, Except.bind, pure, Except.pure] at he
      split at he
      · simp at he
      simp only [Except.ok.injEq] at he
      subst he; rfl
    · rfl
  | clean pre =>
    simp only [Router.step, useArg, Option.getD_none, List.append_nil]
    split
    · rename_i r' he
      unfold Router.clean at he
      simp only [bind, Except.bind, pure, Except.pure] at he
      split at he
      · simp at he
      simp only [Except.ok.injEq] at he
      subst he; rfl
    · rfl
  | use m => rfl

theorem run_ms (r : Router) (ops : List ROp) : (r.run ops).ms = r.ms ++ (ops.filterMap useArg).flatten := by
  unfold Router.run
  induction ops generalizing r with
  | nil => simp
  | cons op ops ih =>
    simp only [List.foldl_cons]
    rw [ih, step_ms]
    cases h : useArg op <;> simp [h]

/-! ## The handler handed to `CallFunc` -/

/-- The key under which the called handler is stored: the request method, or `""` for a 405. -/
def callKey (req : Req) (c : Call) : Bytes := if c.ok then req.method else mNotAllowed

/-- The shape of the middleware stack of the handler `Router.serveContext` calls. -/
def OnionSpec (useMs : List Nat) (name : Bytes) (root : Node) (hasTrace : Bool) (req : Req) (c : Call) : Prop :=
  -- 404: only the `Use` middlewares, method `""`, pattern `""`
  (c.node = none ∧ c.ok = false ∧ c.handler.wraps = mkWraps useMs [] [] name) ∨
  -- the TRACE short-circuit
  (hasTrace = true ∧ req.method = mTRACE ∧ c.node = some root ∧ c.ok = true ∧
    c.handler.wraps = mkWraps useMs mTRACE [] name) ∨
  -- `OPTIONS *` (and `OPTIONS ""`) or the 405 of the root node: pattern `""`
  (c.node = some root ∧ (callKey req c = mOPTIONS ∨ callKey req c = mNotAllowed) ∧
    (callKey req c, c.handler) ∈ root.handlers ∧ c.handler.wraps = mkWraps useMs (callKey req c) [] name) ∨
  -- an entry of a matched node below the root: a route method, the automatic HEAD/OPTIONS, or its 405 (`""`)
  (∃ n ∈ nodesL root.children, c.node = some n ∧ (callKey req c, c.handler) ∈ n.handlers ∧
    ∃ own : List Nat, c.handler.wraps = mkWraps (own ++ useMs) (callKey req c) n.pattern name)

theorem found_onion {ms : List Nat} {t : Tree} (hw : TreeWrap ms t) (hinv : TreeInv t) {n : Node}
    (hn : n ∈ t.root.nodes) {k : Bytes} {h : Handler} (hg : n.handlers.get? k = some h) :
    (n = t.root ∧ (k = mOPTIONS ∨ k = mNotAllowed) ∧ (k, h) ∈ t.root.handlers ∧ h.wraps = mkWraps ms k [] t.name) ∨
    (n ∈ nodesL t.root.children ∧ (k, h) ∈ n.handlers ∧ ∃ own : List Nat, h.wraps = mkWraps (own ++ ms) k n.pattern t.name) := by
  have hmem := AMap.mem_of_getT? hg
  rw [Node.nodes_eq] at hn
  rcases List.mem_cons.1 hn with rfl | hn
  · left
    refine ⟨rfl, ?_, hmem, hw.rootHs _ hmem⟩
    have : k ∈ t.root.handlers.keys := List.mem_map_of_mem (f := (·.1)) hmem
    rw [hinv.rootKeys] at this
    simpa using this
  · right
    refine ⟨hn, hmem, ?_⟩
    have := ((All_iff_nodes _).2 _).1 (ListW_all hw.below) n hn
    exact this _ hmem

theorem serve_onion {r : Router} (hw : WrapInv r) (hinv : TreeInv r.tree) (env : Env) (req : Req) (ps : Params)
    {c : Call} (hc : r.serveContext env req ps = .call c) :
    OnionSpec r.ms r.tree.name r.tree.root r.tree.hasTrace req c := by
  unfold Router.serveContext at hc
  rcases handler_spec hinv env req.path ps req.method with ⟨f, hf, hspec⟩ | hf
  · have hch : c.handler = f.handler ∧ c.node = f.node ∧ c.ok = f.ok := by
      rw [hf] at hc
      simp only [ServeRes.call.injEq] at hc
      subst hc
      exact ⟨rfl, rfl, rfl⟩
    obtain ⟨e1, e2, e3⟩ := hch
    unfold OnionSpec callKey
    rw [e1, e2, e3]
    cases hspec with
    | notFound h1 h2 h3 =>
      left
      exact ⟨h1, h3, by rw [h2]; exact hw.nf⟩
    | trace h ht hm hnode hh hok =>
      right; left
      refine ⟨by simp [Tree.hasTrace, ht], hm, hnode, hok, ?_⟩
      rw [hh]; exact hw.tr h ht
    | found n hnode hn hne hm hg hok =>
      simp only [hok, if_true]
      rcases found_onion hw hinv hn hg with ⟨rfl, h1, h2, h3⟩ | ⟨h1, h2, h3⟩
      · right; right; left
        exact ⟨hnode, h1, h2, h3⟩
      · right; right; right
        exact ⟨n, h1, hnode, h2, h3⟩
    | notAllowed n hnode hn hne hm hg hok =>
      simp only [hok, Bool.false_eq_true, if_false]
      rcases found_onion hw hinv hn hg with ⟨rfl, h1, h2, h3⟩ | ⟨h1, h2, h3⟩
      · right; right; left
        exact ⟨hnode, .inr trivial, h2, h3⟩
      · right; right; right
        exact ⟨n, h1, hnode, h2, h3⟩
  · rw [hf] at hc
    cases hc

end Mux.P10
