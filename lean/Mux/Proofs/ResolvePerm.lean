/-
  Mux.Proofs.ResolvePerm — the reference resolver does not depend on the order (or multiplicity) in
  which the remainders are listed: lists with the same members yield outcome lists with the same
  members (`resolveFuel_setEq`).  This is what makes "independent of the registration order" a
  statement about the SPECIFICATION as well.
-/
import Mux.Proofs.ResolveLists
namespace Mux.P15
open Mux Mux.Spec

/-- Same members. -/
def SetEq {α : Type} (a b : List α) : Prop := ∀ x, x ∈ a ↔ x ∈ b

theorem SetEq.symm {α : Type} {a b : List α} (h : SetEq a b) : SetEq b a := fun x => (h x).symm

theorem SetEq.nil_iff {α : Type} {a b : List α} (h : SetEq a b) : a = [] ↔ b = [] := by
  constructor
  · intro e; subst e
    cases b with
    | nil => rfl
    | cons x b => exact absurd ((h x).2 List.mem_cons_self) (by simp)
  · intro e; subst e
    cases a with
    | nil => rfl
    | cons x a => exact absurd ((h x).1 List.mem_cons_self) (by simp)

theorem SetEq.map {α β : Type} {a b : List α} (f : α → β) (h : SetEq a b) : SetEq (a.map f) (b.map f) := by
  intro y
  simp only [List.mem_map]
  constructor
  · rintro ⟨x, hx, rfl⟩; exact ⟨x, (h x).1 hx, rfl⟩
  · rintro ⟨x, hx, rfl⟩; exact ⟨x, (h x).2 hx, rfl⟩

theorem SetEq.filter {α : Type} {a b : List α} (p : α → Bool) (h : SetEq a b) : SetEq (a.filter p) (b.filter p) := by
  intro y
  simp only [List.mem_filter, h y]

theorem SetEq.append {α : Type} {a b c d : List α} (h1 : SetEq a b) (h2 : SetEq c d) : SetEq (a ++ c) (b ++ d) := by
  intro y
  simp only [List.mem_append, h1 y, h2 y]

/-! ## `lcp` is the greatest common prefix -/

theorem lcp2_greatest : ∀ {p a b : Bytes}, p <+: a → p <+: b → p <+: lcp2 a b
  | [], _, _, _, _ => List.nil_prefix
  | x :: p, [], _, h, _ => by simp at h
  | x :: p, _ :: _, [], _, h => by simp at h
  | x :: p, y :: a, z :: b, h1, h2 => by
    obtain ⟨rfl, h1'⟩ := List.cons_prefix_cons.1 h1
    obtain ⟨rfl, h2'⟩ := List.cons_prefix_cons.1 h2
    rw [lcp2_cons, if_pos rfl]
    exact List.cons_prefix_cons.2 ⟨rfl, lcp2_greatest h1' h2'⟩

theorem lcp_greatest : ∀ {l : List Bytes} {p : Bytes}, l ≠ [] → (∀ s ∈ l, p <+: s) → p <+: lcp l
  | [], _, h, _ => absurd rfl h
  | [x], _, _, h => h x List.mem_cons_self
  | x :: y :: l, p, _, h => by
    rw [lcp_cons_cons]
    exact lcp2_greatest (h x List.mem_cons_self)
      (lcp_greatest (by simp) (fun s hs => h s (List.mem_cons_of_mem _ hs)))

theorem prefix_antisymm' {α : Type} {a b : List α} (h1 : a <+: b) (h2 : b <+: a) : a = b := by
  obtain ⟨t, rfl⟩ := h1
  obtain ⟨u, hu⟩ := h2
  have := congrArg List.length hu
  simp only [List.length_append] at this
  have ht : t = [] := List.eq_nil_of_length_eq_zero (by omega)
  simp [ht]

theorem setEq_ite {α β : Type} {a a' : List β} {x x' y y' : List α} (h : SetEq a a') (hx : SetEq x x')
    (hy : SetEq y y') : SetEq (if a ≠ [] then x else y) (if a' ≠ [] then x' else y') := by
  by_cases e : a = []
  · have e' := h.nil_iff.1 e
    rw [if_neg (by simp [e]), if_neg (by simp [e'])]
    exact hy
  · have e' : a' ≠ [] := fun e2 => e (h.nil_iff.2 e2)
    rw [if_pos e, if_pos e']
    exact hx

theorem lcp_setEq {l l' : List Bytes} (h : SetEq l l') : lcp l = lcp l' := by
  by_cases hl : l = []
  · have hl' := h.nil_iff.1 hl
    rw [hl, hl']
  · have hl' : l' ≠ [] := fun e => hl (h.nil_iff.2 e)
    apply prefix_antisymm'
    · exact lcp_greatest hl' (fun s hs => lcp_prefix ((h s).2 hs))
    · exact lcp_greatest hl (fun s hs => lcp_prefix ((h s).1 hs))

/-! ## Groups -/

theorem mem_groups {R : List Rem} {g : RGroup} :
    g ∈ groups R ↔ ∃ k, (∃ r ∈ R, keyOf r.1 = some k) ∧ g = mkGroup R k := by
  unfold groups
  simp only [List.mem_map, mem_dedup, List.mem_filterMap]
  constructor
  · rintro ⟨k, hk, rfl⟩; exact ⟨k, hk, rfl⟩
  · rintro ⟨k, hk, rfl⟩; exact ⟨k, hk, rfl⟩

theorem mkGroup_setEq {R R' : List Rem} (h : SetEq R R') (k : Key) :
    (mkGroup R k).value = (mkGroup R' k).value ∧ SetEq (mkGroup R k).members (mkGroup R' k).members := by
  have hf : SetEq (R.filter (fun r => keyOf r.1 = some k)) (R'.filter (fun r => keyOf r.1 = some k)) := h.filter _
  have hv : (mkGroup R k).value = (mkGroup R' k).value := by
    unfold mkGroup
    simp only
    rw [lcp_setEq (hf.map _)]
  refine ⟨hv, ?_⟩
  have : (mkGroup R k).members = (R.filter (fun r => keyOf r.1 = some k)).map
      (fun r => (r.1.drop (mkGroup R k).value.length, r.2)) := rfl
  rw [this]
  have : (mkGroup R' k).members = (R'.filter (fun r => keyOf r.1 = some k)).map
      (fun r => (r.1.drop (mkGroup R' k).value.length, r.2)) := rfl
  rw [this, hv]
  exact hf.map _

/-- Every group of `R` has a twin among the groups of a list with the same members. -/
theorem groups_setEq {R R' : List Rem} (h : SetEq R R') {g : RGroup} (hg : g ∈ groups R) :
    ∃ g' ∈ groups R', g'.value = g.value ∧ SetEq g.members g'.members := by
  obtain ⟨k, ⟨r, hr, hk⟩, rfl⟩ := mem_groups.1 hg
  obtain ⟨hv, hm⟩ := mkGroup_setEq h k
  exact ⟨mkGroup R' k, mem_groups.2 ⟨k, ⟨r, (h r).1 hr, hk⟩, rfl⟩, hv.symm, hm⟩

/-! ## The resolver -/

theorem tryGroup_setEq {env : Env} {ic : Interceptors} {rec rec' : List Rem → Bytes → AMap Bytes → List (Bytes × AMap Bytes)}
    {k : Kind} {path : Bytes} {ps : AMap Bytes} {g g' : RGroup} (hv : g'.value = g.value)
    (hrec : ∀ rest ps', SetEq (rec g.members rest ps') (rec' g'.members rest ps')) :
    SetEq (tryGroup env ic rec k path ps g) (tryGroup env ic rec' k path ps g') := by
  unfold tryGroup
  rw [hv]
  cases newSegment ic g.value with
  | error e => exact fun _ => Iff.rfl
  | ok s =>
    simp only
    split
    · cases s.match env ic path with
      | yes cap rest => exact hrec rest _
      | no => exact fun _ => Iff.rfl
      | unsupported => exact fun _ => Iff.rfl
    · exact fun _ => Iff.rfl

theorem byKind_setEq {env : Env} {ic : Interceptors} {f : Nat}
    (ih : ∀ R R' : List Rem, SetEq R R' → ∀ path ps, SetEq (resolveFuel env ic f R path ps) (resolveFuel env ic f R' path ps))
    {R R' : List Rem} (h : SetEq R R') (k : Kind) (path : Bytes) (ps : AMap Bytes) :
    SetEq (byKind env ic f R k path ps) (byKind env ic f R' k path ps) := by
  have one : ∀ {A B : List Rem}, SetEq A B → ∀ o, o ∈ byKind env ic f A k path ps → o ∈ byKind env ic f B k path ps := by
    intro A B hAB o ho
    unfold byKind at ho ⊢
    obtain ⟨g, hg, hog⟩ := List.mem_flatMap.1 ho
    obtain ⟨g', hg', hv, hm⟩ := groups_setEq hAB hg
    refine List.mem_flatMap.2 ⟨g', hg', ?_⟩
    exact (tryGroup_setEq (rec := resolveFuel env ic f) (rec' := resolveFuel env ic f) hv
      (fun rest ps' => ih _ _ hm rest ps') o).1 hog
  exact fun o => ⟨one h o, one h.symm o⟩

theorem ended_setEq {R R' : List Rem} (h : SetEq R R') (path : Bytes) (ps : AMap Bytes) :
    SetEq (ended R path ps) (ended R' path ps) := by
  unfold ended
  split
  · exact (h.filter _).map _
  · exact fun _ => Iff.rfl

/-- **The resolver does not depend on how the remainders are listed.** -/
theorem resolveFuel_setEq (env : Env) (ic : Interceptors) :
    ∀ (f : Nat) (R R' : List Rem), SetEq R R' → ∀ path ps,
      SetEq (resolveFuel env ic f R path ps) (resolveFuel env ic f R' path ps)
  | 0, _, _, _, _, _ => fun _ => Iff.rfl
  | f + 1, R, R', h, path, ps => by
    have ih := resolveFuel_setEq env ic f
    have hk := fun k => byKind_setEq ih h k path ps
    have he := ended_setEq h path ps
    rw [resolveFuel_succ, resolveFuel_succ]
    exact setEq_ite (hk .str) (hk .str)
      (setEq_ite (hk .icpt) ((hk .icpt).append he)
        (setEq_ite (hk .rx) ((hk .rx).append he) ((hk .named).append he)))

/-- Fuel beyond `maxLen R` changes nothing. -/
theorem maxLen_setEq {R R' : List Rem} (h : SetEq R R') : maxLen R = maxLen R' :=
  Nat.le_antisymm (maxLen_le (fun r hr => le_maxLen ((h r).1 hr))) (maxLen_le (fun r hr => le_maxLen ((h r).2 hr)))

theorem resolveAll_setEq (env : Env) (ic : Interceptors) {rs rs' : List Bytes} (h : SetEq rs rs') (path : Bytes) :
    SetEq (resolveAll env ic rs path) (resolveAll env ic rs' path) := by
  unfold resolveAll resolveRems
  have hm : SetEq (rs.map (fun p => (p, p))) (rs'.map (fun p => (p, p))) := h.map _
  rw [maxLen_setEq hm]
  exact resolveFuel_setEq env ic _ _ _ hm path []

end Mux.P15
