/-
  Mux.Proofs.StructCons — consequences of the structural invariant `SOk`:
  `Node.PatternOk`, `IdxLit`, the decomposition of the children into literal children followed by
  the others, and `IndexOk` (Priority.lean) under `DistinctFirstBytes`.
-/
import Mux.Proofs.Structure
namespace Mux.P8
open Mux

variable {ic : Interceptors}

/-! ## PatternOk -/

theorem patternOk_of_SOk : ∀ n : Node, Node.All (SOk ic) n → Node.PatternOk n := by
  intro n
  induction n using Node.rec (motive_2 := fun cs => ∀ pp, AllL (SOk ic) cs →
      (∀ c ∈ cs, c.pattern = pp ++ c.seg.value) → PatternOkL pp cs) with
  | mk s p mi hs idx cs ih =>
    intro h
    unfold Node.PatternOk
    exact ih p h.2 (fun c hc => (h.1.child c hc).1)
  | nil => unfold PatternOkL; trivial
  | cons c cs ih1 ih2 =>
    rename_i pp h hc
    unfold PatternOkL
    exact ⟨hc c List.mem_cons_self, ih1 h.1, ih2 pp h.2 (fun x hx => hc x (List.mem_cons_of_mem _ hx))⟩

/-! ## Entries of a built index point to literal children -/

/-- The entry maps the first byte of a literal child of `full` to that child's position. -/
def EntryOk (full : List Node) (e : UInt8 × Nat) : Prop :=
  ∃ c, full[e.2]? = some c ∧ c.seg.kind = .str ∧ c.seg.value.head? = some e.1

theorem mem_idxSet {idx : List (UInt8 × Nat)} {b : UInt8} {i : Nat} {e : UInt8 × Nat} (h : e ∈ idxSet idx b i) :
    e ∈ idx ∨ e = (b, i) := by
  unfold idxSet at h
  split at h
  · rw [List.mem_map] at h
    obtain ⟨e0, he0, rfl⟩ := h
    split
    · exact .inr rfl
    · exact .inl he0
  · rw [List.mem_append] at h
    rcases h with h | h
    · exact .inl h
    · exact .inr (by simpa using h)

theorem buildIndexesLoop_entries (full : List Node) : ∀ (cs : List Node) (i : Nat) (acc idx : List (UInt8 × Nat)),
    (∀ k c, cs[k]? = some c → full[i + k]? = some c) → (∀ e ∈ acc, EntryOk full e) →
    buildIndexesLoop cs i acc = .ok idx → ∀ e ∈ idx, EntryOk full e := by
  intro cs
  induction cs with
  | nil => intro i acc idx _ hacc h; simp [buildIndexesLoop] at h; subst h; exact hacc
  | cons c cs ih =>
    intro i acc idx hfull hacc h
    have hfull' : ∀ k c', cs[k]? = some c' → full[i + 1 + k]? = some c' := by
      intro k c' hk
      have := hfull (k + 1) c' (by simpa using hk)
      rwa [show i + (k + 1) = i + 1 + k by omega] at this
    simp only [buildIndexesLoop] at h
    split at h
    · rename_i hk
      split at h
      · simp at h
      · rename_i b v hv
        refine ih (i + 1) _ idx hfull' ?_ h
        intro e he
        rcases mem_idxSet he with he | rfl
        · exact hacc e he
        · exact ⟨c, by simpa using hfull 0 c rfl, hk, by simp [hv]⟩
    · exact ih (i + 1) _ idx hfull' hacc h

theorem buildIndexes_entries {cs : List Node} {idx : List (UInt8 × Nat)} (h : buildIndexes cs = .ok idx) :
    ∀ e ∈ idx, EntryOk cs e := by
  unfold buildIndexes at h
  split at h
  · simp at h; subst h; simp
  · exact buildIndexesLoop_entries cs cs 0 [] idx (by intro k c hk; simpa using hk) (by simp) h

/-! ## IdxLit -/

theorem RankSorted.getElem_le {cs : List Node} (h : RankSorted cs) {i j : Nat} {a b : Node}
    (hij : i ≤ j) (ha : cs[i]? = some a) (hb : cs[j]? = some b) : a.seg.kind.rank ≤ b.seg.kind.rank := by
  obtain ⟨hi, rfl⟩ := List.getElem?_eq_some_iff.1 ha
  obtain ⟨hj, rfl⟩ := List.getElem?_eq_some_iff.1 hb
  rcases Nat.lt_or_eq_of_le hij with hlt | rfl
  · exact (List.pairwise_iff_getElem.1 h) i j hi hj hlt
  · exact Nat.le_refl _

/-- **I-index ⇒ `IdxLit`**: the fast path of a node satisfying `SOk` only selects literal children. -/
theorem idxLit_of_SOk {n : Node} (h : SOk ic n) : IdxLit n := by
  by_cases hne : n.indexes = []
  · exact IdxLit.of_nil hne
  apply IdxLit.of_positions
  intro i hi c hc
  have hent := buildIndexes_entries h.index
  rcases List.mem_cons.1 hi with rfl | hi
  · -- position 0: some literal child exists, and literal children come first
    obtain ⟨e, he⟩ := List.exists_mem_of_ne_nil _ hne
    obtain ⟨c', hc', hk, _⟩ := hent e he
    exact kind_str_of_rank_le (h.sorted.getElem_le (Nat.zero_le _) hc hc') hk
  · obtain ⟨e, he, rfl⟩ := List.mem_map.1 hi
    obtain ⟨c', hc', hk, _⟩ := hent e he
    rw [hc] at hc'
    cases hc'
    exact hk

theorem All_idxLit_of_SOk : ∀ n : Node, Node.All (SOk ic) n → Node.All IdxLit n :=
  (AllL_mono (fun _ h => idxLit_of_SOk h)).1

theorem AllL_idxLit_of_SOk : ∀ cs : List Node, AllL (SOk ic) cs → AllL IdxLit cs :=
  (AllL_mono (fun _ h => idxLit_of_SOk h)).2

/-! ## Literal children first -/

/-- A rank-sorted list is its literal elements followed by elements none of which is literal. -/
theorem RankSorted.split_lits {cs : List Node} (h : RankSorted cs) :
    ∃ lits others, cs = lits ++ others ∧ (∀ c ∈ lits, c.seg.kind = .str) ∧ (∀ c ∈ others, c.seg.kind ≠ .str) := by
  induction cs with
  | nil => exact ⟨[], [], rfl, by simp, by simp⟩
  | cons c cs ih =>
    unfold RankSorted at h
    rw [List.pairwise_cons] at h
    by_cases hk : c.seg.kind = .str
    · obtain ⟨lits, others, e, h1, h2⟩ := ih h.2
      refine ⟨c :: lits, others, by rw [e]; rfl, ?_, h2⟩
      intro x hx
      rcases List.mem_cons.1 hx with rfl | hx
      · exact hk
      · exact h1 x hx
    · refine ⟨[], c :: cs, rfl, by simp, ?_⟩
      intro x hx hxk
      rcases List.mem_cons.1 hx with rfl | hx
      · exact hk hxk
      · exact hk (kind_str_of_rank_le (h.1 x hx) hxk)

/-! ## The exact index under distinct first bytes -/

/-- Literal children of one node start with pairwise different bytes.  NOT a consequence of
reachability: the literal patterns `{abc` and `{abd` (no closing brace) or `}a` and `}b` become two
literal siblings, because `longestPrefix` refuses to cut next to a brace — see `C02.lean`. -/
def DistinctFirstBytes (n : Node) : Prop :=
  n.children.Pairwise (fun a b => a.seg.kind = .str → b.seg.kind = .str → a.seg.value.head? ≠ b.seg.value.head?)

/-- The index entries of a run of literal children starting at position `i`. -/
def litEntries : List Node → Nat → List (UInt8 × Nat)
  | [], _ => []
  | c :: cs, i => (c.seg.value.headD 0, i) :: litEntries cs (i + 1)

theorem buildIndexesLoop_others : ∀ (others : List Node) (i : Nat) (acc : List (UInt8 × Nat)),
    (∀ c ∈ others, c.seg.kind ≠ .str) → buildIndexesLoop others i acc = .ok acc := by
  intro others
  induction others with
  | nil => intro _ _ _; rfl
  | cons c cs ih =>
    intro i acc h
    simp only [buildIndexesLoop, h c List.mem_cons_self, if_false]
    exact ih _ _ (fun x hx => h x (List.mem_cons_of_mem _ hx))

theorem idxSet_fresh {idx : List (UInt8 × Nat)} {b : UInt8} (i : Nat) (h : b ∉ idx.map (·.1)) :
    idxSet idx b i = idx ++ [(b, i)] := by
  unfold idxSet
  rw [if_neg]
  intro hany
  rw [List.any_eq_true] at hany
  obtain ⟨e, he, hb⟩ := hany
  exact h (List.mem_map.2 ⟨e, he, by simpa using hb⟩)

theorem buildIndexesLoop_lits : ∀ (lits others : List Node) (i : Nat) (acc : List (UInt8 × Nat)),
    (∀ c ∈ lits, c.seg.kind = .str ∧ c.seg.value ≠ []) → (∀ c ∈ others, c.seg.kind ≠ .str) →
    lits.Pairwise (fun a b => a.seg.value.head? ≠ b.seg.value.head?) →
    (∀ c ∈ lits, c.seg.value.headD 0 ∉ acc.map (·.1)) →
    buildIndexesLoop (lits ++ others) i acc = .ok (acc ++ litEntries lits i) := by
  intro lits
  induction lits with
  | nil =>
    intro others i acc _ ho _ _
    simpa [litEntries] using buildIndexesLoop_others others i acc ho
  | cons c lits ih =>
    intro others i acc hl ho hp hf
    rw [List.pairwise_cons] at hp
    obtain ⟨hk, hv⟩ := hl c List.mem_cons_self
    obtain ⟨b, v, hbv⟩ : ∃ b v, c.seg.value = b :: v := by
      cases hcv : c.seg.value with
      | nil => exact absurd hcv hv
      | cons b v => exact ⟨b, v, rfl⟩
    have hfb : b ∉ acc.map (·.1) := by simpa [hbv] using hf c List.mem_cons_self
    simp only [List.cons_append, buildIndexesLoop, hk, if_true, hbv]
    rw [idxSet_fresh i hfb, ih others (i + 1) (acc ++ [(b, i)]) (fun x hx => hl x (List.mem_cons_of_mem _ hx)) ho hp.2]
    · simp [litEntries, hbv]
    · intro x hx hmem
      simp only [List.map_append, List.map_cons, List.map_nil, List.mem_append, List.mem_singleton] at hmem
      rcases hmem with hmem | hmem
      · exact hf x (List.mem_cons_of_mem _ hx) hmem
      · have hxv := (hl x (List.mem_cons_of_mem _ hx)).2
        apply hp.1 x hx
        cases hxv' : x.seg.value with
        | nil => exact absurd hxv' hxv
        | cons b' v' => rw [hxv'] at hmem; simp at hmem; simp [hbv, hmem]

theorem litEntries_length (lits : List Node) (i : Nat) : (litEntries lits i).length = lits.length := by
  induction lits generalizing i with
  | nil => rfl
  | cons c cs ih => simp [litEntries, ih]

theorem litEntries_range : ∀ (lits : List Node) (i : Nat) (b : UInt8) (j : Nat),
    idxLookup (litEntries lits i) b = some j → i ≤ j ∧ j < i + lits.length := by
  intro lits
  induction lits with
  | nil => intro i b j h; simp [litEntries, idxLookup] at h
  | cons c cs ih =>
    intro i b j h
    unfold idxLookup at h
    simp only [litEntries, List.find?_cons] at h
    split at h
    · simp only [Option.map_some, Option.some.injEq] at h
      subst h; simp
    · have := ih (i + 1) b j h
      simp only [List.length_cons]; omega

theorem litEntries_maps : ∀ (lits : List Node) (i k : Nat) (c : Node),
    lits.Pairwise (fun a b => a.seg.value.head? ≠ b.seg.value.head?) → (∀ c ∈ lits, c.seg.value ≠ []) →
    lits[k]? = some c → idxLookup (litEntries lits i) (c.seg.value.headD 0) = some (i + k) := by
  intro lits
  induction lits with
  | nil => intro i k c _ _ h; simp at h
  | cons d ds ih =>
    intro i k c hp hv h
    rw [List.pairwise_cons] at hp
    cases k with
    | zero =>
      simp only [List.getElem?_cons_zero, Option.some.injEq] at h
      subst h
      simp [idxLookup, litEntries]
    | succ k =>
      simp only [List.getElem?_cons_succ] at h
      have hcm := List.mem_of_getElem? h
      have hne : d.seg.value.headD 0 ≠ c.seg.value.headD 0 := by
        have h1 := hp.1 c hcm
        have h2 := hv d List.mem_cons_self
        have h3 := hv c (List.mem_cons_of_mem _ hcm)
        cases hd : d.seg.value with
        | nil => exact absurd hd h2
        | cons b v =>
          cases hc : c.seg.value with
          | nil => exact absurd hc h3
          | cons b' v' =>
            rw [hd, hc] at h1
            simpa using h1
      have := ih (i + 1) k c hp.2 (fun x hx => hv x (List.mem_cons_of_mem _ hx)) h
      unfold idxLookup at this ⊢
      simp only [litEntries, List.find?_cons, hne, decide_false]
      rw [this]
      congr 1; omega

/-- **I-index + I-sort + distinct first bytes ⇒ `IndexOk`**: a node with a non-empty index has
the children `lits ++ others`, and the index is exactly first byte ↦ position on `lits`. -/
theorem indexOk_of_SOk {n : Node} (h : SOk ic n) (hd : DistinctFirstBytes n) (hne : n.indexes ≠ []) :
    ∃ lits others, n.children = lits ++ others ∧ IndexOk n.indexes lits := by
  obtain ⟨lits, others, e, hl, ho⟩ := h.sorted.split_lits
  refine ⟨lits, others, e, ?_⟩
  have hvals : ∀ c ∈ lits, c.seg.value ≠ [] := fun c hc =>
    (h.child c (by rw [e]; exact List.mem_append_left _ hc)).2.1
  have hpw : lits.Pairwise (fun a b => a.seg.value.head? ≠ b.seg.value.head?) := by
    have hd' := hd
    unfold DistinctFirstBytes at hd'
    rw [e] at hd'
    have := (List.pairwise_append.1 hd').1
    rw [List.pairwise_iff_getElem] at this ⊢
    intro i j hi hj hij
    exact this i j hi hj hij (hl _ (List.getElem_mem hi)) (hl _ (List.getElem_mem hj))
  have hidx : n.indexes = litEntries lits 0 := by
    have hb := h.index
    unfold buildIndexes at hb
    split at hb
    · simp only [Except.ok.injEq] at hb; exact absurd hb.symm hne
    · rw [e, buildIndexesLoop_lits lits others 0 [] (fun c hc => ⟨hl c hc, hvals c hc⟩) ho hpw (by simp)] at hb
      simpa using hb.symm
  rw [hidx]
  refine ⟨hl, litEntries_length lits 0, ?_, ?_⟩
  · intro i c hc
    have hcv := hvals c (List.mem_of_getElem? hc)
    cases hv : c.seg.value with
    | nil => exact absurd hv hcv
    | cons b v =>
      refine ⟨b, v, rfl, ?_⟩
      have := litEntries_maps lits 0 i c hpw hvals hc
      simpa [hv] using this
  · intro b i hbi
    have := litEntries_range lits 0 b i hbi
    omega

end Mux.P8
