/-
  Mux.Proofs.Witness — C03_witness: on the tree of a well-formed history, the request built from a live
  pattern with SIMPLE parameter values is never answered 404, and the node that answers it is the
  pattern's own node, a node below it, or a node in the subtree of an EARLIER sibling (in child order =
  kind order) at the first point where the two chains diverge.
-/
import Mux.Proofs.Frame
import Mux.Proofs.HandlerSound
namespace Mux.P14
open Mux Mux.P11

/-! ## Segments: endpoint ⇔ no suffix -/

/-- For named / interceptor segments `newSegment` sets `endpoint` to "the text ends with `}`". -/
theorem newSegment_endpoint {ic : Interceptors} {v : Bytes} {s : Seg} (h : newSegment ic v = .ok s)
    (hk : s.kind = .icpt ∨ s.kind = .named) : s.endpoint = decide (lastByte v = endByte) := by
  rw [newSegment_closed] at h
  have hnamed : ∀ st en hi, (mkNamed v st en hi).endpoint = decide (lastByte v = endByte) := fun _ _ _ => rfl
  have hstr : ¬ ((({ value := v } : Seg).kind = .icpt) ∨ (({ value := v } : Seg).kind = .named)) := by simp
  split at h
  · cases h
  split at h
  · split at h
    · split at h
      · cases h
      · cases h; exact hnamed _ _ _
    · split at h
      · cases h
      split at h
      · cases h; exact hnamed _ _ _
      split at h
      · cases h; exact hnamed _ _ _
      split at h
      · cases h
      · unfold finishRuled at h
        simp only at h
        split at h
        · cases h; rfl
        · split at h
          · cases h
          · split at h
            · cases h
            · cases h
              rcases hk with hk | hk <;> cases hk
  · cases h; exact absurd hk hstr

theorem lastByte_append_cons (a : Bytes) (b : UInt8) (r : Bytes) : lastByte (a ++ b :: r) = lastByte (b :: r) := by
  unfold lastByte
  simp only [List.length_append, List.length_cons]
  rw [List.getElem?_append_right (by omega)]
  congr 2
  omega

theorem lastByte_mem {b : UInt8} {r : Bytes} : lastByte (b :: r) ∈ b :: r := by
  unfold lastByte
  have : (b :: r).length - 1 < (b :: r).length := by simp
  rw [List.getElem?_eq_getElem this]
  exact List.getElem_mem _

/-- What the invariants say about a parameter child: its text is `{inner}suffix`, `suffix` is its `Seg.suffix`,
and it is an endpoint iff the suffix is empty. -/
theorem param_seg_facts {ic : Interceptors} {v : Bytes} {s : Seg} (h : newSegment ic v = .ok s) (ht : P8.Tidy v)
    (hk : s.kind = .icpt ∨ s.kind = .named) :
    (s.endpoint = true ↔ s.suffix = []) ∧ (s.endpoint = true → lastByte v = endByte) := by
  have hns : s.kind ≠ .str := by rcases hk with hk | hk <;> rw [hk] <;> decide
  have htok : P8.TokForm v := by
    rcases ht with hn | ht
    · exact absurd ((P8.Tidy.lit_iff (.inl hn) h).2 hn) hns
    · exact ht
  obtain ⟨ia, sa, rfl, hia, hsa⟩ := htok
  have hst : indexByte startByte (startByte :: (ia ++ endByte :: sa)) = some 0 := by simp [indexByte]
  have hen : indexByte endByte (startByte :: (ia ++ endByte :: sa)) = some (ia.length + 1) := by
    have : ¬ startByte = endByte := startByte_ne_endByte
    simp only [indexByte, this, if_false]
    rw [indexByte_append, indexByte_eq_none_iff.2 hia.2]
    simp [indexByte]
  have hsuf : s.suffix = sa := by
    rw [(P9.newSegment_brace_facts h hst hen).2.1]
    simp [List.drop_append]
  have hend := newSegment_endpoint h hk
  have hlast : lastByte (startByte :: (ia ++ endByte :: sa)) = endByte ↔ sa = [] := by
    rw [show startByte :: (ia ++ endByte :: sa) = (startByte :: ia) ++ endByte :: sa from rfl, lastByte_append_cons]
    cases sa with
    | nil => simp [lastByte]
    | cons b r =>
      simp only [reduceCtorEq, iff_false]
      intro e
      have hm : lastByte (b :: r) ∈ b :: r := lastByte_mem
      have : lastByte (endByte :: b :: r) = lastByte (b :: r) := lastByte_append_cons [endByte] b r
      rw [this] at e
      rw [e] at hm
      exact hsa.2 hm
  rw [hend, hsuf]
  simp only [decide_eq_true_eq]
  exact ⟨hlast, fun h => h⟩

/-! ## Simple values -/

/-- `v` is a simple value for the segment `s`: the segment is not a regexp, `v` satisfies the segment's
constraint, and no byte of `v` occurs in the literal text that follows the parameter in the segment. -/
def SimpleVal (env : Env) (ic : Interceptors) (s : Seg) (v : Bytes) : Prop :=
  s.kind ≠ .rx ∧ s.Satisfies env ic v ∧ ∀ b ∈ v, b ∉ s.suffix

/-- A segment of the tree matches the text it contributes to the witness path, with the intended capture and
the intended rest. -/
theorem seg_match_simple {ic0 : Interceptors} (env : Env) (ic : Interceptors) {s : Seg}
    (hseg : newSegment ic0 s.value = .ok s) (ht : P8.Tidy s.value) {v R : Bytes} (hs : SimpleVal env ic s v)
    (hend : s.kind ≠ .str → s.endpoint = true → R = []) :
    ∃ cap, s.match env ic (s.inst v ++ R) = .yes cap R := by
  obtain ⟨hrx, hsat, hbytes⟩ := hs
  cases hk : s.kind with
  | rx => exact absurd hk hrx
  | str =>
    refine ⟨[], ?_⟩
    rw [Seg.match_str env ic s _ hk]
    simp [Seg.inst, hk]
  | icpt =>
    have hk' : s.kind = .icpt ∨ s.kind = .named := .inl hk
    have hacc : s.accepts env ic v = true := by simpa [Seg.Satisfies, hk] using hsat
    obtain ⟨hes, _⟩ := param_seg_facts hseg ht hk'
    cases he : s.endpoint with
    | true =>
      have hR := hend (by rw [hk]; decide) he
      subst hR
      refine ⟨v, ?_⟩
      rw [Seg.match_endpoint_eq env ic s _ hk' he]
      simp [Seg.inst, hk, he, hacc]
    | false =>
      refine ⟨v, ?_⟩
      rw [Seg.match_scan_yes_iff env ic s _ v R hk' he]
      refine ⟨by simp [Seg.inst, hk, he], hacc, ?_⟩
      intro i hi hcon
      have hne : s.suffix ≠ [] := fun e => by rw [hes.2 e] at he; cases he
      obtain ⟨b, tl, hb⟩ := List.exists_cons_of_ne_nil hne
      have hd : (s.inst v ++ R).drop i = v[i] :: (v.drop (i + 1) ++ (s.suffix ++ R)) := by
        have hinst : s.inst v = v ++ s.suffix := by simp [Seg.inst, hk, he]
        rw [hinst, List.append_assoc, List.drop_append_of_le_length (by omega), List.drop_eq_getElem_cons hi]
        rfl
      rw [hd, hb] at hcon
      obtain ⟨t, htt⟩ := hcon.1
      simp only [List.cons_append, List.cons.injEq] at htt
      exact hbytes v[i] (List.getElem_mem _) (by rw [hb, ← htt.1]; exact List.mem_cons_self)
  | named =>
    have hk' : s.kind = .icpt ∨ s.kind = .named := .inr hk
    have hacc : ∀ w, s.accepts env ic w = true := fun w => by simp [Seg.accepts, hk]
    obtain ⟨hes, _⟩ := param_seg_facts hseg ht hk'
    cases he : s.endpoint with
    | true =>
      have hR := hend (by rw [hk]; decide) he
      subst hR
      refine ⟨v, ?_⟩
      rw [Seg.match_endpoint_eq env ic s _ hk' he]
      simp [Seg.inst, hk, he, hacc]
    | false =>
      refine ⟨v, ?_⟩
      rw [Seg.match_scan_yes_iff env ic s _ v R hk' he]
      refine ⟨by simp [Seg.inst, hk, he], hacc v, ?_⟩
      intro i hi hcon
      have hne : s.suffix ≠ [] := fun e => by rw [hes.2 e] at he; cases he
      obtain ⟨b, tl, hb⟩ := List.exists_cons_of_ne_nil hne
      have hd : (s.inst v ++ R).drop i = v[i] :: (v.drop (i + 1) ++ (s.suffix ++ R)) := by
        have hinst : s.inst v = v ++ s.suffix := by simp [Seg.inst, hk, he]
        rw [hinst, List.append_assoc, List.drop_append_of_le_length (by omega), List.drop_eq_getElem_cons hi]
        rfl
      rw [hd, hb] at hcon
      obtain ⟨t, htt⟩ := hcon.1
      simp only [List.cons_append, List.cons.injEq] at htt
      exact hbytes v[i] (List.getElem_mem _) (by rw [hb, ← htt.1]; exact List.mem_cons_self)

/-! ## Who wins -/

/-- `Wins n segs x q`: `q` may answer the witness request of the chain `segs` from `n` to `x`: it is `x` or a
node below `x`, or it lies in the subtree of a sibling `d` that comes BEFORE the chain's node `c` in the child
list of some node of the chain (so `d`'s kind does not come after `c`'s kind in the order
literal < interceptor < regexp < named). -/
inductive Wins : Node → List Seg → Node → Node → Prop
  | here {x q : Node} : q ∈ x.nodes → Wins x [] x q
  | earlier {n c d x q : Node} {segs : List Seg} {i j : Nat} : n.children[i]? = some c → n.children[j]? = some d →
      j < i → d.seg.kind.rank ≤ c.seg.kind.rank → Chain c segs x → q ∈ d.nodes → Wins n (c.seg :: segs) x q
  | step {n c x q : Node} {segs : List Seg} : c ∈ n.children → Wins c segs x q → Wins n (c.seg :: segs) x q

theorem tryChild_hit_mem {env : Env} {ic : Interceptors} {d q : Node} {path : Bytes} {ps ps' : Params}
    (h : tryChild env ic d path ps = .hit q ps') : q ∈ d.nodes := by
  obtain ⟨cap, rest, _, hm⟩ := (P8.tryChild_hit_iff env ic d path ps q ps').1 h
  obtain ⟨chain, hc, _⟩ := Node.matchChildren_hit hm
  exact P8.chain_mem_nodes hc

theorem mem_nodes_of_child {x d q : Node} (hd : d ∈ x.children) (hq : q ∈ d.nodes) : q ∈ x.nodes := by
  rw [Node.nodes_eq]
  exact List.mem_cons_of_mem _ (P11.mem_nodesL.2 ⟨d, hd, hq⟩)

/-- **The witness request is not missed**, and a hit is a `Wins` node. -/
theorem witness_node {ic0 ic' : Interceptors} (env : Env) (ic : Interceptors) :
    ∀ (chain : List (Seg × Bytes)) (n x : Node), Chain n (chain.map (·.1)) x → x.handlers ≠ [] →
      Node.All (P8.SOk2 ic0) n → Node.All (Sh ic') n → (∀ sv ∈ chain, SimpleVal env ic sv.1 sv.2) →
      ∀ (ps : Params) (used : List Bytes), Node.NamesOk used n → (∀ k ∈ ps.keys, k ∈ used) →
      (∀ ps', n.matchChildren env ic (instChain chain) ps ≠ .miss ps') ∧
      (∀ q ps', n.matchChildren env ic (instChain chain) ps = .hit q ps' → Wins n (chain.map (·.1)) x q) := by
  intro chain
  induction chain with
  | nil =>
    intro n x hch hx hs2 hsh _ ps used hnames hkeys
    cases hch
    have htrack : TrackL used n.children ps := ⟨(Node.namesOk_iff used n).1 hnames, allS2L_idxLit hs2.tail, hkeys⟩
    rw [mc_scan env ic hs2 hnames hkeys]
    simp only [instChain, List.map_nil]
    cases hr : matchFrom env ic n.children 0 [] ps with
    | miss ps2 =>
      have hpos : n.handlers.length > 0 := List.length_pos_iff.2 hx
      simp only [List.isEmpty_nil, hpos, and_self, if_true]
      refine ⟨fun ps' h => (by cases h), fun q ps' h => ?_⟩
      simp only [MR.hit.injEq] at h
      rw [← h.1]
      exact .here (by rw [Node.nodes_eq]; exact List.mem_cons_self)
    | hit q1 ps1 =>
      refine ⟨fun ps' h => (by cases h), fun q ps' h => ?_⟩
      simp only [MR.hit.injEq] at h
      obtain ⟨rfl, rfl⟩ := h
      obtain ⟨i, d, hd, hhit, _⟩ := (matchFrom_first_hit htrack q1 ps1).1 hr
      exact .here (mem_nodes_of_child (List.mem_of_getElem? hd) (tryChild_hit_mem hhit))
    | fault s => exact ⟨fun ps' h => (by cases h), fun q ps' h => (by cases h)⟩
    | unsupported => exact ⟨fun ps' h => (by cases h), fun q ps' h => (by cases h)⟩
  | cons sv rest ih =>
    intro n x hch hx hs2 hsh hsimple ps used hnames hkeys
    obtain ⟨s, v⟩ := sv
    simp only [List.map_cons] at hch ⊢
    cases hch
    rename_i c hc hrest
    have hnL := (Node.namesOk_iff used n).1 hnames
    have htrack : TrackL used n.children ps := ⟨hnL, allS2L_idxLit hs2.tail, hkeys⟩
    have hcS2 : Node.All (P8.SOk2 ic0) c := AllL_mem hs2.tail hc
    have hcSh : Node.All (Sh ic') c := AllL_mem hsh.tail hc
    have hchild := hs2.head.1.child c hc
    have htidy := hs2.head.2.tidy c hc
    have hshc := hsh.head.1 c hc
    have hsv := hsimple (c.seg, v) List.mem_cons_self
    -- an endpoint parameter has no children: the chain ends here
    have hend : c.seg.kind ≠ .str → c.seg.endpoint = true → instChain rest = [] := by
      intro hk he
      have hk' : c.seg.kind = .icpt ∨ c.seg.kind = .named := by
        have := hsv.1
        cases hkk : c.seg.kind with
        | str => exact absurd hkk hk
        | rx => exact absurd hkk this
        | icpt => exact .inl rfl
        | named => exact .inr rfl
      have hlast := (param_seg_facts hchild.2.2 htidy hk').2 he
      have hcl : P11.Closed c.seg.value := (lastByte_closed hchild.2.1).1 hlast
      have hnil := hshc.2.2.2 hcl
      cases rest with
      | nil => rfl
      | cons sv' rest' =>
        obtain ⟨s', v'⟩ := sv'
        simp only [List.map_cons] at hrest
        cases hrest
        rename_i c' hc' _
        rw [hnil] at hc'; cases hc'
    obtain ⟨cap, hm⟩ := seg_match_simple (ic0 := ic0) env ic hchild.2.2 htidy hsv hend
    -- the subtree of `c` does not miss
    obtain ⟨hfresh, hok⟩ := NamesOkL_mem hnL hc
    obtain ⟨_, r2, _⟩ := record_spec (s := c.seg) cap hfresh hkeys
    obtain ⟨ihmiss, ihhit⟩ := ih c x hrest hx hcS2 hcSh (fun sv' h' => hsimple sv' (List.mem_cons_of_mem _ h'))
      (c.seg.record cap ps) _ hok r2
    have hpath : instChain ((c.seg, v) :: rest) = c.seg.inst v ++ instChain rest := rfl
    rw [hpath]
    have htry : ∀ ps', tryChild env ic c (c.seg.inst v ++ instChain rest) ps ≠ .miss ps' := by
      intro ps' h
      unfold tryChild at h
      rw [hm] at h
      simp only at h
      cases hr : c.matchChildren env ic (instChain rest) (c.seg.record cap ps) with
      | miss ps2 => exact ihmiss ps2 hr
      | hit q1 ps1 => rw [hr] at h; cases h
      | fault s => rw [hr] at h; cases h
      | unsupported => rw [hr] at h; cases h
    have hnomiss : ∀ ps', matchFrom env ic n.children 0 (c.seg.inst v ++ instChain rest) ps ≠ .miss ps' := by
      intro ps' h
      exact htry ps (((P8.matchFrom_miss_iff htrack ps').1 h).2 c hc)
    rw [mc_scan env ic hs2 hnames hkeys]
    cases hr : matchFrom env ic n.children 0 (c.seg.inst v ++ instChain rest) ps with
    | miss ps2 => exact absurd hr (hnomiss ps2)
    | fault s => exact ⟨fun ps' h => (by cases h), fun q ps' h => (by cases h)⟩
    | unsupported => exact ⟨fun ps' h => (by cases h), fun q ps' h => (by cases h)⟩
    | hit q1 ps1 =>
      refine ⟨fun ps' h => (by cases h), fun q ps' h => ?_⟩
      simp only [MR.hit.injEq] at h
      obtain ⟨rfl, rfl⟩ := h
      obtain ⟨j, d, hd, hhit, hbefore⟩ := (matchFrom_first_hit htrack q1 ps1).1 hr
      obtain ⟨i, hi⟩ := List.getElem?_of_mem hc
      have hji : j ≤ i := Nat.le_of_not_lt (fun hlt => htry ps (hbefore i hlt c hi))
      rcases Nat.lt_or_eq_of_le hji with hlt | rfl
      · exact .earlier hi hd hlt (P8.RankSorted.getElem_le hs2.head.1.sorted (Nat.le_of_lt hlt) hd hi) hrest
          (tryChild_hit_mem hhit)
      · rw [hi] at hd
        cases hd
        obtain ⟨cap', rest', hm', hsub⟩ := (P8.tryChild_hit_iff env ic c _ ps q1 ps1).1 hhit
        rw [hm] at hm'
        simp only [MatchRes.yes.injEq] at hm'
        obtain ⟨rfl, rfl⟩ := hm'
        exact .step hc (ihhit q1 ps1 hsub)

/-! ## The tree level -/

theorem root_handlers_ne {t : Tree} (h : TreeInv t) : t.root.handlers ≠ [] := by
  intro e
  have := h.rootKeys
  rw [e] at this
  cases this

/-- **C03_witness** on a tree satisfying the invariants: the witness request of a live node is answered
with a node that has handlers (never 404); for an ordinary request (not `""`, `*`, nor TRACE on a tracing tree)
that node is a `Wins` node. -/
theorem witness_tree {t : Tree} (hinv : AllInv t) (env : Env) (chain : List (Seg × Bytes)) (x : Node)
    (hch : Chain t.root (chain.map (·.1)) x) (hx : x.handlers ≠ [])
    (hs : ∀ sv ∈ chain, SimpleVal env t.ic sv.1 sv.2) (method : Bytes) (f : Found)
    (hres : t.handler env (instChain chain) [] method = .res f) :
    ∃ q, f.node = some q ∧ q.handlers ≠ [] ∧
      (instChain chain ≠ [] → instChain chain ≠ [42] → (t.trace = none ∨ method ≠ mTRACE) →
        Wins t.root (chain.map (·.1)) x q) := by
  obtain ⟨hmiss, hhit⟩ := witness_node (ic0 := t.ic) (ic' := t.ic) env t.ic chain t.root x hch hx hinv.s2.all hinv.ti.sh hs
    [] [] hinv.namesRoot (by simp [AMap.keys])
  rcases Tree.handler_cases env t (instChain chain) [] method with ⟨h, ht, hm, e⟩ | ⟨htr, e⟩
  · rw [e] at hres
    simp only [HR.res.injEq] at hres
    subst hres
    refine ⟨t.root, rfl, root_handlers_ne hinv.treeInv, fun _ _ h3 => ?_⟩
    rcases h3 with h3 | h3
    · rw [h3] at ht; cases ht
    · exact absurd hm h3
  · rw [e] at hres
    rcases handlerNoTrace_res hres with ⟨ps', hr, _⟩ | ⟨n, ps', hr, hnil, _⟩ | ⟨n, ps', hr, hne, hnode, _, _⟩
    · exfalso
      by_cases hp : instChain chain = [] ∨ instChain chain = [42]
      · rw [Tree.matchRes_of_eq hp] at hr; cases hr
      · rw [Tree.matchRes_of_ne (fun e => hp (.inl e)) (fun e => hp (.inr e))] at hr
        exact hmiss ps' hr
    · exfalso
      by_cases hp : instChain chain = [] ∨ instChain chain = [42]
      · rw [Tree.matchRes_of_eq hp] at hr
        simp only [MR.hit.injEq] at hr
        rw [← hr.1] at hnil
        exact root_handlers_ne hinv.treeInv hnil
      · rw [Tree.matchRes_of_ne (fun e => hp (.inl e)) (fun e => hp (.inr e))] at hr
        obtain ⟨_, _, _, _, hh, _⟩ := Node.matchChildren_hit hr
        exact hh hnil
    · refine ⟨n, hnode, hne, fun h1 h2 _ => ?_⟩
      rw [Tree.matchRes_of_ne h1 h2] at hr
      exact hhit n ps' hr

/-! ## From a live pattern to its chain -/

theorem mem_nodes_chain : ∀ (n x : Node), x ∈ n.nodes → ∃ segs, Chain n segs x := by
  intro n
  induction n using Node.rec (motive_2 := fun cs => ∀ x, x ∈ nodesL cs → ∃ c ∈ cs, ∃ segs, Chain c segs x) with
  | mk s p mi hs idx cs ih =>
    intro x hx
    simp only [Node.nodes, List.mem_cons] at hx
    rcases hx with rfl | hx
    · exact ⟨[], .nil _⟩
    · obtain ⟨c, hc, segs, hch⟩ := ih x hx
      exact ⟨c.seg :: segs, .cons (by simpa using hc) hch⟩
  | nil => rename_i x hx; simp [nodesL] at hx
  | cons c cs ih1 ih2 =>
    rename_i x hx
    simp only [nodesL, List.mem_append] at hx
    rcases hx with hx | hx
    · obtain ⟨segs, hch⟩ := ih1 x hx
      exact ⟨c, List.mem_cons_self, segs, hch⟩
    · obtain ⟨d, hd, segs, hch⟩ := ih2 x hx
      exact ⟨d, List.mem_cons_of_mem _ hd, segs, hch⟩

/-- A live pair of the table read off the tree is a node below the root, reached by a non-empty chain of
segments whose texts spell the pattern, with an entry for the method. -/
theorem live_chain {t : Tree} (hinv : AllInv t) {p m : Bytes} (h : (tableOf t).has p m) :
    ∃ (x : Node) (segs : List Seg), Chain t.root segs x ∧ segs ≠ [] ∧ x.pattern = p ∧
      p = (segs.map (·.value)).flatten ∧ x.handlers.contains m = true := by
  obtain ⟨ms, hmem, hm⟩ := h
  simp only [tableOf, List.mem_map] at hmem
  obtain ⟨e, he, heq⟩ := hmem
  simp only [liveL, List.mem_map, List.mem_filter] at he
  obtain ⟨x, ⟨hx, _⟩, rfl⟩ := he
  simp only [Prod.mk.injEq] at heq
  obtain ⟨rfl, rfl⟩ := heq
  have hxn : x ∈ t.root.nodes := by rw [Node.nodes_eq]; exact List.mem_cons_of_mem _ hx
  obtain ⟨segs, hch⟩ := mem_nodes_chain t.root x hxn
  have hpat := (chain_pattern hch hinv.patternOk).1
  rw [hinv.rootPat, List.nil_append] at hpat
  have hkey : m ∈ x.handlers.keys := (List.mem_filter.1 hm).1
  refine ⟨x, segs, hch, ?_, rfl, hpat, ?_⟩
  · rintro rfl
    cases hch
    -- the root is not below itself: the patterns below the root are not empty
    obtain ⟨r, hr, hp⟩ := P11.below_pattern t.ic t.root hinv.ti.sh _ hx
    rw [hinv.rootPat, List.nil_append] at hp
    exact hr hp.symm
  · simp only [AMap.contains, List.any_eq_true, decide_eq_true_eq]
    simp only [AMap.keys, List.mem_map] at hkey
    obtain ⟨e, he, rfl⟩ := hkey
    exact ⟨e, he, rfl⟩

/-! ## The explicit form of `Wins` -/

/-- `q` answers instead of (or as) `x`: the chains of `x` and `q` share the nodes up to `n`; either `n = x`
and `q` is `x` or lies below it, or below `n` the chain of `x` continues with the child `c` and `q` lies in
the subtree of a child `d` that comes before `c` in child order, `d`'s kind not after `c`'s. -/
def Diverges (root : Node) (segs : List Seg) (x q : Node) : Prop :=
  ∃ (pre post : List Seg) (n : Node), segs = pre ++ post ∧ Chain root pre n ∧ Chain n post x ∧
    ((post = [] ∧ q ∈ x.nodes) ∨
      ∃ (c d : Node) (i j : Nat) (post' : List Seg), post = c.seg :: post' ∧ n.children[i]? = some c ∧
        n.children[j]? = some d ∧ j < i ∧ d.seg.kind.rank ≤ c.seg.kind.rank ∧ Chain c post' x ∧ q ∈ d.nodes)

theorem Wins.diverges {n x q : Node} {segs : List Seg} (h : Wins n segs x q) : Diverges n segs x q := by
  induction h with
  | here hq => exact ⟨[], [], _, rfl, .nil _, .nil _, .inl ⟨rfl, hq⟩⟩
  | @earlier n c d x q segs i j hc hd hlt hrank hch hq =>
    exact ⟨[], c.seg :: segs, n, rfl, .nil _, .cons (List.mem_of_getElem? hc) hch,
      .inr ⟨c, d, i, j, segs, rfl, hc, hd, hlt, hrank, hch, hq⟩⟩
  | @step n c x q segs hc _ ih =>
    obtain ⟨pre, post, m, e, h1, h2, h3⟩ := ih
    exact ⟨c.seg :: pre, post, m, by rw [e]; rfl, .cons hc h1, h2, h3⟩

/-! ## The strong form of "simple" -/

/-- The formalisation of "simple values" of the property text: every value satisfies its segment's constraint
(no regexp segments on the pattern's own chain) and shares no byte with the literal text of ANY segment of the
tree — the text of a literal segment, the text after the `}` of a parameter segment. -/
def SimpleInTree (env : Env) (t : Tree) (chain : List (Seg × Bytes)) : Prop :=
  ∀ sv ∈ chain, sv.1.kind ≠ .rx ∧ sv.1.Satisfies env t.ic sv.2 ∧
    ∀ b ∈ sv.2, ∀ n ∈ nodesL t.root.children, b ∉ n.seg.suffix ∧ (n.seg.kind = .str → b ∉ n.seg.value)

theorem chain_seg_mem {n x : Node} {segs : List Seg} (h : Chain n segs x) :
    ∀ s ∈ segs, ∃ m ∈ nodesL n.children, m.seg = s := by
  induction h with
  | nil n => intro s hs; cases hs
  | @cons n c m segs hc _ ih =>
    intro s hs
    rcases List.mem_cons.1 hs with rfl | hs
    · exact ⟨c, P11.mem_nodesL.2 ⟨c, hc, by rw [Node.nodes_eq]; exact List.mem_cons_self⟩, rfl⟩
    · obtain ⟨m', hm', e⟩ := ih s hs
      exact ⟨m', P11.mem_nodesL.2 ⟨c, hc, by rw [Node.nodes_eq]; exact List.mem_cons_of_mem _ hm'⟩, e⟩

theorem SimpleInTree.simpleVal {env : Env} {t : Tree} {chain : List (Seg × Bytes)} {x : Node}
    (hch : Chain t.root (chain.map (·.1)) x) (h : SimpleInTree env t chain) :
    ∀ sv ∈ chain, SimpleVal env t.ic sv.1 sv.2 := by
  intro sv hsv
  obtain ⟨h1, h2, h3⟩ := h sv hsv
  obtain ⟨m, hm, e⟩ := chain_seg_mem hch sv.1 (List.mem_map_of_mem hsv)
  exact ⟨h1, h2, fun b hb => by rw [← e]; exact (h3 b hb m hm).1⟩

/-! ## Index paths and chains (for concrete instances) -/

theorem segsAtL_eq : ∀ (cs : List Node) (i : Nat) (p : List Nat),
    segsAtL cs i p = cs[i]?.bind (fun c => (c.segsAt p).map (c.seg :: ·))
  | [], _, _ => by simp [segsAtL]
  | c :: cs, 0, p => by simp [segsAtL]
  | c :: cs, i + 1, p => by simp [segsAtL, segsAtL_eq cs i p]

theorem getAtL_eq : ∀ (cs : List Node) (i : Nat) (p : List Nat), getAtL cs i p = cs[i]?.bind (fun c => c.getAt p)
  | [], _, _ => by simp [getAtL]
  | c :: cs, 0, p => by simp [getAtL]
  | c :: cs, i + 1, p => by simp [getAtL, getAtL_eq cs i p]

/-- The node at an index path is reached by the chain of the segments along the path. -/
theorem getAt_chain : ∀ (p : List Nat) (n x : Node) (segs : List Seg), n.getAt p = some x → n.segsAt p = some segs →
    Chain n segs x := by
  intro p
  induction p with
  | nil =>
    intro n x segs h1 h2
    simp only [Node.getAt_nil, Option.some.injEq] at h1
    subst h1
    cases n
    simp only [Node.segsAt, Option.some.injEq] at h2
    subst h2
    exact .nil _
  | cons i p ih =>
    intro n x segs h1 h2
    cases n with
    | mk s pt mi hs idx cs =>
      simp only [Node.getAt, Node.segsAt, getAtL_eq, segsAtL_eq] at h1 h2
      cases hc : cs[i]? with
      | none => rw [hc] at h1; simp at h1
      | some c =>
        rw [hc] at h1 h2
        simp only [Option.bind_some] at h1 h2
        cases hsg : c.segsAt p with
        | none => rw [hsg] at h2; simp at h2
        | some segs' =>
          rw [hsg] at h2
          simp only [Option.map_some, Option.some.injEq] at h2
          subst h2
          exact .cons (List.mem_of_getElem? hc) (ih c x segs' h1 hsg)

/-- **C03_witness, table form** (the statement of `C03_witness_table_partial`). -/
theorem witness_table {t : Tree} (hinv : AllInv t) (env : Env) {p m : Bytes} (h : (tableOf t).has p m) :
    ∃ (x : Node) (segs : List Seg), Chain t.root segs x ∧ segs ≠ [] ∧ x.pattern = p ∧
      p = (segs.map (·.value)).flatten ∧ x.handlers.contains m = true ∧
      ∀ vs : List Bytes, vs.length = segs.length → SimpleInTree env t (segs.zip vs) →
        (∀ s, t.handler env (instChain (segs.zip vs)) [] m ≠ .fault s) ∧
        ∀ f, t.handler env (instChain (segs.zip vs)) [] m = .res f →
          ∃ q, f.node = some q ∧ q.handlers ≠ [] ∧
            (instChain (segs.zip vs) ≠ [] → instChain (segs.zip vs) ≠ [42] → (t.trace = none ∨ m ≠ mTRACE) →
              Diverges t.root segs x q) := by
  obtain ⟨x, segs, hch, hne, hp, hflat, hm⟩ := live_chain hinv h
  refine ⟨x, segs, hch, hne, hp, hflat, hm, fun vs hlen hsimple => ?_⟩
  have hmap : (segs.zip vs).map (·.1) = segs := by
    rw [List.map_fst_zip]; omega
  have hch' : Chain t.root ((segs.zip vs).map (·.1)) x := by rw [hmap]; exact hch
  have hlive : x.handlers ≠ [] := by
    intro e; rw [e] at hm; simp [AMap.contains] at hm
  refine ⟨handler_no_fault hinv.treeInv env _ _ _, fun f hres => ?_⟩
  obtain ⟨q, h1, h2, h3⟩ := witness_tree hinv env _ x hch' hlive (hsimple.simpleVal hch') m f hres
  exact ⟨q, h1, h2, fun a b c => by have := (h3 a b c).diverges; rwa [hmap] at this⟩

end Mux.P14
