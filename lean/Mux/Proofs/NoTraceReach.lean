/-
  Mux.Proofs.NoTraceReach — a rejecting matcher leaves the path and the parameters as they were, for EVERY matcher
  expression (bare `Hosts` and `Or`s of them included), when the `Hosts` tables it refers to are such that every node
  with handlers has a `GET` entry (`P12.HostsGet`) and the index fast path selects literal children (`IdxLit`) — both
  hold after `NewHosts` and any supported history.  Helpers of `C13_no_trace_reach` (`Mux/Properties/C13history.lean`).
-/
import Mux.Proofs.HostsInv
import Mux.Proofs.RestoreMatch
import Mux.Proofs.Group
namespace Mux.P24
open Mux Mux.P12 Mux.P19

/-- A rejecting `Hosts.Match` restores exactly the incoming parameters — ANY incoming parameters with one entry per
key (no condition relating them to the names used in the table). -/
theorem Hosts.match_reject_restore (env : Env) {hs : Hosts} (hg : HostsGet hs) (hI : Node.All IdxLit hs.tree.root)
    (host path : Bytes) (ps : Params) (hnd : ps.keys.Nodup) (p : Bytes) (q : Params)
    (h : hs.match env host path ps = .reject p q) : p = path ∧ q = ps := by
  cases ha : isAscii host with
  | false => rw [Hosts.match_nonAscii env hs host path ps ha] at h; cases h
  | true =>
    obtain ⟨rfl, f, hf, hok, rfl⟩ := (Hosts.match_reject_iff env hs host path ps ha p q).1 h
    refine ⟨rfl, ?_⟩
    cases hnode : f.node with
    | none => exact (handler_404_restore hI hnd hf hnode).1
    | some n =>
      by_cases hroot : normHost host = [] ∨ normHost host = [42]
      · exact (Tree.handler_root hroot hf).1
      · obtain ⟨chain, h1, h2, _, _, _, h6, h7⟩ :=
          handler_found_restore hI hnd (fun e => hroot (.inl e)) (fun e => hroot (.inr e)) (Or.inr mGET_ne_mTRACE)
            hf hnode
        have hget : n.handlers.get? mGET = none := by
          rcases (h7.2 hok).1 with e | e
          · exact absurd e mGET_ne_mNotAllowed
          · exact e
        have := hg.chain_get h2 (by simpa using h1) h6
        rw [← AMap.get?_isSome_iff, hget] at this
        cases this

/-- The `Hosts` table entry `id` exists and is of the kind above. -/
def HostsRestoreOk (tab : Nat → Option Hosts) (id : Nat) : Prop :=
  ∃ hs, tab id = some hs ∧ HostsGet hs ∧ Node.All IdxLit hs.tree.root

mutual
theorem run_reject_reach (env : Env) (tab : Nat → Option Hosts) :
    (m : Matcher) → AllHosts (HostsRestoreOk tab) m → (req : Req) → (path : Bytes) → (ps : Params) →
      ps.keys.Nodup → (p' : Bytes) → (ps' : Params) → m.run env tab req path ps = .reject p' ps' →
      p' = path ∧ ps' = ps
  | .any, _, _, _, _, _, _, _, h => by rw [Matcher.run] at h; cases h
  | .hosts id, hm, req, path, ps, hnd, p', ps', h => by
    rw [AllHosts] at hm
    obtain ⟨hs, ht, hg, hI⟩ := hm
    rw [Matcher.run, ht] at h
    exact Hosts.match_reject_restore env hg hI _ _ _ hnd _ _ h
  | .pathVersion param vers, _, req, path, ps, _, p', ps', h =>
    run_pathVersion_reject env tab param vers req path ps p' ps' h
  | .headerVersion param key vers, _, req, path, ps, _, p', ps', h =>
    run_headerVersion_reject env tab param key vers req path ps p' ps' h
  | .and ms, _, req, path, ps, _, p', ps', h => run_and_reject env tab ms req path ps p' ps' h
  | .or ms, hm, req, path, ps, hnd, p', ps', h => by
    rw [Matcher.run] at h
    rw [AllHosts] at hm
    exact runOr_reject_reach env tab ms hm req path ps hnd p' ps' h
theorem runOr_reject_reach (env : Env) (tab : Nat → Option Hosts) :
    (ms : List Matcher) → AllHostsL (HostsRestoreOk tab) ms → (req : Req) → (path : Bytes) → (ps : Params) →
      ps.keys.Nodup → (p' : Bytes) → (ps' : Params) → runOr env tab ms req path ps = .reject p' ps' →
      p' = path ∧ ps' = ps
  | [], _, _, _, _, _, _, _, h => by rw [runOr] at h; cases h; exact ⟨rfl, rfl⟩
  | m :: ms, hm, req, path, ps, hnd, q, qs, h => by
    rw [AllHostsL] at hm
    obtain ⟨p', ps', hm1, hr⟩ := runOr_cons_reject env tab m ms req path ps q qs h
    obtain ⟨rfl, rfl⟩ := run_reject_reach env tab m hm.1 req path ps hnd p' ps' hm1
    exact runOr_reject_reach env tab ms hm.2 req p' ps' hnd q qs hr
end

end Mux.P24
