/-
  Mux.Proofs.GroupLiftParams — `C01_found_from` / `C01_404_from` for ARBITRARY incoming parameters `ps` (what a `Group`
  matcher captured), on every tree with the matcher's tree hypotheses (`NamesOkL []`, `IdxLit`):

    * exact form, when no key of `ps` is the `seg.name` of a node of the tree: `params = ps ++ captures chain`, which is
      `setAll ps (captures chain)` (the `AMap.set` fold);
    * lookup form, always: route captures win; keys that are no name of the tree keep their incoming value; any other
      key has its incoming value or none.  (Before the D30 repair it could indeed be gone: the undo of an abandoned
      branch with that name was `erase`, which does not restore the value that `set` overwrote.  The repaired undo,
      `restoreParam`, does; the exact law "hit = `setAll ps (captures chain)`, 404 = `ps`" for incoming parameters with one
      entry per key is `P19.found_exact` / `P19.notFound_exact` in `RestoreGroup.lean`.  The lookup forms of this file
      stay true and need no hypothesis on `ps`.)
-/
import Mux.Proofs.GroupLiftMorph
import Mux.Proofs.ReachAll
namespace Mux.P18
open Mux

/-- The `seg.name` of every node below the root (`""` for literal nodes). -/
def treeNames (t : Tree) : List Bytes := (nodesL t.root.children).map (·.seg.name)

/-- The names of the parameter (non-literal) nodes below the root. -/
def paramNames (t : Tree) : List Bytes :=
  ((nodesL t.root.children).filter (fun n => decide (n.seg.kind ≠ .str))).map (·.seg.name)

/-- `ps` overridden / extended by `caps` in order, with the model's `AMap.set`. -/
def setAll (ps : Params) (caps : List (Bytes × Bytes)) : Params := caps.foldl (fun a e => a.set e.1 e.2) ps

theorem setAll_nil (ps : Params) : setAll ps [] = ps := rfl
theorem setAll_cons (ps : Params) (e : Bytes × Bytes) (caps : List (Bytes × Bytes)) :
    setAll ps (e :: caps) = setAll (ps.set e.1 e.2) caps := rfl

theorem get?_setAll_other (caps : List (Bytes × Bytes)) : ∀ (ps : Params) {k : Bytes}, k ∉ caps.map (·.1) →
    (setAll ps caps).get? k = ps.get? k := by
  induction caps with
  | nil => intro ps k _; rfl
  | cons e caps ih =>
    intro ps k hk
    simp only [List.map_cons, List.mem_cons, not_or] at hk
    rw [setAll_cons, ih _ hk.2, get?_set_other _ _ hk.1]

theorem get?_setAll_mem (caps : List (Bytes × Bytes)) : ∀ (ps : Params) {k v : Bytes}, (caps.map (·.1)).Nodup →
    (k, v) ∈ caps → (setAll ps caps).get? k = some v := by
  induction caps with
  | nil => intro _ _ _ _ h; cases h
  | cons e caps ih =>
    intro ps k v hnd hmem
    simp only [List.map_cons, List.nodup_cons] at hnd
    rw [setAll_cons]
    rcases List.mem_cons.1 hmem with rfl | hmem
    · rw [get?_setAll_other caps _ hnd.1, get?_set_self]
    · exact ih _ hnd.2 hmem

/-- Fresh, pairwise distinct keys: the `set` fold appends. -/
theorem setAll_fresh (caps : List (Bytes × Bytes)) : ∀ (ps : Params), (caps.map (·.1)).Nodup →
    (∀ k ∈ caps.map (·.1), k ∉ ps.keys) → setAll ps caps = ps ++ caps := by
  induction caps with
  | nil => intro ps _ _; simp [setAll]
  | cons e caps ih =>
    intro ps hnd hfresh
    simp only [List.map_cons, List.nodup_cons] at hnd
    rw [setAll_cons, AMap.set_fresh _ (hfresh e.1 (by simp)), ih _ hnd.2]
    · simp
    · intro k hk hmem
      rw [AMap.keys_append] at hmem
      rcases List.mem_append.1 hmem with hmem | hmem
      · exact hfresh k (by simp [hk]) hmem
      · simp only [AMap.keys, List.map_cons, List.map_nil, List.mem_singleton] at hmem
        exact hnd.1 (hmem ▸ hk)

/-! ## `NamesOkL` with additional keys that are no name of the tree -/

mutual
theorem namesOk_add : (n : Node) → (used K : List Bytes) → Node.NamesOk used n →
    (∀ x ∈ nodesL n.children, x.seg.name ∉ K) → Node.NamesOk (used ++ K) n
  | .mk _ _ _ _ _ cs, used, K, h, hK => by
    unfold Node.NamesOk at h ⊢
    exact namesOkL_add cs used K h hK
theorem namesOkL_add : (cs : List Node) → (used K : List Bytes) → NamesOkL used cs →
    (∀ x ∈ nodesL cs, x.seg.name ∉ K) → NamesOkL (used ++ K) cs
  | [], _, _, _, _ => by unfold NamesOkL; trivial
  | c :: cs, used, K, h, hK => by
    unfold NamesOkL at h ⊢
    rw [P11.nodesL_cons] at hK
    refine ⟨?_, ?_, namesOkL_add cs used K h.2.2 (fun x hx => hK x (by simp [hx]))⟩
    · intro hmem
      rcases List.mem_append.1 hmem with hmem | hmem
      · exact h.1 hmem
      · exact hK c (by simp) hmem
    · have := namesOk_add c _ K h.2.1 (fun x hx => hK x (by simp [hx]))
      split
      · rename_i hc; rw [if_pos hc] at this; exact this
      · rename_i hc; rw [if_neg hc] at this; exact this
end

theorem namesOkL_of_disjoint {t : Tree} (hN : NamesOkL [] t.root.children) {ps : Params}
    (hd : ∀ k ∈ ps.keys, k ∉ treeNames t) : NamesOkL ps.keys t.root.children := by
  have := namesOkL_add t.root.children [] ps.keys hN (fun x hx hk => hd _ hk (List.mem_map_of_mem hx))
  simpa using this

theorem chain_segs_mem {n m : Node} {segs : List Seg} (h : Chain n segs m) :
    ∀ s ∈ segs, ∃ x ∈ nodesL n.children, x.seg = s := by
  induction h with
  | nil => intro s hs; cases hs
  | @cons n c m segs hc _ ih =>
    intro s hs
    rcases List.mem_cons.1 hs with rfl | hs
    · exact ⟨c, P11.mem_nodesL.2 ⟨c, hc, by rw [Node.nodes_eq]; simp⟩, rfl⟩
    · obtain ⟨x, hx, rfl⟩ := ih s hs
      refine ⟨x, ?_, rfl⟩
      rw [P11.mem_nodesL]
      exact ⟨c, hc, by rw [Node.nodes_eq]; exact List.mem_cons_of_mem _ hx⟩

theorem captures_keys_treeNames {t : Tree} {n : Node} {chain : List (Seg × Bytes)}
    (h : Chain t.root (chain.map (·.1)) n) : ∀ k ∈ (captures chain).map (·.1), k ∈ treeNames t := by
  intro k hk
  rw [captures_keys] at hk
  simp only [List.mem_map, List.mem_filter] at hk
  obtain ⟨sv, ⟨hsv, _⟩, rfl⟩ := hk
  obtain ⟨x, hx, he⟩ := chain_segs_mem h sv.1 (List.mem_map_of_mem hsv)
  exact List.mem_map.2 ⟨x, hx, by rw [he]⟩

/-! ## The answer for arbitrary incoming parameters -/

/-- The answer for `ps` and the answer for `ps` without the keys that are names of the tree agree on node, handler
and `ok`; their parameters are related by `R1` and `R2`. -/
theorem handler_vs_dropped (env : Env) (t : Tree) (path method : Bytes) (ps : Params) (f : Found)
    (h : t.handler env path ps method = .res f) :
    ∃ f0, t.handler env path (dropKeys (treeNames t) ps) method = .res f0 ∧ f.node = f0.node ∧
      f.handler = f0.handler ∧ f.ok = f0.ok ∧ R1 (treeNames t) f.params f0.params ∧ R2 ps f.params f0.params := by
  have := handler_rel env t ((R1.closed (treeNames t)).and (R2.closed ps)) path method ps (dropKeys (treeNames t) ps)
    ⟨R1_start _ _, R2_start _ _⟩
  rw [h] at this
  obtain ⟨f0, h0, a, b, c, d, e⟩ := this.res_left
  exact ⟨f0, h0, a, b, c, d, e⟩

theorem dropped_names {t : Tree} (hN : NamesOkL [] t.root.children) (ps : Params) :
    NamesOkL (dropKeys (treeNames t) ps).keys t.root.children :=
  namesOkL_of_disjoint hN (fun k hk => (dropKeys_keys _ _ k hk).1)

/-- **Found, arbitrary incoming parameters.** -/
theorem found_general (env : Env) (t : Tree) (hN : NamesOkL [] t.root.children) (hI : Node.All IdxLit t.root)
    (path method : Bytes) (ps : Params) (f : Found) (n : Node)
    (hp : path ≠ []) (hs : path ≠ [42]) (htr : t.trace = none ∨ method ≠ mTRACE)
    (h : t.handler env path ps method = .res f) (hf : f.node = some n) :
    ∃ chain : List (Seg × Bytes),
      chain ≠ [] ∧ Chain t.root (chain.map (·.1)) n ∧ path = instChain chain ∧
      (∀ sv ∈ chain, sv.1.Satisfies env t.ic sv.2) ∧ n.handlers ≠ [] ∧ HandlerAgrees n method f ∧
      ((captures chain).map (·.1)).Nodup ∧
      -- route captures win, keys foreign to the tree keep their value: there the result is the `set` fold
      (∀ k, k ∈ (captures chain).map (·.1) ∨ k ∉ treeNames t →
        f.params.get? k = (setAll ps (captures chain)).get? k) ∧
      -- every other key has the value of the `set` fold or was deleted
      (∀ k, f.params.get? k = (setAll ps (captures chain)).get? k ∨ f.params.get? k = none) ∧
      -- exact form
      ((∀ k ∈ ps.keys, k ∉ treeNames t) →
        f.params = ps ++ captures chain ∧ f.params = setAll ps (captures chain)) := by
  obtain ⟨f0, h0, e1, e2, e3, r1, r2⟩ := handler_vs_dropped env t path method ps f h
  have hf0 : f0.node = some n := by rw [← e1, hf]
  obtain ⟨chain, c1, c2, c3, c4, c5, c6, c7⟩ :=
    Tree.handler_found ⟨dropped_names hN ps, hI⟩ hp hs htr h0 hf0
  obtain ⟨hnd, _⟩ := chain_names ((Node.namesOk_iff [] t.root).2 hN) c2
  have hcapD := captures_keys_treeNames c2
  -- lookups in `f0.params`
  have hget0 : ∀ k, f0.params.get? k =
      ((dropKeys (treeNames t) ps).get? k).or (AMap.get? (captures chain) k) := by
    intro k; rw [c5, AMap.get?_append]
  have hcapGet : ∀ k v, (k, v) ∈ captures chain → f0.params.get? k = some v := by
    intro k v hkv
    rw [hget0, get?_dropKeys_mem _ _ (hcapD k (List.mem_map_of_mem (f := (·.1)) hkv))]
    simpa using AMap.get?_of_mem_nodup hnd hkv
  have hag : HandlerAgrees n method f := by
    unfold HandlerAgrees at c7 ⊢
    rw [e2, e3]; exact c7
  have hmain : ∀ k, k ∈ (captures chain).map (·.1) ∨ k ∉ treeNames t →
      f.params.get? k = (setAll ps (captures chain)).get? k := by
    intro k hk
    rcases hk with hk | hk
    · obtain ⟨⟨k', v⟩, hkv, rfl⟩ := List.mem_map.1 hk
      have h0v := hcapGet k' v hkv
      rw [r1 k' (.inr (by rw [h0v]; rfl)), h0v, get?_setAll_mem _ _ hnd hkv]
    · have hnc : k ∉ (captures chain).map (·.1) := fun hc => hk (hcapD k hc)
      rw [r1 k (.inl hk), hget0, get?_dropKeys _ _ hk, get?_setAll_other _ _ hnc]
      have : AMap.get? (captures chain) k = none := (AMap.get?_eq_none_iff _ _).2 hnc
      rw [this]; simp
  refine ⟨chain, c1, c2, c3, c4, c6, hag, hnd, hmain, ?_, ?_⟩
  · intro k
    by_cases hk : k ∈ (captures chain).map (·.1) ∨ k ∉ treeNames t
    · exact .inl (hmain k hk)
    · simp only [not_or, Decidable.not_not] at hk
      have hset : (setAll ps (captures chain)).get? k = ps.get? k := get?_setAll_other _ _ hk.1
      have h0none : f0.params.get? k = none := by
        rw [hget0, get?_dropKeys_mem _ _ hk.2, (AMap.get?_eq_none_iff _ _).2 hk.1]; rfl
      rcases r2 k with h' | h' | h'
      · exact .inl (by rw [hset, h'])
      · exact .inr h'
      · exact .inr (by rw [h', h0none])
  · intro hd
    have hfound := Tree.handler_found ⟨namesOkL_of_disjoint hN hd, hI⟩ hp hs htr h hf
    rw [dropKeys_eq_self _ _ hd] at h0
    rw [h] at h0
    cases h0
    refine ⟨c5.trans (by rw [dropKeys_eq_self _ _ hd]), ?_⟩
    rw [c5, dropKeys_eq_self _ _ hd, setAll_fresh _ _ hnd]
    intro k hk hmem
    exact hd k hmem (hcapD k hk)

/-- **404, arbitrary incoming parameters.** -/
theorem notFound_general (env : Env) (t : Tree) (hN : NamesOkL [] t.root.children) (hI : Node.All IdxLit t.root)
    (path method : Bytes) (ps : Params) (f : Found)
    (h : t.handler env path ps method = .res f) (hf : f.node = none) :
    f.handler = t.notFound ∧ f.ok = false ∧
      (∀ k, k ∉ treeNames t → f.params.get? k = ps.get? k) ∧
      (∀ k, f.params.get? k = ps.get? k ∨ f.params.get? k = none) ∧
      ((∀ k ∈ ps.keys, k ∉ treeNames t) → f.params = ps) := by
  obtain ⟨f0, h0, e1, e2, e3, r1, r2⟩ := handler_vs_dropped env t path method ps f h
  have hf0 : f0.node = none := by rw [← e1, hf]
  obtain ⟨c1, c2, c3⟩ := Tree.handler_404 ⟨dropped_names hN ps, hI⟩ h0 hf0
  refine ⟨e2.trans c2, e3.trans c3, ?_, ?_, ?_⟩
  · intro k hk
    rw [r1 k (.inl hk), c1, get?_dropKeys _ _ hk]
  · intro k
    by_cases hk : k ∈ treeNames t
    · rcases r2 k with h' | h' | h'
      · exact .inl h'
      · exact .inr h'
      · exact .inr (by rw [h', c1, get?_dropKeys_mem _ _ hk])
    · exact .inl (by rw [r1 k (.inl hk), c1, get?_dropKeys _ _ hk])
  · intro hd
    exact (Tree.handler_404 ⟨namesOkL_of_disjoint hN hd, hI⟩ h hf).1

/-! ## Reachable trees: literal nodes have the name `""` -/

theorem treeNames_reach {t : Tree} (hr : P14.ReachAll t) {k : Bytes} (hk : k ∈ treeNames t) :
    k = [] ∨ k ∈ paramNames t := by
  obtain ⟨x, hx, rfl⟩ := List.mem_map.1 hk
  have hseg := ((All_iff_nodes _).2 _).1 (P9.reach_segOk hr.reachWf) x hx
  by_cases hstr : x.seg.kind = .str
  · exact .inl ((P9.newSegment_nameWf hseg.seg).1 hstr)
  · exact .inr (List.mem_map.2 ⟨x, List.mem_filter.2 ⟨hx, by simpa using hstr⟩, rfl⟩)

theorem disjoint_reach {t : Tree} (hr : P14.ReachAll t) {ps : Params} (h0 : [] ∉ ps.keys)
    (hp : ∀ k ∈ ps.keys, k ∉ paramNames t) : ∀ k ∈ ps.keys, k ∉ treeNames t := by
  intro k hk hmem
  rcases treeNames_reach hr hmem with rfl | h
  · exact h0 hk
  · exact hp k hk h

end Mux.P18
