/-
  Mux.Proofs.GroupHistory — an invariant of group histories (`P10.gstep`: `Group.Add/Use/Remove` and operations on
  the member routers through their own handles), generic in a predicate `M` on the matchers that are added and a
  predicate `R` on routers that every router operation preserves:

    member ids are pairwise distinct; every member's matcher satisfies `M` and its router IS in the table;
    every router of the table satisfies `R`.

  Instances: `R := Router.Reach` (C05: `GroupOk` for every reachable group state), `R := (·.recover = true)` (C16).
-/
import Mux.Proofs.OnionGroup
namespace Mux.P25
open Mux Mux.P10

structure GInv (M : Matcher → Prop) (R : Router → Prop) (s : GState) : Prop where
  nodup : (Group.ids s.1).Nodup
  members : ∀ e ∈ s.1.routers, M e.2 ∧ ∃ r, s.2.get? e.1 = some r
  table : ∀ rid r, s.2.get? rid = some r → R r

variable {M : Matcher → Prop} {R : Router → Prop}

theorem run_closed (hR : ∀ r op, R r → R (r.step op)) (r : Router) (h : R r) (ops : List ROp) : R (r.run ops) := by
  unfold Router.run
  induction ops generalizing r with
  | nil => exact h
  | cons op ops ih => exact ih _ (hR r op h)

theorem get?_mem {rt : RTab} {id : Nat} {r : Router} (h : rt.get? id = some r) : (id, r) ∈ rt := by
  unfold RTab.get? at h
  rw [Option.map_eq_some_iff] at h
  obtain ⟨e, he, rfl⟩ := h
  have h1 := List.find?_some he
  have h2 := List.mem_of_find?_eq_some he
  simp only [decide_eq_true_eq] at h1
  subst h1
  exact h2

/-- A group whose member list is empty, over a table all of whose routers satisfy `R`. -/
theorem GInv.init (g : Group) (hg : g.routers = []) (rt : RTab) (h0 : ∀ e ∈ rt, R e.2) : GInv M R (g, rt) :=
  ⟨by simp [Group.ids, hg], by simp [hg], fun _ _ h => h0 _ (get?_mem h)⟩

/-- Where a member after a step comes from. -/
theorem members_step (s : GState) (op : GOp) (e : Nat × Matcher) (he : e ∈ (gstep s op).1.routers) :
    e ∈ s.1.routers ∨ ∃ mt rid, op = .add mt rid ∧ e = (rid, mt) ∧ ∃ r, s.2.get? rid = some r := by
  cases op with
  | add mt rid =>
    simp only [gstep] at he
    cases ha : s.1.add s.2 mt rid with
    | none => rw [ha] at he; exact .inl he
    | some res =>
      obtain ⟨g', rt'⟩ := res
      obtain ⟨r, hr, _, rfl, rfl⟩ := Group.add_some_inv s.1 s.2 mt rid g' rt' ha
      rw [ha] at he
      simp only [Option.getD_some, List.mem_append, List.mem_singleton] at he
      rcases he with he | he
      · exact .inl he
      · exact .inr ⟨mt, rid, rfl, he, r, hr⟩
  | use m => exact .inl he
  | remove name =>
    simp only [gstep, Group.remove, List.mem_filter] at he
    exact .inl he.1
  | router rid op =>
    simp only [gstep] at he
    cases hr : s.2.get? rid with
    | none => rw [hr] at he; exact .inl he
    | some r => rw [hr] at he; exact .inl he

theorem GInv.step (hR : ∀ r op, R r → R (r.step op)) {s : GState} (h : GInv M R s) (op : GOp)
    (hop : ∀ mt rid, op = .add mt rid → M mt) : GInv M R (gstep s op) := by
  have hget := gstep_get s h.nodup op
  refine ⟨ids_step h.nodup op, ?_, ?_⟩
  · intro e he
    have hsome : ∀ id r, s.2.get? id = some r → ∃ r', (gstep s op).2.get? id = some r' := by
      intro id r hr
      rw [hget id, hr]; exact ⟨_, rfl⟩
    rcases members_step s op e he with he | ⟨mt, rid, rfl, rfl, r, hr⟩
    · obtain ⟨h1, r, hr⟩ := h.members e he
      exact ⟨h1, hsome _ r hr⟩
    · exact ⟨hop mt rid rfl, hsome _ r hr⟩
  · intro rid r' hr'
    rw [hget rid] at hr'
    rw [Option.map_eq_some_iff] at hr'
    obtain ⟨r, hr, rfl⟩ := hr'
    exact run_closed hR r (h.table rid r hr) _

theorem GInv.run (hR : ∀ r op, R r → R (r.step op)) (prog : List GOp) : ∀ {s : GState}, GInv M R s →
    (∀ mt rid, GOp.add mt rid ∈ prog → M mt) → GInv M R (grun s prog) := by
  induction prog with
  | nil => intro s h _; exact h
  | cons op rest ih =>
    intro s h hm
    simp only [grun, List.foldl_cons]
    refine ih (h.step hR op ?_) (fun mt rid hmem => hm mt rid (List.mem_cons_of_mem _ hmem))
    intro mt rid hop
    exact hm mt rid (by rw [hop]; exact List.mem_cons_self)

/-- `Router.Reach` is closed under router operations. -/
theorem reach_step (r : Router) (op : ROp) (h : r.Reach) : (r.step op).Reach := by
  obtain ⟨cfg, r0, ops, hnew, rfl⟩ := h
  exact ⟨cfg, r0, ops ++ [op], hnew, by simp [Router.run, List.foldl_append]⟩

/-- The group's own options are never changed by a group history. -/
theorem gstep_group_fixed (s : GState) (op : GOp) :
    (gstep s op).1.recover = s.1.recover ∧ (gstep s op).1.recActs = s.1.recActs := by
  cases op with
  | add mt rid =>
    simp only [gstep]
    cases ha : s.1.add s.2 mt rid with
    | none => exact ⟨rfl, rfl⟩
    | some res =>
      obtain ⟨g', rt'⟩ := res
      obtain ⟨r, _, _, rfl, _⟩ := Group.add_some_inv s.1 s.2 mt rid g' rt' ha
      exact ⟨rfl, rfl⟩
  | use m => exact ⟨rfl, rfl⟩
  | remove name => exact ⟨rfl, rfl⟩
  | router rid op =>
    simp only [gstep]
    cases s.2.get? rid <;> exact ⟨rfl, rfl⟩

theorem grun_group_fixed (prog : List GOp) : ∀ s : GState,
    (grun s prog).1.recover = s.1.recover ∧ (grun s prog).1.recActs = s.1.recActs := by
  induction prog with
  | nil => intro s; exact ⟨rfl, rfl⟩
  | cons op rest ih =>
    intro s
    simp only [grun, List.foldl_cons]
    have h1 := ih (gstep s op)
    have h2 := gstep_group_fixed s op
    simp only [grun] at h1
    exact ⟨h1.1.trans h2.1, h1.2.trans h2.2⟩

/-- `Group.Use` wraps the group's not-found handler in middlewares; its base is never changed by a group history. -/
theorem gstep_notFound_base (s : GState) (op : GOp) : (gstep s op).1.notFound.base = s.1.notFound.base := by
  cases op with
  | add mt rid =>
    simp only [gstep]
    cases ha : s.1.add s.2 mt rid with
    | none => rfl
    | some res =>
      obtain ⟨g', rt'⟩ := res
      obtain ⟨r, _, _, rfl, _⟩ := Group.add_some_inv s.1 s.2 mt rid g' rt' ha
      rfl
  | use m => rfl
  | remove name => rfl
  | router rid op =>
    simp only [gstep]
    cases s.2.get? rid <;> rfl

theorem grun_notFound_base (prog : List GOp) : ∀ s : GState, (grun s prog).1.notFound.base = s.1.notFound.base := by
  induction prog with
  | nil => intro s; rfl
  | cons op rest ih =>
    intro s
    simp only [grun, List.foldl_cons]
    have h1 := ih (gstep s op)
    simp only [grun] at h1
    exact h1.trans (gstep_notFound_base s op)

end Mux.P25
