/-
  Mux.Proofs.ServedNode — the node of a served request is a node of the tree BELOW the root (for a path other
  than "" and "*") that has handlers, and the handler called is that node's entry for the method.
  Helpers of `Mux/Properties/C12router.lean`.
-/
import Mux.Proofs.TreeServe
namespace Mux.P24
open Mux

/-- For a non-empty path the loop of `matchChildren` does not look at the handlers of the node it starts from. -/
theorem matchChildren_handlers_irrel (env : Env) (ic : Interceptors) (seg pat mi hs hs' idx cs) (path : Bytes)
    (ps : Params) (hp : path ≠ []) :
    Node.matchChildren env ic (.mk seg pat mi hs idx cs) path ps =
      Node.matchChildren env ic (.mk seg pat mi hs' idx cs) path ps := by
  rw [matchChildren_eq, matchChildren_eq]
  have : path.isEmpty = false := by cases path <;> simp_all
  simp [this]

/-- A hit for a path other than "" and "*" that has handlers lies strictly below the root. -/
theorem matched_below {t : Tree} (hinv : TreeInv t) (env : Env) (path : Bytes) (ps : Params) (n : Node) (ps' : Params)
    (h1 : path ≠ []) (h2 : path ≠ [42]) (hm : t.matched env path ps = .hit n ps') (hne : n.handlers ≠ []) :
    n ∈ nodesL t.root.children := by
  unfold Tree.matched at hm
  rw [if_neg (by simp [h1, h2])] at hm
  have hidx := hinv.allIdx
  generalize t.root = root at hm hidx
  obtain ⟨seg, pat, mi, hs, idx, cs⟩ := root
  rw [matchChildren_handlers_irrel env t.ic seg pat mi hs [] idx cs path ps h1] at hm
  let root2 : Node := .mk seg pat mi [] idx cs
  have hall : Node.All (fun m => IdxOk m ∧ (m ∈ nodesL cs ∨ m = root2)) root2 := by
    rw [Node.All_iff]
    refine ⟨⟨((Node.All_iff _ _).1 hidx).1, .inr rfl⟩, ?_⟩
    rw [(All_iff_nodes _).2]
    intro m hmem
    exact ⟨((All_iff_nodes _).2 _).1 ((Node.All_iff _ _).1 hidx).2 m hmem, .inl hmem⟩
  have := match_ok env t.ic (fun m => m ∈ nodesL cs ∨ m = root2) root2 hall path ps
  rw [hm] at this
  rcases this with h | h
  · exact h
  · rw [h] at hne; exact absurd rfl hne

/-- **The node of a served request.**  On a tree satisfying the invariant, a request for a path other than "" and "*"
and a method other than TRACE that is served (`ok = true`) names a node strictly below the root that has handlers,
and the handler is that node's entry for the method. -/
theorem served_node {t : Tree} (hinv : TreeInv t) {env : Env} {path : Bytes} {ps : Params} {method : Bytes}
    {f : Found} {n : Node} (h : t.handler env path ps method = .res f) (hok : f.ok = true) (hn : f.node = some n)
    (h1 : path ≠ []) (h2 : path ≠ [42]) (hmt : method ≠ mTRACE) :
    n ∈ nodesL t.root.children ∧ n.handlers ≠ [] ∧ n.handlers.get? method = some f.handler := by
  have hnt : Tree.handler.Tree.handlerNoTrace env t path ps method = .res f := by
    unfold Tree.handler at h
    split at h
    · rw [if_neg hmt] at h; exact h
    · exact h
  rcases handlerNoTrace_spec hinv env path ps method with ⟨f', hf', hspec, hmat⟩ | hu
  · rw [hnt] at hf'
    cases hf'
    rcases hmat with ⟨ps', _, hnone⟩ | ⟨n', ps', hm, hnode⟩
    · rw [hn] at hnone; cases hnone
    · by_cases hsz : n'.size = 0
      · rw [if_pos hsz, hn] at hnode; cases hnode
      · rw [if_neg hsz, hn] at hnode
        cases hnode
        have hne : n.handlers ≠ [] := by intro h0; apply hsz; simp [Node.size, h0]
        refine ⟨matched_below hinv env path ps n ps' h1 h2 hm hne, hne, ?_⟩
        cases hspec with
        | notFound a _ _ => rw [hn] at a; cases a
        | trace _ _ hm' _ _ _ => exact absurd hm' hmt
        | found m a _ _ _ e _ => rw [hn] at a; cases a; exact e
        | notAllowed m _ _ _ _ _ e => rw [hok] at e; cases e
  · rw [hnt] at hu; cases hu

/-- The paths "" and "*" are answered from the root node. -/
theorem served_root {t : Tree} (hinv : TreeInv t) {env : Env} {path : Bytes} {ps : Params} {method : Bytes}
    {f : Found} {n : Node} (h : t.handler env path ps method = .res f) (hn : f.node = some n)
    (h1 : path = [] ∨ path = [42]) (hmt : method ≠ mTRACE) : n = t.root := by
  have hnt : Tree.handler.Tree.handlerNoTrace env t path ps method = .res f := by
    unfold Tree.handler at h
    split at h
    · rw [if_neg hmt] at h; exact h
    · exact h
  rcases handlerNoTrace_spec hinv env path ps method with ⟨f', hf', _, hmat⟩ | hu
  · rw [hnt] at hf'
    cases hf'
    rcases hmat with ⟨ps', _, hnone⟩ | ⟨n', ps', hm, hnode⟩
    · rw [hn] at hnone; cases hnone
    · unfold Tree.matched at hm
      rw [if_pos (by rcases h1 with h1 | h1 <;> simp [h1])] at hm
      cases hm
      by_cases hsz : t.root.size = 0
      · rw [if_pos hsz, hn] at hnode; cases hnode
      · rw [if_neg hsz, hn] at hnode; cases hnode; rfl
  · rw [hnt] at hu; cases hu

end Mux.P24
