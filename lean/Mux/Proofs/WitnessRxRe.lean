/-
  Mux.Proofs.WitnessRxRe — the leftmost-first matcher and a byte the expression cannot consume.

  `Re.avoids r b`: no class of `r` contains the byte `b` (syntactic, decidable).  Then a run of `r.m` on an input
  `s ++ b :: T` with `b ∉ s` only ever calls its continuation on remainders `s2 ++ b :: T` with `s2` a suffix of
  `s`: what follows the first `b` is never looked at.  Hence the anchored match of `(rule)suffix` on
  `v ++ suffix ++ R` is the one on `v ++ suffix`, whatever `R` is, when `rule` avoids the first byte of `suffix`
  (`rxMatch_extend`).  This is the converse of `P13.rxMatch_stable` under an explicit hypothesis; without a
  hypothesis the converse is false (`rxMatch_extend_false`).
-/
import Mux.Proofs.Regex
import Mux.Proofs.RxStable
namespace Mux.P17
open Mux

/-- No class of the expression contains `b`. -/
def Re.avoids : Re → UInt8 → Bool
  | .eps, _ => true
  | .cls c, b => !c.has b
  | .seq x y, b => Re.avoids x b && Re.avoids y b
  | .alt x y, b => Re.avoids x b && Re.avoids y b
  | .star c, b => !c.has b
  | .plus c, b => !c.has b
  | .opt r, b => Re.avoids r b

/-- A string in the language of an expression that avoids `b` does not contain `b`. -/
theorem denotes_avoids {r : Re} {s : Bytes} (h : Re.Denotes r s) {b : UInt8} (ha : Re.avoids r b = true) : b ∉ s := by
  induction h with
  | eps => simp
  | @cls c x hx =>
    simp only [Re.avoids, Bool.not_eq_true'] at ha
    simp only [List.mem_singleton]
    rintro rfl
    rw [ha] at hx; cases hx
  | seq _ _ ih1 ih2 =>
    simp only [Re.avoids, Bool.and_eq_true] at ha
    simp only [List.mem_append, not_or]
    exact ⟨ih1 ha.1, ih2 ha.2⟩
  | altL _ ih =>
    simp only [Re.avoids, Bool.and_eq_true] at ha
    exact ih ha.1
  | altR _ ih =>
    simp only [Re.avoids, Bool.and_eq_true] at ha
    exact ih ha.2
  | starNil => simp
  | @starCons c x s hx _ ih =>
    have ha' := ha
    simp only [Re.avoids, Bool.not_eq_true'] at ha
    simp only [List.mem_cons, not_or]
    refine ⟨?_, ih ha'⟩
    rintro rfl
    rw [ha] at hx; cases hx
  | @plus c x s hx _ ih =>
    have ha' : Re.avoids (.star c) b = true := ha
    simp only [Re.avoids, Bool.not_eq_true'] at ha
    simp only [List.mem_cons, not_or]
    refine ⟨?_, ih ha'⟩
    rintro rfl
    rw [ha] at hx; cases hx
  | optNone => simp
  | optSome _ ih => exact ih ha

section
variable {α β : Type} (Q : α → β → Prop)

/-- Two answers agree: both fail, or both succeed with related values. -/
def ORel : Option α → Option β → Prop
  | none, none => True
  | some x, some y => Q x y
  | _, _ => False

/-- `match a with | some x => some x | none => b`. -/
def oe {γ : Type} (a b : Option γ) : Option γ :=
  match a with
  | some x => some x
  | none => b

theorem ORel.orElse {a b : Option α} {a' b' : Option β} (h1 : ORel Q a a') (h2 : ORel Q b b') :
    ORel Q (oe a b) (oe a' b') := by
  cases a with
  | none =>
    cases a' with
    | none => exact h2
    | some y => exact h1.elim
  | some x =>
    cases a' with
    | none => exact h1.elim
    | some y => exact h1

variable (b : UInt8) (T1 T2 : Bytes)

/-- The two continuations agree on every remainder that still contains the separating `b`. -/
def KRel (k1 : Bytes → Option α) (k2 : Bytes → Option β) : Prop :=
  ∀ s2, b ∉ s2 → ORel Q (k1 (s2 ++ b :: T1)) (k2 (s2 ++ b :: T2))

theorem starM_avoid (c : Cls) (hc : c.has b = false) (k1 : Bytes → Option α) (k2 : Bytes → Option β)
    (hk : KRel Q b T1 T2 k1 k2) : ∀ s, b ∉ s → ORel Q (starM c (s ++ b :: T1) k1) (starM c (s ++ b :: T2) k2) := by
  intro s
  induction s with
  | nil =>
    intro _
    simp only [List.nil_append, starM, hc, Bool.false_eq_true, if_false]
    exact hk [] (by simp)
  | cons a s ih =>
    intro hs
    simp only [List.mem_cons, not_or] at hs
    simp only [List.cons_append, starM]
    have hk' := hk (a :: s) (by simp only [List.mem_cons, not_or]; exact hs)
    simp only [List.cons_append] at hk'
    by_cases ha : c.has a = true
    · simp only [ha, if_true]
      exact ORel.orElse Q (ih hs.2) hk'
    · simp only [ha, if_false, Bool.false_eq_true]
      exact hk'

/-- **What follows the first avoided byte is never looked at.** -/
theorem Re.m_avoid (r : Re) (hr : Re.avoids r b = true) : ∀ (k1 : Bytes → Option α) (k2 : Bytes → Option β),
    KRel Q b T1 T2 k1 k2 → ∀ s, b ∉ s → ORel Q (r.m (s ++ b :: T1) k1) (r.m (s ++ b :: T2) k2) := by
  induction r with
  | eps => intro k1 k2 hk s hs; exact hk s hs
  | cls c =>
    intro k1 k2 hk s hs
    simp only [Re.avoids, Bool.not_eq_true'] at hr
    cases s with
    | nil => simp [Re.m, hr, ORel]
    | cons a s =>
      simp only [List.mem_cons, not_or] at hs
      simp only [List.cons_append, Re.m]
      by_cases ha : c.has a = true
      · simp only [ha, if_true]; exact hk s hs.2
      · simp [ha, ORel]
  | seq x y ihx ihy =>
    intro k1 k2 hk s hs
    simp only [Re.avoids, Bool.and_eq_true] at hr
    simp only [Re.m]
    exact ihx hr.1 _ _ (fun s2 hs2 => ihy hr.2 k1 k2 hk s2 hs2) s hs
  | alt x y ihx ihy =>
    intro k1 k2 hk s hs
    simp only [Re.avoids, Bool.and_eq_true] at hr
    simp only [Re.m]
    exact ORel.orElse Q (ihx hr.1 k1 k2 hk s hs) (ihy hr.2 k1 k2 hk s hs)
  | star c =>
    intro k1 k2 hk s hs
    simp only [Re.avoids, Bool.not_eq_true'] at hr
    exact starM_avoid Q b T1 T2 c hr k1 k2 hk s hs
  | plus c =>
    intro k1 k2 hk s hs
    simp only [Re.avoids, Bool.not_eq_true'] at hr
    cases s with
    | nil => simp [Re.m, hr, ORel]
    | cons a s =>
      simp only [List.mem_cons, not_or] at hs
      simp only [List.cons_append, Re.m]
      by_cases ha : c.has a = true
      · simp only [ha, if_true]; exact starM_avoid Q b T1 T2 c hr k1 k2 hk s hs.2
      · simp [ha, ORel]
  | opt r ih =>
    intro k1 k2 hk s hs
    simp only [Re.m]
    exact ORel.orElse Q (ih hr k1 k2 hk s hs) (hk s hs)
end

/-- The continuation of `rxMatch` on the short and on the long input. -/
theorem rxMatch_krel (v suf R : Bytes) (b : UInt8) :
    KRel (fun x y : Bytes × Bytes => x = (v, []) ∧ y = (v, R)) b suf (suf ++ R)
      (fun r1 => if (b :: suf).isPrefixOf r1 then
        some ((v ++ b :: suf).take ((v ++ b :: suf).length - r1.length), r1.drop (b :: suf).length) else none)
      (fun r1 => if (b :: suf).isPrefixOf r1 then
        some ((v ++ b :: (suf ++ R)).take ((v ++ b :: (suf ++ R)).length - r1.length), r1.drop (b :: suf).length)
        else none) := by
  intro s2 hs2
  cases s2 with
  | nil =>
    have h1 : (b :: suf).isPrefixOf ([] ++ b :: suf) = true := by simp
    have h2 : (b :: suf).isPrefixOf ([] ++ b :: (suf ++ R)) = true := by
      rw [List.isPrefixOf_iff_prefix]; exact ⟨R, by simp⟩
    simp only [h1, h2, if_true, ORel]
    refine ⟨?_, ?_⟩
    · simp
    · simp only [List.nil_append, List.length_append, List.length_cons, Prod.mk.injEq]
      refine ⟨?_, ?_⟩
      · rw [show v.length + (suf.length + R.length + 1) - (suf.length + R.length + 1) = v.length by omega]
        simp
      · simp
  | cons a s2 =>
    simp only [List.mem_cons, not_or] at hs2
    have hne : ¬ b = a := hs2.1
    have h1 : (b :: suf).isPrefixOf (a :: (s2 ++ b :: suf)) = false := by simp [List.isPrefixOf, hne]
    have h2 : (b :: suf).isPrefixOf (a :: (s2 ++ b :: (suf ++ R))) = false := by simp [List.isPrefixOf, hne]
    simp only [List.cons_append, h1, h2, Bool.false_eq_true, if_false, ORel]

/-- **`Valid` ⇒ dispatch, when the rule avoids the first byte of the suffix.**  If the rule `re` cannot consume the
first byte `b` of the literal text after the parameter, then for every value `v` in the language of `re` and every
continuation `R` of the path, the anchored leftmost-first match of `(re)suffix` on `v ++ suffix ++ R` captures exactly
`v` and leaves exactly `R`. -/
theorem rxMatch_extend (re : Re) (b : UInt8) (suf v R : Bytes) (ha : Re.avoids re b = true)
    (hd : Re.Denotes re v) : rxMatch re (b :: suf) (v ++ (b :: suf) ++ R) = some (v, R) := by
  have hv : b ∉ v := denotes_avoids hd ha
  have key := Re.m_avoid (fun x y : Bytes × Bytes => x = (v, []) ∧ y = (v, R)) b suf (suf ++ R) re ha _ _
    (rxMatch_krel v suf R b) v hv
  have hshort := rxMatch_complete re (b :: suf) v [] hd
  simp only [List.append_nil] at hshort
  unfold rxMatch at hshort ⊢
  have e : v ++ (b :: suf) ++ R = v ++ b :: (suf ++ R) := by simp
  rw [e]
  cases h1 : re.m (v ++ b :: suf) (fun r1 => if (b :: suf).isPrefixOf r1 then
      some ((v ++ b :: suf).take ((v ++ b :: suf).length - r1.length), r1.drop (b :: suf).length) else none) with
  | none => rw [h1] at hshort; cases hshort
  | some x =>
    rw [h1] at key
    cases h2 : re.m (v ++ b :: (suf ++ R)) (fun r1 => if (b :: suf).isPrefixOf r1 then
        some ((v ++ b :: (suf ++ R)).take ((v ++ b :: (suf ++ R)).length - r1.length), r1.drop (b :: suf).length)
        else none) with
    | none => rw [h2] at key; exact key.elim
    | some y =>
      rw [h2] at key
      simp only [ORel] at key
      rw [key.2]

/-- Without a hypothesis the converse of `rxMatch_stable` fails: `(a/xb|a)` followed by `/x`.  On `a/x` the capture
is `a`; on `a/xb/x` it is `a/xb`, not `a` with the rest `b/x`. -/
theorem rxMatch_extend_false :
    let a : Re := .cls ⟨false, [(97, 97)]⟩
    let sl : Re := .cls ⟨false, [(47, 47)]⟩
    let x : Re := .cls ⟨false, [(120, 120)]⟩
    let bb : Re := .cls ⟨false, [(98, 98)]⟩
    let re : Re := .alt (.seq (.seq (.seq a sl) x) bb) a
    rxMatch re [47, 120] ([97] ++ [47, 120]) = some ([97], []) ∧
    rxMatch re [47, 120] ([97] ++ [47, 120] ++ [98, 47, 120]) = some ([97, 47, 120, 98], []) := by
  decide

end Mux.P17
