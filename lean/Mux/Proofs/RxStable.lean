/-
  Mux.Proofs.RxStable — the leftmost-first matcher is stable under cutting off the rest of the path:
  if `rxMatch re suffix (v ++ suffix ++ rest) = some (v, rest)` (what dispatch does at a regexp segment) then
  `rxMatch re suffix (v ++ suffix) = some (v, [])` (what `Segment.Valid` checks).  Every candidate the matcher
  tries on the short input is tried, in the same order, on the long input, and a candidate accepted on the short
  input is accepted on the long one; so the first accepted candidate is the same.
-/
import Mux.Proofs.Regex
namespace Mux.P13
open Mux

section
variable {α β : Type} (rest : Bytes) (good : β → Prop) (Q : α → β → Prop)

/-- The relation between the continuation on the short input (`k`) and on the long input (`K`). -/
structure ContRel (k : Bytes → Option α) (K : Bytes → Option β) : Prop where
  /-- accepted on the short input ⇒ accepted on the long input -/
  mono : ∀ r', (k r').isSome → (K (r' ++ rest)).isSome
  /-- the good answer, given at a position inside the short input, is also given there on the short input -/
  agree : ∀ r' X, K (r' ++ rest) = some X → good X → ∃ x, k r' = some x ∧ Q x X
  /-- positions beyond the short input never give the good answer -/
  beyond : ∀ r X, r.length < rest.length → K r = some X → ¬ good X

theorem starM_mono (c : Cls) (s : Bytes) (k : Bytes → Option α) (K : Bytes → Option β)
    (mono : ∀ r', (k r').isSome → (K (r' ++ rest)).isSome) (h : (starM c s k).isSome) :
    (starM c (s ++ rest) K).isSome := by
  cases hx : starM c s k with
  | none => rw [hx] at h; cases h
  | some x =>
    obtain ⟨s1, s2, rfl, hd, hk⟩ := starM_sound c s k x hx
    rw [List.append_assoc]
    exact starM_complete c s1 (s2 ++ rest) K hd (mono s2 (by rw [hk]; rfl))

theorem Re.m_mono (r : Re) (s : Bytes) (k : Bytes → Option α) (K : Bytes → Option β)
    (mono : ∀ r', (k r').isSome → (K (r' ++ rest)).isSome) (h : (r.m s k).isSome) :
    (r.m (s ++ rest) K).isSome := by
  cases hx : r.m s k with
  | none => rw [hx] at h; cases h
  | some x =>
    obtain ⟨s1, s2, rfl, hd, hk⟩ := Re.m_sound r s k x hx
    rw [List.append_assoc]
    exact Re.m_complete r s1 (s2 ++ rest) K hd (mono s2 (by rw [hk]; rfl))

theorem starM_none_of_long (c : Cls) (s : Bytes) (k : Bytes → Option α) (K : Bytes → Option β)
    (mono : ∀ r', (k r').isSome → (K (r' ++ rest)).isSome) (h : starM c (s ++ rest) K = none) :
    starM c s k = none := by
  cases hx : starM c s k with
  | none => rfl
  | some x =>
    have := starM_mono rest c s k K mono (by rw [hx]; rfl)
    rw [h] at this; cases this

theorem Re.m_none_of_long (r : Re) (s : Bytes) (k : Bytes → Option α) (K : Bytes → Option β)
    (mono : ∀ r', (k r').isSome → (K (r' ++ rest)).isSome) (h : r.m (s ++ rest) K = none) :
    r.m s k = none := by
  cases hx : r.m s k with
  | none => rfl
  | some x =>
    have := Re.m_mono rest r s k K mono (by rw [hx]; rfl)
    rw [h] at this; cases this

/-- An answer of the matcher started beyond the short input is not the good one. -/
theorem beyond_m {K : Bytes → Option β} (hb : ∀ r X, r.length < rest.length → K r = some X → ¬ good X)
    (r : Re) (s : Bytes) (X : β) (hs : s.length < rest.length) (h : r.m s K = some X) : ¬ good X := by
  obtain ⟨s1, s2, rfl, _, hk⟩ := Re.m_sound r s K X h
  exact hb s2 X (by simp at hs; omega) hk

theorem beyond_starM {K : Bytes → Option β} (hb : ∀ r X, r.length < rest.length → K r = some X → ¬ good X)
    (c : Cls) (s : Bytes) (X : β) (hs : s.length < rest.length) (h : starM c s K = some X) : ¬ good X := by
  obtain ⟨s1, s2, rfl, _, hk⟩ := starM_sound c s K X h
  exact hb s2 X (by simp at hs; omega) hk

theorem starM_stable (c : Cls) (s : Bytes) (k : Bytes → Option α) (K : Bytes → Option β)
    (hr : ContRel rest good Q k K) (X : β) (h : starM c (s ++ rest) K = some X) (hg : good X) :
    ∃ x, starM c s k = some x ∧ Q x X := by
  induction s with
  | nil =>
    simp only [List.nil_append] at h
    obtain ⟨s1, s2, hs, _, hk⟩ := starM_sound c rest K X h
    cases s1 with
    | nil =>
      simp only [List.nil_append] at hs
      subst hs
      simpa [starM] using hr.agree [] X (by simpa using hk) hg
    | cons b s1 =>
      exact absurd hg (hr.beyond s2 X (by rw [hs]; simp; omega) hk)
  | cons b s ih =>
    simp only [List.cons_append, starM] at h ⊢
    by_cases hb : c.has b = true
    · simp only [hb, if_true] at h ⊢
      cases hin : starM c (s ++ rest) K with
      | some X' =>
        rw [hin] at h
        simp only [Option.some.injEq] at h
        subst h
        obtain ⟨x, hx, hq⟩ := ih hin
        exact ⟨x, by rw [hx], hq⟩
      | none =>
        rw [hin] at h
        simp only [] at h
        rw [starM_none_of_long rest c s k K hr.mono hin]
        exact hr.agree (b :: s) X (by simpa using h) hg
    · simp only [hb, if_false, Bool.false_eq_true] at h ⊢
      exact hr.agree (b :: s) X (by simpa using h) hg

/-- **Stability of the matcher.** -/
theorem Re.m_stable (r : Re) : ∀ (s : Bytes) (k : Bytes → Option α) (K : Bytes → Option β),
    ContRel rest good Q k K → ∀ X, r.m (s ++ rest) K = some X → good X → ∃ x, r.m s k = some x ∧ Q x X := by
  induction r with
  | eps => intro s k K hr X h hg; exact hr.agree s X h hg
  | cls c =>
    intro s k K hr X h hg
    cases s with
    | nil =>
      simp only [List.nil_append] at h
      cases rest with
      | nil => simp [Re.m] at h
      | cons b r' =>
        simp only [Re.m] at h
        split at h
        · exact absurd hg (hr.beyond r' X (by simp) h)
        · cases h
    | cons b s =>
      simp only [List.cons_append, Re.m] at h ⊢
      split
      · rename_i hb
        rw [if_pos hb] at h
        exact hr.agree s X h hg
      · rename_i hb
        rw [if_neg hb] at h; cases h
  | seq a b iha ihb =>
    intro s k K hr X h hg
    simp only [Re.m] at h ⊢
    refine iha s (fun s' => b.m s' k) (fun S' => b.m S' K) ⟨?_, ?_, ?_⟩ X h hg
    · intro r' hk; exact Re.m_mono rest b r' k K hr.mono hk
    · intro r' X' hX' hg'; exact ihb r' k K hr X' hX' hg'
    · intro r X' hlt hX'; exact beyond_m rest good hr.beyond b r X' hlt hX'
  | alt a b iha ihb =>
    intro s k K hr X h hg
    simp only [Re.m] at h ⊢
    cases ha : a.m (s ++ rest) K with
    | some X' =>
      rw [ha] at h
      simp only [Option.some.injEq] at h
      subst h
      obtain ⟨x, hx, hq⟩ := iha s k K hr X' ha hg
      exact ⟨x, by rw [hx], hq⟩
    | none =>
      rw [ha] at h
      simp only [] at h
      rw [Re.m_none_of_long rest a s k K hr.mono ha]
      exact ihb s k K hr X h hg
  | star c => intro s k K hr X h hg; exact starM_stable rest good Q c s k K hr X h hg
  | plus c =>
    intro s k K hr X h hg
    cases s with
    | nil =>
      simp only [List.nil_append] at h
      cases rest with
      | nil => simp [Re.m] at h
      | cons b r' =>
        simp only [Re.m] at h
        split at h
        · exact absurd hg (beyond_starM (b :: r') good hr.beyond c r' X (by simp) h)
        · cases h
    | cons b s =>
      simp only [List.cons_append, Re.m] at h ⊢
      split
      · rename_i hb
        rw [if_pos hb] at h
        exact starM_stable rest good Q c s k K hr X h hg
      · rename_i hb
        rw [if_neg hb] at h; cases h
  | opt r ih =>
    intro s k K hr X h hg
    simp only [Re.m] at h ⊢
    cases ha : r.m (s ++ rest) K with
    | some X' =>
      rw [ha] at h
      simp only [Option.some.injEq] at h
      subst h
      obtain ⟨x, hx, hq⟩ := ih s k K hr X' ha hg
      exact ⟨x, by rw [hx], hq⟩
    | none =>
      rw [ha] at h
      simp only [] at h
      rw [Re.m_none_of_long rest r s k K hr.mono ha]
      exact hr.agree s X h hg
end

/-- **What dispatch captures is what `Valid` accepts.** If the anchored leftmost-first match of `(rule)suffix` on
`v ++ suffix ++ rest` captures exactly `v`, so does the match on `v ++ suffix` alone. -/
theorem rxMatch_stable (re : Re) (suffix v rest : Bytes)
    (h : rxMatch re suffix (v ++ suffix ++ rest) = some (v, rest)) :
    rxMatch re suffix (v ++ suffix) = some (v, []) := by
  unfold rxMatch at h ⊢
  have key := Re.m_stable rest (fun X : Bytes × Bytes => X = (v, rest)) (fun x X => x = (v, ([] : Bytes))) re
    (v ++ suffix)
    (fun r1 => if suffix.isPrefixOf r1 then
      some ((v ++ suffix).take ((v ++ suffix).length - r1.length), r1.drop suffix.length) else none)
    (fun r1 => if suffix.isPrefixOf r1 then
      some ((v ++ suffix ++ rest).take ((v ++ suffix ++ rest).length - r1.length), r1.drop suffix.length) else none)
    ⟨?_, ?_, ?_⟩ (v, rest) h rfl
  · obtain ⟨x, hx, rfl⟩ := key
    exact hx
  · -- mono
    intro r' hk
    split at hk
    · rename_i hp
      have : suffix.isPrefixOf (r' ++ rest) = true := by
        rw [List.isPrefixOf_iff_prefix] at hp ⊢
        exact hp.trans (List.prefix_append _ _)
      simp [this]
    · cases hk
  · -- agree
    intro r' X hX hg
    subst hg
    split at hX
    · rename_i hp
      simp only [Option.some.injEq, Prod.mk.injEq] at hX
      obtain ⟨h1, h2⟩ := hX
      -- lengths: `r'` is as long as `suffix`
      have hl := congrArg List.length h1
      have hl2 := congrArg List.length h2
      simp only [List.length_take, List.length_append, List.length_drop] at hl hl2
      have hpre := List.isPrefixOf_iff_prefix.1 hp
      have hle : suffix.length ≤ (r' ++ rest).length := hpre.length_le
      simp only [List.length_append] at hle
      have hr' : r'.length = suffix.length := by omega
      have hrs : r' = suffix := by
        obtain ⟨t, ht⟩ := hpre
        have := congrArg (List.take suffix.length) ht
        rw [List.take_left' rfl, List.take_append_of_le_length (by omega), List.take_of_length_le (by omega)] at this
        exact this.symm
      subst hrs
      refine ⟨(v, []), ?_, rfl⟩
      have hpp : r'.isPrefixOf r' = true := List.isPrefixOf_iff_prefix.2 (List.prefix_refl _)
      simp [hpp]
    · cases hX
  · -- beyond
    intro r X hlt hX hg
    subst hg
    split at hX
    · simp only [Option.some.injEq, Prod.mk.injEq] at hX
      have hl := congrArg List.length hX.1
      simp only [List.length_take, List.length_append] at hl
      omega
    · cases hX

end Mux.P13
