/-
  Mux.Proofs.HostsInv — a second invariant of the private tree of a `Hosts` matcher: every node below the
  root either has no handlers or has a `GET` entry (`Add` registers `GET` only, `Delete` removes everything).
  Consequence: on a reachable matcher the "405" branch of `Hosts.Match` never occurs — a rejecting
  `Hosts.Match` leaves the parameters as they came.
-/
import Mux.Proofs.Hosts
namespace Mux.P12
open Mux

/-- No handlers, or a `GET` entry. -/
def GetQ (_mi : Nat) (hs : AMap Handler) : Prop := hs = [] ∨ mGET ∈ hs.keys

theorem GetQ_empty : GetQ 0 [] := .inl rfl

/-! ## `addMethods` -/

theorem addMethodsLoop_mem (t : Tree) (h : Handler) (pattern : Bytes) (ms : List Nat) :
    ∀ (methods : List Bytes) (hs hs' : AMap Handler), addMethodsLoop t h pattern ms methods hs = .ok hs' →
      (∀ k ∈ hs.keys, k ∈ hs'.keys) ∧ (∀ m ∈ methods, m ∈ hs'.keys) := by
  intro methods
  induction methods with
  | nil =>
    intro hs hs' he
    simp only [addMethodsLoop, Except.ok.injEq] at he
    subst he
    exact ⟨fun _ hk => hk, fun _ hm => by cases hm⟩
  | cons m rest ih =>
    intro hs hs' he
    simp only [addMethodsLoop, bind, Except.bind] at he
    by_cases hres : m = mOPTIONS ∨ m = mHEAD ∨ (t.hasTrace = true ∧ m = mTRACE)
    · simp [hres, throw, throwThe, MonadExceptOf.throw] at he
    simp only [hres, if_false] at he
    by_cases hkn : ¬ isKnownMethod m = true
    · simp [hkn, throw, throwThe, MonadExceptOf.throw] at he
    simp only [hkn, if_false] at he
    by_cases hcon : AMap.contains hs m = true
    · simp [hcon, throw, throwThe, MonadExceptOf.throw] at he
    simp only [hcon, Bool.false_eq_true, if_false] at he
    obtain ⟨h1, h2⟩ := ih _ _ he
    refine ⟨?_, ?_⟩
    · intro k hk
      apply h1
      rw [AMap.mem_keys_set]
      left
      split
      · rw [AMap.mem_keys_set]; exact .inl hk
      · exact hk
    · intro x hx
      rcases List.mem_cons.1 hx with rfl | hx
      · apply h1
        rw [AMap.mem_keys_set]; exact .inr rfl
      · exact h2 x hx

theorem addMethodsNode_getQ (t : Tree) (h : Handler) (pattern : Bytes) (ms : List Nat)
    (n n' : Node) (hn : Node.All (NodeOk GetQ) n)
    (he : t.addMethodsNode h pattern ms [mGET] n = .ok n') : Node.All (NodeOk GetQ) n' := by
  unfold Tree.addMethodsNode at he
  simp only [bind, Except.bind, pure, Except.pure] at he
  split at he
  · simp at he
  rename_i hs1 hloop
  simp only [Except.ok.injEq] at he
  subst he
  have hget : mGET ∈ hs1.keys := (addMethodsLoop_mem t h pattern ms [mGET] _ _ hloop).2 mGET (by simp)
  rw [Node.All_iff] at hn ⊢
  obtain ⟨⟨_, hidx⟩, hall⟩ := hn
  refine ⟨⟨.inr ?_, ?_⟩, ?_⟩
  · simp only [Node.setHandlers, Node.handlers_mk]
    split
    · split
      · exact hget
      · rw [AMap.mem_keys_set]; exact .inl hget
    · split
      · rw [AMap.mem_keys_set]; exact .inl hget
      · rw [AMap.mem_keys_set, AMap.mem_keys_set]; exact .inl (.inl hget)
  · intro e he
    simpa [Node.setHandlers] using hidx e (by simpa [Node.setHandlers] using he)
  · simpa [Node.setHandlers] using hall

theorem removeMethods_getQ (ht : Bool) (n : Node) (hn : Node.All (NodeOk GetQ) n) :
    Node.All (NodeOk GetQ) (removeMethods ht [] n) := by
  rw [Node.All_iff] at hn ⊢
  obtain ⟨⟨_, hidx⟩, hall⟩ := hn
  have hfields : (removeMethods ht [] n).indexes = n.indexes ∧ (removeMethods ht [] n).children = n.children := by
    unfold removeMethods; simp [Node.setHandlers]
  refine ⟨⟨.inl ?_, ?_⟩, ?_⟩
  · rw [removeMethods_handlers]; rfl
  · intro e he
    rw [hfields.1] at he; rw [hfields.2]; exact hidx e he
  · rw [hfields.2]; exact hall

/-! ## The invariant along a history -/

/-- Every node below the root has no handlers or a `GET` entry. -/
def HostsGet (hs : Hosts) : Prop := AllL (NodeOk GetQ) hs.tree.root.children

theorem hostsGet_empty : HostsGet Hosts.empty := by
  simp [HostsGet, Hosts.empty, Tree.new, AllL]

theorem hostsGet_add {hs hs' : Hosts} {d : Bytes} (hinv : TreeInv hs.tree) (hg : HostsGet hs)
    (he : hs.add d = .ok hs') : HostsGet hs' := by
  rw [Hosts.add_eq] at he
  cases hadd : hs.tree.add (toLower d) { base := .hostEmpty, wraps := [] } [] [mGET] with
  | error e => rw [hadd] at he; cases he
  | ok t' =>
    rw [hadd] at he
    simp only [Except.map, Except.ok.injEq] at he
    subst he
    obtain ⟨v, rest, root1, path, root2, _, _, hget, hmod, rfl⟩ := Tree.add_ok hadd
    obtain ⟨hi1, ha1, hh1, _, _, _, hne, _⟩ :=
      getNode_post hs.tree.ic GetQ GetQ_empty hs.tree.root v rest _ hinv.rootIdx hg hget
    simp only at hi1 ha1 hh1 hne
    cases path with
    | nil => exact absurd rfl hne
    | cons i path =>
      have heff : effMethods [mGET] = [mGET] := rfl
      rw [heff] at hmod
      obtain ⟨_, _, _, _, _, _, ha2⟩ :=
        modifyAt_cons_top (Q := GetQ) _ (addMethodsNode_getQ hs.tree _ _ _) ha1 hmod
      simpa [HostsGet, Tree.bumpMethods, Node.setHandlers] using ha2

theorem hostsGet_delete {hs hs' : Hosts} {d : Bytes} (hinv : TreeInv hs.tree) (hg : HostsGet hs)
    (he : hs.delete d = .ok hs') : HostsGet hs' := by
  rw [Hosts.delete_eq] at he
  cases hrem : hs.tree.remove (toLower d) [] with
  | error e => rw [hrem] at he; cases he
  | ok t' =>
    rw [hrem] at he
    simp only [Except.map, Except.ok.injEq] at he
    subst he
    rcases Tree.remove_ok hrem with rfl | ⟨path, root1, hpath, hrm, rfl⟩
    · exact hg
    · cases path with
      | nil => exact absurd rfl (findPath_ne_nil _ _ _ hpath)
      | cons i path =>
        have ih := removeAt_All_aux (Q := GetQ) (removeMethods hs.tree.hasTrace [])
          (removeMethods_getQ hs.tree.hasTrace) path
        obtain ⟨_, _, _, _, _, ha⟩ := removeAt_cons_top _ path ih hinv.rootIdx hg hrm
        simpa [HostsGet, Tree.recount, Node.setHandlers] using ha

theorem hostsGet_step {hs : Hosts} (hinv : TreeInv hs.tree) (hg : HostsGet hs) (op : HOp) :
    HostsGet (hostsStep hs op) := by
  cases op with
  | add d =>
    simp only [hostsStep]
    split
    · rename_i hs' he; exact hostsGet_add hinv hg he
    · exact hg
  | delete d =>
    simp only [hostsStep]
    split
    · rename_i hs' he; exact hostsGet_delete hinv hg he
    · exact hg
  | registerInterceptor id rule =>
    simp only [hostsStep]
    split
    · rename_i hs' he
      have := (Hosts.registerInterceptor_some he).2
      unfold HostsGet
      rw [this]; exact hg
    · exact hg

theorem hostsGet_run {hs : Hosts} (hinv : TreeInv hs.tree) (hg : HostsGet hs) (ops : List HOp) :
    HostsGet (hostsRun hs ops) := by
  unfold hostsRun
  induction ops generalizing hs with
  | nil => exact hg
  | cons op ops ih => exact ih (Hosts.inv_step hinv op) (hostsGet_step hinv hg op)

theorem HostsReach.get {hs : Hosts} (h : HostsReach hs) : HostsGet hs := by
  obtain ⟨ops, rfl⟩ := h
  exact hostsGet_run Hosts.inv_empty hostsGet_empty ops

/-! ## Chains stay inside the tree -/

theorem mem_nodesL {cs : List Node} {c m : Node} (hc : c ∈ cs) (hm : m ∈ c.nodes) : m ∈ nodesL cs := by
  induction cs with
  | nil => cases hc
  | cons d cs ih =>
    simp only [nodesL, List.mem_append]
    rcases List.mem_cons.1 hc with rfl | hc
    · exact .inl hm
    · exact .inr (ih hc)

theorem chain_mem_nodes {n m : Node} {segs : List Seg} (h : Chain n segs m) : m ∈ n.nodes := by
  induction h with
  | nil n => rw [Node.nodes_eq]; exact List.mem_cons_self ..
  | cons hc _ ih => rw [Node.nodes_eq]; exact List.mem_cons_of_mem _ (mem_nodesL hc ih)

theorem chain_mem_below {n m : Node} {segs : List Seg} (h : Chain n segs m) (hne : segs ≠ []) :
    m ∈ nodesL n.children := by
  cases h with
  | nil => exact absurd rfl hne
  | cons hc hrest => exact mem_nodesL hc (chain_mem_nodes hrest)

/-- Under `HostsGet`, a node reached by a non-empty chain that has handlers has a `GET` entry. -/
theorem HostsGet.chain_get {hs : Hosts} (h : HostsGet hs) {n : Node} {segs : List Seg}
    (hc : Chain hs.tree.root segs n) (hne : segs ≠ []) (hh : n.handlers ≠ []) : mGET ∈ n.handlers.keys := by
  have := ((All_iff_nodes _).2 _).1 h n (chain_mem_below hc hne)
  rcases this.1 with h0 | h0
  · exact absurd h0 hh
  · exact h0

/-- A rejecting `Hosts.Match` leaves no trace when every node with handlers has a `GET` entry. -/
theorem Hosts.match_reject_clean (env : Env) {hs : Hosts} (hg : HostsGet hs) (host path : Bytes) (ps : Params)
    (hN : NamesOkL ps.keys hs.tree.root.children) (hI : Node.All IdxLit hs.tree.root)
    (ha : isAscii host = true) (p : Bytes) (q : Params) (h : hs.match env host path ps = .reject p q) :
    p = path ∧ q = ps := by
  obtain ⟨hp, hq | ⟨n, chain, hne, hc, _, _, hh, hget⟩⟩ := Hosts.match_reject_chain env host path ps hN hI ha p q h
  · exact ⟨hp, hq⟩
  · have := hg.chain_get hc (by simpa using hne) hh
    rw [← AMap.get?_isSome_iff, hget] at this
    cases this

end Mux.P12
