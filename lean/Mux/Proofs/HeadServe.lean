/-
  Mux.Proofs.HeadServe — a HEAD request against the GET request for the same path: what `Tree.handler`,
  `Router.serveContext` and `runCall` do with the two, on a tree with `TreeInv` and the keyed invariant `TreeAuto`
  (whose `head` part says that the HEAD entry is the HEAD copy of the GET entry, `HeadOf`).
-/
import Mux.Proofs.AutoServe
import Mux.Proofs.TreeViews
namespace Mux

theorem HeadOf.refl (h : Handler) : HeadOf h h := ⟨rfl, rfl⟩

/-! ## `Tree.handler` -/

/-- On every node of a tree with the invariant, HEAD is a key exactly when GET is. -/
theorem head_isSome_get {t : Tree} (hinv : TreeInv t) {n : Node} (hn : n ∈ t.root.nodes) :
    (n.handlers.get? mHEAD).isSome = (n.handlers.get? mGET).isSome := by
  obtain ⟨c1, c2, c3, c4, c5, c6, c7, c8, c9, c10⟩ := method_consts_ne
  have hiff : mHEAD ∈ n.handlers.keys ↔ mGET ∈ n.handlers.keys := by
    rw [Node.nodes_eq] at hn
    rcases List.mem_cons.1 hn with rfl | hn
    · rw [hinv.rootKeys]; simp [c2, c3, c5, c6]
    · have hg : Good t.hasTrace n := ((All_iff_nodes _).2 _).1 hinv.below n hn
      rcases hg.1.2 with h0 | h0
      · rw [h0]; simp [AMap.keys]
      · exact h0.head_iff
  rw [← AMap.get?_isSome_iff, ← AMap.get?_isSome_iff] at hiff
  exact Bool.eq_iff_iff.2 hiff

/-- What `Tree.Handler` finds for HEAD, given what it finds for GET on the same path with the same incoming
parameters: the same node, the same verdict, the same parameters; when GET is registered on the node the HEAD entry of
that node, which is the HEAD copy of the GET entry; otherwise the very same 404/405 handler. -/
theorem handler_head_get {t : Tree} (hinv : TreeInv t) (ha : TreeAuto t) (env : Env) (path : Bytes) (ps : Params)
    {fg : Found} (hg : t.handler env path ps mGET = .res fg) :
    ∃ fh, t.handler env path ps mHEAD = .res fh ∧ fh.node = fg.node ∧ fh.ok = fg.ok ∧ fh.params = fg.params ∧
      HeadOf fg.handler fh.handler ∧
      (fg.ok = true → ∃ n ∈ t.root.nodes, fg.node = some n ∧ n.handlers.get? mGET = some fg.handler ∧
        n.handlers.get? mHEAD = some fh.handler) ∧
      (fg.ok = false → fh.handler = fg.handler) := by
  obtain ⟨c1, c2, c3, c4, c5, c6, c7, c8, c9, c10⟩ := method_consts_ne
  rw [handler_eq_noTrace env t path ps mGET (fun h => c4 h.2), handlerNoTrace_eq] at hg
  rw [handler_eq_noTrace env t path ps mHEAD (fun h => c7 h.2), handlerNoTrace_eq]
  have hm := hinv.matched_ok env path ps
  generalize t.matched env path ps = r at hm hg
  cases r with
  | fault s => exact False.elim hm
  | unsupported => cases hg
  | miss ps' =>
    simp only [HR.res.injEq] at hg
    subst hg
    exact ⟨_, rfl, rfl, rfl, rfl, HeadOf.refl _, (by intro h; cases h), fun _ => rfl⟩
  | hit n ps' =>
    simp only at hg ⊢
    by_cases hsz : n.size = 0
    · simp only [hsz, if_true, HR.res.injEq] at hg ⊢
      subst hg
      exact ⟨_, rfl, rfl, rfl, rfl, HeadOf.refl _, (by intro h; cases h), fun _ => rfl⟩
    · have h3 : ¬ mGET = mNotAllowed := c3
      have h6 : ¬ mHEAD = mNotAllowed := c6
      simp only [hsz, if_false, h3, h6] at hg ⊢
      have hsome := head_isSome_get hinv hm
      cases hgg : n.handlers.get? mGET with
      | some vg =>
        rw [hgg] at hg hsome
        cases hgh : n.handlers.get? mHEAD with
        | none => rw [hgh] at hsome; cases hsome
        | some vh =>
          simp only [HR.res.injEq] at hg ⊢
          subst hg
          exact ⟨_, rfl, rfl, rfl, rfl, (ha.get hm).head vg vh hgg hgh, fun _ => ⟨n, hm, rfl, hgg, hgh⟩,
            by intro h; cases h⟩
      | none =>
        rw [hgg] at hg hsome
        cases hgh : n.handlers.get? mHEAD with
        | some vh => rw [hgh] at hsome; cases hsome
        | none =>
          simp only at hg ⊢
          cases hna : n.handlers.get? mNotAllowed with
          | some vn =>
            rw [hna] at hg
            simp only [HR.res.injEq] at hg ⊢
            subst hg
            exact ⟨_, rfl, rfl, rfl, rfl, HeadOf.refl _, (by intro h; cases h), fun _ => rfl⟩
          | none =>
            rw [hna] at hg
            simp only [HR.res.injEq] at hg ⊢
            subst hg
            exact ⟨_, rfl, rfl, rfl, rfl, HeadOf.refl _, (by intro h; cases h), fun _ => rfl⟩

/-! ## CORS does not distinguish HEAD from GET -/

theorem cors_handle_head (c : Cors) (ms : List Bytes) (allow : Bytes) (wh : Hdr) (path : Bytes) (hs : Hdr) :
    c.handle ms allow wh mHEAD path hs = c.handle ms allow wh mGET path hs := by
  obtain ⟨c1, c2, c3, c4, c5, c6, c7, c8, c9, c10⟩ := method_consts_ne
  have h2 : ¬ mGET = mOPTIONS := c2
  have h5 : ¬ mHEAD = mOPTIONS := c5
  unfold Cors.handle Cors.preflightPart
  simp [h2, h5]

/-! ## `Router.serveContext` -/

/-- The call made for the HEAD request, given the call made for the GET request. -/
theorem serve_head_get {r : Router} (hinv : TreeInv r.tree) (ha : TreeAuto r.tree) (env : Env) (req : Req)
    (ps : Params) (hg : req.method = mGET) {cg : Call} (hcg : r.serveContext env req ps = .call cg) :
    ∃ ch, r.serveContext env { req with method := mHEAD } ps = .call ch ∧
      ch.node = cg.node ∧ ch.ok = cg.ok ∧ ch.params = cg.params ∧ ch.respHeaders = cg.respHeaders ∧
      ch.routerName = cg.routerName ∧ ch.path = cg.path ∧ ch.recover = cg.recover ∧ ch.recActs = cg.recActs ∧
      ch.headWrap = cg.ok ∧ cg.headWrap = false ∧
      HeadOf cg.handler ch.handler ∧
      (cg.ok = true → ∃ n ∈ r.tree.root.nodes, cg.node = some n ∧ n.handlers.get? mGET = some cg.handler ∧
        n.handlers.get? mHEAD = some ch.handler) ∧
      (cg.ok = false → ch = cg) := by
  obtain ⟨c1, c2, c3, c4, c5, c6, c7, c8, c9, c10⟩ := method_consts_ne
  unfold Router.serveContext at hcg ⊢
  rw [hg] at hcg
  cases hfg : r.tree.handler env req.path ps mGET with
  | fault s => rw [hfg] at hcg; cases hcg
  | unsupported => rw [hfg] at hcg; cases hcg
  | res fg =>
    rw [hfg] at hcg
    simp only [ServeRes.call.injEq] at hcg
    subst hcg
    obtain ⟨fh, hfh, e1, e2, e3, e4, e5, e6⟩ := handler_head_get hinv ha env req.path ps hfg
    simp only [hfh]
    refine ⟨_, rfl, e1, e2, e3, ?_, rfl, rfl, rfl, rfl, ?_, ?_, e4, e5, ?_⟩
    · simp only [e1, e2]
      cases fg.ok with
      | false => rfl
      | true =>
        cases fg.node with
        | none => rfl
        | some n => exact cors_handle_head r.cors n.methods n.allow [] req.path req.headers
    · simp [e2]
    · simp [c1]
    · intro hok
      have hh := e6 hok
      simp only [e1, e2, e3, hh, hok]
      simp

/-! ## `runCall` -/

theorem mwPanic_congr (pc : PanicCfg) {h h' : Handler} (e : h'.wraps.map (·.mw) = h.wraps.map (·.mw)) :
    mwPanic pc h' = mwPanic pc h := by
  have key : ∀ ws : List Wrap, ws.reverse.filterMap (fun w => lookupNat pc.mws w.mw) =
      (ws.map (·.mw)).reverse.filterMap (lookupNat pc.mws) := by
    intro ws
    rw [← List.map_reverse, List.filterMap_map]
    rfl
  unfold mwPanic
  rw [key, key, e]

/-- The script run for the HEAD copy of a handler on the same node is the script run for the handler: same
middleware panics (outermost first), same base panic, same write script. -/
theorem callScript_headOf (pc : PanicCfg) (scripts : Scripts) {cg ch : Call} (hh : HeadOf cg.handler ch.handler)
    (hn : ch.node = cg.node) : callScript pc scripts ch = callScript pc scripts cg := by
  unfold callScript
  rw [mwPanic_congr pc hh.mws, hh.1]
  have : ch.handler.script scripts ch.allow = cg.handler.script scripts cg.allow := by
    unfold Handler.script Call.allow
    rw [hh.1, hn]
  rw [this]

end Mux
