/-
  Mux.Proofs.WitnessRx — C03_witness for patterns WITH regexp segments on their own chain.

  `P14.witness_node` is redone with the weakest hypothesis under which the induction along the chain goes
  through (`MatchChain`: every segment of the chain, applied to the text it contributes followed by the
  instantiation of the rest of the chain, returns exactly that rest).  `MatchChain` is then derived
  * from `SimpleVal` for literal / named / interceptor segments (`P14.seg_match_simple`),
  * from `RxExact` (the anchored leftmost-first match on `v ++ suffix ++ rest` captures `v`) for regexp segments,
  * from `RxSimple` — a hypothesis on the value alone: `v` is in the language of the rule and the rule cannot
    consume the first byte of the literal text after the parameter (`Re.avoids`); for a regexp segment that ends
    the pattern: the match on `v` alone captures all of `v` (`Segment.Valid`).
-/
import Mux.Proofs.Witness
import Mux.Proofs.WitnessRxRe
import Mux.Proofs.MatchCap
namespace Mux.P17
open Mux Mux.P11 Mux.P14

/-! ## The weakest per-segment hypothesis -/

/-- Every segment of the chain, applied to the witness path from its own position on, consumes exactly the text it
contributed (`s.inst v`) and leaves the instantiation of the rest of the chain. -/
def MatchChain (env : Env) (ic : Interceptors) : List (Seg × Bytes) → Prop
  | [] => True
  | sv :: rest =>
    (∃ cap, sv.1.match env ic (sv.1.inst sv.2 ++ instChain rest) = .yes cap (instChain rest)) ∧
      MatchChain env ic rest

/-- Is the answer `yes _ R`? -/
def yesWith (R : Bytes) : MatchRes → Bool
  | .yes _ R' => R' == R
  | _ => false

theorem exists_yes_iff (m : MatchRes) (R : Bytes) : (∃ cap, m = .yes cap R) ↔ yesWith R m = true := by
  cases m with
  | yes cap R' =>
    simp only [yesWith, MatchRes.yes.injEq, beq_iff_eq]
    exact ⟨fun ⟨_, _, h⟩ => h, fun h => ⟨cap, rfl, h⟩⟩
  | no => simp [yesWith]
  | unsupported => simp [yesWith]

instance (m : MatchRes) (R : Bytes) : Decidable (∃ cap, m = .yes cap R) :=
  decidable_of_iff _ (exists_yes_iff m R).symm

instance MatchChain.dec (env : Env) (ic : Interceptors) : (chain : List (Seg × Bytes)) → Decidable (MatchChain env ic chain)
  | [] => isTrue trivial
  | _ :: rest =>
    have := MatchChain.dec env ic rest
    inferInstanceAs (Decidable (_ ∧ _))

/-- **The witness request is not missed, and a hit is a `Wins` node** — under `MatchChain`. -/
theorem witness_node_match {ic0 : Interceptors} (env : Env) (ic : Interceptors) :
    ∀ (chain : List (Seg × Bytes)) (n x : Node), Chain n (chain.map (·.1)) x → x.handlers ≠ [] →
      Node.All (P8.SOk2 ic0) n → MatchChain env ic chain →
      ∀ (ps : Params) (used : List Bytes), Node.NamesOk used n → (∀ k ∈ ps.keys, k ∈ used) →
      (∀ ps', n.matchChildren env ic (instChain chain) ps ≠ .miss ps') ∧
      (∀ q ps', n.matchChildren env ic (instChain chain) ps = .hit q ps' → Wins n (chain.map (·.1)) x q) := by
  intro chain
  induction chain with
  | nil =>
    intro n x hch hx hs2 _ ps used hnames hkeys
    cases hch
    have htrack : TrackL used n.children ps := ⟨(Node.namesOk_iff used n).1 hnames, allS2L_idxLit hs2.tail, hkeys⟩
    rw [mc_scan env ic hs2 hnames hkeys]
    simp only [instChain, List.map_nil]
    cases hr : matchFrom env ic n.children 0 [] ps with
    | miss ps2 =>
      have hpos : n.handlers.length > 0 := List.length_pos_iff.2 hx
      simp only [List.isEmpty_nil, hpos, and_self, if_true]
      refine ⟨fun ps' h => (by cases h), fun q ps' h => ?_⟩
      simp only [MR.hit.injEq] at h
      rw [← h.1]
      exact .here (by rw [Node.nodes_eq]; exact List.mem_cons_self)
    | hit q1 ps1 =>
      refine ⟨fun ps' h => (by cases h), fun q ps' h => ?_⟩
      simp only [MR.hit.injEq] at h
      obtain ⟨rfl, rfl⟩ := h
      obtain ⟨i, d, hd, hhit, _⟩ := (matchFrom_first_hit htrack q1 ps1).1 hr
      exact .here (mem_nodes_of_child (List.mem_of_getElem? hd) (tryChild_hit_mem hhit))
    | fault s => exact ⟨fun ps' h => (by cases h), fun q ps' h => (by cases h)⟩
    | unsupported => exact ⟨fun ps' h => (by cases h), fun q ps' h => (by cases h)⟩
  | cons sv rest ih =>
    intro n x hch hx hs2 hmc ps used hnames hkeys
    obtain ⟨s, v⟩ := sv
    simp only [List.map_cons] at hch ⊢
    cases hch
    rename_i c hc hrest
    have hnL := (Node.namesOk_iff used n).1 hnames
    have htrack : TrackL used n.children ps := ⟨hnL, allS2L_idxLit hs2.tail, hkeys⟩
    have hcS2 : Node.All (P8.SOk2 ic0) c := AllL_mem hs2.tail hc
    obtain ⟨⟨cap, hm⟩, hmrest⟩ := hmc
    simp only at hm
    obtain ⟨hfresh, hok⟩ := NamesOkL_mem hnL hc
    obtain ⟨_, r2, _⟩ := record_spec (s := c.seg) cap hfresh hkeys
    obtain ⟨ihmiss, ihhit⟩ := ih c x hrest hx hcS2 hmrest (c.seg.record cap ps) _ hok r2
    have hpath : instChain ((c.seg, v) :: rest) = c.seg.inst v ++ instChain rest := rfl
    rw [hpath]
    have htry : ∀ ps', tryChild env ic c (c.seg.inst v ++ instChain rest) ps ≠ .miss ps' := by
      intro ps' h
      unfold tryChild at h
      rw [hm] at h
      simp only at h
      cases hr : c.matchChildren env ic (instChain rest) (c.seg.record cap ps) with
      | miss ps2 => exact ihmiss ps2 hr
      | hit q1 ps1 => rw [hr] at h; cases h
      | fault s => rw [hr] at h; cases h
      | unsupported => rw [hr] at h; cases h
    have hnomiss : ∀ ps', matchFrom env ic n.children 0 (c.seg.inst v ++ instChain rest) ps ≠ .miss ps' := by
      intro ps' h
      exact htry ps (((P8.matchFrom_miss_iff htrack ps').1 h).2 c hc)
    rw [mc_scan env ic hs2 hnames hkeys]
    cases hr : matchFrom env ic n.children 0 (c.seg.inst v ++ instChain rest) ps with
    | miss ps2 => exact absurd hr (hnomiss ps2)
    | fault s => exact ⟨fun ps' h => (by cases h), fun q ps' h => (by cases h)⟩
    | unsupported => exact ⟨fun ps' h => (by cases h), fun q ps' h => (by cases h)⟩
    | hit q1 ps1 =>
      refine ⟨fun ps' h => (by cases h), fun q ps' h => ?_⟩
      simp only [MR.hit.injEq] at h
      obtain ⟨rfl, rfl⟩ := h
      obtain ⟨j, d, hd, hhit, hbefore⟩ := (matchFrom_first_hit htrack q1 ps1).1 hr
      obtain ⟨i, hi⟩ := List.getElem?_of_mem hc
      have hji : j ≤ i := Nat.le_of_not_lt (fun hlt => htry ps (hbefore i hlt c hi))
      rcases Nat.lt_or_eq_of_le hji with hlt | rfl
      · exact .earlier hi hd hlt (P8.RankSorted.getElem_le hs2.head.1.sorted (Nat.le_of_lt hlt) hd hi) hrest
          (tryChild_hit_mem hhit)
      · rw [hi] at hd
        cases hd
        obtain ⟨cap', rest', hm', hsub⟩ := (P8.tryChild_hit_iff env ic c _ ps q1 ps1).1 hhit
        rw [hm] at hm'
        simp only [MatchRes.yes.injEq] at hm'
        obtain ⟨rfl, rfl⟩ := hm'
        exact .step hc (ihhit q1 ps1 hsub)

/-- Tree level: the statement of `P14.witness_tree` under `MatchChain`. -/
theorem witness_tree_match {t : Tree} (hinv : AllInv t) (env : Env) (chain : List (Seg × Bytes)) (x : Node)
    (hch : Chain t.root (chain.map (·.1)) x) (hx : x.handlers ≠ [])
    (hs : MatchChain env t.ic chain) (method : Bytes) (f : Found)
    (hres : t.handler env (instChain chain) [] method = .res f) :
    ∃ q, f.node = some q ∧ q.handlers ≠ [] ∧
      (instChain chain ≠ [] → instChain chain ≠ [42] → (t.trace = none ∨ method ≠ mTRACE) →
        Wins t.root (chain.map (·.1)) x q) := by
  obtain ⟨hmiss, hhit⟩ := witness_node_match (ic0 := t.ic) env t.ic chain t.root x hch hx hinv.s2.all hs
    [] [] hinv.namesRoot (by simp [AMap.keys])
  rcases Tree.handler_cases env t (instChain chain) [] method with ⟨h, ht, hm, e⟩ | ⟨htr, e⟩
  · rw [e] at hres
    simp only [HR.res.injEq] at hres
    subst hres
    refine ⟨t.root, rfl, root_handlers_ne hinv.treeInv, fun _ _ h3 => ?_⟩
    rcases h3 with h3 | h3
    · rw [h3] at ht; cases ht
    · exact absurd hm h3
  · rw [e] at hres
    rcases handlerNoTrace_res hres with ⟨ps', hr, _⟩ | ⟨n, ps', hr, hnil, _⟩ | ⟨n, ps', hr, hne, hnode, _, _⟩
    · exfalso
      by_cases hp : instChain chain = [] ∨ instChain chain = [42]
      · rw [Tree.matchRes_of_eq hp] at hr; cases hr
      · rw [Tree.matchRes_of_ne (fun e => hp (.inl e)) (fun e => hp (.inr e))] at hr
        exact hmiss ps' hr
    · exfalso
      by_cases hp : instChain chain = [] ∨ instChain chain = [42]
      · rw [Tree.matchRes_of_eq hp] at hr
        simp only [MR.hit.injEq] at hr
        rw [← hr.1] at hnil
        exact root_handlers_ne hinv.treeInv hnil
      · rw [Tree.matchRes_of_ne (fun e => hp (.inl e)) (fun e => hp (.inr e))] at hr
        obtain ⟨_, _, _, _, hh, _⟩ := Node.matchChildren_hit hr
        exact hh hnil
    · refine ⟨n, hnode, hne, fun h1 h2 _ => ?_⟩
      rw [Tree.matchRes_of_ne h1 h2] at hr
      exact hhit n ps' hr

/-! ## Regexp segments: what `newSegment` guarantees -/

/-- A regexp segment made by `newSegment` has an ASCII suffix, is never an endpoint, and its suffix is the text
after the closing brace. -/
theorem newSegment_rx_facts {ic : Interceptors} {v : Bytes} {s : Seg} (h : newSegment ic v = .ok s)
    (hk : s.kind = .rx) : isAscii s.suffix = true ∧ s.endpoint = false := by
  rw [newSegment_closed] at h
  have hnamed : ∀ st en hi, (mkNamed v st en hi).kind ≠ .rx := fun _ _ _ => by simp [mkNamed]
  split at h
  · cases h
  split at h
  · split at h
    · split at h
      · cases h
      · cases h; exact absurd hk (hnamed _ _ _)
    · split at h
      · cases h
      split at h
      · cases h; exact absurd hk (hnamed _ _ _)
      split at h
      · cases h; exact absurd hk (hnamed _ _ _)
      split at h
      · cases h
      · unfold finishRuled at h
        simp only at h
        split at h
        · cases h; cases hk
        · split at h
          · cases h
          · rename_i hasc
            split at h
            · cases h
            · cases h
              exact ⟨by simpa using hasc, rfl⟩
  · cases h; cases hk

/-- For a tidy regexp segment: empty suffix ⇒ the text ends with `}`. -/
theorem rx_suffix_nil_last {ic : Interceptors} {v : Bytes} {s : Seg} (h : newSegment ic v = .ok s) (ht : P8.Tidy v)
    (hk : s.kind = .rx) (hs : s.suffix = []) : lastByte v = endByte := by
  have hns : s.kind ≠ .str := by rw [hk]; decide
  have htok : P8.TokForm v := by
    rcases ht with hn | ht
    · exact absurd ((P8.Tidy.lit_iff (.inl hn) h).2 hn) hns
    · exact ht
  obtain ⟨ia, sa, rfl, hia, hsa⟩ := htok
  have hst : indexByte startByte (startByte :: (ia ++ endByte :: sa)) = some 0 := by simp [indexByte]
  have hen : indexByte endByte (startByte :: (ia ++ endByte :: sa)) = some (ia.length + 1) := by
    have : ¬ startByte = endByte := startByte_ne_endByte
    simp only [indexByte, this, if_false]
    rw [indexByte_append, indexByte_eq_none_iff.2 hia.2]
    simp [indexByte]
  have hsuf : s.suffix = sa := by
    rw [(P9.newSegment_brace_facts h hst hen).2.1]
    simp [List.drop_append]
  rw [hsuf] at hs
  subst hs
  rw [show startByte :: (ia ++ [endByte]) = (startByte :: ia) ++ endByte :: [] from rfl, lastByte_append_cons]
  simp [lastByte]

/-! ## Hypotheses on the value of a regexp parameter -/

/-- The exact hypothesis for a regexp segment `s`, value `v` and remaining path `R`: the anchored leftmost-first
match of `(rule)suffix` on `v ++ suffix ++ R` captures exactly `v` (and so leaves exactly `R`); and the segment is
inside the modelled domain of the regexp engine on that path. -/
def RxExact (s : Seg) (v R : Bytes) : Prop :=
  rxMatch s.re s.suffix (v ++ s.suffix ++ R) = some (v, R) ∧ (s.re.wide = true → isAscii (v ++ s.suffix ++ R) = true)

instance (s : Seg) (v R : Bytes) : Decidable (RxExact s v R) := by unfold RxExact; infer_instance

/-- A hypothesis on the value alone: `v` is in the language of the rule, and
* if literal text follows the parameter inside the segment, the rule cannot consume its first byte;
* if the segment ends with the parameter (then it ends the pattern), matching `v` alone captures all of `v`
  (this is `Segment.Valid`). -/
def RxSimple (s : Seg) (v : Bytes) : Prop :=
  Re.Denotes s.re v ∧
    match s.suffix with
    | [] => rxMatch s.re [] v = some (v, [])
    | b :: _ => Re.avoids s.re b = true

theorem rxExact_of_simple {s : Seg} {v R : Bytes} (h : RxSimple s v) (hR : s.suffix = [] → R = [])
    (hw : s.re.wide = true → isAscii (v ++ s.suffix ++ R) = true) : RxExact s v R := by
  refine ⟨?_, hw⟩
  obtain ⟨hd, h2⟩ := h
  cases hs : s.suffix with
  | nil =>
    rw [hs] at h2
    have := hR hs
    subst this
    simpa using h2
  | cons b suf =>
    rw [hs] at h2
    exact rxMatch_extend s.re b suf v R h2 hd

/-- What the exact hypothesis gives for `Segment.Match`. -/
theorem seg_match_rx (env : Env) (ic : Interceptors) {s : Seg} (hk : s.kind = .rx) (hasc : isAscii s.suffix = true)
    {v R : Bytes} (h : RxExact s v R) : s.match env ic (s.inst v ++ R) = .yes v R := by
  have hinst : s.inst v = v ++ s.suffix := by simp [Seg.inst, hk]
  rw [hinst]
  simp only [Seg.match, hk]
  have hdom : ¬ ((s.re.wide = true ∧ ¬ isAscii (v ++ s.suffix ++ R) = true) ∨ ¬ isAscii s.suffix = true) := by
    rintro (⟨hw, hn⟩ | hn)
    · exact hn (h.2 hw)
    · exact hn hasc
  rw [if_neg hdom, h.1]

/-- The exact hypothesis implies `Segment.Valid` (the strict URL check): `valid` is NECESSARY. -/
theorem valid_of_rxExact (env : Env) (ic : Interceptors) {s : Seg} (hk : s.kind = .rx) (hasc : isAscii s.suffix = true)
    {v R : Bytes} (h : RxExact s v R) : s.valid env ic v = some true :=
  P13.valid_of_capOk ⟨s.inst v ++ R, R, seg_match_rx env ic hk hasc h⟩

/-! ## Good values -/

/-- The value `v` is good for the segment `s` of the chain when the rest of the witness path is `R`:
`SimpleVal` for literal / named / interceptor segments, `RxExact` for regexp segments. -/
def GoodValAt (env : Env) (ic : Interceptors) (s : Seg) (v R : Bytes) : Prop :=
  SimpleVal env ic s v ∨ (s.kind = .rx ∧ RxExact s v R)

def GoodChain (env : Env) (ic : Interceptors) : List (Seg × Bytes) → Prop
  | [] => True
  | sv :: rest => GoodValAt env ic sv.1 sv.2 (instChain rest) ∧ GoodChain env ic rest

/-- The hypothesis on the values alone. -/
def GoodVal (env : Env) (ic : Interceptors) (s : Seg) (v : Bytes) : Prop :=
  SimpleVal env ic s v ∨ (s.kind = .rx ∧ RxSimple s v)

/-- In a tree satisfying the invariants, good values make the chain match. -/
theorem matchChain_of_good {ic0 ic' : Interceptors} (env : Env) (ic : Interceptors) :
    ∀ (chain : List (Seg × Bytes)) (n x : Node), Chain n (chain.map (·.1)) x →
      Node.All (P8.SOk2 ic0) n → Node.All (Sh ic') n → GoodChain env ic chain → MatchChain env ic chain := by
  intro chain
  induction chain with
  | nil => intro _ _ _ _ _ _; trivial
  | cons sv rest ih =>
    intro n x hch hs2 hsh hgood
    obtain ⟨s, v⟩ := sv
    simp only [List.map_cons] at hch
    cases hch
    rename_i c hc hrest
    have hcS2 : Node.All (P8.SOk2 ic0) c := AllL_mem hs2.tail hc
    have hcSh : Node.All (Sh ic') c := AllL_mem hsh.tail hc
    have hchild := hs2.head.1.child c hc
    have htidy := hs2.head.2.tidy c hc
    refine ⟨?_, ih c x hrest hcS2 hcSh hgood.2⟩
    rcases hgood.1 with hsv | ⟨hk, hex⟩
    · -- as in `P14.witness_node`
      have hshc := hsh.head.1 c hc
      have hend : c.seg.kind ≠ .str → c.seg.endpoint = true → instChain rest = [] := by
        intro hk he
        have hk' : c.seg.kind = .icpt ∨ c.seg.kind = .named := by
          have := hsv.1
          cases hkk : c.seg.kind with
          | str => exact absurd hkk hk
          | rx => exact absurd hkk this
          | icpt => exact .inl rfl
          | named => exact .inr rfl
        have hlast := (param_seg_facts hchild.2.2 htidy hk').2 he
        have hcl : P11.Closed c.seg.value := (lastByte_closed hchild.2.1).1 hlast
        have hnil := hshc.2.2.2 hcl
        cases rest with
        | nil => rfl
        | cons sv' rest' =>
          obtain ⟨s', v'⟩ := sv'
          simp only [List.map_cons] at hrest
          cases hrest
          rename_i c' hc' _
          rw [hnil] at hc'; cases hc'
      exact seg_match_simple (ic0 := ic0) env ic hchild.2.2 htidy hsv hend
    · exact ⟨v, seg_match_rx env ic hk (newSegment_rx_facts hchild.2.2 hk).1 hex⟩

/-- From the hypothesis on the values alone to the exact one: in the tree a regexp segment without suffix has no
children, so the rest of the path is empty there. -/
theorem goodChain_of_vals {ic0 ic' : Interceptors} (env : Env) (ic : Interceptors) :
    ∀ (chain : List (Seg × Bytes)) (n x : Node), Chain n (chain.map (·.1)) x →
      Node.All (P8.SOk2 ic0) n → Node.All (Sh ic') n → (∀ sv ∈ chain, GoodVal env ic sv.1 sv.2) →
      (isAscii (instChain chain) = true ∨ ∀ sv ∈ chain, sv.1.kind = .rx → sv.1.re.wide = false) →
      GoodChain env ic chain := by
  intro chain
  induction chain with
  | nil => intro _ _ _ _ _ _ _; trivial
  | cons sv rest ih =>
    intro n x hch hs2 hsh hgood hasc
    obtain ⟨s, v⟩ := sv
    simp only [List.map_cons] at hch
    cases hch
    rename_i c hc hrest
    have hcS2 : Node.All (P8.SOk2 ic0) c := AllL_mem hs2.tail hc
    have hcSh : Node.All (Sh ic') c := AllL_mem hsh.tail hc
    have hchild := hs2.head.1.child c hc
    have htidy := hs2.head.2.tidy c hc
    have hshc := hsh.head.1 c hc
    have hasc' : isAscii (instChain rest) = true ∨ ∀ sv ∈ rest, sv.1.kind = .rx → sv.1.re.wide = false := by
      rcases hasc with h | h
      · left
        rw [show instChain ((c.seg, v) :: rest) = c.seg.inst v ++ instChain rest from rfl, isAscii_append] at h
        simp only [Bool.and_eq_true] at h
        exact h.2
      · exact .inr (fun sv h' => h sv (List.mem_cons_of_mem _ h'))
    refine ⟨?_, ih c x hrest hcS2 hcSh (fun sv h' => hgood sv (List.mem_cons_of_mem _ h')) hasc'⟩
    rcases hgood (c.seg, v) List.mem_cons_self with hsv | ⟨hk, hsim⟩
    · exact .inl hsv
    · replace hk : c.seg.kind = .rx := hk
      replace hsim : RxSimple c.seg v := hsim
      refine .inr ⟨hk, rxExact_of_simple hsim ?_ ?_⟩
      · intro hsuf
        have hlast := rx_suffix_nil_last hchild.2.2 htidy hk hsuf
        have hcl : P11.Closed c.seg.value := (lastByte_closed hchild.2.1).1 hlast
        have hnil := hshc.2.2.2 hcl
        cases rest with
        | nil => rfl
        | cons sv' rest' =>
          obtain ⟨s', v'⟩ := sv'
          simp only [List.map_cons] at hrest
          cases hrest
          rename_i c' hc' _
          rw [hnil] at hc'; cases hc'
      · intro hw
        rcases hasc with h | h
        · have hinst : c.seg.inst v = v ++ c.seg.suffix := by simp [Seg.inst, hk]
          rw [show instChain ((c.seg, v) :: rest) = c.seg.inst v ++ instChain rest from rfl, hinst] at h
          exact h
        · have := h (c.seg, v) List.mem_cons_self hk
          simp only at this
          rw [this] at hw; cases hw

/-! ## The tree-level theorems -/

/-- **C03_witness with regexp segments (exact hypothesis).** -/
theorem witness_tree_good {t : Tree} (hinv : AllInv t) (env : Env) (chain : List (Seg × Bytes)) (x : Node)
    (hch : Chain t.root (chain.map (·.1)) x) (hx : x.handlers ≠ [])
    (hs : GoodChain env t.ic chain) (method : Bytes) (f : Found)
    (hres : t.handler env (instChain chain) [] method = .res f) :
    ∃ q, f.node = some q ∧ q.handlers ≠ [] ∧
      (instChain chain ≠ [] → instChain chain ≠ [42] → (t.trace = none ∨ method ≠ mTRACE) →
        Wins t.root (chain.map (·.1)) x q) :=
  witness_tree_match hinv env chain x hch hx
    (matchChain_of_good (ic0 := t.ic) (ic' := t.ic) env t.ic chain t.root x hch hinv.s2.all hinv.ti.sh hs) method f hres

/-- **C03_witness with regexp segments (hypothesis on the values alone).** -/
theorem witness_tree_vals {t : Tree} (hinv : AllInv t) (env : Env) (chain : List (Seg × Bytes)) (x : Node)
    (hch : Chain t.root (chain.map (·.1)) x) (hx : x.handlers ≠ [])
    (hs : ∀ sv ∈ chain, GoodVal env t.ic sv.1 sv.2)
    (hasc : isAscii (instChain chain) = true ∨ ∀ sv ∈ chain, sv.1.kind = .rx → sv.1.re.wide = false)
    (method : Bytes) (f : Found) (hres : t.handler env (instChain chain) [] method = .res f) :
    ∃ q, f.node = some q ∧ q.handlers ≠ [] ∧
      (instChain chain ≠ [] → instChain chain ≠ [42] → (t.trace = none ∨ method ≠ mTRACE) →
        Wins t.root (chain.map (·.1)) x q) :=
  witness_tree_good hinv env chain x hch hx
    (goodChain_of_vals (ic0 := t.ic) (ic' := t.ic) env t.ic chain t.root x hch hinv.s2.all hinv.ti.sh hs hasc) method f hres

/-- **C03_witness, table form, with regexp segments.** -/
theorem witness_table_vals {t : Tree} (hinv : AllInv t) (env : Env) {p m : Bytes} (h : (tableOf t).has p m) :
    ∃ (x : Node) (segs : List Seg), Chain t.root segs x ∧ segs ≠ [] ∧ x.pattern = p ∧
      p = (segs.map (·.value)).flatten ∧ x.handlers.contains m = true ∧
      ∀ vs : List Bytes, vs.length = segs.length → (∀ sv ∈ segs.zip vs, GoodVal env t.ic sv.1 sv.2) →
        (isAscii (instChain (segs.zip vs)) = true ∨ ∀ s ∈ segs, s.kind = .rx → s.re.wide = false) →
        (∀ s, t.handler env (instChain (segs.zip vs)) [] m ≠ .fault s) ∧
        ∀ f, t.handler env (instChain (segs.zip vs)) [] m = .res f →
          ∃ q, f.node = some q ∧ q.handlers ≠ [] ∧
            (instChain (segs.zip vs) ≠ [] → instChain (segs.zip vs) ≠ [42] → (t.trace = none ∨ m ≠ mTRACE) →
              Diverges t.root segs x q) := by
  obtain ⟨x, segs, hch, hne, hp, hflat, hm⟩ := live_chain hinv h
  refine ⟨x, segs, hch, hne, hp, hflat, hm, fun vs hlen hgood hasc => ?_⟩
  have hmap : (segs.zip vs).map (·.1) = segs := by rw [List.map_fst_zip]; omega
  have hch' : Chain t.root ((segs.zip vs).map (·.1)) x := by rw [hmap]; exact hch
  have hlive : x.handlers ≠ [] := by intro e; rw [e] at hm; simp [AMap.contains] at hm
  have hasc' : isAscii (instChain (segs.zip vs)) = true ∨
      ∀ sv ∈ segs.zip vs, sv.1.kind = .rx → sv.1.re.wide = false := by
    rcases hasc with h' | h'
    · exact .inl h'
    · exact .inr (fun sv hsv => h' sv.1 (List.of_mem_zip hsv).1)
  refine ⟨handler_no_fault hinv.treeInv env _ _ _, fun f hres => ?_⟩
  obtain ⟨q, h1, h2, h3⟩ := witness_tree_vals hinv env _ x hch' hlive hgood hasc' m f hres
  exact ⟨q, h1, h2, fun a b c => by have := (h3 a b c).diverges; rwa [hmap] at this⟩

end Mux.P17
