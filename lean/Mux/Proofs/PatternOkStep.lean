/-
  Mux.Proofs.PatternOkStep — `PatternOk` (every stored pattern is the parent's pattern followed by the
  node's segment text) holds for a new tree and is preserved by every tree operation, hence by
  every history.  (Instances of the `NodeW` lemmas with the trivial handler predicate.)
-/
import Mux.Proofs.WOkOps
import Mux.Proofs.TreeReach
namespace Mux.P10
open Mux

/-- The pattern part of the invariant alone. -/
def PatInv (t : Tree) : Prop := Node.PatternOk t.root ∧ t.root.pattern = []

theorem PatInv.toW {t : Tree} (h : PatInv t) : NodeW (fun _ _ => True) t.root :=
  NodeW_of t.root h.1 (((All_iff_nodes _).1 t.root).2 (fun _ _ => trivial))

theorem PatInv.ofW {root : Node} (h : NodeW (fun _ _ => True) root) : Node.PatternOk root := NodeW_patternOk root h

theorem PatternOk_setHandlers {n : Node} (hs : AMap Handler) (mi : Nat) (h : Node.PatternOk n) :
    Node.PatternOk (n.setHandlers hs mi) := by
  rw [Node.patternOk_iff] at h ⊢
  simpa [Node.setHandlers] using h

theorem patInv_new (name : Bytes) (ic : Interceptors) (nf : Handler) (tr : Option Handler) (ob nb : Base) :
    PatInv (Tree.new name ic nf tr ob nb) := by
  refine ⟨?_, rfl⟩
  simp [Tree.new, Node.PatternOk, PatternOkL]

theorem patInv_step {t : Tree} (h : PatInv t) (op : TOp) : PatInv (t.step op) := by
  cases op with
  | add p hd ms methods =>
    simp only [Tree.step]
    split
    · rename_i t' he
      obtain ⟨v, rest, root1, path, root2, _, _, hget, hmod, rfl⟩ := Tree.add_ok he
      obtain ⟨hp1, _, hh1, _, hw1, _, m, hm, _, _⟩ :=
        getNode_W t.ic (fun _ _ => True) (fun _ => trivial) t.root v rest _ ((NodeW_iff _).1 h.toW).2 hget
      simp only at hp1 hw1 hm
      have hroot1 : NodeW (fun _ _ => True) root1 := by
        rw [NodeW_iff, hp1]; exact ⟨trivial, hw1⟩
      obtain ⟨hW2, hp2, _, _, _⟩ := modifyAt_W (P := fun _ _ => True)
        (t.addMethodsNode hd p ms (effMethods methods)) path root1 root2 m hroot1 hm
        (by
          intro m' hm'
          unfold Tree.addMethodsNode at hm'
          simp only [bind, Except.bind, pure, Except.pure] at hm'
          split at hm'
          · simp at hm'
          simp only [Except.ok.injEq] at hm'
          subst hm'
          exact ⟨rfl, rfl, rfl, trivial⟩) hmod
      refine ⟨PatternOk_setHandlers _ _ (PatInv.ofW hW2), ?_⟩
      show (Node.setHandlers _ _ _).pattern = []
      simp only [Node.setHandlers, Node.pattern_mk]
      rw [hp2, hp1]; exact h.2
    · exact h
  | remove p methods =>
    simp only [Tree.step]
    split
    · rename_i t' he
      rcases Tree.remove_ok he with rfl | ⟨path, root1, _, hrem, rfl⟩
      · exact h
      · obtain ⟨hW1, hp1, _, _⟩ := removeAt_W (P := fun _ _ => True) (removeMethods t.hasTrace methods)
          (by
            intro m hm
            have hf : (removeMethods t.hasTrace methods m).pattern = m.pattern ∧
                (removeMethods t.hasTrace methods m).seg = m.seg ∧
                (removeMethods t.hasTrace methods m).children = m.children := by
              unfold removeMethods; simp [Node.setHandlers]
            refine ⟨?_, hf.1, hf.2.1⟩
            rw [NodeW_iff] at hm ⊢
            rw [hf.1, hf.2.2]; exact ⟨trivial, hm.2⟩) path t.root root1 h.toW hrem
        refine ⟨PatternOk_setHandlers _ _ (PatInv.ofW hW1), ?_⟩
        show (Node.setHandlers _ _ _).pattern = []
        simp only [Node.setHandlers, Node.pattern_mk]
        rw [hp1]; exact h.2
    · exact h
  | clean pre =>
    simp only [Tree.step]
    split
    · rename_i t' he
      obtain ⟨root1, hclean, rfl⟩ := Tree.clean_ok he
      obtain ⟨hW1, hp1, _, _, _⟩ := clean_W (P := fun _ _ => True) t.root pre root1 h.toW hclean
      refine ⟨PatternOk_setHandlers _ _ (PatInv.ofW hW1), ?_⟩
      show (Node.setHandlers _ _ _).pattern = []
      simp only [Node.setHandlers, Node.pattern_mk]
      rw [hp1]; exact h.2
    · exact h
  | use ms =>
    refine ⟨PatInv.ofW (applyMw_W (P := fun _ _ => True) (P' := fun _ _ => True) t.name ms
      (fun _ _ _ => trivial) t.root h.toW), ?_⟩
    show (t.root.applyMw t.name ms).pattern = []
    rw [(applyMw_fields t.name ms t.root).2.1]; exact h.2

theorem patInv_run {t : Tree} (h : PatInv t) (ops : List TOp) : PatInv (t.run ops) := by
  unfold Tree.run
  induction ops generalizing t with
  | nil => exact h
  | cons op ops ih => exact ih (patInv_step h op)

/-- Every tree a history produces has consistent stored patterns. -/
theorem Tree.Reach.patternOk {t : Tree} (h : t.Reach) : Node.PatternOk t.root ∧ t.root.pattern = [] := by
  obtain ⟨name, ic, nf, tr, ob, nb, ops, rfl⟩ := h
  exact patInv_run (patInv_new name ic nf tr ob nb) ops

end Mux.P10
