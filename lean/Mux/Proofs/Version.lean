/-
  Helper lemmas for C15 (version matchers): `normVersion`, `pathVersionMatch`, `headerVersionMatch`
  and the two `Matcher.run` cases.
-/
import Mux.Model.Router
namespace Mux

/-! ## `hasPrefix` -/

theorem hasPrefix_iff (s p : Bytes) : hasPrefix s p = true ↔ p <+: s := by
  unfold hasPrefix; exact List.isPrefixOf_iff_prefix

theorem hasPrefix_dropLast {s v : Bytes} (h : hasPrefix s v = true) : hasPrefix s v.dropLast = true := by
  rw [hasPrefix_iff] at *
  exact (List.dropLast_prefix v).trans h

/-! ## `normVersion` -/

theorem normVersion_eq_none_iff (v : Bytes) : normVersion v = none ↔ v = [] := by
  cases v <;> simp [normVersion]

/-- Closed form: a `/` is prepended iff `v` does not start with one, appended iff it does not end with one. -/
theorem normVersion_eq (v : Bytes) (h : v ≠ []) :
    normVersion v = some ((if v.head? = some 47 then [] else [47]) ++ v ++
      (if v.getLast? = some 47 then [] else [47])) := by
  cases v with
  | nil => exact absurd rfl h
  | cons c cs =>
    simp only [normVersion, List.head?_cons, Option.some.injEq]
    by_cases hc : c = 47
    · subst hc
      simp only [ne_eq, not_true_eq_false, if_false, if_true, List.nil_append]
      by_cases hl : (47 :: cs : Bytes).getLast? = some 47
      · simp [hl]
      · simp [hl]
    · simp only [ne_eq, hc, not_false_eq_true, if_true, if_false]
      have : (47 :: c :: cs : Bytes).getLast? = (c :: cs).getLast? := List.getLast?_cons_cons
      rw [this]
      by_cases hl : (c :: cs : Bytes).getLast? = some 47
      · simp [hl]
      · simp [hl]

theorem normVersion_shape (v r : Bytes) (h : normVersion v = some r) :
    r.head? = some 47 ∧ r.getLast? = some 47 ∧ r ≠ [] := by
  have hv : v ≠ [] := fun hv => by subst hv; simp [normVersion] at h
  rw [normVersion_eq v hv] at h
  cases h
  cases v with
  | nil => exact absurd rfl hv
  | cons c cs =>
    refine ⟨?_, ?_, ?_⟩
    · by_cases hc : c = 47 <;> simp [hc]
    · by_cases hl : (c :: cs : Bytes).getLast? = some 47
      · simp only [hl, if_true, List.append_nil]
        rw [List.getLast?_append, hl]; rfl
      · rw [if_neg hl, List.getLast?_append]; rfl
    · simp

/-! ## `pathVersionMatch` -/

theorem sliceE_dropLast (site : Nat) (v : Bytes) : sliceE site v 0 (v.length - 1) = .ok v.dropLast := by
  unfold sliceE
  rw [if_pos ⟨Nat.zero_le _, Nat.sub_le _ _⟩, List.dropLast_eq_take]
  rfl

theorem pathVersionMatch_cons (param ver : Bytes) (vers : List Bytes) (p : Bytes) (ps : Params) :
    pathVersionMatch param (ver :: vers) p ps =
      if hasPrefix p ver then
        .ok (some (p.drop (ver.length - 1), if param ≠ [] then ps.set param ver.dropLast else ps))
      else pathVersionMatch param vers p ps := by
  rw [pathVersionMatch]
  by_cases h : hasPrefix p ver = true
  · simp only [h, if_true, sliceE_dropLast, bind, Except.bind, pure, Except.pure, hasPrefix_dropLast h,
      List.length_dropLast]
  · simp only [h]; rfl

/-- The matcher is `List.find?` for the first version that is a prefix of the path. -/
theorem pathVersionMatch_eq_find (param : Bytes) (vers : List Bytes) (p : Bytes) (ps : Params) :
    pathVersionMatch param vers p ps =
      match vers.find? (hasPrefix p) with
      | none => .ok none
      | some ver => .ok (some (p.drop (ver.length - 1), if param ≠ [] then ps.set param ver.dropLast else ps)) := by
  induction vers with
  | nil => rfl
  | cons ver vers ih =>
    rw [pathVersionMatch_cons, List.find?_cons]
    by_cases h : hasPrefix p ver = true
    · simp [h]
    · simp only [h, ih]; rfl

theorem pathVersionMatch_ne_error (param : Bytes) (vers : List Bytes) (p : Bytes) (ps : Params) (e : Err) :
    pathVersionMatch param vers p ps ≠ .error e := by
  rw [pathVersionMatch_eq_find]
  cases vers.find? (hasPrefix p) <;> simp

theorem pathVersionMatch_none_iff (param : Bytes) (vers : List Bytes) (p : Bytes) (ps : Params) :
    pathVersionMatch param vers p ps = .ok none ↔ ∀ ver ∈ vers, ¬ hasPrefix p ver = true := by
  rw [pathVersionMatch_eq_find]
  cases h : vers.find? (hasPrefix p) with
  | none =>
    simp only [true_iff]
    rw [List.find?_eq_none] at h
    exact h
  | some ver =>
    simp only [Except.ok.injEq, reduceCtorEq, false_iff]
    intro hall
    exact hall ver (List.mem_of_find?_eq_some h) (List.find?_some h)

theorem pathVersionMatch_some_iff (param : Bytes) (vers : List Bytes) (p : Bytes) (ps : Params)
    (p' : Bytes) (ps' : Params) :
    pathVersionMatch param vers p ps = .ok (some (p', ps')) ↔
      ∃ pre ver post, vers = pre ++ ver :: post ∧ (∀ u ∈ pre, ¬ hasPrefix p u = true) ∧
        hasPrefix p ver = true ∧ p' = p.drop (ver.length - 1) ∧
        ps' = (if param ≠ [] then ps.set param ver.dropLast else ps) := by
  rw [pathVersionMatch_eq_find]
  constructor
  · intro h
    cases hf : vers.find? (hasPrefix p) with
    | none => rw [hf] at h; simp at h
    | some ver =>
      rw [hf] at h
      simp only [Except.ok.injEq, Option.some.injEq, Prod.mk.injEq] at h
      obtain ⟨hver, pre, post, hvers, hpre⟩ := List.find?_eq_some_iff_append.mp hf
      refine ⟨pre, ver, post, hvers, ?_, hver, h.1.symm, h.2.symm⟩
      intro u hu; simpa using hpre u hu
  · rintro ⟨pre, ver, post, hvers, hpre, hver, hp', hps'⟩
    have hf : vers.find? (hasPrefix p) = some ver := by
      rw [List.find?_eq_some_iff_append]
      refine ⟨hver, pre, post, hvers, ?_⟩
      intro u hu; simpa using hpre u hu
    rw [hf, hp', hps']

/-- With a normalised version (`… ++ "/"`) the rewritten path still starts with `/` and is what follows the
version segment: `p = seg ++ "/" ++ rest`, `p' = "/" ++ rest`, recorded parameter `seg`. -/
theorem drop_of_prefix_slash (p ver : Bytes) (h : hasPrefix p ver = true) (hl : ver.getLast? = some 47) :
    ∃ rest, p = ver.dropLast ++ 47 :: rest ∧ p.drop (ver.length - 1) = 47 :: rest := by
  rw [hasPrefix_iff] at h
  obtain ⟨rest, hr⟩ := h
  have hne : ver ≠ [] := by intro h0; subst h0; simp at hl
  have hv : ver = ver.dropLast ++ [47] := by
    have := List.dropLast_concat_getLast hne
    rw [List.getLast?_eq_some_getLast hne] at hl
    simp only [Option.some.injEq] at hl
    rw [hl] at this; exact this.symm
  refine ⟨rest, ?_, ?_⟩
  · rw [← hr]; conv => lhs; rw [hv]
    simp
  · rw [← hr]; conv => lhs; rw [hv]
    have : (ver.dropLast ++ [47]).length - 1 = ver.dropLast.length := by simp
    rw [this, List.append_assoc, List.drop_left]
    rfl

/-! ## `headerVersionMatch` -/

theorem headerVersionMatch_iff (param key : Bytes) (versions : List Bytes) (req : Req) (ps ps' : Params) :
    headerVersionMatch param key versions req ps = some ps' ↔
      req.headers.get hAccept ≠ [] ∧ ∃ mp, req.acceptParams = some mp ∧
        ((mp.get? key).getD []) ∈ versions ∧
        ps' = (if param ≠ [] then ps.set param ((mp.get? key).getD []) else ps) := by
  unfold headerVersionMatch
  by_cases h1 : req.headers.get hAccept = []
  · simp [h1]
  · simp only [h1, if_false, ne_eq, not_false_eq_true, true_and]
    cases h2 : req.acceptParams with
    | none => simp
    | some mp =>
      simp only [Option.some.injEq, exists_eq_left']
      by_cases h3 : ((mp.get? key).getD []) ∈ versions
      · have : versions.contains ((mp.get? key).getD []) = true := List.contains_iff_mem.mpr h3
        simp only [this, if_true, Option.some.injEq, h3, true_and]
        exact eq_comm
      · have : versions.contains ((mp.get? key).getD []) = false := by
          rw [Bool.eq_false_iff]; intro hc; exact h3 (List.contains_iff_mem.mp hc)
        simp [h3]

/-! ## `Matcher.run` for the two version matchers -/

theorem run_pathVersion (env : Env) (tab : Nat → Option Hosts) (param : Bytes) (vers : List Bytes)
    (req : Req) (path : Bytes) (ps : Params) :
    (Matcher.pathVersion param vers).run env tab req path ps =
      match vers.find? (hasPrefix path) with
      | none => .reject path ps
      | some ver => .accept (path.drop (ver.length - 1))
          (if param ≠ [] then ps.set param ver.dropLast else ps) := by
  rw [Matcher.run, pathVersionMatch_eq_find]
  cases vers.find? (hasPrefix path) <;> rfl

theorem run_headerVersion (env : Env) (tab : Nat → Option Hosts) (param key : Bytes) (vers : List Bytes)
    (req : Req) (path : Bytes) (ps : Params) :
    (Matcher.headerVersion param key vers).run env tab req path ps =
      match headerVersionMatch param key vers req ps with
      | some ps' => .accept path ps'
      | none => .reject path ps := by
  rw [Matcher.run]
  cases headerVersionMatch param key vers req ps <;> rfl

theorem run_pathVersion_reject (env : Env) (tab : Nat → Option Hosts) (param : Bytes) (vers : List Bytes)
    (req : Req) (path : Bytes) (ps : Params) (p' : Bytes) (ps' : Params)
    (h : (Matcher.pathVersion param vers).run env tab req path ps = .reject p' ps') :
    p' = path ∧ ps' = ps := by
  rw [run_pathVersion] at h
  cases hf : vers.find? (hasPrefix path) <;> rw [hf] at h <;> simp at h
  exact ⟨h.1.symm, h.2.symm⟩

theorem run_headerVersion_reject (env : Env) (tab : Nat → Option Hosts) (param key : Bytes) (vers : List Bytes)
    (req : Req) (path : Bytes) (ps : Params) (p' : Bytes) (ps' : Params)
    (h : (Matcher.headerVersion param key vers).run env tab req path ps = .reject p' ps') :
    p' = path ∧ ps' = ps := by
  rw [run_headerVersion] at h
  cases hf : headerVersionMatch param key vers req ps <;> rw [hf] at h <;> simp at h
  exact ⟨h.1.symm, h.2.symm⟩

/-- Neither version matcher ever faults or leaves the modelled domain. -/
theorem run_pathVersion_total (env : Env) (tab : Nat → Option Hosts) (param : Bytes) (vers : List Bytes)
    (req : Req) (path : Bytes) (ps : Params) :
    (∀ s, (Matcher.pathVersion param vers).run env tab req path ps ≠ .fault s) ∧
    (Matcher.pathVersion param vers).run env tab req path ps ≠ .unsupported := by
  rw [run_pathVersion]
  cases vers.find? (hasPrefix path) <;> simp

end Mux
